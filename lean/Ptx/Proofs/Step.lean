/-
  Ptx.Proofs.Step — every legal step preserves "some open branch is satisfied"; soundness along
  any derivation; a countermodel satisfies the trunk.
-/
import Ptx.Proofs.Quant
namespace Ptx
variable {L : LogicData} {M : Struct}

/-! ### the step theorem -/

/-- the decidable side conditions of the soundness theorem (per-logic obligations) -/
structure LogicData.SoundOK (L : LogicData) : Prop where
  total : L.tablesTotalB = true
  rules : L.unsoundRules = []
  closure : L.unsoundClosure = []
  frames : L.frameRulesOKB = true
  ident : L.identOKB = true
  trunk : L.trunkOKB = true
  vocab : L.vocabOKB = true

theorem instAdds_not_closure {whole l : Sent} {r raw : Option Sent} {var : Nat × Nat} {w wo : Option Nat}
    {br : List AddT} {g : List Node} (h : instAdds whole l r raw var w wo br = some g) :
    ∀ n ∈ g, n.isClosure = false := by
  intro n hn
  obtain ⟨ad, _, hf⟩ := mapOpt_mem_bwd h n hn
  cases ad with
  | access =>
    simp only at hf
    split at hf
    · simp at hf; subst hf; rfl
    · cases hf
  | node nt =>
    simp only at hf
    split at hf
    · cases hf
    · split at hf
      · split at hf
        · simp at hf; subst hf; rfl
        · cases hf
      · simp at hf; subst hf; rfl

theorem groups_not_closure {whole l : Sent} {r raw : Option Sent} {var : Nat × Nat} {w wo : Option Nat}
    {brs : List (List AddT)} {gs : List (List Node)}
    (h : mapOpt (instAdds whole l r raw var w wo) brs = some gs) :
    ∀ g ∈ gs, ∀ n ∈ g, n.isClosure = false := by
  intro g hg
  obtain ⟨br, _, hf⟩ := mapOpt_mem_bwd h g hg
  exact instAdds_not_closure hf

theorem getElem?_mem_nodes {b : Branch} {n : Nat} {nd : Node} (h : b.nodes[n]? = some nd) : nd ∈ b.nodes :=
  List.mem_of_getElem? h

theorem rule_mem_of_rule? {k : RuleKey} {r : Rule} (h : L.rule? k = some r) : (k, r) ∈ L.rules :=
  lookup_mem h

theorem vocab_modal (hv : L.vocabOKB = true) {k : RuleKey} {r : Rule} (h : L.rule? k = some r)
    {o : Op1} (hk : k.shape = .op1 o) (ho : o.isModal = true) : L.modal = true := by
  have := (List.all_eq_true.1 hv) _ (rule_mem_of_rule? h)
  simp [hk, ho] at this; exact this

theorem vocab_quant (hv : L.vocabOKB = true) {k : RuleKey} {r : Rule} (h : L.rule? k = some r)
    {q : Quant} (hk : k.shape = .quant q) : L.quantified = true := by
  have := (List.all_eq_true.1 hv) _ (rule_mem_of_rule? h)
  simp [hk] at this; exact this

/-- a table-rule step on a satisfied branch has a satisfied extension -/
theorem rule_ext_sat (hL : L.SoundOK) (hM : M.Interp L)
    {b : Branch} {s : Sent} {d : Option Bool} {w : Option Nat} {c : Option (Nat × Nat)} {wo : Option Nat}
    {r : Rule} {gs : List (List Node)}
    (hnode : Node.sent s d w ∈ b.nodes)
    (hg : L.ruleGroups b s d w c wo = some (r, gs))
    (e : Env M.D) (σ : Nat → M.W) (hsb : SatB L M e σ b) :
    (∀ g ∈ gs, ∀ n ∈ g, n.isClosure = false) ∧
    ∃ (e' : Env M.D) (σ' : Nat → M.W), SatB L M e' σ' b ∧ ∃ g ∈ gs, ∀ n ∈ g, satNode L M e' σ' n := by
  unfold LogicData.ruleGroups at hg
  split at hg
  · cases hg
  · next sh ng whole hd =>
    split at hg
    · next r' l0 hr hl0 =>
      split at hg
      · cases hg
      · next hmodw =>
        split at hg
        · next gs' hwg =>
          simp at hg
          obtain ⟨rfl, rfl⟩ := hg
          have hsound := ruleSound_of_nil hL.rules hr
          have hshape := decomp_shape hd
          cases sh with
          | quant q =>
            have hqq := vocab_quant hL.vocab hr (q := q) rfl
            simp only [Bool.or_eq_true, Bool.and_eq_true, Bool.not_eq_true', not_or, Bool.not_eq_false] at hmodw
            cases whole <;> simp [Shape.of] at hshape
            rename_i q' vi vs body
            obtain rfl := hshape.symm
            simp [Sent.lhs?] at hl0; subst hl0
            have hok : (Sent.quant q vi vs body).quantOK L = true := hmodw.2
            unfold witnessGroups at hwg
            have hcl : ∀ g ∈ gs', ∀ n ∈ g, n.isClosure = false := by
              cases hw : r'.witness <;> simp only [hw] at hwg
              · split at hwg
                · cases hwg
                · exact groups_not_closure hwg
              · split at hwg
                · split at hwg
                  · cases hwg
                  · exact groups_not_closure hwg
                · cases hwg
              · split at hwg
                · split at hwg
                  · cases hwg
                  · exact groups_not_closure hwg
                · cases hwg
              · split at hwg
                · split at hwg
                  · cases hwg
                  · exact groups_not_closure hwg
                · cases hwg
              · split at hwg
                · split at hwg
                  · cases hwg
                  · exact groups_not_closure hwg
                · cases hwg
            refine ⟨hcl, ?_⟩
            obtain ⟨e', h1, h2⟩ := quant_rule_sound hL.total hM hqq hd hok hsound b hnode c (gs := gs') (by
              cases hw : r'.witness <;> simp only [hw] at hwg ⊢
              · split at hwg
                · cases hwg
                · simpa [Sent.rhs?, Sent.qraw, Sent.qvar] using hwg
              · split at hwg
                · next _ _ ci cs =>
                  split at hwg
                  · cases hwg
                  · next hcond =>
                    simp at hcond
                    exact ⟨ci, cs, rfl, by simpa using hcond.1, by simpa [Sent.instC, Sent.qraw, Sent.qvar] using hwg⟩
                · cases hwg
              · split at hwg
                · next _ _ ci cs =>
                  split at hwg
                  · cases hwg
                  · exact ⟨ci, cs, rfl, by simpa [Sent.instC, Sent.qraw, Sent.qvar] using hwg⟩
                · cases hwg) e σ hsb
            exact ⟨e', σ, h1, h2⟩
          | op2 o =>
            have hwn : r'.witness = .none := by
              simp only [LogicData.ruleSoundB, Bool.and_eq_true, beq_iff_eq] at hsound; exact hsound.1
            unfold witnessGroups at hwg
            simp only [hwn] at hwg
            split at hwg
            · cases hwg
            · refine ⟨groups_not_closure hwg, e, σ, hsb, ?_⟩
              exact op_rule_sound hL.total hM hd (by simp [Shape.isTF]) hsound hl0 _ _ hwg e σ (hsb _ hnode)
          | op1 o =>
            by_cases hmo : o.isModal = true
            · -- modal rule
              have hm := vocab_modal hL.vocab hr rfl hmo
              simp [Shape.isModalShape, hmo] at hmodw
              obtain ⟨w0, rfl⟩ := Option.isSome_iff_exists.1 (by cases w <;> simp_all : w.isSome = true)
              cases whole <;> simp [Shape.of] at hshape
              rename_i o' A
              obtain rfl := hshape.symm
              simp [Sent.lhs?] at hl0; subst hl0
              unfold witnessGroups at hwg
              cases hw : r'.witness with
              | none =>
                simp only [hw] at hwg
                split at hwg
                · cases hwg
                · next hcw =>
                  simp at hcw
                  obtain ⟨_, rfl⟩ : c = none ∧ wo = none := by
                    cases c <;> cases wo <;> simp_all
                  refine ⟨groups_not_closure hwg, ?_⟩
                  obtain ⟨σ', h1, h2⟩ := modal_rule_sound hL.total hM hm hmo hd hsound b hnode _ none
                    (by simp [hw]) (by simpa [Sent.rhs?, Sent.qraw] using hwg) e σ hsb
                  exact ⟨e, σ', h1, h2⟩
              | newWorld =>
                simp only [hw] at hwg
                split at hwg
                · next _ w' w0' hw' =>
                  split at hwg
                  · cases hwg
                  · next hcond =>
                    simp at hcond
                    refine ⟨groups_not_closure hwg, ?_⟩
                    obtain ⟨σ', h1, h2⟩ := modal_rule_sound hL.total hM hm hmo hd hsound b hnode _ (some w')
                      (by simp [hw]; exact hcond.1) hwg e σ hsb
                    exact ⟨e, σ', h1, h2⟩
                · cases hwg
              | eachWorld =>
                simp only [hw] at hwg
                split at hwg
                · next _ w' w0' hw' =>
                  split at hwg
                  · cases hwg
                  · next hcond =>
                    simp at hcond
                    simp at hw'; subst hw'
                    refine ⟨groups_not_closure hwg, ?_⟩
                    obtain ⟨σ', h1, h2⟩ := modal_rule_sound hL.total hM hm hmo hd hsound b hnode _ (some w')
                      (by simp [hw]; simpa [Branch.hasAccess] using hcond.1) hwg e σ hsb
                    exact ⟨e, σ', h1, h2⟩
                · cases hwg
              | newConst =>
                exfalso
                have hn := hsb _ hnode
                simp only [LogicData.ruleSoundB, hmo, ↓reduceIte, hw, List.all_eq_true, Bool.or_false,
                  Bool.not_eq_true'] at hsound
                have := hsound _ (mProfiles_mem hM hL.total e (σ w0) A)
                simp only [satNode, Option.getD_some] at hn
                rw [eval_decomp hd, eval_modal hm e _ o hmo A] at hn
                simp [LogicData.nodeSatM, hn] at this
              | eachConst =>
                exfalso
                have hn := hsb _ hnode
                simp only [LogicData.ruleSoundB, hmo, ↓reduceIte, hw, List.all_eq_true, Bool.or_false,
                  Bool.not_eq_true'] at hsound
                have := hsound _ (mProfiles_mem hM hL.total e (σ w0) A)
                simp only [satNode, Option.getD_some] at hn
                rw [eval_decomp hd, eval_modal hm e _ o hmo A] at hn
                simp [LogicData.nodeSatM, hn] at this
            · have hmo' : o.isModal = false := by simpa using hmo
              have hwn : r'.witness = .none := by
                simp only [LogicData.ruleSoundB, hmo', Bool.false_eq_true, ↓reduceIte, Bool.and_eq_true,
                  beq_iff_eq] at hsound
                exact hsound.1
              unfold witnessGroups at hwg
              simp only [hwn] at hwg
              split at hwg
              · cases hwg
              · refine ⟨groups_not_closure hwg, e, σ, hsb, ?_⟩
                exact op_rule_sound hL.total hM hd (by simp [Shape.isTF, hmo']) hsound hl0 _ _ hwg e σ (hsb _ hnode)
        · cases hg
    · cases hg

theorem closeB_eq (b : Branch) : closeB b = b.extend [.flag "closure"] none := rfl

/-- every legal step preserves "some open branch is satisfied" -/
theorem step_sound (hL : L.SoundOK) (hM : M.Interp L)
    {t t' : Tableau} (s : Step) (hs : applyStep L t s = some t') (h : SatT L M t) : SatT L M t' := by
  unfold applyStep at hs
  split at hs
  · cases hs
  · next b hb =>
    split at hs
    · cases hs
    · next hbc =>
      have hbc : b.closed = false := by simpa using hbc
      cases s with
      | rule bi n c wo =>
        simp only [applyAt, Step.branch] at hs hb
        split at hs
        · next sn d w hnd =>
          split at hs
          · next r g0 rest hg =>
            simp at hs; subst hs
            have hnode := getElem?_mem_nodes hnd
            have hall := fun e σ hsb => rule_ext_sat (M := M) hL hM hnode hg e σ hsb
            -- closure-freeness does not depend on the interpretation; get it from any satisfied branch, or directly
            obtain ⟨e0, σ0, b0, hb0, hc0, hs0⟩ := h
            by_cases hne : b0 = b
            · subst hne
              exact satT_fork hb hbc (hall e0 σ0 hs0).1 (fun e σ hsb => (hall e σ hsb).2) ⟨e0, σ0, b0, hb0, hc0, hs0⟩
            · exact ⟨e0, σ0, b0, mem_fork_other hb hb0 hne, hc0, hs0⟩
          · cases hs
        · cases hs
      | close bi sn w =>
        simp only [applyAt, Step.branch] at hs hb
        split at hs
        · next hcl =>
          simp at hs; subst hs
          exact satT_set_other hb (closing_unsat hL.total hM hL.closure (by simpa using hcl)) h
        · cases hs
      | closeIdent bi n =>
        simp only [applyAt, Step.branch] at hs hb
        split at hs
        · next nd hnd =>
          split at hs
          · next hic =>
            simp at hs; subst hs
            refine satT_set_other hb ?_ h
            have hmem := getElem?_mem_nodes hnd
            unfold LogicData.identCloses at hic
            split at hic
            · next p x y d w =>
              simp only [Bool.and_eq_true, beq_iff_eq, bne_iff_ne, ne_eq] at hic
              obtain ⟨⟨⟨hc, rfl⟩, rfl⟩, hd⟩ := hic
              exact selfId_unsat hM hL.ident hc hd hmem
            · next p x d w =>
              simp only [Bool.and_eq_true, beq_iff_eq, bne_iff_ne, ne_eq] at hic
              obtain ⟨⟨hc, rfl⟩, hd⟩ := hic
              exact nonExist_unsat hM hL.ident hc hd hmem
            · cases hic
          · cases hs
        · cases hs
      | frame bi r w1 w2 w3 =>
        simp only [applyAt, Step.branch] at hs hb
        split at hs
        · cases hs
        · next hfa =>
          have hfa : L.frameAllowed r = true := by simpa using hfa
          split at hs
          · next nd hfr =>
            simp at hs; subst hs
            have := frame_step_sound hM hL.frames hb hbc hfa w1 w2 w3 h
            unfold frameAdd at hfr
            cases r <;> simp only at hfr this <;> split at hfr <;> simp at hfr <;> subst hfr
            · next hw => exact this (by simpa using hw)
            · next hw => simp [Branch.hasAccess] at hw; exact this hw.1 hw.2
            · next hw => simp [Branch.hasAccess] at hw; exact this hw
            · next hw => simp at hw; exact this hw.1 hw.2
          · cases hs
      | ident bi i p =>
        simp only [applyAt, Step.branch] at hs hb
        split at hs
        · cases hs
        · next hcond =>
          simp at hcond
          split at hs
          · next ni np hni hnp =>
            split at hs
            · next nd hid =>
              simp at hs; subst hs
              have hmi := getElem?_mem_nodes hni
              have hmp := getElem?_mem_nodes hnp
              unfold identAdd at hid
              split at hid
              · next q pa pb w pr ps w' =>
                split at hid
                · cases hid
                · next hc2 =>
                  simp at hc2
                  obtain ⟨⟨rfl, _⟩, rfl⟩ := hc2
                  refine satT_set hb hbc ?_ ?_ h
                  · intro n hn
                    split at hid
                    · simp at hid; subst hid; simp at hn; subst hn; rfl
                    · split at hid
                      · simp at hid; subst hid; simp at hn; subst hn; rfl
                      · cases hid
                  · intro e σ hsb
                    refine ⟨e, σ, hsb, ?_⟩
                    have := ident_subst_sat hL.total hM hL.ident hcond.1 e σ (hsb _ hmi) (hsb _ hmp)
                    intro n hn
                    split at hid
                    · simp at hid; subst hid; simp at hn; subst hn; exact this.1
                    · split at hid
                      · simp at hid; subst hid; simp at hn; subst hn; exact this.2
                      · cases hid
              · cases hid
            · cases hs
          · cases hs
      | quit bi name tick =>
        simp only [applyAt, Step.branch] at hs hb
        split at hs
        · cases hs
        · next hname =>
          simp at hs; subst hs
          refine satT_set hb hbc ?_ ?_ h
          · intro n hn; simp at hn; subst hn; simpa [Node.isClosure] using hname
          · intro e σ hsb; exact ⟨e, σ, hsb, by intro n hn; simp at hn; subst hn; trivial⟩

/-- soundness along any derivation -/
theorem deriv_sound (hL : L.SoundOK) (hM : M.Interp L)
    {t t' : Tableau} (hd : Deriv L t t') (h : SatT L M t) : SatT L M t' := by
  induction hd with
  | refl => exact h
  | step s hs _ ih => exact ih (step_sound hL hM s hs h)

theorem not_satT_of_allClosed {t : Tableau} (hc : t.allClosed = true) : ¬ SatT L M t := by
  rintro ⟨e, σ, b, hb, hbc, _⟩
  have := (List.all_eq_true.1 hc) b hb
  rw [hbc] at this; cases this

/-- a countermodel satisfies the trunk -/
theorem trunk_sat (hL : L.SoundOK) (hM : M.Interp L) (arg : Argument) (e : Env M.D) (w0 : M.W)
    (hc : Countermodel L M e w0 arg) : SatT L M (trunk L arg) := by
  have htr := hL.trunk
  simp only [LogicData.trunkOKB, Bool.and_eq_true, bne_iff_ne, ne_eq] at htr
  obtain ⟨hprem, hconc⟩ := htr
  refine ⟨e, fun _ => w0, _, List.mem_singleton.2 rfl, ?_, ?_⟩
  · simp [Branch.closed, Node.isClosure]
  · intro n hn
    simp only [List.mem_append, List.mem_map, List.mem_singleton] at hn
    rcases hn with ⟨p, hp, rfl⟩ | rfl
    · simp only [satNode]
      rw [satV_not_false hprem]
      exact hc.1 p hp
    · simp only [satNode]
      split at hconc
      · next hneg =>
        simp only [Bool.and_eq_true, bne_iff_ne, ne_eq, List.all_eq_true, Bool.or_eq_true] at hconc
        rw [if_pos hneg, satV_not_false hconc.1, eval_neg]
        have hv := eval_mem_vals L hL.total M hM arg.conclusion e w0
        rcases hconc.2 _ hv with h | h
        · rw [hc.2] at h; cases h
        · exact h
      · next hneg =>
        simp at hconc
        rw [if_neg hneg, hconc]
        simp [LogicData.satV, hc.2]


end Ptx
