/- helper lemmas for C14: the recursion budget `fuelFor` of the model always suffices
   (the cache-free call never answers `Err.fuel`)  (core Lean only) -/
import Ptx.Proofs.LangCacheSeq
namespace Ptx

/-! ### nesting depth of tuples -/

mutual
def Arg.depth : Arg → Nat
  | .tup xs => xs.depth + 1
  | _ => 0
def Args.depth : Args → Nat
  | .nil => 0
  | .cons a as => max a.depth as.depth
end

def depthL (l : List Arg) : Nat := (Args.ofList l).depth

@[simp] theorem depthL_nil : depthL [] = 0 := rfl
@[simp] theorem depthL_cons (a : Arg) (l : List Arg) : depthL (a :: l) = max a.depth (depthL l) := rfl
@[simp] theorem depth_tuple (l : List Arg) : (Arg.tuple l).depth = depthL l + 1 := rfl

theorem Args.depth_toList : ∀ xs : Args, depthL xs.toList = xs.depth
  | .nil => rfl
  | .cons a as => by simp [Args.toList, Args.depth, Args.depth_toList as]

theorem mem_depth {a : Arg} {l : List Arg} (h : a ∈ l) : a.depth ≤ depthL l := by
  induction l with
  | nil => simp at h
  | cons b l ih =>
    simp only [depthL_cons]
    rcases List.mem_cons.mp h with rfl | h
    · omega
    · have := ih h; omega

theorem depthL_le {l : List Arg} {D : Nat} (h : ∀ a ∈ l, Arg.depth a ≤ D) : depthL l ≤ D := by
  induction l with
  | nil => simp
  | cons b l ih =>
    simp only [depthL_cons]
    have h1 := h b (by simp)
    have h2 := ih (fun a ha => h a (List.mem_cons_of_mem _ ha))
    omega

theorem iterate_depth {a : Arg} {xs : List Arg} (h : iterate a = .ok xs) : depthL xs ≤ a.depth - 1 := by
  have hz : ∀ l : List Arg, (∀ b ∈ l, Arg.depth b = 0) → depthL l ≤ a.depth - 1 := by
    intro l hl
    have := depthL_le (D := 0) (fun b hb => by rw [hl b hb]; exact Nat.le_refl 0)
    omega
  unfold iterate at h
  split at h
  · simp at h
  · simp only [Except.ok.injEq] at h; subst h
    apply hz; intro b hb
    simp only [List.mem_map] at hb
    obtain ⟨c, _, rfl⟩ := hb; rfl
  · simp only [Except.ok.injEq] at h; subst h
    simp [Arg.depth, Args.depth_toList]
  · simp only [Except.ok.injEq] at h; subst h
    apply hz; intro b hb
    simp only [List.mem_map] at hb
    obtain ⟨c, _, rfl⟩ := hb; rfl
  · simp only [Except.ok.injEq] at h; subst h
    apply hz; intro b hb
    simp only [List.mem_cons, List.not_mem_nil, or_false] at hb
    rcases hb with rfl | rfl | rfl <;> rfl
  · simp only [Except.ok.injEq] at h; subst h
    apply hz; intro b hb
    simp only [List.mem_singleton] at hb; subst hb; rfl
  · simp only [Except.ok.injEq] at h; subst h
    apply hz; intro b hb
    simp only [List.mem_cons, List.not_mem_nil, or_false] at hb
    rcases hb with rfl | rfl <;> rfl
  · simp at h

mutual
theorem Arg.depth_le_size : ∀ a : Arg, a.depth ≤ a.size
  | .int _ => by simp [Arg.depth, Arg.size]
  | .str _ => by simp [Arg.depth, Arg.size]
  | .item _ => by simp [Arg.depth, Arg.size]
  | .tup xs => by
    have := Args.depth_le_size xs
    show xs.depth + 1 ≤ xs.size + 1
    omega
theorem Args.depth_le_size : ∀ xs : Args, xs.depth ≤ xs.size
  | .nil => by simp [Args.depth, Args.size]
  | .cons a as => by
    have h1 := Arg.depth_le_size a
    have h2 := Args.depth_le_size as
    show max a.depth as.depth ≤ a.size + as.size
    omega
end

/-! ### atoms do not decode as idents -/

theorem singleton_ne (c : Char) (s : String) (hs : s.length ≠ 1) : String.singleton c ≠ s := by
  intro h; apply hs; rw [← h]; simp

theorem lexTypeByName_char (c : Char) : lexTypeByName (Char.toString c) = .error .value := by
  simp [lexTypeByName, singleton_ne c _ (by decide : "Predicate".length ≠ 1),
    singleton_ne c _ (by decide : "Constant".length ≠ 1),
    singleton_ne c _ (by decide : "Variable".length ≠ 1),
    singleton_ne c _ (by decide : "Atomic".length ≠ 1),
    singleton_ne c _ (by decide : "Predicated".length ≠ 1),
    singleton_ne c _ (by decide : "Quantified".length ≠ 1),
    singleton_ne c _ (by decide : "Operated".length ≠ 1),
    singleton_ne c _ (by decide : "Quantifier".length ≠ 1),
    singleton_ne c _ (by decide : "Operator".length ≠ 1)]

/-- the first component of an unpacked ATOM (string, item) is never a class name -/
theorem unpack2_atom {a cn sp : Arg} (hd : a.depth = 0) (h : unpack2 a = .ok (cn, sp)) :
    lexTypeOf cn = .error .value := by
  unfold unpack2 at h
  split at h
  · simp at h
  · rename_i x y hit
    simp only [Except.ok.injEq, Prod.mk.injEq] at h
    obtain ⟨rfl, rfl⟩ := h
    unfold iterate at hit
    split at hit
    · simp at hit
    · rename_i s
      simp only [Except.ok.injEq] at hit
      cases hs : s.toList with
      | nil => rw [hs] at hit; simp at hit
      | cons c1 t =>
        rw [hs] at hit
        simp only [List.map_cons, List.cons.injEq] at hit
        rw [← hit.1]
        exact lexTypeByName_char c1
    · simp [Arg.depth] at hd
    · rename_i p ps
      cases ps with
      | nil => simp at hit
      | cons q qs => simp only [List.map_cons, Except.ok.injEq, List.cons.injEq] at hit; rw [← hit.1]; rfl
    · simp only [Except.ok.injEq, List.cons.injEq] at hit; simp at hit
    · simp at hit
    · simp only [Except.ok.injEq, List.cons.injEq] at hit; rw [← hit.1]; rfl
    · simp at hit
  · simp at h

/-! ### which nested calls the constructor bodies make -/

def Cls.isLeaf : Cls → Bool
  | .predicate | .constant | .variable_ | .atomic => true
  | _ => false

/-- every nested call is to a leaf class (no further nesting) or to an abstract class with
    arguments of depth ≤ D; no `fail` is the budget error -/
def Prog.Bounded (D : Nat) : Prog → Prop
  | .ret _ => True
  | .fail e => e ≠ .fuel
  | .call cls args k =>
    (cls.isLeaf = true ∨ (cls.isAbstract = true ∧ depthL args ≤ D)) ∧ ∀ x, (k x).Bounded D

theorem callEach_bounded (cls : Cls) (hcls : cls.isAbstract = true) (D : Nat) :
    ∀ (xs : List Arg) (k : List Item → Prog), (∀ a ∈ xs, Arg.depth a ≤ D) →
    (∀ items, (k items).Bounded D) → (callEach cls xs k).Bounded D := by
  intro xs
  induction xs with
  | nil => intro k _ hk; exact hk []
  | cons a as ih =>
    intro k hx hk
    simp only [callEach, Prog.Bounded]
    refine ⟨Or.inr ⟨hcls, ?_⟩, fun x => ih _ (fun b hb => hx b (List.mem_cons_of_mem _ hb)) (fun items => hk _)⟩
    have := hx a (by simp)
    simp only [depthL_cons, depthL_nil]; omega

theorem restArg_iterate_depth {rest xs : List Arg} (h : iterate (restArg rest) = .ok xs) :
    ∀ a ∈ xs, Arg.depth a ≤ depthL rest := by
  intro a ha
  have h1 := iterate_depth h
  have h2 := mem_depth ha
  have h3 : (restArg rest).depth ≤ depthL rest + 1 := by
    unfold restArg
    split
    · simp only [depthL_cons, depthL_nil]; omega
    · simp
  omega

theorem biCoords_bounded (maxi : Int) (mk : Nat → Nat → Item) (args : List Arg) (D : Nat) :
    (biCoords maxi mk args).Bounded D := by
  unfold biCoords
  split
  · rename_i e he; rw [coordArgs_err he]; simp [Prog.Bounded]
  · repeat' split
    all_goals simp [Prog.Bounded]
  · simp [Prog.Bounded]

theorem predBody_bounded (args : List Arg) (D : Nat) : (predBody args).Bounded D := by
  rw [predBody_eq]
  generalize (match args with | [a] => iterate a | _ => Except.ok args) = xsE
  unfold predTail
  split
  · simp [Prog.Bounded]
  · simp [Prog.Bounded]
  · split
    · rename_i e he; rw [coordArgs_err he]; simp [Prog.Bounded]
    · repeat' split
      all_goals simp [Prog.Bounded]
    · simp [Prog.Bounded]

theorem predicatedFin_bounded (p : Pred) (items : List Item) (D : Nat) :
    (predicatedFin p items).Bounded D := by
  unfold predicatedFin
  repeat' split
  all_goals simp [Prog.Bounded]

theorem operatedFin_bounded (o : Op) (items : List Item) (D : Nat) : (operatedFin o items).Bounded D := by
  unfold operatedFin
  repeat' split
  all_goals simp [Prog.Bounded]

theorem body_bounded (cls : Cls) (args : List Arg) : (body cls args).Bounded (depthL args) := by
  cases cls <;> simp only [body]
  · exact predBody_bounded _ _
  · exact biCoords_bounded _ _ _ _
  · exact biCoords_bounded _ _ _ _
  · exact biCoords_bounded _ _ _ _
  · cases args with
    | nil => simp [predicatedBody, Prog.Bounded]
    | cons pred rest =>
      rw [predicatedBody_cons]
      refine ⟨Or.inl rfl, ?_⟩
      intro P
      unfold predicatedK
      split
      · split
        · exact predicatedFin_bounded _ _ _
        · split
          · rename_i e he; rw [iterate_err he]; simp [Prog.Bounded]
          · rename_i xs hxs
            refine callEach_bounded _ rfl _ _ _ ?_ (fun items => predicatedFin_bounded _ _ _)
            intro a ha
            have := restArg_iterate_depth hxs a ha
            simp only [depthL_cons]; omega
      · simp [Prog.Bounded]
  · unfold quantifiedBody
    split
    · rename_i q v s
      split
      · rename_i e he; rw [enumQuant_err he]; simp [Prog.Bounded]
      · refine ⟨Or.inl rfl, fun V => ⟨Or.inr ⟨rfl, ?_⟩, fun S => ?_⟩⟩
        · simp only [depthL_cons, depthL_nil]; omega
        · show (match V, S with
            | Item.param (Param.var vi vs), Item.sent b => Prog.ret (Item.sent (Sent.quant _ vi vs b))
            | _, _ => Prog.fail Err.type).Bounded _
          split <;> simp [Prog.Bounded]
    · simp [Prog.Bounded]
  · cases args with
    | nil => simp [operatedBody, Prog.Bounded]
    | cons oper rest =>
      rw [operatedBody_cons]
      split
      · rename_i e he; rw [enumOp_err he]; simp [Prog.Bounded]
      · unfold operatedTail
        split
        · exact operatedFin_bounded _ _ _
        · split
          · rename_i e he; rw [iterate_err he]; simp [Prog.Bounded]
          · rename_i xs hxs
            refine callEach_bounded _ rfl _ _ _ ?_ (fun items => operatedFin_bounded _ _ _)
            intro a ha
            have := restArg_iterate_depth hxs a ha
            simp only [depthL_cons]; omega
  all_goals simp [Prog.Bounded]

theorem runP_bounded (call : Cls → List Arg → R) (D : Nat)
    (hcall : ∀ cls args, (cls.isLeaf = true ∨ (cls.isAbstract = true ∧ depthL args ≤ D)) →
      call cls args ≠ .error .fuel) :
    ∀ (p : Prog), p.Bounded D → runP call p ≠ .error .fuel := by
  intro p
  induction p with
  | ret y => intro _; simp [runP]
  | fail e => intro hp; simpa [runP, Prog.Bounded] using hp
  | call cls args k ih =>
    intro hp
    simp only [Prog.Bounded] at hp
    simp only [runP]
    cases hc : call cls args with
    | ok y => exact ih y (hp.2 y)
    | error e =>
      simp only
      rw [← hc]
      exact hcall cls args hp.1

/-- a leaf body makes no call at all -/
theorem leaf_body (cls : Cls) (hl : cls.isLeaf = true) (args : List Arg) (call : Cls → List Arg → R) :
    runP call (body cls args) ≠ .error .fuel := by
  have hb : ∀ (p : Prog), p.Bounded 0 → (∀ c a k, p ≠ .call c a k) → runP call p ≠ .error .fuel := by
    intro p hp hnc
    cases p with
    | ret y => simp [runP]
    | fail e => simpa [runP, Prog.Bounded] using hp
    | call c a k => exact absurd rfl (hnc c a k)
  have hflat : ∀ maxi mk, ∀ c a k, biCoords maxi mk args ≠ .call c a k := by
    intro maxi mk c a k
    unfold biCoords
    repeat' split
    all_goals simp
  cases cls <;> simp [Cls.isLeaf] at hl <;> simp only [body]
  · apply hb _ (predBody_bounded _ _)
    intro c a k
    rw [predBody_eq]
    generalize (match args with | [a] => iterate a | _ => Except.ok args) = xsE
    unfold predTail
    repeat' split
    all_goals simp
  · exact hb _ (biCoords_bounded _ _ _ _) (hflat _ _)
  · exact hb _ (biCoords_bounded _ _ _ _) (hflat _ _)
  · exact hb _ (biCoords_bounded _ _ _ _) (hflat _ _)

/-! ### the budget -/

/-- budget sufficient for `cls(*args)` with arguments of tuple depth `D` -/
def need (cls : Cls) (D : Nat) : Nat :=
  if cls.isLeaf then 1 else if cls.isAbstract then 2 * D + 2 else 2 * D + 3

theorem need_le (cls : Cls) (D : Nat) : need cls D ≤ 2 * D + 3 := by
  unfold need; split
  · omega
  · split <;> omega

theorem decodeIdent_ne_fuel {cls : Cls} {args : List Arg} {e : Err}
    (h : decodeIdent cls args = .error e) : e ≠ .fuel := by
  unfold decodeIdent at h
  split at h
  · split at h
    · rename_i e' he
      simp only [Except.error.injEq] at h; subst h
      unfold unpack2 at he
      split at he
      · rename_i e'' hi
        simp only [Except.error.injEq] at he; subst he; rw [iterate_err hi]; simp
      · simp at he
      · simp only [Except.error.injEq] at he; subst he; simp
    · split at h
      · rename_i e' he
        simp only [Except.error.injEq] at h; subst h; rw [lexTypeOf_err he]; simp
      · split at h
        · simp at h
        · simp only [Except.error.injEq] at h; subst h; simp
  · simp only [Except.error.injEq] at h; subst h; simp

theorem enumCall_ne_fuel (b : Bool) (xs : List Arg) : enumCall b xs ≠ .error .fuel := by
  intro h
  unfold enumCall at h
  split at h
  · split at h
    · cases hq : enumQuant _ with
      | ok q => rw [hq] at h; simp [Except.map] at h
      | error e' => rw [hq] at h; simp [Except.map] at h; subst h; have := enumQuant_err hq; simp at this
    · cases hq : enumOp _ with
      | ok q => rw [hq] at h; simp [Except.map] at h
      | error e' => rw [hq] at h; simp [Except.map] at h; subst h; have := enumOp_err hq; simp at this
  · simp at h

theorem decodeIdent_shape {cls : Cls} {args : List Arg} {cn sp : Arg} {tgt : Target}
    (h : decodeIdent cls args = .ok (cn, sp, tgt)) :
    ∃ arg, args = [arg] ∧ unpack2 arg = .ok (cn, sp) ∧ lexTypeOf cn = .ok tgt := by
  have hl := decodeIdent_lexType h
  unfold decodeIdent at h
  split at h
  · rename_i arg
    split at h
    · simp at h
    · rename_i cn' sp' hu
      split at h
      · simp at h
      · split at h
        · simp only [Except.ok.injEq, Prod.mk.injEq] at h
          obtain ⟨rfl, rfl, _⟩ := h
          exact ⟨arg, rfl, hu, hl⟩
        · simp at h
  · simp at h

theorem lexTypeOf_concrete {cn : Arg} {c : Cls} (h : lexTypeOf cn = .ok (.lex c)) :
    c.isAbstract = false := by
  have hn : ∀ s, lexTypeByName s = .ok (.lex c) → c.isAbstract = false := by
    intro s h
    unfold lexTypeByName at h
    repeat' split at h
    all_goals first | (simp at h; done) | (simp at h; subst h; rfl)
  unfold lexTypeOf at h
  split at h
  · exact hn _ h
  · exact hn _ h
  · simp at h

/-- with budget `need cls (depth of the arguments)` the cache-free call never runs out -/
theorem evalP_fuel (fx : Fixes) : ∀ (n : Nat) (cls : Cls) (args : List Arg),
    need cls (depthL args) ≤ n → evalP fx n cls args ≠ .error .fuel := by
  intro n
  induction n with
  | zero =>
    intro cls args h
    unfold need at h
    repeat' split at h
    all_goals omega
  | succ n ih =>
    intro cls args hn
    rw [evalP]
    cases hp : pre fx cls args with
    | some r0 =>
      simp only
      cases r0 with
      | ok x => simp
      | error e => rw [pre_err hp]; simp
    | none =>
      simp only
      by_cases hab : cls.isAbstract = true
      · simp only [hab, ↓reduceIte]
        cases hd : decodeIdent cls args with
        | error e => simp only; intro h; simp only [Except.error.injEq] at h; exact decodeIdent_ne_fuel hd h
        | ok t =>
          obtain ⟨cn, sp, tgt⟩ := t
          simp only
          cases hi : iterate sp with
          | error e => simp only; rw [iterate_err hi]; simp
          | ok xs =>
            simp only
            cases tgt with
            | quantifier => exact enumCall_ne_fuel _ _
            | operator => exact enumCall_ne_fuel _ _
            | lex c =>
              simp only
              obtain ⟨arg, rfl, hu, hl⟩ := decodeIdent_shape hd
              have hD : arg.depth ≠ 0 := by
                intro h0
                have := unpack2_atom h0 hu
                rw [hl] at this; simp at this
              -- sp is a component of arg
              have hsp : sp.depth ≤ arg.depth - 1 := by
                unfold unpack2 at hu
                split at hu
                · simp at hu
                · rename_i x y hit
                  simp only [Except.ok.injEq, Prod.mk.injEq] at hu
                  have h1 := iterate_depth hit
                  have h2 : y.depth ≤ depthL [x, y] := mem_depth (by simp)
                  rw [← hu.2]; omega
                · simp at hu
              have hxs := iterate_depth hi
              apply ih
              have hne := need_le c (depthL xs)
              have hleaf : cls.isLeaf = false := by cases cls <;> simp [Cls.isAbstract] at hab <;> rfl
              simp only [need, hleaf, hab, Bool.false_eq_true, ↓reduceIte, depthL_cons, depthL_nil] at hn
              omega
      · simp only [hab, Bool.false_eq_true, ↓reduceIte]
        by_cases hleaf : cls.isLeaf = true
        · exact leaf_body cls hleaf args _
        · apply runP_bounded _ (depthL args) _ _ (body_bounded cls args)
          intro c a hc
          apply ih
          simp only [need, hleaf, hab, Bool.false_eq_true, ↓reduceIte] at hn
          rcases hc with hc | ⟨hc1, hc2⟩
          · simp only [need, hc, ↓reduceIte]; omega
          · have hl : c.isLeaf = false := by cases c <;> simp [Cls.isAbstract] at hc1 <;> rfl
            simp only [need, hl, hc1, Bool.false_eq_true, ↓reduceIte]; omega

/-- hypothesis (b) discharged: `build` never answers the budget error -/
theorem build_ne_fuel (fx : Fixes) (cls : Cls) (args : List Arg) : build fx cls args ≠ .error .fuel := by
  apply evalP_fuel
  have h1 := need_le cls (depthL args)
  have h2 : depthL args ≤ (Args.ofList args).size := Args.depth_le_size _
  simp only [fuelFor]; omega

end Ptx
