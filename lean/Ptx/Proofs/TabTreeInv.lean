/-
  Ptx.Proofs.TabTreeInv — the bookkeeping invariant `TabInv` of a tableau with its event record,
  that it holds after the trunk is built, and that EVERY legal step of ANY logic data preserves it
  (and never reaches one of the Python exception paths of the listeners).
-/
import Ptx.Proofs.TabTreeStep
namespace Ptx
open TabTree

/-- the trunk nodes of an argument: premises in order, then the conclusion node -/
def trunkNodes (L : LogicData) (arg : Argument) : List Node :=
  arg.premises.map (fun p => Node.sent p L.trunkPrem (if L.modal then some 0 else none)) ++
    [Node.sent (if L.trunkConcNeg then arg.conclusion.neg else arg.conclusion) L.trunkConc (if L.modal then some 0 else none)]

theorem trunk_eq (L : LogicData) (arg : Argument) : trunk L arg = [{ nodes := trunkNodes L arg }] := rfl

/-- what ties the record of branch number `i` to the branch, with `cur` the current step number -/
structure BranchOK (cur i : Nat) (b : Branch) (r : BRec) : Prop where
  /-- the node objects are the branch's nodes -/
  nodes_eq : r.objs.map (·.node) = b.nodes
  /-- the CLOSED flag / STEP_CLOSED is recorded iff the branch is closed (its last node is the closure flag) -/
  closed_iff : r.stepClosed.isSome = b.closed
  parent_eq : r.parent = b.parent
  /-- nodes come from this branch or from a branch added earlier -/
  orig_le : ∀ o ∈ r.objs, o.orig ≤ i
  /-- the nodes appended to this very branch are exactly those from position `inherited` on -/
  own : ∀ p o, r.objs[p]? = some o → (o.orig = i ↔ r.inherited ≤ p)
  inh_le : r.inherited ≤ r.objs.length
  /-- recorded addition steps are non-decreasing along the branch … -/
  steps_mono : r.objs.Pairwise (fun a c => a.step ≤ c.step)
  /-- … and never in the future (the current step number is that of the next application) -/
  steps_lt : ∀ o ∈ r.objs, o.step < cur
  added_lt : r.stepAdded < cur
  /-- nothing is appended to a branch before the branch is on the tableau -/
  added_first : ∀ p o, r.objs[p]? = some o → r.inherited ≤ p → r.stepAdded ≤ o.step
  /-- the closure step is not in the future and not before any node of the branch -/
  closed_ok : ∀ c, r.stepClosed = some c → c < cur ∧ r.stepAdded ≤ c ∧ ∀ o ∈ r.objs, o.step ≤ c
  /-- a tick record refers to a ticked node of the branch, is not in the future, not before the branch
      was added and not before the node was added -/
  ticks_ok : ∀ p st, (p, st) ∈ r.ticks → p ∈ b.ticked ∧ st < cur ∧ r.stepAdded ≤ st ∧
      ∃ o, r.objs[p]? = some o ∧ o.step ≤ st
  /-- one tick record per node -/
  ticks_nodup : (r.ticks.map (·.1)).Nodup

/-- The bookkeeping invariant of property C16 (state part). -/
structure TabInv (L : LogicData) (arg : Argument) (bk : Book) : Prop where
  /-- one stat record per branch -/
  len : bk.recs.length = bk.tab.length
  branch : ∀ i b r, bk.tab[i]? = some b → bk.recs[i]? = some r → BranchOK bk.currentStep i b r
  /-- every branch starts with the trunk: the premises and the conclusion node, in order, added at
      step 0 to branch 0 -/
  trunk_objs : ∀ r ∈ bk.recs, (trunkNodes L arg).map (fun n => (⟨0, n, 0⟩ : NObj)) <+: r.objs
  /-- the open view lists exactly the unclosed branches, in branch order -/
  opens_eq : bk.opens = bk.unclosed
  /-- only branch 0 has no parent; it inherited nothing -/
  root : ∀ (i : Nat) (r : BRec), bk.recs[i]? = some r → r.parent = none → i = 0 ∧ r.inherited = 0
  /-- a branch made by a step is a later branch than its parent, and starts with the nodes its
      parent had at fork time (the parent's first `inherited` node objects: branches only grow) -/
  parent : ∀ (i : Nat) (r : BRec) (p : Nat), bk.recs[i]? = some r → r.parent = some p →
      p < i ∧ ∃ rp, bk.recs[p]? = some rp ∧ r.inherited ≤ rp.objs.length ∧
        r.objs.take r.inherited = rp.objs.take r.inherited ∧ rp.stepAdded ≤ r.stepAdded

namespace TabTree

/-! ### small facts about branches -/

theorem closed_def (b : Branch) : b.closed = match b.nodes.getLast? with | some n => n.isClosure | none => false := rfl

theorem closed_extend_noclosure {b : Branch} {g : List Node} {tk : Option Nat} (hb : b.closed = false)
    (hg : ∀ n ∈ g, n.isClosure = false) : (b.extend g tk).closed = false := by
  simp only [closed_def, extend_nodes, List.getLast?_append] at hb ⊢
  cases hgl : g.getLast? with
  | none => simpa using hb
  | some n => simp [hg n (List.mem_of_getLast? hgl)]

theorem closed_extend_closure (b : Branch) (tk : Option Nat) : (b.extend [.flag "closure"] tk).closed = true := by
  simp [closed_def, Node.isClosure]

@[simp] theorem gained_extend (b : Branch) (g : List Node) (tk : Option Nat) : gained b (b.extend g tk) = g := by
  simp [gained]
@[simp] theorem gained_child (b : Branch) (i : Nat) (g : List Node) (tk : Option Nat) : gained b (child b i tk g) = g := by
  simp [gained]

theorem closesNow_false {g : List Node} (hg : ∀ n ∈ g, n.isClosure = false) : g.any Node.isClosure = false := by
  simp only [List.any_eq_false]; intro n hn; simp [hg n hn]

theorem newTicks_extend (b : Branch) (g : List Node) (tk : Option Nat) :
    newTicks b (b.extend g tk) = match tk with
      | some n => if b.ticked.contains n then [] else [n]
      | none => [] := by
  cases tk with
  | none => simp [newTicks, extend_ticked]
  | some n =>
    simp only [newTicks, extend_ticked]
    split
    · next h => simp
    · next h =>
      have h' : n ∉ b.ticked := by simpa using h
      simp [List.filter_append, h']

theorem ticked_sub_extend (b : Branch) (g : List Node) (tk : Option Nat) : ∀ p ∈ b.ticked, p ∈ (b.extend g tk).ticked := by
  intro p hp
  rw [extend_ticked]
  cases tk with
  | none => exact hp
  | some n =>
    show p ∈ (if b.ticked.contains n then b.ticked else b.ticked ++ [n])
    split <;> simp [hp]

theorem newTicks_mem_extend (b : Branch) (g : List Node) (tk : Option Nat) :
    ∀ p ∈ newTicks b (b.extend g tk), p ∈ (b.extend g tk).ticked ∧ p ∉ b.ticked := by
  intro p hp
  simp only [newTicks, List.mem_filter] at hp
  exact ⟨hp.1, by simpa using hp.2⟩

theorem newTicks_nodup (b : Branch) (g : List Node) (tk : Option Nat) : (newTicks b (b.extend g tk)).Nodup := by
  rw [newTicks_extend]
  cases tk with
  | none => simp
  | some n =>
    show (if b.ticked.contains n then [] else [n]).Nodup
    split <;> simp

/-! ### monotonicity in the step number -/

theorem _root_.Ptx.BranchOK.mono {cur cur' i : Nat} {b : Branch} {r : BRec} (h : BranchOK cur i b r) (hc : cur ≤ cur') :
    BranchOK cur' i b r :=
  { h with
    steps_lt := fun o ho => Nat.lt_of_lt_of_le (h.steps_lt o ho) hc
    added_lt := Nat.lt_of_lt_of_le h.added_lt hc
    closed_ok := fun c hcl => ⟨Nat.lt_of_lt_of_le (h.closed_ok c hcl).1 hc, (h.closed_ok c hcl).2⟩
    ticks_ok := fun p st hm =>
      let ⟨a, b', c, d⟩ := h.ticks_ok p st hm
      ⟨a, Nat.lt_of_lt_of_le b' hc, c, d⟩ }

/-! ### the record of a grown branch -/

/-- a branch extended during application number `cur`: `r.grow` keeps `BranchOK` for the next step number -/
theorem grow_ok {cur i : Nat} {old : Branch} {r : BRec} {g : List Node} {tk : Option Nat}
    (h : BranchOK (cur + 1) i old r) (hopen : old.closed = false)
    (hclos : (∀ n ∈ g, n.isClosure = false) ∨ g = [.flag "closure"]) :
    BranchOK (cur + 1) i (old.extend g tk) (r.grow cur i old (old.extend g tk)) := by
  have hnone : r.stepClosed = none := by
    have := h.closed_iff; rw [hopen] at this
    cases hsc : r.stepClosed with
    | none => rfl
    | some c => simp [hsc] at this
  have hcn : closesNow old (old.extend g tk) = (old.extend g tk).closed := by
    simp only [closesNow, gained_extend]
    rcases hclos with hg | hg
    · rw [closesNow_false hg, closed_extend_noclosure hopen hg]
    · subst hg; rw [closed_extend_closure]; simp [Node.isClosure]
  have hlen : r.objs.length = old.nodes.length := by rw [← h.nodes_eq, List.length_map]
  refine
    { nodes_eq := ?_, closed_iff := ?_, parent_eq := ?_, orig_le := ?_, own := ?_, inh_le := ?_, steps_mono := ?_,
      steps_lt := ?_, added_lt := ?_, added_first := ?_, closed_ok := ?_, ticks_ok := ?_, ticks_nodup := ?_ }
  · simp [BRec.grow, h.nodes_eq, Function.comp_def]
  · simp only [BRec.grow, hcn]
    cases (old.extend g tk).closed <;> simp [hnone]
  · simp [BRec.grow, h.parent_eq]
  · intro o ho
    simp only [BRec.grow, gained_extend, List.mem_append, List.mem_map] at ho
    rcases ho with ho | ⟨n, _, rfl⟩
    · exact h.orig_le o ho
    · exact Nat.le_refl _
  · intro p o hp
    simp only [BRec.grow, gained_extend] at hp ⊢
    by_cases hlt : p < r.objs.length
    · rw [List.getElem?_append_left hlt] at hp
      exact h.own p o hp
    · rw [List.getElem?_append_right (Nat.le_of_not_lt hlt)] at hp
      have hp' := hp
      simp only [List.getElem?_map, Option.map_eq_some_iff] at hp'
      obtain ⟨n, _, rfl⟩ := hp'
      have := h.inh_le
      constructor
      · intro _; omega
      · intro _; rfl
  · simp only [BRec.grow, List.length_append]
    have := h.inh_le; omega
  · simp only [BRec.grow, gained_extend, List.pairwise_append]
    refine ⟨h.steps_mono, ?_, ?_⟩
    · simp only [List.pairwise_map, Nat.le_refl]
      clear hclos hcn
      induction g with
      | nil => exact List.Pairwise.nil
      | cons x xs ih => exact List.Pairwise.cons (fun _ _ => trivial) ih
    · intro a ha c hc
      simp only [List.mem_map] at hc
      obtain ⟨n, _, rfl⟩ := hc
      exact Nat.le_of_lt_succ (h.steps_lt a ha)
  · intro o ho
    simp only [BRec.grow, gained_extend, List.mem_append, List.mem_map] at ho
    rcases ho with ho | ⟨n, _, rfl⟩
    · exact h.steps_lt o ho
    · exact Nat.lt_succ_self _
  · simp only [BRec.grow]; exact h.added_lt
  · intro p o hp hinh
    simp only [BRec.grow, gained_extend] at hp hinh ⊢
    by_cases hlt : p < r.objs.length
    · rw [List.getElem?_append_left hlt] at hp
      exact h.added_first p o hp hinh
    · rw [List.getElem?_append_right (Nat.le_of_not_lt hlt)] at hp
      simp only [List.getElem?_map, Option.map_eq_some_iff] at hp
      obtain ⟨n, _, rfl⟩ := hp
      exact Nat.le_of_lt_succ h.added_lt
  · intro c hc
    simp only [BRec.grow, hnone] at hc ⊢
    split at hc
    · simp only [Option.some.injEq] at hc; subst hc
      refine ⟨Nat.lt_succ_self _, Nat.le_of_lt_succ h.added_lt, ?_⟩
      intro o ho
      simp only [gained_extend, List.mem_append, List.mem_map] at ho
      rcases ho with ho | ⟨n, _, rfl⟩
      · exact Nat.le_of_lt_succ (h.steps_lt o ho)
      · exact Nat.le_refl _
    · cases hc
  · intro p st hm
    simp only [BRec.grow, gained_extend, List.mem_append, List.mem_map, List.mem_filter, Prod.mk.injEq] at hm ⊢
    rcases hm with hm | ⟨n, ⟨hn, hnl⟩, rfl, rfl⟩
    · obtain ⟨a, b', c, o, ho, hos⟩ := h.ticks_ok p st hm
      refine ⟨ticked_sub_extend old g tk p a, b', c, o, ?_, hos⟩
      rw [List.getElem?_append_left (by
        have := (List.getElem?_eq_some_iff.1 ho).1; exact this)]
      exact ho
    · refine ⟨(newTicks_mem_extend old g tk n hn).1, Nat.lt_succ_self _, Nat.le_of_lt_succ h.added_lt, ?_⟩
      have hnl' : n < (r.objs ++ g.map (fun x => (⟨i, x, cur⟩ : NObj))).length := by
        simp only [extend_nodes, List.length_append, decide_eq_true_eq] at hnl
        simp only [List.length_append, List.length_map]; omega
      refine ⟨_, List.getElem?_eq_getElem hnl', ?_⟩
      have hmem := List.getElem_mem hnl'
      simp only [List.mem_append, List.mem_map] at hmem
      rcases hmem with hmem | ⟨x, _, hx⟩
      · exact Nat.le_of_lt_succ (h.steps_lt _ hmem)
      · rw [← hx]; exact Nat.le_refl _
  · simp only [BRec.grow, List.map_append, List.map_map]
    rw [List.nodup_append]
    refine ⟨h.ticks_nodup, ?_, ?_⟩
    · have : (List.map ((fun x => x.1) ∘ fun n => (n, cur)) (List.filter (fun x => decide (x < (old.extend g tk).nodes.length)) (newTicks old (old.extend g tk))))
          = List.filter (fun x => decide (x < (old.extend g tk).nodes.length)) (newTicks old (old.extend g tk)) := by
        simp [Function.comp_def]
      rw [this]
      exact (newTicks_nodup old g tk).sublist List.filter_sublist
    · intro a ha c hc
      simp only [List.mem_map, Function.comp_def, List.mem_filter] at ha hc
      obtain ⟨⟨p, st⟩, hpm, rfl⟩ := ha
      obtain ⟨n, ⟨hn, _⟩, rfl⟩ := hc
      intro e
      have h1 := (h.ticks_ok p st hpm).1
      have h2 := (newTicks_mem_extend old g tk n hn).2
      simp only at e
      exact h2 (e ▸ h1)

end TabTree
end Ptx
