/-
  Ptx.Proofs.TabRender — helper lemmas for C19: the reader reads the writer's text back
    1. layout: `readLayout (renderText t) = segTree t`;
    2. segments: `readSeg (segStr …) = (node strings, closure mark or nothing)`;
    3. `toN (segTree t) = specN t`;
    4. the paths of `specN t` are the branches of `t`.
-/
import Ptx.Proofs.TabRenderSeg
import Ptx.Proofs.TabRenderLayout
namespace Ptx.Render
open Ptx Ptx.Sym

/-! ## 1. layout -/

theorem Marks.Dec.layout {m : Marks} (h : m.Dec) :
    m.child ≠ [] ∧ m.fork ≠ [] ∧ m.dash ≠ chSpace ∧ m.dash ≠ chBar :=
  ⟨h.child_ne, h.fork_ne, h.dash_space, h.dash_bar⟩

theorem readLayout_renderText {m : Marks} {tb : StringTable} {nt : Notn} (hm : m.Dec)
    (ht : TableOK m tb = true) (t : RTree) (hd : RTree.depthsOKL t.children = true) :
    readLayout m (renderText m tb nt t) = some (RTree.segTree m (writeSent tb nt) t) := by
  have hnl := nl_linesOf m (writeSent tb nt) (fun d ns k => nl_not_mem_segStr hm ht d ns k) t [] (by simp)
  simp only [readLayout, renderText]
  rw [write_eq_lines, splitNl_joinNl _ (linesOf_ne_nil _ _ _ _) hnl]
  have := readBlock_linesOf hm.layout (writeSent tb nt) t [] [] ((linesOf m (writeSent tb nt) [] t).length + 1) 0
    (by have := size_le_lines m (writeSent tb nt) t []; omega) rfl hd (by simp)
  simpa using this

/-- the rendering determines the tree of segment strings -/
theorem renderText_inj_segTree {m : Marks} {tb : StringTable} {nt : Notn} (hm : m.Dec)
    (ht : TableOK m tb = true) (t₁ t₂ : RTree)
    (h₁ : RTree.depthsOKL t₁.children = true) (h₂ : RTree.depthsOKL t₂.children = true)
    (h : renderText m tb nt t₁ = renderText m tb nt t₂) :
    RTree.segTree m (writeSent tb nt) t₁ = RTree.segTree m (writeSent tb nt) t₂ := by
  have e₁ := readLayout_renderText (nt := nt) hm ht t₁ h₁
  have e₂ := readLayout_renderText (nt := nt) hm ht t₂ h₂
  rw [h, e₂] at e₁
  exact (Option.some.inj e₁).symm

/-! ## 2. segments -/

def nonClosure (n : RNode) : Bool := !n.isClosure

/-- the trailing mark of a node list: the closure mark iff its last node is a closure node -/
def trailMark (m : Marks) (ns : List RNode) : List Chr :=
  if (ns.getLast?.map RNode.isClosure).getD false then m.closure else []

theorem nodeBody_closureNode (m : Marks) (lw : Sent → List Chr) : nodeBody m lw RNode.closureNode = [] := by
  simp [nodeBody, RNode.closureNode, optStr]

theorem nodeStr_nonClosure {m : Marks} {lw : Sent → List Chr} {n : RNode} (h : n.isClosure = false) :
    nodeStr m lw n = nodeBody m lw n ++ m.sep := by
  simp [nodeStr, nodeTerm, h]

theorem flatMap_closureLast (m : Marks) (lw : Sent → List Chr) :
    ∀ (ns : List RNode), RTree.closureLast ns = true →
      ns.flatMap (nodeStr m lw) =
        (((ns.filter nonClosure).map (nodeBody m lw)).map (· ++ m.sep)).flatten ++ trailMark m ns
  | [], _ => by simp [trailMark]
  | [n], h => by
    simp only [RTree.closureLast, Bool.or_eq_true, Bool.not_eq_true', beq_iff_eq] at h
    rcases h with h | h
    · simp [nonClosure, trailMark, h, nodeStr_nonClosure h]
    · subst h
      simp [nonClosure, trailMark, RNode.closureNode, RNode.isClosure, nodeStr, nodeTerm, nodeBody, optStr]
  | n :: n' :: r, h => by
    simp only [RTree.closureLast, Bool.and_eq_true, Bool.not_eq_true'] at h
    have ih := flatMap_closureLast m lw (n' :: r) h.2
    have hl : (n :: n' :: r).getLast? = (n' :: r).getLast? := by simp [List.getLast?_cons_cons]
    rw [List.flatMap_cons, ih]
    simp [nonClosure, trailMark, h.1, nodeStr_nonClosure h.1, hl]

theorem closureLast_of_all {ns : List RNode} (h : ns.all nonClosure = true) :
    RTree.closureLast ns = true ∧ (ns.getLast?.map RNode.isClosure).getD false = false := by
  induction ns with
  | nil => simp [RTree.closureLast]
  | cons n r ih =>
    simp only [List.all_cons, Bool.and_eq_true] at h
    have hn : n.isClosure = false := by simpa [nonClosure] using h.1
    cases r with
    | nil => simp [RTree.closureLast, hn]
    | cons n' r' =>
      have := ih h.2
      simp only [RTree.closureLast, hn, Bool.not_false, Bool.true_and, this.1, true_and]
      rw [List.getLast?_cons_cons]; exact this.2

theorem length_le_pieces (sep rest : List Chr) (hs : sep ≠ []) :
    ∀ (bodies : List (List Chr)), bodies.length ≤ ((bodies.map (· ++ sep)).flatten ++ rest).length := by
  intro bodies
  induction bodies with
  | nil => simp
  | cons b bs ih =>
    have : 1 ≤ sep.length := List.length_pos_iff.mpr hs
    simp only [List.map_cons, List.flatten_cons, List.length_append, List.length_cons] at ih ⊢
    omega

/-- reading a written segment: the node strings of the non-closure nodes, and the trailing mark -/
theorem readSeg_segStr {m : Marks} {tb : StringTable} {nt : Notn} (hm : m.Dec) (ht : TableOK m tb = true)
    (d : Nat) (ns : List RNode) (hasKids isRoot : Bool) (hr : isRoot = (d == 0))
    (hc : RTree.closureLast ns = true) :
    readSeg m isRoot hasKids (segStr m (writeSent tb nt) d ns hasKids) =
      ((ns.filter nonClosure).map (nodeStr m (writeSent tb nt)), trailMark m ns) := by
  -- strip the child marker and the fork mark
  have hstrip : (let s1 := if isRoot then segStr m (writeSent tb nt) d ns hasKids
                           else (segStr m (writeSent tb nt) d ns hasKids).drop m.child.length
                 if hasKids then s1.take (s1.length - m.fork.length) else s1) =
      ns.flatMap (nodeStr m (writeSent tb nt)) := by
    subst hr
    by_cases hd : d = 0
    · subst hd
      cases hasKids <;> simp [segStr]
    · have : (d == 0) = false := by simpa using hd
      cases hasKids <;> simp [segStr, hd, this]
  simp only [readSeg]
  simp only at hstrip
  rw [hstrip, flatMap_closureLast m _ ns hc]
  have hrest : m.sepHd ∉ trailMark m ns := by
    simp only [trailMark]; split
    · exact hm.sep_closure
    · simp
  have hb : ∀ b ∈ (ns.filter nonClosure).map (nodeBody m (writeSent tb nt)), m.sepHd ∉ b := by
    intro b hb
    obtain ⟨n, _, rfl⟩ := List.mem_map.mp hb
    exact sepHd_not_mem_nodeBody hm ht n
  simp only [splitNodes]
  rw [splitNodesF_bodies hm _ _ _ hb hrest (by
    have := length_le_pieces m.sep (trailMark m ns) hm.sep_ne ((ns.filter nonClosure).map (nodeBody m (writeSent tb nt)))
    omega)]
  congr 1
  rw [List.map_map]
  apply List.map_congr_left
  intro n hn
  have : n.isClosure = false := by
    have := (List.mem_filter.mp hn).2
    simpa [nonClosure] using this
  simp [nodeStr_nonClosure this]

/-! ## 3. the tree of read segments -/

mutual
def specN (m : Marks) (lw : Sent → List Chr) : RTree → NTree
  | .mk _ ns cs _ => .mk ((ns.filter nonClosure).map (nodeStr m lw)) (trailMark m ns) (specNL m lw cs)
def specNL (m : Marks) (lw : Sent → List Chr) : List RTree → List NTree
  | [] => []
  | c :: r => specN m lw c :: specNL m lw r
end

theorem segTreeL_isEmpty (m : Marks) (lw : Sent → List Chr) (cs : List RTree) :
    (RTree.segTreeL m lw cs).isEmpty = cs.isEmpty := by
  cases cs <;> simp [RTree.segTreeL]

theorem closureLast_of_closureOK {d : Nat} {ns : List RNode} {cs : List RTree} {cl : Bool}
    (h : RTree.closureOK (.mk d ns cs cl) = true) : RTree.closureLast ns = true := by
  cases cs with
  | nil => simp only [RTree.closureOK, Bool.and_eq_true] at h; exact h.1
  | cons c r =>
    simp only [RTree.closureOK, Bool.and_eq_true] at h
    exact (closureLast_of_all (by simpa [nonClosure] using h.1)).1

mutual
theorem toN_segTree {m : Marks} {tb : StringTable} {nt : Notn} (hm : m.Dec) (ht : TableOK m tb = true) :
    ∀ (t : RTree) (isRoot : Bool), RTree.depthsOK isRoot t = true → RTree.closureOK t = true →
      SegTree.toN m isRoot (RTree.segTree m (writeSent tb nt) t) = specN m (writeSent tb nt) t
  | .mk d ns cs cl, isRoot, hd, hc => by
    have hcl := closureLast_of_closureOK hc
    simp only [RTree.depthsOK, Bool.and_eq_true] at hd
    have hr : isRoot = (d == 0) := by
      cases isRoot
      · have := hd.1; simp only [Bool.false_eq_true, ↓reduceIte, bne_iff_ne, ne_eq] at this; simp [this]
      · have := hd.1; simp only [↓reduceIte, beq_iff_eq] at this; simp [this]
    have hck : RTree.closureOKL cs = true := by
      cases cs with
      | nil => simp [RTree.closureOKL]
      | cons c r => simp only [RTree.closureOK, Bool.and_eq_true] at hc; exact hc.2
    simp only [RTree.segTree, SegTree.toN, specN, segTreeL_isEmpty]
    rw [readSeg_segStr hm ht d ns _ isRoot hr hcl, toNL_segTreeL hm ht cs hd.2 hck]
theorem toNL_segTreeL {m : Marks} {tb : StringTable} {nt : Notn} (hm : m.Dec) (ht : TableOK m tb = true) :
    ∀ (cs : List RTree), RTree.depthsOKL cs = true → RTree.closureOKL cs = true →
      SegTree.toNL m (RTree.segTreeL m (writeSent tb nt) cs) = specNL m (writeSent tb nt) cs
  | [], _, _ => by simp [RTree.segTreeL, SegTree.toNL, specNL]
  | c :: r, hd, hc => by
    simp only [RTree.depthsOKL, Bool.and_eq_true] at hd
    simp only [RTree.closureOKL, Bool.and_eq_true] at hc
    simp only [RTree.segTreeL, SegTree.toNL, specNL]
    rw [toN_segTree hm ht c false hd.1 hc.1, toNL_segTreeL hm ht r hd.2 hc.2]
end

/-! ## 4. paths = branches -/

mutual
theorem paths_fst (m : Marks) (lw : Sent → List Chr) :
    ∀ (t : RTree), (specN m lw t).paths.map (·.1) =
      t.branches.map (fun b => (b.1.filter nonClosure).map (nodeStr m lw))
  | .mk d ns cs cl => by
    cases cs with
    | nil => simp [specN, specNL, NTree.paths, RTree.branches]
    | cons c r =>
      have := pathsL_fst m lw (c :: r)
      simp only [specN, specNL, NTree.paths, RTree.branches, List.map_map] at this ⊢
      have e : ∀ (L : List (List (List Chr) × List (List Chr))) (R : List (List RNode × Bool)),
          L.map (·.1) = R.map (fun b => (b.1.filter nonClosure).map (nodeStr m lw)) →
          L.map ((fun p => p.1) ∘ fun p => ((ns.filter nonClosure).map (nodeStr m lw) ++ p.1, trailMark m ns :: p.2)) =
          R.map ((fun b => (b.1.filter nonClosure).map (nodeStr m lw)) ∘ fun b => (ns ++ b.1, b.2)) := by
        intro L R h
        have h' := congrArg (List.map (fun x => (ns.filter nonClosure).map (nodeStr m lw) ++ x)) h
        simp only [List.map_map] at h'
        simpa [Function.comp_def, List.filter_append, List.map_append] using h'
      exact e _ _ this
theorem pathsL_fst (m : Marks) (lw : Sent → List Chr) :
    ∀ (cs : List RTree), (NTree.pathsL (specNL m lw cs)).map (·.1) =
      (RTree.branchesL cs).map (fun b => (b.1.filter nonClosure).map (nodeStr m lw))
  | [] => by simp [specNL, NTree.pathsL, RTree.branchesL]
  | c :: r => by
    simp only [specNL, NTree.pathsL, RTree.branchesL, List.map_append]
    rw [paths_fst m lw c, pathsL_fst m lw r]
end

def markCount (m : Marks) (p : List (List Chr) × List (List Chr)) : Nat := (p.2.filter (· == m.closure)).length

mutual
theorem paths_marks (m : Marks) (lw : Sent → List Chr) (hne : m.closure ≠ []) :
    ∀ (t : RTree), RTree.closureOK t = true →
      (specN m lw t).paths.map (markCount m) = t.branches.map (fun b => if b.2 then 1 else 0)
  | .mk d ns cs cl, hc => by
    cases cs with
    | nil =>
      simp only [RTree.closureOK, Bool.and_eq_true, beq_iff_eq] at hc
      have hcl := hc.2
      simp only [specN, specNL, NTree.paths, RTree.branches, List.map_cons, List.map_nil, markCount, trailMark]
      cases hl : (ns.getLast?.map RNode.isClosure).getD false
      · rw [hl] at hcl; subst hcl
        have : ([] == m.closure) = false := by
          simp only [beq_eq_false_iff_ne, ne_eq]; exact fun e => hne e.symm
        simp [this]
      · rw [hl] at hcl; subst hcl
        simp
    | cons c r =>
      simp only [RTree.closureOK, Bool.and_eq_true] at hc
      have hall := closureLast_of_all (ns := ns) (by simpa [nonClosure] using hc.1)
      have := pathsL_marks m lw hne (c :: r) hc.2
      simp only [specN, specNL, NTree.paths, RTree.branches, List.map_map] at this ⊢
      have hnil : ([] == m.closure) = false := by
        simp only [beq_eq_false_iff_ne, ne_eq]; exact fun e => hne e.symm
      have e1 : (markCount m ∘ fun p : List (List Chr) × List (List Chr) =>
          ((ns.filter nonClosure).map (nodeStr m lw) ++ p.1, trailMark m ns :: p.2)) = markCount m := by
        funext p
        simp [markCount, trailMark, hall.2, hnil]
      have e2 : ((fun b : List RNode × Bool => if b.2 then 1 else 0) ∘ fun b => (ns ++ b.1, b.2)) =
          (fun b : List RNode × Bool => if b.2 then 1 else 0) := by
        funext b; simp
      rw [e1, e2]; exact this
theorem pathsL_marks (m : Marks) (lw : Sent → List Chr) (hne : m.closure ≠ []) :
    ∀ (cs : List RTree), RTree.closureOKL cs = true →
      (NTree.pathsL (specNL m lw cs)).map (markCount m) = (RTree.branchesL cs).map (fun b => if b.2 then 1 else 0)
  | [], _ => by simp [specNL, NTree.pathsL, RTree.branchesL]
  | c :: r, hc => by
    simp only [RTree.closureOKL, Bool.and_eq_true] at hc
    simp only [specNL, NTree.pathsL, RTree.branchesL, List.map_append]
    rw [paths_marks m lw hne c hc.1, pathsL_marks m lw hne r hc.2]
end

/-- every trailing mark read from a well-formed tree is the closure mark or nothing -/
theorem restsClean_specN (m : Marks) (lw : Sent → List Chr) :
    ∀ (t : RTree), NTree.restsClean m (specN m lw t) = true := by
  have key : ∀ ns : List RNode, (trailMark m ns == m.closure || trailMark m ns == []) = true := by
    intro ns; simp only [trailMark]; split <;> simp
  have hP : ∀ (t : RTree), ∀ p ∈ (specN m lw t).paths, ∀ r ∈ p.2, (r == m.closure || r == []) = true := by
    intro t
    induction t using RTree.rec (motive_2 := fun cs => ∀ p ∈ NTree.pathsL (specNL m lw cs), ∀ r ∈ p.2, (r == m.closure || r == []) = true) with
    | mk d ns cs cl ih =>
      intro p hp r hr
      cases cs with
      | nil =>
        simp only [specN, specNL, NTree.paths, List.mem_singleton] at hp
        subst hp
        simp only [List.mem_singleton] at hr
        subst hr; exact key ns
      | cons c cs' =>
        simp only [specN, specNL, NTree.paths, List.mem_map] at hp
        obtain ⟨q, hq, rfl⟩ := hp
        simp only [List.mem_cons] at hr
        rcases hr with rfl | hr
        · exact key ns
        · exact ih q (by simpa [specNL] using hq) r hr
    | nil => rename_i p hp r hr; simp [specNL, NTree.pathsL] at hp
    | cons c r ihc ihr =>
      rename_i p hp r' hr
      simp only [specNL, NTree.pathsL, List.mem_append] at hp
      rcases hp with hp | hp
      · exact ihc p hp r' hr
      · exact ihr p hp r' hr
  intro t
  simp only [NTree.restsClean, List.all_eq_true]
  exact fun p hp r hr => hP t p hp r hr

end Ptx.Render
