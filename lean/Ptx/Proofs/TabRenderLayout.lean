/-
  Ptx.Proofs.TabRenderLayout — helper lemmas for C19, layout level:
    C1. `write` (nested `'\n'.join`s) is the `'\n'.join` of a flat list of lines (`linesOf`);
    C2. `splitNl` undoes `joinNl` when no line contains a newline;
    C3. no line of `linesOf` contains a newline;
    C4. every line starts with the prefix its structure was written with;
    C5. the column reader `readBlock` reads `linesOf` back to the tree of segment strings.
-/
import Ptx.Tab.RenderRead
namespace Ptx.Render
open Ptx Ptx.Sym

/-! ## the flat list of lines -/

mutual
def linesOf (m : Marks) (lw : Sent → List Chr) (pfx : List Chr) : RTree → List (List Chr)
  | .mk d ns cs _ =>
    (pfx ++ segStr m lw d ns (!cs.isEmpty)) ::
      kidsLines m lw (pfx ++ List.replicate ((segStr m lw d ns (!cs.isEmpty)).length - 1) chSpace) cs
def kidsLines (m : Marks) (lw : Sent → List Chr) (pfx' : List Chr) : List RTree → List (List Chr)
  | [] => []
  | c :: r =>
    if r.isEmpty then linesOf m lw (pfx' ++ [chSpace]) c
    else linesOf m lw (pfx' ++ [chBar]) c ++ (pfx' ++ [chBar]) :: kidsLines m lw pfx' r
end

theorem linesOf_ne_nil (m : Marks) (lw : Sent → List Chr) (pfx : List Chr) (t : RTree) :
    linesOf m lw pfx t ≠ [] := by
  cases t; simp [linesOf]

/-! ## C1 -/

theorem joinNl_cons_cons (x y : List Chr) (r : List (List Chr)) :
    joinNl (x :: y :: r) = x ++ chNl :: joinNl (y :: r) := rfl

theorem joinNl_cons_of_ne {x : List Chr} {r : List (List Chr)} (h : r ≠ []) :
    joinNl (x :: r) = x ++ chNl :: joinNl r := by
  cases r with
  | nil => exact absurd rfl h
  | cons y r => rfl

theorem joinNl_join_cons : ∀ (L : List (List Chr)) (B : List (List Chr)), L ≠ [] →
    joinNl (joinNl L :: B) = joinNl (L ++ B) := by
  intro L
  induction L with
  | nil => intro B h; exact absurd rfl h
  | cons x L ih =>
    intro B _
    cases L with
    | nil => simp [joinNl]
    | cons y L' =>
      have ih' := ih B (by simp)
      cases B with
      | nil =>
        simp only [List.append_nil, joinNl]
      | cons b B' =>
        rw [joinNl_cons_cons x y L', List.cons_append, List.cons_append, joinNl_cons_cons x y (L' ++ b :: B')]
        rw [joinNl_cons_of_ne (by simp)] at ih' ⊢
        rw [List.cons_append] at ih'
        rw [← ih']
        simp

theorem joinNl_join_mid : ∀ (A L B : List (List Chr)), L ≠ [] →
    joinNl (A ++ joinNl L :: B) = joinNl (A ++ L ++ B) := by
  intro A
  induction A with
  | nil => intro L B h; simpa using joinNl_join_cons L B h
  | cons a A ih =>
    intro L B h
    have hne1 : A ++ joinNl L :: B ≠ [] := by simp
    have hne2 : A ++ L ++ B ≠ [] := by
      cases L with
      | nil => exact absurd rfl h
      | cons _ _ => simp
    rw [List.cons_append, joinNl_cons_of_ne hne1, List.cons_append, List.cons_append, joinNl_cons_of_ne hne2,
      ih L B h]

mutual
theorem write_eq_lines (m : Marks) (lw : Sent → List Chr) :
    ∀ (t : RTree) (pfx : List Chr), write m lw pfx t = joinNl (linesOf m lw pfx t)
  | .mk d ns cs cl, pfx => by
    have := writeKids_eq_lines m lw cs (pfx ++ List.replicate ((segStr m lw d ns (!cs.isEmpty)).length - 1) chSpace)
      [pfx ++ segStr m lw d ns (!cs.isEmpty)] (by simp)
    simpa [write, linesOf] using this
theorem writeKids_eq_lines (m : Marks) (lw : Sent → List Chr) :
    ∀ (cs : List RTree) (pfx' : List Chr) (hd : List (List Chr)), hd ≠ [] →
      joinNl (hd ++ writeKids m lw pfx' cs) = joinNl (hd ++ kidsLines m lw pfx' cs)
  | [], pfx', hd, _ => by simp [writeKids, kidsLines]
  | c :: r, pfx', hd, h => by
    by_cases hr : r.isEmpty = true
    · simp only [writeKids, kidsLines, hr, ↓reduceIte]
      rw [write_eq_lines m lw c, joinNl_join_mid hd _ [] (linesOf_ne_nil _ _ _ _)]
      simp
    · simp only [writeKids, kidsLines, hr, Bool.false_eq_true, ↓reduceIte]
      have e1 : hd ++ write m lw (pfx' ++ [chBar]) c :: (pfx' ++ [chBar]) :: writeKids m lw pfx' r =
          (hd ++ [write m lw (pfx' ++ [chBar]) c, pfx' ++ [chBar]]) ++ writeKids m lw pfx' r := by simp
      rw [e1, writeKids_eq_lines m lw r pfx' _ (by simp), write_eq_lines m lw c]
      have e2 : hd ++ [joinNl (linesOf m lw (pfx' ++ [chBar]) c), pfx' ++ [chBar]] ++ kidsLines m lw pfx' r =
          hd ++ joinNl (linesOf m lw (pfx' ++ [chBar]) c) :: ((pfx' ++ [chBar]) :: kidsLines m lw pfx' r) := by simp
      rw [e2, joinNl_join_mid hd _ _ (linesOf_ne_nil _ _ _ _)]
      simp
end

/-! ## C2 -/

theorem splitNl_ne_nil (s : List Chr) : splitNl s ≠ [] := by
  induction s with
  | nil => simp [splitNl]
  | cons c r ih =>
    unfold splitNl
    split
    · simp
    · split <;> simp

theorem splitNl_of_not_mem {x : List Chr} (h : chNl ∉ x) : splitNl x = [x] := by
  induction x with
  | nil => rfl
  | cons c r ih =>
    have hc : c ≠ chNl := fun e => h (by simp [e])
    have hr : chNl ∉ r := fun h' => h (by simp [h'])
    simp [splitNl, hc, ih hr]

theorem splitNl_append_nl {x : List Chr} (rest : List Chr) (h : chNl ∉ x) :
    splitNl (x ++ chNl :: rest) = x :: splitNl rest := by
  induction x with
  | nil => simp [splitNl]
  | cons c r ih =>
    have hc : c ≠ chNl := fun e => h (by simp [e])
    have hr : chNl ∉ r := fun h' => h (by simp [h'])
    simp [splitNl, hc, ih hr]

theorem splitNl_joinNl : ∀ (ls : List (List Chr)), ls ≠ [] → (∀ l ∈ ls, chNl ∉ l) →
    splitNl (joinNl ls) = ls := by
  intro ls
  induction ls with
  | nil => intro h; exact absurd rfl h
  | cons x r ih =>
    intro _ hl
    cases r with
    | nil => simpa [joinNl] using splitNl_of_not_mem (hl x (by simp))
    | cons y r' =>
      rw [joinNl_cons_cons, splitNl_append_nl _ (hl x (by simp)), ih (by simp) (fun l h => hl l (by simp [h]))]

/-! ## C3 -/

theorem not_mem_replicate_space : chNl ∉ List.replicate n chSpace := by
  intro h
  have := List.eq_of_mem_replicate h
  exact absurd this (by decide)

mutual
theorem nl_linesOf (m : Marks) (lw : Sent → List Chr) (hseg : ∀ d ns k, chNl ∉ segStr m lw d ns k) :
    ∀ (t : RTree) (pfx : List Chr), chNl ∉ pfx → ∀ l ∈ linesOf m lw pfx t, chNl ∉ l
  | .mk d ns cs cl, pfx, hp, l, hl => by
    simp only [linesOf, List.mem_cons] at hl
    rcases hl with rfl | hl
    · simp only [List.mem_append, not_or]; exact ⟨hp, hseg _ _ _⟩
    · refine nl_kidsLines m lw hseg cs _ ?_ l hl
      simp only [List.mem_append, not_or]; exact ⟨hp, not_mem_replicate_space⟩
theorem nl_kidsLines (m : Marks) (lw : Sent → List Chr) (hseg : ∀ d ns k, chNl ∉ segStr m lw d ns k) :
    ∀ (cs : List RTree) (pfx' : List Chr), chNl ∉ pfx' → ∀ l ∈ kidsLines m lw pfx' cs, chNl ∉ l
  | [], _, _, l, hl => by simp [kidsLines] at hl
  | c :: r, pfx', hp, l, hl => by
    have hs : chNl ∉ pfx' ++ [chSpace] := by
      simp only [List.mem_append, not_or, List.mem_singleton]; exact ⟨hp, by decide⟩
    have hb : chNl ∉ pfx' ++ [chBar] := by
      simp only [List.mem_append, not_or, List.mem_singleton]; exact ⟨hp, by decide⟩
    by_cases hr : r.isEmpty = true
    · simp only [kidsLines, hr, ↓reduceIte] at hl
      exact nl_linesOf m lw hseg c _ hs l hl
    · simp only [kidsLines, hr, Bool.false_eq_true, ↓reduceIte, List.mem_append, List.mem_cons] at hl
      rcases hl with hl | rfl | hl
      · exact nl_linesOf m lw hseg c _ hb l hl
      · exact hb
      · exact nl_kidsLines m lw hseg r pfx' hp l hl
end

/-! ## C4 -/

mutual
theorem prefix_linesOf (m : Marks) (lw : Sent → List Chr) :
    ∀ (t : RTree) (pfx : List Chr), ∀ l ∈ linesOf m lw pfx t, pfx <+: l
  | .mk d ns cs cl, pfx, l, hl => by
    simp only [linesOf, List.mem_cons] at hl
    rcases hl with rfl | hl
    · exact List.prefix_append _ _
    · exact (List.prefix_append _ _).trans (prefix_kidsLines m lw cs _ l hl)
theorem prefix_kidsLines (m : Marks) (lw : Sent → List Chr) :
    ∀ (cs : List RTree) (pfx' : List Chr), ∀ l ∈ kidsLines m lw pfx' cs, pfx' <+: l
  | [], _, l, hl => by simp [kidsLines] at hl
  | c :: r, pfx', l, hl => by
    by_cases hr : r.isEmpty = true
    · simp only [kidsLines, hr, ↓reduceIte] at hl
      exact (List.prefix_append _ _).trans (prefix_linesOf m lw c _ l hl)
    · simp only [kidsLines, hr, Bool.false_eq_true, ↓reduceIte, List.mem_append, List.mem_cons] at hl
      rcases hl with hl | rfl | hl
      · exact (List.prefix_append _ _).trans (prefix_linesOf m lw c _ l hl)
      · exact List.prefix_append _ _
      · exact prefix_kidsLines m lw r pfx' l hl
end

mutual
theorem size_le_lines (m : Marks) (lw : Sent → List Chr) :
    ∀ (t : RTree) (pfx : List Chr), t.size ≤ (linesOf m lw pfx t).length
  | .mk d ns cs cl, pfx => by
    have := sizeL_le_lines m lw cs (pfx ++ List.replicate ((segStr m lw d ns (!cs.isEmpty)).length - 1) chSpace)
    simp only [RTree.size, linesOf, List.length_cons]; omega
theorem sizeL_le_lines (m : Marks) (lw : Sent → List Chr) :
    ∀ (cs : List RTree) (pfx' : List Chr), RTree.sizeL cs ≤ (kidsLines m lw pfx' cs).length
  | [], _ => by simp [RTree.sizeL]
  | c :: r, pfx' => by
    have h1 := size_le_lines m lw c
    have h2 := sizeL_le_lines m lw r pfx'
    by_cases hr : r.isEmpty = true
    · have : r = [] := by simpa using hr
      subst this
      simp only [RTree.sizeL, kidsLines, List.isEmpty_nil, ↓reduceIte]
      have := h1 (pfx' ++ [chSpace]); omega
    · simp only [RTree.sizeL, kidsLines, hr, Bool.false_eq_true, ↓reduceIte, List.length_append, List.length_cons]
      have := h1 (pfx' ++ [chBar]); omega
end

/-! ## C5: the column reader -/

theorem blocksAux_nonheaders (dash : Chr) (c : Nat) :
    ∀ (A B : List (List Chr)), (∀ l ∈ A, isHeader dash c l = false) →
      blocksAux dash c (A ++ B) = (A ++ (blocksAux dash c B).1, (blocksAux dash c B).2) := by
  intro A
  induction A with
  | nil => intro B _; simp
  | cons a A ih =>
    intro B h
    have ha := h a (by simp)
    simp only [List.cons_append, blocksAux, ha, Bool.false_eq_true, ↓reduceIte]
    rw [ih B (fun l hl => h l (by simp [hl]))]

theorem blocksAux_all_nonheaders (dash : Chr) (c : Nat) (A : List (List Chr))
    (h : ∀ l ∈ A, isHeader dash c l = false) : blocksAux dash c A = (A, []) := by
  have := blocksAux_nonheaders dash c A [] h
  simpa [blocksAux] using this

theorem isHeader_short {dash : Chr} {c : Nat} {l : List Chr} (h : l.length ≤ c) : isHeader dash c l = false := by
  simp [isHeader, List.getElem?_eq_none h]

theorem getElem?_of_prefix {p l : List Chr} {a : Chr} {q : List Chr} (h : p ++ a :: q <+: l) :
    l[p.length]? = some a := by
  obtain ⟨r, rfl⟩ := h
  simp

/-- the blocks the children's lines fall into -/
def kidBlocks (m : Marks) (lw : Sent → List Chr) (pfx' : List Chr) (junk : List (List Chr)) :
    List RTree → List (List (List Chr))
  | [] => []
  | c :: r =>
    if r.isEmpty then [linesOf m lw (pfx' ++ [chSpace]) c ++ junk]
    else (linesOf m lw (pfx' ++ [chBar]) c ++ [pfx' ++ [chBar]]) :: kidBlocks m lw pfx' junk r

/-- a header line followed by non-header lines starts a block that runs up to the next header -/
theorem blocksAux_child_block (dash : Chr) (c : Nat) (hdr : List Chr) (tail more : List (List Chr))
    (hh : isHeader dash c hdr = true) (ht : ∀ l ∈ tail, isHeader dash c l = false) :
    blocksAux dash c (hdr :: tail ++ more) =
      ([], (hdr :: tail ++ (blocksAux dash c more).1) :: (blocksAux dash c more).2) := by
  simp only [List.cons_append, blocksAux, hh, ↓reduceIte]
  rw [blocksAux_nonheaders dash c tail more ht]

theorem linesOf_mk (m : Marks) (lw : Sent → List Chr) (d : Nat) (ns : List RNode) (cs : List RTree) (cl : Bool) (pfx : List Chr) :
    linesOf m lw pfx (.mk d ns cs cl) = (pfx ++ segStr m lw d ns (!cs.isEmpty)) ::
      kidsLines m lw (pfx ++ List.replicate ((segStr m lw d ns (!cs.isEmpty)).length - 1) chSpace) cs := by
  simp only [linesOf]

theorem optAll_cons_some {α} (x : α) (r : List (Option α)) (xs : List α) (h : optAll r = some xs) :
    optAll (some x :: r) = some (x :: xs) := by
  simp [optAll, h]

section
variable {m : Marks} (hm : m.child ≠ [] ∧ m.fork ≠ [] ∧ m.dash ≠ chSpace ∧ m.dash ≠ chBar)
variable (lw : Sent → List Chr)
include hm

/-- the lines below the first line of a non-root structure carry a blank in the column where the first
    line carries its child marker -/
theorem tail_nonheader (d : Nat) (ns : List RNode) (cs : List RTree) (pfx : List Chr) (hd : d ≠ 0) :
    ∀ l ∈ kidsLines m lw (pfx ++ List.replicate ((segStr m lw d ns (!cs.isEmpty)).length - 1) chSpace) cs,
      isHeader m.dash pfx.length l = false := by
  intro l hl
  cases cs with
  | nil => simp [kidsLines] at hl
  | cons c r =>
    have hL : 2 ≤ (segStr m lw d ns (!(c :: r).isEmpty)).length := by
      have h1 : 1 ≤ m.child.length := List.length_pos_iff.mpr hm.1
      have h2 : 1 ≤ m.fork.length := List.length_pos_iff.mpr hm.2.1
      have : (segStr m lw d ns (!(c :: r).isEmpty)).length =
          m.child.length + (ns.flatMap (nodeStr m lw)).length + m.fork.length := by
        simp [segStr, hd]; omega
      omega
    have hp := prefix_kidsLines m lw (c :: r) _ l hl
    obtain ⟨k, hk⟩ : ∃ k, (segStr m lw d ns (!(c :: r).isEmpty)).length - 1 = k + 1 :=
      ⟨(segStr m lw d ns (!(c :: r).isEmpty)).length - 2, by omega⟩
    rw [hk, List.replicate_succ] at hp
    have := getElem?_of_prefix hp
    simp only [isHeader, this]
    have := hm.2.2.1
    simp [Ne.symm this]

theorem head_header (d : Nat) (ns : List RNode) (k : Bool) (pfx : List Chr) (rest : List Chr) (hd : d ≠ 0) :
    isHeader m.dash pfx.length (pfx ++ segStr m lw d ns k ++ rest) = true := by
  have hc : m.child = m.dash :: m.child.tail := by
    cases h : m.child with
    | nil => exact absurd h hm.1
    | cons a r => simp [Marks.dash, h]
  simp only [segStr, hd, ne_eq, not_false_eq_true, ↓reduceIte]
  rw [hc]
  simp [isHeader]

/-- splitting the children's lines (followed by short lines) at the child markers in column `|pfx'|+1` -/
theorem blocksAux_kidsLines :
    ∀ (cs : List RTree) (pfx' : List Chr) (junk : List (List Chr)),
      RTree.depthsOKL cs = true → (∀ l ∈ junk, l.length ≤ pfx'.length + 1) →
      blocksAux m.dash (pfx'.length + 1) (kidsLines m lw pfx' cs ++ junk) =
        (if cs.isEmpty then junk else [], kidBlocks m lw pfx' junk cs)
  | [], pfx', junk, _, hj => by
    simpa [kidsLines, kidBlocks] using blocksAux_all_nonheaders m.dash _ junk (fun l hl => isHeader_short (hj l hl))
  | (.mk d ns cs' cl) :: r, pfx', junk, hd, hj => by
    simp only [RTree.depthsOKL, RTree.depthsOK, Bool.false_eq_true, ↓reduceIte, Bool.and_eq_true, bne_iff_ne, ne_eq] at hd
    obtain ⟨⟨hd0, _⟩, hdr⟩ := hd
    have hlen : ∀ x : Chr, (pfx' ++ [x]).length = pfx'.length + 1 := by simp
    have hjunk := blocksAux_all_nonheaders m.dash (pfx'.length + 1) junk (fun l hl => isHeader_short (hj l hl))
    by_cases hr : r.isEmpty = true
    · simp only [kidsLines, kidBlocks, hr, ↓reduceIte, List.isEmpty_cons, Bool.false_eq_true]
      rw [linesOf_mk m lw]
      have hh := head_header hm lw d ns (!cs'.isEmpty) (pfx' ++ [chSpace]) [] hd0
      rw [hlen, List.append_nil] at hh
      have ht := tail_nonheader hm lw d ns cs' (pfx' ++ [chSpace]) hd0
      rw [hlen] at ht
      rw [blocksAux_child_block m.dash _ _ _ junk hh ht, hjunk]
    · simp only [kidsLines, kidBlocks, hr, Bool.false_eq_true, ↓reduceIte, List.isEmpty_cons]
      rw [linesOf_mk m lw]
      have hh := head_header hm lw d ns (!cs'.isEmpty) (pfx' ++ [chBar]) [] hd0
      rw [hlen, List.append_nil] at hh
      have ht := tail_nonheader hm lw d ns cs' (pfx' ++ [chBar]) hd0
      rw [hlen] at ht
      rw [List.append_assoc, blocksAux_child_block m.dash _ _ _ _ hh ht]
      have hbar : isHeader m.dash (pfx'.length + 1) (pfx' ++ [chBar]) = false := isHeader_short (by simp)
      have ih := blocksAux_kidsLines r pfx' junk hdr hj
      simp only [hr, Bool.false_eq_true, ↓reduceIte] at ih
      simp only [List.cons_append, blocksAux, hbar, Bool.false_eq_true, ↓reduceIte, ih]

mutual
theorem readBlock_linesOf :
    ∀ (t : RTree) (pfx : List Chr) (junk : List (List Chr)) (f c : Nat),
      t.size ≤ f → c = pfx.length → RTree.depthsOKL t.children = true → (∀ l ∈ junk, l.length ≤ c) →
      readBlock m.dash f c (linesOf m lw pfx t ++ junk) = some (RTree.segTree m lw t)
  | .mk d ns cs cl, pfx, junk, f, c, hf, hc, hd, hj => by
    subst hc
    obtain ⟨f, rfl⟩ : ∃ g, f = g + 1 := ⟨f - 1, by simp [RTree.size] at hf; omega⟩
    simp only [RTree.children] at hd
    simp only [linesOf, List.cons_append, readBlock, RTree.segTree, List.drop_left']
    cases cs with
    | nil =>
      simp only [kidsLines, List.nil_append, blocks]
      rw [blocksAux_all_nonheaders m.dash _ junk (fun l hl => isHeader_short (by
          have := hj l hl; simp only [List.length_append]; omega))]
      simp [optAll, RTree.segTreeL]
    | cons k r =>
      have hL : 1 ≤ (segStr m lw d ns (!(k :: r).isEmpty)).length := by
        have h2 : 1 ≤ m.fork.length := List.length_pos_iff.mpr hm.2.1
        simp [segStr]; omega
      have hcol : (pfx ++ segStr m lw d ns (!(k :: r).isEmpty)).length =
          (pfx ++ List.replicate ((segStr m lw d ns (!(k :: r).isEmpty)).length - 1) chSpace).length + 1 := by
        simp only [List.length_append, List.length_replicate]; omega
      rw [hcol]
      simp only [blocks]
      rw [blocksAux_kidsLines hm lw (k :: r) _ junk hd (fun l hl => by have := hj l hl; simp only [List.length_append, List.length_replicate]; omega)]
      have := readBlock_kidBlocks (k :: r)
        (pfx ++ List.replicate ((segStr m lw d ns (!(k :: r).isEmpty)).length - 1) chSpace) junk f
        (by simp only [RTree.size] at hf; omega) hd (fun l hl => by have := hj l hl; simp only [List.length_append, List.length_replicate]; omega)
      simp only [this, Option.map_some]
theorem readBlock_kidBlocks :
    ∀ (cs : List RTree) (pfx' : List Chr) (junk : List (List Chr)) (f : Nat),
      RTree.sizeL cs ≤ f → RTree.depthsOKL cs = true → (∀ l ∈ junk, l.length ≤ pfx'.length + 1) →
      optAll ((kidBlocks m lw pfx' junk cs).map (readBlock m.dash f (pfx'.length + 1))) =
        some (RTree.segTreeL m lw cs)
  | [], _, _, _, _, _, _ => by simp [kidBlocks, optAll, RTree.segTreeL]
  | k :: r, pfx', junk, f, hf, hd, hj => by
    simp only [RTree.sizeL] at hf
    have hdk : RTree.depthsOKL k.children = true := by
      cases k with
      | mk d ns cs cl =>
        simp only [RTree.depthsOKL, RTree.depthsOK, Bool.and_eq_true] at hd
        exact hd.1.2
    have hdr : RTree.depthsOKL r = true := by
      simp only [RTree.depthsOKL, Bool.and_eq_true] at hd
      exact hd.2
    by_cases hr : r.isEmpty = true
    · have : r = [] := by simpa using hr
      subst this
      simp only [kidBlocks, List.isEmpty_nil, ↓reduceIte, List.map_cons, List.map_nil, RTree.segTreeL]
      rw [readBlock_linesOf k (pfx' ++ [chSpace]) junk f (pfx'.length + 1) (by omega) (by simp) hdk hj]
      simp [optAll]
    · simp only [kidBlocks, hr, Bool.false_eq_true, ↓reduceIte, List.map_cons, RTree.segTreeL]
      rw [readBlock_linesOf k (pfx' ++ [chBar]) [pfx' ++ [chBar]] f (pfx'.length + 1) (by omega) (by simp) hdk
        (by simp)]
      exact optAll_cons_some _ _ _ (readBlock_kidBlocks r pfx' junk f (by omega) hdr hj)
end

end

end Ptx.Render
