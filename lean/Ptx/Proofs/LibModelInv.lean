/-
  Ptx.Proofs.LibModelInv — what every model reachable through the API satisfies:
  stored values are values of the logic, every tuple of an interpretation consists of model
  constants, access pairs relate keys.  (`Model.Inv`, preserved by every call.)
-/
import Ptx.Proofs.LibModelEval
namespace Ptx.LibModel
open Ptx

/-! ### association lists -/

section assoc
variable {κ β : Type} [DecidableEq κ]

theorem mem_aset : ∀ {l : List (κ × β)} {k : κ} {v : β} {x : κ × β}, x ∈ aset l k v → x ∈ l ∨ x = (k, v)
  | [], k, v, x, h => by simp [aset] at h; exact Or.inr h
  | (k', v') :: r, k, v, x, h => by
      simp only [aset] at h
      split at h
      · rcases List.mem_cons.1 h with h | h
        · exact Or.inr h
        · exact Or.inl (List.mem_cons_of_mem _ h)
      · rcases List.mem_cons.1 h with h | h
        · exact Or.inl (h ▸ List.mem_cons_self)
        · rcases mem_aset h with h | h
          · exact Or.inl (List.mem_cons_of_mem _ h)
          · exact Or.inr h

theorem mem_ainsNew {l : List (κ × β)} {k : κ} {v : β} {x : κ × β} (h : x ∈ ainsNew l k v) : x ∈ l ∨ x = (k, v) := by
  unfold ainsNew at h
  split at h
  · exact Or.inl h
  · simpa using h

theorem lookup_aset_self [BEq κ] [LawfulBEq κ] : ∀ (l : List (κ × β)) (k : κ) (v : β), (aset l k v).lookup k = some v
  | [], k, v => by simp [aset, List.lookup]
  | (k', v') :: r, k, v => by
      simp only [aset]
      split
      · simp [List.lookup]
      · next h =>
        have : (k == k') = false := by simpa using fun h' => h h'.symm
        simp only [List.lookup, this]
        exact lookup_aset_self r k v

theorem lookup_aset_ne [BEq κ] [LawfulBEq κ] : ∀ (l : List (κ × β)) {k k' : κ} (v : β), k' ≠ k →
    (aset l k v).lookup k' = l.lookup k'
  | [], k, k', v, h => by
      have : (k' == k) = false := by simpa using h
      simp [aset, List.lookup, this]
  | (k0, v0) :: r, k, k', v, h => by
      simp only [aset]
      split
      · next h0 =>
        subst h0
        have : (k' == k0) = false := by simpa using h
        simp [List.lookup, this]
      · simp only [List.lookup]
        split
        · rfl
        · exact lookup_aset_ne r v h

omit [DecidableEq κ] in
theorem mem_akeys_of_lookup [BEq κ] [LawfulBEq κ] {l : List (κ × β)} {k : κ} {v : β} (h : l.lookup k = some v) :
    k ∈ akeys l :=
  List.mem_map.2 ⟨(k, v), lookup_mem h, rfl⟩

end assoc

theorem mem_uni {α} [DecidableEq α] {xs ys : List α} {x : α} : x ∈ uni xs ys ↔ x ∈ xs ∨ x ∈ ys := by
  unfold uni
  simp only [List.mem_append, List.mem_filter, Bool.not_eq_true', List.contains_eq_mem, decide_eq_false_iff_not]
  constructor
  · rintro (h | ⟨h, _⟩)
    · exact Or.inl h
    · exact Or.inr h
  · rintro (h | h)
    · exact Or.inl h
    · by_cases hx : x ∈ xs
      · exact Or.inl hx
      · exact Or.inr ⟨h, hx⟩

/-! ### the invariant -/

theorem tupIn_mono {cs cs' : List (Nat × Nat)} (h : ∀ c ∈ cs, c ∈ cs') {t : Tup} (ht : tupIn cs t = true) :
    tupIn cs' t = true := by
  simp only [tupIn, List.all_eq_true] at ht ⊢
  intro x hx
  have := ht x hx
  cases x with
  | var _ _ => simp at this
  | const i j => simp only [List.contains_iff_mem] at this ⊢; exact h _ this

structure FrameOK (L : LogicData) (cs : List (Nat × Nat)) (f : Frame) : Prop where
  atomics : ∀ av ∈ f.atomics, av.2 ∈ L.T.vals
  opaques : ∀ sv ∈ f.opaques, sv.2 ∈ L.T.vals
  preds : ∀ pi ∈ f.preds, ∀ tv ∈ pi.2, tv.2 ∈ L.T.vals ∧ tupIn cs tv.1 = true

structure Model.Inv (L : LogicData) (m : Model) : Prop where
  frames : ∀ wf ∈ m.frames, FrameOK L m.consts wf.2
  rwf : m.R.WF

theorem Model.Inv.valsOK {L : LogicData} {m : Model} (h : m.Inv L) : m.ValsOK L := fun wf hwf =>
  ⟨(h.frames wf hwf).atomics, (h.frames wf hwf).opaques, fun pi hpi tv htv => ((h.frames wf hwf).preds pi hpi tv htv).1⟩

namespace FrameOK
variable {L : LogicData} {cs : List (Nat × Nat)}

theorem empty : FrameOK L cs {} := ⟨by simp, by simp, by simp⟩

theorem mono {cs' : List (Nat × Nat)} (h : ∀ c ∈ cs, c ∈ cs') {f : Frame} (hf : FrameOK L cs f) : FrameOK L cs' f :=
  ⟨hf.atomics, hf.opaques, fun pi hpi tv htv => ⟨(hf.preds pi hpi tv htv).1, tupIn_mono h (hf.preds pi hpi tv htv).2⟩⟩

theorem ensurePred {f : Frame} (hf : FrameOK L cs f) (p : Pred) : FrameOK L cs (f.ensurePred p) := by
  refine ⟨hf.atomics, hf.opaques, ?_⟩
  intro pi hpi
  rcases mem_ainsNew hpi with h | h
  · exact hf.preds pi h
  · subst h; simp

theorem ensurePreds {f : Frame} (hf : FrameOK L cs f) : ∀ (ps : List Pred), FrameOK L cs (ps.foldl Frame.ensurePred f)
  | [] => hf
  | p :: ps => by simp only [List.foldl_cons]; exact ensurePreds (f := f.ensurePred p) (hf.ensurePred p) ps

theorem interp {f : Frame} (hf : FrameOK L cs f) (p : Pred) :
    ∀ tv ∈ f.interp p, tv.2 ∈ L.T.vals ∧ tupIn cs tv.1 = true := by
  unfold Frame.interp
  cases hl : f.preds.lookup p with
  | none => simp
  | some ip => exact hf.preds (p, ip) (lookup_mem hl)

theorem setInterp {f : Frame} (hf : FrameOK L cs f) (p : Pred) {ip : Interp}
    (hip : ∀ tv ∈ ip, tv.2 ∈ L.T.vals ∧ tupIn cs tv.1 = true) : FrameOK L cs (f.setInterp p ip) := by
  refine ⟨hf.atomics, hf.opaques, ?_⟩
  intro pi hpi
  rcases mem_aset hpi with h | h
  · exact hf.preds pi h
  · subst h; exact hip

end FrameOK

theorem mem_putFrame {m : Model} {w : Nat} {f : Frame} {wf : Nat × Frame} (h : wf ∈ (putFrame m w f).frames) :
    wf ∈ m.frames ∨ wf = (w, f) := mem_aset h

/-- `frameAt` hands out a good frame of a good model with the same constants and access -/
theorem frameAt_inv {L : LogicData} {m m' : Model} {w : Nat} {f : Frame} (hm : m.Inv L)
    (h : frameAt L m w = .ok (m', f)) :
    m'.Inv L ∧ FrameOK L m.consts f ∧ m'.consts = m.consts ∧ m'.R = m.R ∧ m'.finished = m.finished := by
  unfold frameAt at h
  split at h
  · next f' hl =>
    simp only [Except.ok.injEq, Prod.mk.injEq] at h
    obtain ⟨h1, h2⟩ := h
    subst h1 h2
    exact ⟨hm, hm.frames (w, f') (lookup_mem hl), rfl, rfl, rfl⟩
  · split at h
    · cases h
      refine ⟨⟨?_, hm.rwf⟩, FrameOK.empty, rfl, rfl, rfl⟩
      intro wf hwf
      rcases List.mem_append.1 hwf with h | h
      · exact hm.frames wf h
      · simp at h; subst h; exact FrameOK.empty
    · cases h

/-- rebuilding a good model around new frames / constants / sentence sets -/
theorem inv_of {L : LogicData} {m m' : Model} (hm : m.Inv L) (hR : m'.R = m.R)
    (hc : ∀ c ∈ m.consts, c ∈ m'.consts)
    (hf : ∀ wf ∈ m'.frames, wf ∈ m.frames ∨ FrameOK L m'.consts wf.2) : m'.Inv L := by
  refine ⟨?_, hR ▸ hm.rwf⟩
  intro wf hwf
  rcases hf wf hwf with h | h
  · exact (hm.frames wf h).mono hc
  · exact h

theorem hasVal_mem {L : LogicData} {v : V} (h : ¬ (!hasVal L v) = true) : v ∈ L.T.vals := by
  simpa [hasVal] using h

theorem mem_constsOfTup {t : Tup} {c : Nat × Nat} : c ∈ constsOfTup t ↔ Param.const c.1 c.2 ∈ t := by
  simp only [constsOfTup, List.mem_filterMap]
  constructor
  · rintro ⟨x, hx, h⟩
    cases x with
    | var _ _ => simp at h
    | const i j => simp at h; subst h; exact hx
  · intro h; exact ⟨_, h, by simp⟩

theorem tupIn_constsOfTup {t : Tup} (h : t.any Param.isVar = false) : tupIn (constsOfTup t) t = true := by
  simp only [tupIn, List.all_eq_true]
  intro x hx
  cases x with
  | var i j =>
    have : t.any Param.isVar = true := List.any_eq_true.2 ⟨_, hx, rfl⟩
    rw [h] at this; cases this
  | const i j =>
    simp only [List.contains_iff_mem]
    exact (mem_constsOfTup (c := (i, j))).2 hx

/-! ### every call preserves the invariant -/

theorem setAtomic_inv {L : LogicData} {m : Model} (hm : m.Inv L) (a : Nat × Nat) (v : V) (w : Nat) :
    (setAtomic L m a v w).1.Inv L := by
  unfold setAtomic
  split
  · exact hm
  split
  · exact hm
  next _ hv =>
  have hv := hasVal_mem hv
  split
  · exact hm
  next m' f hfa =>
  obtain ⟨hm', hf, hc, hR, _⟩ := frameAt_inv hm hfa
  split
  · split
    · exact inv_of hm' rfl (fun c h => h) fun wf h => Or.inl h
    · exact hm'
  · refine inv_of hm' rfl (fun c h => h) fun wf h => ?_
    rcases mem_putFrame h with h | h
    · exact Or.inl h
    · subst h
      right
      have hf' : FrameOK L m'.consts f := hc ▸ hf
      refine ⟨?_, hf'.opaques, hf'.preds⟩
      intro av hav
      rcases mem_aset hav with h | h
      · exact hf'.atomics av h
      · subst h; exact hv

theorem mem_sentConsts_mono {cs : List (Nat × Nat)} (s : Sent) : ∀ c ∈ cs, c ∈ uni cs (sentConsts s) :=
  fun _ h => mem_uni.2 (Or.inl h)

theorem setOpaque_inv {L : LogicData} {m : Model} (hm : m.Inv L) (s : Sent) (v : V) (w : Nat) :
    (setOpaque L m s v w).1.Inv L := by
  unfold setOpaque
  split
  · exact hm
  split
  · exact hm
  next _ hv =>
  have hv := hasVal_mem hv
  split
  · exact hm
  next m' f hfa =>
  obtain ⟨hm', hf, hc, hR, _⟩ := frameAt_inv hm hfa
  have hf' : FrameOK L m'.consts f := hc ▸ hf
  split
  · split
    · refine inv_of hm' rfl (mem_sentConsts_mono s) fun wf h => ?_
      rcases mem_putFrame h with h | h
      · exact Or.inl h
      · subst h; right
        exact ((hf'.ensurePreds _).mono (mem_sentConsts_mono s))
    · exact hm'
  · refine inv_of hm' rfl (mem_sentConsts_mono s) fun wf h => ?_
    rcases mem_putFrame h with h | h
    · exact Or.inl h
    · subst h; right
      have : FrameOK L m'.consts { f with opaques := aset f.opaques s v } := by
        refine ⟨hf'.atomics, ?_, hf'.preds⟩
        intro sv hsv
        rcases mem_aset hsv with h | h
        · exact hf'.opaques sv h
        · subst h; exact hv
      exact ((this.ensurePreds _).mono (mem_sentConsts_mono s))

theorem setPredicated_inv {L : LogicData} {m : Model} (hm : m.Inv L) (p : Pred) (ps : Tup) (v : V) (w : Nat) :
    (setPredicated L m p ps v w).1.Inv L := by
  unfold setPredicated
  split
  · exact hm
  split
  · exact hm
  next _ hv =>
  have hv := hasVal_mem hv
  split
  · exact hm
  next m' f hfa =>
  obtain ⟨hm', hf, hc, hR, _⟩ := frameAt_inv hm hfa
  have hf' : FrameOK L m'.consts f := hc ▸ hf
  have hmono : ∀ c ∈ m'.consts, c ∈ uni m'.consts (constsOfTup ps) := fun _ h => mem_uni.2 (Or.inl h)
  split
  · exact hm'
  next hvar =>
  have hvar : ps.any Param.isVar = false := by simpa using hvar
  simp only
  split
  · split
    · refine inv_of hm' rfl hmono fun wf h => ?_
      rcases mem_putFrame h with h | h
      · exact Or.inl h
      · subst h; right; exact ((hf'.ensurePred p).mono hmono)
    · refine inv_of hm' rfl (fun c h => h) fun wf h => ?_
      rcases mem_putFrame h with h | h
      · exact Or.inl h
      · subst h; right; exact hf'.ensurePred p
  · refine inv_of hm' rfl hmono fun wf h => ?_
    rcases mem_putFrame h with h | h
    · exact Or.inl h
    · subst h; right
      apply ((hf'.ensurePred p).mono hmono).setInterp p
      intro tv htv
      rcases mem_aset htv with h | h
      · exact (((hf'.ensurePred p).mono hmono).interp p) tv h
      · subst h
        exact ⟨hv, tupIn_mono (fun c h => mem_uni.2 (Or.inr h)) (tupIn_constsOfTup hvar)⟩

theorem setLiteral_inv {L : LogicData} : ∀ (s : Sent) {m : Model}, m.Inv L → ∀ (v : V) (w : Nat),
    (setLiteral L m s v w).1.Inv L := by
  intro s
  induction s with
  | atom i j =>
    intro m hm v w
    unfold setLiteral
    split
    · exact hm
    split
    · exact hm
    split
    · exact setOpaque_inv hm _ v w
    · exact setAtomic_inv hm _ v w
  | pred p ps =>
    intro m hm v w
    unfold setLiteral
    split
    · exact hm
    split
    · exact hm
    split
    · exact setOpaque_inv hm _ v w
    · exact setPredicated_inv hm p ps v w
  | quant q vi vs b _ =>
    intro m hm v w
    unfold setLiteral
    split
    · exact hm
    split
    · exact hm
    split
    · exact setOpaque_inv hm _ v w
    · exact hm
  | op1 o a ih =>
    intro m hm v w
    unfold setLiteral
    split
    · exact hm
    split
    · exact hm
    split
    · exact setOpaque_inv hm _ v w
    · cases o
      · exact hm
      · exact ih hm _ w
      · exact hm
      · exact hm
  | op2 o a b _ _ =>
    intro m hm v w
    unfold setLiteral
    split
    · exact hm
    split
    · exact hm
    split
    · exact setOpaque_inv hm _ v w
    · exact hm

theorem setValue_inv {L : LogicData} {m : Model} (hm : m.Inv L) (s : Sent) (v : V) (w : Nat) :
    (setValue L m s v w).1.Inv L := by
  unfold setValue
  split
  · exact hm
  split
  · exact hm
  split
  · exact setOpaque_inv hm s v w
  split
  · exact setLiteral_inv s hm v w
  · exact hm

theorem rAdd_inv {L : LogicData} {m : Model} (hm : m.Inv L) (a b : Nat) : ({ m with R := m.R.add a b } : Model).Inv L :=
  ⟨hm.frames, Acc.WF_add hm.rwf a b⟩

end Ptx.LibModel
