/-
  Helper lemmas for C12: reading back what the Polish writer wrote.  Core Lean only.
-/
import Ptx.Proofs.LangParseBasic
import Ptx.Lang.ParseWF
namespace Ptx.Parse
open Ptx Ptx.Sym Ptx.Write

/-! ### what `Compat` gives, as propositions -/

structure CompatP (pt : ParseTable) (wt : StringTable) (m : MaxIdx) : Prop where
  op1 : ∀ o, ∃ c, wt.op1 o = [c] ∧ pt.lookup c = some (.op1 o)
  op2 : ∀ o, ∃ c, wt.op2 o = [c] ∧ pt.lookup c = some (.op2 o)
  quant : ∀ q, ∃ c, wt.quant q = [c] ∧ pt.lookup c = some (.quant q)
  identity : ∃ c, wt.identity = [c] ∧ pt.lookup c = some (.sysPred .identity)
  existence : ∃ c, wt.existence = [c] ∧ pt.lookup c = some (.sysPred .existence)
  atom : ∀ i, i ≤ m.atom → ∃ c, StringTable.idx wt.atom i = [c] ∧ pt.lookup c = some (.atom i)
  var : ∀ i, i ≤ m.var → ∃ c, StringTable.idx wt.var i = [c] ∧ pt.lookup c = some (.var i)
  const : ∀ i, i ≤ m.const → ∃ c, StringTable.idx wt.const i = [c] ∧ pt.lookup c = some (.const i)
  pred : ∀ i, i ≤ m.pred → ∃ c, StringTable.idx wt.pred i = [c] ∧ pt.lookup c = some (.pred i)
  subOpen : wt.subOpen = []
  subClose : wt.subClose = []
  digit : ∀ d, d < 10 → pt.lookup (digitChr d) = some (.digit d)

theorem symOK_elim {pt : ParseTable} {s : List Chr} {k : Tok} (h : symOK pt s k = true) :
    ∃ c, s = [c] ∧ pt.lookup c = some k := by
  unfold symOK at h
  split at h
  · rename_i c; exact ⟨c, rfl, by simpa using h⟩
  · cases h

theorem idxOK_elim {pt : ParseTable} {l : List (List Chr)} {mk : Nat → Tok} (h : idxOK pt l mk = true)
    (i : Nat) (hi : i < l.length) : ∃ c, StringTable.idx l i = [c] ∧ pt.lookup c = some (mk i) := by
  unfold idxOK at h
  rw [List.all_eq_true] at h
  exact symOK_elim (h i (by simp [hi]))

theorem CompatP.of_bool {pt : ParseTable} {wt : StringTable} {m : MaxIdx}
    (h : Compat pt wt = true) (hc : wt.Complete m = true) : CompatP pt wt m := by
  simp only [Compat, CompatCore, Bool.and_eq_true, List.all_eq_true, beq_iff_eq] at h
  simp only [StringTable.Complete, Bool.and_eq_true, beq_iff_eq] at hc
  obtain ⟨⟨⟨⟨⟨⟨⟨⟨⟨⟨⟨h1, h2⟩, h3⟩, h4⟩, h5⟩, h6⟩, h7⟩, h8⟩, h9, h10⟩, h11⟩, _⟩, h13⟩ := h
  obtain ⟨⟨⟨c1, c2⟩, c3⟩, c4⟩ := hc
  refine ⟨?_, ?_, ?_, symOK_elim h4, symOK_elim h13, ?_, ?_, ?_, ?_, h9, h10, ?_⟩
  · intro o; exact symOK_elim (h1 o (by cases o <;> simp [Op1.all]))
  · intro o; exact symOK_elim (h2 o (by cases o <;> simp [Op2.all]))
  · intro q; exact symOK_elim (h3 q (by cases q <;> simp [Quant.all]))
  · intro i hi; exact idxOK_elim h5 i (by omega)
  · intro i hi; exact idxOK_elim h6 i (by omega)
  · intro i hi; exact idxOK_elim h7 i (by omega)
  · intro i hi; exact idxOK_elim h8 i (by omega)
  · intro d hd; exact h11 d (by simp [hd])

/-! ### where reading stops -/

/-- after chomping, the input does not continue with a digit -/
def StopsD (t : ParseTable) (r : List Chr) : Prop :=
  match chomp t r with
  | [] => True
  | c :: _ => ∀ d, t.lookup c ≠ some (.digit d)

/-- after chomping, the input continues neither with a digit nor with a parameter character -/
def Stops (t : ParseTable) (r : List Chr) : Prop :=
  match chomp t r with
  | [] => True
  | c :: _ => ∀ k, t.lookup c = some k → k.isDigit = false ∧ k.isParam = false

theorem Stops.stopsD {t : ParseTable} {r : List Chr} (h : Stops t r) : StopsD t r := by
  unfold Stops at h
  unfold StopsD
  split
  · trivial
  · rename_i c r' hc
    rw [hc] at h
    intro d hd
    have := (h _ hd).1
    simp [Tok.isDigit] at this

theorem Stops.nil (t : ParseTable) : Stops t [] := by simp [Stops, chomp]

theorem stopsD_cons {t : ParseTable} {c : Chr} {k : Tok} (r : List Chr) (hk : t.lookup c = some k)
    (hws : k ≠ .ws) (hd : k.isDigit = false) : StopsD t (c :: r) := by
  unfold StopsD
  rw [chomp_cons_of_ne t c r (by rw [hk]; simpa using hws)]
  intro d hd'
  rw [hk] at hd'
  cases hd'
  simp [Tok.isDigit] at hd

theorem stops_cons {t : ParseTable} {c : Chr} {k : Tok} (r : List Chr) (hk : t.lookup c = some k)
    (hws : k ≠ .ws) (hd : k.isDigit = false) (hp : k.isParam = false) : Stops t (c :: r) := by
  unfold Stops
  rw [chomp_cons_of_ne t c r (by rw [hk]; simpa using hws)]
  intro k' hk'
  rw [hk] at hk'
  cases hk'
  exact ⟨hd, hp⟩

/-! ### the digit loop on a written subscript -/

theorem digitsLoop_stop (t : ParseTable) : ∀ r, StopsD t r → digitsLoop t true r = ([], chomp t r) := by
  intro r
  induction r with
  | nil => intro _; simp [digitsLoop, chomp]
  | cons c r ih =>
    intro h
    cases hk : t.lookup c with
    | none => simp [digitsLoop, chomp, hk]
    | some k =>
      by_cases hws : k = .ws
      · subst hws
        have : StopsD t r := by simpa [StopsD, chomp, hk] using h
        simp [digitsLoop, chomp, hk, ih this]
      · have hne : t.lookup c ≠ some .ws := by rw [hk]; simpa using hws
        have hh : ∀ d, t.lookup c ≠ some (.digit d) := by
          simpa [StopsD, chomp_cons_of_ne t c r hne] using h
        cases k with
        | digit d => exact absurd hk (hh d)
        | ws => exact absurd rfl hws
        | _ => simp [digitsLoop, chomp, hk]

theorem digitsLoop_stop_false (t : ParseTable) (r : List Chr) (h : StopsD t r) :
    digitsLoop t false (chomp t r) = ([], chomp t r) := by
  unfold StopsD at h
  cases hc : chomp t r with
  | nil => simp [digitsLoop]
  | cons c r' =>
    rw [hc] at h
    have hws := chomp_head t r c r' hc
    cases hk : t.lookup c with
    | none => simp [digitsLoop, hk]
    | some k =>
      cases k with
      | digit d => exact absurd hk (h d)
      | ws => exact absurd hk hws
      | _ => simp [digitsLoop, hk]

theorem digitsLoop_digits (t : ParseTable) (hdig : ∀ d, d < 10 → t.lookup (digitChr d) = some (.digit d))
    (r : List Chr) (hr : StopsD t r) :
    ∀ ds : List Nat, (∀ d ∈ ds, d < 10) → digitsLoop t true (ds.map digitChr ++ r) = (ds, chomp t r) := by
  intro ds
  induction ds with
  | nil => intro _; simpa using digitsLoop_stop t r hr
  | cons d ds ih =>
    intro h
    have hd := hdig d (h d (by simp))
    have := ih (fun x hx => h x (by simp [hx]))
    simp [digitsLoop, hd, this]

theorem digitsLoop_digits_first (t : ParseTable) (hdig : ∀ d, d < 10 → t.lookup (digitChr d) = some (.digit d))
    (r : List Chr) (hr : StopsD t r) (ds : List Nat) (hne : ds ≠ []) (h : ∀ d ∈ ds, d < 10) (b : Bool) :
    digitsLoop t b (ds.map digitChr ++ r) = (ds, chomp t r) := by
  cases ds with
  | nil => contradiction
  | cons d ds =>
    have hd := hdig d (h d (by simp))
    have := digitsLoop_digits t hdig r hr ds (fun x hx => h x (by simp [hx]))
    simp [digitsLoop, hd, this]

/-! ### rendering -/

theorem render_nil (wt : StringTable) : render wt [] = [] := rfl
theorem render_cons (wt : StringTable) (a : WTok) (ts : List WTok) :
    render wt (a :: ts) = renderTok wt a ++ render wt ts := by simp [render]
theorem render_append (wt : StringTable) (a b : List WTok) :
    render wt (a ++ b) = render wt a ++ render wt b := by simp [render]

/-- the characters of a written subscript -/
def subChars (n : Nat) : List Chr := if n = 0 then [] else (decDigits n).map digitChr

theorem render_subToks {pt : ParseTable} {wt : StringTable} {m : MaxIdx} (hc : CompatP pt wt m) (n : Nat) :
    render wt (subToks n) = subChars n := by
  unfold subToks subChars
  split
  · rfl
  · simp [render, renderTok, hc.subOpen, hc.subClose]

end Ptx.Parse

namespace Ptx.Parse
open Ptx Ptx.Sym Ptx.Write

def paramSub : Param → Nat
  | .const _ s => s | .var _ s => s
def paramTok : Param → Tok
  | .const i _ => .const i | .var i _ => .var i

theorem paramOK_idx {m : MaxIdx} {b : List Var} {p : Param} (h : paramOK m b p = true) : paramIdxOK m p = true := by
  cases p <;> simp_all [paramOK, paramIdxOK]

theorem all_paramOK_idx {m : MaxIdx} {b : List Var} {ps : List Param} (h : ps.all (paramOK m b) = true) :
    ps.all (paramIdxOK m) = true := by
  rw [List.all_eq_true] at h ⊢
  intro p hp
  exact paramOK_idx (h p hp)

theorem paramsToks_cons (p : Param) (ps : List Param) : paramsToks (p :: ps) = paramToks p ++ paramsToks ps := by
  simp [paramsToks]

section
variable {cfg : Cfg} {wt : StringTable} (hc : CompatP cfg.table wt cfg.maxi)
include hc

theorem readSubscript_write (s : Nat) (r : List Chr) (b : List Var) (store : Store)
    (hr : StopsD cfg.table r) (hs : subOK cfg.intMaxDigits s = true) :
    readSubscript cfg ⟨chomp cfg.table (subChars s ++ r), b, store⟩ = .ok s ⟨chomp cfg.table r, b, store⟩ := by
  unfold subChars
  by_cases h0 : s = 0
  · subst h0
    simp [readSubscript, digitsLoop_stop_false cfg.table r hr, horner]
  · simp only [h0, if_false]
    have hne := decDigits_ne_nil s
    have hlt := decDigits_lt s
    obtain ⟨d, ds, hds⟩ : ∃ d ds, decDigits s = d :: ds := by
      cases h : decDigits s with
      | nil => exact absurd h hne
      | cons d ds => exact ⟨d, ds, rfl⟩
    have hd : cfg.table.lookup (digitChr d) = some (.digit d) := hc.digit d (hlt d (by simp [hds]))
    have hch : chomp cfg.table ((decDigits s).map digitChr ++ r) = (decDigits s).map digitChr ++ r := by
      rw [hds]; simp [chomp, hd]
    have hloop := digitsLoop_digits_first cfg.table hc.digit r hr (decDigits s) hne hlt false
    simp only [readSubscript, hch, hloop, horner_decDigits]
    have : ¬ (cfg.intMaxDigits ≠ 0 ∧ (decDigits s).length > cfg.intMaxDigits) := by
      simp [subOK] at hs
      rcases hs with hs | hs
      · simp [hs]
      · omega
    simp [this]

theorem readCoords_write (c : Chr) (k : Tok) (i s : Nat) (r : List Chr) (b : List Var) (store : Store)
    (hk : cfg.table.lookup c = some k) (hi : k.index? = some i)
    (hr : StopsD cfg.table r) (hs : subOK cfg.intMaxDigits s = true) :
    readCoords cfg ⟨c :: (subChars s ++ r), b, store⟩ = .ok (i, s) ⟨chomp cfg.table r, b, store⟩ := by
  simp only [readCoords, hk, hi, advance, List.tail_cons, readSubscript_write hc s r b store hr hs,
    Res.andThen_ok]

/-- the written form of a parameter -/
theorem render_param (p : Param) (hp : paramIdxOK cfg.maxi p = true) :
    ∃ c, render wt (paramToks p) = c :: subChars (paramSub p) ∧
      cfg.table.lookup c = some (paramTok p) := by
  cases p with
  | const i s =>
    obtain ⟨c, h1, h2⟩ := hc.const i (by simpa [paramIdxOK] using hp)
    exact ⟨c, by simp [paramToks, render_cons, renderTok, h1, render_subToks hc, paramSub], h2⟩
  | var i s =>
    obtain ⟨c, h1, h2⟩ := hc.var i (by simpa [paramIdxOK] using hp)
    exact ⟨c, by simp [paramToks, render_cons, renderTok, h1, render_subToks hc, paramSub], h2⟩

theorem readParameter_write (p : Param) (r : List Chr) (b : List Var) (store : Store)
    (hp : paramOK cfg.maxi b p = true) (hs : paramSubOK cfg.intMaxDigits p = true)
    (hr : StopsD cfg.table r) :
    readParameter cfg ⟨render wt (paramToks p) ++ r, b, store⟩ = .ok p ⟨chomp cfg.table r, b, store⟩ := by
  obtain ⟨c, h1, h2⟩ := render_param hc p (paramOK_idx hp)
  cases p with
  | const i s =>
    simp only [paramSub, paramTok] at h1 h2
    simp only [paramOK, decide_eq_true_eq] at hp
    simp only [h1, readParameter, List.cons_append, h2, readCoords_write hc c _ i s r b store h2 rfl hr hs,
      Res.andThen_ok]
    simp [Nat.not_lt.mpr hp]
  | var i s =>
    simp only [paramSub, paramTok] at h1 h2
    simp only [paramOK, Bool.and_eq_true, decide_eq_true_eq] at hp
    simp only [h1, readParameter, List.cons_append, h2, readCoords_write hc c _ i s r b store h2 rfl hr hs,
      Res.andThen_ok]
    simp [Nat.not_lt.mpr hp.1, hp.2]

/-- a nonempty parameter list is written with a parameter character first -/
theorem render_params_head (ps : List Param) (hne : ps ≠ []) (hp : ps.all (paramIdxOK cfg.maxi) = true) :
    ∃ c tl k, render wt (paramsToks ps) = c :: tl ∧ cfg.table.lookup c = some k ∧ k.isParam = true := by
  cases ps with
  | nil => contradiction
  | cons p ps =>
    simp only [List.all_cons, Bool.and_eq_true] at hp
    obtain ⟨c, h1, h2⟩ := render_param hc p hp.1
    refine ⟨c, subChars (paramSub p) ++ render wt (paramsToks ps), paramTok p, ?_, h2, ?_⟩
    · simp only [paramsToks, List.flatMap_cons, render_append, h1, List.cons_append]
    · cases p <;> rfl

theorem stopsD_params (ps : List Param) (r : List Chr) (hp : ps.all (paramIdxOK cfg.maxi) = true)
    (hr : StopsD cfg.table r) : StopsD cfg.table (render wt (paramsToks ps) ++ r) := by
  by_cases hne : ps = []
  · subst hne; simpa [paramsToks, render] using hr
  · obtain ⟨c, tl, k, h1, h2, h3⟩ := render_params_head hc ps hne hp
    rw [h1]
    apply stopsD_cons _ h2
    · intro h; subst h; simp [Tok.isParam] at h3
    · cases k <;> simp_all [Tok.isParam, Tok.isDigit]

theorem chomp_params (ps : List Param) (r : List Chr) (hne : ps ≠ []) (hp : ps.all (paramIdxOK cfg.maxi) = true) :
    chomp cfg.table (render wt (paramsToks ps) ++ r) = render wt (paramsToks ps) ++ r := by
  obtain ⟨c, tl, k, h1, h2, h3⟩ := render_params_head hc ps hne hp
  rw [h1]
  apply chomp_cons_of_ne
  rw [h2]
  intro h
  cases h
  simp [Tok.isParam] at h3

theorem readParams_write (r : List Chr) (b : List Var) (store : Store) (hr : StopsD cfg.table r) :
    ∀ ps : List Param, ps.all (paramOK cfg.maxi b) = true → ps.all (paramSubOK cfg.intMaxDigits) = true →
      readParams cfg ps.length ⟨chomp cfg.table (render wt (paramsToks ps) ++ r), b, store⟩
        = .ok ps ⟨chomp cfg.table r, b, store⟩ := by
  intro ps
  induction ps with
  | nil => intro _ _; simp [readParams, paramsToks, render]
  | cons p ps ih =>
    intro hp hs
    simp only [List.all_cons, Bool.and_eq_true] at hp hs
    rw [chomp_params hc (p :: ps) r (by simp) (all_paramOK_idx (b := b) (by simp only [List.all_cons, hp.1, hp.2, Bool.and_self]))]
    rw [paramsToks_cons, render_append, List.append_assoc]
    have hst := stopsD_params hc ps r (all_paramOK_idx hp.2) hr
    simp only [List.length_cons, readParams, readParameter_write hc p _ b store hp.1 hs.1 hst, Res.andThen_ok,
      ih hp.2 hs.2]

theorem readParamsAuto_write (r : List Chr) (b : List Var) (store : Store) (hr : Stops cfg.table r) :
    ∀ (ps : List Param) (f : Nat), ps.length ≤ f → ps.all (paramOK cfg.maxi b) = true →
      ps.all (paramSubOK cfg.intMaxDigits) = true →
      readParamsAuto cfg f ⟨chomp cfg.table (render wt (paramsToks ps) ++ r), b, store⟩
        = .ok ps ⟨chomp cfg.table r, b, store⟩ := by
  intro ps
  induction ps with
  | nil =>
    intro f _ _ _
    have : isParamStart cfg ⟨chomp cfg.table r, b, store⟩ = false := by
      unfold Stops at hr
      unfold isParamStart
      cases hcr : chomp cfg.table r with
      | nil => rfl
      | cons c r' =>
        rw [hcr] at hr
        simp only
        cases hk : cfg.table.lookup c with
        | none => rfl
        | some k => exact (hr k hk).2
    unfold readParamsAuto
    simp [paramsToks, render, this]
  | cons p ps ih =>
    intro f hf hp hs
    simp only [List.all_cons, Bool.and_eq_true] at hp hs
    have hidx := all_paramOK_idx (m := cfg.maxi) (b := b) (ps := p :: ps) (by simp only [List.all_cons, hp.1, hp.2, Bool.and_self])
    rw [chomp_params hc (p :: ps) r (by simp) hidx]
    obtain ⟨c, tl, k, h1, h2, h3⟩ := render_params_head hc (p :: ps) (by simp) hidx
    have hstart : isParamStart cfg ⟨render wt (paramsToks (p :: ps)) ++ r, b, store⟩ = true := by
      simp [isParamStart, h1, h2, h3]
    cases f with
    | zero => simp at hf
    | succ f =>
      unfold readParamsAuto
      simp only [hstart, if_true]
      rw [paramsToks_cons, render_append, List.append_assoc]
      have hst := stopsD_params hc ps r (all_paramOK_idx hp.2) hr.stopsD
      simp only [readParameter_write hc p _ b store hp.1 hs.1 hst, Res.andThen_ok,
        ih f (by simp at hf; omega) hp.2 hs.2]

end
end Ptx.Parse

namespace Ptx.Parse
open Ptx Ptx.Sym Ptx.Write

/-- the store agrees with the predicates of `s` as they are met while reading `s` -/
def StoreCompat (cfg : Cfg) : Store → Sent → Prop
  | _, .atom _ _ => True
  | st, .pred p _ =>
    p.index < 0 ∨ st.get p.index.toNat p.sub = some p ∨
      (st.get p.index.toNat p.sub = none ∧ cfg.autoPreds = true ∧ st.frozen = false)
  | st, .quant _ _ _ b => StoreCompat cfg st b
  | st, .op1 _ a => StoreCompat cfg st a
  | st, .op2 _ a b => StoreCompat cfg st a ∧ StoreCompat cfg (storeAfter st a) b

def Tok.isSentStart : Tok → Bool
  | .op1 _ | .op2 _ | .quant _ | .sysPred _ | .pred _ | .atom _ => true
  | _ => false

theorem stops_of_sentStart {t : ParseTable} {c : Chr} {k : Tok} (r : List Chr)
    (hk : t.lookup c = some k) (hs : Tok.isSentStart k = true) : Stops t (c :: r) := by
  apply stops_cons r hk <;> cases k <;> simp_all [Tok.isSentStart, Tok.isDigit, Tok.isParam]

theorem chomp_of_sentStart {t : ParseTable} {c : Chr} {k : Tok} (r : List Chr)
    (hk : t.lookup c = some k) (hs : Tok.isSentStart k = true) : chomp t (c :: r) = c :: r := by
  apply chomp_cons_of_ne
  rw [hk]
  intro h
  cases h
  simp [Tok.isSentStart] at hs

theorem predOK_cases {m : MaxIdx} {p : Pred} (h : predOK m p = true) :
    p = Pred.identity ∨ p = Pred.existence ∨ (0 ≤ p.index ∧ p.index ≤ (m.pred : Int) ∧ 0 < p.arity) := by
  simp only [predOK, Bool.or_eq_true, beq_iff_eq, Bool.and_eq_true, decide_eq_true_eq] at h
  rcases h with (h | h) | h
  · exact Or.inl h
  · exact Or.inr (Or.inl h)
  · exact Or.inr (Or.inr ⟨h.1.1, h.1.2, h.2⟩)

section
variable {cfg : Cfg} {wt : StringTable} (hc : CompatP cfg.table wt cfg.maxi)
include hc

/-- what a written predicate symbol looks like -/
theorem render_pred (p : Pred) (hp : predOK cfg.maxi p = true) :
    ∃ c, render wt (predToks p) = c :: subChars p.sub ∧
      cfg.table.lookup c = some
        (if p.index = -1 then .sysPred .identity else if p.index = -2 then .sysPred .existence
         else .pred p.index.toNat) := by
  rcases predOK_cases hp with h | h | h
  · subst h
    obtain ⟨c, h1, h2⟩ := hc.identity
    exact ⟨c, by simp [predToks, Pred.identity, render, renderTok, h1, subChars], by simpa [Pred.identity] using h2⟩
  · subst h
    obtain ⟨c, h1, h2⟩ := hc.existence
    exact ⟨c, by simp [predToks, Pred.existence, render, renderTok, h1, subChars], by simpa [Pred.existence] using h2⟩
  · have h1 : p.index ≠ -1 := by omega
    have h2 : p.index ≠ -2 := by omega
    obtain ⟨c, hc1, hc2⟩ := hc.pred p.index.toNat (by omega)
    exact ⟨c, by simp [predToks, h1, h2, render_cons, renderTok, hc1, render_subToks hc], by simpa [h1, h2] using hc2⟩

/-- a written sentence starts with a sentence-start character -/
theorem write_head (s : Sent) (b : List Var) (hwf : wfIn cfg.maxi b s = true) :
    ∃ c tl k, writePolish wt s = c :: tl ∧ cfg.table.lookup c = some k ∧ Tok.isSentStart k = true := by
  cases s with
  | atom i u =>
    obtain ⟨c, h1, h2⟩ := hc.atom i (by simpa [wfIn] using hwf)
    exact ⟨c, _, _, by simp only [writePolish, polishToks, render_cons, renderTok, h1, List.cons_append, List.nil_append]; rfl, h2, rfl⟩
  | pred p ps =>
    simp only [wfIn, Bool.and_eq_true] at hwf
    obtain ⟨c, h1, h2⟩ := render_pred hc p hwf.1.1
    refine ⟨c, _, _, by simp only [writePolish, polishToks, render_append, h1, List.cons_append]; rfl, h2, ?_⟩
    split
    · rfl
    · split <;> rfl
  | quant q vi vs body =>
    obtain ⟨c, h1, h2⟩ := hc.quant q
    exact ⟨c, _, _, by simp only [writePolish, polishToks, render_cons, renderTok, h1, List.cons_append, List.nil_append]; rfl, h2, rfl⟩
  | op1 o a =>
    obtain ⟨c, h1, h2⟩ := hc.op1 o
    exact ⟨c, _, _, by simp only [writePolish, polishToks, render_cons, renderTok, h1, List.cons_append, List.nil_append]; rfl, h2, rfl⟩
  | op2 o a b' =>
    obtain ⟨c, h1, h2⟩ := hc.op2 o
    exact ⟨c, _, _, by simp only [writePolish, polishToks, render_cons, renderTok, h1, List.cons_append, List.nil_append]; rfl, h2, rfl⟩

theorem stops_write (s : Sent) (b : List Var) (r : List Chr) (hwf : wfIn cfg.maxi b s = true) :
    Stops cfg.table (writePolish wt s ++ r) := by
  obtain ⟨c, tl, k, h1, h2, h3⟩ := write_head hc s b hwf
  rw [h1]
  exact stops_of_sentStart _ h2 h3

theorem chomp_write (s : Sent) (b : List Var) (r : List Chr) (hwf : wfIn cfg.maxi b s = true) :
    chomp cfg.table (writePolish wt s ++ r) = writePolish wt s ++ r := by
  obtain ⟨c, tl, k, h1, h2, h3⟩ := write_head hc s b hwf
  rw [h1]
  exact chomp_of_sentStart _ h2 h3

theorem readPredicated_write (p : Pred) (ps : List Param) (r : List Chr) (b : List Var) (store : Store)
    (hwf : wfIn cfg.maxi b (.pred p ps) = true) (hsub : subsOK cfg.intMaxDigits (.pred p ps) = true)
    (hst : StoreCompat cfg store (.pred p ps)) (hr : Stops cfg.table r) :
    readPredicated cfg ⟨writePolish wt (.pred p ps) ++ r, b, store⟩
      = .ok (.pred p ps) ⟨chomp cfg.table r, b, storeAfter store (.pred p ps)⟩ := by
  simp only [wfIn, Bool.and_eq_true, beq_iff_eq] at hwf
  obtain ⟨⟨hpok, hlen⟩, hps⟩ := hwf
  simp only [subsOK, Bool.and_eq_true] at hsub
  obtain ⟨c, h1, h2⟩ := render_pred hc p hpok
  have hidx := all_paramOK_idx hps
  have hstD := stopsD_params hc ps r hidx hr.stopsD
  simp only [writePolish, polishToks, render_append, h1, List.cons_append, List.append_assoc]
  rcases predOK_cases hpok with h | h | h
  · -- Identity
    subst h
    simp only [Pred.identity] at h2 hlen ⊢
    simp only [if_true] at h2
    have hsc : subChars 0 = [] := rfl
    simp only [readPredicated, readPredicate, h2, advance, List.tail_cons, hsc, List.nil_append, Res.andThen_ok,
      SysPred.toPred, Pred.identity]
    have := readParams_write hc r b store hr.stopsD ps hps hsub.2
    rw [hlen] at this
    simp [this, storeAfter]
  · subst h
    simp only [Pred.existence] at h2 hlen ⊢
    have h2' : cfg.table.lookup c = some (.sysPred .existence) := by simpa using h2
    have hsc : subChars 0 = [] := rfl
    simp only [readPredicated, readPredicate, h2', advance, List.tail_cons, hsc, List.nil_append, Res.andThen_ok,
      SysPred.toPred, Pred.existence]
    have := readParams_write hc r b store hr.stopsD ps hps hsub.2
    rw [hlen] at this
    simp [this, storeAfter]
  · have hn1 : p.index ≠ -1 := by omega
    have hn2 : p.index ≠ -2 := by omega
    have hnn : ¬ p.index < 0 := by omega
    simp only [hn1, hn2, if_false] at h2
    have hco := readCoords_write hc c _ p.index.toNat p.sub (render wt (paramsToks ps) ++ r) b store h2 rfl hstD hsub.1
    simp only [readPredicated, readPredicate, h2, hco, Res.andThen_ok]
    simp only [StoreCompat] at hst
    rcases hst with hst | hst | hst
    · exact absurd hst hnn
    · simp only [hst, Res.andThen_ok]
      have := readParams_write hc r b store hr.stopsD ps hps hsub.2
      rw [hlen] at this
      simp [this, storeAfter, hnn, hst]
    · obtain ⟨hnone, hauto, hfro⟩ := hst
      simp only [hnone, hauto, Bool.not_true, Bool.false_eq_true, if_false]
      have hauto' := readParamsAuto_write hc r b store hr ps
        (chomp cfg.table (render wt (paramsToks ps) ++ r)).length ?_ hps hsub.2
      · simp only [hauto', Res.andThen_ok, declare]
        have hl0 : ¬ (ps.length = 0 ∨ p.index.toNat > cfg.maxi.pred) := by
          intro hh
          rcases hh with hh | hh <;> omega
        have hfind : store.preds.find? (fun q => q.index == ((p.index.toNat : Nat) : Int) && q.sub == p.sub) = none := hnone
        have hpe : (⟨((p.index.toNat : Nat) : Int), p.sub, ps.length⟩ : Pred) = p := by
          cases p with
          | mk i u a =>
            simp only at hlen h ⊢
            rw [hlen]
            congr
            omega
        simp only [hl0, if_false, Store.add, hfro, hfind, Bool.false_eq_true, hpe]
        simp [storeAfter, hnn, hnone, hfro]
      · -- the loop fuel (length of the unread input) is at least the number of parameters
        by_cases hne : ps = []
        · subst hne; simp
        · rw [chomp_params hc ps r hne hidx]
          have : ∀ qs : List Param, qs.all (paramIdxOK cfg.maxi) = true → qs.length ≤ (render wt (paramsToks qs)).length := by
            intro qs
            induction qs with
            | nil => intro _; simp
            | cons q qs ih =>
              intro hq
              simp only [List.all_cons, Bool.and_eq_true] at hq
              obtain ⟨c', hq1, _⟩ := render_param hc q hq.1
              have := ih hq.2
              simp only [paramsToks_cons, render_append, hq1, List.length_append, List.length_cons]
              omega
          have := this ps hidx
          simp only [List.length_append]
          omega

end
end Ptx.Parse

namespace Ptx.Parse
open Ptx Ptx.Sym Ptx.Write

section
variable {cfg : Cfg} {wt : StringTable} (hc : CompatP cfg.table wt cfg.maxi)
include hc

theorem writePolish_op1 (o : Op1) (a : Sent) : writePolish wt (.op1 o a) = wt.op1 o ++ writePolish wt a := by
  simp [writePolish, polishToks, render_cons, renderTok]
omit hc in
theorem writePolish_op2 (o : Op2) (a b : Sent) :
    writePolish wt (.op2 o a b) = wt.op2 o ++ (writePolish wt a ++ writePolish wt b) := by
  simp [writePolish, polishToks, render_cons, render_append, renderTok]
theorem writePolish_quant (q : Quant) (vi vs : Nat) (body : Sent) :
    writePolish wt (.quant q vi vs body) =
      wt.quant q ++ (StringTable.idx wt.var vi ++ (subChars vs ++ writePolish wt body)) := by
  simp [writePolish, polishToks, render_cons, render_append, renderTok, render_subToks hc]
theorem writePolish_atom (i u : Nat) : writePolish wt (.atom i u) = StringTable.idx wt.atom i ++ subChars u := by
  simp [writePolish, polishToks, render_cons, renderTok, render_subToks hc]

/-- THE round-trip lemma: reading what the Polish writer wrote, followed by anything that does
    not continue a subscript or a parameter list, returns the sentence, consumes exactly the
    rendering (and following whitespace), restores `bound`, and declares the new predicates. -/
theorem readPolish_write : ∀ (s : Sent) (fuel : Nat) (b : List Var) (store : Store) (r : List Chr),
    depth s ≤ fuel → wfIn cfg.maxi b s = true → subsOK cfg.intMaxDigits s = true →
    StoreCompat cfg store s → Stops cfg.table r →
    readPolish cfg fuel ⟨writePolish wt s ++ r, b, store⟩ = .ok s ⟨chomp cfg.table r, b, storeAfter store s⟩ := by
  intro s
  induction s with
  | atom i u =>
    intro fuel b store r hf hwf hsub _ hr
    cases fuel with
    | zero => simp [depth] at hf
    | succ f =>
      obtain ⟨c, h1, h2⟩ := hc.atom i (by simpa [wfIn] using hwf)
      have hi : ¬ i > cfg.maxi.atom := by simp [wfIn] at hwf; omega
      simp only [writePolish_atom hc, h1, List.cons_append, List.nil_append, readPolish, h2, readAtomic,
        readCoords_write hc c _ i u r b store h2 rfl hr.stopsD (by simpa [subsOK] using hsub), Res.andThen_ok]
      simp [hi, storeAfter]
  | pred p ps =>
    intro fuel b store r hf hwf hsub hst hr
    cases fuel with
    | zero => simp [depth] at hf
    | succ f =>
      obtain ⟨c, tl, k, h1, h2, h3⟩ := write_head hc (.pred p ps) b hwf
      have hrd := readPredicated_write hc p ps r b store hwf hsub hst hr
      have hk : k = .sysPred .identity ∨ k = .sysPred .existence ∨ k = .pred p.index.toNat := by
        simp only [wfIn, Bool.and_eq_true] at hwf
        obtain ⟨c', h1', h2'⟩ := render_pred hc p hwf.1.1
        simp only [writePolish, polishToks, render_append, h1', List.cons_append] at h1
        have hcc : c' = c := (List.cons.inj h1).1
        subst hcc
        rw [h2] at h2'
        have := Option.some.inj h2'
        rw [this]
        split
        · exact Or.inl rfl
        · split
          · exact Or.inr (Or.inl rfl)
          · exact Or.inr (Or.inr rfl)
      rw [h1] at hrd ⊢
      simp only [List.cons_append] at hrd ⊢
      rcases hk with rfl | rfl | rfl <;> simp only [readPolish, h2] <;> exact hrd
  | quant q vi vs body ih =>
    intro fuel b store r hf hwf hsub hst hr
    cases fuel with
    | zero => simp [depth] at hf
    | succ f =>
      simp only [wfIn, Bool.and_eq_true, decide_eq_true_eq, Bool.not_eq_true', decide_eq_false_iff_not] at hwf
      obtain ⟨⟨⟨hvi, hnb⟩, hocc⟩, hbody⟩ := hwf
      simp only [subsOK, Bool.and_eq_true] at hsub
      obtain ⟨cq, hq1, hq2⟩ := hc.quant q
      obtain ⟨cv, hv1, hv2⟩ := hc.var vi hvi
      have hstopB := (stops_write hc body ((vi, vs) :: b) r hbody).stopsD
      have hchB := chomp_write hc body ((vi, vs) :: b) r hbody
      have hco := readCoords_write hc cv _ vi vs (writePolish wt body ++ r) b store hv2 rfl hstopB hsub.1
      have hcv : chomp cfg.table (cv :: (subChars vs ++ (writePolish wt body ++ r))) = cv :: (subChars vs ++ (writePolish wt body ++ r)) := by
        apply chomp_cons_of_ne; rw [hv2]; simp
      have hih := ih f ((vi, vs) :: b) store r (by simp [depth] at hf; omega) hbody hsub.2 hst hr
      have hvi' : ¬ vi > cfg.maxi.var := by omega
      simp only [writePolish_quant hc, hq1, hv1, List.cons_append, List.nil_append, List.append_assoc, readPolish, hq2,
        readQuantified, advance, List.tail_cons, hcv, hv2, hco, Res.andThen_ok, hchB, hih]
      simp [hvi', hnb, hocc, storeAfter]
  | op1 o a ih =>
    intro fuel b store r hf hwf hsub hst hr
    cases fuel with
    | zero => simp [depth] at hf
    | succ f =>
      obtain ⟨c, h1, h2⟩ := hc.op1 o
      have hwfa : wfIn cfg.maxi b a = true := by simpa [wfIn] using hwf
      have hih := ih f b store r (by simp [depth] at hf; omega) hwfa (by simpa [subsOK] using hsub) hst hr
      simp only [writePolish_op1 hc, h1, List.cons_append, List.nil_append, readPolish, h2, advance, List.tail_cons,
        chomp_write hc a b r hwfa, hih, Res.andThen_ok, storeAfter]
  | op2 o a c iha ihc =>
    intro fuel b store r hf hwf hsub hst hr
    cases fuel with
    | zero => simp [depth] at hf
    | succ f =>
      obtain ⟨co, h1, h2⟩ := hc.op2 o
      simp only [wfIn, Bool.and_eq_true] at hwf
      simp only [subsOK, Bool.and_eq_true] at hsub
      simp only [StoreCompat] at hst
      have hda : depth a ≤ f := by simp [depth] at hf; omega
      have hdc : depth c ≤ f := by simp [depth] at hf; omega
      have hstopC := stops_write hc c b r hwf.2
      have hiha := iha f b store (writePolish wt c ++ r) hda hwf.1 hsub.1 hst.1 hstopC
      have hihc := ihc f b (storeAfter store a) r hdc hwf.2 hsub.2 hst.2 hr
      simp only [writePolish_op2, h1, List.cons_append, List.nil_append, List.append_assoc, readPolish, h2, advance,
        List.tail_cons, chomp_write hc a b _ hwf.1, hiha, Res.andThen_ok, chomp_write hc c b r hwf.2, hihc,
        storeAfter]

end
end Ptx.Parse
