/-
  Ptx.Proofs.SearchLegal — progress: an enabled target of the search model is a LEGAL step of the calculus
  (`applyStep … = some _`), per rule kind.
-/
import Ptx.Proofs.SearchApply
namespace Ptx.Search
open Ptx

theorem foldl_max_ge (l : List Nat) : ∀ m, m ≤ l.foldl (fun m w => max m (w + 1)) m := by
  induction l with
  | nil => intro m; exact Nat.le_refl _
  | cons x xs ih => intro m; exact Nat.le_trans (Nat.le_max_left _ _) (ih _)

theorem foldl_max_gt (l : List Nat) : ∀ m, ∀ w ∈ l, w < l.foldl (fun m w => max m (w + 1)) m := by
  induction l with
  | nil => intro m w hw; cases hw
  | cons x xs ih =>
    intro m w hw
    rcases List.mem_cons.1 hw with rfl | h
    · exact Nat.lt_of_lt_of_le (Nat.lt_of_lt_of_le (Nat.lt_succ_self _) (Nat.le_max_right _ _)) (foldl_max_ge xs _)
    · exact ih _ w h

/-- `Branch.new_world()` is fresh -/
theorem nextWorld_fresh (b : Branch) : b.worlds.contains (nextWorld b) = false := by
  rcases Bool.eq_false_or_eq_true (b.worlds.contains (nextWorld b)) with h | h
  · have hm : nextWorld b ∈ b.worlds := by simpa using h
    exact absurd (foldl_max_gt b.worlds 0 _ hm) (Nat.lt_irrefl _)
  · exact h

theorem worlds_sub_sem {nd : Node} {w : Nat} (h : w ∈ nd.worlds) : w ∈ nd.worldsSem := by
  cases nd with
  | sent s d wo => cases wo <;> simp_all [Node.worlds, Node.worldsSem]
  | _ => simpa [Node.worlds, Node.worldsSem] using h

theorem mem_worlds_of_node {b : Branch} {nd : Node} {w : Nat} (hnd : nd ∈ b.nodes) (h : w ∈ nd.worlds) :
    b.worlds.contains w = true := by
  simp only [List.contains_iff_mem, Branch.worlds, List.mem_flatMap]
  exact ⟨nd, hnd, worlds_sub_sem h⟩

theorem applyStep_of_applyAt {L : LogicData} {t t' : Tableau} {st : Step} {b : Branch} (hb : t[st.branch]? = some b)
    (ho : b.closed = false) (ha : applyAt L t st.branch b st = some t') : applyStep L t st = some t' := by
  simp [applyStep, hb, ho, ha]

section legal
variable {L : LogicData} {s : SState} {bi : Nat}

/-- (b) targets of the access rules are legal frame steps -/
theorem target_legal_frame (hinv : Inv L s) {fr : FrameRule} {st : Step} (hm : st ∈ targets L s (.frame fr) bi) :
    st.branch = bi ∧ ∃ t', applyStep L s.tab st = some t' := by
  obtain ⟨b, h, hb, hh, ho, hmem⟩ := mem_targets hm
  have I := hinv.branch bi b h hb hh ho
  simp only [frameTargets] at hmem
  split at hmem
  · cases hmem
  next hcond =>
  have hfa : L.frameAllowed fr = true := by
    simp only [Bool.or_eq_true, Bool.not_eq_eq_eq_not, Bool.not_true, not_or, Bool.not_eq_false] at hcond
    exact hcond.1
  have fin : ∀ w1 w2 w3 nd, st = .frame bi fr w1 w2 w3 → frameAdd b fr w1 w2 w3 = some nd →
      st.branch = bi ∧ ∃ t', applyStep L s.tab st = some t' := by
    intro w1 w2 w3 nd he hfa'
    subst he
    refine ⟨rfl, s.tab.set bi (b.extend [nd] none), applyStep_of_applyAt (st := .frame bi fr w1 w2 w3) hb ho ?_⟩
    simp only [applyAt, hfa, Bool.not_true, Bool.false_eq_true, ↓reduceIte, hfa', Step.branch]
  cases fr with
  | reflexive =>
    obtain ⟨i, _, hx⟩ := List.mem_flatMap.1 hmem
    split at hx
    · next nd hnd =>
      obtain ⟨w, hw, rfl⟩ := List.mem_map.1 hx
      have hw' := (List.mem_filter.1 hw).1
      have hc := mem_worlds_of_node (List.mem_of_getElem? hnd) hw'
      exact fin w w w (.access w w) rfl (by simp only [frameAdd, hc, ↓reduceIte])
    · cases hx
  | transitive =>
    obtain ⟨i, _, hx⟩ := List.mem_flatMap.1 hmem
    split at hx
    · next a c hnd =>
      obtain ⟨e, he, rfl⟩ := List.mem_map.1 hx
      have he' := mem_succs.1 (List.mem_filter.1 he).1
      have h1 : b.hasAccess a c = true := hasAccess_iff.2 (List.mem_of_getElem? hnd)
      have h2 : b.hasAccess c e = true := hasAccess_iff.2 ((I.windex c e).1 he')
      exact fin a c e (.access a e) rfl (by simp only [frameAdd, h1, h2, Bool.and_self, ↓reduceIte])
    · cases hx
  | symmetric =>
    obtain ⟨i, _, hx⟩ := List.mem_flatMap.1 hmem
    split at hx
    · next a c hnd =>
      split at hx
      · cases hx
      · simp only [List.mem_singleton] at hx
        subst hx
        have h1 : b.hasAccess a c = true := hasAccess_iff.2 (List.mem_of_getElem? hnd)
        exact fin a c 0 (.access c a) rfl (by simp only [frameAdd, h1, ↓reduceIte])
    · cases hx
  | serial =>
    obtain ⟨w, hw, rfl⟩ := List.mem_map.1 hmem
    have hun := (I.unserial w).1 (List.mem_filter.1 hw).1
    obtain ⟨nd, hnd, hwn⟩ := List.mem_flatMap.1 hun.1
    have hc := mem_worlds_of_node hnd hwn
    exact fin w (nextWorld b) 0 (.access w (nextWorld b)) rfl
      (by simp only [frameAdd, hc, nextWorld_fresh, Bool.not_false, Bool.and_self, ↓reduceIte])

/-- (f, limit path) quit-flag targets are legal -/
theorem target_legal_quit {r : RuleId} {bi' : Nat} {name : String} {tick : Option Nat}
    (hm : Step.quit bi' name tick ∈ targets L s r bi) (hname : name = "quit") (hbi : bi' = bi) :
    ∃ t', applyStep L s.tab (.quit bi' name tick) = some t' := by
  obtain ⟨b, h, hb, hh, ho, _⟩ := mem_targets hm
  subst hbi; subst hname
  exact ⟨s.tab.set bi' (b.extend [.flag "quit"] tick), applyStep_of_applyAt (st := .quit bi' "quit" tick) hb ho (by simp [applyAt, Step.branch])⟩

/-- side condition for the cached closure target: the closure table is monotone in the constraint set -/
def closureMonoB (L : LogicData) : Bool :=
  (sublists L.allLits).all fun S => L.closure.lookup S != some true ||
    (sublists L.allLits).all fun T => !(S.all T.contains) || L.closure.lookup T == some true

/-- (a) the cached closure target is a legal closure step -/
theorem target_legal_closure (hmono : closureMonoB L = true) (hinv : Inv L s) {st : Step}
    (hm : st ∈ targets L s .closure bi) : st.branch = bi ∧ ∃ t', applyStep L s.tab st = some t' := by
  obtain ⟨b, h, hb, hh, ho, hmem⟩ := mem_targets hm
  have I := hinv.branch bi b h hb hh ho
  simp only at hmem
  cases hc : h.closeT with
  | none => simp [hc] at hmem
  | some t =>
    simp only [hc, Option.map_some, Option.toList_some, List.mem_singleton] at hmem
    subst hmem
    have hsome := I.closeSome t hc
    cases t with
    | ident n =>
      obtain ⟨nd, hnd, hid⟩ := hsome
      exact ⟨rfl, s.tab.set bi (closeB b), applyStep_of_applyAt (st := .closeIdent bi n) hb ho (by simp [applyAt, hnd, hid, Step.branch])⟩
    | lits sn w =>
      obtain ⟨b0, ⟨ns, hns⟩, hl⟩ := hsome
      refine ⟨rfl, s.tab.set bi (closeB b), applyStep_of_applyAt (st := .close bi sn w) hb ho ?_⟩
      have hsub : ∀ l ∈ b0.litSet L sn w, l ∈ b.litSet L sn w := by
        intro l hl'
        obtain ⟨ha, hn⟩ := mem_litSet.1 hl'
        exact mem_litSet.2 ⟨ha, by rw [hns]; exact List.mem_append_left _ hn⟩
      simp only [closureMonoB, List.all_eq_true, Bool.or_eq_true, bne_iff_ne, ne_eq, Bool.not_eq_eq_eq_not, Bool.not_true] at hmono
      have := hmono _ (litSet_sublists (L := L) (b := b0) (z := sn) (w := w))
      rcases this with h1 | h1
      · exact absurd hl h1
      · rcases h1 _ (litSet_sublists (L := L) (b := b) (z := sn) (w := w)) with h2 | h2
        · exfalso
          rw [List.all_eq_false] at h2
          obtain ⟨l, hl', hne⟩ := h2
          exact hne (by simpa using hsub l hl')
        · simp [applyAt, h2, Step.branch]

end legal

end Ptx.Search
