/-
  Ptx.Proofs.TabTreeLeaves — the tree `_build` returns has one leaf per branch, and the node path
  from the root down to that leaf is that branch, provided the branch records are coherent (same
  identity at the same position ⇒ same object), no branch is an initial segment of another, and no
  branch occurs twice.  (Both hold in every state reached from a trunk by legal steps of a logic
  whose rules add at least one node per branch: Ptx/Proofs/TabTreeIds.lean.)
-/
import Ptx.Proofs.TabTreeScan
namespace Ptx
namespace TabTree

/-- same identity at the same position ⇒ same object -/
def Coh (brs : List TB) : Prop :=
  ∀ b ∈ brs, ∀ c ∈ brs, ∀ (p : Nat) (o o' : NObj), b.r.objs[p]? = some o → c.r.objs[p]? = some o' → o.orig = o'.orig → o = o'

/-- no branch occurs twice, none is an initial segment of another -/
def PF (brs : List TB) : Prop :=
  (brs.map (·.idx)).Nodup ∧ ∀ b ∈ brs, ∀ c ∈ brs, b.r.objs <+: c.r.objs → b = c

/-- the branches share their first `d` node objects -/
def Agree (d : Nat) (brs : List TB) : Prop :=
  ∃ pre : List NObj, pre.length = d ∧ ∀ b ∈ brs, pre <+: b.r.objs

theorem Coh.sub {brs g : List TB} (h : Coh brs) (hs : ∀ b ∈ g, b ∈ brs) : Coh g :=
  fun b hb c hc => h b (hs b hb) c (hs c hc)

theorem PF.filter {brs : List TB} (h : PF brs) (p : TB → Bool) : PF (brs.filter p) :=
  ⟨h.1.sublist (List.filter_sublist.map _),
   fun b hb c hc => h.2 b (List.mem_filter.1 hb).1 c (List.mem_filter.1 hc).1⟩

/-- the path leading to a structure followed by the structure's nodes agrees with every branch as
    far as the branch goes -/
theorem agree_E {brs : List TB} {d : Nat} {pre new : List NObj} (hcoh : Coh brs)
    (hpl : pre.length = d) (hpre : ∀ b ∈ brs, pre <+: b.r.objs)
    (h3 : ∀ j o, new[j]? = some o → ∃ c ∈ brs, c.r.objs[d + j]? = some o)
    (h4 : ∀ b ∈ brs, ∀ j o o', new[j]? = some o → b.r.objs[d + j]? = some o' → o'.orig = o.orig) :
    ∀ b ∈ brs, ∀ p o, (pre ++ new)[p]? = some o → p < b.r.objs.length → b.r.objs[p]? = some o := by
  intro b hb p o hE hp
  by_cases hlt : p < d
  · obtain ⟨t, ht⟩ := hpre b hb
    rw [List.getElem?_append_left (by omega)] at hE
    rw [← ht, List.getElem?_append_left (by omega)]
    exact hE
  · rw [List.getElem?_append_right (by omega)] at hE
    have hpd : p = d + (p - pre.length) := by omega
    obtain ⟨c, hc, hco⟩ := h3 _ o hE
    have hbo := List.getElem?_eq_getElem hp
    have horig := h4 b hb _ o _ hE (by rw [← hpd]; exact hbo)
    rw [← hpd] at hco
    rw [hbo]
    congr 1
    exact hcoh b hb c hc p _ o hbo hco horig

/-- a branch that ends inside the scanned stretch is an initial segment of another branch -/
theorem short_is_prefix {brs : List TB} {d : Nat} {pre new : List NObj}
    (hpl : pre.length = d) (hpre : ∀ b ∈ brs, pre <+: b.r.objs)
    (h3 : ∀ j o, new[j]? = some o → ∃ c ∈ brs, c.r.objs[d + j]? = some o)
    (hE : ∀ b ∈ brs, ∀ p o, (pre ++ new)[p]? = some o → p < b.r.objs.length → b.r.objs[p]? = some o)
    {b : TB} (hb : b ∈ brs) (hshort : b.r.objs.length < d + new.length) :
    ∃ c ∈ brs, b.r.objs <+: c.r.objs ∧ b.r.objs.length < c.r.objs.length := by
  have hge : d ≤ b.r.objs.length := by rw [← hpl]; exact (hpre b hb).length_le
  have hj : b.r.objs.length - d < new.length := by omega
  obtain ⟨c, hc, hco⟩ := h3 _ _ (List.getElem?_eq_getElem hj)
  have hclen : b.r.objs.length < c.r.objs.length := by
    have := (List.getElem?_eq_some_iff.1 hco).1; omega
  refine ⟨c, hc, ?_, hclen⟩
  rw [List.prefix_iff_eq_take]
  apply List.ext_getElem?
  intro q
  rw [List.getElem?_take]
  by_cases hq : q < b.r.objs.length
  · rw [if_pos hq]
    have hqE : q < (pre ++ new).length := by simp only [List.length_append]; omega
    have := List.getElem?_eq_getElem hqE
    rw [hE b hb q _ this hq, hE c hc q _ this (by omega)]
  · rw [if_neg hq, List.getElem?_eq_none (by omega)]

/-- a branch that reaches the end of the scanned stretch consists of the path, the structure's nodes, and a rest -/
theorem long_split {brs : List TB} {pre new : List NObj}
    (hE : ∀ b ∈ brs, ∀ p o, (pre ++ new)[p]? = some o → p < b.r.objs.length → b.r.objs[p]? = some o)
    {b : TB} (hb : b ∈ brs) (hlong : (pre ++ new).length ≤ b.r.objs.length) :
    b.r.objs = (pre ++ new) ++ b.r.objs.drop (pre ++ new).length := by
  have : b.r.objs.take (pre ++ new).length = pre ++ new := by
    apply List.ext_getElem?
    intro q
    rw [List.getElem?_take]
    by_cases hq : q < (pre ++ new).length
    · rw [if_pos hq]
      have := List.getElem?_eq_getElem hq
      rw [hE b hb q _ this (by omega), this]
    · rw [if_neg hq, List.getElem?_eq_none (by omega)]
  conv => lhs; rw [← List.take_append_drop (pre ++ new).length b.r.objs, this]

theorem kidsWith_leaves {f : List TB → Nat → Nat → Except TreeErr (Tree × Nat × Nat)}
    {F : List TB → List (Option Nat × List NObj)} :
    ∀ (gs : List (List TB)) (pos dist : Nat) (cs : List Tree) (p2 d2 : Nat),
      (∀ g ∈ gs, ∀ p di c p1 d1, f g p di = .ok (c, p1, d1) → c.leafPaths.Perm (F g)) →
      kidsWith f gs pos dist = .ok (cs, p2, d2) → (Tree.leafPathsL cs).Perm (gs.flatMap F)
  | [], pos, dist, cs, p2, d2, _, h => by
      simp only [kidsWith, Except.ok.injEq, Prod.mk.injEq] at h
      obtain ⟨rfl, _, _⟩ := h
      simp [Tree.leafPathsL]
  | g :: gs, pos, dist, cs, p2, d2, hf, h => by
      simp only [kidsWith] at h
      split at h
      · cases h
      · next c p1 d1 hc =>
        split at h
        · cases h
        · next cs' p2' d2' hcs =>
          simp only [Except.ok.injEq, Prod.mk.injEq] at h
          obtain ⟨rfl, _, _⟩ := h
          simp only [Tree.leafPathsL, List.flatMap_cons]
          exact List.Perm.append (hf g List.mem_cons_self _ _ _ _ _ hc)
            (kidsWith_leaves gs p1 d1 cs' p2' d2' (fun g' hg' => hf g' (List.mem_cons_of_mem _ hg')) hcs)

theorem exists_other {brs : List TB} (hnd : (brs.map (·.idx)).Nodup) {b : TB} (hb : b ∈ brs) (hns : ∀ x, brs = [x] → False) :
    ∃ c ∈ brs, c ≠ b := by
  match brs, hnd, hb, hns with
  | [x], _, _, hns => exact (hns x rfl).elim
  | x :: y :: rest, hnd, _, _ =>
    have hxy : x ≠ y := by
      intro e; subst e
      simp at hnd
    by_cases e : x = b
    · exact ⟨y, by simp, fun e' => hxy (e.trans e'.symm)⟩
    · exact ⟨x, by simp, e⟩

/-- One leaf per branch, and the nodes on the way down to the leaf are the branch (from depth `d` on). -/
theorem buildF_leaves : ∀ (f : Nat) (brs : List TB) (d sd pos dist : Nat) (root : Bool) (tr : Tree) (pos' dist' : Nat),
    buildF f brs d sd pos dist root = .ok (tr, pos', dist') → Coh brs → PF brs → Agree d brs →
    tr.leafPaths.Perm (brs.map (fun b => (some b.idx, b.r.objs.drop d)))
  | 0, _, _, _, _, _, _, _, _, _, h, _, _, _ => by simp [buildF] at h
  | f + 1, brs, d, sd, pos, dist, root, tr, pos', dist', h, hcoh, hpf, hag => by
      obtain ⟨pre, hpl, hpre⟩ := hag
      simp only [buildF] at h
      split at h
      · cases h
      · next sc hsc =>
        obtain ⟨new, h1, h2, h3, h4, h5, h6⟩ := scan_spec _ _ _ _ _ hsc
        simp only [List.nil_append] at h1
        have hE := agree_E hcoh hpl hpre h3 h4
        have hElen : (pre ++ new).length = sc.depth := by simp [hpl, h2]
        split at h
        · -- one branch: a leaf
          next b =>
          simp only [Except.ok.injEq, Prod.mk.injEq] at h
          obtain ⟨rfl, _, _⟩ := h
          have hbm : b ∈ [b] := List.mem_singleton.2 rfl
          have hlong : sc.depth ≤ b.r.objs.length := by
            apply Nat.le_of_not_lt
            intro hlt
            obtain ⟨c, hc, _, hlen⟩ := short_is_prefix hpl hpre h3 hE hbm (by omega)
            rw [List.mem_singleton.1 hc] at hlen
            exact Nat.lt_irrefl _ hlen
          have hend : b.r.objs.length ≤ sc.depth := by
            apply Nat.le_of_not_lt
            intro hlt
            apply h6
            rw [h5]
            have : presentAt [b] sc.depth = [(b, b.r.objs[sc.depth]'hlt)] := by
              simp [presentAt, List.getElem?_eq_getElem hlt]
            rw [this]; rfl
          have hsplit := long_split hE hbm (by omega)
          have hdrop : b.r.objs.drop d = sc.nodes := by
            rw [h1]
            have : b.r.objs.drop (pre ++ new).length = [] := List.drop_eq_nil_of_le (by omega)
            rw [this, List.append_nil] at hsplit
            rw [hsplit, List.drop_left' hpl]
          simp [Tree.leafPaths, Tree.leafPathsL, hdrop]
        · next hns =>
          split at h
          · cases h
          · next hidx =>
            split at h
            · cases h
            · next kids p2 d2 hk =>
              split at h
              · cases h
              · simp only [Except.ok.injEq, Prod.mk.injEq] at h
                obtain ⟨rfl, _, _⟩ := h
                -- no branch ends before the split depth …
                have hA' : ∀ b ∈ brs, sc.depth ≤ b.r.objs.length := by
                  intro b hb
                  apply Nat.le_of_not_lt
                  intro hlt
                  obtain ⟨c, hc, hpfx, hlen⟩ := short_is_prefix hpl hpre h3 hE hb (by omega)
                  have := hpf.2 b hb c hc hpfx
                  subst this
                  exact Nat.lt_irrefl _ hlen
                -- … nor at it
                have hA : ∀ b ∈ brs, sc.depth < b.r.objs.length := by
                  intro b hb
                  apply Nat.lt_of_le_of_ne (hA' b hb)
                  intro heq
                  by_cases hlast : sc.last = []
                  · -- nobody has a node at the split depth: all branches are equal
                    have hpres : presentAt brs sc.depth = [] := by
                      have := dedupR_eq_nil (by rw [← h5]; exact hlast)
                      exact List.map_eq_nil_iff.1 this
                    obtain ⟨c, hc, hne⟩ := exists_other hpf.1 hb hns
                    have hclen : c.r.objs.length = sc.depth := by
                      apply Nat.le_antisymm _ (hA' c hc)
                      apply Nat.le_of_not_lt
                      intro hlt
                      have : (c, c.r.objs[sc.depth]'hlt) ∈ presentAt brs sc.depth :=
                        mem_presentAt.2 ⟨hc, List.getElem?_eq_getElem hlt⟩
                      rw [hpres] at this; cases this
                    have hb' := long_split hE hb (by omega)
                    have hc' := long_split hE hc (by omega)
                    rw [List.drop_eq_nil_of_le (by omega), List.append_nil] at hb' hc'
                    exact hne (hpf.2 c hc b hb (by rw [hb', hc']; exact List.prefix_refl _))
                  · apply hidx
                    simp only [Bool.and_eq_true, Bool.not_eq_true', List.isEmpty_eq_false_iff, List.any_eq_true,
                      decide_eq_true_eq]
                    exact ⟨hlast, b, hb, by omega⟩
                have hB : ∀ b ∈ brs, b.r.objs = (pre ++ new) ++ b.r.objs.drop sc.depth := by
                  intro b hb
                  have := long_split hE hb (by have := hA b hb; omega)
                  rw [hElen] at this; exact this
                -- the children
                have hkids := kidsWith_leaves (F := fun g => g.map (fun b => (some b.idx, b.r.objs.drop sc.depth)))
                  _ _ _ _ _ _ (by
                    intro g hg p di c p1 d1 hc
                    simp only [groupsAt, List.mem_map] at hg
                    obtain ⟨k, _, rfl⟩ := hg
                    refine buildF_leaves f _ _ _ _ _ _ _ _ _ hc
                      (hcoh.sub (fun b hb => (List.mem_filter.1 hb).1)) (hpf.filter _) ?_
                    refine ⟨pre ++ new, hElen, ?_⟩
                    intro b hb
                    have hb := (List.mem_filter.1 hb).1
                    rw [hB b hb]
                    exact List.prefix_append _ _) hk
                have hgp : ((groupsAt brs sc.depth sc.last).flatten).Perm brs := by
                  rw [h5]; exact groups_perm hA
                simp only [Tree.leafPaths, Bool.false_eq_true, if_false, List.nil_append]
                have hmap : (groupsAt brs sc.depth sc.last).flatMap
                      (fun g => g.map (fun b => (some b.idx, b.r.objs.drop sc.depth)))
                    = ((groupsAt brs sc.depth sc.last).flatten).map (fun b => (some b.idx, b.r.objs.drop sc.depth)) := by
                  rw [List.flatMap_def, List.map_flatten]
                rw [hmap] at hkids
                have hall := (hkids.trans (hgp.map _)).map (fun (x : Option Nat × List NObj) => (x.1, sc.nodes ++ x.2))
                refine hall.trans ?_
                rw [List.map_map]
                apply List.Perm.of_eq
                apply List.map_congr_left
                intro b hb
                simp only [Function.comp]
                congr 1
                conv => rhs; rw [hB b hb]
                rw [h1, List.append_assoc, List.drop_left' hpl]

end TabTree
end Ptx
