/-
  Ptx.Proofs.LibModelIdent — what the classical pass of `finish` does achieve: in every frame of
  the finished model, `c = c` and `E!c` are true for every model constant `c`.
-/
import Ptx.Proofs.LibModelFinish
namespace Ptx.LibModel
open Ptx

/-! ### lookups through the frame operations -/

theorem lookup_snoc_self {κ β : Type} [BEq κ] [LawfulBEq κ] {l : List (κ × β)} {k : κ} {v : β} (h : l.lookup k = none) :
    (l ++ [(k, v)]).lookup k = some v := by
  rw [List.lookup_append, h]; simp [List.lookup]

theorem lookup_snoc_of_some {κ β : Type} [BEq κ] [LawfulBEq κ] {l : List (κ × β)} {k k' : κ} {v v' : β}
    (h : l.lookup k = some v) : (l ++ [(k', v')]).lookup k = some v := by
  rw [List.lookup_append, h]; rfl

theorem interp_ensurePred (f : Frame) (p p' : Pred) : (f.ensurePred p).interp p' = f.interp p' := by
  unfold Frame.ensurePred Frame.interp ainsNew
  simp only
  split
  · rfl
  · next h =>
    have hn : f.preds.lookup p = none := by
      cases hl : f.preds.lookup p with
      | none => rfl
      | some _ => simp [hl] at h
    rw [List.lookup_append]
    by_cases hp : p' = p
    · subst hp; simp [hn, List.lookup]
    · have : (p' == p) = false := by simpa using hp
      cases hl : f.preds.lookup p' <;> simp [List.lookup, this]

theorem interp_setInterp_self (f : Frame) (p : Pred) (ip : Interp) : (f.setInterp p ip).interp p = ip := by
  unfold Frame.setInterp Frame.interp
  simp only [lookup_aset_self, Option.getD_some]

theorem interp_setInterp_ne (f : Frame) {p p' : Pred} (ip : Interp) (h : p' ≠ p) :
    (f.setInterp p ip).interp p' = f.interp p' := by
  unfold Frame.setInterp Frame.interp
  simp only [lookup_aset_ne _ _ h]

/-! ### `interp[params] = 'T'` -/

theorem setT_lookup {ip ip' : Interp} {t : Tup} (h : setT ip t = .ok ip') :
    ip'.lookup t = some .T ∧ ∀ t' v, ip.lookup t' = some v → ip'.lookup t' = some v := by
  unfold setT at h
  split at h
  · next v hv =>
    split at h
    · next hvT => cases h; subst hvT; exact ⟨hv, fun _ _ h => h⟩
    · cases h
  · next hn =>
    cases h
    exact ⟨lookup_snoc_self hn, fun t' v h' => lookup_snoc_of_some h'⟩

theorem setAllT_lookup : ∀ (ts : List Tup) (ip ip' : Interp), setAllT ip ts = .ok ip' →
    (∀ t ∈ ts, ip'.lookup t = some .T) ∧ ∀ t' v, ip.lookup t' = some v → ip'.lookup t' = some v
  | [], ip, ip', h => by simp only [setAllT] at h; cases h; exact ⟨by simp, fun _ _ h => h⟩
  | t :: ts, ip, ip', h => by
      simp only [setAllT] at h
      split at h
      · next ip1 h1 =>
        obtain ⟨a1, a2⟩ := setT_lookup h1
        obtain ⟨b1, b2⟩ := setAllT_lookup ts ip1 ip' h
        refine ⟨?_, fun t' v h' => b2 t' v (a2 t' v h')⟩
        intro t' ht'
        rcases List.mem_cons.1 ht' with rfl | ht'
        · exact b2 _ _ a1
        · exact b1 t' ht'
      · cases h

/-- `_ensure_self_identity` / `_ensure_self_existence`: the self-tuples are true afterwards; what was
    assigned before stays -/
theorem ensureSelf_lookup {cs : List Param} {p : Pred} {mk : Param → Tup} {f f' : Frame}
    (h : ensureSelf cs p mk f = .ok f') :
    (∀ x ∈ cs, (f'.interp p).lookup (mk x) = some .T) ∧
    (∀ p' t v, (f.interp p').lookup t = some v → (f'.interp p').lookup t = some v) := by
  unfold ensureSelf at h
  split at h
  · next hemp =>
    cases h
    have : cs = [] := by simpa using hemp
    subst this
    exact ⟨by simp, fun _ _ _ h => h⟩
  · simp only at h
    split at h
    · next ip' hip =>
      cases h
      obtain ⟨a1, a2⟩ := setAllT_lookup _ _ _ hip
      refine ⟨?_, ?_⟩
      · intro x hx
        rw [interp_setInterp_self]
        exact a1 _ (List.mem_map.2 ⟨x, hx, rfl⟩)
      · intro p' t v hv
        by_cases hp : p' = p
        · subst hp
          rw [interp_setInterp_self]
          apply a2
          rw [interp_ensurePred]; exact hv
        · rw [interp_setInterp_ne _ _ hp, interp_ensurePred]; exact hv
    · cases h

theorem cplFrame_self {cs : List Param} {snapshot : List Pred} {f f' : Frame} (h : cplFrame cs snapshot f = .ok f') :
    ∀ x ∈ cs, (f'.interp Pred.identity).lookup [x, x] = some .T ∧ (f'.interp Pred.existence).lookup [x] = some .T := by
  unfold cplFrame at h
  split at h
  · cases h
  · split at h
    · cases h
    · next f2 h2 =>
      obtain ⟨a1, _⟩ := ensureSelf_lookup h2
      obtain ⟨b1, b2⟩ := ensureSelf_lookup h
      intro x hx
      exact ⟨b2 _ _ _ (a1 x hx), b1 x hx⟩

/-- every frame of the result of `cplFrames` is the result of `cplFrame` on the model's constants -/
theorem cplFrames_frames {hints : Hints} {m m' : Model} (h : cplFrames hints m = .ok m') :
    m'.consts = m.consts ∧ m'.R = m.R ∧ m'.finished = m.finished ∧
    ∀ wf ∈ m'.frames, ∃ snapshot f, cplFrame (constParams (orderBy hints.consts m.consts)) snapshot f = .ok wf.2 := by
  unfold cplFrames at h
  simp only at h
  split at h
  · next frames hfr =>
    cases h
    refine ⟨rfl, rfl, rfl, ?_⟩
    have gen : ∀ (todo : List (Nat × Frame)) (acc acc' : List (Nat × Frame)),
        (∀ wf ∈ acc, ∃ snapshot f, cplFrame (constParams (orderBy hints.consts m.consts)) snapshot f = .ok wf.2) →
        foldRes (fun (acc : List (Nat × Frame)) (wf : Nat × Frame) =>
          match cplFrame (constParams (orderBy hints.consts m.consts))
              (orderBy ((hints.preds.lookup wf.1).getD []) (akeys wf.2.preds)) wf.2 with
          | .ok f => Except.ok (acc ++ [(wf.1, f)])
          | .error e => .error e) acc todo = .ok acc' →
        ∀ wf ∈ acc', ∃ snapshot f, cplFrame (constParams (orderBy hints.consts m.consts)) snapshot f = .ok wf.2 := by
      intro todo
      induction todo with
      | nil => intro acc acc' hacc h; simp only [foldRes] at h; cases h; exact hacc
      | cons a t ih =>
        intro acc acc' hacc h
        simp only [foldRes] at h
        split at h
        · next b1 h1 =>
          split at h1
          · next f1 hf1 =>
            cases h1
            apply ih _ acc' _ h
            intro wf hwf
            rcases List.mem_append.1 hwf with hwf | hwf
            · exact hacc wf hwf
            · simp at hwf; subst hwf; exact ⟨_, _, hf1⟩
          · cases h1
        · cases h
    exact gen m.frames [] frames (by simp) hfr
  · cases h

theorem completeFrames_consts {L : LogicData} {m m' : Model} (h : completeFrames L m = .ok m') :
    m'.consts = m.consts ∧ m'.finished = m.finished := by
  unfold completeFrames at h
  split at h
  · cases h; exact ⟨rfl, rfl⟩
  split at h
  · cases h
  simp only [Except.ok.injEq] at h
  subst h
  exact ⟨rfl, rfl⟩

/-- after a successful `finish` of a classical model: self-identity and existence hold in every frame -/
theorem finish_self {L : LogicData} (hcl : isClassical L = true) (hints : Hints) {m m' : Model}
    (h : finish L hints m = (m', none)) (hnf : m.finished = false) :
    m'.finished = true ∧ m'.consts = m.consts ∧
    ∀ wf ∈ m'.frames, ∀ c ∈ m'.consts,
      (wf.2.interp Pred.identity).lookup [.const c.1 c.2, .const c.1 c.2] = some .T ∧
      (wf.2.interp Pred.existence).lookup [.const c.1 c.2] = some .T := by
  unfold finish finishX at h
  simp only [hnf, Bool.false_eq_true, ↓reduceIte, hcl] at h
  split at h
  · simp at h
  next m1 h1 =>
  split at h
  · simp at h
  next m2 h2 =>
  simp only [finishBase, Prod.mk.injEq, and_true] at h
  subst h
  obtain ⟨c1, _⟩ := completeFrames_consts h1
  obtain ⟨c2, _, _, hfr⟩ := cplFrames_frames h2
  refine ⟨rfl, by simp only [c2, c1], ?_⟩
  intro wf hwf c hc
  obtain ⟨snap, f, hf⟩ := hfr wf hwf
  apply cplFrame_self hf
  simp only at hc
  rw [c2] at hc
  exact List.mem_map.2 ⟨c, mem_orderBy.2 hc, rfl⟩

/-- and the evaluator says so -/
theorem valueOf_self {L : LogicData} {m : Model} (hfin : m.finished = true) {w : Nat} {f : Frame}
    (hw : m.frames.lookup w = some f) {c : Nat × Nat} (hc : c ∈ m.consts)
    (h : (f.interp Pred.identity).lookup [.const c.1 c.2, .const c.1 c.2] = some .T ∧
         (f.interp Pred.existence).lookup [.const c.1 c.2] = some .T) :
    valueOf L m (.pred Pred.identity [.const c.1 c.2, .const c.1 c.2]) w = .ok .T ∧
    valueOf L m (.pred Pred.existence [.const c.1 c.2]) w = .ok .T := by
  have hc'' : (c.1, c.2) ∈ m.consts := hc
  constructor
  · simp [valueOf, valueOfF, Sent.size, hfin, isOpaque, tupInConsts, tupIn, hc'', frameOf, hw, h.1, Except.map]
  · simp [valueOf, valueOfF, Sent.size, hfin, isOpaque, tupInConsts, tupIn, hc'', frameOf, hw, h.2, Except.map]

end Ptx.LibModel
