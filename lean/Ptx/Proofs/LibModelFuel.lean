/-
  Ptx.Proofs.LibModelFuel — the fuel the mirror gives the `while True` loops of
  `ReflexiveTransitiveAccesss.enforce` / `GlobalAccess.enforce` (`|W|² + 2`) always suffices: the
  relation only grows inside the finite set `W × W`, and every iteration that does not leave through
  `break` adds at least one pair that was not there.  Hence the loop always leaves through `break`
  and the flag computed by the mirror is `true` for every well-formed relation.

  The same counting argument for the specification program `Frames.closure`: after `|W|² + 2` rounds
  a fixed point is reached (`Frames.stable` is `true`).
-/
import Ptx.Proofs.LibModelKeys
namespace Ptx.LibModel
open Ptx

/-! ### counting: filters -/

theorem filter_length_le_of_imp {α} {p q : α → Bool} : ∀ (l : List α), (∀ x ∈ l, q x = true → p x = true) →
    (l.filter q).length ≤ (l.filter p).length
  | [], _ => by simp
  | a :: t, h => by
      have ih := filter_length_le_of_imp (p := p) (q := q) t fun x hx => h x (List.mem_cons_of_mem _ hx)
      have ha := h a List.mem_cons_self
      simp only [List.filter_cons]
      cases hq : q a
      · cases hp : p a
        · simpa using ih
        · simp only [Bool.false_eq_true, ↓reduceIte, List.length_cons]; omega
      · simp only [ha hq, ↓reduceIte, List.length_cons]; omega

theorem filter_length_lt_of_imp {α} {p q : α → Bool} : ∀ (l : List α), (∀ x ∈ l, q x = true → p x = true) →
    (∃ x ∈ l, p x = true ∧ q x = false) → (l.filter q).length < (l.filter p).length
  | [], _, h => by obtain ⟨x, hx, _⟩ := h; cases hx
  | a :: t, h, hex => by
      have hle := filter_length_le_of_imp (p := p) (q := q) t fun x hx => h x (List.mem_cons_of_mem _ hx)
      have ha := h a List.mem_cons_self
      simp only [List.filter_cons]
      obtain ⟨x, hx, hpx, hqx⟩ := hex
      rcases List.mem_cons.1 hx with rfl | hx
      · simp only [hpx, hqx, Bool.false_eq_true, ↓reduceIte, List.length_cons]; omega
      · have ih := filter_length_lt_of_imp (p := p) (q := q) t (fun x hx => h x (List.mem_cons_of_mem _ hx))
          ⟨x, hx, hpx, hqx⟩
        cases hq : q a
        · cases hp : p a
          · simpa using ih
          · simp only [Bool.false_eq_true, ↓reduceIte, List.length_cons]; omega
        · simp only [ha hq, ↓reduceIte, List.length_cons]; omega

/-! ### the pairs over a world list that a relation does not have yet -/

def allPairs (ws : List Nat) : List (Nat × Nat) := ws.flatMap fun a => ws.map fun b => (a, b)

theorem mem_allPairs {ws : List Nat} {p : Nat × Nat} : p ∈ allPairs ws ↔ p.1 ∈ ws ∧ p.2 ∈ ws := by
  obtain ⟨a, b⟩ := p
  simp only [allPairs, List.mem_flatMap, List.mem_map, Prod.mk.injEq]
  constructor
  · rintro ⟨a', ha, b', hb, rfl, rfl⟩; exact ⟨ha, hb⟩
  · rintro ⟨ha, hb⟩; exact ⟨a, ha, b, hb, rfl, rfl⟩

theorem length_flatMap_const {α β} (f : α → List β) (n : Nat) : ∀ (l : List α), (∀ a ∈ l, (f a).length = n) →
    (l.flatMap f).length = l.length * n
  | [], _ => by simp
  | a :: t, h => by
      simp only [List.flatMap_cons, List.length_append, List.length_cons]
      rw [length_flatMap_const f n t fun x hx => h x (List.mem_cons_of_mem _ hx), h a List.mem_cons_self]
      rw [Nat.add_mul]; omega

theorem length_allPairs (ws : List Nat) : (allPairs ws).length = ws.length * ws.length := by
  unfold allPairs
  exact length_flatMap_const _ _ ws fun a _ => by simp

/-- how many pairs over `ws` are not in `ps` -/
def gap (ws : List Nat) (ps : List (Nat × Nat)) : Nat := ((allPairs ws).filter fun p => !ps.contains p).length

theorem gap_le (ws : List Nat) (ps : List (Nat × Nat)) : gap ws ps ≤ ws.length * ws.length := by
  unfold gap
  rw [← length_allPairs]
  exact List.length_filter_le _ _

theorem gap_mono {ws : List Nat} {ps ps' : List (Nat × Nat)} (h : ∀ p ∈ ps, p ∈ ps') : gap ws ps' ≤ gap ws ps := by
  unfold gap
  apply filter_length_le_of_imp
  intro x _ hx
  simp only [Bool.not_eq_true', List.contains_eq_mem, decide_eq_false_iff_not] at hx ⊢
  exact fun hm => hx (h x hm)

theorem gap_lt {ws : List Nat} {ps ps' : List (Nat × Nat)} (h : ∀ p ∈ ps, p ∈ ps') {q : Nat × Nat}
    (hq' : q ∈ ps') (hq : q ∉ ps) (h1 : q.1 ∈ ws) (h2 : q.2 ∈ ws) : gap ws ps' < gap ws ps := by
  unfold gap
  apply filter_length_lt_of_imp
  · intro x _ hx
    simp only [Bool.not_eq_true', List.contains_eq_mem, decide_eq_false_iff_not] at hx ⊢
    exact fun hm => hx (h x hm)
  · refine ⟨q, mem_allPairs.2 ⟨h1, h2⟩, ?_, ?_⟩
    · simpa using hq
    · simpa using hq'

namespace Acc

/-- the trivial target relation: `Inside ws ⊤ R'` says `R'` has the keys `ws` and relates members of `ws` -/
abbrev Top : Nat × Nat → Prop := fun _ => True

theorem holds_top (k : FrameKind) (ws : List Nat) : Frames.Holds k ws Top := by
  refine ⟨?_, ?_, ?_⟩ <;> cases k <;> simp

theorem Inside.reflTop {ws : List Nat} {R' : Acc} (h : Inside ws Top R') : Inside ws Top R'.enforceRefl :=
  h.refl (k := .S5) (by rfl) (holds_top _ _)

theorem Inside.transTop {ws : List Nat} {R' : Acc} (h : Inside ws Top R') :
    Inside ws Top (R'.addAll R'.transMissing) :=
  h.trans (k := .S5) (by rfl) (holds_top _ _)

theorem Inside.symmTop {ws : List Nat} {R' : Acc} (h : Inside ws Top R') :
    Inside ws Top (R'.addAll R'.symMissing) :=
  h.symm (k := .S5) (by rfl) (holds_top _ _)

theorem sub_enforceRefl {R : Acc} {p : Nat × Nat} (h : p ∈ R.pairs) : p ∈ R.enforceRefl.pairs := sub_addAll h

/-- `ReflexiveTransitiveAccesss.enforce`: with more fuel than pairs missing over the world list, the
    loop leaves through `break` -/
theorem rt_break {ws : List Nat} : ∀ (n : Nat) (R' : Acc), Inside ws Top R' → gap ws R'.pairs < n →
    (enforceRT n R').2 = true
  | 0, _, _, h => by omega
  | n + 1, R', hin, hgap => by
      simp only [enforceRT]
      split
      · rfl
      · next hne =>
        have hin1 := hin.reflTop
        -- a pair that is added is new and lies over `ws`
        cases hm : R'.enforceRefl.transMissing with
        | nil => simp [hm] at hne
        | cons q t =>
          have hq : q ∈ R'.enforceRefl.transMissing := by rw [hm]; exact List.mem_cons_self
          obtain ⟨_, hnew, b, hb1, hb2⟩ := mem_transMissing.1 hq
          have hlt : gap ws (R'.enforceRefl.addAll R'.enforceRefl.transMissing).pairs < gap ws R'.enforceRefl.pairs :=
            gap_lt (fun p hp => sub_addAll hp) (mem_pairs_addAll.2 (Or.inr hq)) hnew
              (hin1.wf _ hb1).1 (hin1.wf _ hb2).2
          have hle : gap ws R'.enforceRefl.pairs ≤ gap ws R'.pairs := gap_mono fun p hp => sub_enforceRefl hp
          rw [← hm]
          exact rt_break n _ hin1.transTop (by omega)

/-- the result of the loop has no more pairs missing than its input -/
theorem gap_enforceRT (ws : List Nat) (n : Nat) (R' : Acc) : gap ws (enforceRT n R').1.pairs ≤ gap ws R'.pairs :=
  gap_mono fun p hp => sub_enforceRT n R' p hp

/-- `GlobalAccess.enforce`: both loops leave through `break` -/
theorem global_break {ws : List Nat} (inner : Nat) (hinner : ws.length * ws.length < inner) :
    ∀ (n : Nat) (R' : Acc), Inside ws Top R' → gap ws R'.pairs < n → (enforceGlobal inner n R').2 = true
  | 0, _, _, h => by omega
  | n + 1, R', hin, hgap => by
      have hflag : (enforceRT inner R').2 = true :=
        rt_break inner R' hin (Nat.lt_of_le_of_lt (gap_le ws _) hinner)
      have hin1 : Inside ws Top (enforceRT inner R').1 := Inside.rt (k := .S5) (by rfl) (by rfl) (holds_top _ _) inner R' hin
      have hle := gap_enforceRT ws inner R'
      simp only [enforceGlobal]
      cases hrt : enforceRT inner R' with
      | mk R1 ok =>
        rw [hrt] at hflag hin1 hle
        simp only at hflag hin1 hle ⊢
        subst hflag
        simp only [Bool.not_true, Bool.false_eq_true, ↓reduceIte]
        split
        · rfl
        · next hne =>
          cases hm : R1.symMissing with
          | nil => simp [hm] at hne
          | cons q t =>
            have hq : q ∈ R1.symMissing := by rw [hm]; exact List.mem_cons_self
            obtain ⟨_, hnew, hb⟩ := mem_symMissing.1 hq
            have hlt : gap ws (R1.addAll R1.symMissing).pairs < gap ws R1.pairs :=
              gap_lt (fun p hp => sub_addAll hp) (mem_pairs_addAll.2 (Or.inr hq)) hnew
                (hin1.wf _ hb).2 (hin1.wf _ hb).1
            rw [← hm]
            exact global_break inner hinner n _ hin1.symmTop (by omega)

/-- the fuel `|W|² + 2` of the mirror always suffices: for every Access class the `enforce()` loop
    leaves through `break` -/
theorem enforce_flag (k : FrameKind) {R : Acc} (hwf : R.WF) : (enforce k R).2 = true := by
  have h0 : Inside R.keys Top R := inside_self hwf fun _ _ => trivial
  have hg : gap R.keys R.pairs < R.fuelOf := by
    have := gap_le R.keys R.pairs
    unfold fuelOf; omega
  cases k <;> simp only [enforce]
  · exact rt_break _ R h0 hg
  · exact global_break _ (by unfold fuelOf; omega) _ R h0 hg

end Acc

/-! ### the specification program reaches its fixed point -/

end Ptx.LibModel
namespace Ptx.Frames
open Ptx.LibModel (gap gap_lt gap_le)

/-- `addNew` with nothing new is the identity on the list -/
theorem addNew_eq_self : ∀ (xs R : Rel), (∀ p ∈ xs, p ∈ R) → Frames.addNew R xs = R
  | [], _, _ => rfl
  | x :: xs, R, h => by
      have hx : R.contains x = true := by simpa using h x List.mem_cons_self
      have ih := addNew_eq_self xs R fun p hp => h p (List.mem_cons_of_mem _ hp)
      unfold Frames.addNew at ih ⊢
      simp only [List.foldl_cons, hx, ↓reduceIte]
      exact ih

/-- everything a round adds beyond `R` comes from the list of demanded pairs -/
theorem step_eq_self_of_sub (k : FrameKind) (ws : List Nat) (R : Rel) (h : ∀ p ∈ step k ws R, p ∈ R) :
    step k ws R = R := by
  unfold step at h ⊢
  apply addNew_eq_self
  intro p hp
  exact h p (mem_addNew.2 (Or.inr hp))

def Over (ws : List Nat) (R : Rel) : Prop := ∀ p ∈ R, p.1 ∈ ws ∧ p.2 ∈ ws

theorem over_step (k : FrameKind) {ws : List Nat} {R : Rel} (h : Over ws R) : Over ws (step k ws R) := by
  apply step_least k ws R (fun p => p.1 ∈ ws ∧ p.2 ∈ ws) _ h
  refine ⟨?_, ?_, ?_⟩
  · cases k <;> simp
  · cases k <;> simp only <;> (intro a b c h1 h2; exact ⟨h1.1, h2.2⟩)
  · cases k <;> simp only
    intro a b h1; exact ⟨h1.2, h1.1⟩

theorem iter_of_fixed (k : FrameKind) (ws : List Nat) {R : Rel} (h : step k ws R = R) : ∀ n, iter k ws n R = R
  | 0 => rfl
  | n + 1 => by simp only [iter, h]; exact iter_of_fixed k ws h n

/-- with more rounds than pairs missing over `ws`, the iteration ends in a fixed point -/
theorem iter_fixed (k : FrameKind) (ws : List Nat) : ∀ (n : Nat) (R : Rel), Over ws R → gap ws R < n →
    step k ws (iter k ws n R) = iter k ws n R
  | 0, _, _, h => by omega
  | n + 1, R, hov, hgap => by
      by_cases hfix : step k ws R = R
      · rw [iter_of_fixed k ws hfix]; exact hfix
      · simp only [iter]
        apply iter_fixed k ws n _ (over_step k hov)
        have hex : ∃ p, p ∈ step k ws R ∧ p ∉ R := by
          apply Classical.byContradiction
          intro hn
          apply hfix
          apply step_eq_self_of_sub
          intro p hp
          apply Classical.byContradiction
          intro hnp
          exact hn ⟨p, hp, hnp⟩
        obtain ⟨q, hq, hnq⟩ := hex
        have := gap_lt (ws := ws) (subset_step k ws R) hq hnq (over_step k hov q hq).1 (over_step k hov q hq).2
        omega

/-- `Frames.closure` always reaches a fixed point (`Frames.stable` is `true`) on a relation over `ws` -/
theorem stable_of_over (k : FrameKind) (ws : List Nat) (R : Rel) (hov : Over ws R) : stable k ws R = true := by
  unfold stable closure
  simp only [beq_iff_eq]
  apply iter_fixed k ws _ R hov
  have := gap_le ws R
  omega

end Ptx.Frames
namespace Ptx.LibModel
open Ptx
namespace Acc

/-- the finished relation of the reflexive / reflexive-transitive / equivalence Access classes IS the
    closure computed by the specification program — no computed flag -/
theorem enforce_closure {k : FrameKind} (hk : Frames.isRefl k = true) {R : Acc} (hwf : R.WF) (p : Nat × Nat) :
    p ∈ (enforce k R).1.pairs ↔ p ∈ Frames.closure k R.keys R.pairs :=
  enforce_eq_closure hk hwf (enforce_flag k hwf) (Frames.stable_of_over k R.keys R.pairs hwf) p

/-- the Access classes without a frame condition (`.none`, `.K`) leave the relation alone, and so does
    the specification program -/
theorem closure_plain {k : FrameKind} (hk : k = .none ∨ k = .K) (ws : List Nat) (R : Frames.Rel) :
    Frames.closure k ws R = R := by
  have hstep : Frames.step k ws R = R := by
    rcases hk with rfl | rfl <;> rfl
  exact Frames.iter_of_fixed k ws hstep _


/-- every Access class but the serial one: the finished relation is the closure, has the frame
    property, contains R, is the least such relation, and has the worlds of R -/
theorem enforce_spec {k : FrameKind} (hk : k ≠ .D) {R : Acc} (hwf : R.WF) :
    (∀ p, p ∈ (enforce k R).1.pairs ↔ p ∈ Frames.closure k R.keys R.pairs) ∧
    Frames.Holds k R.keys (· ∈ (enforce k R).1.pairs) ∧
    (∀ p ∈ R.pairs, p ∈ (enforce k R).1.pairs) ∧
    (∀ (Q : Nat × Nat → Prop), Frames.Holds k R.keys Q → (∀ p ∈ R.pairs, Q p) → ∀ p ∈ (enforce k R).1.pairs, Q p) ∧
    (∀ w, w ∈ (enforce k R).1.keys ↔ w ∈ R.keys) := by
  by_cases hr : Frames.isRefl k = true
  · exact ⟨enforce_closure hr hwf, enforce_holds hr hwf (enforce_flag k hwf), enforce_sub k R,
      fun Q hQ hR => enforce_least hr hwf hQ hR, enforce_keys hk hwf⟩
  · have hk' : k = .none ∨ k = .K := by
      cases k <;> simp [Frames.isRefl] at hr hk ⊢
    refine ⟨?_, ?_, enforce_sub k R, ?_, enforce_keys hk hwf⟩
    · intro p; rw [closure_plain hk']
      rcases hk' with rfl | rfl <;> exact Iff.rfl
    · rcases hk' with rfl | rfl <;> exact ⟨trivial, trivial, trivial⟩
    · intro Q _ hR
      rcases hk' with rfl | rfl <;> exact hR

end Acc

/-- what a successful first `finish` does to the access relation: `_complete_frames` gives every world
    that has a frame a key (pairs untouched), then the Access class's `enforce()` runs on that -/
theorem finish_R {L : LogicData} {hints : Hints} {m m' : Model} (hfin : finish L hints m = (m', none))
    (hnf : m.finished = false) (hwf : m.R.WF) :
    ∃ R1 : Acc, R1.WF ∧ R1.pairs = m.R.pairs ∧
      (∀ w, w ∈ R1.keys ↔ w ∈ m.R.keys ∨ (m.frameComplete = false ∧ w ∈ akeys m.frames)) ∧
      m'.R = (Acc.enforce L.frame R1).1 ∧ m'.finished = true := by
  have hX : finishX L hints m = ((m', none), (finishX L hints m).2) := by
    unfold finish at hfin
    rw [← hfin]
  obtain ⟨m2, ⟨m1, h1, h21⟩, hR, _, hf⟩ := finishX_R hints hX hnf
  refine ⟨m2.R, ?_, ?_, ?_, hR, hf⟩
  all_goals rw [h21]
  all_goals
    cases hfc : m.frameComplete with
    | true =>
      have : m1 = m := by
        unfold completeFrames at h1
        simp only [hfc, ↓reduceIte, Except.ok.injEq] at h1
        exact h1.symm
      subst this
      first | exact hwf | rfl | (intro w; simp)
    | false =>
      obtain ⟨k1, k2, k3⟩ := completeFrames_keys h1 hfc
      first
        | exact k3
        | (intro w; rw [k2, k1]; simp only [true_and]; exact Or.comm)
        | (intro p hp
           rw [k3] at hp
           have := hwf p hp
           rw [k2, k1, k2, k1]
           exact ⟨Or.inr this.1, Or.inr this.2⟩)

/-- a successful first `finish` always leaves the enforce loop through `break` -/
theorem finishX_flag {L : LogicData} {hints : Hints} {m m' : Model} (hfin : finish L hints m = (m', none))
    (hnf : m.finished = false) (hwf : m.R.WF) : finishX L hints m = ((m', none), true) := by
  have hX : finishX L hints m = ((m', none), (finishX L hints m).2) := by
    unfold finish at hfin
    rw [← hfin]
  obtain ⟨m2, ⟨m1, h1, h21⟩, _, hflag, _⟩ := finishX_R hints hX hnf
  have hwf2 : m2.R.WF := by
    rw [h21]
    cases hfc : m.frameComplete with
    | true =>
      have : m1 = m := by
        unfold completeFrames at h1
        simp only [hfc, ↓reduceIte, Except.ok.injEq] at h1
        exact h1.symm
      subst this; exact hwf
    | false =>
      obtain ⟨k1, k2, k3⟩ := completeFrames_keys h1 hfc
      intro p hp
      rw [k3] at hp
      have := hwf p hp
      rw [k2, k1, k2, k1]
      exact ⟨Or.inr this.1, Or.inr this.2⟩
  rw [hX, hflag, Acc.enforce_flag _ hwf2]

end Ptx.LibModel
