/-
  C12, standard notation: the rendering relation `Renders` ("`str` is a fully parenthesised infix
  rendering of `s` over the parse table, outer parentheses optional, arbitrary whitespace wherever
  the parser skips it") and the reading primitives of `ParseCtx` on such renderings.
  Core Lean only.

  Whitespace.  The parser skips whitespace after EVERY character it consumes (`advance()` =
  `pos += 1; chomp()`, also inside a digit run) and once at the start (`ParseContext.__enter__`).
  Accordingly every symbol of a rendering is followed by an arbitrary whitespace word; a few
  constructors carry a second, redundant, whitespace word in front of an infix symbol so that the
  writer's own output `lhs␣op␣rhs` is an instance without re-association.

  Subscripts.  Any digit word whose decimal value is the subscript (leading zeros included, the
  empty word for 0) of at most `limit` digits (`sys.get_int_max_str_digits()`, 0 = unlimited).
-/
import Ptx.Proofs.LangParseArg
namespace Ptx.Parse
open Ptx Ptx.Sym Ptx.Write

/-- a word of whitespace characters of the parse table -/
def Ws (t : ParseTable) (w : List Chr) : Prop := ∀ c ∈ w, t.lookup c = some .ws

theorem Ws.nil (t : ParseTable) : Ws t [] := by intro c h; cases h

theorem Ws.tail {t : ParseTable} {c : Chr} {w : List Chr} (h : Ws t (c :: w)) : Ws t w :=
  fun x hx => h x (by simp [hx])

theorem chomp_ws {t : ParseTable} {w : List Chr} (hw : Ws t w) (r : List Chr) :
    chomp t (w ++ r) = chomp t r := by
  induction w with
  | nil => rfl
  | cons c w ih =>
    have hc := hw c (by simp)
    simp [chomp, hc, ih hw.tail]

theorem stopsD_ws {t : ParseTable} {w r : List Chr} (hw : Ws t w) (h : StopsD t r) : StopsD t (w ++ r) := by
  unfold StopsD at h ⊢
  rw [chomp_ws hw]
  exact h

theorem stops_ws {t : ParseTable} {w r : List Chr} (hw : Ws t w) (h : Stops t r) : Stops t (w ++ r) := by
  unfold Stops at h ⊢
  rw [chomp_ws hw]
  exact h

/-- digit values `ds` spelled with digit characters, whitespace allowed after each digit -/
inductive DigitsR (t : ParseTable) : List Nat → List Chr → Prop
  | nil : DigitsR t [] []
  | cons {c : Chr} {d : Nat} {w : List Chr} {ds : List Nat} {r : List Chr} :
      t.lookup c = some (.digit d) → Ws t w → DigitsR t ds r → DigitsR t (d :: ds) (c :: (w ++ r))

/-- a subscript `n`: a digit word of value `n` (empty for 0; leading zeros allowed) of at most
    `limit` digits -/
inductive SubR (t : ParseTable) (limit : Nat) : Nat → List Chr → Prop
  | mk {ds : List Nat} {x : List Chr} :
      DigitsR t ds x → (limit = 0 ∨ ds.length ≤ limit) → SubR t limit (horner ds) x

inductive ParamR (t : ParseTable) (limit : Nat) : Param → List Chr → Prop
  | const {c : Chr} {i s : Nat} {w x : List Chr} :
      t.lookup c = some (.const i) → Ws t w → SubR t limit s x → ParamR t limit (.const i s) (c :: (w ++ x))
  | var {c : Chr} {i s : Nat} {w x : List Chr} :
      t.lookup c = some (.var i) → Ws t w → SubR t limit s x → ParamR t limit (.var i s) (c :: (w ++ x))

inductive ParamsR (t : ParseTable) (limit : Nat) : List Param → List Chr → Prop
  | nil : ParamsR t limit [] []
  | cons {p : Param} {ps : List Param} {x y : List Chr} :
      ParamR t limit p x → ParamsR t limit ps y → ParamsR t limit (p :: ps) (x ++ y)

/-- a predicate symbol: one of the two system predicate characters, or a user predicate character
    with its subscript -/
inductive PredSymR (t : ParseTable) (limit : Nat) : Pred → List Chr → Prop
  | sys {c : Chr} {sp : SysPred} {w : List Chr} :
      t.lookup c = some (.sysPred sp) → Ws t w → PredSymR t limit sp.toPred (c :: w)
  | user {c : Chr} {i u a : Nat} {w x : List Chr} :
      t.lookup c = some (.pred i) → Ws t w → SubR t limit u x → PredSymR t limit ⟨(i : Int), u, a⟩ (c :: (w ++ x))

/-- `RendersIn t limit s x`: `x` is an inner (fully parenthesised) standard-notation rendering of
    `s` over the parse table `t`.  Predications prefix (`Fab`, `=ab`, `!a`) or, with at least two
    parameters, infix (`a = b`, `aFb`, `aGbc`). -/
inductive RendersIn (t : ParseTable) (limit : Nat) : Sent → List Chr → Prop
  | atom {c : Chr} {i u : Nat} {w x : List Chr} :
      t.lookup c = some (.atom i) → Ws t w → SubR t limit u x → RendersIn t limit (.atom i u) (c :: (w ++ x))
  | predPrefix {p : Pred} {ps : List Param} {x y : List Chr} :
      PredSymR t limit p x → ParamsR t limit ps y → RendersIn t limit (.pred p ps) (x ++ y)
  | predInfix {p : Pred} {a : Param} {ps : List Param} {x w y z : List Chr} :
      ps ≠ [] → ParamR t limit a x → Ws t w → PredSymR t limit p y → ParamsR t limit ps z →
      RendersIn t limit (.pred p (a :: ps)) (x ++ (w ++ (y ++ z)))
  | quant {c cv : Chr} {q : Quant} {vi vs : Nat} {body : Sent} {w w' x y : List Chr} :
      t.lookup c = some (.quant q) → Ws t w → t.lookup cv = some (.var vi) → Ws t w' →
      SubR t limit vs x → RendersIn t limit body y →
      RendersIn t limit (.quant q vi vs body) (c :: (w ++ (cv :: (w' ++ (x ++ y)))))
  | op1 {c : Chr} {o : Op1} {a : Sent} {w x : List Chr} :
      t.lookup c = some (.op1 o) → Ws t w → RendersIn t limit a x → RendersIn t limit (.op1 o a) (c :: (w ++ x))
  | op2 {po co pc : Chr} {o : Op2} {a b : Sent} {w0 x w1 w2 y w3 w4 : List Chr} :
      t.lookup po = some .parenOpen → Ws t w0 → RendersIn t limit a x → Ws t w1 →
      t.lookup co = some (.op2 o) → Ws t w2 → RendersIn t limit b y → Ws t w3 →
      t.lookup pc = some .parenClose → Ws t w4 →
      RendersIn t limit (.op2 o a b)
        (po :: (w0 ++ (x ++ (w1 ++ (co :: (w2 ++ (y ++ (w3 ++ (pc :: w4)))))))))

/-- `Renders t limit s str`: `str` is a standard-notation rendering of `s`: leading whitespace,
    then an inner rendering, or — for a binary operation — one without the outer parentheses. -/
inductive Renders (t : ParseTable) (limit : Nat) : Sent → List Chr → Prop
  | inner {s : Sent} {w x : List Chr} : Ws t w → RendersIn t limit s x → Renders t limit s (w ++ x)
  | dropped {co : Chr} {o : Op2} {a b : Sent} {w x w1 w2 y : List Chr} :
      Ws t w → RendersIn t limit a x → Ws t w1 → t.lookup co = some (.op2 o) → Ws t w2 →
      RendersIn t limit b y →
      Renders t limit (.op2 o a b) (w ++ (x ++ (w1 ++ (co :: (w2 ++ y)))))

/-! ### the digit loop -/

theorem digitsLoop_ws {t : ParseTable} {w : List Chr} (hw : Ws t w) (r : List Chr) :
    digitsLoop t true (w ++ r) = digitsLoop t true r := by
  induction w with
  | nil => rfl
  | cons c w ih =>
    have hc := hw c (by simp)
    simp [digitsLoop, hc, ih hw.tail]

theorem digitsLoop_digitsR {t : ParseTable} {ds : List Nat} {x : List Chr} (h : DigitsR t ds x)
    (r : List Chr) (hr : StopsD t r) : digitsLoop t true (x ++ r) = (ds, chomp t r) := by
  induction h with
  | nil => simpa using digitsLoop_stop t r hr
  | cons hc hw _ ih =>
    simp [digitsLoop, hc, List.append_assoc, digitsLoop_ws hw, ih]

theorem chomp_digitsR {t : ParseTable} {ds : List Nat} {x : List Chr} (h : DigitsR t ds x)
    (hne : ds ≠ []) (r : List Chr) : chomp t (x ++ r) = x ++ r := by
  cases h with
  | nil => contradiction
  | cons hc hw _ =>
    simp only [List.cons_append]
    apply chomp_cons_of_ne
    rw [hc]; simp

theorem digitsLoop_digitsR_false {t : ParseTable} {ds : List Nat} {x : List Chr} (h : DigitsR t ds x)
    (hne : ds ≠ []) (r : List Chr) (hr : StopsD t r) : digitsLoop t false (x ++ r) = (ds, chomp t r) := by
  cases h with
  | nil => contradiction
  | cons hc hw h' =>
    have := digitsLoop_digitsR h' r hr
    simp [digitsLoop, hc, List.append_assoc, digitsLoop_ws hw, this]

theorem readSubscript_R {cfg : Cfg} {n : Nat} {x w : List Chr} (h : SubR cfg.table cfg.intMaxDigits n x)
    (hw : Ws cfg.table w) (r : List Chr) (b : List Var) (store : Store) (hr : StopsD cfg.table r) :
    readSubscript cfg ⟨chomp cfg.table (w ++ (x ++ r)), b, store⟩ = .ok n ⟨chomp cfg.table r, b, store⟩ := by
  cases h with
  | mk hd hl =>
    rename_i ds
    rw [chomp_ws hw]
    have hlim : ¬ (cfg.intMaxDigits ≠ 0 ∧ ds.length > cfg.intMaxDigits) := by omega
    by_cases hne : ds = []
    · subst hne
      cases hd
      simp [readSubscript, digitsLoop_stop_false cfg.table r hr, horner]
    · rw [chomp_digitsR hd hne]
      simp only [readSubscript, digitsLoop_digitsR_false hd hne r hr]
      simp [hlim]

theorem readCoords_R {cfg : Cfg} {c : Chr} {k : Tok} {i n : Nat} {w x : List Chr}
    (hk : cfg.table.lookup c = some k) (hi : k.index? = some i) (hw : Ws cfg.table w)
    (h : SubR cfg.table cfg.intMaxDigits n x) (r : List Chr) (b : List Var) (store : Store)
    (hr : StopsD cfg.table r) :
    readCoords cfg ⟨c :: (w ++ (x ++ r)), b, store⟩ = .ok (i, n) ⟨chomp cfg.table r, b, store⟩ := by
  simp only [readCoords, hk, hi, advance, List.tail_cons, readSubscript_R h hw r b store hr, Res.andThen_ok]

/-! ### parameters -/

theorem readParameter_R {cfg : Cfg} {p : Param} {x : List Chr} (h : ParamR cfg.table cfg.intMaxDigits p x)
    (r : List Chr) (b : List Var) (store : Store) (hp : paramOK cfg.maxi b p = true)
    (hr : StopsD cfg.table r) :
    readParameter cfg ⟨x ++ r, b, store⟩ = .ok p ⟨chomp cfg.table r, b, store⟩ := by
  cases h with
  | const hc hw hs =>
    simp only [paramOK, decide_eq_true_eq] at hp
    simp only [List.cons_append, List.append_assoc, readParameter, hc,
      readCoords_R hc rfl hw hs r b store hr, Res.andThen_ok]
    simp [Nat.not_lt.mpr hp]
  | var hc hw hs =>
    simp only [paramOK, Bool.and_eq_true, decide_eq_true_eq] at hp
    simp only [List.cons_append, List.append_assoc, readParameter, hc,
      readCoords_R hc rfl hw hs r b store hr, Res.andThen_ok]
    simp [Nat.not_lt.mpr hp.1, hp.2]

theorem paramR_head {t : ParseTable} {limit : Nat} {p : Param} {x : List Chr} (h : ParamR t limit p x) :
    ∃ c tl k, x = c :: tl ∧ t.lookup c = some k ∧ k.isParam = true := by
  cases h with
  | const hc _ _ => exact ⟨_, _, _, rfl, hc, rfl⟩
  | var hc _ _ => exact ⟨_, _, _, rfl, hc, rfl⟩

theorem paramsR_head {t : ParseTable} {limit : Nat} {ps : List Param} {x : List Chr}
    (h : ParamsR t limit ps x) (hne : ps ≠ []) :
    ∃ c tl k, x = c :: tl ∧ t.lookup c = some k ∧ k.isParam = true := by
  cases h with
  | nil => contradiction
  | cons hp _ =>
    obtain ⟨c, tl, k, h1, h2, h3⟩ := paramR_head hp
    exact ⟨c, _, k, by rw [h1]; rfl, h2, h3⟩

theorem stopsD_of_param {t : ParseTable} {c : Chr} {k : Tok} (r : List Chr) (hk : t.lookup c = some k)
    (hp : k.isParam = true) : StopsD t (c :: r) := by
  apply stopsD_cons _ hk
  · intro h; subst h; simp [Tok.isParam] at hp
  · cases k <;> simp_all [Tok.isParam, Tok.isDigit]

theorem chomp_of_param {t : ParseTable} {c : Chr} {k : Tok} (r : List Chr) (hk : t.lookup c = some k)
    (hp : k.isParam = true) : chomp t (c :: r) = c :: r := by
  apply chomp_cons_of_ne
  rw [hk]
  intro h
  cases h
  simp [Tok.isParam] at hp

theorem stopsD_paramsR {t : ParseTable} {limit : Nat} {ps : List Param} {x : List Chr}
    (h : ParamsR t limit ps x) (r : List Chr) (hr : StopsD t r) : StopsD t (x ++ r) := by
  by_cases hne : ps = []
  · subst hne; cases h; simpa using hr
  · obtain ⟨c, tl, k, h1, h2, h3⟩ := paramsR_head h hne
    rw [h1]
    exact stopsD_of_param _ h2 h3

theorem chomp_paramsR {t : ParseTable} {limit : Nat} {ps : List Param} {x : List Chr}
    (h : ParamsR t limit ps x) (hne : ps ≠ []) (r : List Chr) : chomp t (x ++ r) = x ++ r := by
  obtain ⟨c, tl, k, h1, h2, h3⟩ := paramsR_head h hne
  rw [h1]
  exact chomp_of_param _ h2 h3

theorem paramsR_length {t : ParseTable} {limit : Nat} {ps : List Param} {x : List Chr}
    (h : ParamsR t limit ps x) : ps.length ≤ x.length := by
  induction h with
  | nil => simp
  | cons hp _ ih =>
    obtain ⟨c, tl, k, h1, _, _⟩ := paramR_head hp
    rw [h1]
    simp only [List.length_cons, List.cons_append, List.length_append]
    omega

theorem readParams_R {cfg : Cfg} {ps : List Param} {x : List Chr}
    (h : ParamsR cfg.table cfg.intMaxDigits ps x) (r : List Chr) (b : List Var) (store : Store)
    (hr : StopsD cfg.table r) (hp : ps.all (paramOK cfg.maxi b) = true) :
    readParams cfg ps.length ⟨chomp cfg.table (x ++ r), b, store⟩ = .ok ps ⟨chomp cfg.table r, b, store⟩ := by
  induction h with
  | nil => simp [readParams]
  | cons hp1 hps ih =>
    rename_i p ps x y
    simp only [List.all_cons, Bool.and_eq_true] at hp
    rw [chomp_paramsR (ParamsR.cons hp1 hps) (by simp)]
    have hst := stopsD_paramsR hps r hr
    simp only [List.length_cons, readParams, List.append_assoc, readParameter_R hp1 _ b store hp.1 hst,
      Res.andThen_ok, ih hp.2]

theorem readParamsAuto_R {cfg : Cfg} {ps : List Param} {x : List Chr}
    (h : ParamsR cfg.table cfg.intMaxDigits ps x) (r : List Chr) (b : List Var) (store : Store)
    (hr : Stops cfg.table r) (hp : ps.all (paramOK cfg.maxi b) = true) :
    ∀ f, ps.length ≤ f →
    readParamsAuto cfg f ⟨chomp cfg.table (x ++ r), b, store⟩ = .ok ps ⟨chomp cfg.table r, b, store⟩ := by
  induction h with
  | nil =>
    intro f _
    have : isParamStart cfg ⟨chomp cfg.table r, b, store⟩ = false := by
      unfold Stops at hr
      unfold isParamStart
      cases hcr : chomp cfg.table r with
      | nil => rfl
      | cons c r' =>
        rw [hcr] at hr
        simp only
        cases hk : cfg.table.lookup c with
        | none => rfl
        | some k => exact (hr k hk).2
    unfold readParamsAuto
    simp [this]
  | cons hp1 hps ih =>
    rename_i p ps x y
    intro f hf
    simp only [List.all_cons, Bool.and_eq_true] at hp
    rw [chomp_paramsR (ParamsR.cons hp1 hps) (by simp)]
    obtain ⟨c, tl, k, h1, h2, h3⟩ := paramsR_head (ParamsR.cons hp1 hps) (by simp)
    have hstart : isParamStart cfg ⟨(x ++ y) ++ r, b, store⟩ = true := by
      simp [isParamStart, h1, h2, h3]
    cases f with
    | zero => simp at hf
    | succ f =>
      unfold readParamsAuto
      simp only [hstart, if_true]
      have hst := stopsD_paramsR hps r hr.stopsD
      simp only [List.append_assoc, readParameter_R hp1 _ b store hp.1 hst, Res.andThen_ok,
        ih hp.2 f (by simp at hf; omega)]

end Ptx.Parse
