/-
  Ptx.Proofs.LibModelOrderAny — finished models with the same content evaluate EVERY sentence alike
  (free variables, parameters that are not model constants, re-binding quantifiers included: no `okIn`
  restriction), provided the worlds visited have no dead ends.

  The folds consume generators and stop early, so a raising instance may or may not be reached depending on
  the order of the constants / successors.  What saves the statement is UNIFORMITY (`errPart_uniform`): whether
  an instance `c >> s` (or the sentence at a successor world) raises, and what, does not depend on the constant
  substituted (nor on the world) — errors come from parameters that are not model constants, and those are the
  same in every instance.  So a fold runs over a list that is all-values or all-the-same-error, and the result
  is a function of the set of values, or that error.  With dead ends (frames of K) the uniformity across worlds
  FAILS: `□…` is vacuously true at a dead end whatever its body would raise (witness in Props/C08.lean).
-/
import Ptx.Proofs.LibModelRun
namespace Ptx.LibModel
open Ptx

def errPart : Res V → Option Err
  | .ok _ => none
  | .error e => some e

def okv : Res V → V
  | .ok v => v
  | .error _ => .F

theorem errPart_map (f : V → V) (r : Res V) : errPart (r.map f) = errPart r := by cases r <;> rfl

theorem eq_ok_of_errPart {r : Res V} (h : errPart r = none) : r = .ok (okv r) := by
  cases r with
  | ok v => rfl
  | error e => cases h

theorem eq_error_of_errPart {r : Res V} {e : Err} (h : errPart r = some e) : r = .error e := by
  cases r with
  | ok v => cases h
  | error e' => cases h; rfl

/-! ### folds over uniform lists -/

theorem runProgR_head_err (T : Tables) (p : Prog) (up : Bool) (e : Err) (rs : List (Res V)) :
    runProgR T p up (.error e :: rs) = .error e := by
  cases p with
  | base => cases up <;> rfl
  | generalize => rfl
  | threeWay => rfl
  | crunch => cases up <;> rfl

theorem runProgR_uniform_err (T : Tables) (p : Prog) (up : Bool) {e : Err} {rs : List (Res V)} (hne : rs ≠ [])
    (h : ∀ r ∈ rs, errPart r = some e) : runProgR T p up rs = .error e := by
  cases rs with
  | nil => exact absurd rfl hne
  | cons r t =>
    rw [eq_error_of_errPart (h r List.mem_cons_self)]
    exact runProgR_head_err T p up e t

theorem uniform_ok {α} {xs : List α} {f : α → Res V} (h : ∀ x ∈ xs, errPart (f x) = none) :
    xs.map f = (xs.map fun x => okv (f x)).map .ok :=
  map_ok_congr fun x hx => eq_ok_of_errPart (h x hx)

theorem errPart_runProgR_uniform (T : Tables) (p : Prog) (up : Bool) {α} {xs : List α} {f : α → Res V} {e : Option Err}
    (hne : xs ≠ []) (h : ∀ x ∈ xs, errPart (f x) = e) : errPart (runProgR T p up (xs.map f)) = e := by
  cases e with
  | none =>
    rw [uniform_ok h, runProgR_ok]; rfl
  | some err =>
    rw [runProgR_uniform_err T p up (by simpa using hne) (by
      intro r hr
      obtain ⟨x, hx, rfl⟩ := List.mem_map.1 hr
      exact h x hx)]
    rfl

/-! ### sentences that differ in model constants only -/

inductive Forall2 {α : Type} (R : α → α → Prop) : List α → List α → Prop
  | nil : Forall2 R [] []
  | cons {a b : α} {l l' : List α} : R a b → Forall2 R l l' → Forall2 R (a :: l) (b :: l')

def PSim (cs : List (Nat × Nat)) (x y : Param) : Prop := x = y ∨ (paramIn cs x = true ∧ paramIn cs y = true)

inductive Sim (cs : List (Nat × Nat)) : Sent → Sent → Prop
  | atom (i j : Nat) : Sim cs (.atom i j) (.atom i j)
  | pred (p : Pred) (ps ps' : Tup) : Forall2 (PSim cs) ps ps' → Sim cs (.pred p ps) (.pred p ps')
  | quant (q : Quant) (vi vs : Nat) (b b' : Sent) : Sim cs b b' → Sim cs (.quant q vi vs b) (.quant q vi vs b')
  | op1 (o : Op1) (a a' : Sent) : Sim cs a a' → Sim cs (.op1 o a) (.op1 o a')
  | op2 (o : Op2) (a a' b b' : Sent) : Sim cs a a' → Sim cs b b' → Sim cs (.op2 o a b) (.op2 o a' b')

theorem forall₂_refl {α} {R : α → α → Prop} (h : ∀ x, R x x) : ∀ l : List α, Forall2 R l l
  | [] => .nil
  | x :: t => .cons (h x) (forall₂_refl h t)

theorem Sim.refl (cs : List (Nat × Nat)) : ∀ s : Sent, Sim cs s s
  | .atom i j => .atom i j
  | .pred p ps => .pred p ps ps (forall₂_refl (R := PSim cs) (fun _ => Or.inl rfl) ps)
  | .quant q vi vs b => .quant q vi vs b b (Sim.refl cs b)
  | .op1 o a => .op1 o a a (Sim.refl cs a)
  | .op2 o a b => .op2 o a a b b (Sim.refl cs a) (Sim.refl cs b)

theorem PSim.psubst {cs : List (Nat × Nat)} {x y n n' : Param} (o : Param) (h : PSim cs x y)
    (hn : paramIn cs n = true) (hn' : paramIn cs n' = true) : PSim cs (Param.psubst n o x) (Param.psubst n' o y) := by
  unfold Param.psubst
  rcases h with rfl | ⟨hx, hy⟩
  · split
    · exact Or.inr ⟨hn, hn'⟩
    · exact Or.inl rfl
  · split <;> split
    · exact Or.inr ⟨hn, hn'⟩
    · exact Or.inr ⟨hn, hy⟩
    · exact Or.inr ⟨hx, hn'⟩
    · exact Or.inr ⟨hx, hy⟩

theorem forall₂_map {α β} {R : α → α → Prop} {Q : β → β → Prop} {f g : α → β} (h : ∀ x y, R x y → Q (f x) (g y)) :
    ∀ {l l' : List α}, Forall2 R l l' → Forall2 Q (l.map f) (l'.map g)
  | _, _, .nil => .nil
  | _, _, .cons hxy ht => .cons (h _ _ hxy) (forall₂_map h ht)

theorem Sim.psubst {cs : List (Nat × Nat)} {n n' : Param} (o : Param) (hn : paramIn cs n = true)
    (hn' : paramIn cs n' = true) : ∀ {s s' : Sent}, Sim cs s s' → Sim cs (s.psubst n o) (s'.psubst n' o)
  | _, _, .atom i j => .atom i j
  | _, _, .pred p ps ps' h => .pred p _ _ (forall₂_map (fun _ _ hxy => hxy.psubst o hn hn') h)
  | _, _, .quant q vi vs b b' h => .quant q vi vs _ _ (Sim.psubst o hn hn' h)
  | _, _, .op1 op a a' h => .op1 op _ _ (Sim.psubst o hn hn' h)
  | _, _, .op2 op a a' b b' h1 h2 => .op2 op _ _ _ _ (Sim.psubst o hn hn' h1) (Sim.psubst o hn hn' h2)

theorem Sim.isOpaque {cs : List (Nat × Nat)} (L : LogicData) {s s' : Sent} (h : Sim cs s s') :
    isOpaque L s' = isOpaque L s := by
  cases h <;> rfl

theorem tupIn_eq_all (cs : List (Nat × Nat)) (ps : Tup) : tupIn cs ps = ps.all (paramIn cs) := by
  unfold tupIn
  congr 1

theorem tupIn_sim {cs : List (Nat × Nat)} : ∀ {ps ps' : Tup}, Forall2 (PSim cs) ps ps' → tupIn cs ps' = tupIn cs ps
  | _, _, .nil => rfl
  | _, _, .cons (a := x) (b := y) hxy ht => by
      have ih := tupIn_sim ht
      rw [tupIn_eq_all] at ih ⊢
      rw [tupIn_eq_all]
      rw [tupIn_eq_all] at ih
      simp only [List.all_cons, ih]
      congr 1
      rcases hxy with rfl | ⟨hx, hy⟩
      · rfl
      · rw [hx, hy]

theorem paramIn_const {cs : List (Nat × Nat)} {c : Nat × Nat} (h : c ∈ cs) : paramIn cs (.const c.1 c.2) = true := by
  simpa [paramIn] using h

/-! ### uniformity of raising -/

/-- worlds at which `value_of` may be asked about ANY sentence: each has a frame (or the logic is modal), they
    are closed under access, and in a modal logic none of them is a dead end -/
structure WorldsAny (L : LogicData) (m : Model) (S : Nat → Prop) : Prop where
  frame : ∀ w, S w → L.modal = true ∨ (m.frames.lookup w).isSome = true
  succ : ∀ w, S w → ∀ w' ∈ m.R.succ w, S w'
  noDeadEnd : L.modal = true → ∀ w, S w → m.R.succ w ≠ []

/-- UNIFORMITY: whether `value_of` raises on a sentence, and what, depends neither on which model constants
    stand at its parameter places nor on the world -/
theorem errPart_uniform (L : LogicData) (m : Model) (S : Nat → Prop) (hS : WorldsAny L m S) :
    ∀ (fuel : Nat) (s s' : Sent) (w w' : Nat), Sim m.consts s s' → S w → S w' →
      errPart (valueOfF L m fuel s' w') = errPart (valueOfF L m fuel s w) := by
  intro fuel
  induction fuel with
  | zero => intro s s' w w' _ _ _; rfl
  | succ fuel ih =>
    intro s s' w w' hsim hw hw'
    unfold valueOfF
    by_cases hfin : m.finished = true
    case neg => simp [hfin]
    simp only [hfin, Bool.not_true, Bool.false_eq_true, ↓reduceIte, hsim.isOpaque L]
    have hfr := frameOf_ok (hS.frame w hw)
    have hfr' := frameOf_ok (hS.frame w' hw')
    by_cases hop : isOpaque L s = true
    · simp only [hop, ↓reduceIte, hfr, hfr', Except.map]; rfl
    simp only [hop, Bool.false_eq_true, ↓reduceIte]
    cases hsim with
    | atom i j => simp only [hfr, hfr', Except.map]; rfl
    | pred p ps ps' hps =>
      have : tupInConsts m ps' = tupInConsts m ps := tupIn_sim hps
      simp only [this]
      by_cases ht : tupInConsts m ps = true
      · simp only [ht, Bool.not_true, Bool.false_eq_true, ↓reduceIte, hfr, hfr', Except.map]; rfl
      · simp only [ht, Bool.not_false, ↓reduceIte]
    | quant q vi vs b b' hb =>
      dsimp only
      unfold foldQR
      cases hcs : m.consts with
      | nil => rfl
      | cons c0 t =>
        have hc0 : c0 ∈ m.consts := by rw [hcs]; exact List.mem_cons_self
        have hne : c0 :: t ≠ [] := by simp
        have h1 : ∀ c ∈ c0 :: t, errPart (valueOfF L m fuel (b.psubst (.const c.1 c.2) (.var vi vs)) w) =
            errPart (valueOfF L m fuel (b.psubst (.const c0.1 c0.2) (.var vi vs)) w) := by
          intro c hc
          have hc' : c ∈ m.consts := by rw [hcs]; exact hc
          exact ih _ _ w w (Sim.psubst _ (paramIn_const hc0) (paramIn_const hc') (Sim.refl _ b)) hw hw
        have h2 : ∀ c ∈ c0 :: t, errPart (valueOfF L m fuel (b'.psubst (.const c.1 c.2) (.var vi vs)) w') =
            errPart (valueOfF L m fuel (b.psubst (.const c0.1 c0.2) (.var vi vs)) w) := by
          intro c hc
          have hc' : c ∈ m.consts := by rw [hcs]; exact hc
          exact ih _ _ w w' (Sim.psubst _ (paramIn_const hc0) (paramIn_const hc') hb) hw hw'
        rw [errPart_runProgR_uniform _ _ _ hne h1, errPart_runProgR_uniform _ _ _ hne h2]
    | op1 o a a' ha =>
      by_cases hmod : o.isModal = true
      · have hm : L.modal = true := by
          simp only [isOpaque, hmod, Bool.true_and, Bool.not_eq_true', Bool.not_eq_false] at hop
          simpa using hop
        simp only [hmod, ↓reduceIte]
        unfold foldMR
        have hne := hS.noDeadEnd hm w hw
        have hne' := hS.noDeadEnd hm w' hw'
        cases hsw : m.R.succ w with
        | nil => exact absurd hsw hne
        | cons u0 t =>
          have hu0 : u0 ∈ m.R.succ w := by rw [hsw]; exact List.mem_cons_self
          have h1 : ∀ u ∈ u0 :: t, errPart (valueOfF L m fuel a u) = errPart (valueOfF L m fuel a u0) := by
            intro u hu
            exact ih a a u0 u (Sim.refl _ a) (hS.succ w hw u0 hu0) (hS.succ w hw u (by rw [hsw]; exact hu))
          have h2 : ∀ u ∈ m.R.succ w', errPart (valueOfF L m fuel a' u) = errPart (valueOfF L m fuel a u0) := by
            intro u hu
            exact ih a a' u0 u ha (hS.succ w hw u0 hu0) (hS.succ w' hw' u hu)
          rw [errPart_runProgR_uniform _ _ _ (by simp) h1, errPart_runProgR_uniform _ _ _ hne' h2]
      · have hmod' : o.isModal = false := by simpa using hmod
        simp only [hmod', Bool.false_eq_true, ↓reduceIte, errPart_map]
        exact ih a a' w w' ha hw hw'
    | op2 o a a' b b' ha hb =>
      dsimp only
      have e1 := ih a a' w w' ha hw hw'
      have e2 := ih b b' w w' hb hw hw'
      cases h1 : valueOfF L m fuel a w with
      | error e =>
        rw [h1] at e1
        rw [eq_error_of_errPart e1]
      | ok x =>
        rw [h1] at e1
        rw [eq_ok_of_errPart e1]
        simp only [errPart_map, e2]

/-! ### finished models with the same content evaluate every sentence alike -/

theorem foldQV_mem_vals {L : LogicData} (hOK : foldProgramsOKB L = true) (hT : L.tablesTotalB = true)
    (hq : L.quantified = true) (q : Quant) {xs : List V} (hx : ∀ x ∈ xs, x ∈ L.T.vals) (hne : xs ≠ []) :
    runProgV L.T ((progsOf L).q q) (quantUp q) xs ∈ L.T.vals := by
  have hc := L.tables.closed_of_totalB _ _ _ hT
  have hfold := foldQV_eq_qfold L hOK hq q _ hx hne
  unfold foldQV at hfold
  rw [hfold]
  unfold Tables.qfold
  exact hc.qf hq q _ (L.T.canon_mem_profiles _) (canon_ne_nil L.T hx hne)

theorem foldMV_mem_vals {L : LogicData} (hOK : foldProgramsOKB L = true) (hT : L.tablesTotalB = true)
    (hm : L.modal = true) (o : Op1) (ho : o = .poss ∨ o = .nec) {xs : List V} (hx : ∀ x ∈ xs, x ∈ L.T.vals)
    (hne : xs ≠ []) : runProgV L.T ((progsOf L).m o) (modalUp o) xs ∈ L.T.vals := by
  have hc := L.tables.closed_of_totalB _ _ _ hT
  have hfold := foldMV_eq_mfold L hOK hm o ho _ hx (Or.inl hne)
  unfold foldMV at hfold
  rw [hfold]
  unfold Tables.mfold
  exact hc.mf hm o ho _ (L.T.canon_mem_profiles _) (Or.inl (canon_ne_nil L.T hx hne))

theorem valueOfF_congr_any (L : LogicData) (hOK : foldProgramsOKB L = true) (hT : L.tablesTotalB = true)
    (m₁ m₂ : Model) (heq : m₁.Eqv m₂) (hfin : m₁.finished = true) (hvals : m₁.ValsOK L) (c0 : Dom m₁)
    (S : Nat → Prop) (hS : WorldsAny L m₁ S) :
    ∀ (fuel : Nat) (s : Sent) (w : Nat), S w →
      valueOfF L m₂ fuel s w = valueOfF L m₁ fuel s w ∧ ∀ v, valueOfF L m₁ fuel s w = .ok v → v ∈ L.T.vals := by
  have hfin₂ : m₂.finished = true := heq.finished ▸ hfin
  have hc := L.tables.closed_of_totalB _ _ _ hT
  have huni := errPart_uniform L m₁ S hS
  have hconst : ∀ c, c ∈ m₂.consts ↔ c ∈ m₁.consts := fun c => (heq.has (.const c)).symm
  intro fuel
  induction fuel with
  | zero => intro s w _; exact ⟨rfl, fun v h => by simp [valueOfF] at h⟩
  | succ fuel ih =>
    intro s w hw
    have hfr₁ := frameOf_ok (hS.frame w hw)
    have hfr₂ : frameOf L m₂ w = .ok (frameD m₂ w) := by
      apply frameOf_ok
      rcases hS.frame w hw with h | h
      · exact Or.inl h
      · right
        obtain ⟨f, hf⟩ := Option.isSome_iff_exists.1 h
        have : w ∈ akeys m₂.frames := (heq.has (.frame w)).1 (mem_akeys_of_lookup hf)
        obtain ⟨g, hg⟩ := mem_akeys_iff_lookup.1 this
        rw [hg]; rfl
    have hfv := frameD_vals hvals w
    unfold valueOfF
    simp only [hfin, hfin₂, Bool.not_true, Bool.false_eq_true, ↓reduceIte]
    by_cases hop : isOpaque L s = true
    · have e : (frameD m₂ w).opaques.lookup s = (frameD m₁ w).opaques.lookup s :=
        opt_ext fun v => (heq.has (.at w (.opq s v))).symm
      simp only [hop, ↓reduceIte, hfr₁, hfr₂, Except.map, e, true_and]
      intro v hv
      cases hv
      exact getD_lookup_vals hc.una hfv.2.1 _
    simp only [hop, Bool.false_eq_true, ↓reduceIte]
    cases s with
    | atom i j =>
      have e : (frameD m₂ w).atomics.lookup (i, j) = (frameD m₁ w).atomics.lookup (i, j) :=
        opt_ext fun v => (heq.has (.at w (.atom (i, j) v))).symm
      simp only [hfr₁, hfr₂, Except.map, e, true_and]
      intro v hv
      cases hv
      exact getD_lookup_vals hc.una hfv.1 _
    | pred p ps =>
      have htc : tupInConsts m₂ ps = tupInConsts m₁ ps := tupIn_congr hconst ps
      have e : ((frameD m₂ w).interp p).lookup ps = ((frameD m₁ w).interp p).lookup ps :=
        opt_ext fun v => (heq.has (.at w (.pred p ps v))).symm
      simp only [htc]
      by_cases ht : tupInConsts m₁ ps = true
      · simp only [ht, Bool.not_true, Bool.false_eq_true, ↓reduceIte, hfr₁, hfr₂, Except.map, e, true_and]
        intro v hv
        cases hv
        exact getD_lookup_vals hc.una (interp_vals hfv.2.2 p) _
      · simp only [ht, Bool.not_false, ↓reduceIte, true_and]
        intro v hv; cases hv
    | quant q vi vs b =>
      have hq : L.quantified = true := by simpa [isOpaque] using hop
      dsimp only
      let r : Nat × Nat → Res V := fun c => valueOfF L m₁ fuel (b.psubst (.const c.1 c.2) (.var vi vs)) w
      have hl₂ : (m₂.consts.map fun c => valueOfF L m₂ fuel (b.psubst (.const c.1 c.2) (.var vi vs)) w) = m₂.consts.map r :=
        List.map_congr_left fun c _ => (ih _ w hw).1
      rw [hl₂]
      have hu : ∀ c ∈ m₁.consts, errPart (r c) = errPart (r c0.1) := by
        intro c hcm
        exact huni fuel _ _ w w (Sim.psubst _ (paramIn_const c0.2) (paramIn_const hcm) (Sim.refl _ b)) hw hw
      have hne₁ : m₁.consts ≠ [] := List.ne_nil_of_mem c0.2
      have hne₂ : m₂.consts ≠ [] := List.ne_nil_of_mem ((hconst _).2 c0.2)
      unfold foldQR
      cases he : errPart (r c0.1) with
      | some err =>
        rw [runProgR_uniform_err _ _ _ (by simpa using hne₂) (by
              intro x hx; obtain ⟨c, hcm, rfl⟩ := List.mem_map.1 hx; rw [hu c ((hconst c).1 hcm), he]),
            runProgR_uniform_err _ _ _ (by simpa using hne₁) (by
              intro x hx; obtain ⟨c, hcm, rfl⟩ := List.mem_map.1 hx; rw [hu c hcm, he])]
        exact ⟨rfl, fun v hv => by cases hv⟩
      | none =>
        have hok₁ : ∀ c ∈ m₁.consts, errPart (r c) = none := fun c hcm => by rw [hu c hcm, he]
        have hok₂ : ∀ c ∈ m₂.consts, errPart (r c) = none := fun c hcm => hok₁ c ((hconst c).1 hcm)
        have hval : ∀ c ∈ m₁.consts, okv (r c) ∈ L.T.vals := fun c hcm =>
          (ih _ w hw).2 _ (eq_ok_of_errPart (hok₁ c hcm))
        have hx₁ : ∀ x ∈ m₁.consts.map (fun c => okv (r c)), x ∈ L.T.vals := by
          intro x hx; obtain ⟨c, hcm, rfl⟩ := List.mem_map.1 hx; exact hval c hcm
        have hx₂ : ∀ x ∈ m₂.consts.map (fun c => okv (r c)), x ∈ L.T.vals := by
          intro x hx; obtain ⟨c, hcm, rfl⟩ := List.mem_map.1 hx; exact hval c ((hconst c).1 hcm)
        rw [uniform_ok hok₁, uniform_ok hok₂, runProgR_ok, runProgR_ok]
        refine ⟨?_, ?_⟩
        · congr 1
          apply runProgV_setLike L.T _ _ (progSide_q hOK hq q) _ _ hx₂ hx₁
          intro v
          simp only [List.mem_map]
          constructor
          · rintro ⟨c, hcm, rfl⟩; exact ⟨c, (hconst c).1 hcm, rfl⟩
          · rintro ⟨c, hcm, rfl⟩; exact ⟨c, (hconst c).2 hcm, rfl⟩
        · intro v hv
          cases hv
          exact foldQV_mem_vals hOK hT hq q hx₁ (by simpa using hne₁)
    | op1 o a =>
      by_cases hmod : o.isModal = true
      · have hm : L.modal = true := by
          simp only [isOpaque, hmod, Bool.true_and, Bool.not_eq_true', Bool.not_eq_false] at hop
          simpa using hop
        simp only [hmod, ↓reduceIte]
        let r : Nat → Res V := fun u => valueOfF L m₁ fuel a u
        have hsucc : ∀ u, u ∈ m₂.R.succ w ↔ u ∈ m₁.R.succ w := by
          intro u; rw [Acc.mem_succ, Acc.mem_succ]; exact (heq.has (.pair (w, u))).symm
        have hl₂ : ((m₂.R.succ w).map fun u => valueOfF L m₂ fuel a u) = (m₂.R.succ w).map r :=
          List.map_congr_left fun u hu => (ih a u (hS.succ w hw u ((hsucc u).1 hu))).1
        rw [hl₂]
        have hne₁ := hS.noDeadEnd hm w hw
        have hne₂ : m₂.R.succ w ≠ [] := by
          cases hs : m₁.R.succ w with
          | nil => exact absurd hs hne₁
          | cons u t => exact List.ne_nil_of_mem ((hsucc u).2 (by rw [hs]; exact List.mem_cons_self))
        obtain ⟨u0, hu0⟩ : ∃ u0, u0 ∈ m₁.R.succ w := by
          cases hs : m₁.R.succ w with
          | nil => exact absurd hs hne₁
          | cons u t => exact ⟨u, List.mem_cons_self⟩
        have hu : ∀ u ∈ m₁.R.succ w, errPart (r u) = errPart (r u0) := fun u hum =>
          huni fuel a a u0 u (Sim.refl _ a) (hS.succ w hw u0 hu0) (hS.succ w hw u hum)
        unfold foldMR
        cases he : errPart (r u0) with
        | some err =>
          rw [runProgR_uniform_err _ _ _ (by simpa using hne₂) (by
                intro x hx; obtain ⟨u, hum, rfl⟩ := List.mem_map.1 hx; rw [hu u ((hsucc u).1 hum), he]),
              runProgR_uniform_err _ _ _ (by simpa using hne₁) (by
                intro x hx; obtain ⟨u, hum, rfl⟩ := List.mem_map.1 hx; rw [hu u hum, he])]
          exact ⟨rfl, fun v hv => by cases hv⟩
        | none =>
          have hok₁ : ∀ u ∈ m₁.R.succ w, errPart (r u) = none := fun u hum => by rw [hu u hum, he]
          have hok₂ : ∀ u ∈ m₂.R.succ w, errPart (r u) = none := fun u hum => hok₁ u ((hsucc u).1 hum)
          have hval : ∀ u ∈ m₁.R.succ w, okv (r u) ∈ L.T.vals := fun u hum =>
            (ih a u (hS.succ w hw u hum)).2 _ (eq_ok_of_errPart (hok₁ u hum))
          have hx₁ : ∀ x ∈ (m₁.R.succ w).map (fun u => okv (r u)), x ∈ L.T.vals := by
            intro x hx; obtain ⟨u, hum, rfl⟩ := List.mem_map.1 hx; exact hval u hum
          have hx₂ : ∀ x ∈ (m₂.R.succ w).map (fun u => okv (r u)), x ∈ L.T.vals := by
            intro x hx; obtain ⟨u, hum, rfl⟩ := List.mem_map.1 hx; exact hval u ((hsucc u).1 hum)
          rw [uniform_ok hok₁, uniform_ok hok₂, runProgR_ok, runProgR_ok]
          refine ⟨?_, ?_⟩
          · congr 1
            apply runProgV_setLike L.T _ _ (progSide_m hOK hm o (Op1.modal_cases hmod)) _ _ hx₂ hx₁
            intro v
            simp only [List.mem_map]
            constructor
            · rintro ⟨u, hum, rfl⟩; exact ⟨u, (hsucc u).1 hum, rfl⟩
            · rintro ⟨u, hum, rfl⟩; exact ⟨u, (hsucc u).2 hum, rfl⟩
          · intro v hv
            cases hv
            exact foldMV_mem_vals hOK hT hm o (Op1.modal_cases hmod) hx₁ (by simpa using hne₁)
      · have hmod' : o.isModal = false := by simpa using hmod
        obtain ⟨i1, i2⟩ := ih a w hw
        simp only [hmod', Bool.false_eq_true, ↓reduceIte, i1, true_and]
        intro v hv
        cases hr : valueOfF L m₁ fuel a w with
        | error e => rw [hr] at hv; cases hv
        | ok x =>
          rw [hr] at hv
          cases hv
          exact hc.f1 o (Op1.nonmodal_cases hmod') _ (i2 x hr)
    | op2 o a b =>
      obtain ⟨i1, i2⟩ := ih a w hw
      obtain ⟨j1, j2⟩ := ih b w hw
      simp only [i1, j1, true_and]
      intro v hv
      cases hr : valueOfF L m₁ fuel a w with
      | error e => rw [hr] at hv; cases hv
      | ok x =>
        rw [hr] at hv
        simp only at hv
        cases hr' : valueOfF L m₁ fuel b w with
        | error e => rw [hr'] at hv; cases hv
        | ok y =>
          rw [hr'] at hv
          cases hv
          exact hc.f2 o _ (i2 x hr) _ (j2 y hr')

end Ptx.LibModel
