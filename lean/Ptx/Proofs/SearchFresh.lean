/-
  Ptx.Proofs.SearchFresh — `Branch.new_constant()` as the search model computes it (`nextConst`) is FRESH: strictly above every
  constant on the branch in the order of constants (subscript, then index), hence not on the branch.
-/
import Ptx.Search.State
namespace Ptx.Search
open Ptx

/-- the order of constants as a proposition -/
def clt (a b : Nat × Nat) : Prop := a.2 < b.2 ∨ (a.2 = b.2 ∧ a.1 < b.1)

theorem constLt_iff (a b : Nat × Nat) : constLt a b = true ↔ clt a b := by
  simp [constLt, clt]

theorem clt_trans {a b c : Nat × Nat} (h1 : clt a b) (h2 : clt b c) : clt a c := by
  unfold clt at *; omega

theorem clt_irrefl (a : Nat × Nat) : ¬ clt a a := by unfold clt; omega

theorem clt_next (c : Nat × Nat) : clt c (constNext c) := by
  unfold constNext clt
  split <;> simp <;> omega

/-- `a ≤ b` in the order of constants -/
def cle (a b : Nat × Nat) : Prop := a = b ∨ clt a b

theorem cle_of_not_clt {a b : Nat × Nat} (h : ¬ clt a b) : cle b a := by
  obtain ⟨a1, a2⟩ := a
  obtain ⟨b1, b2⟩ := b
  unfold cle clt at *
  simp only [Prod.mk.injEq] at *
  omega

theorem cle_clt {a b c : Nat × Nat} (h1 : cle a b) (h2 : clt b c) : clt a c := by
  rcases h1 with rfl | h1
  · exact h2
  · exact clt_trans h1 h2

theorem cle_trans {a b c : Nat × Nat} (h1 : cle a b) (h2 : cle b c) : cle a c := by
  rcases h2 with rfl | h2
  · exact h1
  · exact Or.inr (cle_clt h1 h2)

theorem constMax_ge (cs : List (Nat × Nat)) : ∀ c : Nat × Nat, cle c (constMax c cs) ∧ ∀ x ∈ cs, cle x (constMax c cs) := by
  induction cs with
  | nil => intro c; exact ⟨Or.inl rfl, fun x hx => by cases hx⟩
  | cons y ys ih =>
    intro c
    simp only [constMax, List.foldl_cons]
    have hstep : cle c (if constLt c y then y else c) ∧ cle y (if constLt c y then y else c) := by
      by_cases h : constLt c y = true
      · simp only [h, ↓reduceIte]
        exact ⟨Or.inr ((constLt_iff _ _).1 h), Or.inl rfl⟩
      · simp only [h, Bool.false_eq_true, ↓reduceIte]
        exact ⟨Or.inl rfl, cle_of_not_clt (fun hc => h ((constLt_iff _ _).2 hc))⟩
    have := ih (if constLt c y then y else c)
    simp only [constMax] at this
    refine ⟨cle_trans hstep.1 this.1, ?_⟩
    intro x hx
    rcases List.mem_cons.1 hx with rfl | hx
    · exact cle_trans hstep.2 this.1
    · exact this.2 x hx

/-- one step of the `_nextconst` recurrence -/
def ncStep (nx : Nat × Nat) (nd : Node) : Nat × Nat :=
  match nd with
  | .sent s _ _ =>
      match s.consts with
      | [] => nx
      | c :: cs => let m := constMax c cs; if constLt m nx then nx else constNext m
  | _ => nx

theorem nextConst_eq (b : Branch) : nextConst b = b.nodes.foldl ncStep (0, 0) := by
  unfold nextConst
  congr 1

theorem ncStep_spec (nx : Nat × Nat) (nd : Node) :
    cle nx (ncStep nx nd) ∧ ∀ s d w, nd = .sent s d w → ∀ x ∈ s.consts, clt x (ncStep nx nd) := by
  cases nd with
  | sent s d w =>
    simp only [ncStep]
    cases hc : s.consts with
    | nil => exact ⟨Or.inl rfl, fun s' d' w' he x hx => by cases he; rw [hc] at hx; cases hx⟩
    | cons c cs =>
      simp only
      have hmax := constMax_ge cs c
      by_cases h : constLt (constMax c cs) nx = true
      · simp only [h, ↓reduceIte]
        refine ⟨Or.inl rfl, fun s' d' w' he x hx => ?_⟩
        cases he
        rw [hc] at hx
        have hx' : cle x (constMax c cs) := by
          rcases List.mem_cons.1 hx with rfl | hx
          · exact hmax.1
          · exact hmax.2 x hx
        exact cle_clt hx' ((constLt_iff _ _).1 h)
      · simp only [h, Bool.false_eq_true, ↓reduceIte]
        have hge : cle nx (constMax c cs) := cle_of_not_clt (fun hcl => h ((constLt_iff _ _).2 hcl))
        refine ⟨Or.inr (cle_clt hge (clt_next _)), fun s' d' w' he x hx => ?_⟩
        cases he
        rw [hc] at hx
        have hx' : cle x (constMax c cs) := by
          rcases List.mem_cons.1 hx with rfl | hx
          · exact hmax.1
          · exact hmax.2 x hx
        exact cle_clt hx' (clt_next _)
  | access a c => exact ⟨Or.inl rfl, fun s d w he => by cases he⟩
  | flag n => exact ⟨Or.inl rfl, fun s d w he => by cases he⟩
  | ellipsis => exact ⟨Or.inl rfl, fun s d w he => by cases he⟩

theorem foldl_ncStep_above : ∀ (nodes : List Node) (nx : Nat × Nat),
    cle nx (nodes.foldl ncStep nx) ∧
    ∀ s d w, Node.sent s d w ∈ nodes → ∀ x ∈ s.consts, clt x (nodes.foldl ncStep nx)
  | [], nx => ⟨Or.inl rfl, fun s d w h => by cases h⟩
  | nd :: rest, nx => by
      simp only [List.foldl_cons]
      have h1 := ncStep_spec nx nd
      have h2 := foldl_ncStep_above rest (ncStep nx nd)
      refine ⟨cle_trans h1.1 h2.1, fun s d w hm x hx => ?_⟩
      rcases List.mem_cons.1 hm with he | hm
      · have := h1.2 s d w he.symm x hx
        rcases h2.1 with he2 | hlt
        · rw [← he2]; exact this
        · exact clt_trans this hlt
      · exact h2.2 s d w hm x hx

/-- every constant on the branch is strictly below `nextConst` -/
theorem consts_lt_nextConst (b : Branch) : ∀ c ∈ b.consts, clt c (nextConst b) := by
  intro c hc
  simp only [Branch.consts, List.mem_flatMap] at hc
  obtain ⟨nd, hnd, hcn⟩ := hc
  rw [nextConst_eq]
  cases nd with
  | sent s d w => exact (foldl_ncStep_above b.nodes (0, 0)).2 s d w hnd c hcn
  | access _ _ => cases hcn
  | flag _ => cases hcn
  | ellipsis => cases hcn

/-- FRESHNESS of the witness constant of the model's new-constant targets (`Branch.new_constant()`) -/
theorem nextConst_fresh (b : Branch) : b.consts.contains (nextConst b) = false := by
  rcases Bool.eq_false_or_eq_true (b.consts.contains (nextConst b)) with h | h
  · exact absurd (consts_lt_nextConst b _ (by simpa using h)) (clt_irrefl _)
  · exact h

end Ptx.Search
