/-
  Ptx.Proofs.LibModelFold — the fold programs of the evaluator mirror:
    * the short-circuiting `_limit_best` is the plain maximum / minimum when the limit bounds the items;
    * every program is a function of the SET of its items (on the logic's values), hence — when the
      per-logic obligation `foldProgramsOKB` holds — equals the regenerated set-indexed graph.
-/
import Ptx.Sem.LibModel
import Ptx.Proofs.Tables
namespace Ptx.LibModel
open Ptx

/-! ### rank -/

theorem rank_inj {a b : V} (h : rank a = rank b) : a = b := by
  cases a <;> cases b <;> simp [rank] at h <;> rfl

theorem rank_vmax (a b : V) : rank (vmax a b) = max (rank a) (rank b) := by
  unfold vmax; split <;> omega
theorem rank_vmin (a b : V) : rank (vmin a b) = min (rank a) (rank b) := by
  unfold vmin; split <;> omega
theorem vmax_mem (a b : V) : vmax a b = a ∨ vmax a b = b := by unfold vmax; split <;> simp
theorem vmin_mem (a b : V) : vmin a b = a ∨ vmin a b = b := by unfold vmin; split <;> simp

/-- the plain maximum: a member that dominates all members -/
theorem foldl_vmax_spec : ∀ (xs : List V) (x : V),
    xs.foldl vmax x ∈ x :: xs ∧ ∀ y ∈ x :: xs, rank y ≤ rank (xs.foldl vmax x)
  | [], x => by simp
  | a :: t, x => by
      obtain ⟨h1, h2⟩ := foldl_vmax_spec t (vmax x a)
      simp only [List.foldl_cons]
      refine ⟨?_, ?_⟩
      · rcases List.mem_cons.1 h1 with h | h
        · rw [h]; rcases vmax_mem x a with h' | h' <;> rw [h'] <;> simp
        · exact List.mem_cons_of_mem _ (List.mem_cons_of_mem _ h)
      · intro y hy
        have hm := h2 (vmax x a) List.mem_cons_self
        rw [rank_vmax] at hm
        rcases List.mem_cons.1 hy with rfl | hy
        · omega
        · rcases List.mem_cons.1 hy with rfl | hy
          · omega
          · exact h2 y (List.mem_cons_of_mem _ hy)

theorem foldl_vmin_spec : ∀ (xs : List V) (x : V),
    xs.foldl vmin x ∈ x :: xs ∧ ∀ y ∈ x :: xs, rank (xs.foldl vmin x) ≤ rank y
  | [], x => by simp
  | a :: t, x => by
      obtain ⟨h1, h2⟩ := foldl_vmin_spec t (vmin x a)
      simp only [List.foldl_cons]
      refine ⟨?_, ?_⟩
      · rcases List.mem_cons.1 h1 with h | h
        · rw [h]; rcases vmin_mem x a with h' | h' <;> rw [h'] <;> simp
        · exact List.mem_cons_of_mem _ (List.mem_cons_of_mem _ h)
      · intro y hy
        have hm := h2 (vmin x a) List.mem_cons_self
        rw [rank_vmin] at hm
        rcases List.mem_cons.1 hy with rfl | hy
        · omega
        · rcases List.mem_cons.1 hy with rfl | hy
          · omega
          · exact h2 y (List.mem_cons_of_mem _ hy)

/-! ### `_limit_best` = plain fold -/

theorem limitBestGo_max (limit : V) : ∀ (xs : List V) (best : V),
    (∀ y ∈ best :: xs, rank y ≤ rank limit) → limitBestGo vgt limit best xs = xs.foldl vmax best
  | [], _, _ => rfl
  | v :: rest, best, hb => by
      have hv : rank v ≤ rank limit := hb v (by simp)
      have hbest : rank best ≤ rank limit := hb best (by simp)
      simp only [limitBestGo, List.foldl_cons]
      by_cases h : (v == limit || vgt v limit) = true
      · rw [if_pos h]
        have hvl : v = limit := by
          rcases Bool.or_eq_true_iff.1 h with h | h
          · simpa using h
          · simp [vgt] at h; omega
        subst hvl
        -- everything that follows stays at the limit
        have htop := foldl_vmax_spec rest (vmax best v)
        apply rank_inj
        have h1 := htop.2 (vmax best v) List.mem_cons_self
        rw [rank_vmax] at h1
        have h2 : rank (rest.foldl vmax (vmax best v)) ≤ rank v := by
          rcases List.mem_cons.1 htop.1 with h | h
          · rw [h, rank_vmax]; omega
          · exact hb _ (List.mem_cons_of_mem _ (List.mem_cons_of_mem _ h))
        omega
      · rw [if_neg h]
        have : (if vgt v best = true then v else best) = vmax best v := by
          simp only [vgt, vmax, decide_eq_true_eq]
        rw [this]
        apply limitBestGo_max limit rest
        intro y hy
        rcases List.mem_cons.1 hy with rfl | hy
        · rw [rank_vmax]; omega
        · exact hb y (List.mem_cons_of_mem _ (List.mem_cons_of_mem _ hy))

theorem limitBestGo_min (limit : V) : ∀ (xs : List V) (best : V),
    (∀ y ∈ best :: xs, rank limit ≤ rank y) → limitBestGo vlt limit best xs = xs.foldl vmin best
  | [], _, _ => rfl
  | v :: rest, best, hb => by
      have hv : rank limit ≤ rank v := hb v (by simp)
      have hbest : rank limit ≤ rank best := hb best (by simp)
      simp only [limitBestGo, List.foldl_cons]
      by_cases h : (v == limit || vlt v limit) = true
      · rw [if_pos h]
        have hvl : v = limit := by
          rcases Bool.or_eq_true_iff.1 h with h | h
          · simpa using h
          · simp [vlt] at h; omega
        subst hvl
        have htop := foldl_vmin_spec rest (vmin best v)
        apply rank_inj
        have h1 := htop.2 (vmin best v) List.mem_cons_self
        rw [rank_vmin] at h1
        have h2 : rank v ≤ rank (rest.foldl vmin (vmin best v)) := by
          rcases List.mem_cons.1 htop.1 with h | h
          · rw [h, rank_vmin]; omega
          · exact hb _ (List.mem_cons_of_mem _ (List.mem_cons_of_mem _ h))
        omega
      · rw [if_neg h]
        have : (if vlt v best = true then v else best) = vmin best v := by
          simp only [vlt, vmin, decide_eq_true_eq]
        rw [this]
        apply limitBestGo_min limit rest
        intro y hy
        rcases List.mem_cons.1 hy with rfl | hy
        · rw [rank_vmin]; omega
        · exact hb y (List.mem_cons_of_mem _ (List.mem_cons_of_mem _ hy))

/-- `maxVal` / `minVal` bound the logic's values -/
theorem le_maxVal (T : Tables) {v : V} (h : v ∈ T.vals) : rank v ≤ rank (maxVal T) := by
  unfold maxVal
  cases hv : T.vals with
  | nil => rw [hv] at h; cases h
  | cons x xs => rw [hv] at h; exact (foldl_vmax_spec xs x).2 v h

theorem minVal_le (T : Tables) {v : V} (h : v ∈ T.vals) : rank (minVal T) ≤ rank v := by
  unfold minVal
  cases hv : T.vals with
  | nil => rw [hv] at h; cases h
  | cons x xs => rw [hv] at h; exact (foldl_vmin_spec xs x).2 v h

/-- the base program on a nonempty list of the logic's values: plain max / min -/
theorem baseV_cons (T : Tables) (up : Bool) (x : V) (xs : List V) (h : ∀ y ∈ x :: xs, y ∈ T.vals) :
    baseV T up (x :: xs) = if up then xs.foldl vmax x else xs.foldl vmin x := by
  unfold baseV limitBest
  cases up
  · simp only [Bool.false_eq_true, ↓reduceIte]
    exact limitBestGo_min _ xs x fun y hy => minVal_le T (h y hy)
  · simp only [↓reduceIte]
    exact limitBestGo_max _ xs x fun y hy => le_maxVal T (h y hy)

/-! ### functions of the set of items -/

/-- `f` depends only on which of the logic's values occur -/
def SetLikeOn (vals : List V) (f : List V → V) : Prop :=
  ∀ xs ys, (∀ x ∈ xs, x ∈ vals) → (∀ y ∈ ys, y ∈ vals) → (∀ v, v ∈ xs ↔ v ∈ ys) → f xs = f ys

theorem nil_of_mem_iff {xs : List V} (h : ∀ v, v ∈ xs ↔ v ∈ ([] : List V)) : xs = [] := by
  cases xs with
  | nil => rfl
  | cons a t => exact absurd ((h a).1 List.mem_cons_self) (by simp)

theorem baseV_setLike (T : Tables) (up : Bool) : SetLikeOn T.vals (baseV T up) := by
  intro xs ys hx hy hm
  cases xs with
  | nil =>
    have : ys = [] := nil_of_mem_iff fun v => (hm v).symm
    rw [this]
  | cons a t =>
    cases ys with
    | nil => exact absurd ((hm a).1 List.mem_cons_self) (by simp)
    | cons b u =>
      rw [baseV_cons T up a t hx, baseV_cons T up b u hy]
      cases up
      · simp only [Bool.false_eq_true, ↓reduceIte]
        obtain ⟨m1, l1⟩ := foldl_vmin_spec t a
        obtain ⟨m2, l2⟩ := foldl_vmin_spec u b
        apply rank_inj
        have h1 := l1 _ ((hm _).2 m2)
        have h2 := l2 _ ((hm _).1 m1)
        omega
      · simp only [↓reduceIte]
        obtain ⟨m1, l1⟩ := foldl_vmax_spec t a
        obtain ⟨m2, l2⟩ := foldl_vmax_spec u b
        apply rank_inj
        have h1 := l1 _ ((hm _).2 m2)
        have h2 := l2 _ ((hm _).1 m1)
        omega

theorem valset_congr {xs ys : List V} (h : ∀ v, v ∈ xs ↔ v ∈ ys) : valset xs = valset ys := by
  unfold valset
  apply List.filter_congr
  intro v _
  have := h v
  by_cases hx : v ∈ xs <;> simp_all

theorem threeWayV_setLike (vals : List V) (up : Bool) : SetLikeOn vals (threeWayV up) := by
  intro xs ys _ _ hm
  unfold threeWayV
  rw [valset_congr hm]

/-! #### a fold over an associative-commutative-idempotent action -/

section aci
variable {α : Type} (g : α → α → α) (ok : α → Prop)
  (closed : ∀ s a, ok s → ok a → ok (g s a))
  (comm : ∀ s a b, ok s → ok a → ok b → g (g s a) b = g (g s b) a)
  (idem : ∀ s a, ok s → ok a → g (g s a) a = g s a)
include closed

theorem foldl_ok : ∀ (xs : List α) (s : α), ok s → (∀ x ∈ xs, ok x) → ok (xs.foldl g s)
  | [], _, hs, _ => hs
  | a :: t, s, hs, hx => by
      simp only [List.foldl_cons]
      exact foldl_ok t (g s a) (closed s a hs (hx a (by simp))) fun x h => hx x (List.mem_cons_of_mem _ h)

include comm
theorem foldl_push : ∀ (xs : List α) (s a : α), ok s → ok a → (∀ x ∈ xs, ok x) →
    xs.foldl g (g s a) = g (xs.foldl g s) a
  | [], _, _, _, _, _ => rfl
  | b :: t, s, a, hs, ha, hx => by
      have hb : ok b := hx b (by simp)
      simp only [List.foldl_cons]
      rw [comm s a b hs ha hb]
      exact foldl_push t (g s b) a (closed s b hs hb) ha fun x h => hx x (List.mem_cons_of_mem _ h)

include idem
theorem foldl_absorb : ∀ (xs : List α) (s a : α), ok s → (∀ x ∈ xs, ok x) → a ∈ xs →
    g (xs.foldl g s) a = xs.foldl g s
  | b :: t, s, a, hs, hx, hm => by
      have hb : ok b := hx b (by simp)
      have ht : ∀ x ∈ t, ok x := fun x h => hx x (List.mem_cons_of_mem _ h)
      simp only [List.foldl_cons]
      by_cases hab : a = b
      · subst hab
        rw [← foldl_push g ok closed comm t (g s a) a (closed s a hs hb) hb ht, idem s a hs hb]
      · have : a ∈ t := by
          rcases List.mem_cons.1 hm with h | h
          · exact absurd h hab
          · exact h
        exact foldl_absorb t (g s b) a (closed s b hs hb) ht this

theorem foldl_sub : ∀ (xs ys : List α) (s : α), ok s → (∀ y ∈ ys, ok y) → (∀ x ∈ xs, x ∈ ys) →
    xs.foldl g (ys.foldl g s) = ys.foldl g s
  | [], _, _, _, _, _ => rfl
  | a :: t, ys, s, hs, hy, hsub => by
      simp only [List.foldl_cons]
      rw [foldl_absorb g ok closed comm idem ys s a hs hy (hsub a (by simp))]
      exact foldl_sub t ys s hs hy fun x h => hsub x (List.mem_cons_of_mem _ h)

omit idem in
theorem foldl_swap : ∀ (xs ys : List α) (s : α), ok s → (∀ x ∈ xs, ok x) → (∀ y ∈ ys, ok y) →
    xs.foldl g (ys.foldl g s) = ys.foldl g (xs.foldl g s)
  | [], _, _, _, _, _ => rfl
  | a :: t, ys, s, hs, hx, hy => by
      have ha : ok a := hx a (by simp)
      simp only [List.foldl_cons]
      rw [← foldl_push g ok closed comm ys s a hs ha hy]
      exact foldl_swap t ys (g s a) (closed s a hs ha) (fun x h => hx x (List.mem_cons_of_mem _ h)) hy

theorem foldl_aci (xs ys : List α) (s : α) (hs : ok s) (hx : ∀ x ∈ xs, ok x) (hy : ∀ y ∈ ys, ok y)
    (hm : ∀ v, v ∈ xs ↔ v ∈ ys) : xs.foldl g s = ys.foldl g s := by
  have h1 := foldl_sub g ok closed comm idem ys xs s hs hx fun y h => (hm y).2 h
  have h2 := foldl_sub g ok closed comm idem xs ys s hs hy fun x h => (hm x).1 h
  rw [← h1, foldl_swap g ok closed comm ys xs s hs hy hx, h2]
end aci

theorem generalizeV_setLike (T : Tables) (up : Bool) (hside : progSideB T .generalize up = true) :
    SetLikeOn T.vals (generalizeV T up) := by
  simp only [progSideB, aciB, Bool.and_eq_true, List.all_eq_true, List.contains_iff_mem, beq_iff_eq] at hside
  obtain ⟨haci, hinit⟩ := hside
  intro xs ys hx hy hm
  unfold generalizeV
  exact foldl_aci (T.f2 (genOp up)) (· ∈ T.vals)
    (fun s a hs ha => ((haci s hs a ha).1).1)
    (fun s a b hs ha hb => (haci s hs a ha).2 b hb)
    (fun s a hs ha => ((haci s hs a ha).1).2)
    xs ys _ hinit hx hy hm

theorem crunchV_setLike (T : Tables) (up : Bool) (hside : progSideB T .crunch up = true) :
    SetLikeOn T.vals (crunchV T up) := by
  simp only [progSideB, List.all_eq_true, List.contains_iff_mem] at hside
  intro xs ys hx hy hm
  unfold crunchV
  apply baseV_setLike T up
  · intro v hv; obtain ⟨a, ha, rfl⟩ := List.mem_map.1 hv; exact hside a (hx a ha)
  · intro v hv; obtain ⟨a, ha, rfl⟩ := List.mem_map.1 hv; exact hside a (hy a ha)
  · intro v
    simp only [List.mem_map]
    constructor
    · rintro ⟨a, ha, rfl⟩; exact ⟨a, (hm a).1 ha, rfl⟩
    · rintro ⟨a, ha, rfl⟩; exact ⟨a, (hm a).2 ha, rfl⟩

theorem runProgV_setLike (T : Tables) (p : Prog) (up : Bool) (hside : progSideB T p up = true) :
    SetLikeOn T.vals (runProgV T p up) := by
  cases p
  · exact baseV_setLike T up
  · exact generalizeV_setLike T up hside
  · exact threeWayV_setLike T.vals up
  · exact crunchV_setLike T up hside

/-! ### program = regenerated graph -/

/-- a set-like program that reproduces the graph on the canonical subsets reproduces it on every list -/
theorem setLike_eq_graph (T : Tables) {κ : Type} [BEq κ] (f : List V → V) (hf : SetLikeOn T.vals f)
    (tbl : List ((κ × List V) × V)) (k : κ) (ps : List (List V))
    (hps : ∀ P ∈ ps, tbl.lookup (k, P) = some (f P))
    (xs : List V) (hx : ∀ x ∈ xs, x ∈ T.vals) (hc : T.canon xs ∈ ps) :
    f xs = (tbl.lookup (k, T.canon xs)).getD .F := by
  rw [hps _ hc]
  simp only [Option.getD_some]
  apply hf
  · exact hx
  · intro y hy; exact (T.mem_canon.1 hy).1
  · intro v
    rw [T.mem_canon]
    constructor
    · intro h; exact ⟨hx v h, h⟩
    · intro h; exact h.2

theorem canon_ne_nil (T : Tables) {xs : List V} (hx : ∀ x ∈ xs, x ∈ T.vals) (hne : xs ≠ []) : T.canon xs ≠ [] := by
  cases xs with
  | nil => exact absurd rfl hne
  | cons a t =>
    intro h
    have : a ∈ T.canon (a :: t) := T.mem_canon.2 ⟨hx a (by simp), by simp⟩
    rw [h] at this; cases this

/-- quantifiers: on a nonempty list of the logic's values the program equals the regenerated graph -/
theorem foldQV_eq_qfold (L : LogicData) (h : foldProgramsOKB L = true) (hq : L.quantified = true) (q : Quant)
    (xs : List V) (hx : ∀ x ∈ xs, x ∈ L.T.vals) (hne : xs ≠ []) : foldQV L q xs = L.T.qfold q xs := by
  simp only [foldProgramsOKB, hq, Bool.not_true, Bool.false_or, Bool.and_eq_true, List.all_eq_true,
    beq_iff_eq] at h
  have hq' := h.1 q (by cases q <;> simp [Quant.all])
  unfold Tables.qfold
  apply setLike_eq_graph L.T (foldQV L q) (runProgV_setLike L.T _ _ hq'.1) L.T.qf q L.nonemptyProfiles hq'.2 xs hx
  unfold LogicData.nonemptyProfiles
  rw [List.mem_filter]
  refine ⟨L.T.canon_mem_profiles xs, ?_⟩
  have := canon_ne_nil L.T hx hne
  cases hc : L.T.canon xs with
  | nil => exact absurd hc this
  | cons _ _ => rfl

/-- modal operators: likewise; the empty list (a world without successors) is included exactly when
    the logic's frames allow it -/
theorem foldMV_eq_mfold (L : LogicData) (h : foldProgramsOKB L = true) (hm : L.modal = true) (o : Op1)
    (ho : o = .poss ∨ o = .nec) (xs : List V) (hx : ∀ x ∈ xs, x ∈ L.T.vals)
    (hne : xs ≠ [] ∨ L.emptyAccessOk = true) : foldMV L o xs = L.T.mfold o xs := by
  simp only [foldProgramsOKB, hm, Bool.not_true, Bool.false_or, Bool.and_eq_true, List.all_eq_true,
    beq_iff_eq] at h
  have ho' := h.2 o (by rcases ho with rfl | rfl <;> simp)
  unfold Tables.mfold
  apply setLike_eq_graph L.T (foldMV L o) (runProgV_setLike L.T _ _ ho'.1) L.T.mf o L.mProfiles ho'.2 xs hx
  unfold LogicData.mProfiles LogicData.nonemptyProfiles
  rcases hne with hne | he
  · have hcn := canon_ne_nil L.T hx hne
    have hmem : L.T.canon xs ∈ L.T.profiles.filter (!·.isEmpty) := by
      rw [List.mem_filter]
      refine ⟨L.T.canon_mem_profiles xs, ?_⟩
      cases hc : L.T.canon xs with
      | nil => exact absurd hc hcn
      | cons _ _ => rfl
    cases hk : L.frame <;> simp only <;> first | exact hmem | exact (List.mem_filter.1 hmem).1
  · unfold LogicData.emptyAccessOk at he
    cases hk : L.frame <;> simp [hk] at he <;> simp only <;> exact L.T.canon_mem_profiles xs

/-! ### the generator versions agree with the list versions when no item raises -/

theorem limitBestGoR_ok (better : V → V → Bool) (limit : V) : ∀ (xs : List V) (best : V),
    limitBestGoR better limit best (xs.map .ok) = .ok (limitBestGo better limit best xs)
  | [], _ => rfl
  | v :: rest, best => by
      simp only [List.map_cons, limitBestGoR, limitBestGo]
      split
      · rfl
      · exact limitBestGoR_ok better limit rest _

theorem limitBestR_ok (better : V → V → Bool) (limit dflt : V) (xs : List V) :
    limitBestR better limit dflt (xs.map .ok) = .ok (limitBest better limit dflt xs) := by
  cases xs with
  | nil => rfl
  | cons x xs => simp only [List.map_cons, limitBestR, limitBest]; exact limitBestGoR_ok _ _ xs x

theorem baseR_ok (T : Tables) (up : Bool) (xs : List V) : baseR T up (xs.map .ok) = .ok (baseV T up xs) := by
  unfold baseR baseV
  cases up <;> simp only [Bool.false_eq_true, ↓reduceIte] <;> exact limitBestR_ok _ _ _ xs

theorem generalizeR_ok (T : Tables) (up : Bool) : ∀ (xs : List V) (acc : V),
    generalizeR T up acc (xs.map .ok) = .ok (xs.foldl (T.f2 (genOp up)) acc)
  | [], _ => rfl
  | v :: rest, acc => by
      simp only [List.map_cons, generalizeR, List.foldl_cons]
      exact generalizeR_ok T up rest _

theorem seqAll_ok : ∀ (xs : List V), seqAll (xs.map .ok) = .ok xs
  | [] => rfl
  | v :: rest => by simp only [List.map_cons, seqAll, seqAll_ok rest]

theorem runProgR_ok (T : Tables) (p : Prog) (up : Bool) (xs : List V) :
    runProgR T p up (xs.map .ok) = .ok (runProgV T p up xs) := by
  cases p
  · exact baseR_ok T up xs
  · exact generalizeR_ok T up xs _
  · simp only [runProgR, runProgV, seqAll_ok]; rfl
  · simp only [runProgR, runProgV, crunchR, crunchV, List.map_map]
    have : (xs.map ((fun r : Res V => r.map (T.f1 .asrt)) ∘ Except.ok)) = (xs.map (T.f1 .asrt)).map .ok := by
      simp [List.map_map, Function.comp_def, Except.map]
    rw [this]
    exact baseR_ok T up _

end Ptx.LibModel
