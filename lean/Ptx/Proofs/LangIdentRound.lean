/- helper lemmas for C14: the ident / spec round trips of every valid item (core Lean only) -/
import Ptx.Proofs.LangIdent
namespace Ptx

/-! ### `pre` -/

theorem pre_none {fx : Fixes} {cls : Cls} {args : List Arg} (hc : cls ≠ .predicate)
    (hi : ∀ x, args ≠ [.item x]) : pre fx cls args = none := by
  unfold pre
  simp only [hc, ↓reduceIte, decide_false, Bool.and_false, Bool.false_eq_true]
  split
  · rename_i r hr
    split at hr
    · rename_i x; exact absurd rfl (hi x)
    · simp at hr
    · simp at hr
  · rfl

theorem tuple_inj {l l' : List Arg} (h : Arg.tuple l = Arg.tuple l') : l = l' := by
  simp only [Arg.tuple, Arg.tup.injEq] at h
  rw [← Args.toList_ofList l, h, Args.toList_ofList]

/-- `pre` on the spec of a predicate: the system predicates are answered here (fix 1) -/
theorem pre_pred {fx : Fixes} (hs : fx.sysPred = true) (p : Pred) (args : List Arg)
    (hargs : args = p.specArgs ∨ args = [Arg.tuple p.specArgs]) :
    pre fx .predicate args =
      if p = Pred.identity then some (.ok (.pred Pred.identity))
      else if p = Pred.existence then some (.ok (.pred Pred.existence)) else none := by
  have hpre : pre fx .predicate args =
      if Arg.tuple p.specArgs = Arg.tuple Pred.identity.specArgs then some (.ok (.pred Pred.identity))
      else if Arg.tuple p.specArgs = Arg.tuple Pred.existence.specArgs then
        some (.ok (.pred Pred.existence)) else none := by
    obtain ⟨sp, ml⟩ := fx
    simp only at hs; subst hs
    rcases hargs with h | h <;> subst h <;> rfl
  rw [hpre]
  have e1 : (Arg.tuple p.specArgs = Arg.tuple Pred.identity.specArgs) ↔ p = Pred.identity := by
    constructor
    · intro h
      have := tuple_inj h
      simp only [Pred.specArgs, List.cons.injEq, Arg.int.injEq, and_true] at this
      obtain ⟨h1, h2, h3⟩ := this
      cases p
      simp only [Pred.identity, Pred.mk.injEq]
      simp only [Pred.identity] at h1 h2 h3
      omega
    · rintro rfl; rfl
  have e2 : (Arg.tuple p.specArgs = Arg.tuple Pred.existence.specArgs) ↔ p = Pred.existence := by
    constructor
    · intro h
      have := tuple_inj h
      simp only [Pred.specArgs, List.cons.injEq, Arg.int.injEq, and_true] at this
      obtain ⟨h1, h2, h3⟩ := this
      cases p
      simp only [Pred.existence, Pred.mk.injEq]
      simp only [Pred.existence] at h1 h2 h3
      omega
    · rintro rfl; rfl
  simp only [e1, e2]

/-! ### coordinates -/

theorem biCoords_ints (maxi : Int) (mk : Nat → Nat → Item) (i s : Nat) (h : (i : Int) ≤ maxi)
    (args : List Arg) (hargs : args = [.int i, .int s] ∨ args = [Arg.tuple [.int i, .int s]]) :
    biCoords maxi mk args = .ret (mk i s) := by
  have hc : coordArgs 2 args = .ok [(i : Int), (s : Int)] := by
    rw [coordArgs_eq]
    rcases hargs with h | h <;> subst h <;>
      simp [coordTail, allInts, iterate_tuple]
  unfold biCoords
  rw [hc]
  have h1 : ¬ ((i : Int) > maxi) := by omega
  have h2 : ¬ ((s : Int) < 0) := by omega
  have h3 : ¬ ((i : Int) < 0) := by omega
  simp [h1, h2, h3]

theorem predBody_spec (p : Pred) (h0 : 0 ≤ p.index) (h3 : p.index ≤ 3) (ha : p.arity > 0)
    (args : List Arg) (hargs : args = p.specArgs ∨ args = [Arg.tuple p.specArgs]) :
    predBody args = .ret (.pred p) := by
  have hx : (match args with | [a] => iterate a | _ => Except.ok args) = .ok p.specArgs := by
    rcases hargs with h | h <;> subst h
    · rfl
    · simp [iterate_tuple]
  have hpt : predBody args = predTail (.ok p.specArgs) := by rw [predBody_eq]; exact congrArg predTail hx
  rw [hpt]
  have hc : coordArgs 3 (List.take 3 p.specArgs) = .ok [p.index, (p.sub : Int), (p.arity : Int)] := by
    rw [coordArgs_eq]
    simp [Pred.specArgs, coordTail, allInts]
  unfold predTail
  simp only [Pred.specArgs] at hc ⊢
  rw [hc]
  have h1 : ¬ (p.index > 3) := by omega
  have h2 : ¬ ((p.sub : Int) < 0) := by omega
  have h4 : ¬ ((p.arity : Int) ≤ 0) := by omega
  have h5 : ¬ (p.index < 0) := by omega
  have h6 : ¬ p.arity = 0 := by omega
  simp [h1, h2, h5, h6]

/-! ### from-ident decoding -/

theorem evalP_fromIdent (fx : Fixes) (n : Nat) (acls c : Cls) (xs : List Arg)
    (hab : acls.isAbstract = true) (hc : c.isAbstract = false) (hsub : subclassOK acls (.lex c) = true) :
    evalP fx (n+1) acls [Arg.tuple [.str c.name, Arg.tuple xs]] = evalP fx n c xs := by
  have hpre : pre fx acls [Arg.tuple [.str c.name, Arg.tuple xs]] = none := by
    apply pre_none
    · intro h; subst h; simp [Cls.isAbstract] at hab
    · intro x h; simp [Arg.tuple] at h
  have hd : decodeIdent acls [Arg.tuple [.str c.name, Arg.tuple xs]] =
      .ok (.str c.name, Arg.tuple xs, .lex c) := by
    simp [decodeIdent, unpack2, iterate_tuple, lexTypeOf, lexTypeByName_cls, hc, hsub]
  rw [evalP]
  simp only [hpre, hab, ↓reduceIte, hd, iterate_tuple]

theorem evalP_fromIdent_enum (fx : Fixes) (n : Nat) (isQ : Bool) (xs : List Arg) :
    evalP fx (n+1) .lexicalAbc [Arg.tuple [.str (if isQ then "Quantifier" else "Operator"), Arg.tuple xs]]
      = enumCall isQ xs := by
  have hpre : ∀ s : String, pre fx .lexicalAbc [Arg.tuple [.str s, Arg.tuple xs]] = none := by
    intro s
    apply pre_none
    · simp
    · intro x h; simp [Arg.tuple] at h
  rw [evalP]
  cases isQ <;>
    simp [hpre, Cls.isAbstract, decodeIdent, unpack2, iterate_tuple, lexTypeOf, lexTypeByName, subclassOK]

/-! ### parameters, predicates -/

def Param.cls : Param → Cls
  | .const _ _ => .constant | .var _ _ => .variable_

theorem Param.ident_eq (p : Param) : p.ident = Arg.tuple [.str p.cls.name, Arg.tuple p.specArgs] := by
  cases p <;> rfl

theorem param_spec_rt (fx : Fixes) (p : Param) (hv : p.Valid = true) (n : Nat) :
    evalP fx (n+1) p.cls p.specArgs = .ok (.param p) := by
  cases p with
  | const i s =>
    simp only [Param.Valid, decide_eq_true_eq] at hv
    have hpre : pre fx .constant [.int i, .int s] = none := pre_none (by simp) (by simp)
    rw [evalP]
    simp only [Param.cls, Param.specArgs, hpre, Cls.isAbstract, Bool.false_eq_true, ↓reduceIte, body]
    rw [biCoords_ints 3 _ i s (by omega) _ (Or.inl rfl)]
    rfl
  | var i s =>
    simp only [Param.Valid, decide_eq_true_eq] at hv
    have hpre : pre fx .variable_ [.int i, .int s] = none := pre_none (by simp) (by simp)
    rw [evalP]
    simp only [Param.cls, Param.specArgs, hpre, Cls.isAbstract, Bool.false_eq_true, ↓reduceIte, body]
    rw [biCoords_ints 3 _ i s (by omega) _ (Or.inl rfl)]
    rfl

theorem var_tuple_rt (fx : Fixes) (i s : Nat) (hv : i ≤ 3) (n : Nat) :
    evalP fx (n+1) .variable_ [Arg.tuple [.int i, .int s]] = .ok (.param (.var i s)) := by
  have hpre : pre fx .variable_ [Arg.tuple [.int i, .int s]] = none :=
    pre_none (by simp) (by intro x h; simp [Arg.tuple] at h)
  rw [evalP]
  simp only [hpre, Cls.isAbstract, Bool.false_eq_true, ↓reduceIte, body]
  rw [biCoords_ints 3 _ i s (by omega) _ (Or.inr rfl)]
  rfl

theorem param_ident_rt (fx : Fixes) (p : Param) (hv : p.Valid = true) (n : Nat) :
    evalP fx (n+2) .parameter [p.ident] = .ok (.param p) := by
  rw [Param.ident_eq, evalP_fromIdent fx (n+1) .parameter p.cls p.specArgs rfl (by cases p <;> rfl)
    (by cases p <;> rfl)]
  exact param_spec_rt fx p hv n

theorem pred_spec_rt (fx : Fixes) (hs : fx.sysPred = true) (p : Pred) (hv : p.Valid = true) (n : Nat)
    (args : List Arg) (hargs : args = p.specArgs ∨ args = [Arg.tuple p.specArgs]) :
    evalP fx (n+1) .predicate args = .ok (.pred p) := by
  rw [evalP, pre_pred hs p args hargs]
  by_cases h1 : p = Pred.identity
  · subst h1; rfl
  · by_cases h2 : p = Pred.existence
    · subst h2; rfl
    · simp only [h1, h2, ↓reduceIte, Cls.isAbstract, Bool.false_eq_true, body]
      simp only [Pred.Valid, Bool.or_eq_true, Bool.and_eq_true, decide_eq_true_eq, beq_iff_eq,
        h1, h2, or_false] at hv
      rw [predBody_spec p hv.1.1 hv.1.2 hv.2 args hargs]
      rfl

/-! ### nested calls -/

theorem runP_callEach_params (call : Cls → List Arg → R) :
    ∀ (ps : List Param) (k : List Item → Prog),
    (∀ p ∈ ps, call .parameter [p.ident] = .ok (.param p)) →
    runP call (callEach .parameter (identsOfParams ps) k) = runP call (k (ps.map .param)) := by
  intro ps
  induction ps with
  | nil => intro k _; rfl
  | cons p ps ih =>
    intro k h
    simp only [identsOfParams, callEach, runP, h p (by simp), List.map_cons]
    exact ih _ (fun q hq => h q (List.mem_cons_of_mem _ hq))

theorem itemsToParams_map (ps : List Param) : itemsToParams (ps.map .param) = some ps := by
  induction ps with
  | nil => rfl
  | cons p ps ih => simp [itemsToParams, ih]

theorem predicatedK_tuple (l : List Arg) (p : Pred) :
    predicatedK (Arg.tuple l) (.pred p) = callEach .parameter l (predicatedFin p) := by
  simp [predicatedK, Arg.tuple, iterate, Args.toList_ofList]

theorem operatedTail_tuple (o : Op) (l : List Arg) :
    operatedTail o (Arg.tuple l) = callEach .sentence l (operatedFin o) := by
  simp [operatedTail, Arg.tuple, iterate, Args.toList_ofList]

theorem enumOp_name (o : Op) : enumOp (.str o.name) = .ok o := by
  cases o with
  | u o => cases o <;> rfl
  | b o => cases o <;> rfl

theorem enumQuant_name (q : Quant) : enumQuant (.str q.name) = .ok q := by
  cases q <;> rfl

/-! ### sentences -/

def Sent.cls : Sent → Cls
  | .atom _ _ => .atomic | .pred _ _ => .predicated | .quant _ _ _ _ => .quantified
  | .op1 _ _ => .operated | .op2 _ _ _ => .operated

theorem Sent.ident_eq (s : Sent) : s.ident = Arg.tuple [.str s.cls.name, Arg.tuple s.specArgs] := by
  cases s <;> simp [Sent.ident, Sent.specArgs, Sent.cls, Cls.name]

theorem sent_ident_of_spec (fx : Fixes) (s : Sent) (n : Nat) (acls : Cls)
    (ha : acls = .sentence ∨ acls = .lexicalAbc)
    (h : evalP fx n s.cls s.specArgs = .ok (.sent s)) :
    evalP fx (n+1) acls [s.ident] = .ok (.sent s) := by
  rw [Sent.ident_eq, evalP_fromIdent fx n acls s.cls s.specArgs (by rcases ha with h | h <;> subst h <;> rfl)
    (by cases s <;> rfl) (by rcases ha with h | h <;> subst h <;> cases s <;> rfl)]
  exact h

/-- constructing `type(s)` from `s.spec` returns `s`, for every budget ≥ 2·size + 1 -/
theorem sent_spec_rt (fx : Fixes) (hs : fx.sysPred = true) : ∀ (s : Sent), s.Valid = true →
    ∀ n, 2 * s.size + 1 ≤ n → evalP fx n s.cls s.specArgs = .ok (.sent s) := by
  intro s
  induction s with
  | atom i s =>
    intro hv n hn
    obtain ⟨m, rfl⟩ : ∃ m, n = m + 1 := ⟨n - 1, by omega⟩
    simp only [Sent.Valid, decide_eq_true_eq] at hv
    have hpre : pre fx .atomic [.int i, .int s] = none := pre_none (by simp) (by simp)
    rw [evalP]
    simp only [Sent.cls, Sent.specArgs, hpre, Cls.isAbstract, Bool.false_eq_true, ↓reduceIte, body]
    rw [biCoords_ints 4 _ i s (by omega) _ (Or.inl rfl)]
    rfl
  | pred p ps =>
    intro hv n hn
    simp only [Sent.size] at hn
    obtain ⟨m, rfl⟩ : ∃ m, n = m + 3 := ⟨n - 3, by omega⟩
    simp only [Sent.Valid, Bool.and_eq_true, List.all_eq_true, beq_iff_eq] at hv
    obtain ⟨⟨hp, hps⟩, hlen⟩ := hv
    have hpre : pre fx .predicated [Arg.tuple p.specArgs, Arg.tuple (identsOfParams ps)] = none :=
      pre_none (by simp) (by simp)
    rw [evalP]
    simp only [Sent.cls, Sent.specArgs, hpre, Cls.isAbstract, Bool.false_eq_true, ↓reduceIte, body]
    rw [predicatedBody_cons]
    simp only [runP, pred_spec_rt fx hs p hp (m+1) _ (Or.inr rfl), restArg, predicatedK_tuple]
    rw [runP_callEach_params _ ps _ (fun q hq => param_ident_rt fx q (hps q hq) m)]
    simp [predicatedFin, hlen, itemsToParams_map, runP]
  | quant q vi vs b ih =>
    intro hv n hn
    simp only [Sent.size] at hn
    obtain ⟨m, rfl⟩ : ∃ m, n = m + 3 := ⟨n - 3, by omega⟩
    simp only [Sent.Valid, Bool.and_eq_true, decide_eq_true_eq] at hv
    have hpre : pre fx .quantified [.str q.name, Arg.tuple [.int vi, .int vs], b.ident] = none :=
      pre_none (by simp) (by simp)
    have hb := sent_ident_of_spec fx b (m+1) .sentence (Or.inl rfl) (ih hv.2 (m+1) (by omega))
    rw [evalP]
    simp only [Sent.cls, Sent.specArgs, hpre, Cls.isAbstract, Bool.false_eq_true, ↓reduceIte, body]
    simp only [quantifiedBody, enumQuant_name, runP, var_tuple_rt fx vi vs hv.1 (m+1), hb]
  | op1 o a ih =>
    intro hv n hn
    simp only [Sent.size] at hn
    obtain ⟨m, rfl⟩ : ∃ m, n = m + 3 := ⟨n - 3, by omega⟩
    simp only [Sent.Valid] at hv
    have hpre : pre fx .operated [.str o.name, Arg.tuple [a.ident]] = none :=
      pre_none (by simp) (by simp)
    have ha := sent_ident_of_spec fx a (m+1) .sentence (Or.inl rfl) (ih hv (m+1) (by omega))
    rw [evalP]
    simp only [Sent.cls, Sent.specArgs, hpre, Cls.isAbstract, Bool.false_eq_true, ↓reduceIte, body]
    rw [operatedBody_cons]
    have : enumOp (.str o.name) = .ok (.u o) := enumOp_name (.u o)
    simp only [this, restArg, operatedTail_tuple, callEach, runP, ha, operatedFin, itemsToSents,
      Option.map]
  | op2 o a b iha ihb =>
    intro hv n hn
    simp only [Sent.size] at hn
    obtain ⟨m, rfl⟩ : ∃ m, n = m + 3 := ⟨n - 3, by omega⟩
    simp only [Sent.Valid, Bool.and_eq_true] at hv
    have hpre : pre fx .operated [.str o.name, Arg.tuple [a.ident, b.ident]] = none :=
      pre_none (by simp) (by simp)
    have ha := sent_ident_of_spec fx a (m+1) .sentence (Or.inl rfl) (iha hv.1 (m+1) (by omega))
    have hb := sent_ident_of_spec fx b (m+1) .sentence (Or.inl rfl) (ihb hv.2 (m+1) (by omega))
    rw [evalP]
    simp only [Sent.cls, Sent.specArgs, hpre, Cls.isAbstract, Bool.false_eq_true, ↓reduceIte, body]
    rw [operatedBody_cons]
    have : enumOp (.str o.name) = .ok (.b o) := enumOp_name (.b o)
    simp only [this, restArg, operatedTail_tuple, callEach, runP, ha, hb, operatedFin, itemsToSents,
      Option.map]

/-! ### all nine types -/

/-- `LexType(name).cls(*spec)` with recursion budget `n`, nothing cached -/
def constructN (fx : Fixes) (n : Nat) : Target → List Arg → R
  | .lex c, xs => evalP fx n c xs
  | .quantifier, xs => enumCall true xs
  | .operator, xs => enumCall false xs

/-- `LexType(name).cls(*spec)` in a fresh process (`build` for the seven classes, the enum lookup
    for Quantifier / Operator) -/
def construct (fx : Fixes) (t : Target) (xs : List Arg) : R := constructN fx (fuelFor xs) t xs

def itemSize : Item → Nat
  | .sent s => s.size
  | _ => 1

theorem targetOf_param (p : Param) : targetOf (.param p) = .lex p.cls := by cases p <;> rfl
theorem targetOf_sent (s : Sent) : targetOf (.sent s) = .lex s.cls := by cases s <;> rfl

/-- constructing `type(x)` from `x.spec` returns `x` (any budget ≥ 2·size + 1) -/
theorem item_spec_rt (fx : Fixes) (hs : fx.sysPred = true) (x : Item) (hv : x.Valid = true) (n : Nat)
    (hn : 2 * itemSize x + 1 ≤ n) : constructN fx n (targetOf x) (specArgs x) = .ok x := by
  cases x with
  | pred p =>
    simp only [itemSize] at hn
    obtain ⟨m, rfl⟩ : ∃ m, n = m + 1 := ⟨n - 1, by omega⟩
    exact pred_spec_rt fx hs p hv m _ (Or.inl rfl)
  | param p =>
    simp only [itemSize] at hn
    obtain ⟨m, rfl⟩ : ∃ m, n = m + 1 := ⟨n - 1, by omega⟩
    rw [targetOf_param]
    exact param_spec_rt fx p hv m
  | quant q =>
    show enumCall true [.str q.name] = _
    simp [enumCall, enumQuant_name, Except.map]
  | op o =>
    show enumCall false [.str o.name] = _
    simp [enumCall, enumOp_name, Except.map]
  | sent s =>
    rw [targetOf_sent]
    exact sent_spec_rt fx hs s hv n hn

theorem lexTypeOf_type (x : Item) : lexTypeOf (.str x.type.name) = .ok (targetOf x) := by
  simp only [lexTypeOf, targetOf]
  generalize x.type = t
  cases t <;> simp [lexTypeByName, LexType.name]

/-- the fresh build denoted by the key `x.ident` is the construction from `x.spec` -/
theorem keyBuildP_ident (fx : Fixes) (n : Nat) (x : Item) :
    keyBuildP fx n (identArg x) = constructN fx n (targetOf x) (specArgs x) := by
  rw [identArg, keyBuildP_pair, lexTypeOf_type]
  simp only [iterate_tuple]
  cases targetOf x <;> rfl

/-- `LexicalAbc(x.ident)` decodes to the construction from `x.spec` -/
theorem fromIdent_eq (fx : Fixes) (n : Nat) (x : Item) :
    evalP fx (n+1) .lexicalAbc [identArg x] = constructN fx n (targetOf x) (specArgs x) := by
  have h : ∀ c : Cls, c.isAbstract = false → targetOf x = .lex c → x.type.name = c.name →
      evalP fx (n+1) .lexicalAbc [identArg x] = constructN fx n (targetOf x) (specArgs x) := by
    intro c hc ht hn
    rw [ht, identArg, hn, evalP_fromIdent fx n .lexicalAbc c _ rfl hc rfl]
    rfl
  cases x with
  | pred p => exact h .predicate rfl rfl rfl
  | param p => cases p <;> exact h _ rfl rfl rfl
  | quant q => exact evalP_fromIdent_enum fx n true _
  | op o => exact evalP_fromIdent_enum fx n false _
  | sent s => cases s <;> exact h _ rfl rfl rfl

/-- every item a cache-free call returns (from arguments carrying valid items) is rebuilt from its
    ident: the round trip the cache relies on when it files an item under `inst.ident` -/
def RoundTripsV (fx : Fixes) : Prop :=
  ∀ n cls args x, argsVI args = true → evalP fx n cls args = .ok x →
    ∃ m, keyBuildP fx m (identArg x) = .ok x

theorem roundTripsV (fx : Fixes) (hs : fx.sysPred = true) : RoundTripsV fx := by
  intro n cls args x ha h
  have hv := evalP_valid fx n cls args x ha h
  exact ⟨2 * itemSize x + 1, by rw [keyBuildP_ident]; exact item_spec_rt fx hs x hv _ (Nat.le_refl _)⟩

/-! ### the budget `fuelFor` suffices -/

def sizeL (l : List Arg) : Nat := (Args.ofList l).size

@[simp] theorem sizeL_nil : sizeL [] = 0 := rfl
@[simp] theorem sizeL_cons (a : Arg) (l : List Arg) : sizeL (a :: l) = a.size + sizeL l := rfl
@[simp] theorem size_tuple (l : List Arg) : (Arg.tuple l).size = sizeL l + 1 := rfl
@[simp] theorem size_int (n : Int) : (Arg.int n).size = 1 := rfl
@[simp] theorem size_str (s : String) : (Arg.str s).size = 1 := rfl

theorem Sent.ident_size (s : Sent) : s.ident.size = sizeL s.specArgs + 3 := by
  rw [Sent.ident_eq]; simp; omega

theorem Sent.size_le_spec (s : Sent) : s.size ≤ sizeL s.specArgs := by
  induction s with
  | atom i s => simp [Sent.size, Sent.specArgs]
  | pred p ps => simp [Sent.size, Sent.specArgs]; omega
  | quant q vi vs b ih =>
    have := Sent.ident_size b
    show b.size + 1 ≤ sizeL [Arg.str q.name, Arg.tuple [.int vi, .int vs], b.ident]
    simp only [sizeL_cons, size_str, size_tuple, size_int, sizeL_nil, this]
    omega
  | op1 o a ih =>
    have := Sent.ident_size a
    show a.size + 1 ≤ sizeL [Arg.str o.name, Arg.tuple [a.ident]]
    simp only [sizeL_cons, size_str, size_tuple, sizeL_nil, this]
    omega
  | op2 o a b iha ihb =>
    have h1 := Sent.ident_size a
    have h2 := Sent.ident_size b
    show a.size + b.size + 1 ≤ sizeL [Arg.str o.name, Arg.tuple [a.ident, b.ident]]
    simp only [sizeL_cons, size_str, size_tuple, sizeL_nil, h1, h2]
    omega

theorem itemSize_le_spec (x : Item) : itemSize x ≤ sizeL (specArgs x) := by
  cases x with
  | pred p => simp [itemSize, specArgs, Pred.specArgs]
  | param p => cases p <;> simp [itemSize, specArgs, Param.specArgs]
  | quant q => simp [itemSize, specArgs]
  | op o => simp [itemSize, specArgs]
  | sent s => exact Sent.size_le_spec s

/-- `type(x)(*x.spec)` returns `x` -/
theorem spec_roundtrip_gen (fx : Fixes) (hs : fx.sysPred = true) (x : Item) (hv : x.Valid = true) :
    construct fx (targetOf x) (specArgs x) = .ok x := by
  apply item_spec_rt fx hs x hv
  have := itemSize_le_spec x
  simp only [fuelFor]
  show _ ≤ 2 * sizeL (specArgs x) + 4
  omega

/-- `LexicalAbc(x.ident)` returns `x` -/
theorem ident_roundtrip_gen (fx : Fixes) (hs : fx.sysPred = true) (x : Item) (hv : x.Valid = true) :
    fromIdent fx (identArg x) = .ok x := by
  have hf : fuelFor [identArg x] = (2 * sizeL (specArgs x) + 9) + 1 := by
    show 2 * sizeL [identArg x] + 4 = _
    simp [identArg]; omega
  rw [fromIdent, build, hf, fromIdent_eq]
  apply item_spec_rt fx hs x hv
  have := itemSize_le_spec x
  omega

end Ptx
