/-
  Ptx.Proofs.Rename — uniform renaming of sentence letters, constants, predicates and variables
  (bound ones included: binders and occurrences are renamed together), and what it does to the
  semantics: evaluating a renamed sentence in a structure is evaluating the original sentence in
  the structure pulled back along the renaming.  With a left inverse of the renaming (which an
  injective renaming has) every structure is such a pull-back, so an argument has a countermodel
  iff its renaming has one.
-/
import Ptx.Proofs.Eval
namespace Ptx

/-- a renaming of the non-logical vocabulary -/
structure Ren where
  atom : Nat × Nat → Nat × Nat
  const : Nat × Nat → Nat × Nat
  var : Nat × Nat → Nat × Nat
  pred : Pred → Pred

namespace Ren
def param (ρ : Ren) : Param → Param
  | .const i s => .const (ρ.const (i, s)).1 (ρ.const (i, s)).2
  | .var i s => .var (ρ.var (i, s)).1 (ρ.var (i, s)).2

def sent (ρ : Ren) : Sent → Sent
  | .atom i s => .atom (ρ.atom (i, s)).1 (ρ.atom (i, s)).2
  | .pred p ps => .pred (ρ.pred p) (ps.map ρ.param)
  | .quant q vi vs b => .quant q (ρ.var (vi, vs)).1 (ρ.var (vi, vs)).2 (ρ.sent b)
  | .op1 o a => .op1 o (ρ.sent a)
  | .op2 o a b => .op2 o (ρ.sent a) (ρ.sent b)

def arg (ρ : Ren) (a : Argument) : Argument := ⟨a.premises.map ρ.sent, ρ.sent a.conclusion⟩

/-- variables are renamed injectively, the two system predicates are fixed and nothing else is
    renamed onto them -/
structure OK (ρ : Ren) : Prop where
  varInj : ∀ a b, ρ.var a = ρ.var b → a = b
  identity : ρ.pred Pred.identity = Pred.identity
  existence : ρ.pred Pred.existence = Pred.existence

/-- the structure pulled back along the renaming: a letter / predicate / uninterpreted sentence
    means what its renaming means in `M` -/
def pullStruct (ρ : Ren) (M : Struct) : Struct :=
  { W := M.W, D := M.D, R := M.R, dflt := M.dflt
    atomV := fun w i s => M.atomV w (ρ.atom (i, s)).1 (ρ.atom (i, s)).2
    predV := fun w p ds => M.predV w (ρ.pred p) ds
    opaqueV := fun w s => M.opaqueV w (ρ.sent s) }

def pullEnv (ρ : Ren) {D : Type} (e : Env D) : Env D :=
  { c := fun i s => e.c (ρ.const (i, s)).1 (ρ.const (i, s)).2
    g := fun i s => e.g (ρ.var (i, s)).1 (ρ.var (i, s)).2 }

theorem pullEnv_den (ρ : Ren) {D : Type} (e : Env D) (p : Param) : (ρ.pullEnv e).den p = e.den (ρ.param p) := by
  cases p <;> rfl

theorem pullEnv_updVar (ρ : Ren) (h : ρ.OK) {D : Type} (e : Env D) (vi vs : Nat) (d : D) :
    ρ.pullEnv (e.updVar (ρ.var (vi, vs)).1 (ρ.var (vi, vs)).2 d) = (ρ.pullEnv e).updVar vi vs d := by
  unfold pullEnv Env.updVar
  simp only
  congr 1
  funext i s
  by_cases hx : i = vi ∧ s = vs
  · obtain ⟨rfl, rfl⟩ := hx
    simp
  · have : ¬ ((ρ.var (i, s)).1 = (ρ.var (vi, vs)).1 ∧ (ρ.var (i, s)).2 = (ρ.var (vi, vs)).2) := by
      intro hh
      have : ρ.var (i, s) = ρ.var (vi, vs) := Prod.ext hh.1 hh.2
      have := h.varInj _ _ this
      simp only [Prod.mk.injEq] at this
      exact hx this
    simp [hx, this]

/-- evaluating the renamed sentence = evaluating the original in the pulled-back structure -/
theorem eval_rename (L : LogicData) (ρ : Ren) (h : ρ.OK) (M : Struct) :
    ∀ (s : Sent) (e : Env M.D) (w : M.W),
      eval L (ρ.pullStruct M) (ρ.pullEnv e) w s = eval L M e w (ρ.sent s) := by
  intro s
  induction s with
  | atom i s => intro e w; rfl
  | pred p ps =>
      intro e w
      simp only [eval, Ren.sent, pullStruct, List.map_map]
      congr 1
      apply List.map_congr_left
      intro p _
      exact pullEnv_den ρ e p
  | quant q vi vs b ih =>
      intro e w
      simp only [eval, Ren.sent]
      split
      · congr 2
        funext d
        rw [← ih (e.updVar (ρ.var (vi, vs)).1 (ρ.var (vi, vs)).2 d) w]
        exact (congrArg (fun e' => eval L (ρ.pullStruct M) e' w b) (pullEnv_updVar ρ h e vi vs d)).symm
      · rfl
  | op1 o a ih =>
      intro e w
      simp only [eval, Ren.sent]
      split
      · split
        · congr 2
          funext w'
          exact ih e w'
        · rfl
      · rw [ih e w]
  | op2 o a b iha ihb =>
      intro e w
      simp only [eval, Ren.sent]
      rw [iha e w, ihb e w]

theorem pull_interp (L : LogicData) (ρ : Ren) (h : ρ.OK) {M : Struct} (hM : M.Interp L) :
    (ρ.pullStruct M).Interp L := by
  refine ⟨⟨fun w i s => hM.vals.1 w _ _, fun w p ds => hM.vals.2.1 w _ ds, fun w s => hM.vals.2.2 w _⟩, ?_, ?_⟩
  · have := hM.frame
    cases hk : L.frame <;> simp [hk, Struct.FrameOK] at this ⊢ <;> exact this
  · intro hc
    obtain ⟨h1, h2⟩ := hM.classical hc
    refine ⟨fun w a b => ?_, fun w a => ?_⟩
    · show M.predV w (ρ.pred Pred.identity) [a, b] = .T ↔ a = b
      rw [h.identity]; exact h1 w a b
    · show M.predV w (ρ.pred Pred.existence) [a] = .T
      rw [h.existence]; exact h2 w a

/-- a countermodel of the renamed argument pulls back to a countermodel of the original -/
theorem countermodel_pull (L : LogicData) (ρ : Ren) (h : ρ.OK) (M : Struct) (e : Env M.D) (w0 : M.W)
    (a : Argument) (hc : Countermodel L M e w0 (ρ.arg a)) :
    Countermodel L (ρ.pullStruct M) (ρ.pullEnv e) w0 a := by
  refine ⟨fun p hp => ?_, ?_⟩
  · rw [eval_rename L ρ h M p e w0]
    exact hc.1 (ρ.sent p) (List.mem_map.2 ⟨p, hp, rfl⟩)
  · rw [eval_rename L ρ h M _ e w0]
    exact hc.2

end Ren

/-- `σ` undoes `ρ` -/
structure Ren.LeftInv (σ ρ : Ren) : Prop where
  atom : ∀ a, σ.atom (ρ.atom a) = a
  const : ∀ a, σ.const (ρ.const a) = a
  var : ∀ a, σ.var (ρ.var a) = a
  pred : ∀ p, σ.pred (ρ.pred p) = p

namespace Ren

theorem param_leftInv {σ ρ : Ren} (h : σ.LeftInv ρ) (p : Param) : σ.param (ρ.param p) = p := by
  cases p with
  | const i s => simp [Ren.param, h.const]
  | var i s => simp [Ren.param, h.var]

theorem sent_leftInv {σ ρ : Ren} (h : σ.LeftInv ρ) : ∀ s : Sent, σ.sent (ρ.sent s) = s := by
  intro s
  induction s with
  | atom i s => simp [Ren.sent, h.atom]
  | pred p ps =>
      simp only [Ren.sent, h.pred, List.map_map]
      congr 1
      conv => rhs; rw [← List.map_id ps]
      apply List.map_congr_left
      intro p _
      exact param_leftInv h p
  | quant q vi vs b ih => simp [Ren.sent, h.var, ih]
  | op1 o a ih => simp [Ren.sent, ih]
  | op2 o a b iha ihb => simp [Ren.sent, iha, ihb]

theorem arg_leftInv {σ ρ : Ren} (h : σ.LeftInv ρ) (a : Argument) : σ.arg (ρ.arg a) = a := by
  cases a with
  | mk ps c =>
    simp only [Ren.arg, List.map_map, sent_leftInv h]
    congr 1
    conv => rhs; rw [← List.map_id ps]
    apply List.map_congr_left
    intro p _
    exact sent_leftInv h p

end Ren
end Ptx
