/- small list utilities (core only) -/
namespace Ptx

/-- all sublists (order preserving) -/
def sublists {α} : List α → List (List α)
  | [] => [[]]
  | x :: xs => let r := sublists xs; r ++ r.map (x :: ·)

end Ptx

namespace Ptx

/-- `mapM` for `Option`, by structural recursion (easier to reason about than `List.mapM`) -/
def mapOpt {α β} (f : α → Option β) : List α → Option (List β)
  | [] => some []
  | x :: xs =>
    match f x, mapOpt f xs with
    | some y, some ys => some (y :: ys)
    | _, _ => none

theorem mapOpt_mem_fwd {α β} {f : α → Option β} : ∀ {xs : List α} {ys : List β},
    mapOpt f xs = some ys → ∀ x ∈ xs, ∃ y ∈ ys, f x = some y
  | [], ys, h, x, hx => by cases hx
  | a :: xs, ys, h, x, hx => by
      simp only [mapOpt] at h
      split at h
      · next y ys' hy hys =>
        cases h
        cases hx with
        | head => exact ⟨y, List.mem_cons_self, hy⟩
        | tail _ hx =>
          obtain ⟨y', hy', hf⟩ := mapOpt_mem_fwd hys x hx
          exact ⟨y', List.mem_cons_of_mem _ hy', hf⟩
      · cases h

theorem mapOpt_mem_bwd {α β} {f : α → Option β} : ∀ {xs : List α} {ys : List β},
    mapOpt f xs = some ys → ∀ y ∈ ys, ∃ x ∈ xs, f x = some y
  | [], ys, h, y, hy => by simp [mapOpt] at h; subst h; cases hy
  | a :: xs, ys, h, y, hy => by
      simp only [mapOpt] at h
      split at h
      · next y0 ys' hy0 hys =>
        cases h
        cases hy with
        | head => exact ⟨a, List.mem_cons_self, hy0⟩
        | tail _ hy =>
          obtain ⟨x, hx, hf⟩ := mapOpt_mem_bwd hys y hy
          exact ⟨x, List.mem_cons_of_mem _ hx, hf⟩
      · cases h

end Ptx
