/- small list utilities (core only) -/
namespace Ptx

/-- all sublists (order preserving) -/
def sublists {α} : List α → List (List α)
  | [] => [[]]
  | x :: xs => let r := sublists xs; r ++ r.map (x :: ·)

end Ptx
