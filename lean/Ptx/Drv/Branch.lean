/- driver handler for component Branch: requests whose first token belongs to it -/
import Ptx.Wire
namespace Ptx.Drv.Branch

/-- `none` = not my request -/
def handle (ts : List String) : Option String :=
  match ts with
  | _ => none

end Ptx.Drv.Branch
