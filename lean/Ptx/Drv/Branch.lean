/- driver handler for component Branch (C06): requests whose first token is `branch`

   branch <op> ; <op> ; …          (the forest starts with one fresh Branch())
     op = N                          Branch()
        | A <b> <id> <node>          branches[b].append(node object #id)      node: see Ptx.Node.parse
        | C <b>                      branches.append(branches[b].copy())
        | T <b> <id>                 branches[b].tick(node object #id)
   answer: one group per op, joined by " ; ":
     <out> : <branch> | <branch> | …
     out    = ok | err:IllegalStateError | err:DuplicateValueError | err:nobranch
     branch = <new_constant i.s> <new_world> <constants i.s,… sorted> <worlds sorted> <len> <#ticked> <closed 0|1>
-/
import Ptx.Wire
import Ptx.Tab.Branch
namespace Ptx.Drv.Branch
open Ptx Ptx.Tab

def insertSorted {α} (lt : α → α → Bool) (x : α) : List α → List α
  | [] => [x]
  | y :: ys => if lt x y then x :: y :: ys else y :: insertSorted lt x ys

def sortBy {α} (lt : α → α → Bool) (xs : List α) : List α := xs.foldr (insertSorted lt) []

def showConst (c : Const) : String := s!"{c.index}.{c.sub}"

def listOr (xs : List String) : String := if xs.isEmpty then "-" else ",".intercalate xs

def showBranch (b : BranchState) : String :=
  " ".intercalate [showConst b.newConstant, toString b.newWorld,
    listOr ((sortBy (fun a c => decide (a < c)) b.consts).map showConst),
    listOr ((sortBy (fun a c => decide (a < c)) b.worlds).map toString),
    toString b.entries.length, toString b.ticked.length, if b.closed then "1" else "0"]

def showOut : OpOut → String
  | .ok => "ok"
  | .err .illegalState => "err:IllegalStateError"
  | .err .duplicate => "err:DuplicateValueError"
  | .noBranch => "err:nobranch"

def parseOp : List String → Option BranchOp
  | ["N"] => some .new
  | "A" :: b :: id :: r => do
    let (n, rest) ← Node.parse r
    if rest.isEmpty then some (.append (← b.toNat?) (← id.toNat?) n) else none
  | ["C", b] => b.toNat?.map .copy
  | ["T", b, id] => do some (.tick (← b.toNat?) (← id.toNat?))
  | _ => none

def runShow (f : Forest) : List BranchOp → List String
  | [] => []
  | op :: ops =>
    let r := execOp f op
    (showOut r.2 ++ " : " ++ " | ".intercalate (r.1.map showBranch)) :: runShow r.1 ops

/-- `none` = not my request -/
def handle (ts : List String) : Option String :=
  match ts with
  | "branch" :: r =>
    some <| match (Wire.splitAt ";" r).mapM parseOp with
      | some ops => " ; ".intercalate (runShow [BranchState.empty] ops)
      | none => "err:wire"
  | _ => none

end Ptx.Drv.Branch
