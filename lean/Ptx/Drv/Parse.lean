/-
  driver handler for component Parse (C12/C13): parsers and writers.

  requests (one line = one complete case; characters travel as decimal code points):

    pp   <spec> <store> <cps>                 one parse on a fresh parser
    pseq <spec> <store> <cps> ; <cps> ; …     consecutive parses on ONE parser (store threads)
         spec  = polish|standard[:noauto][:nodrop][:raw][:fuel=N][:lim=N]
                 raw = the code WITHOUT tools/fix_C13_1.diff (no entry guard)
         store = - | [F:]i.s.a,i.s.a,…        (F: = a frozen store)
         cps   = - | 78,97,49
      answer per parse: ok <wire sentence> store=<store> | err:ParseError store=… | crash:<Kind> store=…
    wp   <notation>/<format>/<dialect>[/dpB.iiB.miN] <wire sentence>     → ok <cps>
    argstr <wire sentence> | <wire sentence> | …   (conclusion first)     → ok <cps>
    fromargstr <spec> <cps>                    → ok <conclusion> | <premise> | … / err:ParseError / crash:<Kind>
-/
import Ptx.Wire
import Ptx.Lang.Write
import Ptx.Lang.ParsePolish
import Ptx.Lang.ParseStandard
import Ptx.Gen.Symbols
namespace Ptx.Drv.Parse
open Ptx Ptx.Wire Ptx.Sym Ptx.Parse Ptx.Write

def showCps (l : List Chr) : String :=
  if l.isEmpty then "-" else ",".intercalate (l.map toString)

def parseCps (s : String) : Option (List Chr) :=
  if s = "-" then some [] else (s.splitOn ",").mapM (·.toNat?)

def showStore (st : Store) : String :=
  let body := ",".intercalate (st.preds.map fun p => s!"{p.index}.{p.sub}.{p.arity}")
  (if st.frozen then "F:" else "") ++ (if st.preds.isEmpty then "-" else body)

def parsePredSpec (s : String) : Option Pred :=
  match s.splitOn "." with
  | [i, u, a] => do some ⟨← i.toInt?, ← u.toNat?, ← a.toNat?⟩
  | _ => none

def parseStore (s : String) : Option Store :=
  let (frozen, body) := if s.startsWith "F:" then (true, (s.drop 2).toString) else (false, s)
  if body = "-" then some ⟨[], frozen⟩
  else do some ⟨← (body.splitOn ",").mapM parsePredSpec, frozen⟩

structure Spec where
  notn : String
  cfg : Cfg
  fuel : Nat

def findParseTable (notn : String) : Option ParseTable :=
  Gen.Symbols.parseTables.find? fun t => t.notn == notn && t.dialect == "default"

def parseSpec (s : String) : Option Spec :=
  match s.splitOn ":" with
  | [] => none
  | notn :: opts => do
    let t ← findParseTable notn
    let base : Cfg := { table := t, maxi := Gen.Symbols.maxi }
    let step (acc : Option Spec) (o : String) : Option Spec := do
      let sp ← acc
      if o = "noauto" then some { sp with cfg := { sp.cfg with autoPreds := false } }
      else if o = "nodrop" then some { sp with cfg := { sp.cfg with dropParens := false } }
      else if o = "raw" then some { sp with cfg := { sp.cfg with guardEntry := false } }
      else if o.startsWith "fuel=" then do some { sp with fuel := ← (o.drop 5).toString.toNat? }
      else if o.startsWith "lim=" then do
        let n ← (o.drop 4).toString.toNat?
        some { sp with cfg := { sp.cfg with intMaxDigits := n } }
      else none
    opts.foldl step (some ⟨notn, base, 1000000000⟩)

def runParse (sp : Spec) (store : Store) (inp : List Chr) : Outcome :=
  if sp.notn = "standard" then parseStandard sp.cfg sp.fuel store inp
  else parsePolish sp.cfg sp.fuel store inp

def showOutcome : Outcome → String × Store
  | .ok s st => (s!"ok {showSent s} store={showStore st}", st)
  | .perr st => (s!"err:ParseError store={showStore st}", st)
  | .crash k st => (s!"crash:{k.name} store={showStore st}", st)

def findStringTable (notn fmt dialect : String) : Option StringTable :=
  Gen.Symbols.stringTables.find? fun t => t.notn == notn && t.format == fmt && t.dialect == dialect

def parseStdOpts (s : String) : Option StdOpts :=
  match s.splitOn "." with
  | [dp, ii, mi] =>
    if dp.startsWith "dp" && ii.startsWith "ii" && mi.startsWith "mi" then do
      some ⟨(dp.drop 2).toString == "1", (ii.drop 2).toString == "1", ← (mi.drop 2).toString.toNat?⟩
    else none
  | _ => none

def handleWp (w : String) (r : Toks) : String :=
  match parseSent r with
  | some (s, []) =>
    match w.splitOn "/" with
    | notn :: fmt :: dialect :: rest =>
      match findStringTable notn fmt dialect with
      | none => "err:no-table"
      | some t =>
        if notn = "standard" then
          match (match rest with | [o] => parseStdOpts o | [] => some {} | _ => none) with
          | some o => "ok " ++ showCps (writeStandard t o s)
          | none => "err:wire"
        else "ok " ++ showCps (writePolish t s)
    | _ => "err:wire"
  | _ => "err:wire"

/-- `none` = not my request -/
def handle (ts : List String) : Option String :=
  match ts with
  | ["pp", spec, store, cps] =>
    some <| match parseSpec spec, parseStore store, parseCps cps with
      | some sp, some st, some inp => (showOutcome (runParse sp st inp)).1
      | _, _, _ => "err:wire"
  | "pseq" :: spec :: store :: rest =>
    some <| match parseSpec spec, parseStore store, (splitAt ";" rest).mapM (fun
        | [c] => parseCps c
        | _ => none) with
      | some sp, some st, some inps =>
        let outs := (parseSeq (runParse sp) st inps).map fun o => (showOutcome o).1
        " ; ".intercalate outs
      | _, _, _ => "err:wire"
  | "wp" :: w :: r => some (handleWp w r)
  | "argstr" :: r =>
    some <| match (splitAt "|" r).mapM (fun ts => match parseSent ts with | some (s, []) => some s | _ => none) with
      | some (c :: ps) => "ok " ++ showCps (argstr Gen.Symbols.argstrWriter ⟨ps, c⟩)
      | _ => "err:wire"
  | ["fromargstr", spec, cps] =>
    some <| match parseSpec spec, parseCps cps with
      | some sp, some inp =>
        match fromArgstr { sp.cfg with table := Gen.Symbols.argstrParser } sp.fuel inp with
        | .ok a _ => "ok " ++ " | ".intercalate ((a.conclusion :: a.premises).map showSent)
        | .perr => "err:ParseError"
        | .crash k => s!"crash:{k.name}"
      | _, _ => "err:wire"
  | _ => none

end Ptx.Drv.Parse
