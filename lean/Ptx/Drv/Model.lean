/-
  driver handler for component Model (C08 / C20): the library's model builder, evaluator, export.

    model <LOGIC> <mode> ## <seg> ## … ## end ## <query> ## …
    readbranch <LOGIC> <mode> ## <seg> ## … ## end ## <query> ## …
    fold <LOGIC> q|m E|U|M|L <value>*

  seg (model):       hc <param>*                      observed iteration order of model.constants
                     hp <w> (<idx> <sub> <arity>)*    observed order of frames[w].predicates
                     sa <i> <s> <V> <w> | sp|so|sl|sv <sent> <V> <w> | ra <w1> <w2> | fin
  seg (readbranch):  hc / hp as above, then the branch's nodes (see Ptx.Node.parse)
  query:             data | racc | flags | ev <w> <sent> | cm <conclusion> ;; <premise> ;; …

  answer: <outcome>,<outcome>,… | <answer of query 1> | …
    outcome = ok | IllegalStateError | ModelValueError | DenotationError | KeyError | ValueError | NotImplementedError
    data    = flat W= A= F0{at=… op=… pr=…}   |   modal W=0,1 A=0-1 F0{…} F1{…}
    racc    = K=<keys sorted> R=<pairs sorted>
    flags   = stable=<bool> specstable=<bool> same=<bool>      (about the enforce() of the successful finish)
    ev      = <V> | <exception>
    cm      = True | False | <exception>          (is_countermodel_to)
  fold answer: prog=<V> graph=<V|none>
-/
import Ptx.Wire
import Ptx.Sem.LibModel
import Ptx.Gen.All
namespace Ptx.Drv.Model
open Ptx Ptx.Wire Ptx.LibModel

def showOut : Option Err → String
  | none => "ok"
  | some e => e.toStr

def showRes : Res V → String
  | .ok v => v.toStr
  | .error e => e.toStr

def parseTriples : Toks → Option (List Pred)
  | [] => some []
  | i :: s :: a :: r => do
      let ps ← parseTriples r
      some (⟨← intTok i, ← natTok s, ← natTok a⟩ :: ps)
  | _ => none

def parseParamsAll : Toks → Option (List Param)
  | [] => some []
  | k :: i :: s :: r => do
      let (p, _) ← parseParam [k, i, s]
      let ps ← parseParamsAll r
      some (p :: ps)
  | _ => none

inductive Seg where
  | hc (cs : List (Nat × Nat))
  | hp (w : Nat) (ps : List Pred)
  | op (o : MOp)
  | node (n : Node)

/-- the last two tokens are value and world; the rest is the sentence -/
def parseSVW (ts : Toks) : Option (Sent × V × Nat) := do
  if ts.length < 3 then none else
  let st := ts.take (ts.length - 2)
  match parseSent st, ts.drop (ts.length - 2) with
  | some (s, []), [v, w] => do some (s, ← V.ofStr v, ← natTok w)
  | _, _ => none

def parseSeg (ts : Toks) : Option Seg :=
  match ts with
  | "hc" :: r => do
      let ps ← parseParamsAll r
      some (.hc (constsOfTup ps))
  | "hp" :: w :: r => do some (.hp (← natTok w) (← parseTriples r))
  | ["sa", i, s, v, w] => do some (.op (.setAtomic (← natTok i) (← natTok s) (← V.ofStr v) (← natTok w)))
  | "sp" :: r => do
      let (s, v, w) ← parseSVW r
      match s with
      | .pred p ps => some (.op (.setPred p ps v w))
      | _ => none
  | "so" :: r => do let (s, v, w) ← parseSVW r; some (.op (.setOpaque s v w))
  | "sl" :: r => do let (s, v, w) ← parseSVW r; some (.op (.setLiteral s v w))
  | "sv" :: r => do let (s, v, w) ← parseSVW r; some (.op (.setValue s v w))
  | ["ra", a, b] => do some (.op (.rAdd (← natTok a) (← natTok b)))
  | ["fin"] => some (.op .finish)
  | _ =>
    match Node.parse ts with
    | some (n, []) => some (.node n)
    | _ => none

def hintsOf (segs : List Seg) : Hints :=
  segs.foldl (fun h s => match s with
    | .hc cs => { h with consts := cs }
    | .hp w ps => { h with preds := h.preds ++ [(w, ps)] }
    | _ => h) {}

def sortNat (xs : List Nat) : List Nat := sortByKey natKey xs
def pairKey (p : Nat × Nat) : List Int := [(p.1 : Int), (p.2 : Int)]

def showParamD : Param → String
  | .const i s => s!"c.{i}.{s}"
  | .var i s => s!"v.{i}.{s}"
def showTup (t : Tup) : String := ",".intercalate (t.map showParamD)
def showTups (ts : List Tup) : String := "[" ++ ";".intercalate (ts.map showTup) ++ "]"

def showFrameData (d : FrameData) : String :=
  "at=" ++ ",".intercalate (d.atomics.map fun (a, v) => s!"{a.1}.{a.2}:{v.toStr}") ++
  " op=" ++ ",".intercalate (d.opaques.map fun (s, v) => "(" ++ showSent s ++ "):" ++ v.toStr) ++
  " pr=" ++ " ".intercalate (d.preds.map fun pd =>
      s!"{pd.pred.index}.{pd.pred.sub}.{pd.pred.arity}+" ++ showTups pd.ext ++ "-" ++
        (match pd.anti with | none => "none" | some a => showTups a))

def showData (d : Data) : String :=
  if !d.modal then
    "flat W= A= " ++ String.join (d.frames.map fun (w, f) => s!"F{w}" ++ "{" ++ showFrameData f ++ "}")
  else
    "modal W=" ++ ",".intercalate (d.worlds.map toString) ++
    " A=" ++ ",".intercalate (d.access.map fun (a, b) => s!"{a}-{b}") ++
    String.join (d.frames.map fun (w, f) => s!" F{w}" ++ "{" ++ showFrameData f ++ "}")

def showRacc (R : Acc) : String :=
  "K=" ++ ",".intercalate ((sortNat R.keys).map toString) ++
  " R=" ++ ",".intercalate ((sortByKey pairKey R.pairs).map fun (a, b) => s!"{a}-{b}")

def subset {α} [DecidableEq α] (xs ys : List α) : Bool := xs.all (ys.contains ·)
def sameSet {α} [DecidableEq α] (xs ys : List α) : Bool := subset xs ys && subset ys xs

/-- what `SerialAccess.enforce` is meant to produce, recomputed naively -/
def serialSpecB (R R' : Acc) : Bool :=
  let dead := R.keys.filter fun w => (R.succ w).isEmpty
  if dead.isEmpty then R' == R else
    let n := R.keys.foldl max 0 + 1
    sameSet R'.pairs (R.pairs ++ dead.map (fun w => (w, n)) ++ [(n, n)]) && sameSet R'.keys (R.keys ++ [n])
      && R'.keys.all fun w => !(R'.succ w).isEmpty

/-- flags of the enforce() run by a successful finish from state `m0` -/
def flagsOf (L : LogicData) (m0 : Model) : String :=
  match completeFrames L m0 with
  | .error _ => "stable=false specstable=false same=false"
  | .ok m1 =>
    let r := Acc.enforce L.frame m1.R
    let (spec, same) : Bool × Bool := match L.frame with
      | .none | .K => (true, r.1 == m1.R)
      | .D => (true, serialSpecB m1.R r.1)
      | k => (Frames.stable k m1.R.keys m1.R.pairs,
              sameSet r.1.pairs (Frames.closure k m1.R.keys m1.R.pairs) && sameSet r.1.keys m1.R.keys)
    s!"stable={r.2} specstable={spec} same={same}"

structure St where
  m : Model := Model.init
  outs : List (Option Err) := []
  pre : Option Model := none       -- state before the first successful finish

def answer (L : LogicData) (st : St) (q : Toks) : String :=
  match q with
  | ["data"] => showData (getData L st.m)
  | ["racc"] => showRacc st.m.R
  | ["flags"] => (match st.pre with | some m0 => flagsOf L m0 | none => "none")
  | "ev" :: w :: r =>
    (match natTok w, parseSent r with
     | some w, some (s, []) => showRes (valueOf L st.m s w)
     | _, _ => "err:wire")
  | "cm" :: r =>
    -- cm <conclusion> ;; <premise> ;; …      (is_countermodel_to)
    (match ((splitAt ";;" r).filter (· ≠ [])).mapM (fun g => match parseSent g with | some (s, []) => some s | _ => none) with
     | some (c :: ps) =>
       (match isCountermodelTo L st.m ⟨ps, c⟩ with
        | .ok b => if b then "True" else "False"
        | .error e => e.toStr)
     | _ => "err:wire")
  | _ => "err:wire"

def finalise (L : LogicData) (st : St) (queries : List Toks) : String :=
  " | ".intercalate (",".intercalate (st.outs.map showOut) :: queries.map (answer L st))

def runModel (L : LogicData) (segs : List Seg) : St :=
  let h := hintsOf segs
  segs.foldl (fun st s => match s with
    | .op o =>
      let r := step L h st.m o
      let pre := if o == MOp.finish && r.2.isNone && st.pre.isNone then some st.m else st.pre
      { m := r.1, outs := st.outs ++ [r.2], pre := pre }
    | _ => st) {}

def runBranch (L : LogicData) (segs : List Seg) : St :=
  let h := hintsOf segs
  let nodes := segs.filterMap fun | .node n => some n | _ => none
  let m0 := Model.init
  match readNodes L nodes m0 nodes with
  | (m, some e) => { m := m, outs := [some e] }
  | (m, none) =>
    let r := finish L h m
    { m := r.1, outs := [r.2], pre := if r.2.isNone then some m else none }

def splitEnd (groups : List Toks) : List Toks × List Toks :=
  let segs := groups.takeWhile (· ≠ ["end"])
  (segs, (groups.drop (segs.length + 1)))

def foldReq (L : LogicData) (kind tok : String) (vs : Toks) : String :=
  match vs.mapM V.ofStr with
  | none => "err:wire"
  | some xs =>
    match kind, tok with
    | "q", "E" | "q", "U" =>
      let q : Quant := if tok == "E" then .ex else .univ
      s!"prog={(foldQV L q xs).toStr} graph=" ++
        (match L.T.qf.lookup (q, L.T.canon xs) with | some v => v.toStr | none => "none")
    | "m", "M" | "m", "L" =>
      let o : Op1 := if tok == "M" then .poss else .nec
      s!"prog={(foldMV L o xs).toStr} graph=" ++
        (match L.T.mf.lookup (o, L.T.canon xs) with | some v => v.toStr | none => "none")
    | _, _ => "err:wire"

/-- `none` = not my request -/
def handle (ts : List String) : Option String :=
  match ts with
  | "model" :: lg :: _mode :: "##" :: rest =>
    some <| match Gen.byName lg with
    | none => "err:logic"
    | some L =>
      let (segs, queries) := splitEnd ((splitAt "##" rest).filter (· ≠ []))
      match segs.mapM parseSeg with
      | none => "err:wire"
      | some segs => finalise L (runModel L segs) queries
  | "readbranch" :: lg :: _mode :: "##" :: rest =>
    some <| match Gen.byName lg with
    | none => "err:logic"
    | some L =>
      let (segs, queries) := splitEnd ((splitAt "##" rest).filter (· ≠ []))
      match segs.mapM parseSeg with
      | none => "err:wire"
      | some segs => finalise L (runBranch L segs) queries
  | "fold" :: lg :: kind :: tok :: vs =>
    some <| match Gen.byName lg with
    | none => "err:logic"
    | some L => foldReq L kind tok vs
  | _ => none

end Ptx.Drv.Model
