/-
  driver handler: the search model (Ptx/Search) run along the event trace of a real run.
    search <LOGIC> ## <trunk nodes ; …> ## <event> ## <event> …
  events:  S <Rule> <bi>            `rule.target(branch)` was called (its releases / gc happen)
           A <Rule> <step…>         the rule applied this target (step syntax of the `replay` request)
    <Rule> = closure | Reflexive | Transitive | Symmetric | Serial | IdentityIndiscernability | the class name of a table rule
  answer:  ok <n> :: <T0> ## <T1> ## …      T0 = target sets after the trunk, Ti after the i-th A event:
               <bi>/<Rule>=<step>,<step>,…  items separated by ' ; ' — per open branch and rule with a non-empty
               target set, steps sorted; closure targets are shown as `X` (existence only); `!inv:<clause>` is appended
               to a state on which the decidable invariant check fails
           reject <i> <reason> :: <states so far>       reason: illegal-step | not-a-target | unknown-rule
    searchside <LOGIC>        the decidable side conditions of the search-layer theorems (Ptx/Search/Side.lean) on L.sem:  ok | bad <condition …>
-/
import Ptx.Wire
import Ptx.Search.Targets
import Ptx.Search.Inv
import Ptx.Search.InvQ
import Ptx.Search.Side
import Ptx.Drv.Tab
import Ptx.Gen.All
import Ptx.Sem.Sem
namespace Ptx.Drv.Search
open Ptx Ptx.Wire Ptx.Search

def ruleIdOf (L : LogicData) (name : String) : Option RuleId :=
  if name == "closure" then some .closure else
  if name == "IdentityIndiscernability" then some .ident else
  match Drv.Tab.frameRuleOf name with
  | some fr => some (.frame fr)
  | none => (L.rules.find? fun kr => kr.2.name == name).map fun kr => .table kr.1

def ruleName (L : LogicData) : RuleId → String
  | .closure => "closure"
  | .ident => "IdentityIndiscernability"
  | .frame fr => fr.name
  | .table k => match L.rule? k with | some r => r.name | none => "?"

def showOpt (o : Option Nat) : String := match o with | some n => toString n | none => "-"

def showStep : Step → String
  | .rule b n c w => s!"R {b} {n} {match c with | some (i, s) => s!"{i}.{s}" | none => "-"} {showOpt w}"
  | .close _ _ _ => "X"
  | .closeIdent _ _ => "X"
  | .frame b r w1 w2 w3 => s!"F {b} {r.name} {w1} {w2} {w3}"
  | .ident b i p => s!"D {b} {i} {p}"
  | .quit b name tk => s!"Q {b} {name} {showOpt tk}"

def insertSorted (x : String) : List String → List String
  | [] => [x]
  | y :: ys => if x < y then x :: y :: ys else if x == y then y :: ys else y :: insertSorted x ys

def sortDedup (xs : List String) : List String := xs.foldl (fun acc x => insertSorted x acc) []

def showState (L : LogicData) (s : SState) : String :=
  let items := (List.range s.tab.length).flatMap fun bi =>
    (ruleIds L).filterMap fun r =>
      match sortDedup ((targets L s r bi).map showStep) with
      | [] => none
      | ts => some s!"{bi}/{ruleName L r}={",".intercalate ts}"
  let inv := match invBad L s ++ invBadQ L s with | [] => [] | m :: _ => ["!inv:" ++ m]
  " ; ".intercalate (items ++ inv)

inductive PEv where
  | search (r : String) (bi : Nat)
  | apply (r : String) (alts : List Step)

def parseEv (ts : Toks) : Option PEv :=
  match ts with
  | ["S", r, bi] => do some (.search r (← bi.toNat?))
  | "A" :: r :: rest => do some (.apply r (← Drv.Tab.parseStep rest))
  | _ => none

/-- is `st` one of the enabled targets of rule `r` (closure: existence) -/
def isTarget (L : LogicData) (s : SState) (r : RuleId) (st : Step) : Bool :=
  let ts := enabled L s r st.branch
  match r with
  | .closure => !ts.isEmpty
  | _ => (ts.map showStep).contains (showStep st)

def run (L : LogicData) (s0 : SState) (evs : List PEv) : String :=
  let rec go (s : SState) (i : Nat) (acc : List String) : List PEv → String
    | [] => s!"ok {i} :: " ++ " ## ".intercalate acc.reverse
    | .search rn bi :: rest =>
        match ruleIdOf L rn with
        | some r => go (s.search L r bi) i acc rest
        | none => go s i acc rest
    | .apply rn alts :: rest =>
        match ruleIdOf L rn with
        | none => s!"reject {i} unknown-rule :: " ++ " ## ".intercalate acc.reverse
        | some r =>
          match alts.findSome? (fun st => (stepEv L s (.apply r st)).map (fun s' => (st, s'))) with
          | some (st, s') =>
              if !isTarget L s r st then s!"reject {i} not-a-target :: " ++ " ## ".intercalate acc.reverse
              else go s' (i + 1) (showState L s' :: acc) rest
          | none => s!"reject {i} illegal-step :: " ++ " ## ".intercalate acc.reverse
  go s0 0 [showState L s0] evs

def handle (ts : List String) : Option String :=
  match ts with
  | ["searchside", lg] =>
      match Gen.byName lg with
      | none => some "err:unknown-logic"
      | some L => some (match searchSideBad L.sem with | [] => "ok" | ms => "bad " ++ " ".intercalate ms)
  | "search" :: lg :: "##" :: rest =>
      match Gen.byName lg with
      | none => some "err:unknown-logic"
      | some L =>
        match splitAt "##" rest with
        | trunkToks :: evToks =>
            match Drv.Tab.parseNodes trunkToks, evToks.mapM parseEv with
            | some nodes, some evs => some (run L (SState.init L nodes) evs)
            | _, _ => some "err:wire"
        | [] => some "err:wire"
  | _ => none

end Ptx.Drv.Search
