/-
  driver handler for component Tree (property C16): replay the history of a real run through the
  calculus model together with the event record `Book` (Ptx/Tab/Tree.lean), then build the tree.

    tree <LOGIC> ## <trunk nodes ; …> ## <step> ## <step> … [## P]

  steps as in the `replay` request of Ptx/Drv/Tab.lean; a final `P` says the run finished prematurely
  (only the result word of the statistics depends on it).

  answer:  ok <obs> @@ <stat> @@ <tree> @@ <stats>
    obs    one entry per boundary (after the trunk, after every step), joined by ` ;; `:
             <#branches> ! <indices in the open view> ! <len of every branch>
    stat   one entry per branch, joined by ` || `:
             <step added> <step closed|_> <parent|_> ! <pos:step of the nodes appended to this branch> ! <pos:step of its tick records>
    tree   distinct=<n> T{ depth left right width leaf closed open has_open has_closed step dnc snc closed_step branch | nodes ; … | kids }
    stats  <branches> <open> <closed> <steps> <distinct nodes> <result word>
  or:      reject <i> <reason> @@ <obs so far>
-/
import Ptx.Wire
import Ptx.Tab.Tree
import Ptx.Drv.Tab
import Ptx.Gen.All
namespace Ptx.Drv.Tree
open Ptx Ptx.Wire

def joinNat (xs : List Nat) : String := " ".intercalate (xs.map toString)

def showObs (bk : Book) : String :=
  s!"{bk.tab.length} ! {joinNat bk.opens} ! {joinNat bk.lengths}"

def optNat : Option Nat → String
  | none => "_"
  | some n => toString n

def b01 (b : Bool) : String := if b then "1" else "0"

def showStat (r : BRec) : String :=
  let pos := List.range r.objs.length
  let own := pos.filterMap (fun p => (r.addedAt p).map (fun s => s!"{p}:{s}"))
  let tks := pos.filterMap (fun p => (r.tickedAt p).map (fun s => s!"{p}:{s}"))
  s!"{r.stepAdded} {optNat r.stepClosed} {optNat r.parent} ! {" ".intercalate own} ! {" ".intercalate tks}"

partial def showTree : Tree → String
  | .mk i kids =>
    let head := " ".intercalate
      [toString i.depth, toString i.left, toString i.right, toString i.width, b01 i.leaf, b01 i.closed, b01 i.open_,
       b01 i.hasOpen, b01 i.hasClosed, optNat i.step, toString i.dnc, toString i.snc, optNat i.closedStep,
       if i.leaf then optNat i.branchId else "_"]
    let nodes := " ; ".intercalate (i.nodes.map (·.node.toWire))
    let ks := " ".intercalate (kids.map showTree)
    "T{ " ++ head ++ " | " ++ nodes ++ " | " ++ ks ++ " }"

def showErr : TreeErr → String
  | .indexError => "IndexError" | .keyError => "KeyError" | .typeError => "TypeError" | .fuel => "fuel"

def showStats (s : Stats) : String :=
  s!"{s.branches} {s.openBranches} {s.closedBranches} {s.steps} {optNat s.distinctNodes} {s.result}"

def finish (bk : Book) (obs : List String) (premature : Bool) : String :=
  let stat := " || ".intercalate (bk.recs.map showStat)
  let (tree?, treeS) : Option Tree × String :=
    match Tree.build bk with
    | .ok t => (some t, s!"distinct={optNat t.info.distinctNodes} " ++ showTree t)
    | .error e => (none, "treeerr " ++ showErr e)
  "ok " ++ " ;; ".intercalate obs.reverse ++ " @@ " ++ stat ++ " @@ " ++ treeS ++ " @@ " ++
    showStats (bk.stats (!premature) tree?)

def run (L : LogicData) (bk0 : Book) (steps : List (List Step)) (premature : Bool) : String :=
  let rec go (bk : Book) (i : Nat) (obs : List String) : List (List Step) → String
    | [] => finish bk obs premature
    | alts :: rest =>
        let outs := alts.map (bk.step L)
        match outs.findSome? (fun | .ok bk' => some bk' | _ => none) with
        | some bk' => go bk' (i + 1) (showObs bk' :: obs) rest
        | none =>
          let why := match outs.findSome? (fun | .raises w => some ("raises:" ++ w) | .broken => some "broken" | _ => none) with
            | some w => w
            | none => "illegal-step"
          s!"reject {i} {why} @@ " ++ " ;; ".intercalate obs.reverse
  go bk0 0 [showObs bk0] steps

/-- `none` = not my request -/
def handle (ts : List String) : Option String :=
  match ts with
  | "tree" :: lg :: "##" :: rest =>
      match Gen.byName lg with
      | none => some "err:unknown-logic"
      | some L =>
        match splitAt "##" rest with
        | trunkToks :: stepToks =>
            let premature := stepToks.getLast? == some ["P"]
            let stepToks := if premature then stepToks.dropLast else stepToks
            match Drv.Tab.parseNodes trunkToks, stepToks.mapM Drv.Tab.parseStep with
            | some nodes, some steps =>
                if nodes.any Node.isClosure then some "err:wire"
                else some (run L (Book.init nodes) steps premature)
            | _, _ => some "err:wire"
        | [] => some "err:wire"
  | _ => none

end Ptx.Drv.Tree
