/- driver handler for component Tree: requests whose first token belongs to it -/
import Ptx.Wire
namespace Ptx.Drv.Tree

/-- `none` = not my request -/
def handle (ts : List String) : Option String :=
  match ts with
  | _ => none

end Ptx.Drv.Tree
