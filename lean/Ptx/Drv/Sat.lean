/- driver handler for component Sat: requests whose first token belongs to it -/
import Ptx.Wire
namespace Ptx.Drv.Sat

/-- `none` = not my request -/
def handle (ts : List String) : Option String :=
  match ts with
  | _ => none

end Ptx.Drv.Sat
