/-
  driver handler: requests of the verdict-level properties (C02, C09, C10, C11).
    embeds <L'> <L>        does logic L (stronger) extend L' (weaker) at table level (documented tables)
                           answer: ok | bad <failing parts …>
    reflexive <L>          does every literal set containing both trunk constraints of one sentence close (C10)
                           answer: ok | bad
-/
import Ptx.Wire
import Ptx.Sem.Extends
import Ptx.Tab.Structural
import Ptx.Sem.Sem
import Ptx.Gen.All
namespace Ptx.Drv.Sat
open Ptx

/-- `none` = not my request -/
def handle (ts : List String) : Option String :=
  match ts with
  | ["embeds", l', l] =>
      match Gen.byName l', Gen.byName l with
      | some L', some L =>
          if L'.sem.embedsB L.sem then some "ok"
          else some ("bad " ++ " ".intercalate (L'.sem.embedsBad L.sem))
      | _, _ => some "err:unknown-logic"
  | ["reflexive", l] =>
      match Gen.byName l with
      | some L => some (if L.closesTrunkPairB then "ok" else "bad")
      | none => some "err:unknown-logic"
  | _ => none

end Ptx.Drv.Sat
