/-
  driver handler: requests of the verdict-level properties (C02, C09, C10, C11).
    embeds <L'> <L>        does logic L (stronger) extend L' (weaker) at table level (documented tables)
                           answer: ok | bad <failing parts …>
    reflexive <L>          does every literal set containing both trunk constraints of one sentence close (C10)
                           answer: ok | bad
    saturated <L> ## <node> ; <node> ; …     is this (open) branch saturated in the sense of Ptx/Tab/Saturated.lean
                           answer: ok [ground|fo] | quit | unsat <clause …>   (ground: the Hintikka theorem's hypothesis groundB holds) | <clause …> …   (first 6 clauses, ' | ' separated)
-/
import Ptx.Wire
import Ptx.Sem.Extends
import Ptx.Tab.Structural
import Ptx.Tab.Saturated
import Ptx.Sem.Complete
import Ptx.Drv.Tab
import Ptx.Sem.Sem
import Ptx.Gen.All
namespace Ptx.Drv.Sat
open Ptx

/-- `none` = not my request -/
def handle (ts : List String) : Option String :=
  match ts with
  | ["embeds", l', l] =>
      match Gen.byName l', Gen.byName l with
      | some L', some L =>
          if L'.sem.embedsB L.sem then some "ok"
          else some ("bad " ++ " ".intercalate (L'.sem.embedsBad L.sem))
      | _, _ => some "err:unknown-logic"
  | "saturated" :: l :: "##" :: rest =>
      match Gen.byName l, Drv.Tab.parseNodes rest with
      | some L, some nodes =>
          let b : Branch := { nodes := nodes }
          if b.hasQuit then some "quit" else
          match L.unsaturated b with
          | [] => some (if b.groundB L then "ok ground" else if b.foB L then "ok fo" else "ok")
          | ms => some ("unsat " ++ " | ".intercalate (ms.take 6))
      | none, _ => some "err:unknown-logic"
      | _, none => some "err:wire"
  | ["reflexive", l] =>
      match Gen.byName l with
      | some L => some (if L.closesTrunkPairB then "ok" else "bad")
      | none => some "err:unknown-logic"
  | _ => none

end Ptx.Drv.Sat
