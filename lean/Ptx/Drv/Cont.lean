/-
  driver handler for component Cont (property C18): requests

      qset <n> ; <op> ; <op> …          values 0..n-1 are the observed universe
      linqset <n> ; <op> ; …
      preds <pred> <pred> … ; <op> ; …   pred = index.sub.arity ; the observed universe

  Runs the whole operation sequence from the empty container on the Lean model and answers
  one record per operation, ` ; `-separated:

      <outcome>/<state>/<membership bits>/<index()>[/<get()>]

  `<state>` shows every redundant structure (seq|set|len, chain|table|len, seq|set|len|lookup),
  hash-based ones sorted as strings, so that drift would be visible.  Membership / index / get
  are computed by the model's own observers (`has`, `Mixin.index`, `Preds.get`), not read off
  the state.
-/
import Ptx.Wire
import Ptx.Cont.QSet
import Ptx.Cont.LinqSet
import Ptx.Cont.Predicates
namespace Ptx.Drv.Cont
open Ptx.Cont Ptx.Wire

def lst (xs : List String) : String := if xs.isEmpty then "-" else ",".intercalate xs

def ssort (xs : List String) : List String := xs.mergeSort fun a b => !(b < a)

/-- how values and references of one container kind are written -/
structure Codec (α ρ : Type) where
  pv : String → Option α
  sv : α → String
  pr : String → Option ρ

def optInt (s : String) : Option (Option Int) := if s = "_" then some none else (intTok s).map some

def parseSlice : Toks → Option (Slice × Toks)
  | a :: b :: c :: r => do some (⟨← optInt a, ← optInt b, ← optInt c⟩, r)
  | _ => none

def parseVals {α ρ : Type} (cd : Codec α ρ) : Toks → Option (List α)
  | k :: r => do
    let n ← natTok k
    if r.length ≠ n then none else r.mapM cd.pv
  | _ => none

def parseOp {α ρ : Type} (cd : Codec α ρ) : Toks → Option (Op α ρ)
  | ["append", v] => do some (.append (← cd.pv v))
  | ["add", v] => do some (.add (← cd.pv v))
  | ["insert", i, v] => do some (.insert (← intTok i) (← cd.pv v))
  | ["wedge", v, nb, rel] => do some (.wedge (← cd.pv v) (← cd.pv nb) (← intTok rel))
  | ["remove", r] => do some (.remove (← cd.pr r))
  | ["discard", v] => do some (.discard (← cd.pv v))
  | ["pop", i] => do some (.pop (← intTok i))
  | ["del", i] => do some (.delIdx (← intTok i))
  | ["set", i, v] => do some (.setIdx (← intTok i) (← cd.pv v))
  | "dels" :: r => do let (s, r) ← parseSlice r; if r.isEmpty then some (.delSlice s) else none
  | "sets" :: r => do let (s, r) ← parseSlice r; some (.setSlice s (← parseVals cd r))
  | "setsN" :: r => do let (s, r) ← parseSlice r; if r.isEmpty then some (.setSliceNonIter s) else none
  | ["sort", b] => do some (.sort ((← natTok b) ≠ 0))
  | ["reverse"] => some .reverse
  | ["clear"] => some .clear
  | ["copy"] => some .copy
  | "extend" :: r => do some (.extend (← parseVals cd r))
  | "update" :: r => do some (.update (← parseVals cd r))
  | "ior" :: r => do some (.ior (← parseVals cd r))
  | "iand" :: r => do some (.iand (← parseVals cd r))
  | "isub" :: r => do some (.isub (← parseVals cd r))
  | "ixor" :: r => do some (.ixor (← parseVals cd r))
  | "or" :: r => do some (.or (← parseVals cd r))
  | "and" :: r => do some (.and (← parseVals cd r))
  | "sub" :: r => do some (.sub (← parseVals cd r))
  | "xor" :: r => do some (.xor (← parseVals cd r))
  | "plus" :: r => do some (.plus (← parseVals cd r))
  | ["setT", v] => do some (.setBadKey (← cd.pv v))
  | ["delT"] => some .delBadKey
  | ["appendU"] => some .appendUnhashable
  | _ => none

/-- what is shown of one container kind -/
structure View (C α ρ : Type) where
  P : Prims C α ρ
  cd : Codec α ρ
  state : C → String
  /-- references whose membership is reported -/
  memRefs : List ρ
  /-- values whose `index()` is reported -/
  idxVals : List α
  /-- extra observer column (Predicates: `get`) -/
  extra : Option (C → String)

def showOut {C α ρ : Type} (V : View C α ρ) : Out α C → String
  | .err e => e.name
  | .ok .unit => "ok"
  | .ok (.val a) => "ok=" ++ V.cd.sv a
  | .ok (.nat n) => s!"ok={n}"
  | .ok (.bool b) => if b then "ok=1" else "ok=0"
  | .ok (.list l) => "ok=" ++ lst (l.map V.cd.sv)
  | .ok (.cont c) => "ok=" ++ V.state c

def record {C α ρ : Type} (V : View C α ρ) (c : C) (o : Out α C) : String :=
  let mem := String.join (V.memRefs.map fun r => if V.P.has c r then "1" else "0")
  let idx := lst (V.idxVals.map fun v =>
    match Mixin.index V.P c (V.P.toRef v) with
    | .ok i => toString i
    | .error .missing => "M"
    | .error .value => "V"
    | .error e => "!" ++ e.name)
  let base := [showOut V o, V.state c, mem, idx]
  "/".intercalate (match V.extra with | some f => base ++ [f c] | none => base)

def runAll {C α ρ : Type} (V : View C α ρ) : C → List (Op α ρ) → List String
  | _, [] => []
  | c, op :: ops =>
    let r := step V.P c op
    record V r.1 r.2 :: runAll V r.1 ops

def answer {C α ρ : Type} (V : View C α ρ) (opToks : List Toks) : String :=
  match opToks.mapM (parseOp V.cd) with
  | none => "err:wire"
  | some ops => " ; ".intercalate (runAll V V.P.empty ops)

/-! ### the three kinds -/

def natCodec : Codec Nat Nat := ⟨natTok, toString, natTok⟩
def natLe (a b : Nat) : Bool := a ≤ b

def qsetView (n : Nat) : View (QSet Nat Unit) Nat Nat where
  P := QSet.prims (plainHooks Nat natLe)
  cd := natCodec
  state q := "|".intercalate [lst (q.seq.map toString), lst (ssort (q.set.map toString)), toString q.seq.length]
  memRefs := List.range n
  idxVals := List.range n
  extra := none

def linqsetView (n : Nat) : View (LinqSet Nat) Nat Nat where
  P := LinqSet.prims
  cd := natCodec
  state c := "|".intercalate [lst (c.chain.map toString), lst (ssort (c.table.map toString)), toString c.len]
  memRefs := List.range n
  idxVals := List.range n
  extra := none

def showPred (p : Pred) : String := s!"{p.index}.{p.sub}.{p.arity}"

def parsePred (s : String) : Option Pred :=
  match s.splitOn "." with
  | [i, j, k] => do some ⟨← intTok i, ← natTok j, ← natTok k⟩
  | _ => none

def showRef : Ref → String
  | .bi i s => s!"b:{i}.{s}"
  | .spec p => "s:" ++ showPred p
  | .ident p => "d:" ++ showPred p
  | .name n => "n:" ++ n
  | .self p => "p:" ++ showPred p

def parseRef (s : String) : Option Ref :=
  match s.splitOn ":" with
  | ["b", x] => (match x.splitOn "." with
      | [i, j] => do some (.bi (← intTok i) (← natTok j))
      | _ => none)
  | ["s", x] => (parsePred x).map .spec
  | ["d", x] => (parsePred x).map .ident
  | ["p", x] => (parsePred x).map .self
  | ["n", x] => some (.name x)
  | _ => none

def predCodec : Codec Pred Ref := ⟨parsePred, showPred, parseRef⟩

/-- the references observed for a universe predicate, in the harness's order: b s d p [n] -/
def obsRefs (p : Pred) : List Ref :=
  [.bi p.index p.sub, .spec p, .ident p, .self p] ++ (match Preds.sysName p with | some n => [.name n] | none => [])

def predsView (uni : List Pred) : View Preds.Store Pred Ref where
  P := Preds.prims
  cd := predCodec
  state q := "|".intercalate
    [lst (q.seq.map showPred), lst (ssort (q.set.map showPred)), toString q.seq.length,
     lst (ssort (q.ext.map fun (r, p) => showRef r ++ "=" ++ showPred p))]
  memRefs := uni.flatMap obsRefs
  idxVals := uni
  extra := some fun q => lst ((uni.flatMap obsRefs).map fun r =>
    match Preds.get q r with
    | .ok p => showPred p
    | .error _ => "K")

/-- `none` = not my request -/
def handle (ts : List String) : Option String :=
  match ts with
  | "qset" :: r =>
    (match splitAt ";" r with
     | [n] :: ops => (match natTok n with | some n => some (answer (qsetView n) ops) | none => some "err:wire")
     | _ => some "err:wire")
  | "linqset" :: r =>
    (match splitAt ";" r with
     | [n] :: ops => (match natTok n with | some n => some (answer (linqsetView n) ops) | none => some "err:wire")
     | _ => some "err:wire")
  | "preds" :: r =>
    (match splitAt ";" r with
     | uni :: ops => (match uni.mapM parsePred with | some u => some (answer (predsView u) ops) | none => some "err:wire")
     | _ => some "err:wire")
  | _ => none

end Ptx.Drv.Cont
