/- driver handler: logic-level requests (frame closure) -/
import Ptx.Wire
import Ptx.Sem.Frames
namespace Ptx.Drv.Logic
open Ptx

def frameOf : String → Option FrameKind
  | "K" => some .K | "D" => some .D | "T" => some .T | "S4" => some .S4 | "S5" => some .S5 | _ => none

def parsePairs (s : String) : Option (List (Nat × Nat)) :=
  (s.splitOn ";").filter (· ≠ "") |>.mapM fun p =>
    match p.splitOn "." with
    | [a, b] => do some (← a.toNat?, ← b.toNat?)
    | _ => none

def parseNats (s : String) : Option (List Nat) := (s.splitOn ",").filter (· ≠ "") |>.mapM (·.toNat?)

def showPairs (R : List (Nat × Nat)) : String :=
  ";".intercalate (R.map fun (a, b) => s!"{a}.{b}")

/-- insertion sort on pairs, for a canonical answer -/
def sortPairs (R : List (Nat × Nat)) : List (Nat × Nat) :=
  R.foldl (fun acc p =>
    let (lo, hi) := acc.partition (fun q => q.1 < p.1 || (q.1 == p.1 && q.2 < p.2))
    lo ++ [p] ++ hi) []

def frameClosure (k ws ps : String) : String :=
  match frameOf k, parseNats ws, parsePairs ps with
  | some k, some ws, some R =>
      if Frames.stable k ws R then "ok " ++ showPairs (sortPairs (Frames.closure k ws R))
      else "err:unstable"
  | _, _, _ => "err:wire"

/-- `none` = not my request -/
def handle (ts : List String) : Option String :=
  match ts with
  | ["frameclosure", k, ws] => some (frameClosure k ws "")
  | ["frameclosure", k, ws, ps] => some (frameClosure k ws ps)
  | _ => none

end Ptx.Drv.Logic
