/-
  driver handler: replay the history of a real run through the calculus model.
    replay <LOGIC> ## <trunk nodes ; …> ## <step> ## <step> …
  steps:  R bi n c|- w|-      table rule on node n of branch bi (witness constant "i.s" / world)
          C bi w|_ <sent>     closure on the literal set of (base of) sentence at world
          I bi n              identity / existence closure on node n
          F bi <Rule> w1 w2 w3
          D bi i p            identity indiscernability
          Q bi name n|-       quit flag (ticking node n if the rule ticks)
  answer: ok steps=<n> unsound=<k> quant=<k> :: <branch> || <branch> …     (branch = nodes ; … ! ticked indices ! closed)
          reject <i> <reason> :: <tableau so far>
-/
import Ptx.Wire
import Ptx.Tab.Calculus
import Ptx.Sem.Sem
import Ptx.Gen.All
import Ptx.Sem.TruthTable
namespace Ptx.Drv.Tab
open Ptx Ptx.Wire

def parseNodes (ts : Toks) : Option (List Node) :=
  (splitAt ";" ts).filter (· ≠ []) |>.mapM fun nt =>
    match Node.parse nt with
    | some (n, []) => some n
    | _ => none

def optNat (s : String) : Option (Option Nat) := if s == "-" || s == "_" then some none else s.toNat?.map some
def optConst (s : String) : Option (Option (Nat × Nat)) :=
  if s == "-" then some none else
  match s.splitOn "." with
  | [a, b] => do some (some (← a.toNat?, ← b.toNat?))
  | _ => none

def frameRuleOf : String → Option FrameRule
  | "Reflexive" => some .reflexive | "Transitive" => some .transitive
  | "Symmetric" => some .symmetric | "Serial" => some .serial | _ => none

/-- a step may come with alternative readings (closure: base sentence candidates) -/
def parseStep (ts : Toks) : Option (List Step) :=
  match ts with
  | ["R", b, n, c, w] => do some [.rule (← b.toNat?) (← n.toNat?) (← optConst c) (← optNat w)]
  | "C" :: b :: w :: rest => do
      let (s, r) ← parseSent rest
      if r ≠ [] then none else
      let b ← b.toNat?
      let w ← optNat w
      some [.close b s w, .close b s.base w]
  | ["I", b, n] => do some [.closeIdent (← b.toNat?) (← n.toNat?)]
  | ["F", b, r, w1, w2, w3] => do some [.frame (← b.toNat?) (← frameRuleOf r) (← w1.toNat?) (← w2.toNat?) (← w3.toNat?)]
  | ["D", b, i, p] => do some [.ident (← b.toNat?) (← i.toNat?) (← p.toNat?)]
  | ["Q", b, name, tk] => do some [.quit (← b.toNat?) name (← optNat tk)]
  | _ => none

def sortNat (xs : List Nat) : List Nat :=
  xs.foldl (fun acc x => let (lo, hi) := acc.partition (· < x); lo ++ [x] ++ hi) []

def showBranch (b : Branch) : String :=
  " ; ".intercalate (b.nodes.map Node.toWire) ++ " ! " ++ " ".intercalate ((sortNat b.ticked).map toString) ++ " ! " ++
    (if b.closed then "closed" else "open")

def showTab (t : Tableau) : String := " || ".intercalate (t.map showBranch)

/-- is this step a table-rule step whose key is in the unsound set of `S` / a quantifier rule -/
def stepFlags (S : LogicData) (t : Tableau) : Step → Bool × Bool
  | .rule bi n _ _ =>
      match t[bi]? with
      | some b =>
          match b.nodes[n]? with
          | some (.sent s d _) =>
              match s.decomp with
              | some (sh, ng, _) =>
                  (S.unsoundRules.contains ⟨sh, ng, d⟩, match sh with | .quant _ => true | _ => false)
              | none => (false, false)
          | _ => (false, false)
      | none => (false, false)
  | _ => (false, false)

def run (L : LogicData) (t0 : Tableau) (steps : List (List Step)) : String :=
  let S := L.sem
  let rec go (t : Tableau) (i uns q : Nat) : List (List Step) → String
    | [] => s!"ok steps={i} unsound={uns} quant={q} :: " ++ showTab t
    | alts :: rest =>
        match alts.findSome? (fun s => (applyStep L t s).map (fun t' => (s, t'))) with
        | some (s, t') =>
            let (u, qq) := stepFlags S t s
            go t' (i + 1) (uns + (if u then 1 else 0)) (q + (if qq then 1 else 0)) rest
        | none => s!"reject {i} illegal-step :: " ++ showTab t
  go t0 0 0 0 steps

def parseSents (ts : Toks) : Option (List Sent) :=
  (splitAt ";" ts).filter (· ≠ []) |>.mapM fun st =>
    match parseSent st with
    | some (s, []) => some s
    | _ => none

/-- `ttvalid <LOGIC> ## premises ; … ## conclusion` : truth-table validity under the documented tables -/
def ttValidReq (lg : String) (rest : Toks) : String :=
  match Gen.byName lg, splitAt "##" rest with
  | some L, [ps, c] =>
      match parseSents ps, parseSent c with
      | some prem, some (conc, []) =>
          let arg : Argument := ⟨prem, conc⟩
          if !arg.isProp then "err:not-propositional"
          else if ttValid L.sem.T arg then "valid" else "invalid"
      | _, _ => "err:wire"
  | none, _ => "err:unknown-logic"
  | _, _ => "err:wire"

/-- `none` = not my request -/
def handle (ts : List String) : Option String :=
  match ts with
  | "ttvalid" :: lg :: "##" :: rest => some (ttValidReq lg rest)
  | "replay" :: lg :: "##" :: rest =>
      match Gen.byName lg with
      | none => some "err:unknown-logic"
      | some L =>
        match splitAt "##" rest with
        | trunkToks :: stepToks =>
            match parseNodes trunkToks, stepToks.mapM parseStep with
            | some nodes, some steps => some (run L [{ nodes := nodes }] steps)
            | _, _ => some "err:wire"
        | [] => some "err:wire"
  | _ => none

end Ptx.Drv.Tab
