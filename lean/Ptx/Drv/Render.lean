/- driver handler for component Render: requests whose first token belongs to it -/
import Ptx.Wire
namespace Ptx.Drv.Render

/-- `none` = not my request -/
def handle (ts : List String) : Option String :=
  match ts with
  | _ => none

end Ptx.Drv.Render
