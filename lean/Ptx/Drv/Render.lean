/- driver handler for component Render (C19): requests whose first token is `render` or `textread`

   render <p|s> <dialect> <drop_parens 0|1> <identity_infix 0|1> <max_infix> ## <tree>
     the string table is ('text', notation, dialect) of Ptx.Gen.Symbols; the marks are Ptx.Gen.RenderMarks.textMarks
     tree ::= T <depth> <closed 0|1> <#nodes> <node>* <#children> <tree>*
     node ::= N <sentence | _> <world|_> <+|-|_> <world1|_> <world2|_> <ellipsis 0|1> <ticked 0|1> <c|q|_>
              (sentence in the encoding of Ptx/Wire.lean; c = closure flag, q = any other flag)
     -> `ok <WF 0|1> <text> <regular 0|1>`   text = code points joined by `,` (`-` for the empty string);
        regular = every node is `RNode.regular` (hypothesis of C19_render_injective)
        `err:wire` | `err:table`

   textread <text>
     the independent reader of Ptx/Tab/RenderRead.lean on a text (code points as above)
     -> `ok <clean 0|1> <closure marks per branch, joined by ,> <branches>`   | `none`
        branches: joined by `|`; node strings of a branch joined by `/`; a node string = code points joined by `,`
-/
import Ptx.Wire
import Ptx.Tab.RenderRead
import Ptx.Gen.RenderMarks
namespace Ptx.Drv.Render
open Ptx Ptx.Wire Ptx.Render

def optNat (t : String) : Option (Option Nat) :=
  if t == "_" then some none else t.toNat?.map some

def bit (t : String) : Option Bool :=
  if t == "1" then some true else if t == "0" then some false else none

def parseNode : Toks → Option (RNode × Toks)
  | "N" :: r => do
    let (s, r) ← (match r with
      | "_" :: r' => some (none, r')
      | _ => (parseSent r).map fun (s, r') => (some s, r'))
    match r with
    | w :: d :: w1 :: w2 :: e :: tk :: fl :: r =>
      let d? : Option (Option Bool) := match d with
        | "+" => some (some true) | "-" => some (some false) | "_" => some none | _ => none
      let fl? : Option (Option Flag) := match fl with
        | "c" => some (some .closure) | "q" => some (some .quit) | "_" => some none | _ => none
      some ({ sentence := s, world := ← optNat w, designated := ← d?, world1 := ← optNat w1, world2 := ← optNat w2,
              ellipsis := ← bit e, ticked := ← bit tk, flag := ← fl? }, r)
    | _ => none
  | _ => none

def parseNodes : Nat → Toks → Option (List RNode × Toks)
  | 0, r => some ([], r)
  | n + 1, r => do
    let (x, r) ← parseNode r
    let (xs, r) ← parseNodes n r
    some (x :: xs, r)

mutual
def parseTreeF : Nat → Toks → Option (RTree × Toks)
  | 0, _ => none
  | f + 1, ts =>
    match ts with
    | "T" :: d :: cl :: n :: r => do
      let (ns, r) ← parseNodes (← n.toNat?) r
      match r with
      | k :: r => do
        let (cs, r) ← parseTreesF f (← k.toNat?) r
        some (.mk (← d.toNat?) ns cs (← bit cl), r)
      | [] => none
    | _ => none
def parseTreesF : Nat → Nat → Toks → Option (List RTree × Toks)
  | 0, _, _ => none
  | _ + 1, 0, r => some ([], r)
  | f + 1, k + 1, r => do
    let (c, r) ← parseTreeF f r
    let (cs, r) ← parseTreesF f k r
    some (c :: cs, r)
end

def showChars (cs : List Nat) : String :=
  if cs.isEmpty then "-" else ",".intercalate (cs.map toString)

def parseChars (t : String) : Option (List Nat) :=
  if t == "-" then some [] else (t.splitOn ",").mapM (·.toNat?)

def b01 (b : Bool) : String := if b then "1" else "0"

def findTable (notn dialect : String) : Option Sym.StringTable :=
  Gen.Symbols.stringTables.find? fun t => t.format == "text" && t.notn == notn && t.dialect == dialect

/-- `none` = not my request -/
def handle (ts : List String) : Option String :=
  match ts with
  | "render" :: r =>
    match splitAt "##" r with
    | [[nt, dia, dp, ii, mi], tree] =>
      some <| match (do
          let notn : Notn ← (match nt with
            | "p" => some Notn.polish
            | "s" => do some (Notn.standard ⟨← bit dp, ← bit ii, ← mi.toNat?⟩)
            | _ => none)
          let (t, rest) ← parseTreeF (tree.length + 1) tree
          if !rest.isEmpty then none else
          some (notn, t)) with
        | none => "err:wire"
        | some (notn, t) =>
          match findTable (if nt == "p" then "polish" else "standard") dia with
          | none => "err:table"
          | some tb => s!"ok {b01 t.WF} {showChars (renderText Gen.RenderMarks.textMarks tb notn t)} {b01 (t.allNodes (RNode.regular Gen.Symbols.maxi))}"
    | _ => some "err:wire"
  | ["textread", txt] =>
    some <| match parseChars txt with
      | none => "err:wire"
      | some cs =>
        match readText Gen.RenderMarks.textMarks cs with
        | none => "none"
        | some r =>
          let m := Gen.RenderMarks.textMarks
          let marks := ",".intercalate ((r.branchClosureMarks m).map toString)
          let brs := "|".intercalate (r.branchNodeStrings.map fun b => "/".intercalate (b.map showChars))
          s!"ok {b01 (r.restsClean m)} {marks} {brs}"
  | _ => none

end Ptx.Drv.Render
