/- driver handler for component Life (C17): requests whose first token is `life`

   life <max_steps|_> <timeout|_> <auto_build_trunk 0|1> <is_build_models 0|1> ; <op> ; <op> …
     op =  S <clk> <next 0|1> <openAfter 0|1> <mclk>          step()
        |  F <mclk>                                            finish()
        |  B <clk> <next> <openAfter> <mclk> , <clk> … , …     build()  (one group per step() of the loop)
        |  A <id> | L <id>                                     argument / logic setter
        |  T | N | M | K                                       build_trunk() / branch() / rule-set mutation / rules.lock()
   answer: one group per op, joined by " ; ":
     <out> <flag word> <len(history)> <valid> <invalid> <tree 0|1> <rules.locked 0|1> <arg|_> <logic|_> <stats 0|1> <models 0|1>
-/
import Ptx.Wire
import Ptx.Tab.Lifecycle
namespace Ptx.Drv.Life
open Ptx.Tab.Life

def optInt (t : String) : Option (Option Int) :=
  if t == "_" then some none else t.toInt?.map some

def bit (t : String) : Option Bool :=
  if t == "1" then some true else if t == "0" then some false else none

def parseStepIn : List String → Option StepIn
  | [c, n, o, m] => do
    let n ← bit n
    some ⟨← c.toNat?, fun _ => n, ← bit o, ← m.toNat?⟩
  | _ => none

def parseOp : List String → Option Op
  | "S" :: r => (parseStepIn r).map .step
  | ["F", m] => m.toNat?.map .finish
  | "B" :: r =>
    if r.isEmpty then some (.build []) else
    ((Wire.splitAt "," r).mapM parseStepIn).map .build
  | ["A", a] => a.toNat?.map .setArgument
  | ["L", l] => l.toNat?.map .setLogic
  | ["T"] => some .buildTrunk
  | ["N"] => some .addBranch
  | ["M"] => some .rulesMutate
  | ["K"] => some .rulesLock
  | _ => none

def showOut : Out → String
  | .entry => "entry" | .none => "none" | .self => "self"
  | .raised .timeout => "raise:ProofTimeoutError"
  | .raised .illegalState => "raise:IllegalStateError"
  | .exhausted => "exhausted"

def showOB : Option Bool → String
  | none => "_" | some true => "T" | some false => "F"
def showON : Option Nat → String
  | none => "_" | some n => toString n
def b01 (b : Bool) : String := if b then "1" else "0"

def showState (o : Out) (s : State) : String :=
  " ".intercalate [showOut o, toString s.word, toString s.histLen, showOB s.valid, showOB s.invalid,
    b01 s.treeBuilt, b01 s.rulesLocked, showON s.arg, showON s.logic, b01 s.statsBuilt, b01 s.modelsBuilt]

def runShow (s : State) : List Op → List String
  | [] => []
  | op :: ops => let r := exec s op; showState r.2 r.1 :: runShow r.1 ops

/-- `none` = not my request -/
def handle (ts : List String) : Option String :=
  match ts with
  | "life" :: r =>
    match Wire.splitAt ";" r with
    | [ms, to, ab, bm] :: ops =>
      some <| match (do
          let o : Opts := ⟨← optInt ms, ← optInt to, ← bit ab, ← bit bm⟩
          let ops ← ops.mapM parseOp
          some (" ; ".intercalate (runShow (init o) ops))) with
        | some s => s
        | none => "err:wire"
    | _ => some "err:wire"
  | _ => none

end Ptx.Drv.Life
