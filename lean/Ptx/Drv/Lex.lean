/-
  driver handler for component Lex (C14, C15).  Requests (tokens separated by blanks; `|` and `;`
  are separator tokens; items / sentences in the encoding of Ptx/Wire.lean + Ptx/Lang/LexWire.lean):

    key <item>                          -> the sort_tuple, e.g. `90 50 20 60 0 0`
    cmp <item> | <item>                 -> `<orderitems int> lt|eq|gt`
    sort <item> | <item> | …            -> the items sorted, ` | `-separated
    argcmp <sent> | <sent> … ; <sent> | …   (conclusion first, then premises) -> lt|eq|gt
    subst <new param> <old param> <sent>    -> <sent>
    unq <ci> <cs> <sent>                -> `some <sent>` | `none`
    neg <sent>                          -> <sent>
    derived <sent>                      -> `C <n> <param>*n ; V … ; P <n> (<idx> <sub> <ar>)*n ; A <n> (<i> <s>)*n ; O <ops> ; Q <quants>`
                                           (sets sorted by the model's own order)
    walk <sent>                         -> paramOccs / ops / quants of the independent walk, same format
    ident <item>                        -> the ident as a Python value (arg encoding below)
    cache <f1><f2> <maxlen> ; <call> ; <call> …
        f1,f2 ∈ {0,1}: candidate fixes 1 (system predicate by spec) and 2 (maxlen 0) applied or not
        call ::= <Cls> <n> <arg>*n        Cls ∈ Predicate Constant Variable Atomic Predicated Quantified
                                                Operated LexicalAbc CoordsItem Parameter Sentence
        arg  ::= i <int> | s:<text with _ for blank> | t <n> <arg>*n | x <item>
      -> one result per call, ` ; `-separated: `ok <item>` | `err:<kind>`; if the cache-free build of
         the same call differs (never, by C14.cache_transparent) `!<that result>` is appended;
         then ` ; state q=<len> idx=<len> rev=<len> inv=<0|1>` (structural invariant of the final cache)
-/
import Ptx.Wire
import Ptx.Lang.LexWire
import Ptx.Lang.Derived
import Ptx.Lang.Cache
namespace Ptx.Drv.Lex
open Ptx Ptx.Wire

def ordStr (d : Int) : String := if d < 0 then "lt" else if d = 0 then "eq" else "gt"

def parseItems (ts : Toks) : Option (List Item) :=
  (splitAt "|" ts).mapM fun seg =>
    match parseItem seg with
    | some (x, []) => some x
    | _ => none

def parseSents (ts : Toks) : Option (List Sent) :=
  (splitAt "|" ts).mapM fun seg =>
    match parseSent seg with
    | some (x, []) => some x
    | _ => none

def sortBy {α} (le : α → α → Bool) : List α → List α
  | [] => []
  | x :: xs => ins x (sortBy le xs)
where ins (x : α) : List α → List α
  | [] => [x]
  | y :: ys => if le x y then x :: y :: ys else y :: ins x ys

def sortParams (ps : List Param) : List Param :=
  sortBy (fun a b => orderitems (.param a) (.param b) ≤ 0) ps
def sortPreds (ps : List Pred) : List Pred :=
  sortBy (fun a b => orderitems (.pred a) (.pred b) ≤ 0) ps
def sortAtoms (ps : List (Nat × Nat)) : List (Nat × Nat) :=
  sortBy (fun a b => orderitems (.sent (.atom a.1 a.2)) (.sent (.atom b.1 b.2)) ≤ 0) ps

def showDerived (cs vs : List Param) (ps : List Pred) (as : List (Nat × Nat)) (os : List Op)
    (qs : List Quant) : String :=
  let sp := fun (l : List String) => String.join (l.map (" " ++ ·))
  s!"C {cs.length}" ++ sp (cs.map showParam) ++
  s!" ; V {vs.length}" ++ sp (vs.map showParam) ++
  s!" ; P {ps.length}" ++ sp (ps.map fun p => s!"{p.index} {p.sub} {p.arity}") ++
  s!" ; A {as.length}" ++ sp (as.map fun a => s!"{a.1} {a.2}") ++
  " ; O" ++ sp (os.map Op.tok) ++
  " ; Q" ++ sp (qs.map Quant.tok)

def handleBasic (ts : List String) : Option String :=
  match ts with
  | "key" :: r =>
    match parseItem r with
    | some (x, []) => some (showInts (sortKey x))
    | _ => some "err:wire"
  | "cmp" :: r =>
    match parseItems r with
    | some [x, y] => let d := orderitems x y; some s!"{d} {ordStr d}"
    | _ => some "err:wire"
  | "sort" :: r =>
    match parseItems r with
    | some xs => some (" | ".intercalate ((sortItems xs).map showItem))
    | none => some "err:wire"
  | "argcmp" :: r =>
    match (splitAt ";" r).map parseSents with
    | [some (c1 :: p1), some (c2 :: p2)] => some (ordStr (argCmp ⟨p1, c1⟩ ⟨p2, c2⟩))
    | _ => some "err:wire"
  | "subst" :: r =>
    match parseParam r with
    | some (new, r) =>
      match parseParam r with
      | some (old, r) =>
        match parseSent r with
        | some (s, []) => some (showSent (s.subst new old))
        | _ => some "err:wire"
      | none => some "err:wire"
    | none => some "err:wire"
  | "unq" :: ci :: cs :: r =>
    match natTok ci, natTok cs, parseSent r with
    | some ci, some cs, some (s, []) =>
      match s.unquantify ci cs with
      | some t => some ("some " ++ showSent t)
      | none => some "none"
    | _, _, _ => some "err:wire"
  | "neg" :: r =>
    match parseSent r with
    | some (s, []) => some (showSent s.negative)
    | _ => some "err:wire"
  | "derived" :: r =>
    match parseSent r with
    | some (s, []) =>
      some (showDerived (sortParams s.constants) (sortParams s.variables) (sortPreds s.predicates)
        (sortAtoms s.atomics) s.operators s.quantifiers)
    | _ => some "err:wire"
  | "walk" :: r =>
    match parseSent r with
    | some (s, []) =>
      let ps := paramOccs s
      some (showDerived (sortParams (toSet (ps.filter Param.isConst))) (sortParams (toSet (ps.filter Param.isVar)))
        (sortPreds (toSet (predOccs s))) (sortAtoms (toSet (atomOccs s))) (preorderOps s) (preorderQuants s))
    | _ => some "err:wire"
  | _ => none

/-! cache requests -/

def clsTok : String → Option Cls
  | "Predicate" => some .predicate | "Constant" => some .constant | "Variable" => some .variable_
  | "Atomic" => some .atomic | "Predicated" => some .predicated | "Quantified" => some .quantified
  | "Operated" => some .operated | "LexicalAbc" => some .lexicalAbc | "CoordsItem" => some .coordsItem
  | "Parameter" => some .parameter | "Sentence" => some .sentence | _ => none

mutual
def parseArgF : Nat → Toks → Option (Arg × Toks)
  | 0, _ => none
  | f+1, ts =>
    match ts with
    | "i" :: n :: r => do some (.int (← intTok n), r)
    | "t" :: n :: r => do
      let (xs, r) ← parseArgsF f (← natTok n) r
      some (.tuple xs, r)
    | "x" :: r => do
      let (x, r) ← parseItem r
      some (.item x, r)
    | t :: r =>
      if t.startsWith "s:" then some (.str ((t.drop 2).toString.replace "_" " "), r) else none
    | [] => none
def parseArgsF : Nat → Nat → Toks → Option (List Arg × Toks)
  | 0, _, _ => none
  | _, 0, r => some ([], r)
  | f+1, n+1, r => do
    let (a, r) ← parseArgF f r
    let (as, r) ← parseArgsF f n r
    some (a :: as, r)
end

def parseCall (ts : Toks) : Option (Cls × List Arg) :=
  match ts with
  | c :: n :: r => do
    let cls ← clsTok c
    let (xs, r) ← parseArgsF (ts.length + 2) (← natTok n) r
    if r.isEmpty then some (cls, xs) else none
  | _ => none

partial def showArg : Arg → String
  | .int n => s!"i {n}"
  | .str s => "s:" ++ s.replace " " "_"
  | .tup xs => s!"t {xs.toList.length}" ++ String.join (xs.toList.map fun a => " " ++ showArg a)
  | .item x => "x " ++ showItem x

def errStr : Err → String
  | .type => "type" | .value => "value" | .attr => "attr" | .key => "key" | .index => "index"
  | .negIndex => "negindex" | .fuel => "fuel"

def showR : R → String
  | .ok x => "ok " ++ showItem x
  | .error e => "err:" ++ errStr e

/-- the structural part of the cache invariant, executable -/
def cacheShapeOK (c : Cache) : Bool :=
  c.rev.map (·.1) == c.queue && c.queue.length ≤ c.maxlen &&
  c.rev.all (fun e => e.2.contains (.item e.1) && e.2.all fun k => assocGet k c.idx == some e.1) &&
  c.idx.all (fun e => match assocGet e.2 c.rev with | some ks => ks.contains e.1 | none => false)

def handleCache (ts : List String) : Option String :=
  match ts with
  | "ident" :: r =>
    match parseItem r with
    | some (x, []) => some (showArg (identArg x))
    | _ => some "err:wire"
  | "cache" :: fx :: ml :: r =>
    let fixes : Option Fixes := match fx with
      | "11" => some ⟨true, true⟩ | "10" => some ⟨true, false⟩
      | "01" => some ⟨false, true⟩ | "00" => some ⟨false, false⟩ | _ => none
    match fixes, natTok ml, (splitAt ";" r).tail.mapM parseCall with
    | some fx, some ml, some calls =>
      let (outs, c) := calls.foldl (fun (acc : List String × Cache) (cl : Cls × List Arg) =>
        let (r, c') := metacall fx acc.2 cl.1 cl.2
        let b := build fx cl.1 cl.2
        let o := showR r ++ (if showR r == showR b then "" else " !" ++ showR b)
        (acc.1 ++ [o], c')) ([], Cache.empty ml)
      some (" ; ".intercalate (outs ++
        [s!"state q={c.queue.length} idx={c.idx.length} rev={c.rev.length} inv={if cacheShapeOK c then 1 else 0}"]))
    | _, _, _ => some "err:wire"
  | _ => none

/-- `none` = not my request -/
def handle (ts : List String) : Option String :=
  match handleBasic ts with
  | some r => some r
  | none => handleCache ts

end Ptx.Drv.Lex
