/-
  Ptx.Search.State — the TARGET-SELECTION layer of pytableaux (proof/helpers.py, the `_get_targets` /
  `_get_node_targets` methods of proof/rules.py and logics/kfde.py, k.py, t.py, d.py, s4.py, s5.py) as an
  executable model: the helper state every rule keeps per branch, and the event listeners that maintain it.

  What is kept, per branch (class `BranchCache`: one value per branch, copied from the parent on
  `AFTER_BRANCH_ADD`, see `BranchH` / `SState.hs`):
    cache r      `FilterHelper` / `FilterNodeCache`  — node INDICES on the branch that passed rule r's filter at
                 `after_node_add` and were not discarded since (`after_node_tick` when `ignore_ticked`, `gc()`)
    nw k         `NodesWorlds` of the necessity-type rule with key k — applied (node index, world) pairs
    quit k       `QuitFlag` of the modal rule with key k
    closeT       `BranchTarget` of the closure rules (`BaseClosureRule`): the target cached by the
                 `_branch_target_hook` when a node is added; one cache for the whole closure group
    windex       `WorldIndex`  (w1, w2) pairs of the access nodes added
    unserial     `UnserialWorlds`
    ncs          `NodeConsts` of the each-constant (`ExtendedQuantifierRule`) rules: per registered (rule, node) the constants
                 not yet applied; `after_node_add` registers a node that passes the rule's filter with the constants seen so
                 far and then distributes the constants the new node brings to EVERY registered node
    lastSerial   what `Serial._last_serial_world` finds: the most recent history entry whose target branch is THIS branch — if it
                 was a Serial application, the world it introduced (a branch created by a fork has no entry of its own)
  per tableau (`SState`):
    garbage r    `FilterNodeCache._garbage` — (branch, node) entries queued by `release()`, removed by `gc()`
    maxWorlds    `MaxWorlds[origin]`, computed from the trunk (`MaxWorlds._compute`)
    maxConsts    `MaxConsts[origin]` (`MaxConsts._compute`); `WorldConsts` (constants per world) and `NodeConsts.consts`
                 (constants seen) are functions of the branch (`constsAt`, `Branch.constList`)
  Scores (`NodeCount`, `AplSentCount`, `closure_score`, `branching_complexity`) only rank targets and are not
  modelled: any target may be taken.  Nodes are identified by their index on the branch (Python: object identity;
  a branch copy shares the node objects of its parent = the common prefix).  Executable, core only.
-/
import Ptx.Tab.Saturated
namespace Ptx.Search
open Ptx

/-- the rules of a logic as the search layer sees them: the closure group, one table rule per key, the access rules -/
inductive RuleId where
  | closure
  | table (k : RuleKey)
  | frame (r : FrameRule)
  | ident                     -- cpl.IdentityIndiscernability (classical family)
  deriving DecidableEq, Repr, Inhabited

/-- the rule-table key a node belongs to (filters.NodeSentence: operator + negated; filters.NodeDesignation) -/
def nodeKey : Node → Option RuleKey
  | .sent s d _ =>
      match s.decomp with
      | some (sh, ng, _) => some ⟨sh, ng, d⟩
      | none => none
  | _ => none

/-- filter of `IdentityIndiscernability` (`predicate = Identity`, not negated): an identity predication node -/
def isIdentityNode : Node → Bool
  | .sent (.pred q [_, _]) _ _ => q == Pred.identity
  | _ => false

/-- `PredNodes.__call__`: the node's sentence is a (positive) predication -/
def isPredNode : Node → Bool
  | .sent (.pred _ _) _ _ => true
  | _ => false

/-- `PredNodes[branch]`: the predication nodes of the branch (they are never ticked: a function of the branch) -/
def predIdx (b : Branch) : List Nat := (b.nodes.zipIdx.filter fun p => isPredNode p.1).map (·.2)

def isAccess : Node → Bool
  | .access _ _ => true
  | _ => false

/-- `FilterHelper.config.pred`: does a node pass rule r's NodeFilters
    (table rules: sentence shape / negation / designation; Reflexive: no filter at all;
     Transitive, Symmetric: `NodeType = AccessNode`; Serial and the closure rules have no FilterHelper cache of their own) -/
def matchesRule : RuleId → Node → Bool
  | .closure, _ => false
  | .table k, nd => nodeKey nd == some k
  | .frame .reflexive, _ => true
  | .frame .transitive, nd => isAccess nd
  | .frame .symmetric, nd => isAccess nd
  | .frame .serial, _ => false
  | .ident, nd => isIdentityNode nd

/-- `ignore_ticked` (BaseNodeRule: True; BaseAccessRule: False) -/
def ignoreTicked : RuleId → Bool
  | .table _ => true
  | .ident => true
  | _ => false

/-- what a closure rule's `BranchTarget` helper caches -/
inductive CloseT where
  | lits (s : Sent) (w : Option Nat)     -- FindClosingNodeRule: the literal constraints around base sentence s at world w
  | ident (n : Nat)                      -- SelfIdentityClosure / NonExistenceClosure: node n
  deriving Repr, Inhabited, DecidableEq

/-! ### association lists with a default (the per-rule dictionaries of the helpers) -/

def aget {κ α} [DecidableEq κ] (d : α) : List (κ × α) → κ → α
  | [], _ => d
  | (k', v) :: m, k => if k = k' then v else aget d m k

/-- modify the entry of key k (created from the default when absent) -/
def amod {κ α} [DecidableEq κ] (d : α) (f : α → α) : List (κ × α) → κ → List (κ × α)
  | [], k => [(k, f d)]
  | (k', v) :: m, k => if k = k' then (k', f v) :: m else (k', v) :: amod d f m k

/-- helper state of all rules for ONE branch -/
structure BranchH where
  caches : List (RuleId × List Nat) := []
  nws : List (RuleKey × List (Nat × Nat)) := []
  quits : List (RuleKey × Bool) := []
  closeT : Option CloseT := none
  windex : List (Nat × Nat) := []
  unserial : List Nat := []
  ncs : List ((RuleKey × Nat) × List (Nat × Nat)) := []
  lastSerial : Option Nat := none
  deriving Inhabited, Repr

def BranchH.cache (h : BranchH) (r : RuleId) : List Nat := aget [] h.caches r
def BranchH.nw (h : BranchH) (k : RuleKey) : List (Nat × Nat) := aget [] h.nws k
def BranchH.quit (h : BranchH) (k : RuleKey) : Bool := aget false h.quits k
/-- `NodeConsts[branch][node]` of rule k (a registered node has an entry) -/
def BranchH.nc (h : BranchH) (k : RuleKey) (i : Nat) : List (Nat × Nat) := aget [] h.ncs (k, i)
def BranchH.ncRegistered (h : BranchH) (k : RuleKey) (i : Nat) : Bool := h.ncs.any fun p => p.1 == (k, i)

/-- the rules whose filter a node passes -/
def matching (nd : Node) : List RuleId :=
  (match nodeKey nd with | some k => [RuleId.table k] | none => []) ++ [.frame .reflexive] ++
    (if isAccess nd then [.frame .transitive, .frame .symmetric] else []) ++
    (if isIdentityNode nd then [.ident] else [])

/-- worlds w1 sees according to a world index -/
def succs (wi : List (Nat × Nat)) (w : Nat) : List Nat :=
  wi.filterMap fun p => if p.1 == w then some p.2 else none

/-- the real worlds on a branch (`Branch.worlds`: worlds of the Modal nodes) -/
def realWorlds (b : Branch) : List Nat := dedupNat (b.nodes.flatMap Node.worlds)

/-- `MaxWorlds.is_exceeded` -/
def exceeded (mw : Nat) (b : Branch) : Bool := decide (mw < (realWorlds b).length)

/-- `Branch.new_world()` = `_nextworld`: one above the largest world appended so far (0 on a branch without worlds) -/
def nextWorld (b : Branch) : Nat :=
  b.worlds.foldl (fun m w => max m (w + 1)) 0

/-! ### constants (`Branch.new_constant`, `WorldConsts`, `MaxConsts`) -/

/-- order of constants: by (subscript, index) -/
def constLt (a b : Nat × Nat) : Bool := a.2 < b.2 || (a.2 == b.2 && a.1 < b.1)
/-- `CoordsItem.next()` with `maxi = 3` -/
def constNext (c : Nat × Nat) : Nat × Nat := if c.1 < 3 then (c.1 + 1, c.2) else (0, c.2 + 1)
def constMax (c : Nat × Nat) (cs : List (Nat × Nat)) : Nat × Nat := cs.foldl (fun m x => if constLt m x then x else m) c

/-- `Branch.new_constant()` = `_nextconst` after the appends so far (`Branch.append`: `if max(cons) >= _nextconst: _nextconst =
    max(cons).next()`), the same recurrence as `Ptx.Tab.BranchState.addConsts` (C06) -/
def nextConst (b : Branch) : Nat × Nat :=
  b.nodes.foldl (fun nx nd =>
    match nd with
    | .sent s _ _ =>
        match s.consts with
        | [] => nx
        | c :: cs => let m := constMax c cs; if constLt m nx then nx else constNext m
    | _ => nx) (0, 0)

/-- `WorldConsts[branch][world]`: the constants of the sentence nodes at that world (no world = world 0) -/
def constsAt (b : Branch) (w : Nat) : List (Nat × Nat) :=
  dedupPair (b.nodes.flatMap fun | .sent s _ w' => if w'.getD 0 == w then s.consts else [] | _ => [])

/-- `MaxConsts.is_exceeded(branch, world)` -/
def constExceeded (mc : Nat) (b : Branch) (w : Option Nat) : Bool := decide (mc < (constsAt b (w.getD 0)).length)

def quantCount : Sent → Nat
  | .atom _ _ => 0
  | .pred _ _ => 0
  | .quant _ _ _ b => 1 + quantCount b
  | .op1 _ a => quantCount a
  | .op2 _ a b => quantCount a + quantCount b

/-- `MaxConsts._compute` on the trunk branch -/
def computeMaxConsts (b : Branch) : Nat :=
  max 1 b.constList.length * max 1 ((b.nodes.map fun | .sent s _ _ => quantCount s | _ => 0).sum) + 1

/-- is key k an each-constant rule of L (the rules that carry a `NodeConsts` helper) -/
def isEachConst (L : LogicData) (k : RuleKey) : Bool :=
  match L.rule? k with
  | some r => r.witness == .eachConst
  | none => false

/-- `NodeConsts.after_node_add` of all each-constant rules, for node `nd` (index i) appended to `b` -/
def updNcs (L : LogicData) (b : Branch) (i : Nat) (nd : Node) (ncs : List ((RuleKey × Nat) × List (Nat × Nat))) :
    List ((RuleKey × Nat) × List (Nat × Nat)) :=
  let seen := b.consts
  let reg := match nodeKey nd with
    | some k => if isEachConst L k && !(ncs.any fun p => p.1 == (k, i)) then ncs ++ [((k, i), dedupPair seen)] else ncs
    | none => ncs
  match nd with
  | .sent s _ _ =>
      let newc := dedupPair (s.consts.filter fun c => !seen.contains c)
      if newc.isEmpty then reg else reg.map fun p => (p.1, p.2 ++ newc.filter fun c => !p.2.contains c)
  | _ => reg

def world1? : Node → Option Nat
  | .access a _ => some a
  | _ => none

def hasAccessFrom (b : Branch) (w : Nat) : Bool :=
  b.nodes.any fun | .access a _ => a == w | _ => false

/-- `UnserialWorlds.after_node_add` (the branch already contains the node) -/
def updUnserial (b' : Branch) (nd : Node) (u : List Nat) : List Nat :=
  nd.worlds.foldl (fun u w =>
    if world1? nd == some w || hasAccessFrom b' w then u.filter (· != w)
    else if u.contains w then u else u ++ [w]) u

/-- `BaseClosureRule._branch_target_hook` of the closure group on the node just added (index i) to `b'`.
    Every `_find_closing_node` (fde.DesignationClosure, k3.GlutClosure, lp.GapClosure, cpl.ContradictionClosure) looks for
    the SAME sentence with the other marker or for `-s` (the negatum of a negated sentence, the negation otherwise): the
    constraints examined are those around the BASE sentence of the new node.  (A pair `¬¬x+`, `¬x+` added in this order is
    therefore not seen until the double negation is unfolded.) -/
def closeHook (L : LogicData) (b' : Branch) (i : Nat) : Node → Option CloseT
  | .sent s d w =>
      if L.identCloses (.sent s d w) then some (.ident i)
      else if L.closure.lookup (b'.litSet L s.base w) == some true then some (.lits s.base w)
      else none
  | _ => none

namespace BranchH

/-- all `AFTER_NODE_ADD` listeners, for node `nd` appended to branch `b` (state before the append) -/
def addNode (L : LogicData) (b : Branch) (h : BranchH) (nd : Node) : BranchH :=
  let i := b.nodes.length
  let b' : Branch := { b with nodes := b.nodes ++ [nd] }
  { h with
    caches := (matching nd).foldl (fun m r => amod [] (· ++ [i]) m r) h.caches
    windex := match nd with
      | .access a c => if h.windex.contains (a, c) then h.windex else h.windex ++ [(a, c)]
      | _ => h.windex
    unserial := updUnserial b' nd h.unserial
    ncs := updNcs L b i nd h.ncs
    closeT := match h.closeT with
      | some t => some t
      | none => closeHook L b' i nd }

/-- `Branch.extend(nodes)`: one append (and one round of listeners) per node -/
def grow (L : LogicData) : Branch → BranchH → List Node → BranchH
  | _, h, [] => h
  | b, h, nd :: rest => grow L { b with nodes := b.nodes ++ [nd] } (h.addNode L b nd) rest

/-- `AFTER_NODE_TICK` listeners: `FilterNodeCache` with `ignore_ticked` discards the node -/
def tick (h : BranchH) (i : Nat) : BranchH :=
  { h with caches := h.caches.map fun p => (p.1, if ignoreTicked p.1 then p.2.filter (· != i) else p.2) }

def ticks (h : BranchH) (is : List Nat) : BranchH := is.foldl tick h

/-- helper state of a branch that grew from `bOld` (helper state `h`) to `bNew` -/
def upd (L : LogicData) (bOld bNew : Branch) (h : BranchH) : BranchH :=
  (h.grow L bOld (bNew.nodes.drop bOld.nodes.length)).ticks
    (bNew.ticked.filter fun i => !bOld.ticked.contains i)

end BranchH

/-- search state: the tableau and the helper state of the rules -/
structure SState where
  tab : Tableau
  hs : List BranchH
  garbages : List (RuleId × List (Nat × Nat)) := []
  maxWorlds : Nat
  maxConsts : Nat := 0
  deriving Inhabited

def SState.garbage (s : SState) (r : RuleId) : List (Nat × Nat) := aget [] s.garbages r

/-- number of modal operator occurrences (`MaxWorlds.ModalsCounts`) -/
def modalCount : Sent → Nat
  | .atom _ _ => 0
  | .pred _ _ => 0
  | .quant _ _ _ b => modalCount b
  | .op1 o a => (if o.isModal then 1 else 0) + modalCount a
  | .op2 _ a b => modalCount a + modalCount b

/-- `MaxWorlds._compute` on the trunk branch -/
def computeMaxWorlds (b : Branch) : Nat :=
  1 + (realWorlds b).length +
    (b.nodes.zipIdx.map fun (nd, i) =>
      match nd with
      | .sent s _ _ => if b.ticked.contains i then 0 else modalCount s
      | _ => 0).sum

/-- the state after `build_trunk`: one branch; every node went through the `after_node_add` listeners -/
def SState.init (L : LogicData) (nodes : List Node) : SState :=
  let b : Branch := { nodes := nodes }
  { tab := [b], hs := [({} : BranchH).grow L { nodes := [] } nodes], maxWorlds := computeMaxWorlds b,
    maxConsts := computeMaxConsts b }

/-- the cache as the next `gc()` leaves it: entries not queued for release -/
def SState.live (s : SState) (r : RuleId) (bi : Nat) : List Nat :=
  match s.hs[bi]? with
  | some h => (h.cache r).filter fun i => !(s.garbage r).contains (bi, i)
  | none => []

end Ptx.Search
