/-
  Ptx.Search.InvQ — the quantifier layer of the invariant (`NodeConsts`, new-constant ticks) and its executable check.
  Kept apart from `Inv` (Ptx/Search/Inv.lean), whose preservation by every event is proved: `InvQ` is, so far, established
  at run time only (`invBadQ`, sound by `invQ_of_invBadQ`, evaluated by the driver on every state of every real run).
-/
import Ptx.Search.Inv
namespace Ptx.Search
open Ptx

/-- the instance of node i for constant c is on the branch -/
def constDoneB (L : LogicData) (b : Branch) (i : Nat) (c : Nat × Nat) : Bool :=
  match b.nodes[i]? with
  | some (.sent sn d w) =>
      match L.ruleFor sn d with
      | some (r, whole, l0) => groupsDone b (instGroups whole l0 w (some c) none r)
      | none => false
  | _ => false

/-- is (k, i) a registered entry of the `NodeConsts` dictionaries -/
def ncReg (ncs : List ((RuleKey × Nat) × List (Nat × Nat))) (k : RuleKey) (i : Nat) : Bool := ncs.any fun p => p.1 == (k, i)

/-- the quantifier layer of the invariant for one branch: a statement about the nodes and the `NodeConsts` dictionaries only -/
structure QInv (L : LogicData) (b : Branch) (ncs : List ((RuleKey × Nat) × List (Nat × Nat))) : Prop where
  /-- every node that passes the filter of an each-constant rule is registered in its `NodeConsts` -/
  ncRegistered : ∀ k i nd, b.nodes[i]? = some nd → nodeKey nd = some k → isEachConst L k = true → ncReg ncs k i = true
  /-- a registered entry belongs to a node of the branch with that key -/
  ncKey : ∀ k i, ncReg ncs k i = true → ∃ nd, b.nodes[i]? = some nd ∧ nodeKey nd = some k
  /-- for a registered node, every constant of the branch is unapplied or has its instance on the branch -/
  ncDone : ∀ k i, ncReg ncs k i = true → ∀ c ∈ b.consts, c ∈ aget [] ncs (k, i) ∨ constDoneB L b i c = true
  /-- the unapplied constants are constants of the branch -/
  ncSub : ∀ k i c, c ∈ aget [] ncs (k, i) → c ∈ b.consts

abbrev BranchInvQ (L : LogicData) (b : Branch) (h : BranchH) : Prop := QInv L b h.ncs

/-- a ticked node of a new-constant rule has its instance for some constant of the branch (or the branch carries a quit
    flag; or the branch has no constant at all).  A property of the BRANCH alone; it can only fail with vacuous quantification
    (the instance does not mention the witness constant), which is why it is a hypothesis of the saturation theorem and not
    part of the inductive invariant. -/
def TickedQ (L : LogicData) (b : Branch) : Prop :=
  ∀ i ∈ b.ticked, ∀ sn d w r whole l0, b.nodes[i]? = some (.sent sn d w) → L.ruleFor sn d = some (r, whole, l0) →
      r.witness = .newConst → b.hasQuit = true ∨ b.constList = [] ∨ ∃ c ∈ b.constList, constDoneB L b i c = true

def InvQ (L : LogicData) (s : SState) : Prop :=
  ∀ (bi : Nat) b h, s.tab[bi]? = some b → s.hs[bi]? = some h → b.closed = false → BranchInvQ L b h

/-! ### executable check -/

def ckNcRegistered (L : LogicData) (b : Branch) (h : BranchH) : Bool :=
  b.nodes.zipIdx.all fun (nd, i) =>
    match nodeKey nd with
    | some k => !isEachConst L k || ncReg h.ncs k i
    | none => true

def ckNcDone (L : LogicData) (b : Branch) (h : BranchH) : Bool :=
  h.ncs.all fun p => b.consts.all fun c => (h.nc p.1.1 p.1.2).contains c || constDoneB L b p.1.2 c

def ckNcKey (b : Branch) (h : BranchH) : Bool :=
  h.ncs.all fun p =>
    match b.nodes[p.1.2]? with
    | some nd => nodeKey nd == some p.1.1
    | none => false

def ckNcSub (b : Branch) (h : BranchH) : Bool :=
  h.ncs.all fun p => (h.nc p.1.1 p.1.2).all b.consts.contains

def ckTickedQ (L : LogicData) (b : Branch) : Bool :=
  b.ticked.all fun i =>
    match b.nodes[i]? with
    | some (.sent sn d _) =>
        match L.ruleFor sn d with
        | some (r, _, _) => !(r.witness == .newConst) || b.hasQuit || b.constList.isEmpty || b.constList.any (constDoneB L b i)
        | none => true
    | _ => true

def branchChecksQ (L : LogicData) (b : Branch) (h : BranchH) : List (String × Bool) :=
  [("nc-registered", ckNcRegistered L b h), ("nc-key", ckNcKey b h), ("nc-done", ckNcDone L b h), ("nc-sub", ckNcSub b h), ("ticked-q", ckTickedQ L b)]

def invBadQ (L : LogicData) (s : SState) : List String :=
  s.tab.zipIdx.flatMap fun (b, bi) =>
    if b.closed then [] else
    match s.hs[bi]? with
    | some h => (branchChecksQ L b h).filterMap fun p => if p.2 then none else some (p.1 ++ s!" b={bi}")
    | none => []

end Ptx.Search
