/-
  Ptx.Search.Targets — `Rule._get_targets(branch)` of every rule family as a function of the search state
  (the SET of targets: which one is taken is a free choice), the side effect of a search (`release` / `gc`),
  and `applyTarget`: the step on the tableau through `applyStep` plus the event listeners
  (`after_branch_add`, `after_node_add`, `after_node_tick`, `after_apply`).

    closure group                 BaseClosureRule._get_targets           the cached BranchTarget, if any
    table rule, witness none      GetNodeTargetsRule / DefaultNodeRule   one target per cached node
    table rule, new world         ModalOperatorRule._get_targets + kfde.PossibilityDesignated._get_node_targets
    table rule, each world        ModalOperatorRule._get_targets + kfde.NecessityDesignated._get_node_targets
    Reflexive / Transitive / Symmetric   AccessNodeRule._get_targets + rules.access.*._get_node_targets
    Serial                        rules.access.Serial._get_targets
  Quantifier and identity rules (witness new / each constant, IdentityIndiscernability) are NOT modelled:
  their target set is empty here and the correspondence does not compare them.
-/
import Ptx.Search.State
namespace Ptx.Search
open Ptx

def flagTargets (bi : Nat) (r : Rule) (quit : Bool) (live : List Nat) : List Step :=
  if quit then [] else live.map fun i => .quit bi "quit" (if r.ticks then some i else none)

/-- targets of the table rule with key k on open branch b -/
def tableTargets (L : LogicData) (mw mc bi : Nat) (b : Branch) (h : BranchH) (live : List Nat) (k : RuleKey) : List Step :=
  match L.rule? k with
  | none => []
  | some r =>
    match r.witness with
    | .none => live.map fun i => .rule bi i none none
    | .newWorld =>
        if exceeded mw b then flagTargets bi r (h.quit k) live
        else live.map fun i => .rule bi i none (some (nextWorld b))
    | .eachWorld =>
        if exceeded mw b then flagTargets bi r (h.quit k) live
        else live.flatMap fun (i : Nat) =>
          match b.nodes[i]? with
          | some (Node.sent s d (some w1)) =>
              match L.ruleFor s d with
              | some (r', whole, l0) =>
                  ((succs h.windex w1).filter fun w2 =>
                    !(h.nw k).contains (i, w2) &&
                    !groupsDone b (instGroups whole l0 (some w1) none (some w2) r')).map
                    fun w2 => .rule bi i none (some w2)
              | none => []
          | _ => []
    | .newConst =>
        -- NarrowQuantifierRule._get_targets: the constant limit is per node (its world); then `_get_node_targets` with
        -- `branch.new_constant()`
        live.flatMap fun (i : Nat) =>
          match b.nodes[i]? with
          | some (Node.sent _ _ w) =>
              if constExceeded mc b w then flagTargets bi r (h.quit k) [i]
              else [.rule bi i (some (nextConst b)) none]
          | _ => []
    | .eachConst =>
        -- ExtendedQuantifierRule._get_node_targets: one target per unapplied constant; on a branch without constants the
        -- first constant, unless its instance is already there
        live.flatMap fun (i : Nat) =>
          match b.nodes[i]? with
          | some (Node.sent s d w) =>
              if constExceeded mc b w then flagTargets bi r (h.quit k) [i]
              else
                let un := h.nc k i
                if !b.consts.isEmpty && un.isEmpty then []
                else if !un.isEmpty then un.map fun c => .rule bi i (some c) none
                else
                  match L.ruleFor s d with
                  | some (r', whole, l0) =>
                      if groupsDone b (instGroups whole l0 w (some (0, 0)) none r') then []
                      else [.rule bi i (some (0, 0)) none]
                  | none => []
          | _ => []

/-- all worlds of node i have their loop in the world index -/
def allLooped (wi : List (Nat × Nat)) (nd : Node) : Bool := nd.worlds.all fun w => wi.contains (w, w)

def frameTargets (L : LogicData) (s : SState) (bi : Nat) (b : Branch) (h : BranchH) (live : List Nat) (fr : FrameRule) : List Step :=
  if !L.frameAllowed fr || exceeded s.maxWorlds b then [] else
  match fr with
  | .reflexive =>
      live.flatMap fun (i : Nat) =>
        match b.nodes[i]? with
        | some nd => (nd.worlds.filter fun w => !h.windex.contains (w, w)).map fun w => .frame bi .reflexive w w w
        | none => []
  | .transitive =>
      live.flatMap fun (i : Nat) =>
        match b.nodes[i]? with
        | some (Node.access a c) =>
            ((succs h.windex c).filter fun e => !h.windex.contains (a, e)).map fun e => .frame bi .transitive a c e
        | _ => []
  | .symmetric =>
      live.flatMap fun (i : Nat) =>
        match b.nodes[i]? with
        | some (Node.access a c) => if h.windex.contains (c, a) then [] else [.frame bi .symmetric a c 0]
        | _ => []
  | .serial =>
      (h.unserial.filter fun w => h.lastSerial != some w).map fun w => .frame bi .serial w (nextWorld b) 0

/-- `cpl.IdentityIndiscernability._get_node_targets`: identity node i × predication node j at the same world, substituting
    one side of the identity for the other (`identAdd`, the calculus' own function), skipping self-identities and nodes that are
    already on the branch (`branch.has` of the sentence AT THAT WORLD) -/
def identTargets (L : LogicData) (bi : Nat) (b : Branch) (live : List Nat) : List Step :=
  if !L.closesSelfIdNeg then [] else
  live.flatMap fun (i : Nat) =>
    (predIdx b).flatMap fun (j : Nat) =>
      if j == i then [] else
      match b.nodes[i]?, b.nodes[j]? with
      | some ni, some np =>
          match identAdd ni np with
          | some nd => if LogicData.isSelfIdentity nd || b.hasNode nd then [] else [.ident bi i j]
          | none => []
      | _, _ => []

def closeStep (bi : Nat) : CloseT → Step
  | .lits s w => .close bi s w
  | .ident n => .closeIdent bi n

/-- `rule._get_targets(branch)` for open branch `bi` -/
def targets (L : LogicData) (s : SState) (r : RuleId) (bi : Nat) : List Step :=
  match s.tab[bi]?, s.hs[bi]? with
  | some b, some h =>
    if b.closed then [] else
    match r with
    | .closure => (h.closeT.map (closeStep bi)).toList
    | .table k => tableTargets L s.maxWorlds s.maxConsts bi b h (s.live r bi) k
    | .frame fr => frameTargets L s bi b h (s.live r bi) fr
    | .ident => identTargets L bi b (s.live r bi)
  | _, _ => []

/-- the rules of logic L -/
def ruleIds (L : LogicData) : List RuleId :=
  [.closure] ++ L.rules.map (fun kr => .table kr.1) ++
    ([FrameRule.reflexive, .transitive, .symmetric, .serial].filter L.frameAllowed).map .frame ++
    (if L.closesSelfIdNeg then [.ident] else [])

/-- what the scheduler may take: any target of any rule on any open branch, except that the closure group comes
    first on a branch (`Tableau.logic` setter creates the group 'closure' before all others and `Tableau.next`
    walks the groups in order for the branch it looks at) -/
def enabled (L : LogicData) (s : SState) (r : RuleId) (bi : Nat) : List Step :=
  match r with
  | .closure => targets L s r bi
  | _ => if (targets L s .closure bi).isEmpty then targets L s r bi else []

/-! ### the side effect of looking for targets -/

/-- does `_get_targets` release this cached node (`FilterNodeCache.release`) -/
def releasable (L : LogicData) (mw mc : Nat) (b : Branch) (h : BranchH) (r : RuleId) (i : Nat) : Bool :=
  match r with
  | .closure => false
  | .table k =>
      match L.rule? k with
      | some rl =>
          ((rl.witness == .newWorld || rl.witness == .eachWorld) && exceeded mw b) ||
          ((rl.witness == .newConst || rl.witness == .eachConst) &&
            (match b.nodes[i]? with | some (Node.sent _ _ w) => constExceeded mc b w | _ => false))
      | none => false
  | .frame .reflexive =>
      exceeded mw b || (match b.nodes[i]? with | some nd => allLooped h.windex nd | none => false)
  | .frame .transitive => exceeded mw b
  | .frame .symmetric =>
      exceeded mw b || (match b.nodes[i]? with | some (Node.access a c) => h.windex.contains (c, a) | _ => false)
  | .frame .serial => false
  | .ident => false

/-- `FilterNodeCache.gc()` of rule r -/
def SState.gc (s : SState) (r : RuleId) : SState :=
  let g := s.garbage r
  { s with
    hs := if g.isEmpty then s.hs else s.hs.zipIdx.map fun (h, bi) =>
      { h with caches := amod [] (fun c => c.filter (fun i => !g.contains (bi, i))) h.caches r }
    garbages := if g.isEmpty then s.garbages else amod [] (fun _ => []) s.garbages r }

/-- one `rule.target(branch)` call: `gc()`, then every cached node of the branch is looked at and the dead ones released -/
def SState.search (L : LogicData) (s : SState) (r : RuleId) (bi : Nat) : SState :=
  let s1 := s.gc r
  match s1.tab[bi]?, s1.hs[bi]? with
  | some b, some h =>
      if b.closed then s1 else
      match ((h.cache r).filter (releasable L s.maxWorlds s.maxConsts b h r)).map (fun i => (bi, i)) with
      | [] => s1
      | rel => { s1 with garbages := amod [] (fun _ => rel) s1.garbages r }
  | _, _ => s1

/-! ### applying a target -/

/-- `AFTER_APPLY` listeners of rule r on the target branch (`NodesWorlds`, `QuitFlag`) -/
def afterApply (L : LogicData) (r : RuleId) (st : Step) (h : BranchH) : BranchH :=
  match r with
  | .table k =>
      match L.rule? k with
      | some rl =>
          let isFlag := match st with | .quit .. => true | _ => false
          let h1 : BranchH :=
            if rl.witness != .none then
              { h with quits := amod false (fun _ => isFlag) h.quits k }
            else h
          match rl.witness, st with
          | .eachWorld, .rule _ n _ (some w') => { h1 with nws := amod [] (· ++ [(n, w')]) h1.nws k }
          | .eachConst, .rule _ n (some c) _ =>
              -- NodeConsts.after_apply: the constant is no longer unapplied for this node
              { h1 with ncs := h1.ncs.map fun p => if p.1 == (k, n) then (p.1, p.2.filter (· != c)) else p }
          | _, _ => h1
      | none => h
  | _ => h

/-- apply target `st` of rule `r`: the tableau step (must be a legal step of the calculus) and all listeners.
    New branches are copies of the target branch BEFORE it is extended (`AdzHelper._apply`), so they inherit its
    helper state (`BranchCache.after_branch_add`) and then see their own nodes and tick. -/
def applyTarget (L : LogicData) (s : SState) (r : RuleId) (st : Step) : Option SState :=
  let bi := st.branch
  match s.tab[bi]?, s.hs[bi]?, applyStep L s.tab st with
  | some b, some h, some t' =>
      -- the history entry of this application names the target branch only: its `lastSerial` is set / reset, a forked
      -- branch has no entry of its own
      let ls : Option Nat := match r, st with
        | .frame .serial, .frame _ .serial _ w2 _ => some w2
        | _, _ => none
      let own : BranchH :=
        match t'[bi]? with
        | some bn => afterApply L r st (({ h with lastSerial := ls } : BranchH).upd L b bn)
        | none => h
      some { s with
        tab := t'
        hs := s.hs.set bi own ++ (t'.drop s.tab.length).map (fun bn => ({ h with lastSerial := none } : BranchH).upd L b bn) }
  | _, _, _ => none

/-- one transition of the search model: a search (which may release cached nodes) or the application of a target.
    `Tableau.step` applies a target that `rule.target(branch)` has just returned: the application of a target of rule r on
    branch bi therefore comes with the search of r on bi (its releases included); the target is one of the targets in the
    state BEFORE that search (`enabled`; the transition relation `SStep` below requires it). -/
inductive Ev where
  | search (r : RuleId) (bi : Nat)
  | apply (r : RuleId) (st : Step)
  deriving Inhabited

def stepEv (L : LogicData) (s : SState) : Ev → Option SState
  | .search r bi => some (s.search L r bi)
  | .apply r st => applyTarget L (s.search L r st.branch) r st

/-- the legal transitions: any search; the application of any enabled target of any rule of the logic -/
def Ev.legal (L : LogicData) (s : SState) : Ev → Prop
  | .search _ _ => True
  | .apply r st => r ∈ ruleIds L ∧ st ∈ enabled L s r st.branch

deriving instance DecidableEq for Step

/-- executable form of `Ev.legal` -/
def Ev.legalB (L : LogicData) (s : SState) : Ev → Bool
  | .search _ _ => true
  | .apply r st => (ruleIds L).contains r && (enabled L s r st.branch).contains st

/-- run a list of events, every one of which must be legal in the state it is taken in -/
def runLegal (L : LogicData) : SState → List Ev → Option SState
  | s, [] => some s
  | s, e :: es => if e.legalB L s then (stepEv L s e).bind (runLegal L · es) else none

def runEvs (L : LogicData) : SState → List Ev → Option SState
  | s, [] => some s
  | s, e :: es => (stepEv L s e).bind (runEvs L · es)

end Ptx.Search
