/-
  Ptx.Search.Side — the decidable side conditions on the regenerated data of a logic under which the search-layer
  theorems hold (checked per logic by `decide +kernel`, Ptx/Gen/ObH_<L>.lean `<L>_search_side`; the driver request
  `searchside <L>` evaluates the same Booleans).  Executable, core only.
-/
import Ptx.Search.Targets
namespace Ptx.Search
open Ptx

/-- each-world rules do not tick their node -/
def eachWorldNoTickB (L : LogicData) : Bool :=
  L.rules.all fun kr => !(kr.2.witness == .eachWorld) || !kr.2.ticks

/-- a node template of a double-negation row as a constraint around the doubly negated sentence's core `x`
    (`lhs` = x, `whole` = ¬x) -/
def dnLit : AddT → Option Lit
  | .node ⟨.lhs, d, false⟩ => some ⟨false, d⟩
  | .node ⟨.whole, d, false⟩ => some ⟨true, d⟩
  | _ => none

/-- the groups the double-negation row for marker d adds, as constraints around `x` -/
def dnRule (L : LogicData) (d : Option Bool) : Option (List (List Lit)) :=
  match L.rule? ⟨.op1 .neg, true, d⟩ with
  | some r => if r.witness == .none then mapOpt (mapOpt dnLit) r.branches else none
  | none => none

/-- does constraint set T around `x` contain what constraint `l` around `¬x` entails on a branch whose `¬¬x` nodes are done -/
def dnEntailed (L : LogicData) (T : List Lit) (l : Lit) : Bool :=
  if l.negated then
    match dnRule L l.des with
    | some gs => gs.any fun g => g.all T.contains
    | none => false
  else T.contains ⟨true, l.des⟩

/-- side condition on the regenerated closure table and double-negation rows -/
def dnegClosureB (L : LogicData) : Bool :=
  (L.closure.lookup [] != some true) &&
  (L.markers.all fun d =>
    match dnRule L d with
    | some gs => gs.all fun g => g.all L.allLits.contains
    | none => false) &&
  ((sublists L.allLits).all fun S =>
    L.closure.lookup S != some true ||
    (sublists L.allLits).all fun T => !(S.all (dnEntailed L T)) || L.closure.lookup T == some true)

/-- all side conditions: each-world rules do not tick; access rules only in modal logics; the closure table and the
    double-negation rows carry closing constraint sets around `¬x` to closing sets around `x` -/
def searchSideB (L : LogicData) : Bool :=
  eachWorldNoTickB L && (L.modal || L.frameRules.isEmpty) && dnegClosureB L

/-- side conditions on the regenerated rows: new-constant rules tick their node, each-constant rules do not -/
def quantTicksB (L : LogicData) : Bool :=
  L.rules.all fun kr => (!(kr.2.witness == .newConst) || kr.2.ticks) && (!(kr.2.witness == .eachConst) || !kr.2.ticks)

def searchSideBad (L : LogicData) : List String :=
  (if quantTicksB L then [] else ["quantifier-ticks"]) ++
  (if eachWorldNoTickB L then [] else ["each-world-rule-ticks"]) ++
  (if L.modal || L.frameRules.isEmpty then [] else ["access-rules-in-non-modal-logic"]) ++
  (if dnegClosureB L then [] else ["double-negation-closure"])

end Ptx.Search
