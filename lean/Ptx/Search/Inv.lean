/-
  Ptx.Search.Inv — the invariant relating every helper's state to the branch it belongs to
  (`Inv`, a Prop; proved for the initial state and preserved by every transition in Ptx/Proofs/Search*.lean)
  and an executable check of the same clauses (`invBad`, evaluated by the driver on the states of real runs:
  a test aid, not part of the proofs).
-/
import Ptx.Search.Targets
import Ptx.Lang.Derived
namespace Ptx.Search
open Ptx

/-- what a ticked node has received: a whole group of its rule (for some witness world where the rule introduces one) -/
def tickDone (L : LogicData) (b : Branch) (s : Sent) (d : Option Bool) (w : Option Nat) : Prop :=
  ∃ r whole l0, L.ruleFor s d = some (r, whole, l0) ∧ r.ticks = true ∧
    (b.hasQuit = true ∨
      match r.witness with
      | .none => groupsDone b (instGroups whole l0 w none none r) = true
      | .newWorld => ∃ w' ∈ b.worldList, groupsDone b (instGroups whole l0 w none (some w') r) = true
      | _ => True)

/-- invariant of ONE open branch `b` (index `bi`) with helper state `h` -/
structure BranchInv (L : LogicData) (s : SState) (bi : Nat) (b : Branch) (h : BranchH) : Prop where
  /-- `WorldIndex` is exactly the access nodes -/
  windex : ∀ a c, (a, c) ∈ h.windex ↔ Node.access a c ∈ b.nodes
  /-- `UnserialWorlds` is exactly the worlds on the branch without an outgoing access node -/
  unserial : ∀ w, w ∈ h.unserial ↔ (w ∈ b.nodes.flatMap Node.worlds ∧ hasAccessFrom b w = false)
  /-- a cached index is a node of the branch that passes the rule's filter and (if the rule ignores ticked nodes) is unticked -/
  cacheSound : ∀ r i, i ∈ h.cache r → ∃ nd, b.nodes[i]? = some nd ∧ matchesRule r nd = true ∧
      (ignoreTicked r = true → i ∉ b.ticked)
  /-- every such node is cached and not queued for release, unless its release condition holds (and it stays dead) -/
  cacheComplete : ∀ r i nd, b.nodes[i]? = some nd → matchesRule r nd = true →
      (ignoreTicked r = true → i ∉ b.ticked) → i ∈ s.live r bi ∨ releasable L s.maxWorlds s.maxConsts b h r i = true
  /-- every recorded (node, world) pair of `NodesWorlds` has its instance on the branch -/
  nwDone : ∀ k i w', (i, w') ∈ h.nw k → ∃ sn d w r whole l0, b.nodes[i]? = some (.sent sn d w) ∧
      L.ruleFor sn d = some (r, whole, l0) ∧ groupsDone b (instGroups whole l0 w none (some w') r) = true
  /-- only ticking rules tick, and a ticked node has received its group (or the branch carries a quit flag) -/
  ticked : ∀ i ∈ b.ticked, ∃ sn d w, b.nodes[i]? = some (.sent sn d w) ∧ tickDone L b sn d w
  /-- no cached closure target: no identity / existence closer on the branch, and no closure rule applies to the constraints
      around a base sentence that is not itself a negation (so around every literal; `¬¬x+` followed by `¬x+` is the pair the
      hooks do not see until the double negation is unfolded) -/
  closeNone : h.closeT = none → ∀ sn d w, Node.sent sn d w ∈ b.nodes →
      (sn.base.isNeg = false → (L.closure.lookup (b.litSet L sn.base w) == some true) = false) ∧
      L.identCloses (.sent sn d w) = false
  /-- a cached closure target names constraints that are on the branch -/
  closeSome : ∀ t, h.closeT = some t →
      match t with
      | .lits sn w => ∃ b0 : Branch, (∃ ns, b.nodes = b0.nodes ++ ns) ∧ L.closure.lookup (b0.litSet L sn w) = some true
      | .ident n => ∃ nd, b.nodes[n]? = some nd ∧ L.identCloses nd = true
  /-- in a modal logic every sentence node carries a world -/
  worlded : L.modal = true → ∀ sn d w, Node.sent sn d w ∈ b.nodes → w.isSome = true
  /-- the world the Serial rule skips has nothing at it yet -/
  lastSerial : ∀ w2, h.lastSerial = some w2 → ∀ sn d, Node.sent sn d (some w2) ∉ b.nodes

/-- invariant of a search state -/
structure Inv (L : LogicData) (s : SState) : Prop where
  len : s.hs.length = s.tab.length
  /-- entries queued for release name nodes of branches of the tableau (`_garbage` holds (branch, node) objects) -/
  gb : ∀ r p, p ∈ s.garbage r → ∃ b, s.tab[p.1]? = some b ∧ p.2 < b.nodes.length
  branch : ∀ bi b h, s.tab[bi]? = some b → s.hs[bi]? = some h → b.closed = false → BranchInv L s bi b h

/-! ### executable check (driver): every clause of `Inv` as a Boolean; `inv_of_invBad` (Ptx/Proofs/SearchInv.lean) -/

def tickDoneB (L : LogicData) (b : Branch) (s : Sent) (d : Option Bool) (w : Option Nat) : Bool :=
  match L.ruleFor s d with
  | some (r, whole, l0) =>
      r.ticks && (b.hasQuit ||
        match r.witness with
        | .none => groupsDone b (instGroups whole l0 w none none r)
        | .newWorld => b.worldList.any fun w' => groupsDone b (instGroups whole l0 w none (some w') r)
        | _ => true)
  | none => false

def accPairs (b : Branch) : List (Nat × Nat) := b.nodes.filterMap fun | .access a c => some (a, c) | _ => none

def ckWindex (b : Branch) (h : BranchH) : Bool :=
  h.windex.all (accPairs b).contains && (accPairs b).all h.windex.contains

def ckUnserial (b : Branch) (h : BranchH) : Bool :=
  h.unserial.all (fun w => (b.nodes.flatMap Node.worlds).contains w && !hasAccessFrom b w) &&
    (b.nodes.flatMap Node.worlds).all (fun w => hasAccessFrom b w || h.unserial.contains w)

/-- over the keys of the cache dictionary (a rule without entry has the empty cache) -/
def ckCacheSound (b : Branch) (h : BranchH) : Bool :=
  h.caches.all fun p => (h.cache p.1).all fun i =>
    match b.nodes[i]? with
    | some nd => matchesRule p.1 nd && (!ignoreTicked p.1 || !b.ticked.contains i)
    | none => false

/-- over the nodes and, per node, the rules whose filter it passes (`matching`) -/
def ckCacheComplete (L : LogicData) (s : SState) (bi : Nat) (b : Branch) (h : BranchH) : Bool :=
  b.nodes.zipIdx.all fun (nd, i) => (matching nd).all fun r =>
    (ignoreTicked r && b.ticked.contains i) || (s.live r bi).contains i || releasable L s.maxWorlds s.maxConsts b h r i

def ckNw (L : LogicData) (b : Branch) (h : BranchH) : Bool :=
  h.nws.all fun p => (h.nw p.1).all fun (i, w') =>
    match b.nodes[i]? with
    | some (.sent sn d w) =>
        match L.ruleFor sn d with
        | some (r, whole, l0) => groupsDone b (instGroups whole l0 w none (some w') r)
        | none => false
    | _ => false

def ckTicked (L : LogicData) (b : Branch) : Bool :=
  b.ticked.all fun i =>
    match b.nodes[i]? with
    | some (.sent sn d w) => tickDoneB L b sn d w
    | _ => false

def ckClose (L : LogicData) (b : Branch) (h : BranchH) : Bool :=
  match h.closeT with
  | none => b.nodes.all fun nd =>
      match nd with
      | .sent sn _ w => (sn.base.isNeg || !(L.closure.lookup (b.litSet L sn.base w) == some true)) && !L.identCloses nd
      | _ => true
  | some (.lits sn w) => L.closure.lookup (b.litSet L sn w) == some true
  | some (.ident n) =>
      match b.nodes[n]? with
      | some nd => L.identCloses nd
      | none => false

def ckWorlded (L : LogicData) (b : Branch) : Bool :=
  !L.modal || b.nodes.all fun | .sent _ _ w => w.isSome | _ => true

def ckLastSerial (b : Branch) (h : BranchH) : Bool :=
  match h.lastSerial with
  | some w2 => b.nodes.all (fun | .sent _ _ (some w) => !(w == w2) | _ => true)
  | none => true

def branchChecks (L : LogicData) (s : SState) (bi : Nat) (b : Branch) (h : BranchH) : List (String × Bool) :=
  [("windex", ckWindex b h), ("unserial", ckUnserial b h), ("cache-sound", ckCacheSound b h),
   ("cache-complete", ckCacheComplete L s bi b h), ("nodes-worlds", ckNw L b h), ("ticked", ckTicked L b),
   ("closure", ckClose L b h), ("worlded", ckWorlded L b), ("last-serial", ckLastSerial b h)]

def branchBad (L : LogicData) (s : SState) (bi : Nat) (b : Branch) (h : BranchH) : List String :=
  (branchChecks L s bi b h).filterMap fun p => if p.2 then none else some (p.1 ++ s!" b={bi}")

/-- failing clauses of the invariant on the open branches (empty = `Inv` holds: `inv_of_invBad`) -/
def invBad (L : LogicData) (s : SState) : List String :=
  (if s.hs.length == s.tab.length then [] else ["length"]) ++
  (if s.garbages.all (fun p => (s.garbage p.1).all fun q => match s.tab[q.1]? with | some b => decide (q.2 < b.nodes.length) | none => false) then [] else ["garbage"]) ++
  (s.tab.zipIdx.flatMap fun (b, bi) =>
    if b.closed then [] else
    match s.hs[bi]? with
    | some h => branchBad L s bi b h
    | none => ["length"])

end Ptx.Search
