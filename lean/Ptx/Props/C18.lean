/-
  Ptx.Props.C18 — ordered-set containers stay a set and a sequence at once.

  Models: Ptx/Cont/QSet.lean (`qset`: {seq, set} + subclass hooks), Ptx/Cont/LinqSet.lean
  (`linqset`: {chain, table, len}), Ptx/Cont/Predicates.lean (`Predicates`: qset + lookup
  index).  They mirror pytableaux WITH the candidate fixes tools/fix_C18_{1,2,3,4}.diff; the
  two operations as they are in the unfixed tree are kept as `LinqSet.setIdxUnfixed` /
  `QSet.setSliceUnfixed` and shown below to break the invariant (the reported defects).

  Specification: Ptx/Cont/Spec.lean — one `List α` without duplicates, the obvious list
  operations, the inherited methods being the same `Mixin` programs over list primitives.

  For each container K:
    C18_K_inv_init     the empty container satisfies the invariant
    C18_K_inv_step     every operation of the language preserves it
    C18_K_refines_step one operation: abstraction commutes, outcome (incl. exception class and
                       any returned value / container) agrees with the specification
    C18_refines_K      all finite operation sequences from empty (induction): invariant,
                       abstraction = Spec.run, outcome lists agree, returned containers
                       satisfy the invariant
    C18_K_raise_atomic a raising non-bulk operation returns the identical state
-/
import Ptx.Proofs.ContAtomic
import Ptx.Proofs.ContPreds
namespace Ptx.Props.C18
open Ptx Ptx.Cont

/-! ## qset -/

section qset
variable {α : Type} [DecidableEq α] (le : α → α → Bool)

/-- `qset`: the sequence has no duplicates and the set holds exactly its elements -/
structure QInv (q : QSet α Unit) : Prop where
  nodup : q.seq.Nodup
  set_eq : ∀ x, x ∈ q.set ↔ x ∈ q.seq

abbrev qsetP : Prims (QSet α Unit) α α := QSet.prims (plainHooks α le)
abbrev qsetSig : Sig α α := plainSig α le true false

theorem qrel_iff (q : QSet α Unit) (l : List α) : QRel (fun _ _ => True) q l ↔ QInv q ∧ q.seq = l := by
  constructor
  · rintro ⟨h1, h2, h3, _⟩; subst h1; exact ⟨⟨h2, h3⟩, rfl⟩
  · rintro ⟨⟨h2, h3⟩, h1⟩; subst h1; exact ⟨rfl, h2, h3, trivial⟩

theorem C18_qset_inv_init : QInv (qsetP le).empty :=
  ⟨List.nodup_nil, fun _ => Iff.rfl⟩

example : QInv (QSet.empty (plainHooks Nat fun a b => a ≤ b)) := C18_qset_inv_init _

/-- one operation: the invariant is kept, the abstraction commutes with the specification
    step, the outcome is the specification's (returned containers compared by abstraction) -/
theorem C18_qset_refines_step (q : QSet α Unit) (op : Op α α) (h : QInv q) :
    QInv (step (qsetP le) q op).1 ∧
    (step (qsetP le) q op).1.seq = (Spec.step (qsetSig le) q.seq op).1 ∧
    (step (qsetP le) q op).2.map QSet.seq = (Spec.step (qsetSig le) q.seq op).2 := by
  have hs := (QSet.sim (plainHooksOK (le := le))).step ((qrel_iff q q.seq).mpr ⟨h, rfl⟩) op
  obtain ⟨h1, h2⟩ := hs
  have h1' := (qrel_iff _ _).mp h1
  exact ⟨h1'.1, h1'.2, RelOut.map_eq (fun c l hr => ((qrel_iff c l).mp hr).2) h2⟩

theorem C18_qset_inv_step (q : QSet α Unit) (op : Op α α) (h : QInv q) : QInv (step (qsetP le) q op).1 :=
  (C18_qset_refines_step le q op h).1

example : QInv (step (qsetP fun (a b : Nat) => decide (a ≤ b)) ⟨[1, 2], [2, 1], ()⟩
    (.setSlice ⟨some 0, some 2, none⟩ [2, 3])).1 :=
  C18_qset_inv_step _ _ _ ⟨by decide, by intro x; simp [or_comm]⟩

/-- all finite operation sequences from the empty `qset` -/
theorem C18_refines_qset (ops : List (Op α α)) :
    QInv (run (qsetP le) ops).1 ∧
    (run (qsetP le) ops).1.seq = (Spec.run (qsetSig le) ops).1 ∧
    (run (qsetP le) ops).2.map (Out.map QSet.seq) = (Spec.run (qsetSig le) ops).2 ∧
    ∀ c, Out.ok (.cont c) ∈ (run (qsetP le) ops).2 → QInv c := by
  obtain ⟨h1, h2⟩ := (QSet.sim (plainHooksOK (le := le))).run ops
  have h1' := (qrel_iff _ _).mp h1
  refine ⟨h1'.1, h1'.2, RelOuts.map_eq (fun c l hr => ((qrel_iff c l).mp hr).2) h2, fun c hc => ?_⟩
  obtain ⟨l, hl⟩ := h2.cont hc
  exact ((qrel_iff c l).mp hl).1

/-- a raising operation other than the bulk ones (extend, update, |=, &=, -=, ^=) returns the
    very same state — from ANY state, also one violating the invariant -/
theorem C18_qset_raise_atomic (q : QSet α Unit) (op : Op α α) (hb : op.bulk = false) (e : Exc)
    (he : (step (qsetP le) q op).2 = .err e) : (step (qsetP le) q op).1 = q :=
  (QSet.atomic (plainHooks α le)).step trivial op hb e he

-- non-vacuity: concrete runs (evaluated by the kernel)
example : (run (qsetP fun (a b : Nat) => decide (a ≤ b))
    [.append 1, .append 2, .append 1, .setSlice ⟨some 0, some 2, none⟩ [5, 5], .setIdx 0 2, .pop (-1), .sort true]).2
    = [.ok .unit, .ok .unit, .err .duplicate, .err .duplicate, .err .duplicate, .ok (.val 2), .ok .unit] := by
  decide
example : (run (qsetP fun (a b : Nat) => decide (a ≤ b))
    [.extend [3, 1, 2], .reverse, .setSlice ⟨none, none, some (-1)⟩ [1, 2, 3], .delSlice ⟨none, none, some 2⟩]).1
    = ⟨[2], [2], ()⟩ := by decide
example : step (qsetP fun (a b : Nat) => decide (a ≤ b)) ⟨[1, 2], [1, 2], ()⟩ (.setIdx 0 2)
    = (⟨[1, 2], [1, 2], ()⟩, .err .duplicate) := by decide

/-- the defect in the unfixed tree (`qset.__setitem__` by slice, key
    `C18:qset:setitem-slice:duplicates`): `q = qset([1, 2]); q[0:2] = [5, 5]` succeeds and leaves
    `[5, 5]` — the invariant is broken.  With fix_C18_2 the same call raises Duplicate. -/
theorem C18_unfixed_qset_setitem_slice_breaks_inv :
    let q : QSet Nat Unit := ⟨[1, 2], [1, 2], ()⟩
    let r := QSet.setSliceUnfixed (plainHooks Nat fun a b => decide (a ≤ b)) q ⟨some 0, some 2, none⟩ [5, 5]
    QInv q ∧ r.2 = .ok .unit ∧ r.1.seq = [5, 5] ∧ ¬ QInv r.1 := by
  refine ⟨⟨by decide, fun _ => Iff.rfl⟩, by decide, by decide, fun h => ?_⟩
  exact absurd h.nodup (by decide)

example : (QSet.setSlice (plainHooks Nat fun a b => decide (a ≤ b)) ⟨[1, 2], [1, 2], ()⟩ ⟨some 0, some 2, none⟩ [5, 5]).2
    = .err .duplicate := by decide

end qset

/-! ## linqset -/

section linqset
variable {α : Type} [DecidableEq α] (le : α → α → Bool)

/-- `linqset`: the chain has no duplicates, the table's keys are exactly the chain's values,
    the counter is the chain's length -/
structure LqInv (c : LinqSet α) : Prop where
  nodup : c.chain.Nodup
  table_eq : ∀ x, x ∈ c.table ↔ x ∈ c.chain
  len_eq : c.len = c.chain.length

abbrev linqP : Prims (LinqSet α) α α := LinqSet.prims

theorem lrel_iff (c : LinqSet α) (l : List α) : LRel c l ↔ LqInv c ∧ c.chain = l := by
  constructor
  · rintro ⟨h1, h2, h3, h4⟩; subst h1; exact ⟨⟨h2, h3, h4⟩, rfl⟩
  · rintro ⟨⟨h2, h3, h4⟩, h1⟩; subst h1; exact ⟨rfl, h2, h3, h4⟩

theorem C18_linqset_inv_init : LqInv (linqP (α := α)).empty :=
  ⟨List.nodup_nil, fun _ => Iff.rfl, rfl⟩

example : LqInv (LinqSet.empty (α := Nat)) := C18_linqset_inv_init

theorem C18_linqset_refines_step (c : LinqSet α) (op : Op α α) (h : LqInv c) :
    LqInv (step linqP c op).1 ∧
    (step linqP c op).1.chain = (Spec.step (linqSig α le) c.chain op).1 ∧
    (step linqP c op).2.map LinqSet.chain = (Spec.step (linqSig α le) c.chain op).2 := by
  have hs := (LinqSet.sim (le := le)).step ((lrel_iff c c.chain).mpr ⟨h, rfl⟩) op
  obtain ⟨h1, h2⟩ := hs
  have h1' := (lrel_iff _ _).mp h1
  exact ⟨h1'.1, h1'.2, RelOut.map_eq (fun c l hr => ((lrel_iff c l).mp hr).2) h2⟩

theorem C18_linqset_inv_step (c : LinqSet α) (op : Op α α) (h : LqInv c) : LqInv (step linqP c op).1 :=
  (C18_linqset_refines_step (fun _ _ => true) c op h).1

example : LqInv (step linqP (⟨[1, 2], [2, 1], 2⟩ : LinqSet Nat) (.setIdx 0 7)).1 :=
  C18_linqset_inv_step _ _ ⟨by decide, by intro x; simp [or_comm], rfl⟩

/-- all finite operation sequences from the empty `linqset` -/
theorem C18_refines_linqset (ops : List (Op α α)) :
    LqInv (run linqP ops).1 ∧
    (run linqP ops).1.chain = (Spec.run (linqSig α le) ops).1 ∧
    (run linqP ops).2.map (Out.map LinqSet.chain) = (Spec.run (linqSig α le) ops).2 ∧
    ∀ c, Out.ok (.cont c) ∈ (run (linqP (α := α)) ops).2 → LqInv c := by
  obtain ⟨h1, h2⟩ := (LinqSet.sim (le := le)).run ops
  have h1' := (lrel_iff _ _).mp h1
  refine ⟨h1'.1, h1'.2, RelOuts.map_eq (fun c l hr => ((lrel_iff c l).mp hr).2) h2, fun c hc => ?_⟩
  obtain ⟨l, hl⟩ := h2.cont hc
  exact ((lrel_iff c l).mp hl).1

/-- a raising non-bulk operation returns the very same state (from any state satisfying the
    invariant, i.e. any reachable one; outside it `_unlink` can raise KeyError half-way) -/
theorem C18_linqset_raise_atomic (c : LinqSet α) (h : LqInv c) (op : Op α α) (hb : op.bulk = false)
    (e : Exc) (he : (step linqP c op).2 = .err e) : (step linqP c op).1 = c :=
  LinqSet.atomic.step ⟨c.chain, (lrel_iff c c.chain).mpr ⟨h, rfl⟩⟩ op hb e he

example : (run (linqP (α := Nat))
    [.extend [0, 1, 2], .wedge 3 1 (-1), .wedge 3 0 1, .wedge 4 9 1, .wedge 4 0 0, .setIdx 0 9, .contains 0, .contains 9, .index 9]).2
    = [.ok .unit, .ok .unit, .err .duplicate, .err .missing, .err .value, .ok .unit,
       .ok (.bool false), .ok (.bool true), .ok (.nat 0)] := by decide
example : (run (linqP (α := Nat))
    [.extend [0, 1, 2, 3], .setSlice ⟨some 0, some 2, none⟩ [1, 0], .delSlice ⟨none, none, some (-2)⟩, .reverse]).1
    = ⟨[2, 1], [2, 1], 2⟩ := by decide

/-- the defect in the unfixed tree (`linqset.__setitem__` by index, key
    `C18:linqset:setitem-index:stale-table`): `l = linqset([1]); l[0] = 2` rewrites the link's
    value and leaves the table keyed by 1: afterwards `1 in l` although iteration yields `[2]`. -/
theorem C18_unfixed_linqset_setitem_index_breaks_inv :
    let c : LinqSet Nat := ⟨[1], [1], 1⟩
    let r := LinqSet.setIdxUnfixed c 0 2
    LqInv c ∧ r.2 = .ok .unit ∧ r.1.chain = [2] ∧ LinqSet.has r.1 1 = true ∧ LinqSet.has r.1 2 = false ∧
    ¬ LqInv r.1 := by
  refine ⟨⟨by decide, fun _ => Iff.rfl, rfl⟩, by decide, by decide, by decide, by decide, fun h => ?_⟩
  have := (h.table_eq 1).mp (by decide)
  exact absurd this (by decide)

example : (LinqSet.setIdx (⟨[1], [1], 1⟩ : LinqSet Nat) 0 2).1 = ⟨[2], [2], 1⟩ := by decide

end linqset

/-! ## Predicates -/

section preds
open Preds

/-- `Predicates`: the qset invariant, and the lookup index holds exactly the keys of the
    members, and no two members share a symbol while differing in arity -/
structure PInv (c : Store) : Prop where
  nodup : c.seq.Nodup
  set_eq : ∀ x, x ∈ c.set ↔ x ∈ c.seq
  lookup : ∀ r p, lget c.ext r = some p ↔ p ∈ c.seq ∧ r ∈ keys p
  noclash : ∀ a ∈ c.seq, ∀ b ∈ c.seq, clash a b = false

theorem prel_iff (c : Store) (l : List Pred) : QRel LInv c l ↔ PInv c ∧ c.seq = l := by
  constructor
  · rintro ⟨h1, h2, h3, h4, h5⟩; subst h1; exact ⟨⟨h2, h3, h4, h5⟩, rfl⟩
  · rintro ⟨⟨h2, h3, h4, h5⟩, h1⟩; subst h1; exact ⟨rfl, h2, h3, ⟨h4, h5⟩⟩

theorem C18_preds_inv_init : PInv Preds.prims.empty :=
  ((prel_iff _ _).mp (QSet.sim hooksOK).empty).1

theorem C18_preds_refines_step (c : Store) (op : Op Pred Ref) (h : PInv c) :
    PInv (step Preds.prims c op).1 ∧
    (step Preds.prims c op).1.seq = (Spec.step predSig c.seq op).1 ∧
    (step Preds.prims c op).2.map QSet.seq = (Spec.step predSig c.seq op).2 := by
  have hs := (QSet.sim hooksOK).step ((prel_iff c c.seq).mpr ⟨h, rfl⟩) op
  obtain ⟨h1, h2⟩ := hs
  have h1' := (prel_iff _ _).mp h1
  exact ⟨h1'.1, h1'.2, RelOut.map_eq (fun c l hr => ((prel_iff c l).mp hr).2) h2⟩

theorem C18_preds_inv_step (c : Store) (op : Op Pred Ref) (h : PInv c) : PInv (step Preds.prims c op).1 :=
  (C18_preds_refines_step c op h).1

example : PInv (step Preds.prims (QSet.empty hooks) (.append ⟨0, 0, 1⟩)).1 :=
  C18_preds_inv_step _ _ C18_preds_inv_init

/-- all finite operation sequences from the empty predicate store -/
theorem C18_refines_preds (ops : List (Op Pred Ref)) :
    PInv (run Preds.prims ops).1 ∧
    (run Preds.prims ops).1.seq = (Spec.run predSig ops).1 ∧
    (run Preds.prims ops).2.map (Out.map QSet.seq) = (Spec.run predSig ops).2 ∧
    ∀ c, Out.ok (.cont c) ∈ (run Preds.prims ops).2 → PInv c := by
  obtain ⟨h1, h2⟩ := (QSet.sim hooksOK).run ops
  have h1' := (prel_iff _ _).mp h1
  refine ⟨h1'.1, h1'.2, RelOuts.map_eq (fun c l hr => ((prel_iff c l).mp hr).2) h2, fun c hc => ?_⟩
  obtain ⟨l, hl⟩ := h2.cont hc
  exact ((prel_iff c l).mp hl).1

theorem C18_preds_raise_atomic (c : Store) (op : Op Pred Ref) (hb : op.bulk = false) (e : Exc)
    (he : (step Preds.prims c op).2 = .err e) : (step Preds.prims c op).1 = c :=
  (QSet.atomic hooks).step trivial op hb e he

/-- the store never holds two predicates that share a symbol but differ in arity -/
theorem C18_predicates_no_conflict (ops : List (Op Pred Ref)) (a b : Pred)
    (ha : a ∈ (run Preds.prims ops).1.seq) (hb : b ∈ (run Preds.prims ops).1.seq)
    (hi : a.index = b.index) (hs : a.sub = b.sub) : a.arity = b.arity := by
  have h := ((C18_refines_preds ops).1).noclash a ha b hb
  simp only [clash, hi, hs, beq_self_eq_true, Bool.and_self, Bool.true_and, bne_eq_false_iff_eq] at h
  exact h

/-- every member is found by any of its references (and by itself); nothing else is found -/
theorem C18_predicates_lookup (ops : List (Op Pred Ref)) (p : Pred) (r : Ref)
    (hp : p ∈ (run Preds.prims ops).1.seq) (hr : r ∈ keys p) :
    Preds.get (run Preds.prims ops).1 r = .ok p ∧ Preds.prims.has (run Preds.prims ops).1 r = true := by
  have h := ((C18_refines_preds ops).1).lookup r p
  have hg := h.mpr ⟨hp, hr⟩
  constructor
  · simp [Preds.get, hg]
  · show (lget (run Preds.prims ops).1.ext r).isSome = true
    rw [hg]; rfl

theorem C18_predicates_contains_only_members (ops : List (Op Pred Ref)) (r : Ref)
    (h : Preds.prims.has (run Preds.prims ops).1 r = true) :
    ∃ p ∈ (run Preds.prims ops).1.seq, r ∈ keys p := by
  simp only [Preds.prims, QSet.prims, QSet.has, hooks, Option.isSome_iff_exists] at h
  obtain ⟨p, hp⟩ := h
  exact ⟨p, (((C18_refines_preds ops).1).lookup r p).mp hp⟩

-- non-vacuity
example : (run Preds.prims
    [.append ⟨0, 0, 1⟩, .append ⟨0, 0, 2⟩, .add ⟨0, 0, 1⟩, .append ⟨1, 0, 1⟩,
     .setSlice ⟨some 0, some 2, none⟩ [⟨2, 0, 1⟩, ⟨2, 0, 2⟩], .setIdx 0 ⟨0, 0, 2⟩,
     .contains (.bi 0 0), .contains (.spec ⟨0, 0, 1⟩), .remove (.spec ⟨0, 0, 2⟩), .remove (.self ⟨0, 0, 2⟩)]).2
    = [.ok .unit, .err .conflict, .ok .unit, .ok .unit, .err .conflict, .ok .unit,
       .ok (.bool true), .ok (.bool false), .err .value, .ok .unit] := by decide
example : Preds.get (run Preds.prims [.append ⟨0, 0, 1⟩, .append Pred.identity]).1 (.name "Identity")
    = .ok Pred.identity := by rfl
example : ⟨0, 0, 1⟩ ∈ (run Preds.prims [.append ⟨0, 0, 1⟩]).1.seq ∧ Ref.bi 0 0 ∈ keys ⟨0, 0, 1⟩ := by decide

end preds

/-! ## the specification is what it says: a duplicate-free list with the obvious operations -/

section spec
variable {α : Type} [DecidableEq α] (le : α → α → Bool)

theorem C18_spec_nodup (ops : List (Op α α)) : (Spec.run (qsetSig le) ops).1.Nodup :=
  (C18_refines_qset le ops).2.1 ▸ (C18_refines_qset le ops).1.nodup

theorem C18_spec_preds_nodup (ops : List (Op Pred Ref)) : (Spec.run predSig ops).1.Nodup :=
  (C18_refines_preds ops).2.1 ▸ (C18_refines_preds ops).1.nodup

theorem C18_spec_append (l : List α) (v : α) :
    Spec.step (qsetSig le) l (.append v) = if v ∈ l then (l, .err .duplicate) else (l ++ [v], .ok .unit) := by
  simp only [Spec.step, step, Mixin.append, Spec.prims, Spec.insert, plain_clashes, clampIdx_len]
  split <;> simp [List.insertIdx_length_self]

theorem C18_spec_add (l : List α) (v : α) :
    Spec.step (qsetSig le) l (.add v) = if v ∈ l then (l, .ok .unit) else (l ++ [v], .ok .unit) := by
  have h := C18_spec_append le l v
  simp only [Spec.step, step] at h
  simp only [Spec.step, step, Mixin.add, h]
  by_cases hv : v ∈ l <;> simp [hv]

theorem C18_spec_contains (l : List α) (v : α) :
    Spec.step (qsetSig le) l (.contains v) = (l, .ok (.bool (decide (v ∈ l)))) := by
  simp [Spec.step, step, Spec.prims, plain_has]

example : (Spec.run (qsetSig fun (a b : Nat) => decide (a ≤ b))
    [.extend [3, 1, 2], .or [2, 7], .and [7, 2, 3], .sub [1], .xor [1, 9], .iand [1, 2], .iter]).2
    = [.ok .unit, .ok (.cont [3, 1, 2, 7]), .ok (.cont [2, 3]), .ok (.cont [3, 2]), .ok (.cont [3, 2, 9]),
       .ok .unit, .ok (.list [1, 2])] := by decide

end spec

/-- C18, all three containers at once (for `Nat` values in `qset` / `linqset`): for every finite
    operation sequence the final state satisfies the invariant, its abstraction is the state
    the duplicate-free-list specification reaches, and the outcomes (exception classes,
    returned values, returned containers up to abstraction) are the specification's. -/
theorem C18_refines :
    (∀ ops : List (Op Nat Nat),
      QInv (run (qsetP fun a b => decide (a ≤ b)) ops).1 ∧
      (run (qsetP fun a b => decide (a ≤ b)) ops).1.seq = (Spec.run (qsetSig fun a b => decide (a ≤ b)) ops).1 ∧
      (run (qsetP fun a b => decide (a ≤ b)) ops).2.map (Out.map QSet.seq)
        = (Spec.run (qsetSig fun a b => decide (a ≤ b)) ops).2) ∧
    (∀ ops : List (Op Nat Nat),
      LqInv (run (linqP (α := Nat)) ops).1 ∧
      (run (linqP (α := Nat)) ops).1.chain = (Spec.run (linqSig Nat fun a b => decide (a ≤ b)) ops).1 ∧
      (run (linqP (α := Nat)) ops).2.map (Out.map LinqSet.chain)
        = (Spec.run (linqSig Nat fun a b => decide (a ≤ b)) ops).2) ∧
    (∀ ops : List (Op Pred Ref),
      PInv (run Preds.prims ops).1 ∧
      (run Preds.prims ops).1.seq = (Spec.run predSig ops).1 ∧
      (run Preds.prims ops).2.map (Out.map QSet.seq) = (Spec.run predSig ops).2) :=
  ⟨fun ops => let h := C18_refines_qset _ ops; ⟨h.1, h.2.1, h.2.2.1⟩,
   fun ops => let h := C18_refines_linqset _ ops; ⟨h.1, h.2.1, h.2.2.1⟩,
   fun ops => let h := C18_refines_preds ops; ⟨h.1, h.2.1, h.2.2.1⟩⟩

/-- C18, raise-atomicity for the three containers: a single-element operation (indeed any
    operation other than extend / update / |= / &= / -= / ^=) that raises leaves the container
    exactly as it was. -/
theorem C18_raise_atomic :
    (∀ (q : QSet Nat Unit) (op : Op Nat Nat) (e : Exc), op.bulk = false →
      (step (qsetP fun a b => decide (a ≤ b)) q op).2 = .err e → (step (qsetP fun a b => decide (a ≤ b)) q op).1 = q) ∧
    (∀ (c : LinqSet Nat) (op : Op Nat Nat) (e : Exc), LqInv c → op.bulk = false →
      (step linqP c op).2 = .err e → (step linqP c op).1 = c) ∧
    (∀ (c : Preds.Store) (op : Op Pred Ref) (e : Exc), op.bulk = false →
      (step Preds.prims c op).2 = .err e → (step Preds.prims c op).1 = c) :=
  ⟨fun q op e hb he => C18_qset_raise_atomic _ q op hb e he,
   fun c op e h hb he => C18_linqset_raise_atomic c h op hb e he,
   fun c op e hb he => C18_preds_raise_atomic c op hb e he⟩

example : ∀ op : Op Nat Nat, op.single = true → op.bulk = false := by
  intro op h; cases op <;> simp_all [Op.single, Op.bulk]

end Ptx.Props.C18
