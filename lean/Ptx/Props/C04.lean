/-
  C04 — every single expansion step preserves satisfiability exactly.

  FULL STATEMENT: for every logic and every compound node shape, an interpretation satisfies the
  node iff it satisfies all nodes of at least one extension (with a suitable witness for a new
  constant / world, for all present constants / accessible worlds where the rule re-applies);
  every interpreted shape has a rule; non-modal rules stay at the node's world; the frame rules
  extend the access pairs to exactly the closure the frame condition requires.

  HOW IT IS DECIDED: the "iff" is a finite statement per rule row about *abstract valuations*
  (operand value pairs; value profiles for quantifier / modal rules) — `LogicData.ruleExactB` —
  and is discharged for the regenerated rule tables by kernel evaluation, one theorem per logic
  (Ptx/Gen/Obl_<L>.lean: rules_exact, rules_sound, rules_total, rules_local).  The theorems below
  give the abstract check its meaning for ARBITRARY sentences and structures (no bound on domain
  size, number of worlds or sentence depth): the "→" half for operator and modal rules, and the
  closure characterisation for the frame rules.  Both halves are lifted: "→" (`C04_op_rule_forward`,
  `C04_modal_rule_forward_partial`, `C04_quant_rule_forward_partial`: from a satisfied node to a
  satisfied extension, the forward halves being `_partial` because they are stated per branch
  template) and "←" (`C04_op_rule_backward`, `C04_op_rule_exact`, `C04_modal_rule_backward`,
  `C04_quant_rule_backward`: the lifts C02's Hintikka lemma uses); the abstract "iff" itself is checked
  in full for every rule row.  `C04_frame_closure` characterises the closure function where its
  fuel-bounded iteration is `stable` (the unconditional statement about the library's loop is C08's).
-/
import Ptx.Proofs.Restrict
import Ptx.Proofs.Back
import Ptx.Proofs.BackQ
import Ptx.Sem.Frames
namespace Ptx.Props.C04
open Ptx

/-- Operator rules: if the rule passes the abstract check then, in every structure and for all
    operand sentences, a satisfied node has an extension all of whose nodes are satisfied. -/
theorem C04_op_rule_forward_partial {L : LogicData} {M : Struct} (hT : L.tablesTotalB = true) (hM : M.Interp L)
    {s : Sent} {d : Option Bool} {w : Option Nat} {sh : Shape} {ng : Bool} {whole : Sent} {r : Rule}
    (hd : s.decomp = some (sh, ng, whole)) (hsh : sh.isTF = true)
    (hr : L.ruleSoundB ⟨sh, ng, d⟩ r = true)
    {A : Sent} (hA : whole.lhs? = some A) (raw : Option Sent) (var : Nat × Nat)
    {gs : List (List Node)} (hgs : mapOpt (instAdds whole A whole.rhs? raw var w none) r.branches = some gs)
    (e : Env M.D) (σ : Nat → M.W) (hn : satNode L M e σ (.sent s d w)) :
    ∃ g ∈ gs, ∀ n ∈ g, satNode L M e σ n :=
  op_rule_sound hT hM hd hsh hr hA raw var hgs e σ hn

/-- Modal rules, for every set of accessible worlds (empty included where the frame allows it):
    a satisfied node has a satisfied extension, with a suitable world of the structure for a new
    world label, and at every accessible world for re-applying rules. -/
theorem C04_modal_rule_forward_partial {L : LogicData} {M : Struct}
    (hT : L.tablesTotalB = true) (hM : M.Interp L) (hm : L.modal = true)
    {s : Sent} {d : Option Bool} {w0 : Nat} {mo : Op1} {ng : Bool} {A : Sent} {r : Rule}
    (hmo : mo.isModal = true) (hd : s.decomp = some (.op1 mo, ng, .op1 mo A))
    (hr : L.ruleSoundB ⟨.op1 mo, ng, d⟩ r = true)
    (b : Branch) (hnode : Node.sent s d (some w0) ∈ b.nodes) (var : Nat × Nat) (wo : Option Nat)
    (hwit : match r.witness with
      | .none => wo = none
      | .newWorld => ∃ w', wo = some w' ∧ w' ∉ b.worlds
      | .eachWorld => ∃ w', wo = some w' ∧ Node.access w0 w' ∈ b.nodes
      | _ => True)
    {gs : List (List Node)} (hgs : mapOpt (instAdds (.op1 mo A) A none none var (some w0) wo) r.branches = some gs)
    (e : Env M.D) (σ : Nat → M.W) (hsb : SatB L M e σ b) :
    ∃ σ' : Nat → M.W, SatB L M e σ' b ∧ ∃ g ∈ gs, ∀ n ∈ g, satNode L M e σ' n :=
  modal_rule_sound hT hM hm hmo hd hr b hnode var wo hwit hgs e σ hsb


/-- Operator rules, BACKWARD half: if the rule passes the abstract completeness check then, in every
    structure and for all operand sentences, an extension all of whose nodes are satisfied makes
    the node satisfied.  With `C04_op_rule_forward_partial`: node satisfied ⇔ some extension is. -/
theorem C04_op_rule_backward {L : LogicData} {M : Struct} (hT : L.tablesTotalB = true) (hM : M.Interp L)
    {s : Sent} {d : Option Bool} {w : Option Nat} {sh : Shape} {ng : Bool} {whole : Sent} {r : Rule}
    (hd : s.decomp = some (sh, ng, whole)) (hsh : sh.isTF = true)
    (hr : L.ruleCompleteB ⟨sh, ng, d⟩ r = true)
    {A : Sent} (hA : whole.lhs? = some A) (raw : Option Sent) (var : Nat × Nat)
    {gs : List (List Node)} (hgs : mapOpt (instAdds whole A whole.rhs? raw var w none) r.branches = some gs)
    (e : Env M.D) (σ : Nat → M.W) {g : List Node} (hg : g ∈ gs) (hsat : ∀ n ∈ g, satNode L M e σ n) :
    satNode L M e σ (.sent s d w) :=
  op_rule_back hT hM hd hsh hr hA raw var hgs e σ hg hsat

/-- Operator rules, exactness: the node is satisfied iff all nodes of at least one extension are. -/
theorem C04_op_rule_exact {L : LogicData} {M : Struct} (hT : L.tablesTotalB = true) (hM : M.Interp L)
    {s : Sent} {d : Option Bool} {w : Option Nat} {sh : Shape} {ng : Bool} {whole : Sent} {r : Rule}
    (hd : s.decomp = some (sh, ng, whole)) (hsh : sh.isTF = true)
    (hrs : L.ruleSoundB ⟨sh, ng, d⟩ r = true) (hrc : L.ruleCompleteB ⟨sh, ng, d⟩ r = true)
    {A : Sent} (hA : whole.lhs? = some A) (raw : Option Sent) (var : Nat × Nat)
    {gs : List (List Node)} (hgs : mapOpt (instAdds whole A whole.rhs? raw var w none) r.branches = some gs)
    (e : Env M.D) (σ : Nat → M.W) :
    satNode L M e σ (.sent s d w) ↔ ∃ g ∈ gs, ∀ n ∈ g, satNode L M e σ n :=
  ⟨fun hn => op_rule_sound hT hM hd hsh hrs hA raw var hgs e σ hn,
   fun ⟨_, hg, hsat⟩ => op_rule_back hT hM hd hsh hrc hA raw var hgs e σ hg hsat⟩

/-- Modal rules, BACKWARD half, for every set of accessible worlds: satisfied extensions — at the
    node's own world, at SOME accessible witness world, or at EVERY accessible world, as the rule's
    kind says (`ModalDone`) — make the node satisfied. -/
theorem C04_modal_rule_backward {L : LogicData} {M : Struct}
    (hT : L.tablesTotalB = true) (hM : M.Interp L) (hm : L.modal = true)
    {s : Sent} {d : Option Bool} {w0 : Nat} {mo : Op1} {ng : Bool} {A : Sent} {r : Rule}
    (hmo : mo.isModal = true) (hd : s.decomp = some (.op1 mo, ng, .op1 mo A))
    (hr : L.ruleCompleteB ⟨.op1 mo, ng, d⟩ r = true) (var : Nat × Nat)
    (e : Env M.D) (σ : Nat → M.W) (hdone : ModalDone L M e σ mo A var w0 r) :
    satNode L M e σ (.sent s d (some w0)) :=
  modal_rule_back hT hM hm hmo hd hr var e σ hdone


/-- Quantifier rules, BACKWARD half, for every nonempty domain (no bound on its size): satisfied
    extensions — as is, for SOME constant, or for every domain element a constant whose instance has
    the same body value (`QuantDone`) — make the quantified node satisfied.  With the forward half:
    exactness over all domains, via the ≤ 15 value profiles the kernel enumerates per rule row. -/
theorem C04_quant_rule_backward {L : LogicData} {M : Struct}
    (hT : L.tablesTotalB = true) (hM : M.Interp L) (hq : L.quantified = true)
    {s : Sent} {d : Option Bool} {w : Option Nat} {q : Quant} {ng : Bool} {vi vs : Nat} {body : Sent} {r : Rule}
    (hd : s.decomp = some (.quant q, ng, .quant q vi vs body))
    (hok : (Sent.quant q vi vs body).quantOK L = true)
    (hr : L.ruleCompleteB ⟨.quant q, ng, d⟩ r = true)
    (e : Env M.D) (σ : Nat → M.W) (hdone : QuantDone L M e σ q vi vs body w r) :
    satNode L M e σ (.sent s d w) :=
  quant_rule_back hT hM hq hd hok hr e σ hdone

/-- Quantifier rules, for every nonempty domain (no bound on its size): a satisfied node has a
    satisfied extension, after interpreting a fresh witness constant suitably (new-constant
    rules), for every constant (re-applying rules), or as is (witness-free rules). -/
theorem C04_quant_rule_forward_partial {L : LogicData} {M : Struct}
    (hT : L.tablesTotalB = true) (hM : M.Interp L) (hq : L.quantified = true)
    {s : Sent} {d : Option Bool} {w : Option Nat} {q : Quant} {ng : Bool} {vi vs : Nat} {body : Sent} {r : Rule}
    (hd : s.decomp = some (.quant q, ng, .quant q vi vs body))
    (hok : (Sent.quant q vi vs body).quantOK L = true)
    (hr : L.ruleSoundB ⟨.quant q, ng, d⟩ r = true)
    (b : Branch) (hnode : Node.sent s d w ∈ b.nodes) (c : Option (Nat × Nat))
    {gs : List (List Node)}
    (hgs : match r.witness with
      | .none => mapOpt (instAdds (.quant q vi vs body) body none (some body) (vi, vs) w none) r.branches = some gs
      | .newConst => ∃ ci cs, c = some (ci, cs) ∧ (ci, cs) ∉ b.consts ∧
          mapOpt (instAdds (.quant q vi vs body) (body.psubst (.const ci cs) (.var vi vs)) none (some body) (vi, vs) w none) r.branches = some gs
      | .eachConst => ∃ ci cs, c = some (ci, cs) ∧
          mapOpt (instAdds (.quant q vi vs body) (body.psubst (.const ci cs) (.var vi vs)) none (some body) (vi, vs) w none) r.branches = some gs
      | _ => True)
    (e : Env M.D) (σ : Nat → M.W) (hsb : SatB L M e σ b) :
    ∃ e' : Env M.D, SatB L M e' σ b ∧ ∃ g ∈ gs, ∀ n ∈ g, satNode L M e' σ n :=
  quant_rule_sound hT hM hq hd hok hr b hnode c hgs e σ hsb

/-- Frame rules: the closure computed by the model contains the given pairs, is contained in
    every relation with the frame property that contains them, and — when the iteration has
    reached its fixed point (`stable`, checked by the driver on every compared case) — has the
    frame property itself: it is exactly the least such relation. -/
theorem C04_frame_closure (k : FrameKind) (ws : List Nat) (R : Frames.Rel) :
    (∀ p ∈ R, p ∈ Frames.closure k ws R) ∧
    (∀ Q : Nat × Nat → Prop, Frames.Holds k ws Q → (∀ p ∈ R, Q p) → ∀ p ∈ Frames.closure k ws R, Q p) ∧
    (Frames.stable k ws R = true → Frames.Holds k ws (· ∈ Frames.closure k ws R)) := by
  refine ⟨Frames.subset_iter k ws _ R, fun Q hQ hR => Frames.iter_least k ws Q hQ _ R hR, ?_⟩
  intro hs
  exact Frames.holds_of_fixed k ws _ (by simpa [Frames.stable] using hs)

/-- non-vacuity: S4 closure of a two-step chain over three worlds -/
example : Frames.closure .S4 [0, 1, 2] [(0, 1), (1, 2)] =
    [(0, 1), (1, 2), (0, 0), (1, 1), (2, 2), (0, 2)] ∧ Frames.stable .S4 [0, 1, 2] [(0, 1), (1, 2)] = true := by
  decide

end Ptx.Props.C04
