/-
  Search — the target-selection layer (rule helpers / caches, `_get_targets`) inside the model.

  FULL STATEMENTS (S = search state = tableau + helper state of every rule per branch, Ptx/Search/*.lean;
  transitions = `Ev.search r bi` (a `rule.target(branch)` call with its releases / gc) and `Ev.apply r st`
  (application of ANY enabled target of ANY rule, which covers every option combination, score and tie-break)):
   (1) `Inv L (SState.init L trunk)` for every trunk whose sentence nodes carry a world when L is modal, and
       `Inv L s → Ev.legal L s e → stepEv L s e = some s' → Inv L s'` (so `Inv` on every reachable state under every schedule);
   (2) completed_is_saturated: `Inv L s`, no rule has a target on open branch b, b carries no quit flag and is within the
       world limit ⇒ `L.saturatedB b = true`;
   (3) `Inv L s → Ev.legal L s (.apply r st) → ∃ s', stepEv L s (.apply r st) = some s'` and the tableau step inside is
       `applyStep L … st = some _` — every run of the search model is a `Deriv`;
   (4) a ticked node is never a target again, hence every run on a propositional argument is a `replayFresh` run and
       terminates within `termBound` (C03_terminates_partial).

  PROVED HERE
   * (1a) `inv_init_nodes`, `inv_init_trunk`: `Inv` of the state after `build_trunk`, for any trunk whose sentence nodes carry a
     world in modal logics — in particular `trunk L arg` (every `after_node_add` listener, node by node: `HInv.addNode`, `HInv.grow`
     in Ptx/Proofs/SearchStep.lean).
   * (1b) preservation by event kind: `inv_step_search` (`Ev.search`: gc + release) is PROVED.  `Ev.apply` (table rule, branching,
     closure, frame rule, quit flag) is NOT proved; the node-append half of it is (`HInv.addNode` / `HInv.grow`: the invariant of
     one branch survives any `Branch.extend`), what is missing is the bookkeeping of `applyTarget` (ticks, `NodesWorlds` /
     `QuitFlag` / `lastSerial` updates, copies for new branches).  For those events the run-time check stands in:
   * (1') `inv_check_sound` (= `inv_of_invBad`): `invBad L s = [] → Inv L s` — EVERY clause of `Inv` is implied by the executable
     check the driver evaluates on every state of every real run; a `!inv:` answer is reported by harness/searchcorr.py as
     `C02:search-corr:<logic>:inv:<clause>`.
   * (2) `completed_is_saturated` at full strength for the propositional + modal scope: conclusion `L.saturatedB b = true`, side
     condition `searchSideB L` (Ptx/Search/Side.lean; `decide +kernel` per logic in Ptx/Gen/ObH_<L>.lean, all 57 logics pass).
     The gap of the first increment is closed: the closure hooks of the code do not see the pair `¬¬x+`, `¬x+` (added in this
     order), but on a branch where no rule has a target the double-negation rule has fired on `¬¬x+`, and what it added closes
     with `¬x+` around `x` (`closure_free`, induction on leading negations; `dnegClosureB` asks the regenerated closure table and
     double-negation rows exactly that, also for G3's and P3's unusual rows).  `completed_is_saturated_partial` (conclusion `SatMod`,
     without `dnegClosureB`) is kept; `completed_is_saturated_checked` / `_run` take `invBad L s = []` instead of `Inv` (`_run`: every
     hypothesis a Boolean).  Scope `InScope`: no quantifier rule row applies to a node, identity substitution has nothing to do.
     World limit: the hypothesis `exceeded s.maxWorlds b = false` is needed (last example: false without it — known finding k2).
     Serial logics are INCLUDED: `BranchInv.lastSerial` (per branch, as `Serial._last_serial_world` since fix 2a8d047).
   * (4) first half as `ticked_not_target`: under `Inv`, no target of a table rule names a ticked node.
   * (3) is NOT proved (every real step is replayed through `applyStep` by `applyTarget` itself; `runLegal` is the executable form).
   Examples use a hand-built logic (`miniS`), so a broken generated logic cannot break this file.
-/
import Ptx.Proofs.SearchInv
import Ptx.Proofs.SearchSat
import Ptx.Proofs.SearchStep
namespace Ptx.Props.Search
open Ptx Ptx.Search

/-- (2) completed ⇒ saturated, see the header for what `SatMod` leaves out. -/
theorem completed_is_saturated_partial (L : LogicData)
    (hEW : eachWorldNoTickB L = true) (hmodal : (L.modal || L.frameRules.isEmpty) = true)
    (s : SState) (hinv : Inv L s) (bi : Nat) (b : Branch) (hb : s.tab[bi]? = some b) (hopen : b.closed = false)
    (hnone : ∀ r : RuleId, targets L s r bi = [])
    (hq : b.hasQuit = false) (hlim : exceeded s.maxWorlds b = false) (hscope : InScope L b) :
    SatMod L b :=
  satMod_of_no_targets (eachWorldNoTick_of_B hEW)
    (by
      rcases Bool.or_eq_true_iff.1 hmodal with h | h
      · exact Or.inl h
      · exact Or.inr (by simpa using h))
    hinv hb hopen hnone hq hlim hscope

/-- (2) at full strength (propositional + modal scope): in any state satisfying `Inv`, an open branch on which no rule has
    a target, which carries no quit flag and is within the world limit, is SATURATED in the sense of Ptx/Tab/Saturated.lean —
    the hypothesis of the Hintikka lemma (C02) and of the completeness corollaries of C03 / C09 / C10 / C11.
    The pair `¬¬x+`, `¬x+` the closure hooks do not see cannot survive: the double-negation rule has fired on `¬¬x+`, and what
    it added closes with `¬x+` around `x` (`dnegClosureB`). -/
theorem completed_is_saturated (L : LogicData) (hside : searchSideB L = true)
    (s : SState) (hinv : Inv L s) (bi : Nat) (b : Branch) (hb : s.tab[bi]? = some b) (hopen : b.closed = false)
    (hnone : ∀ r : RuleId, targets L s r bi = [])
    (hq : b.hasQuit = false) (hlim : exceeded s.maxWorlds b = false) (hscope : InScope L b) :
    L.saturatedB b = true := by
  simp only [searchSideB, Bool.and_eq_true] at hside
  exact saturated_of_satMod hside.2
    (completed_is_saturated_partial L hside.1.1 hside.1.2 s hinv bi b hb hopen hnone hq hlim hscope)

/-- (1'), soundness of the run-time check: a state on which the driver's `invBad` reports nothing satisfies `Inv`. -/
theorem inv_check_sound (L : LogicData) (s : SState) (h : invBad L s = []) : Inv L s := inv_of_invBad h

/-- (2) for every state of a real run on which the driver reports no `!inv:` -/
theorem completed_is_saturated_checked (L : LogicData)
    (hEW : eachWorldNoTickB L = true) (hmodal : (L.modal || L.frameRules.isEmpty) = true)
    (s : SState) (hchk : invBad L s = []) (bi : Nat) (b : Branch) (hb : s.tab[bi]? = some b) (hopen : b.closed = false)
    (hnone : ∀ r : RuleId, targets L s r bi = [])
    (hq : b.hasQuit = false) (hlim : exceeded s.maxWorlds b = false) (hscope : InScope L b) :
    SatMod L b :=
  completed_is_saturated_partial L hEW hmodal s (inv_of_invBad hchk) bi b hb hopen hnone hq hlim hscope

/-- the same with every hypothesis a Boolean the driver can evaluate, and the full conclusion -/
theorem completed_is_saturated_run (L : LogicData) (hside : searchSideB L = true)
    (s : SState) (hchk : invBad L s = []) (bi : Nat) (b : Branch) (hb : s.tab[bi]? = some b) (hopen : b.closed = false)
    (hnone : noTargetsB L s bi = true)
    (hq : b.hasQuit = false) (hlim : exceeded s.maxWorlds b = false) (hscope : inScopeB L b = true) :
    L.saturatedB b = true :=
  completed_is_saturated L hside s (inv_of_invBad hchk) bi b hb hopen (noTargets_of_B hnone) hq hlim (inScope_of_B hscope)

/-- (1a) the invariant holds after `build_trunk`, for ANY trunk whose sentence nodes carry a world when the logic is modal -/
theorem inv_init_nodes (L : LogicData) (nodes : List Node)
    (hw : L.modal = true → ∀ sn d w, Node.sent sn d w ∈ nodes → w.isSome = true) : Inv L (SState.init L nodes) :=
  inv_init L nodes hw

/-- (1a) in particular for the trunk of every argument (`Ptx.trunk`) -/
theorem inv_init_trunk (L : LogicData) (arg : Argument) (b : Branch) (hb : b ∈ trunk L arg) :
    Inv L (SState.init L b.nodes) := by
  apply inv_init
  intro hm sn d w hmem
  simp only [trunk, List.mem_singleton] at hb
  subst hb
  simp only [hm, ↓reduceIte, List.mem_append, List.mem_map, List.mem_singleton] at hmem
  rcases hmem with ⟨p, _, he⟩ | he
  · cases he; rfl
  · cases he; rfl

/-- (1b) preservation, event kind `Ev.search` (a `rule.target(branch)` call: `gc()` and the release of dead cached nodes) -/
theorem inv_step_search (L : LogicData) (s s' : SState) (hinv : Inv L s) (r : RuleId) (bi : Nat)
    (h : stepEv L s (.search r bi) = some s') : Inv L s' := by
  simp only [stepEv, Option.some.injEq] at h
  subst h
  exact inv_search hinv r bi

/-- what `SatMod` means, clause by clause, in terms of the saturation predicate of Ptx/Tab/Saturated.lean -/
theorem satMod_unsaturated (L : LogicData) (b : Branch) (h : SatMod L b) :
    L.frameMissing b = [] ∧ L.identMissing b = [] ∧
    ∀ sn d w, Node.sent sn d w ∈ b.nodes → L.nodeMissing b sn d w = [] ∧ L.identCloses (.sent sn d w) = false :=
  ⟨h.frame, h.identSub, fun sn d w hm => ⟨h.nodes sn d w hm, h.ident sn d w hm⟩⟩

/-- (4), first half: a target of a table rule never names a ticked node -/
theorem ticked_not_target (L : LogicData) (s : SState) (hinv : Inv L s) (bi : Nat) (b : Branch)
    (hb : s.tab[bi]? = some b) (hopen : b.closed = false) (k : RuleKey) (n : Nat) (c : Option (Nat × Nat)) (wo : Option Nat)
    (ht : Step.rule bi n c wo ∈ targets L s (.table k) bi) : n ∉ b.ticked :=
  table_target_unticked hinv hb hopen ht

/-! ### non-vacuity: a hand-built logic (classical markers, double negation, conjunction, possibility / necessity, Reflexive)
    and states REACHED by the model's own transitions that satisfy every hypothesis -/

def miniS : LogicData :=
  { (default : LogicData) with
    name := "miniS", modal := true, frameRules := ["Reflexive"],
    rules := [(⟨.op1 .neg, true, none⟩, ⟨"DoubleNegation", true, .none, [[.node ⟨.lhs, none, false⟩]]⟩),
              (⟨.op2 .conj, false, none⟩, ⟨"Conjunction", true, .none, [[.node ⟨.lhs, none, false⟩, .node ⟨.rhs, none, false⟩]]⟩),
              (⟨.op1 .poss, false, none⟩, ⟨"Possibility", true, .newWorld, [[.node ⟨.lhs, none, true⟩, .access]]⟩),
              (⟨.op1 .nec, false, none⟩, ⟨"Necessity", false, .eachWorld, [[.node ⟨.lhs, none, true⟩]]⟩)],
    closure := [([], false), ([⟨false, none⟩], false), ([⟨true, none⟩], false), ([⟨false, none⟩, ⟨true, none⟩], true)] }

example : searchSideB miniS = true := by decide

/-- trunk `¬¬a ∧ □b` at world 0; Conjunction, DoubleNegation, Reflexive, Necessity applied (each an enabled target) -/
def exTrunk : List Node := [.sent (.op2 .conj (.op1 .neg (.op1 .neg (.atom 0 0))) (.op1 .nec (.atom 1 0))) none (some 0)]
def exEvs : List Ev :=
  [.apply (.table ⟨.op2 .conj, false, none⟩) (.rule 0 0 none none),
   .search (.frame .reflexive) 0,
   .apply (.table ⟨.op1 .neg, true, none⟩) (.rule 0 1 none none),
   .apply (.frame .reflexive) (.frame 0 .reflexive 0 0 0),
   .apply (.table ⟨.op1 .nec, false, none⟩) (.rule 0 2 none (some 0))]
def exState : SState := (runLegal miniS (SState.init miniS exTrunk) exEvs).getD default
def exBranch : Branch := (exState.tab[0]?).getD default

/-- every event of the run is legal (an enabled target of a rule of the logic), and the run ends with 6 nodes, two of them ticked -/
example : (runLegal miniS (SState.init miniS exTrunk) exEvs).isSome = true ∧ exBranch.nodes.length = 6 ∧ exBranch.ticked = [0, 1] := by decide
example : invBad miniS (SState.init miniS exTrunk) = [] ∧ invBad miniS exState = [] := by decide
example : noTargetsB miniS (SState.init miniS exTrunk) 0 = false := by decide

/-- non-vacuity of `completed_is_saturated_run` / `_checked` / `completed_is_saturated`: every hypothesis holds of `exState` -/
example : miniS.saturatedB exBranch = true :=
  completed_is_saturated_run miniS (by decide) exState (by decide) 0 exBranch (by decide) (by decide)
    (by decide) (by decide) (by decide) (by decide)

example : SatMod miniS exBranch :=
  completed_is_saturated_checked miniS (by decide) (by decide) exState (by decide) 0 exBranch (by decide) (by decide)
    (noTargets_of_B (by decide)) (by decide) (by decide) (inScope_of_B (by decide))

example : Inv miniS exState := inv_check_sound miniS exState (by decide)
theorem exTrunk_worlded : miniS.modal = true → ∀ sn d w, Node.sent sn d w ∈ exTrunk → w.isSome = true := by
  intro _ sn d w hm
  simp only [exTrunk, List.mem_singleton, Node.sent.injEq] at hm
  rw [hm.2.2]; rfl
example : Inv miniS (SState.init miniS exTrunk) := inv_init_nodes miniS exTrunk exTrunk_worlded
example : Inv miniS ((SState.init miniS exTrunk).search miniS (.frame .reflexive) 0) :=
  inv_step_search miniS _ _ (inv_init_nodes miniS exTrunk exTrunk_worlded) (.frame .reflexive) 0 rfl

/-- the world-limit hypothesis is not idle: a state beyond the limit in which nothing has a target, no quit flag, and the
    branch is NOT saturated (Reflexive stops at the limit without a flag — known finding k2) -/
example :
    let s : SState := { (SState.init miniS [.sent (.atom 0 0) none (some 0), .access 0 1]) with maxWorlds := 1 }
    let b := (s.tab[0]?).getD default
    invBad miniS s = [] ∧ noTargetsB miniS s 0 = true ∧ b.hasQuit = false ∧ exceeded s.maxWorlds b = true ∧
      miniS.saturatedB b = false := by decide

end Ptx.Props.Search
