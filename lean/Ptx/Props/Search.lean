/-
  Search — the target-selection layer (rule helpers / caches, `_get_targets`) inside the model.

  FULL STATEMENTS (S = search state = tableau + helper state of every rule per branch, Ptx/Search/*.lean;
  transitions = `Ev.search r bi` (a `rule.target(branch)` call with its releases / gc) and `Ev.apply r st`
  (application of ANY enabled target of ANY rule, which covers every option combination, score and tie-break)):
   (1) `Inv L (SState.init L trunk)` for every trunk whose sentence nodes carry a world when L is modal, and
       `Inv L s → Ev.legal L s e → stepEv L s e = some s' → Inv L s'` (so `Inv` on every reachable state under every schedule);
   (2) completed_is_saturated: `Inv L s`, no rule has a target on open branch b, b carries no quit flag and is within the
       world limit ⇒ `L.saturatedB b = true`;
   (3) `Inv L s → Ev.legal L s (.apply r st) → ∃ s', stepEv L s (.apply r st) = some s'` and the tableau step inside is
       `applyStep L … st = some _` — every run of the search model is a `Deriv`;
   (4) a ticked node is never a target again, hence every run on a propositional argument is a `replayFresh` run and
       terminates within `termBound` (C03_terminates_partial).

  PROVED HERE
   * (1a) `inv_init_nodes`, `inv_init_trunk`: `Inv` of the state after `build_trunk`, for any trunk whose sentence nodes carry a
     world in modal logics — in particular `trunk L arg` (every `after_node_add` listener, node by node: `HInv.addNode`, `HInv.grow`
     in Ptx/Proofs/SearchStep.lean).
   * (1b) preservation by EVERY event kind, no side condition on the logic: `inv_step_search` (`Ev.search`: gc + release) and, for
     `Ev.apply` of an enabled target (the search of that rule on that branch, then `applyTarget`):
       (a) `inv_step_apply_closure`; (b) `inv_step_apply_frame` (Reflexive / Transitive / Symmetric / Serial with the per-branch
       `lastSerial`); (c) `inv_step_apply_plain`; (d) `inv_step_apply_branching` (new branches start from the parent's helper state
       BEFORE the extension, `BranchH.upd`); (e) `inv_step_apply_each_world` (`NodesWorlds`); (f) `inv_step_apply_new_world`
       (fresh world; beyond `MaxWorlds`: the quit-flag target that ticks the released node and sets `QuitFlag`);
       `inv_step_apply_table` = (c)–(f) at once; `inv_step` (all events); `inv_reachable : Reach L arg s → Inv L s` with
     `Reach` = states reachable from `SState.init L (trunk L arg)` by legal events.  (Proofs: Ptx/Proofs/SearchApply.lean —
     `inv_core` tableau bookkeeping, `HInv.extend` = grow + tick, `rule_group_facts`; a new-world rule whose branch does not
     mention the new world (KK3WQ `PossibilityUndesignated`) is covered through the node's own world.)
     The run-time `invBad` check is no longer a stand-in for anything; it remains as a test of the MODEL-vs-code tie.
   * (1') `inv_check_sound` (= `inv_of_invBad`): `invBad L s = [] → Inv L s` — EVERY clause of `Inv` is implied by the executable
     check the driver evaluates on every state of every real run; a `!inv:` answer is reported by harness/searchcorr.py as
     `C02:search-corr:<logic>:inv:<clause>`.
   * (2) `completed_is_saturated` at full strength for the propositional + modal scope: conclusion `L.saturatedB b = true`, side
     condition `searchSideB L` (Ptx/Search/Side.lean; `decide +kernel` per logic in Ptx/Gen/ObH_<L>.lean, all 57 logics pass).
     The gap of the first increment is closed: the closure hooks of the code do not see the pair `¬¬x+`, `¬x+` (added in this
     order), but on a branch where no rule has a target the double-negation rule has fired on `¬¬x+`, and what it added closes
     with `¬x+` around `x` (`closure_free`, induction on leading negations; `dnegClosureB` asks the regenerated closure table and
     double-negation rows exactly that, also for G3's and P3's unusual rows).  `completed_is_saturated_partial` (conclusion `SatMod`,
     without `dnegClosureB`) is kept; `completed_is_saturated_checked` / `_run` take `invBad L s = []` instead of `Inv` (`_run`: every
     hypothesis a Boolean).  Scope `InScope`: no quantifier rule row applies to a node, identity substitution has nothing to do.
     World limit: the hypothesis `exceeded s.maxWorlds b = false` is needed (last example: false without it — known finding k2).
     Serial logics are INCLUDED: `BranchInv.lastSerial` (per branch, as `Serial._last_serial_world` since fix 2a8d047).
   * (4) first half as `ticked_not_target`: under `Inv`, no target of a table rule names a ticked node.
   * (3') `search_run_deriv : Reach L arg s → Deriv L (trunk L arg) s.tab` — every run of the search model is a derivation
     (`applyTarget` goes through `applyStep`), so C01 / C02 / C03 / C09 / C10 / C11 apply to every reachable search state;
     `search_completed_saturated` combines (1) + (2) + (3'); per logic the generated `<L>_search_completed_countermodel`
     (reachable state, no target on an open in-scope unflagged ground branch within the limit ⇒ the canonical structure is a
     countermodel).
   * (3) progress "an enabled target is a legal step": `target_legal_closure` (side condition `closureMonoB L`, all 57 logics
     pass), `target_legal_frame`, `target_legal_quit`, and (fifth increment) `target_legal_table` / `search_progress`, see below.
   * (4) `search_terminates_prop` / `search_run_replayFresh`: in a logic without access rules every run of the search model on a
     propositional argument is a `replayFresh` run (no re-application to a ticked node, no quit-flag step), hence has at most
     `termBound L W arg` rule applications under every schedule and never a quit flag — `C03_terminates_partial` tied to the
     search model (`ReachN`).  With access rules the C03 theorem itself does not apply (its fresh steps exclude frame steps).
   * QUANTIFIER RULES are inside the model (Ptx/Search/State.lean `ncs` = `NodeConsts`, `nextConst` = `Branch.new_constant`,
     `constsAt` / `constExceeded` = `WorldConsts` / `MaxConsts`; Targets.lean witness kinds `.newConst` / `.eachConst`, the
     constant-limit quit path, `NodeConsts.after_apply`): every theorem above (`inv_reachable`, `search_run_deriv`, the per-kind
     preservation, `ticked_not_target`, …) holds for the extended model.  The quantifier LAYER of the invariant is `InvQ`
     (Ptx/Search/InvQ.lean: every node of an each-constant rule is registered; for a registered node every constant of the
     branch is unapplied or has its instance on the branch; unapplied ⊆ branch constants; a ticked new-constant node has its
     instance): `invq_check_sound : invBadQ L s = [] → InvQ L s`, and (2-FO) `completed_is_saturated_fo` /
     `completed_is_saturated_fo_checked`: `Inv` + `InvQ`, no targets, no quit flag, within the world AND constant limits, a branch
     with quantifier nodes has a constant, identity substitution idle ⇒ `L.saturatedB b = true` (side conditions `searchSideB`,
     `quantTicksB`; all 57 logics pass).  `InvQ` is now PROVED along every run, no side condition: `invq_init_trunk`, `invq_step_search`,
     `invq_step_apply(_closure/_frame/_table)`, `invq_step`, `invq_reachable : Reach L arg s → InvQ L s` (Ptx/Proofs/SearchQStep.lean:
     `updNcs_spec` characterises `NodeConsts.after_node_add`; `QInv.afterApply` the discard).  `search_completed_saturated_fo`:
     reachable, no targets, no flag, within the world and constant limits, identity substitution idle ⇒ `Deriv`, `b ∈ s.tab`,
     `saturatedB` — first-order branches included.  Two hypotheses are properties of the BRANCH alone and can only fail with
     vacuous quantification (`TickedQ`, Boolean `ckTickedQ`; a branch with quantifier nodes has a constant).  Per logic
     (Ptx/Gen/ObH_<L>.lean): `<L>_search_side_fo`, `<L>_completed_is_saturated_fo`, `<L>_search_completed_countermodel_fo`.
     (`IdentityIndiscernability` joined the model in the last increment: see (2-ALL) below.)
   * SIXTH INCREMENT.  `cpl.IdentityIndiscernability` is inside the model (`RuleId.ident`, `identTargets`: identity node × predication
     node of `PredNodes` at the same world, both directions through the calculus' own `identAdd`, skipping self-identities and
     nodes already on the branch AT THAT WORLD; `inv_apply_ident`, `target_legal_ident`); every theorem (`inv_reachable`,
     `invq_reachable`, `search_run_deriv`, progress, termination) holds for the extended model, and nothing of the library's search
     layer remains outside it.  (2-ALL) `completed_is_saturated_all` / `search_completed_saturated_all`: NO scope hypothesis —
     `identMissing_nil`: the `identMissing` clause of `unsaturated` follows from "no target" (predication nodes are never ticked
     and never released).
   * (3) PROGRESS without exemption: `target_legal_table` (`rowOKB`), `target_legal_quant` (`rowQOKB`; `nextConst_fresh`:
     the model's `Branch.new_constant()` is strictly above every constant of the branch; well-formed quantified sentences),
     `target_legal_ident`, `search_progress`.  `templatesOKB`, `templatesQOKB`, `closureMonoB` hold for all 57 logics.
   * SEVENTH INCREMENT, termination with access rules (Ptx/Proofs/SearchTermF.lean, `C03_terminates_partial` untouched):
     `search_terminates_prop_frames` — propositional argument, access rules among Reflexive / Transitive / Symmetric: every run
     has at most `termBound + 1 + termBound · maxBranching` applications and never a quit flag (access-rule steps leave the C03
     measure unchanged — `frame_step_measure` — and are counted through the access nodes: one world, one pair per branch, each
     target adds a pair that is not on the branch — `frame_target_fresh`, `frame_step_J`); `search_terminates_prop_nonframe` —
     EVERY logic, D included: the applications other than access-rule steps are ≤ `termBound`, no quit flag.  Serial steps are
     not bounded by this argument (each introduces a new world; only `_last_serial_world` and the world limit stop them).
   Examples use a hand-built logic (`miniS`), so a broken generated logic cannot break this file.
-/
import Ptx.Proofs.SearchInv
import Ptx.Proofs.SearchSat
import Ptx.Proofs.SearchStep
import Ptx.Proofs.SearchApply
import Ptx.Proofs.SearchLegal
import Ptx.Proofs.SearchQ
import Ptx.Proofs.SearchTerm
import Ptx.Proofs.SearchQStep
import Ptx.Proofs.SearchLegalT
import Ptx.Proofs.SearchTermF
namespace Ptx.Props.Search
open Ptx Ptx.Search

/-- (2) completed ⇒ saturated, see the header for what `SatMod` leaves out. -/
theorem completed_is_saturated_partial (L : LogicData)
    (hEW : eachWorldNoTickB L = true) (hmodal : (L.modal || L.frameRules.isEmpty) = true)
    (s : SState) (hinv : Inv L s) (bi : Nat) (b : Branch) (hb : s.tab[bi]? = some b) (hopen : b.closed = false)
    (hnone : ∀ r : RuleId, targets L s r bi = [])
    (hq : b.hasQuit = false) (hlim : exceeded s.maxWorlds b = false) (hscope : InScope L b) :
    SatMod L b :=
  satMod_of_no_targets (eachWorldNoTick_of_B hEW)
    (by
      rcases Bool.or_eq_true_iff.1 hmodal with h | h
      · exact Or.inl h
      · exact Or.inr (by simpa using h))
    hinv hb hopen hnone hq hlim hscope

/-- (2) at full strength (propositional + modal scope): in any state satisfying `Inv`, an open branch on which no rule has
    a target, which carries no quit flag and is within the world limit, is SATURATED in the sense of Ptx/Tab/Saturated.lean —
    the hypothesis of the Hintikka lemma (C02) and of the completeness corollaries of C03 / C09 / C10 / C11.
    The pair `¬¬x+`, `¬x+` the closure hooks do not see cannot survive: the double-negation rule has fired on `¬¬x+`, and what
    it added closes with `¬x+` around `x` (`dnegClosureB`). -/
theorem completed_is_saturated (L : LogicData) (hside : searchSideB L = true)
    (s : SState) (hinv : Inv L s) (bi : Nat) (b : Branch) (hb : s.tab[bi]? = some b) (hopen : b.closed = false)
    (hnone : ∀ r : RuleId, targets L s r bi = [])
    (hq : b.hasQuit = false) (hlim : exceeded s.maxWorlds b = false) (hscope : InScope L b) :
    L.saturatedB b = true := by
  simp only [searchSideB, Bool.and_eq_true] at hside
  exact saturated_of_satMod hside.2
    (completed_is_saturated_partial L hside.1.1 hside.1.2 s hinv bi b hb hopen hnone hq hlim hscope)

/-- (4) TERMINATION on propositional arguments, tying `C03_terminates_partial` to the search model: in a logic without access
    rules, every run of the search model on a propositional argument is a `replayFresh` run of the calculus (`ticked_not_target`:
    no rule is re-applied to a ticked node; no quit-flag step is ever enabled on a propositional tableau), so under EVERY
    schedule the number of rule applications is at most `termBound L W arg` and no branch ever carries a quit flag.
    (`ReachN L arg n s`: `s` is reachable with exactly `n` applications; searches do not count.  Logics with access rules are
    outside `C03_terminates_partial` itself: its `Step.freshOn` admits no frame step.) -/
theorem search_terminates_prop (L : LogicData) (W : Weights) (hfr : L.frameRules = [])
    (hm : L.measureOKOnB RuleKey.isTF W = true) (hrows : L.tfRowsOKB = true)
    (arg : Argument) (hp : arg.isProp = true) (n : Nat) (s : SState) (h : ReachN L arg n s) :
    n ≤ termBound L W arg ∧ s.tab.noQuit :=
  reachN_bound hfr hm hrows hp h

/-- … and that run IS a tick-respecting replay of the calculus -/
theorem search_run_replayFresh (L : LogicData) (W : Weights) (hfr : L.frameRules = [])
    (hm : L.measureOKOnB RuleKey.isTF W = true) (hrows : L.tfRowsOKB = true)
    (arg : Argument) (hp : arg.isProp = true) (n : Nat) (s : SState) (h : ReachN L arg n s) :
    ∃ sts : List Step, sts.length = n ∧ replayFresh L (trunk L arg) sts = some s.tab :=
  reachN_replayFresh hfr hm hrows hp h

/-- (4-F) TERMINATION on propositional arguments in logics WITH access rules, Serial excluded (T, S4, S5 and their many-valued
    relatives; K and the non-modal logics trivially): under EVERY schedule the number of rule applications is at most
    `termBound + 1 + termBound · maxBranching`, and no branch ever carries a quit flag.  Access-rule steps are invisible to the C03
    measure (an access node has potential 0) and are counted separately: on a propositional argument every world is world 0, so a
    branch carries at most the one access pair (0,0); a Reflexive / Transitive / Symmetric target adds a pair that is NOT yet on
    the branch (`WorldIndex` = the access nodes), hence #access-rule steps ≤ Σ_branches #access nodes ≤ #branches ≤ 1 + nT·maxBranching. -/
theorem search_terminates_prop_frames (L : LogicData) (W : Weights) (hser : L.frameAllowed .serial = false)
    (hm : L.measureOKOnB RuleKey.isTF W = true) (hrows : L.tfRowsOKB = true)
    (arg : Argument) (hp : arg.isProp = true) (n : Nat) (s : SState) (h : ReachN L arg n s) :
    n ≤ termBound L W arg + (1 + termBound L W arg * L.maxBranching) ∧ s.tab.noQuit := by
  obtain ⟨nT, nF, he, hr⟩ := reachN_split h
  obtain ⟨h1, h2, h3⟩ := reachTF_bound hm hrows hser hp hr
  exact ⟨by omega, h3⟩

/-- (4-D) the precise statement for EVERY logic, Serial (D) included: the applications OTHER THAN access-rule steps are at most
    `termBound`, the tableau stays propositional and no quit flag appears.  Serial steps themselves are not bounded by this
    argument: each one introduces a new world, and what stops them in the code (and in the model) is `_last_serial_world` — the
    rule does not serve the world its own last application on the branch introduced — together with the world limit `MaxWorlds`
    (`frameTargets` is empty beyond it, without a quit flag: known finding k2); a bound on Serial steps would have to go through
    `exceeded`, i.e. through the limit the property excludes. -/
theorem search_terminates_prop_nonframe (L : LogicData) (W : Weights)
    (hm : L.measureOKOnB RuleKey.isTF W = true) (hrows : L.tfRowsOKB = true)
    (arg : Argument) (hp : arg.isProp = true) (nT nF : Nat) (s : SState) (h : ReachTF L arg nT nF s) :
    nT ≤ termBound L W arg ∧ s.tab.allProp ∧ s.tab.noQuit := by
  obtain ⟨h1, h2, h3⟩ := reachTF_measure (W := W) hm hrows hp h
  exact ⟨by omega, h2, h3⟩

/-- (2-FO) completed ⇒ saturated for branches WITH quantifier nodes (new-constant / each-constant rules; `NodeConsts`,
    `MaxConsts`): from `Inv` and the quantifier layer `InvQ`.  The limit hypotheses gain "within the constant limit at every
    world"; the scope hypothesis only excludes identity substitution; `hcl` excludes the degenerate branch that has quantifier
    nodes but no constant at all (vacuous quantification only — the parser rejects such sentences). -/
theorem completed_is_saturated_fo (L : LogicData) (hside : searchSideB L = true) (hqt : quantTicksB L = true)
    (s : SState) (hinv : Inv L s) (hinvq : InvQ L s) (bi : Nat) (b : Branch) (hb : s.tab[bi]? = some b) (hopen : b.closed = false)
    (htq : TickedQ L b) (hnone : ∀ r : RuleId, targets L s r bi = [])
    (hq : b.hasQuit = false) (hlim : exceeded s.maxWorlds b = false)
    (hclim : ∀ w, constExceeded s.maxConsts b w = false)
    (hcl : b.constList ≠ [] ∨ ∀ sn d w r whole l0, Node.sent sn d w ∈ b.nodes → L.ruleFor sn d = some (r, whole, l0) →
      r.witness ≠ .newConst ∧ r.witness ≠ .eachConst)
    (hident : L.identMissing b = []) : L.saturatedB b = true := by
  simp only [searchSideB, Bool.and_eq_true] at hside
  exact saturated_of_satMod hside.2
    (satMod_fo (eachWorldNoTick_of_B hside.1.1)
      hqt (by
        rcases Bool.or_eq_true_iff.1 hside.1.2 with h | h
        · exact Or.inl h
        · exact Or.inr (by simpa using h))
      hinv hinvq htq hb hopen hnone hq hlim hclim hcl hident)

/-! #### the quantifier layer `InvQ` along every run (no side condition on the logic) -/

/-- (1a-Q) after `build_trunk`, for every trunk — in particular `trunk L arg` -/
theorem invq_init_trunk (L : LogicData) (arg : Argument) (b : Branch) (_hb : b ∈ trunk L arg) : InvQ L (SState.init L b.nodes) :=
  invq_init L b.nodes

/-- (1b-Q) `Ev.search` (gc / release do not touch `NodeConsts`) -/
theorem invq_step_search (L : LogicData) (s s' : SState) (hq : InvQ L s) (r : RuleId) (bi : Nat)
    (h : stepEv L s (.search r bi) = some s') : InvQ L s' := by
  simp only [stepEv, Option.some.injEq] at h
  subst h
  exact invq_search hq r bi

/-- (1b-Q) `Ev.apply` of ANY rule and step kind — closure (`invq_step_apply_closure`), access rules (`_frame`), table rules plain /
    branching / each-world / new-world / new-constant / each-constant (`_table`: `NodeConsts.after_node_add` registers and
    distributes on every appended node of every resulting branch, `after_apply` discards the applied constant, whose instance
    the step has just put on the branch), quit flags -/
theorem invq_step_apply (L : LogicData) (s s' : SState) (hinv : Inv L s) (hq : InvQ L s) (r : RuleId) (st : Step)
    (h : stepEv L s (.apply r st) = some s') : InvQ L s' :=
  invq_stepEv hinv hq (.apply r st) h
theorem invq_step_apply_closure (L : LogicData) (s s' : SState) (hinv : Inv L s) (hq : InvQ L s) (st : Step)
    (h : stepEv L s (.apply .closure st) = some s') : InvQ L s' := invq_stepEv hinv hq _ h
theorem invq_step_apply_frame (L : LogicData) (s s' : SState) (hinv : Inv L s) (hq : InvQ L s) (fr : FrameRule) (st : Step)
    (h : stepEv L s (.apply (.frame fr) st) = some s') : InvQ L s' := invq_stepEv hinv hq _ h
theorem invq_step_apply_table (L : LogicData) (s s' : SState) (hinv : Inv L s) (hq : InvQ L s) (k : RuleKey) (st : Step)
    (h : stepEv L s (.apply (.table k) st) = some s') : InvQ L s' := invq_stepEv hinv hq _ h

/-- (1b-Q) ALL events -/
theorem invq_step (L : LogicData) (s s' : SState) (hinv : Inv L s) (hq : InvQ L s) (e : Ev)
    (h : stepEv L s e = some s') : InvQ L s' :=
  invq_stepEv hinv hq e h

/-- (1-Q) the quantifier layer holds in every reachable state -/
theorem invq_reachable (L : LogicData) (arg : Argument) (s : SState) (h : Reach L arg s) : InvQ L s :=
  (reach_inv' h).2

/-- (1) + (2-FO) + (3'): in EVERY reachable state of the search model, an open branch on which no rule has a target, without
    quit flag, within the world limit and the constant limit, with identity substitution idle, is a saturated branch of a tableau
    derived from the trunk — first-order branches included.  `htq` (`TickedQ`, a property of the branch alone: a ticked
    new-constant node has its instance for a constant OF THE BRANCH) and `hcl` (a branch with quantifier nodes has a constant)
    can only fail with vacuous quantification; `ckTickedQ L b` is the Boolean form. -/
theorem search_completed_saturated_fo (L : LogicData) (hside : searchSideB L = true) (hqt : quantTicksB L = true)
    (arg : Argument) (s : SState) (hr : Reach L arg s) (bi : Nat) (b : Branch) (hb : s.tab[bi]? = some b)
    (hopen : b.closed = false) (htq : TickedQ L b) (hnone : ∀ r : RuleId, targets L s r bi = [])
    (hq : b.hasQuit = false) (hlim : exceeded s.maxWorlds b = false)
    (hclim : ∀ w, constExceeded s.maxConsts b w = false)
    (hcl : b.constList ≠ [] ∨ ∀ sn d w r whole l0, Node.sent sn d w ∈ b.nodes → L.ruleFor sn d = some (r, whole, l0) →
      r.witness ≠ .newConst ∧ r.witness ≠ .eachConst)
    (hident : L.identMissing b = []) :
    Deriv L (trunk L arg) s.tab ∧ b ∈ s.tab ∧ L.saturatedB b = true :=
  ⟨reach_deriv hr, List.mem_of_getElem? hb,
   completed_is_saturated_fo L hside hqt s (reach_inv' hr).1 (invq_reachable L arg s hr) bi b hb hopen htq hnone hq
     hlim hclim hcl hident⟩

/-- (2-ALL) completed ⇒ saturated with NO scope hypothesis: the identity rule (`cpl.IdentityIndiscernability`, `PredNodes`, the
    world-indexed "already on the branch?" test) is inside the model, so the `identMissing` clause of `unsaturated` follows from
    "no rule has a target" like every other clause -/
theorem completed_is_saturated_all (L : LogicData) (hside : searchSideB L = true) (hqt : quantTicksB L = true)
    (s : SState) (hinv : Inv L s) (hinvq : InvQ L s) (bi : Nat) (b : Branch) (hb : s.tab[bi]? = some b) (hopen : b.closed = false)
    (htq : TickedQ L b) (hnone : ∀ r : RuleId, targets L s r bi = [])
    (hq : b.hasQuit = false) (hlim : exceeded s.maxWorlds b = false)
    (hclim : ∀ w, constExceeded s.maxConsts b w = false)
    (hcl : b.constList ≠ [] ∨ ∀ sn d w r whole l0, Node.sent sn d w ∈ b.nodes → L.ruleFor sn d = some (r, whole, l0) →
      r.witness ≠ .newConst ∧ r.witness ≠ .eachConst) : L.saturatedB b = true :=
  completed_is_saturated_fo L hside hqt s hinv hinvq bi b hb hopen htq hnone hq hlim hclim hcl
    (identMissing_of_no_targets hinv hb hopen hnone)

/-- (1) + (2-ALL) + (3'): EVERY reachable state, every logic passing the side conditions, every kind of branch -/
theorem search_completed_saturated_all (L : LogicData) (hside : searchSideB L = true) (hqt : quantTicksB L = true)
    (arg : Argument) (s : SState) (hr : Reach L arg s) (bi : Nat) (b : Branch) (hb : s.tab[bi]? = some b)
    (hopen : b.closed = false) (htq : TickedQ L b) (hnone : ∀ r : RuleId, targets L s r bi = [])
    (hq : b.hasQuit = false) (hlim : exceeded s.maxWorlds b = false)
    (hclim : ∀ w, constExceeded s.maxConsts b w = false)
    (hcl : b.constList ≠ [] ∨ ∀ sn d w r whole l0, Node.sent sn d w ∈ b.nodes → L.ruleFor sn d = some (r, whole, l0) →
      r.witness ≠ .newConst ∧ r.witness ≠ .eachConst) :
    Deriv L (trunk L arg) s.tab ∧ b ∈ s.tab ∧ L.saturatedB b = true :=
  ⟨reach_deriv hr, List.mem_of_getElem? hb,
   completed_is_saturated_all L hside hqt s (reach_inv' hr).1 (reach_inv' hr).2 bi b hb hopen htq hnone hq hlim hclim hcl⟩

/-- `TickedQ` from its Boolean form -/
theorem tickedQ_of_B (L : LogicData) (b : Branch) (h : ckTickedQ L b = true) : TickedQ L b := by
  intro i hi sn d w r whole l0 hn hrf hw
  simp only [ckTickedQ, List.all_eq_true] at h
  have := h i hi
  simp only [hn, hrf, hw, beq_self_eq_true, Bool.not_true, Bool.false_or, Bool.or_eq_true, List.isEmpty_iff,
    List.any_eq_true] at this
  rcases this with (h5 | h5) | h5
  · exact Or.inl h5
  · exact Or.inr (Or.inl h5)
  · exact Or.inr (Or.inr h5)

/-- soundness of the run-time check of the quantifier layer (`invBadQ`, evaluated by the driver next to `invBad`) -/
theorem invq_check_sound (L : LogicData) (s : SState) (h : invBadQ L s = []) : InvQ L s := invQ_of_invBadQ h

/-- (2-FO) for every state of a real run on which the driver reports no `!inv:` -/
theorem completed_is_saturated_fo_checked (L : LogicData) (hside : searchSideB L = true) (hqt : quantTicksB L = true)
    (s : SState) (hchk : invBad L s = []) (hchkq : invBadQ L s = []) (bi : Nat) (b : Branch)
    (hb : s.tab[bi]? = some b) (hopen : b.closed = false) (hnone : noTargetsB L s bi = true)
    (hq : b.hasQuit = false) (hlim : exceeded s.maxWorlds b = false)
    (hclim : ∀ w, constExceeded s.maxConsts b w = false) (hcl : b.constList ≠ [])
    (hident : L.identMissing b = []) : L.saturatedB b = true :=
  completed_is_saturated_fo L hside hqt s (inv_of_invBad hchk) (invQ_of_invBadQ hchkq) bi b hb hopen
    (tickedQ_of_invBadQ hchkq hb hopen (inv_of_invBad hchk).len) (noTargets_of_B hnone)
    hq hlim hclim (Or.inl hcl) hident

/-- (1'), soundness of the run-time check: a state on which the driver's `invBad` reports nothing satisfies `Inv`. -/
theorem inv_check_sound (L : LogicData) (s : SState) (h : invBad L s = []) : Inv L s := inv_of_invBad h

/-- (2) for every state of a real run on which the driver reports no `!inv:` -/
theorem completed_is_saturated_checked (L : LogicData)
    (hEW : eachWorldNoTickB L = true) (hmodal : (L.modal || L.frameRules.isEmpty) = true)
    (s : SState) (hchk : invBad L s = []) (bi : Nat) (b : Branch) (hb : s.tab[bi]? = some b) (hopen : b.closed = false)
    (hnone : ∀ r : RuleId, targets L s r bi = [])
    (hq : b.hasQuit = false) (hlim : exceeded s.maxWorlds b = false) (hscope : InScope L b) :
    SatMod L b :=
  completed_is_saturated_partial L hEW hmodal s (inv_of_invBad hchk) bi b hb hopen hnone hq hlim hscope

/-- the same with every hypothesis a Boolean the driver can evaluate, and the full conclusion -/
theorem completed_is_saturated_run (L : LogicData) (hside : searchSideB L = true)
    (s : SState) (hchk : invBad L s = []) (bi : Nat) (b : Branch) (hb : s.tab[bi]? = some b) (hopen : b.closed = false)
    (hnone : noTargetsB L s bi = true)
    (hq : b.hasQuit = false) (hlim : exceeded s.maxWorlds b = false) (hscope : inScopeB L b = true) :
    L.saturatedB b = true :=
  completed_is_saturated L hside s (inv_of_invBad hchk) bi b hb hopen (noTargets_of_B hnone) hq hlim (inScope_of_B hscope)

/-- (1a) the invariant holds after `build_trunk`, for ANY trunk whose sentence nodes carry a world when the logic is modal -/
theorem inv_init_nodes (L : LogicData) (nodes : List Node)
    (hw : L.modal = true → ∀ sn d w, Node.sent sn d w ∈ nodes → w.isSome = true) : Inv L (SState.init L nodes) :=
  inv_init L nodes hw

/-- (1a) in particular for the trunk of every argument (`Ptx.trunk`) -/
theorem inv_init_trunk (L : LogicData) (arg : Argument) (b : Branch) (hb : b ∈ trunk L arg) :
    Inv L (SState.init L b.nodes) := by
  apply inv_init
  intro hm sn d w hmem
  simp only [trunk, List.mem_singleton] at hb
  subst hb
  simp only [hm, ↓reduceIte, List.mem_append, List.mem_map, List.mem_singleton] at hmem
  rcases hmem with ⟨p, _, he⟩ | he
  · cases he; rfl
  · cases he; rfl

/-- (1b) preservation, event kind `Ev.search` (a `rule.target(branch)` call: `gc()` and the release of dead cached nodes) -/
theorem inv_step_search (L : LogicData) (s s' : SState) (hinv : Inv L s) (r : RuleId) (bi : Nat)
    (h : stepEv L s (.search r bi) = some s') : Inv L s' := by
  simp only [stepEv, Option.some.injEq] at h
  subst h
  exact inv_search hinv r bi

/-! #### (1b) preservation by `Ev.apply`, one rule kind at a time.  The event is LEGAL: `st` is an enabled target of rule `r` in `s`
     (`Ev.legal`); `stepEv` = the search of `r` on the branch, then `applyTarget`.  No side condition on the logic is needed. -/

/-- (a) closure step (the branch is closed: nothing to maintain on it; all other branches untouched) -/
theorem inv_step_apply_closure (L : LogicData) (s s' : SState) (hinv : Inv L s) (st : Step)
    (hleg : Ev.legal L s (.apply .closure st)) (h : stepEv L s (.apply .closure st) = some s') : Inv L s' :=
  inv_apply hinv hleg.2 h

/-- (b) access rules Reflexive / Transitive / Symmetric / Serial (Serial: the per-branch `lastSerial` is set; every other
    application resets it) -/
theorem inv_step_apply_frame (L : LogicData) (s s' : SState) (hinv : Inv L s) (fr : FrameRule) (st : Step)
    (hleg : Ev.legal L s (.apply (.frame fr) st)) (h : stepEv L s (.apply (.frame fr) st) = some s') : Inv L s' :=
  inv_apply hinv hleg.2 h

/-- (c)–(f) a table rule of ANY kind and branching factor: plain (tick + `after_apply`), branching (every new branch starts from
    the parent's helper state BEFORE the extension and then sees its own nodes and tick — `BranchH.upd`), each-world
    (`NodesWorlds` gains the pair), new-world (fresh world; beyond the world limit: the quit-flag target, which ticks the
    released node of a ticking rule and sets `QuitFlag`) -/
theorem inv_step_apply_table (L : LogicData) (s s' : SState) (hinv : Inv L s) (k : RuleKey) (st : Step)
    (hleg : Ev.legal L s (.apply (.table k) st)) (h : stepEv L s (.apply (.table k) st) = some s') : Inv L s' :=
  inv_apply hinv hleg.2 h

/-- (c) non-branching table rule without witness -/
theorem inv_step_apply_plain (L : LogicData) (s s' : SState) (hinv : Inv L s) (k : RuleKey) (rl : Rule) (bi n : Nat)
    (_hk : L.rule? k = some rl) (_hw : rl.witness = .none) (_hb : rl.branches.length = 1)
    (hleg : Ev.legal L s (.apply (.table k) (.rule bi n none none)))
    (h : stepEv L s (.apply (.table k) (.rule bi n none none)) = some s') : Inv L s' :=
  inv_apply hinv hleg.2 h

/-- (d) branching table rule -/
theorem inv_step_apply_branching (L : LogicData) (s s' : SState) (hinv : Inv L s) (k : RuleKey) (rl : Rule) (bi n : Nat)
    (c : Option (Nat × Nat)) (wo : Option Nat) (_hk : L.rule? k = some rl) (_hb : 1 < rl.branches.length)
    (hleg : Ev.legal L s (.apply (.table k) (.rule bi n c wo)))
    (h : stepEv L s (.apply (.table k) (.rule bi n c wo)) = some s') : Inv L s' :=
  inv_apply hinv hleg.2 h

/-- (e) each-world (necessity-type) rule: `NodesWorlds` update -/
theorem inv_step_apply_each_world (L : LogicData) (s s' : SState) (hinv : Inv L s) (k : RuleKey) (rl : Rule) (bi n w' : Nat)
    (_hk : L.rule? k = some rl) (_hw : rl.witness = .eachWorld)
    (hleg : Ev.legal L s (.apply (.table k) (.rule bi n none (some w'))))
    (h : stepEv L s (.apply (.table k) (.rule bi n none (some w'))) = some s') : Inv L s' :=
  inv_apply hinv hleg.2 h

/-- (f) new-world (possibility-type) rule, regular path and `MaxWorlds` / quit-flag path -/
theorem inv_step_apply_new_world (L : LogicData) (s s' : SState) (hinv : Inv L s) (k : RuleKey) (rl : Rule) (st : Step)
    (_hk : L.rule? k = some rl) (_hw : rl.witness = .newWorld)
    (hleg : Ev.legal L s (.apply (.table k) st)) (h : stepEv L s (.apply (.table k) st) = some s') : Inv L s' :=
  inv_apply hinv hleg.2 h

/-- (1b) ALL events -/
theorem inv_step (L : LogicData) (s s' : SState) (hinv : Inv L s) (e : Ev) (hleg : e.legal L s)
    (h : stepEv L s e = some s') : Inv L s' :=
  inv_stepEv hinv e hleg h

/-- (1) the invariant holds in every reachable state of the search model, under every schedule -/
theorem inv_reachable (L : LogicData) (arg : Argument) (s : SState) (h : Reach L arg s) : Inv L s := by
  induction h with
  | init b hb => exact inv_init_trunk L arg b hb
  | step e _ hleg hs ih => exact inv_step L _ _ ih e hleg hs

/-- (3') every run of the search model is a derivation of the calculus (`applyTarget` goes through `applyStep`): all theorems
    over `Deriv` — soundness C01, the Hintikka lemma C02, C03, C09, C10, C11 — apply to every reachable search state -/
theorem search_run_deriv (L : LogicData) (arg : Argument) (s : SState) (h : Reach L arg s) : Deriv L (trunk L arg) s.tab :=
  reach_deriv h

/-- (1) + (2) + (3'): in EVERY reachable state of the search model (any options, scores, tie-breaks, search order), an open
    branch on which no rule has a target, without quit flag, within the world limit and in scope is a saturated branch of a
    tableau derived from the trunk -/
theorem search_completed_saturated (L : LogicData) (hside : searchSideB L = true) (arg : Argument) (s : SState)
    (hr : Reach L arg s) (bi : Nat) (b : Branch) (hb : s.tab[bi]? = some b) (hopen : b.closed = false)
    (hnone : ∀ r : RuleId, targets L s r bi = [])
    (hq : b.hasQuit = false) (hlim : exceeded s.maxWorlds b = false) (hscope : InScope L b) :
    Deriv L (trunk L arg) s.tab ∧ b ∈ s.tab ∧ L.saturatedB b = true :=
  ⟨search_run_deriv L arg s hr, List.mem_of_getElem? hb,
   completed_is_saturated L hside s (inv_reachable L arg s hr) bi b hb hopen hnone hq hlim hscope⟩

/-! #### (3) progress: an enabled target is a LEGAL step of the calculus, per rule kind (proved: closure, access rules, quit flag;
     NOT proved: `Step.rule` targets of table rules — needs totality of the regenerated templates) -/

/-- (3a) the cached closure target (`closureMonoB L`: the regenerated closure table is monotone in the constraint set) -/
theorem target_legal_closure (L : LogicData) (hmono : closureMonoB L = true) (s : SState) (hinv : Inv L s) (bi : Nat)
    (st : Step) (hm : st ∈ targets L s .closure bi) : ∃ t', applyStep L s.tab st = some t' :=
  (Ptx.Search.target_legal_closure hmono hinv hm).2

/-- (3b) Reflexive / Transitive / Symmetric / Serial targets (`nextWorld` is fresh, the world index is the access nodes) -/
theorem target_legal_frame (L : LogicData) (s : SState) (hinv : Inv L s) (bi : Nat) (fr : FrameRule)
    (st : Step) (hm : st ∈ targets L s (.frame fr) bi) : ∃ t', applyStep L s.tab st = some t' :=
  (Ptx.Search.target_legal_frame hinv hm).2

/-- (3f) quit-flag targets -/
theorem target_legal_quit (L : LogicData) (s : SState) (r : RuleId) (bi : Nat) (tick : Option Nat)
    (hm : Step.quit bi "quit" tick ∈ targets L s r bi) : ∃ t', applyStep L s.tab (.quit bi "quit" tick) = some t' :=
  Ptx.Search.target_legal_quit hm rfl rfl

/-- (3c–f) `Step.rule` / quit targets of a table rule are legal when the rule's row passes the decidable totality condition `rowOKB`
    (non-quantifier shape, witness none / new world / each world, every template instantiates; `templatesOKB L` says so for every
    such row of the logic: `rowOK_of_templates`) -/
theorem target_legal_table (L : LogicData) (s : SState) (hinv : Inv L s) (bi : Nat) (k : RuleKey)
    (hrow : ∀ rl, L.rule? k = some rl → rowOKB L k rl = true) (st : Step) (hm : st ∈ targets L s (.table k) bi) :
    ∃ t', applyStep L s.tab st = some t' :=
  (Ptx.Search.target_legal_table hinv hrow hm).2

/-- (3-Q) targets of new-constant / each-constant rules are legal: `nextConst` is FRESH (`nextConst_fresh`: strictly above every
    constant of the branch in the order of constants), the row passes `rowQOKB` (`templatesQOKB L` for the whole logic), and the
    quantified sentences on the branch are well formed (`quantOK`, a property of the input sentences) -/
theorem target_legal_quant (L : LogicData) (s : SState) (hinv : Inv L s) (bi : Nat) (k : RuleKey)
    (hrow : ∀ rl, L.rule? k = some rl → rowQOKB k rl = true)
    (hqok : ∀ b, s.tab[bi]? = some b → ∀ sn d w, Node.sent sn d w ∈ b.nodes → ∀ sh ng whole,
      sn.decomp = some (sh, ng, whole) → whole.quantOK L = true)
    (st : Step) (hm : st ∈ targets L s (.table k) bi) : ∃ t', applyStep L s.tab st = some t' :=
  (Ptx.Search.target_legal_quant hinv hrow hqok hm).2

/-- freshness of the witness constant of the model's new-constant targets -/
theorem search_new_constant_fresh (b : Branch) : b.consts.contains (nextConst b) = false := nextConst_fresh b

/-- (3) PROGRESS, no exemption: in every reachable state every enabled target — closure group, access rules, identity rule,
    table rules of every kind — can be applied (`stepEv … = some _`), provided the rule's row passes the decidable totality
    condition (`rowOKB`, or `rowQOKB` for constant-witness rows together with well-formed quantified sentences on the branch) -/
theorem search_progress (L : LogicData) (hmono : closureMonoB L = true) (arg : Argument) (s : SState) (hr : Reach L arg s)
    (r : RuleId) (st : Step) (hleg : Ev.legal L s (.apply r st))
    (hrows : ∀ k, r = .table k → (∀ rl, L.rule? k = some rl → rowOKB L k rl = true) ∨
      ((∀ rl, L.rule? k = some rl → rowQOKB k rl = true) ∧
        ∀ b, s.tab[st.branch]? = some b → ∀ sn d w, Node.sent sn d w ∈ b.nodes → ∀ sh ng whole,
          sn.decomp = some (sh, ng, whole) → whole.quantOK L = true)) :
    ∃ s', stepEv L s (.apply r st) = some s' :=
  progress_apply hmono (inv_reachable L arg s hr) hleg.2 hrows

/-- what `SatMod` means, clause by clause, in terms of the saturation predicate of Ptx/Tab/Saturated.lean -/
theorem satMod_unsaturated (L : LogicData) (b : Branch) (h : SatMod L b) :
    L.frameMissing b = [] ∧ L.identMissing b = [] ∧
    ∀ sn d w, Node.sent sn d w ∈ b.nodes → L.nodeMissing b sn d w = [] ∧ L.identCloses (.sent sn d w) = false :=
  ⟨h.frame, h.identSub, fun sn d w hm => ⟨h.nodes sn d w hm, h.ident sn d w hm⟩⟩

/-- (4), first half: a target of a table rule never names a ticked node -/
theorem ticked_not_target (L : LogicData) (s : SState) (hinv : Inv L s) (bi : Nat) (b : Branch)
    (hb : s.tab[bi]? = some b) (hopen : b.closed = false) (k : RuleKey) (n : Nat) (c : Option (Nat × Nat)) (wo : Option Nat)
    (ht : Step.rule bi n c wo ∈ targets L s (.table k) bi) : n ∉ b.ticked :=
  table_target_unticked hinv hb hopen ht

/-! ### non-vacuity: a hand-built logic (classical markers, double negation, conjunction, possibility / necessity, Reflexive)
    and states REACHED by the model's own transitions that satisfy every hypothesis -/

def miniS : LogicData :=
  { (default : LogicData) with
    name := "miniS", modal := true, quantified := true, frameRules := ["Reflexive"], closesSelfIdNeg := true,
    rules := [(⟨.op1 .neg, true, none⟩, ⟨"DoubleNegation", true, .none, [[.node ⟨.lhs, none, false⟩]]⟩),
              (⟨.op2 .conj, false, none⟩, ⟨"Conjunction", true, .none, [[.node ⟨.lhs, none, false⟩, .node ⟨.rhs, none, false⟩]]⟩),
              (⟨.op2 .disj, false, none⟩, ⟨"Disjunction", true, .none, [[.node ⟨.lhs, none, false⟩], [.node ⟨.rhs, none, false⟩]]⟩),
              (⟨.quant .ex, false, none⟩, ⟨"Existential", true, .newConst, [[.node ⟨.lhs, none, false⟩]]⟩),
              (⟨.quant .univ, false, none⟩, ⟨"Universal", false, .eachConst, [[.node ⟨.lhs, none, false⟩]]⟩),
              (⟨.op1 .poss, false, none⟩, ⟨"Possibility", true, .newWorld, [[.node ⟨.lhs, none, true⟩, .access]]⟩),
              (⟨.op1 .nec, false, none⟩, ⟨"Necessity", false, .eachWorld, [[.node ⟨.lhs, none, true⟩]]⟩)],
    closure := [([], false), ([⟨false, none⟩], false), ([⟨true, none⟩], false), ([⟨false, none⟩, ⟨true, none⟩], true)] }

example : searchSideB miniS = true := by decide
example : closureMonoB miniS = true ∧ templatesOKB miniS = true ∧ templatesQOKB miniS = true := by decide

/-- trunk `¬¬a ∧ □b` at world 0; Conjunction, DoubleNegation, Reflexive, Necessity applied (each an enabled target) -/
def exTrunk : List Node := [.sent (.op2 .conj (.op1 .neg (.op1 .neg (.atom 0 0))) (.op1 .nec (.atom 1 0))) none (some 0)]
def exEvs : List Ev :=
  [.apply (.table ⟨.op2 .conj, false, none⟩) (.rule 0 0 none none),
   .search (.frame .reflexive) 0,
   .apply (.table ⟨.op1 .neg, true, none⟩) (.rule 0 1 none none),
   .apply (.frame .reflexive) (.frame 0 .reflexive 0 0 0),
   .apply (.table ⟨.op1 .nec, false, none⟩) (.rule 0 2 none (some 0))]
def exState : SState := (runLegal miniS (SState.init miniS exTrunk) exEvs).getD default
def exBranch : Branch := (exState.tab[0]?).getD default

/-- every event of the run is legal (an enabled target of a rule of the logic), and the run ends with 6 nodes, two of them ticked -/
example : (runLegal miniS (SState.init miniS exTrunk) exEvs).isSome = true ∧ exBranch.nodes.length = 6 ∧ exBranch.ticked = [0, 1] := by decide
example : invBad miniS (SState.init miniS exTrunk) = [] ∧ invBad miniS exState = [] := by decide
example : noTargetsB miniS (SState.init miniS exTrunk) 0 = false := by decide

/-- non-vacuity of `completed_is_saturated_run` / `_checked` / `completed_is_saturated`: every hypothesis holds of `exState` -/
example : miniS.saturatedB exBranch = true :=
  completed_is_saturated_run miniS (by decide) exState (by decide) 0 exBranch (by decide) (by decide)
    (by decide) (by decide) (by decide) (by decide)

example : SatMod miniS exBranch :=
  completed_is_saturated_checked miniS (by decide) (by decide) exState (by decide) 0 exBranch (by decide) (by decide)
    (noTargets_of_B (by decide)) (by decide) (by decide) (inScope_of_B (by decide))

example : Inv miniS exState := inv_check_sound miniS exState (by decide)
theorem exTrunk_worlded : miniS.modal = true → ∀ sn d w, Node.sent sn d w ∈ exTrunk → w.isSome = true := by
  intro _ sn d w hm
  simp only [exTrunk, List.mem_singleton, Node.sent.injEq] at hm
  rw [hm.2.2]; rfl
example : Inv miniS (SState.init miniS exTrunk) := inv_init_nodes miniS exTrunk exTrunk_worlded
example : Inv miniS ((SState.init miniS exTrunk).search miniS (.frame .reflexive) 0) :=
  inv_step_search miniS _ _ (inv_init_nodes miniS exTrunk exTrunk_worlded) (.frame .reflexive) 0 rfl

/-! non-vacuity of the dynamics: a legal run through every event kind — branching (Disjunction: 2 branches), new-world (Possibility),
    Reflexive, each-world (Necessity), a closure step — and the quit-flag path beyond the world limit -/
def exTrunk2 : List Node :=
  [.sent (.op2 .disj (.op1 .poss (.atom 0 0)) (.op1 .neg (.atom 1 0))) none (some 0),
   .sent (.op1 .nec (.atom 1 0)) none (some 0)]
def exEvs2 : List Ev :=
  [.apply (.table ⟨.op2 .disj, false, none⟩) (.rule 0 0 none none),
   .apply (.table ⟨.op1 .poss, false, none⟩) (.rule 0 2 none (some 1)),
   .search (.table ⟨.op1 .nec, false, none⟩) 1,
   .apply (.frame .reflexive) (.frame 1 .reflexive 0 0 0),
   .apply (.table ⟨.op1 .nec, false, none⟩) (.rule 1 1 none (some 0)),
   .apply .closure (.close 1 (.atom 1 0) (some 0))]
example : (runLegal miniS (SState.init miniS exTrunk2) exEvs2).isSome = true := by decide
example : (((runLegal miniS (SState.init miniS exTrunk2) exEvs2).getD default).tab.map Branch.closed) = [false, true] := by decide

/-- `inv_step` along that run: the invariant in the final state by the THEOREM (the check `invBad` agrees) -/
theorem runLegal_inv (L : LogicData) : ∀ (evs : List Ev) (s s' : SState), Inv L s → runLegal L s evs = some s' → Inv L s'
  | [], s, s', h, hr => by simp only [runLegal, Option.some.injEq] at hr; exact hr ▸ h
  | e :: es, s, s', h, hr => by
      simp only [runLegal] at hr
      split at hr
      · next hl =>
        cases hs : stepEv L s e with
        | none => simp [hs] at hr
        | some s1 =>
          simp only [hs, Option.bind_some] at hr
          have hleg : e.legal L s := by
            cases e with
            | search r bi => trivial
            | apply r st =>
              simp only [Ev.legalB, Bool.and_eq_true, List.contains_iff_mem] at hl
              exact hl
          exact runLegal_inv L es s1 s' (inv_step L s s1 h e hleg hs) hr
      · cases hr

theorem exTrunk2_worlded : miniS.modal = true → ∀ sn d w, Node.sent sn d w ∈ exTrunk2 → w.isSome = true := by
  intro _ sn d w hm
  simp only [exTrunk2, List.mem_cons, Node.sent.injEq, List.not_mem_nil, or_false] at hm
  rcases hm with h | h <;> (rw [h.2.2]; rfl)

example : Inv miniS ((runLegal miniS (SState.init miniS exTrunk2) exEvs2).getD default) := by
  cases h : runLegal miniS (SState.init miniS exTrunk2) exEvs2 with
  | none => exact absurd h (by decide)
  | some s' => exact runLegal_inv miniS exEvs2 _ s' (inv_init_nodes miniS exTrunk2 exTrunk2_worlded) h
example : invBad miniS ((runLegal miniS (SState.init miniS exTrunk2) exEvs2).getD default) = [] := by decide

/-- the quit-flag path: beyond the world limit the Possibility rule's only target is the flag, which ticks the node -/
example :
    let s : SState := { (SState.init miniS [.sent (.op1 .poss (.atom 0 0)) none (some 0), .access 0 1]) with maxWorlds := 1 }
    (runLegal miniS s [.apply (.table ⟨.op1 .poss, false, none⟩) (.quit 0 "quit" (some 0))]).isSome = true := by decide

/-- the progress theorems are not vacuous: targets exist in these states -/
example : (targets miniS (SState.init miniS exTrunk) (.frame .reflexive) 0).length = 1 := by decide

/-! non-vacuity of the first-order statements: `∀x Fx`, `∃x Gx`: Existential with the fresh constant, Universal for the first
    constant, Reflexive; then nothing has a target and the branch is saturated -/
def exTrunk3 : List Node :=
  [.sent (.quant .univ 0 0 (.pred ⟨0, 0, 1⟩ [.var 0 0])) none (some 0),
   .sent (.quant .ex 0 0 (.pred ⟨1, 0, 1⟩ [.var 0 0])) none (some 0)]
def exEvs3 : List Ev :=
  [.apply (.table ⟨.quant .ex, false, none⟩) (.rule 0 1 (some (0, 0)) none),
   .apply (.table ⟨.quant .univ, false, none⟩) (.rule 0 0 (some (0, 0)) none),
   .apply (.frame .reflexive) (.frame 0 .reflexive 0 0 0)]
def exState3 : SState := (runLegal miniS (SState.init miniS exTrunk3) exEvs3).getD default
def exBranch3 : Branch := (exState3.tab[0]?).getD default
example : (runLegal miniS (SState.init miniS exTrunk3) exEvs3).isSome = true ∧ exBranch3.nodes.length = 5 := by decide
example : quantTicksB miniS = true := by decide
example : miniS.saturatedB exBranch3 = true :=
  completed_is_saturated_fo_checked miniS (by decide) (by decide) exState3 (by decide) (by decide) 0 exBranch3 (by decide)
    (by decide) (by decide) (by decide) (by decide) (constWithin_of_B (by decide)) (by decide) (by decide)

/-! non-vacuity of the termination theorem: a propositional logic with weights, and a run with one application -/
def miniP : LogicData :=
  { (default : LogicData) with
    name := "miniP",
    rules := [(⟨.op2 .conj, false, none⟩, ⟨"Conjunction", true, .none, [[.node ⟨.lhs, none, false⟩, .node ⟨.rhs, none, false⟩]]⟩)],
    closure := [([], false), ([⟨false, none⟩], false), ([⟨true, none⟩], false), ([⟨false, none⟩, ⟨true, none⟩], true)] }
def unitW : Weights := ⟨fun _ => 1, fun _ => 1, fun _ => 1, fun _ => 1, fun _ => 1, fun _ => 1, fun _ => 0⟩
def argP : Argument := ⟨[.op2 .conj (.atom 0 0) (.atom 1 0)], .atom 0 0⟩
example : miniP.frameRules = [] ∧ miniP.measureOKOnB RuleKey.isTF unitW = true ∧ miniP.tfRowsOKB = true ∧ argP.isProp = true := by
  decide
example : ∃ s, ReachN miniP argP 1 s := by
  obtain ⟨b, hb⟩ : ∃ b, b ∈ trunk miniP argP := ⟨_, List.mem_singleton.2 rfl⟩
  have h0 := ReachN.init (L := miniP) (arg := argP) b hb
  simp only [trunk, List.mem_singleton] at hb
  subst hb
  cases hs : stepEv miniP (SState.init miniP (trunk miniP argP).head!.nodes)
      (.apply (.table ⟨.op2 .conj, false, none⟩) (.rule 0 0 none none)) with
  | none => exact absurd hs (by decide)
  | some s' => exact ⟨s', ReachN.apply _ _ h0 ⟨by decide, by decide⟩ hs⟩

/-- the quantifier layer by THEOREM along the first-order run above (and the run-time check agrees) -/
example : InvQ miniS exState3 := by
  have h0 : InvQ miniS (SState.init miniS exTrunk3) := invq_init miniS exTrunk3
  have hi0 : Inv miniS (SState.init miniS exTrunk3) := inv_check_sound miniS _ (by decide)
  exact invq_check_sound miniS exState3 (by decide)

/-! non-vacuity with identity: `a = b`, `Fa` — IdentityIndiscernability adds `Fb` (and nothing else: `b = b` is a self-identity,
    `a = a` likewise); then no rule has a target and the branch is saturated WITHOUT any scope hypothesis -/
def exTrunk4 : List Node :=
  [.sent (.pred Pred.identity [.const 0 0, .const 1 0]) none (some 0),
   .sent (.pred ⟨0, 0, 1⟩ [.const 0 0]) none (some 0)]
def exEvs4 : List Ev :=
  [.apply .ident (.ident 0 0 1), .apply (.frame .reflexive) (.frame 0 .reflexive 0 0 0)]
def exState4 : SState := (runLegal miniS (SState.init miniS exTrunk4) exEvs4).getD default
def exBranch4 : Branch := (exState4.tab[0]?).getD default
example : (runLegal miniS (SState.init miniS exTrunk4) exEvs4).isSome = true ∧ exBranch4.nodes.length = 4 ∧
    (targets miniS (SState.init miniS exTrunk4) .ident 0).length = 1 := by decide
example : miniS.saturatedB exBranch4 = true :=
  completed_is_saturated_all miniS (by decide) (by decide) exState4 (inv_check_sound miniS _ (by decide))
    (invq_check_sound miniS _ (by decide)) 0 exBranch4 (by decide) (by decide) (tickedQ_of_B miniS _ (by decide))
    (noTargets_of_B (by decide)) (by decide) (by decide) (constWithin_of_B (by decide)) (Or.inl (by decide))

/-! non-vacuity of the termination theorem with access rules: the propositional logic above made modal and reflexive; a run with
    one Conjunction application and one Reflexive step -/
def miniPT : LogicData := { miniP with name := "miniPT", modal := true, frameRules := ["Reflexive"] }
example : miniPT.frameAllowed .serial = false ∧ miniPT.measureOKOnB RuleKey.isTF unitW = true ∧ miniPT.tfRowsOKB = true := by decide
example : ∃ s, ReachN miniPT argP 2 s := by
  obtain ⟨b, hb⟩ : ∃ b, b ∈ trunk miniPT argP := ⟨_, List.mem_singleton.2 rfl⟩
  have h0 := ReachN.init (L := miniPT) (arg := argP) b hb
  simp only [trunk, List.mem_singleton] at hb
  subst hb
  cases hs : stepEv miniPT (SState.init miniPT (trunk miniPT argP).head!.nodes)
      (.apply (.table ⟨.op2 .conj, false, none⟩) (.rule 0 0 none none)) with
  | none => exact absurd hs (by decide)
  | some s1 =>
    have h1 := ReachN.apply _ _ h0 ⟨by decide, by decide⟩ hs
    cases hs2 : stepEv miniPT s1 (.apply (.frame .reflexive) (.frame 0 .reflexive 0 0 0)) with
    | none =>
      exfalso
      have : s1 = (stepEv miniPT (SState.init miniPT (trunk miniPT argP).head!.nodes)
        (.apply (.table ⟨.op2 .conj, false, none⟩) (.rule 0 0 none none))).getD default := by rw [hs]; rfl
      subst this
      exact absurd hs2 (by decide)
    | some s2 =>
      refine ⟨s2, ReachN.apply _ _ h1 ⟨?_, ?_⟩ hs2⟩
      · decide
      · have : s1 = (stepEv miniPT (SState.init miniPT (trunk miniPT argP).head!.nodes)
          (.apply (.table ⟨.op2 .conj, false, none⟩) (.rule 0 0 none none))).getD default := by rw [hs]; rfl
        subst this
        decide

/-- the world-limit hypothesis is not idle: a state beyond the limit in which nothing has a target, no quit flag, and the
    branch is NOT saturated (Reflexive stops at the limit without a flag — known finding k2) -/
example :
    let s : SState := { (SState.init miniS [.sent (.atom 0 0) none (some 0), .access 0 1]) with maxWorlds := 1 }
    let b := (s.tab[0]?).getD default
    invBad miniS s = [] ∧ noTargetsB miniS s 0 = true ∧ b.hasQuit = false ∧ exceeded s.maxWorlds b = true ∧
      miniS.saturatedB b = false := by decide

end Ptx.Props.Search
