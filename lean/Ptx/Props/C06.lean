/-
  C06 — New constants and new worlds are always fresh.

  Model: Ptx/Tab/Branch.lean (`BranchState`, `append`, `copy`, `tick`, `newConstant`, `newWorld`,
  a forest of branches and histories `List BranchOp` over it).  "Occurs on the branch" is the
  independent walk `ConstOnNode` / `WorldOnNode` over the nodes actually stored — not the cached
  `consts` / `worlds` fields; `C06_cache_exact` then ties the cached fields to the walk.

  The clause "every rule that introduces a witness uses such a fresh item" is about the rule
  implementations (they call `branch.new_constant()` / `branch.new_world()`); it is checked as a
  correspondence/oracle stream over real proofs in all registered logics (harness/props/c06.py),
  not stated in Lean here.
-/
import Ptx.Proofs.TabBranch
namespace Ptx.Props.C06
open Ptx Ptx.Tab

/-- After any finite history of node additions, branch copies, ticks and new branches, on every
    branch of the forest: the constant offered as new occurs in no sentence on the branch and the
    world offered as new occurs in no node on it. -/
theorem C06_fresh_all_histories (ops : List BranchOp) : ∀ b ∈ run ops, Fresh b :=
  fun b hb => (binv_run ops b hb).fresh

-- non-vacuous: a history with constants in non-alphabetical order, a subscripted constant, a
-- world-2 node and an access node; the branch offers a₂ (index 0, subscript 2) and world 8
example :
    let F (i s : Nat) : Sent := .pred ⟨0, 0, 1⟩ [.const i s]
    let f := run [.append 0 10 (.sent (F 1 0) none none), .append 0 11 (.sent (F 0 0) none none),
                  .append 0 12 (.sent (F 3 1) none (some 2)), .append 0 13 (.access 2 7)]
    f.map (fun b => (b.newConstant, b.newWorld, b.nodes.length)) = [(⟨0, 2⟩, 8, 4)] := by decide

/-- The counters are in fact above everything on the branch (what the implementation maintains;
    it implies `Fresh`). -/
theorem C06_above_all (ops : List BranchOp) : ∀ b ∈ run ops, AboveAll b :=
  fun b hb => (binv_run ops b hb).1

/-- The cached `constants` and `worlds` sets are exactly the constants of the sentences and the
    worlds of the nodes on the branch. -/
theorem C06_cache_exact (ops : List BranchOp) : ∀ b ∈ run ops, CacheExact b :=
  fun b hb => (binv_run ops b hb).2

/-- A single successful `append` keeps freshness (the step of the induction, stated on its own:
    whatever node is added to a branch satisfying the invariant). -/
theorem C06_append_fresh (b b' : BranchState) (id : Nat) (n : Node) (h : AboveAll b ∧ CacheExact b)
    (ha : b.append id n = .ok b') : Fresh b' ∧ AboveAll b' ∧ CacheExact b' :=
  have h' := binv_append h id n ha
  ⟨h'.fresh, h'.1, h'.2⟩

/-- A failing `append` (closed branch, or the same node object again) changes nothing: the forest
    is returned as it was. -/
theorem C06_append_error_unchanged (f : Forest) (k id : Nat) (n : Node) (e : BranchErr)
    (h : (execOp f (.append k id n)).2 = .err e) : (execOp f (.append k id n)).1 = f := by
  simp only [execOp] at h ⊢
  cases hk : f[k]? with
  | none => rfl
  | some bs =>
    simp only [hk] at h ⊢
    cases ha : bs.append id n with
    | error e' => rfl
    | ok bs' => simp [ha] at h

example : (execOp (run [.append 0 1 (.flag "closure")]) (.append 0 2 .ellipsis)).2 = .err .illegalState ∧
    (execOp (run [.append 0 1 .ellipsis]) (.append 0 1 .ellipsis)).2 = .err .duplicate := by decide

/-- **Copies are independent.**  A copy starts out equal to its original (same nodes, same cached
    sets, same counters) … -/
theorem C06_copy_equal (f : Forest) (i : Nat) (bs : BranchState) (hi : f[i]? = some bs) :
    (execOp f (.copy i)).1[f.length]? = some bs ∧ (execOp f (.copy i)).2 = .ok := by
  simp [execOp, hi, BranchState.copy]

/-- … and from then on no operation addressed to another branch (in particular to its copy, or
    to its original) changes a branch: its nodes, cached sets and both counters stay what they
    were, whatever history follows. -/
theorem C06_copy_independent (f : Forest) (k : Nat) (hk : k < f.length) (ops : List BranchOp)
    (h : ∀ op ∈ ops, op.target ≠ some k) : (runFrom f ops)[k]? = f[k]? :=
  runFrom_get_other f ops k hk h

-- fork, then extend parent and copy differently: each keeps its own fresh constant
example :
    let F (i s : Nat) : Sent := .pred ⟨0, 0, 1⟩ [.const i s]
    let f := run [.append 0 1 (.sent (F 0 0) none none), .copy 0,
                  .append 1 2 (.sent (F 2 0) none none), .append 0 3 (.sent (F 1 0) none (some 4))]
    f.map (fun b => (b.newConstant, b.newWorld)) = [(⟨2, 0⟩, 5), (⟨3, 0⟩, 0)] := by decide

/-- For the record: the rule that was in `Branch.append` before commit c02e76b ("advance only if
    the counter itself occurs in the sentence") is *not* fresh — after `Fb`, `Ga` it offers `b`. -/
theorem legacy_rule_not_fresh :
    let F (p i : Nat) : Sent := .pred ⟨p, 0, 1⟩ [.const i 0]
    let b1 := ({ BranchState.empty with entries := [(1, .sent (F 0 1) none none)] } : BranchState).addConstsLegacy
                (sentConsts (F 0 1))
    let b2 := ({ b1 with entries := b1.entries ++ [(2, .sent (F 1 0) none none)] } : BranchState).addConstsLegacy
                (sentConsts (F 1 0))
    b2.newConstant = ⟨1, 0⟩ ∧ ¬ Fresh b2 := by
  refine ⟨by decide, ?_⟩
  intro h
  refine h.1 (.sent (.pred ⟨0, 0, 1⟩ [.const 1 0]) none none) (by decide) ?_
  exact ConstOccurs.pred _ _ (by decide)

end Ptx.Props.C06
