/-
  C06 — New constants and new worlds are always fresh.

  Model: Ptx/Tab/Branch.lean (`BranchState`, `append`, `copy`, `tick`, `newConstant`, `newWorld`,
  a forest of branches and histories `List BranchOp` over it).  "Occurs on the branch" is the
  independent walk `ConstOnNode` / `WorldOnNode` over the nodes actually stored — not the cached
  `consts` / `worlds` fields; `C06_cache_exact` then ties the cached fields to the walk.

  The clause "every rule that introduces a witness uses such a fresh item": in the calculus model
  a step of a witness rule is LEGAL only with a fresh item — `C06_witness_step_fresh` (new-constant
  and new-world rule rows of the regenerated tables) and `C06_serial_step_fresh`, lifted to whole
  step sequences by `C06_witness_replay_fresh`.  Every step of every real proof of the sweeps is
  replayed through `applyStep` (C01/C02/C09 whole-proof replay), which rows are witness rows is
  regenerated from the running rules, and harness/props/c06.py additionally compares each real
  witness with what the branch offered (`new_constant()` / `new_world()`) just before the step.
-/
import Ptx.Proofs.TabBranch
import Ptx.Tab.Calculus
namespace Ptx.Props.C06
open Ptx Ptx.Tab

/-- After any finite history of node additions, branch copies, ticks and new branches, on every
    branch of the forest: the constant offered as new occurs in no sentence on the branch and the
    world offered as new occurs in no node on it. -/
theorem C06_fresh_all_histories (ops : List BranchOp) : ∀ b ∈ run ops, Fresh b :=
  fun b hb => (binv_run ops b hb).fresh

-- non-vacuous: a history with constants in non-alphabetical order, a subscripted constant, a
-- world-2 node and an access node; the branch offers a₂ (index 0, subscript 2) and world 8
example :
    let F (i s : Nat) : Sent := .pred ⟨0, 0, 1⟩ [.const i s]
    let f := run [.append 0 10 (.sent (F 1 0) none none), .append 0 11 (.sent (F 0 0) none none),
                  .append 0 12 (.sent (F 3 1) none (some 2)), .append 0 13 (.access 2 7)]
    f.map (fun b => (b.newConstant, b.newWorld, b.nodes.length)) = [(⟨0, 2⟩, 8, 4)] := by decide

/-- The counters are in fact above everything on the branch (what the implementation maintains;
    it implies `Fresh`). -/
theorem C06_above_all (ops : List BranchOp) : ∀ b ∈ run ops, AboveAll b :=
  fun b hb => (binv_run ops b hb).1

/-- The cached `constants` and `worlds` sets are exactly the constants of the sentences and the
    worlds of the nodes on the branch. -/
theorem C06_cache_exact (ops : List BranchOp) : ∀ b ∈ run ops, CacheExact b :=
  fun b hb => (binv_run ops b hb).2

/-- A single successful `append` keeps freshness (the step of the induction, stated on its own:
    whatever node is added to a branch satisfying the invariant). -/
theorem C06_append_fresh (b b' : BranchState) (id : Nat) (n : Node) (h : AboveAll b ∧ CacheExact b)
    (ha : b.append id n = .ok b') : Fresh b' ∧ AboveAll b' ∧ CacheExact b' :=
  have h' := binv_append h id n ha
  ⟨h'.fresh, h'.1, h'.2⟩

/-- A failing `append` (closed branch, or the same node object again) changes nothing: the forest
    is returned as it was. -/
theorem C06_append_error_unchanged (f : Forest) (k id : Nat) (n : Node) (e : BranchErr)
    (h : (execOp f (.append k id n)).2 = .err e) : (execOp f (.append k id n)).1 = f := by
  simp only [execOp] at h ⊢
  cases hk : f[k]? with
  | none => rfl
  | some bs =>
    simp only [hk] at h ⊢
    cases ha : bs.append id n with
    | error e' => rfl
    | ok bs' => simp [ha] at h

example : (execOp (run [.append 0 1 (.flag "closure")]) (.append 0 2 .ellipsis)).2 = .err .illegalState ∧
    (execOp (run [.append 0 1 .ellipsis]) (.append 0 1 .ellipsis)).2 = .err .duplicate := by decide

/-- **Copies are independent.**  A copy starts out equal to its original (same nodes, same cached
    sets, same counters) … -/
theorem C06_copy_equal (f : Forest) (i : Nat) (bs : BranchState) (hi : f[i]? = some bs) :
    (execOp f (.copy i)).1[f.length]? = some bs ∧ (execOp f (.copy i)).2 = .ok := by
  simp [execOp, hi, BranchState.copy]

/-- … and from then on no operation addressed to another branch (in particular to its copy, or
    to its original) changes a branch: its nodes, cached sets and both counters stay what they
    were, whatever history follows. -/
theorem C06_copy_independent (f : Forest) (k : Nat) (hk : k < f.length) (ops : List BranchOp)
    (h : ∀ op ∈ ops, op.target ≠ some k) : (runFrom f ops)[k]? = f[k]? :=
  runFrom_get_other f ops k hk h

-- fork, then extend parent and copy differently: each keeps its own fresh constant
example :
    let F (i s : Nat) : Sent := .pred ⟨0, 0, 1⟩ [.const i s]
    let f := run [.append 0 1 (.sent (F 0 0) none none), .copy 0,
                  .append 1 2 (.sent (F 2 0) none none), .append 0 3 (.sent (F 1 0) none (some 4))]
    f.map (fun b => (b.newConstant, b.newWorld)) = [(⟨2, 0⟩, 5), (⟨3, 0⟩, 0)] := by decide

/-- For the record: the rule that was in `Branch.append` before commit c02e76b ("advance only if
    the counter itself occurs in the sentence") is *not* fresh — after `Fb`, `Ga` it offers `b`. -/
theorem legacy_rule_not_fresh :
    let F (p i : Nat) : Sent := .pred ⟨p, 0, 1⟩ [.const i 0]
    let b1 := ({ BranchState.empty with entries := [(1, .sent (F 0 1) none none)] } : BranchState).addConstsLegacy
                (sentConsts (F 0 1))
    let b2 := ({ b1 with entries := b1.entries ++ [(2, .sent (F 1 0) none none)] } : BranchState).addConstsLegacy
                (sentConsts (F 1 0))
    b2.newConstant = ⟨1, 0⟩ ∧ ¬ Fresh b2 := by
  refine ⟨by decide, ?_⟩
  intro h
  refine h.1 (.sent (.pred ⟨0, 0, 1⟩ [.const 1 0]) none none) (by decide) ?_
  exact ConstOccurs.pred _ _ (by decide)

/-! ### witness rules use a fresh item -/

/-- A legal step of a rule row of witness kind "new constant" (existential-type quantifier rows)
    carries a constant that occurs in no sentence on the branch; one of kind "new world"
    (possibility-type modal rows) a world that labels no node on it. -/
theorem C06_witness_step_fresh (L : LogicData) (t t' : Tableau) (bi n : Nat) (c : Option (Nat × Nat))
    (wo : Option Nat) (b : Branch) (hb : t[bi]? = some b)
    (h : applyStep L t (.rule bi n c wo) = some t') :
    ∃ s d w r gs, b.nodes[n]? = some (.sent s d w) ∧ L.ruleGroups b s d w c wo = some (r, gs) ∧
      (r.witness = .newConst → ∃ k, c = some k ∧ b.consts.contains k = false) ∧
      (r.witness = .newWorld → ∃ w', wo = some w' ∧ b.worlds.contains w' = false) := by
  simp only [applyStep, Step.branch, hb] at h
  split at h
  · cases h
  · simp only [applyAt] at h
    split at h
    · next s d w hn =>
      split at h
      · next r g0 rest hg =>
        refine ⟨s, d, w, r, g0 :: rest, hn, hg, ?_, ?_⟩
        · intro hw
          simp only [LogicData.ruleGroups] at hg
          split at hg
          · cases hg
          · split at hg
            · split at hg
              · cases hg
              · split at hg
                · next gs hwg =>
                  simp only [Option.some.injEq, Prod.mk.injEq] at hg
                  obtain ⟨rfl, _⟩ := hg
                  simp only [witnessGroups, hw] at hwg
                  split at hwg
                  · next ci cs =>
                    split at hwg
                    · cases hwg
                    · next hc =>
                      refine ⟨(ci, cs), rfl, ?_⟩
                      simp only [Bool.or_eq_true, not_or, Bool.not_eq_true] at hc
                      exact hc.1
                  · cases hwg
                · cases hg
            · cases hg
        · intro hw
          simp only [LogicData.ruleGroups] at hg
          split at hg
          · cases hg
          · split at hg
            · split at hg
              · cases hg
              · split at hg
                · next gs hwg =>
                  simp only [Option.some.injEq, Prod.mk.injEq] at hg
                  obtain ⟨rfl, _⟩ := hg
                  simp only [witnessGroups, hw] at hwg
                  split at hwg
                  · split at hwg
                    · cases hwg
                    · next hc =>
                      refine ⟨_, rfl, ?_⟩
                      simp only [Bool.or_eq_true, not_or, Bool.not_eq_true] at hc
                      exact hc.1
                  · cases hwg
                · cases hg
            · cases hg
      · cases h
    · cases h

/-- non-vacuity: a modal mini-logic with the possibility rule and an existential rule as the
    extractor writes them: the step with a fresh world / constant is legal, the same step with a
    world / constant already on the branch is not -/
def miniW : LogicData :=
  { (default : LogicData) with
    modal := true, quantified := true, frameRules := ["Serial"],
    rules := [(⟨.op1 .poss, false, none⟩, ⟨"Possibility", true, .newWorld, [[.node ⟨.lhs, none, true⟩, .access]]⟩),
              (⟨.quant .ex, false, none⟩, ⟨"Existential", true, .newConst, [[.node ⟨.lhs, none, false⟩]]⟩)] }

example :
    let F (x : Param) : Sent := .pred ⟨0, 0, 1⟩ [x]
    let t : Tableau := [{ nodes := [.sent (.op1 .poss (.atom 0 0)) none (some 0),
                                    .sent (.quant .ex 0 0 (F (.var 0 0))) none (some 0),
                                    .sent (F (.const 1 0)) none (some 0)] }]
    (applyStep miniW t (.rule 0 0 none (some 1))).isSome = true ∧
    (applyStep miniW t (.rule 0 0 none (some 0))).isSome = false ∧
    (applyStep miniW t (.rule 0 1 (some (0, 0)) none)).isSome = true ∧
    (applyStep miniW t (.rule 0 1 (some (1, 0)) none)).isSome = false ∧
    (applyStep miniW t (.frame 0 .serial 0 1 0)).isSome = true ∧
    (applyStep miniW t (.frame 0 .serial 0 0 0)).isSome = false := by decide

/-- The serial rule: a legal step adds an arrow into a world that labels no node on the branch. -/
theorem C06_serial_step_fresh (L : LogicData) (t t' : Tableau) (bi w1 w2 w3 : Nat) (b : Branch)
    (hb : t[bi]? = some b) (h : applyStep L t (.frame bi .serial w1 w2 w3) = some t') :
    b.worlds.contains w2 = false ∧ b.worlds.contains w1 = true := by
  simp only [applyStep, Step.branch, hb] at h
  split at h
  · cases h
  · simp only [applyAt] at h
    split at h
    · cases h
    · split at h
      · next nd hfa =>
        simp only [frameAdd] at hfa
        split at hfa
        · next hc =>
          simp only [Bool.and_eq_true, Bool.not_eq_true'] at hc
          exact ⟨hc.2, hc.1⟩
        · cases hfa
      · cases h

/-- the freshness requirement of one step against the branch it is applied to -/
def StepFresh (L : LogicData) (t : Tableau) : Step → Prop
  | .rule bi n c wo => ∀ b, t[bi]? = some b → ∀ s d w r gs, b.nodes[n]? = some (.sent s d w) →
      L.ruleGroups b s d w c wo = some (r, gs) →
      (r.witness = .newConst → ∃ k, c = some k ∧ b.consts.contains k = false) ∧
      (r.witness = .newWorld → ∃ w', wo = some w' ∧ b.worlds.contains w' = false)
  | .frame bi .serial _ w2 _ => ∀ b, t[bi]? = some b → b.worlds.contains w2 = false
  | _ => True

/-- Every step of every accepted step sequence (any options, any order, build or step) that
    introduces a witness uses an item fresh for the branch AS IT IS AT THAT MOMENT. -/
theorem C06_witness_replay_fresh (L : LogicData) : ∀ (steps : List Step) (t t' : Tableau),
    replay L t steps = some t' →
    ∀ k (hk : k < steps.length), ∃ tk, replay L t (steps.take k) = some tk ∧ StepFresh L tk steps[k]
  | [], _, _, _, k, hk => by simp at hk
  | s :: ss, t, t', h, k, hk => by
    simp only [replay] at h
    cases hs : applyStep L t s with
    | none => simp [hs] at h
    | some t1 =>
      simp only [hs, Option.bind_some] at h
      cases k with
      | zero =>
        refine ⟨t, by simp [replay], ?_⟩
        simp only [List.getElem_cons_zero]
        cases s with
        | rule bi n c wo =>
          intro b hb s' d w r gs hn hg
          obtain ⟨s2, d2, w2, r2, gs2, hn2, hg2, h1, h2⟩ := C06_witness_step_fresh L t t1 bi n c wo b hb hs
          rw [hn] at hn2
          simp only [Option.some.injEq, Node.sent.injEq] at hn2
          obtain ⟨rfl, rfl, rfl⟩ := hn2
          rw [hg] at hg2
          simp only [Option.some.injEq, Prod.mk.injEq] at hg2
          obtain ⟨rfl, _⟩ := hg2
          exact ⟨h1, h2⟩
        | frame bi r w1 w2 w3 =>
          cases r with
          | serial => intro b hb; exact (C06_serial_step_fresh L t t1 bi w1 w2 w3 b hb hs).1
          | _ => trivial
        | _ => trivial
      | succ k =>
        obtain ⟨tk, htk, hf⟩ := C06_witness_replay_fresh L ss t1 t' h k (by simpa using hk)
        refine ⟨tk, ?_, ?_⟩
        · simp [replay, hs, htk]
        · simpa using hf

end Ptx.Props.C06
