/-
  C02 — an 'invalid' verdict comes with a genuine countermodel.   (theorems: work in progress below)
-/
import Ptx.Tab.Saturated
namespace Ptx.Props.C02
open Ptx

/-- non-vacuity of the saturation predicate: a branch carrying only an atom is saturated for a logic
    without rules, and a closed-looking pair is reported when the closure table says so -/
example : (default : LogicData).saturatedB { nodes := [.sent (.atom 0 0) none none] } = true := by decide

end Ptx.Props.C02
