/-
  C02 — an 'invalid' verdict comes with a genuine countermodel.

  FULL STATEMENT: whenever a completed tableau reports its argument invalid, every open branch not
  cut short by a limit flag yields, through the library's own model builder, an interpretation that
  satisfies every node on that branch; consequently it designates every premise and not the
  conclusion; and 'completed' means saturated.

  PROVED HERE (the Hintikka lemma for the calculus model, Ptx/Proofs/Hintikka.lean), for every logic
  whose regenerated tables pass the kernel-evaluated side conditions `hintikkaCoreB` (backward half
  of rule exactness for operator and modal rules, rules total, closure total and exact on open
  sets, read table satisfying, frame rules sufficient for the frame class) and `measureOKOnB
  notQuant` (per-logic node weights), for every SATURATED branch (`saturatedB`, the decidable
  predicate the driver evaluates on the real final branches) whose sentences are ground
  (`groundB`: no quantifier the logic interprets, no Identity/Existence; what the logic leaves
  uninterpreted is a literal):
    * `C02_saturated_branch_model` — the canonical structure of the branch (worlds = labels,
      access = access nodes, letters / predications / uninterpreted sentences valued by the READ
      TABLE on the literal constraints present, unassigned otherwise) is an interpretation of the
      logic (frame condition included) and satisfies EVERY node of the branch at its world;
    * `C02_countermodel` — for every tableau reachable from the trunk by ANY legal derivation,
      such a branch makes that structure a countermodel of the argument: every premise
      designated, the conclusion not.
    * `C02_saturated_branch_model_fo_partial` / `C02_countermodel_fo_partial` — the same for
      FIRST-ORDER branches (`foB`: quantifier rules included; canonical domain = the constant names,
      every name off the branch behaving like one on it), for logics with weights for every rule row.
  `_partial`: branches with Identity / Existence (and the identity-substitution rule) are not
  covered — and cannot be: the calculus is incomplete for identity (`a=b ⊢ b=a` is reported invalid
  in CFOL); "a completed tableau's open branches are saturated" is a property of the search, checked
  by the driver on the real final branches of every run; and the canonical structure is the
  SPECIFICATION of what the library's model builder produces — that `branch.model` evaluates like
  it is C08's theorem (`C08_eval_is_spec`) plus the runtime comparison: on every run of the sweep
  the library model is asked for the value of every node of every open limit-free branch, and
  `is_countermodel_to` must agree.
-/
import Ptx.Proofs.Hintikka
import Ptx.Proofs.Measure
import Ptx.Proofs.Grow
namespace Ptx.Props.C02
open Ptx

/-- the per-logic weights give the measure the induction runs on -/
theorem measureOK_of_weights {L : LogicData} {W : Weights}
    (h : L.measureOKOnB RuleKey.notQuant W = true) : Canon.MeasureOK L W.node := by
  intro s d r whole l0 hrf hnq w c wo gs hgs g hgm s' d' w' hn
  refine weight_decreases_frag h hrf ?_ w c wo hgs hgm hn
  intro sh ng hdec
  have hsp := decomp_shape hdec
  cases sh with
  | quant q => exact absurd hsp (hnq q)
  | op1 o => rfl
  | op2 o => rfl

/-- Hintikka: a saturated ground branch is satisfied, node by node, by its canonical structure,
    which is an interpretation of the logic. -/
theorem C02_saturated_branch_model_partial (L : LogicData) (W : Weights)
    (hcore : L.hintikkaCoreB = true) (hW : L.measureOKOnB RuleKey.notQuant W = true)
    (hT : L.T.vals.contains .T = true) (hF : L.T.vals.contains .F = true)
    (b : Branch) (hsat : L.saturatedB b = true) (hg : b.groundB L = true) :
    (Canon.struct L b).Interp L ∧
    ∀ n ∈ b.nodes, satNode L (Canon.struct L b) Canon.env id n :=
  Canon.hintikka W.node (measureOK_of_weights hW) hcore (by simpa using hT) (by simpa using hF)
    (by simpa [LogicData.saturatedB] using hsat) hg

/-- a branch of a reachable tableau all of whose nodes are satisfied by an interpretation (at the
    identity labelling, world 0) makes it a countermodel: the trunk nodes are still on the branch -/
theorem countermodel_of_branch_sat (L : LogicData) (hTot : L.tablesTotalB = true) (htb : L.trunkBackB = true)
    (arg : Argument) (t : Tableau) (hd : Deriv L (trunk L arg) t) (b : Branch) (hb : b ∈ t)
    (hM : (Canon.struct L b).Interp L)
    (hall : ∀ n ∈ b.nodes, satNode L (Canon.struct L b) Canon.env id n) :
    Countermodel L (Canon.struct L b) Canon.env (0 : Nat) arg := by
  have htn := deriv_trunk_nodes (L := L) (L' := L) hd b hb
  simp only [LogicData.trunkBackB, Bool.and_eq_true, bne_iff_ne, ne_eq] at htb
  obtain ⟨hprem, hconc⟩ := htb
  have hw0 : ∀ wv : Option Nat, wv = (if L.modal then some 0 else none) → wv.getD 0 = 0 := by
    intro wv h; subst h; split <;> rfl
  refine ⟨fun p hp => ?_, ?_⟩
  · have hn : Node.sent p L.trunkPrem (if L.modal then some 0 else none) ∈ b.nodes := by
      apply htn
      simp only [trunkNodes, List.mem_append, List.mem_map, List.mem_singleton]
      exact Or.inl ⟨p, hp, rfl⟩
    have := hall _ hn
    simp only [satNode, hw0 _ rfl, id] at this
    rwa [satV_not_false hprem] at this
  · have hn : Node.sent (if L.trunkConcNeg then arg.conclusion.neg else arg.conclusion) L.trunkConc
        (if L.modal then some 0 else none) ∈ b.nodes := by
      apply htn
      simp [trunkNodes]
    have := hall _ hn
    simp only [satNode, hw0 _ rfl, id] at this
    by_cases hneg : L.trunkConcNeg = true
    · simp only [hneg, ↓reduceIte, Bool.and_eq_true, bne_iff_ne, ne_eq, List.all_eq_true, Bool.not_eq_true',
        Bool.and_eq_false_iff] at hconc this
      rw [satV_not_false hconc.1, eval_neg] at this
      have hv := eval_mem_vals L hTot _ hM arg.conclusion Canon.env (0 : Nat)
      rcases hconc.2 _ hv with h | h
      · exact h
      · rw [h] at this; cases this
    · simp only [hneg, Bool.false_eq_true, ↓reduceIte, beq_iff_eq] at hconc this
      rw [hconc] at this
      simpa [LogicData.satV] using this

theorem tablesTotal_of_core {L : LogicData} (hcore : L.hintikkaCoreB = true) : L.tablesTotalB = true := by
  simp only [LogicData.hintikkaCoreB, Bool.and_eq_true] at hcore
  exact hcore.1.1.1.1.1.1.1.1.1

/-- The countermodel: on every tableau reachable from the trunk by any legal derivation, a
    saturated ground branch makes its canonical structure a countermodel of the argument. -/
theorem C02_countermodel_partial (L : LogicData) (W : Weights)
    (hcore : L.hintikkaCoreB = true) (hW : L.measureOKOnB RuleKey.notQuant W = true)
    (hT : L.T.vals.contains .T = true) (hF : L.T.vals.contains .F = true) (htb : L.trunkBackB = true)
    (arg : Argument) (t : Tableau) (hd : Deriv L (trunk L arg) t)
    (b : Branch) (hb : b ∈ t) (hsat : L.saturatedB b = true) (hg : b.groundB L = true) :
    (Canon.struct L b).Interp L ∧ Countermodel L (Canon.struct L b) Canon.env (0 : Nat) arg := by
  obtain ⟨hM, hall⟩ := C02_saturated_branch_model_partial L W hcore hW hT hF b hsat hg
  exact ⟨hM, countermodel_of_branch_sat L (tablesTotal_of_core hcore) htb arg t hd b hb hM hall⟩

/-! ### first-order branches (quantifier rules; weights for every row of the table) -/

theorem measureOK_all_of_weights {L : LogicData} {W : Weights} (h : L.measureOKB W = true) :
    Canon.MeasureOKOn L W.node (fun _ => True) := by
  intro s d r whole l0 hrf _ w c wo gs hgs g hgm s' d' w' hn
  exact weight_decreases h hrf w c wo hgs hgm hn

/-- Hintikka, first-order: a saturated branch of closed first-order sentences (`foB`: quantifier,
    operator, modal vocabulary; no Identity / Existence) is satisfied node by node by its canonical
    structure — domain = the constant names, every name off the branch behaving like one on it. -/
theorem C02_saturated_branch_model_fo_partial (L : LogicData) (W : Weights)
    (hcore : L.hintikkaCoreB = true) (hW : L.measureOKB W = true)
    (hT : L.T.vals.contains .T = true) (hF : L.T.vals.contains .F = true)
    (b : Branch) (hsat : L.saturatedB b = true) (hg : b.foB L = true) :
    (Canon.struct L b).Interp L ∧
    ∀ n ∈ b.nodes, satNode L (Canon.struct L b) Canon.env id n :=
  Canon.hintikka_fo W.node (measureOK_all_of_weights hW) hcore (by simpa using hT) (by simpa using hF)
    (by simpa [LogicData.saturatedB] using hsat) hg

theorem C02_countermodel_fo_partial (L : LogicData) (W : Weights)
    (hcore : L.hintikkaCoreB = true) (hW : L.measureOKB W = true)
    (hT : L.T.vals.contains .T = true) (hF : L.T.vals.contains .F = true) (htb : L.trunkBackB = true)
    (arg : Argument) (t : Tableau) (hd : Deriv L (trunk L arg) t)
    (b : Branch) (hb : b ∈ t) (hsat : L.saturatedB b = true) (hg : b.foB L = true) :
    (Canon.struct L b).Interp L ∧ Countermodel L (Canon.struct L b) Canon.env (0 : Nat) arg := by
  obtain ⟨hM, hall⟩ := C02_saturated_branch_model_fo_partial L W hcore hW hT hF b hsat hg
  exact ⟨hM, countermodel_of_branch_sat L (tablesTotal_of_core hcore) htb arg t hd b hb hM hall⟩

/-- non-vacuity: for a logic without rules a branch carrying one sentence letter is saturated and ground -/
example : (default : LogicData).saturatedB { nodes := [.sent (.atom 0 0) none none] } = true ∧
    (({ nodes := [.sent (.atom 0 0) none none] } : Branch).groundB
      { (default : LogicData) with marks := false }) = true := by decide

end Ptx.Props.C02
