/-
  C01 — a 'valid' verdict is sound in every logic.

  STATEMENT: for every logic `L` of the package, every argument, and every tableau `t` reachable
  from the trunk by ANY finite sequence of legal rule applications (so: every optimisation
  option, every tie-break order, build() or a step() loop, every premise order), if all branches
  of `t` are closed then no interpretation of `L` (valuation / first-order structure / Kripke
  model obeying `L`'s frame condition) designates all premises and not the conclusion.

  PROVED HERE in that generality: operator, quantifier (new-constant, each-constant and
  witness-free rules, through the substitution lemma and value profiles), modal, closure, frame,
  identity-substitution, identity/existence-closure and quit-flag steps.  Two honest edges:
    * only rules that pass the regenerated soundness side-check are in the calculus the theorem
      talks about (`soundPart`); for every logic except the Bochvar and FDE families that is the
      whole table (`C01_valid_sound_all_rules`), for those families the four resp. two
      biconditional rules are excluded (known findings with concrete countermodels);
    * a quantifier step is legal in the model only on a compound whose body does not re-bind its
      variable and contains nothing the logic leaves uninterpreted (`Sent.quantOK`) — what every
      sentence accepted by the parsers satisfies.
  Semantics: the DOCUMENTED tables (`L.sem`, Ptx/Sem/Spec.lean); classical Identity = identity.
-/
import Ptx.Proofs.Restrict
namespace Ptx.Props.C01
open Ptx

/-- Soundness of a closed tableau, for every legal derivation. -/
theorem C01_valid_sound (L : LogicData) (hcore : L.soundCoreB = true)
    (arg : Argument) (t : Tableau)
    (hd : Deriv L.soundPart (trunk L arg) t)
    (hclosed : t.allClosed = true)
    (M : Struct) (hM : M.Interp L) (e : Env M.D) (w0 : M.W) :
    ¬ Countermodel L M e w0 arg := by
  intro hc
  have hOK := L.soundOK_of_core hcore
  have hM' : M.Interp L.soundPart := ⟨hM.vals, hM.frame, hM.classical⟩
  have hc' : Countermodel L.soundPart M e w0 arg := by
    unfold Countermodel at hc ⊢
    unfold LogicData.soundPart
    simp only [eval_restrict]
    exact hc
  have h0 : SatT L.soundPart M (trunk L.soundPart arg) := trunk_sat hOK hM' arg e w0 hc'
  exact not_satT_of_allClosed hclosed (deriv_sound hOK hM' hd h0)

/-- With an empty unsound set no rule is excluded. -/
theorem C01_valid_sound_all_rules (L : LogicData) (hcore : L.soundCoreB = true)
    (hu : L.unsoundRules = [])
    (arg : Argument) (t : Tableau)
    (hd : Deriv L (trunk L arg) t)
    (hclosed : t.allClosed = true)
    (M : Struct) (hM : M.Interp L) (e : Env M.D) (w0 : M.W) :
    ¬ Countermodel L M e w0 arg := by
  intro hc
  have hOK := L.soundOK_of_core_nil hcore hu
  exact not_satT_of_allClosed hclosed (deriv_sound hOK hM hd (trunk_sat hOK hM arg e w0 hc))

/-- Every single legal step preserves satisfiability (the invariant of the induction). -/
theorem C01_step_preserves (L : LogicData) (hcore : L.soundCoreB = true) (M : Struct)
    (hM : M.Interp L.soundPart) (t t' : Tableau) (s : Step)
    (hs : applyStep L.soundPart t s = some t') :
    SatT L.soundPart M t → SatT L.soundPart M t' :=
  step_sound (L.soundOK_of_core hcore) hM s hs

/-- non-vacuity of the structure side: the one-world, one-element structure giving every atom the
    value `v` is an interpretation of any frameless logic whose values contain `v`. -/
example (L : LogicData) (v : V) (hv : v ∈ L.T.vals) (hf : L.frame = .none)
    (hcl : L.closesSelfIdNeg = false ∧ L.closesNonExist = false) :
    Struct.Interp { W := Unit, D := Unit, R := fun _ _ => True, dflt := (), atomV := fun _ _ _ => v,
                    predV := fun _ _ _ => v, opaqueV := fun _ _ => v } L :=
  ⟨⟨fun _ _ _ => hv, fun _ _ _ => hv, fun _ _ => hv⟩, by simp [hf, Struct.FrameOK], by
    intro h; rcases h with h | h <;> simp [hcl.1, hcl.2] at h⟩

end Ptx.Props.C01
