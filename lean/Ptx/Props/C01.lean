/-
  C01 — a 'valid' verdict is sound in every logic.

  FULL STATEMENT (planned, DESIGN §6 C01): for every logic `L` of the package, every argument,
  and every tableau `t` reachable from the trunk by ANY finite sequence of legal rule
  applications (so: every optimisation option, every tie-break order, build() or step() loop,
  every premise order), if all branches of `t` are closed then no interpretation of `L`
  (valuation / first-order structure / Kripke model obeying `L`'s frame condition) designates all
  premises and not the conclusion.

  PROVED HERE: exactly that, for derivations that use the operator, modal, closure, frame,
  identity and quit-flag steps — i.e. with the quantifier rules taken out of the rule table
  (`noQuantPart`) — and only rules that pass the regenerated soundness side-check (`soundPart`;
  for every logic except the Bochvar family that is the whole table).  The quantifier layer
  (substitution lemma) is the missing piece; the statement below is therefore named `_partial`.
  Semantics: the DOCUMENTED tables (`L.sem`, Ptx/Sem/Spec.lean), not the code's own.
-/
import Ptx.Proofs.Restrict
namespace Ptx.Props.C01
open Ptx

/-- Soundness of a closed tableau, for every legal derivation. -/
theorem C01_valid_sound_partial (L : LogicData) (hcore : L.soundCoreB = true)
    (arg : Argument) (t : Tableau)
    (hd : Deriv L.soundPart.noQuantPart (trunk L arg) t)
    (hclosed : t.allClosed = true)
    (M : Struct) (hM : M.Interp L) (e : Env M.D) (w0 : M.W) :
    ¬ Countermodel L M e w0 arg := by
  intro hc
  obtain ⟨hOK, hnq⟩ := L.soundOK_of_core hcore
  have hM' : M.Interp L.soundPart.noQuantPart := ⟨hM.vals, hM.frame, hM.classical⟩
  have hc' : Countermodel L.soundPart.noQuantPart M e w0 arg := by
    unfold Countermodel at hc ⊢
    unfold LogicData.noQuantPart LogicData.soundPart
    simp only [eval_restrict]
    exact hc
  have h0 : SatT L.soundPart.noQuantPart M (trunk L.soundPart.noQuantPart arg) := trunk_sat hOK hM' arg e w0 hc'
  have h1 := deriv_sound hOK hnq hM' hd h0
  exact not_satT_of_allClosed hclosed h1

/-- With an empty unsound set no rule is excluded (other than the quantifier rules). -/
theorem C01_valid_sound_partial_all_rules (L : LogicData) (hcore : L.soundCoreB = true)
    (hu : L.unsoundRules = [])
    (arg : Argument) (t : Tableau)
    (hd : Deriv L.noQuantPart (trunk L arg) t)
    (hclosed : t.allClosed = true)
    (M : Struct) (hM : M.Interp L) (e : Env M.D) (w0 : M.W) :
    ¬ Countermodel L M e w0 arg := by
  intro hc
  obtain ⟨hOK, hnq⟩ := L.soundOK_of_core_nil hcore hu
  have hM' : M.Interp L.noQuantPart := ⟨hM.vals, hM.frame, hM.classical⟩
  have hc' : Countermodel L.noQuantPart M e w0 arg := by
    unfold Countermodel at hc ⊢
    unfold LogicData.noQuantPart
    simp only [eval_restrict]
    exact hc
  have h0 : SatT L.noQuantPart M (trunk L.noQuantPart arg) := trunk_sat hOK hM' arg e w0 hc'
  exact not_satT_of_allClosed hclosed (deriv_sound hOK hnq hM' hd h0)

/-- Every single legal step preserves satisfiability (the invariant of the induction). -/
theorem C01_step_preserves (L : LogicData) (hcore : L.soundCoreB = true) (M : Struct)
    (hM : M.Interp L.soundPart.noQuantPart) (t t' : Tableau) (s : Step)
    (hs : applyStep L.soundPart.noQuantPart t s = some t') :
    SatT L.soundPart.noQuantPart M t → SatT L.soundPart.noQuantPart M t' :=
  step_sound (L.soundOK_of_core hcore).1 (L.soundOK_of_core hcore).2 hM s hs

end Ptx.Props.C01
