/-
  C09 — the verdict does not depend on how the proof is searched.

  FULL STATEMENT: for a given logic and argument the outcome class (valid; invalid with a limit-free
  open branch) is the same whatever the optimisation options, build() or a step() loop, the order
  in which equally ranked targets are tried, and the order / multiplicity of the premises; and no
  option combination makes the build raise.

  HOW THE MODEL CARRIES IT: the calculus model has no scheduler at all — `Deriv L (trunk L arg) t`
  ranges over EVERY finite sequence of legal rule applications, so options, tie-break orders and
  build/step are inside the quantifier of every theorem stated over `Deriv`.  Premise order and
  multiplicity enter only through the trunk; `Countermodel` depends on the SET of premises.

  PROVED HERE (`_partial`: one direction of uniqueness): if SOME legal derivation from the trunk of
  `arg` closes, then NO structure is a countermodel of any argument `arg'` with the same set of
  premises and the same conclusion — so no other search of `arg` or `arg'`, under any options, can
  end with a branch from which a genuine countermodel is read.  The converse step (a limit-free
  saturated open branch always yields a genuine countermodel) is C02's Hintikka lemma; with it the
  two outcome classes are mutually exclusive across all searches.  "Never raises" is a runtime
  property of the Python code that a total Lean function cannot violate: it is observed on the sweep
  (option matrix × build/step × tie-break seeds × premise permutations), and every run of the sweep
  is replayed through the model (each step a legal instance), so the theorem applies to it.
-/
import Ptx.Props.C10
import Ptx.Props.C02
namespace Ptx.Props.C09
open Ptx

/-- same premises as sets, same conclusion -/
def SameArgument (a a' : Argument) : Prop :=
  (∀ p, p ∈ a.premises ↔ p ∈ a'.premises) ∧ a'.conclusion = a.conclusion

/-- One closed derivation excludes a genuine countermodel for every re-ordering / duplication of
    the premises, whatever search produced the other tableau. -/
theorem C09_verdict_unique_partial (L : LogicData) (hcore : L.soundCoreB = true)
    (arg arg' : Argument) (hsame : SameArgument arg arg') (t : Tableau)
    (hd : Deriv L.soundPart (trunk L arg) t) (hclosed : t.allClosed = true)
    (M : Struct) (hM : M.Interp L) (e : Env M.D) (w0 : M.W) : ¬ Countermodel L M e w0 arg' :=
  Ptx.Props.C10.C10_monotone_partial L hcore arg arg' (fun p hp => (hsame.1 p).1 hp) hsame.2 t hd hclosed M hM e w0

/-- `Countermodel` is invariant under permutation and duplication of premises. -/
theorem C09_countermodel_set (L : LogicData) (arg arg' : Argument) (hsame : SameArgument arg arg')
    (M : Struct) (e : Env M.D) (w0 : M.W) : Countermodel L M e w0 arg ↔ Countermodel L M e w0 arg' := by
  constructor
  · intro hc
    refine ⟨fun p hp => hc.1 p ((hsame.1 p).2 hp), ?_⟩
    rw [hsame.2]; exact hc.2
  · intro hc
    refine ⟨fun p hp => hc.1 p ((hsame.1 p).1 hp), ?_⟩
    rw [← hsame.2]; exact hc.2

/-- Two derivations for (re-orderings of) one argument cannot both be "closed" and "open with a
    genuine countermodel": stated for any structure offered as the countermodel of the second. -/
theorem C09_no_conflicting_verdicts_partial (L : LogicData) (hcore : L.soundCoreB = true)
    (arg arg' : Argument) (hsame : SameArgument arg arg') (t t' : Tableau)
    (hd : Deriv L.soundPart (trunk L arg) t) (_hd' : Deriv L.soundPart (trunk L arg') t')
    (hclosed : t.allClosed = true) :
    ¬ ∃ (M : Struct) (_ : M.Interp L) (e : Env M.D) (w0 : M.W), Countermodel L M e w0 arg' := by
  rintro ⟨M, hM, e, w0, hc⟩
  exact C09_verdict_unique_partial L hcore arg arg' hsame t hd hclosed M hM e w0 hc


/-- The two outcome classes exclude each other across ALL searches: if some legal derivation for
    `arg` closes, then no legal derivation for any re-ordering / duplication `arg'` of it reaches a
    tableau with a saturated (ground) open branch — whatever the options, tie-break order, build or
    step loop of either search.  (C01 for the closed one, the Hintikka lemma C02 for the open one.) -/
theorem C09_outcomes_exclusive_partial (L : LogicData) (W : Weights)
    (hsound : L.soundCoreB = true) (hcore : L.hintikkaCoreB = true)
    (hW : L.measureOKOnB RuleKey.notQuant W = true)
    (hT : L.T.vals.contains .T = true) (hF : L.T.vals.contains .F = true) (htb : L.trunkBackB = true)
    (arg arg' : Argument) (hsame : SameArgument arg arg')
    (t : Tableau) (hd : Deriv L.soundPart (trunk L arg) t) (hclosed : t.allClosed = true)
    (t' : Tableau) (hd' : Deriv L (trunk L arg') t')
    (b : Branch) (hb : b ∈ t') (hsat : L.saturatedB b = true) (hg : b.groundB L = true) : False := by
  obtain ⟨hM, hc⟩ := Ptx.Props.C02.C02_countermodel_partial L W hcore hW hT hF htb arg' t' hd' b hb hsat hg
  exact C09_verdict_unique_partial L hsound arg arg' hsame t hd hclosed _ hM _ _ hc

/-- (first-order branches: quantifier rules included, weights for every row)
    The two outcome classes exclude each other across ALL searches: if some legal derivation for
    `arg` closes, then no legal derivation for any re-ordering / duplication `arg'` of it reaches a
    tableau with a saturated (ground) open branch — whatever the options, tie-break order, build or
    step loop of either search.  (C01 for the closed one, the Hintikka lemma C02 for the open one.) -/
theorem C09_outcomes_exclusive_fo_partial (L : LogicData) (W : Weights)
    (hsound : L.soundCoreB = true) (hcore : L.hintikkaCoreB = true)
    (hW : L.measureOKB W = true)
    (hT : L.T.vals.contains .T = true) (hF : L.T.vals.contains .F = true) (htb : L.trunkBackB = true)
    (arg arg' : Argument) (hsame : SameArgument arg arg')
    (t : Tableau) (hd : Deriv L.soundPart (trunk L arg) t) (hclosed : t.allClosed = true)
    (t' : Tableau) (hd' : Deriv L (trunk L arg') t')
    (b : Branch) (hb : b ∈ t') (hsat : L.saturatedB b = true) (hg : b.foB L = true) : False := by
  obtain ⟨hM, hc⟩ := Ptx.Props.C02.C02_countermodel_fo_partial L W hcore hW hT hF htb arg' t' hd' b hb hsat hg
  exact C09_verdict_unique_partial L hsound arg arg' hsame t hd hclosed _ hM _ _ hc

/-- non-vacuity: a permuted, duplicated premise list is the same argument -/
example : SameArgument ⟨[.atom 0 0, .atom 1 0], .atom 2 0⟩ ⟨[.atom 1 0, .atom 0 0, .atom 1 0], .atom 2 0⟩ := by
  refine ⟨fun p => ?_, rfl⟩
  simp only [List.mem_cons, List.not_mem_nil, or_false]
  constructor
  · rintro (h | h) <;> simp [h]
  · rintro (h | h | h) <;> simp [h]

end Ptx.Props.C09
