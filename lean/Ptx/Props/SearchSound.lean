/-
  Search + C01 — a 'valid' verdict of the SEARCH MODEL is sound.

  Every state of the search model reachable from the trunk (any options, scores, tie-breaks, build or step: `Reach`) carries a
  tableau derived from the trunk by legal steps (`search_run_deriv`).  Hence, when all its branches are closed, no
  interpretation of the logic is a countermodel of the argument: the soundness theorem C01 applies to every run of the
  search model, not only to abstract derivations.  Together with `search_completed_saturated` / `<L>_search_completed_countermodel`
  (the 'invalid' side) both verdicts of the search model are covered; the tie of the search model to the code is the
  per-step correspondence of harness/searchcorr.py.
-/
import Ptx.Props.Search
import Ptx.Props.C01
namespace Ptx.Props.Search
open Ptx Ptx.Search

/-- all branches closed in a reachable search state ⇒ no countermodel (logics whose regenerated rule rows are all sound) -/
theorem search_closed_valid (L : LogicData) (hcore : L.soundCoreB = true) (hu : L.unsoundRules = [])
    (arg : Argument) (s : SState) (h : Reach L arg s) (hclosed : s.tab.allClosed = true)
    (M : Struct) (hM : M.Interp L) (e : Env M.D) (w0 : M.W) :
    ¬ Countermodel L M e w0 arg :=
  Ptx.Props.C01.C01_valid_sound_all_rules L hcore hu arg s.tab (search_run_deriv L arg s h) hclosed M hM e w0

/-- the two verdicts of the search model exclude each other semantically: a reachable all-closed state and a reachable
    state with a genuine countermodel read off it cannot both exist for one argument -/
theorem search_verdicts_exclusive (L : LogicData) (hcore : L.soundCoreB = true) (hu : L.unsoundRules = [])
    (arg : Argument) (s s' : SState) (h : Reach L arg s) (_h' : Reach L arg s') (hclosed : s.tab.allClosed = true)
    (M : Struct) (hM : M.Interp L) (e : Env M.D) (w0 : M.W) (hc : Countermodel L M e w0 arg) : False :=
  search_closed_valid L hcore hu arg s h hclosed M hM e w0 hc

end Ptx.Props.Search
