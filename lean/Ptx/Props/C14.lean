/-
  C14 — Lexical items have value semantics.

  Model: Ptx/Lang/Order.lean (`sortKey`, `cmpDiff` = `Lexical.orderitems`, operators, `hashOf`,
  `argCmp`), Ptx/Lang/Cache.lean (the construction cache and the metaclass call).
  `Item.WF` = every `Predicated` carries exactly `arity` parameters — what the constructor enforces.
-/
import Ptx.Proofs.LangOrder
import Ptx.Proofs.LangCache
import Ptx.Proofs.LangCacheSeq
import Ptx.Proofs.LangCacheFuel
namespace Ptx.Props.C14
open Ptx

/-! ## equality is structural identity -/

/-- sort keys of well-formed items are a prefix code: no key is a proper prefix of another,
    so the zero padding of `zip_longest` can never make two different items compare equal -/
theorem sortKey_prefix_free (x y : Item) (hx : x.WF) (hy : y.WF) :
    sortKey x <+: sortKey y → x = y := by
  rintro ⟨t, ht⟩
  exact (sortKey_append_inj x y t [] hx hy (by simpa using ht)).1

theorem sortKey_injective (x y : Item) (hx : x.WF) (hy : y.WF) (h : sortKey x = sortKey y) : x = y :=
  sortKey_prefix_free x y hx hy (h ▸ List.prefix_refl _)

/-- without the arity discipline the padding DOES confuse: the hypothesis is needed -/
example : (Item.sent (.pred ⟨0, 0, 1⟩ [.const 0 0])).cmp (.sent (.pred ⟨0, 0, 1⟩ [.const 0 0, .const 0 0])) ≠ .eq := by decide
example : cmpKeys [70, 10, 0, 0, 1, 20, 0, 0] [70, 10, 0, 0, 1, 20, 0, 0, 0, 0] = .eq := by decide

/-- `orderitems = 0` holds exactly for structurally identical items -/
theorem orderitems_zero_iff (x y : Item) (hx : x.WF) (hy : y.WF) : orderitems x y = 0 ↔ x = y := by
  constructor
  · intro h0
    rcases cmpDiff_zero_prefix _ _ h0 with h | h
    · exact sortKey_prefix_free x y hx hy h
    · exact (sortKey_prefix_free y x hy hx h).symm
  · rintro rfl
    exact cmpDiff_self _

/-- `==` holds exactly for structurally identical items -/
theorem cmp_eq_iff (x y : Item) (hx : x.WF) (hy : y.WF) : x.cmp y = .eq ↔ x = y := by
  rw [Item.cmp_eq_iff0, orderitems_zero_iff x y hx hy]

theorem eqv_iff (x y : Item) (hx : x.WF) (hy : y.WF) : x.eqv y = true ↔ x = y := by
  rw [Item.eqv_iff0, orderitems_zero_iff x y hx hy]

example : (Item.sent (.op1 .neg (.atom 0 0))).eqv (.sent (.op1 .neg (.atom 0 0))) = true := by decide
example : (Item.param (.const 0 0)).eqv (.param (.var 0 0)) = false := by decide

/-! ## one total order, consistent with equality -/

/-- the six operators are the six readings of ONE three-way comparison -/
theorem operators_consistent (x y : Item) :
    (x.lt y = true ↔ x.cmp y = .lt) ∧ (x.gt y = true ↔ x.cmp y = .gt) ∧
    (x.eqv y = true ↔ x.cmp y = .eq) ∧
    (x.le y = true ↔ x.cmp y ≠ .gt) ∧ (x.ge y = true ↔ x.cmp y ≠ .lt) := by
  rw [Item.lt_iff, Item.gt_iff, Item.eqv_iff0, Item.le_iff, Item.ge_iff, Item.cmp_lt_iff,
    Item.cmp_gt_iff, Item.cmp_eq_iff0, ne_eq, ne_eq, Item.cmp_gt_iff, Item.cmp_lt_iff]
  refine ⟨Iff.rfl, Iff.rfl, Iff.rfl, ?_, ?_⟩ <;> omega

example : (Item.pred ⟨0, 0, 1⟩).lt (.param (.const 0 0)) = true := by decide

/-- antisymmetric / converse: `x < y ↔ y > x`, and `x ≤ y ∧ y ≤ x → x = y` -/
theorem cmp_antisymm (x y : Item) (hx : x.WF) (hy : y.WF) :
    (x.cmp y = .lt ↔ y.cmp x = .gt) ∧ (x.le y = true → y.le x = true → x = y) := by
  rw [Item.cmp_lt_iff, Item.cmp_gt_iff, Item.le_iff, Item.le_iff, orderitems_swap x y]
  refine ⟨by omega, fun h1 h2 => (orderitems_zero_iff x y hx hy).mp (by omega)⟩

theorem cmp_trans (x y z : Item) :
    (x.le y = true → y.le z = true → x.le z = true) ∧
    (x.lt y = true → y.lt z = true → x.lt z = true) ∧
    (x.le y = true → y.lt z = true → x.lt z = true) ∧
    (x.lt y = true → y.le z = true → x.lt z = true) := by
  simp only [Item.le_iff, Item.lt_iff, orderitems]
  refine ⟨fun a b => cmpDiff_trans a b, fun a b => ?_, fun a b => ?_, fun a b => ?_⟩
  · exact cmpDiff_trans_lt (by omega) (by omega) (Or.inl a)
  · exact cmpDiff_trans_lt a (by omega) (Or.inr b)
  · exact cmpDiff_trans_lt (by omega) b (Or.inl a)

theorem cmp_total (x y : Item) : x.le y = true ∨ y.le x = true := by
  rw [Item.le_iff, Item.le_iff, orderitems_swap x y]
  omega

/-- the statement of the property: one total order consistent with equality -/
theorem cmp_total_order :
    (∀ x y : Item, x.WF → y.WF → x.le y = true → y.le x = true → x = y) ∧
    (∀ x y z : Item, x.le y = true → y.le z = true → x.le z = true) ∧
    (∀ x y : Item, x.le y = true ∨ y.le x = true) ∧
    (∀ x y : Item, x.WF → y.WF → (x.lt y = true ↔ (x.le y = true ∧ x ≠ y))) := by
  refine ⟨fun x y hx hy => (cmp_antisymm x y hx hy).2, fun x y z => (cmp_trans x y z).1, cmp_total, ?_⟩
  intro x y hx hy
  have e := orderitems_zero_iff x y hx hy
  rw [Item.lt_iff, Item.le_iff]
  constructor
  · intro h; exact ⟨by omega, fun hxy => by have := e.mpr hxy; omega⟩
  · rintro ⟨h1, h2⟩
    have : ¬ orderitems x y = 0 := fun h => h2 (e.mp h)
    omega

example : (Item.quant .ex).le (.quant .univ) = true ∧ (Item.quant .univ).le (.quant .ex) = false := by decide

/-- sorts by type rank first -/
theorem cmp_rank_first (x y : Item) (h : x.type.rank < y.type.rank) : x.cmp y = .lt := by
  obtain ⟨t, ht⟩ := sortKey_head x
  obtain ⟨u, hu⟩ := sortKey_head y
  have hne : (x.type.rank : Int) ≠ (y.type.rank : Int) := by omega
  rw [Item.cmp_lt_iff]
  simp only [orderitems, ht, hu, cmpDiff, ne_eq, hne, not_false_eq_true, ↓reduceIte]
  omega

example : (Item.sent (.atom 4 100)).cmp (.sent (.pred ⟨0, 0, 1⟩ [.const 0 0])) = .lt := by decide

/-- the ranks are the published ones, strictly increasing in the order of `LexType` -/
theorem ranks : LexType.all.map LexType.rank = [10, 20, 30, 40, 50, 60, 70, 80, 90] := by decide

/-! ## hash -/

/-- equal items have equal hashes: the hash is a function of the sort tuple alone
    (`hash((Lexical, item.sort_tuple))`), whatever CPython's tuple hash `H` is -/
theorem hash_consistent (H : List Int → UInt64) (x y : Item) (hx : x.WF) (hy : y.WF)
    (h : x.eqv y = true) : hashOf H x = hashOf H y := by
  rw [(eqv_iff x y hx hy).mp h]

/-- … and for `x = y` outright (no hypothesis needed) -/
theorem hash_eq_of_eq (H : List Int → UInt64) (x y : Item) (h : x = y) : hashOf H x = hashOf H y := by
  rw [h]

theorem hash_fun_of_key (H : List Int → UInt64) (x y : Item) (h : sortKey x = sortKey y) :
    hashOf H x = hashOf H y := by simp [hashOf, h]

example : hashOf (fun l => l.length.toUInt64) (.quant .ex) = 2 := by decide

/-! ## sorted() -/

theorem insertItem_perm (x : Item) (l : List Item) : (insertItem x l).Perm (x :: l) := by
  induction l with
  | nil => simp [insertItem]
  | cons y ys ih =>
    simp only [insertItem]
    split
    · exact List.Perm.refl _
    · exact (List.Perm.cons y ih).trans (List.Perm.swap x y ys)

theorem sortItems_perm (l : List Item) : (sortItems l).Perm l := by
  induction l with
  | nil => simp [sortItems]
  | cons x xs ih => exact (insertItem_perm x _).trans (List.Perm.cons x ih)

theorem insertItem_sorted (x : Item) (l : List Item)
    (h : l.Pairwise (fun a b => a.le b = true)) : (insertItem x l).Pairwise (fun a b => a.le b = true) := by
  induction l with
  | nil => simp [insertItem]
  | cons y ys ih =>
    simp only [insertItem]
    have hy := List.pairwise_cons.mp h
    split
    · rename_i hxy
      refine List.pairwise_cons.mpr ⟨?_, h⟩
      intro z hz
      have hxy' : x.le y = true := (Item.le_iff x y).mpr hxy
      rcases List.mem_cons.mp hz with rfl | hz
      · exact hxy'
      · exact (cmp_trans x y z).1 hxy' (hy.1 z hz)
    · rename_i hxy
      refine List.pairwise_cons.mpr ⟨?_, ih hy.2⟩
      intro z hz
      have := (insertItem_perm x ys).mem_iff.mp hz
      rcases List.mem_cons.mp this with rfl | hz
      · rcases cmp_total z y with h | h
        · exact absurd ((Item.le_iff z y).mp h) hxy
        · exact h
      · exact hy.1 z hz

/-- `sorted(items)` is a rearrangement that is ascending for `<=` -/
theorem sortItems_sorted (l : List Item) :
    (sortItems l).Perm l ∧ (sortItems l).Pairwise (fun a b => a.le b = true) := by
  refine ⟨sortItems_perm l, ?_⟩
  induction l with
  | nil => simp [sortItems]
  | cons x xs ih => exact insertItem_sorted x _ ih

example : sortItems [.op (.u .neg), .param (.const 1 0), .pred ⟨-1, 0, 2⟩, .param (.const 0 0)]
    = [.pred ⟨-1, 0, 2⟩, .param (.const 0 0), .param (.const 1 0), .op (.u .neg)] := by decide

/-! ## arguments -/

/-- `Argument` comparison (length first, then pairwise `orderitems`) is a total order whose
    equality is structural identity of conclusion and premises -/
theorem argument_order_total_consistent :
    (∀ a b : Argument, a.ArityOK → b.ArityOK → (argCmp a b = 0 ↔ a = b)) ∧
    (∀ a b : Argument, argCmp b a = - argCmp a b) ∧
    (∀ a b c : Argument, argCmp a b ≤ 0 → argCmp b c ≤ 0 → argCmp a c ≤ 0) ∧
    (∀ a b c : Argument, argCmp a b ≤ 0 → argCmp b c ≤ 0 → (argCmp a b < 0 ∨ argCmp b c < 0) → argCmp a c < 0) ∧
    (∀ a b : Argument, argCmp a b ≤ 0 ∨ argCmp b a ≤ 0) := by
  have hswap : ∀ a b : Argument, argCmp b a = - argCmp a b := by
    intro a b
    simp only [argCmp]
    by_cases h : (a.seq.length : Int) - (b.seq.length : Int) = 0
    · have h' : (b.seq.length : Int) - (a.seq.length : Int) = 0 := by omega
      simp [h, h', seqCmp_swap a.seq b.seq]
    · have h' : ¬ (b.seq.length : Int) - (a.seq.length : Int) = 0 := by omega
      simp only [ne_eq, h, not_false_eq_true, ↓reduceIte, h']
      omega
  have htr : ∀ a b c : Argument, argCmp a b ≤ 0 → argCmp b c ≤ 0 →
      argCmp a c ≤ 0 ∧ ((argCmp a b < 0 ∨ argCmp b c < 0) → argCmp a c < 0) := by
    intro a b c
    simp only [argCmp]
    by_cases hab : (a.seq.length : Int) - (b.seq.length : Int) = 0
    · by_cases hbc : (b.seq.length : Int) - (c.seq.length : Int) = 0
      · have hac : (a.seq.length : Int) - (c.seq.length : Int) = 0 := by omega
        simp only [ne_eq, hab, not_true_eq_false, ↓reduceIte, hbc, hac]
        exact seqCmp_trans_aux a.seq b.seq c.seq (by omega) (by omega)
      · have hac : ¬ (a.seq.length : Int) - (c.seq.length : Int) = 0 := by omega
        simp only [ne_eq, hab, not_true_eq_false, ↓reduceIte, hbc, not_false_eq_true, hac]
        intro _ h
        exact ⟨by omega, fun _ => by omega⟩
    · by_cases hbc : (b.seq.length : Int) - (c.seq.length : Int) = 0
      · have hac : ¬ (a.seq.length : Int) - (c.seq.length : Int) = 0 := by omega
        simp only [ne_eq, hab, not_false_eq_true, ↓reduceIte, hbc, not_true_eq_false, hac]
        intro h _
        exact ⟨by omega, fun _ => by omega⟩
      · simp only [ne_eq, hab, not_false_eq_true, ↓reduceIte, hbc]
        intro h1 h2
        have hac : ¬ (a.seq.length : Int) - (c.seq.length : Int) = 0 := by omega
        simp only [hac, not_false_eq_true, ↓reduceIte]
        exact ⟨by omega, fun _ => by omega⟩
  refine ⟨?_, hswap, fun a b c h1 h2 => (htr a b c h1 h2).1, fun a b c h1 h2 => (htr a b c h1 h2).2, ?_⟩
  · intro a b ha hb
    constructor
    · intro h
      simp only [argCmp] at h
      by_cases hl : (a.seq.length : Int) - (b.seq.length : Int) = 0
      · simp only [ne_eq, hl, not_true_eq_false, ↓reduceIte] at h
        have := seqCmp_zero a.seq b.seq (by omega)
          (by simpa [Argument.ArityOK, List.all_eq_true] using ha)
          (by simpa [Argument.ArityOK, List.all_eq_true] using hb) h
        cases a; cases b
        simp only [Argument.seq, List.cons.injEq] at this
        simp [this.1, this.2]
      · simp [hl] at h
    · rintro rfl
      simp [argCmp, seqCmp_self]
  · intro a b
    rw [hswap a b]; omega

example : argCmp ⟨[.atom 0 0], .atom 1 0⟩ ⟨[], .atom 2 0⟩ > 0 := by decide
example : argCmp ⟨[.atom 0 0], .atom 1 0⟩ ⟨[.atom 1 0], .atom 1 0⟩ < 0 := by decide

/-- equal arguments have equal hashes (`hash(self.seq)`: a function of the sentences' hashes) -/
theorem argument_hash_consistent (H : List Int → UInt64) (T : List UInt64 → UInt64) (a b : Argument)
    (ha : a.ArityOK) (hb : b.ArityOK) (h : argCmp a b = 0) : argHash H T a = argHash H T b := by
  rw [(argument_order_total_consistent.1 a b ha hb).mp h]

/-! ## the construction cache is invisible

  `metacall fx c cls args` is `cls(*args)` against cache state `c` (Ptx/Lang/Cache.lean: lookup,
  construct with nested cached calls, from-ident path, store under `(clsname, spec)` and under
  `inst.ident`, eviction); `build fx cls args` is the same call in a process with nothing cached.

  FULL STATEMENT (kept; PROVED below as `cache_transparent`, and over all call sequences from the
  empty cache as `cache_transparent_seq`; `cache_transparent_partial` is the earlier version):

    statement cache_transparent (c : Cache) (hc : c.Inv) (cls) (args) :
        (metacall fixed c cls args).1 = build fixed cls args ∧ (metacall fixed c cls args).2.Inv
      where Cache.Inv c :=  c.Sound fixed                       -- idx k = some v → v = fresh build of k
                          ∧ c.rev.map (·.1) = c.queue ∧ c.queue.length ≤ c.maxlen
                          ∧ (∀ (v,ks) ∈ c.rev, .item v ∈ ks ∧ ∀ k ∈ ks, c.get k = some v)
                          ∧ (∀ (k,v) ∈ c.idx, ∃ ks, (v,ks) ∈ c.rev ∧ k ∈ ks)

  `cache_transparent_partial` (kept unchanged): for EVERY cache state whose entries are sound (any
  maxlen incl. 0, 1, 2; any eviction history — eviction only deletes entries), the answer equals
  the fresh build and soundness is preserved, provided (a) the ident round trip holds for every
  constructible item (`RoundTrips`), (b) the recursion budget suffices for the fresh build, and
  (c) modulo a KeyError/IndexError raised INSIDE DequeCache.
  NOTE on (a): `RoundTrips fx` quantifies over ALL argument values, including `Arg.item x` for an
  `x : Item` that no constructor returns (e.g. `Atomic(100, 0)`), which the passthrough hands back
  and which is not rebuilt from its ident: `roundTrips_needs_valid_items` below REFUTES
  `RoundTrips {}`, so (a) can only be discharged in the form `RoundTripsV` (arguments carry
  `Valid` items only — the only items a Python process can hold, `valid_iff_constructible`).
  `cache_transparent` below therefore does not go through `cache_transparent_partial`: it has
  neither (a) nor (c), and (b) is discharged too (`build_budget_suffices`): the only hypotheses
  left are the invariant of the state (reachable states have it: `cache_transparent_seq`) and
  "arguments carry valid items".
-/

theorem cache_transparent_partial (fx : Fixes) (hRT : RoundTrips fx) (c : Cache) (hc : c.Sound fx)
    (cls : Cls) (args : List Arg) (hfuel : build fx cls args ≠ .error .fuel) :
    (metacall fx c cls args).2.Sound fx ∧
      ((metacall fx c cls args).1 = build fx cls args ∨ isCrash (metacall fx c cls args).1) :=
  transparent fx hRT (fuelFor args) cls args c hc _ rfl hfuel

/-- the empty cache of any size is sound -/
theorem empty_sound (fx : Fixes) (n : Nat) : (Cache.empty n).Sound fx := by
  intro k v h; simp [Cache.empty] at h

/-- soundness survives every store and every eviction (so every reachable state is sound) -/
theorem store_sound (fx : Fixes) (c c' : Cache) (key : Arg) (v : Item) (hc : c.Sound fx)
    (hk : ∃ m, keyBuildP fx m key = .ok v) (h : c.store fx key v = .ok c') : c'.Sound fx :=
  Sound.store hc hk h

theorem evict_sound (fx : Fixes) (c c' : Cache) (hc : c.Sound fx) (h : c.evict = .ok c') :
    c'.Sound fx := Sound.evict hc h

/-- the budget never influences an answer -/
theorem build_budget_irrelevant (fx : Fixes) (n m : Nat) (cls : Cls) (args : List Arg) (v : Item) (r : R)
    (h1 : evalP fx n cls args = .ok v) (h2 : evalP fx m cls args = r) (hne : r ≠ .error .fuel) :
    r = .ok v := evalP_det fx h1 h2 hne

/-! non-vacuity: a size-1 cache, a sentence built (evicting its own parts), then rebuilt from
    its ident after everything was evicted by further constructions -/

def exA : Sent := .op1 .neg (.atom 0 0)

example :
    let fx : Fixes := {}
    let c0 := Cache.empty 1
    let (r1, c1) := metacall fx c0 .operated [.str "Negation", .item (.sent (.atom 0 0))]
    let (_, c2) := metacall fx c1 .atomic [.int 1, .int 0]            -- evicts ¬A
    let (r3, c3) := metacall fx c2 .sentence [exA.ident]              -- rebuild from ident
    r1.toOption = some (.sent exA) ∧ r3.toOption = some (.sent exA) ∧
    c1.queue = [.sent exA] ∧ c2.queue = [.sent (.atom 1 0)] ∧ c3.queue = [.sent exA] := by
  decide

/-- maxlen 0 (fix 2): nothing is ever stored, every call is a fresh build -/
example :
    let fx : Fixes := {}
    let (r, c) := metacall fx (Cache.empty 0) .atomic [.int 0, .int 0]
    r.toOption = some (.sent (.atom 0 0)) ∧ c.idx = [] ∧ c.queue = [] := by decide

/-! ### the two defects of the current tree, as theorems about the UNFIXED behaviour -/

def unfixed : Fixes := ⟨false, false⟩
def exId : Sent := .pred Pred.identity [.const 0 0, .const 1 0]

/-- defect 1 (`C14:cache:from-ident:system-predicate`): without fix 1 the cache is NOT transparent.
    `Predicated(Identity, (a, b))` is built and cached; `Sentence(ident)` then answers from the
    cache, while the same call with nothing cached (or after eviction) raises ValueError from
    `Predicate((-1, 0, 2))`. -/
theorem cache_not_transparent_unfixed :
    let fx : Fixes := ⟨false, true⟩
    let c := (metacall fx (Cache.empty 1000) .predicated
      [.item (.pred Pred.identity), .tuple [.item (.param (.const 0 0)), .item (.param (.const 1 0))]]).2
    (metacall fx c .sentence [exId.ident]).1.toOption = some (.sent exId) ∧
    (build fx .sentence [exId.ident]).toOption = none ∧
    (build {} .sentence [exId.ident]).toOption = some (.sent exId) := by
  decide

/-- … and the round trip through the published spec fails without fix 1, holds with it -/
theorem spec_roundtrip_system_predicate :
    (build ⟨false, true⟩ .predicate Pred.identity.specArgs).toOption = none ∧
    (build {} .predicate Pred.identity.specArgs).toOption = some (.pred Pred.identity) ∧
    (build {} .predicate Pred.existence.specArgs).toOption = some (.pred Pred.existence) := by
  decide

/-- defect 2 (`C14:cache:maxlen0`): without fix 2 a cache of size 0 makes the FIRST construction
    raise IndexError (`queue.popleft()` on the empty deque) -/
theorem maxlen0_unfixed_raises :
    (match (metacall ⟨true, false⟩ (Cache.empty 0) .atomic [.int 0, .int 0]).1 with
      | .error .index => true | _ => false) = true ∧
    (build ⟨true, false⟩ .atomic [.int 0, .int 0]).toOption = some (.sent (.atom 0 0)) := by
  decide

/-! ### ident / spec round trips: evaluated instances, then the general theorems

  FULL STATEMENTS (kept; PROVED below as `ident_roundtrip`, `spec_roundtrip`, `roundTrips`):
    statement ident_roundtrip (x : Item) (hx : x.Valid) : fromIdent {} (identArg x) = .ok x
    statement spec_roundtrip  (x : Item) (hx : x.Valid) : construct x.type (specArgs x) = .ok x
    statement roundTrips : RoundTrips {}      -- false as stated, see `roundTrips_needs_valid_items`;
                                              -- proved for arguments carrying valid items: `RoundTripsV`
-/

def exBig : Sent :=
  .op2 .cond (.quant .univ 0 0 (.pred Pred.identity [.var 0 0, .const 1 2]))
             (.op1 .nec (.op2 .disj (.atom 4 1) (.pred ⟨3, 7, 3⟩ [.const 0 0, .const 0 0, .var 0 0])))

theorem ident_roundtrip_instances :
    (fromIdent {} (identArg (.sent exBig))).toOption = some (.sent exBig) ∧
    (fromIdent {} (identArg (.pred Pred.existence))).toOption = some (.pred Pred.existence) ∧
    (fromIdent {} (identArg (.quant .univ))).toOption = some (.quant .univ) ∧
    (fromIdent {} (identArg (.op (.b .mbicond)))).toOption = some (.op (.b .mbicond)) ∧
    (fromIdent {} (identArg (.param (.var 3 9)))).toOption = some (.param (.var 3 9)) := by
  decide

theorem spec_roundtrip_instances :
    (build {} .operated (specArgs (.sent exBig))).toOption = some (.sent exBig) ∧
    (build {} .constant (specArgs (.param (.const 2 5)))).toOption = some (.param (.const 2 5)) := by
  decide

/-! ### every built item is valid; the valid items are the constructible ones -/

/-- whatever a constructor call returns — from arguments whose embedded items are valid — is
    `Valid` (indices within the maxima, arities matching, all the way down) and hence `WF`, the
    hypothesis of the order theorems above -/
theorem built_valid (fx : Fixes) (cls : Cls) (args : List Arg) (x : Item) (ha : argsVI args = true)
    (h : build fx cls args = .ok x) : x.Valid = true ∧ x.WF = true :=
  have hv := evalP_valid fx _ cls args x ha h
  ⟨hv, Item.valid_WF x hv⟩

example : (Item.sent exBig).Valid = true ∧ (Item.sent exBig).WF = true :=
  built_valid {} .lexicalAbc [identArg (.sent exBig)] _ (by decide) rfl

/-- `Valid` is exactly "a fresh process can construct it from ints, strings and tuples" -/
theorem valid_iff_constructible (fx : Fixes) (hs : fx.sysPred = true) (x : Item) :
    x.Valid = true ↔ ∃ cls args, noItems args = true ∧ build fx cls args = .ok x :=
  Ptx.valid_iff_constructible fx hs x

example : ∃ cls args, noItems args = true ∧ build {} cls args = .ok (.pred Pred.identity) :=
  (valid_iff_constructible {} rfl _).mp (by decide)
/-- … and `Atomic(100, 0)` (index above the maximum) is not constructible -/
example : ¬ ∃ cls args, noItems args = true ∧ build {} cls args = .ok (.sent (.atom 100 0)) :=
  fun h => absurd ((valid_iff_constructible {} rfl _).mpr h) (by decide)

/-- GENERAL ident round trip: for every valid item of any of the nine types (system predicates
    included, any subscript, indices within the maxima) `LexicalAbc(x.ident)` in a fresh process
    returns `x` — with fix 1 (`7a39e5b`); without it the statement fails
    (`cache_not_transparent_unfixed`) -/
theorem ident_roundtrip (fx : Fixes) (hs : fx.sysPred = true) (x : Item) (hx : x.Valid = true) :
    fromIdent fx (identArg x) = .ok x :=
  ident_roundtrip_gen fx hs x hx

example : fromIdent {} (identArg (.sent exId)) = .ok (.sent exId) :=
  ident_roundtrip {} rfl _ (by decide)
example : fromIdent {} (identArg (.op (.b .mbicond))) = .ok (.op (.b .mbicond)) :=
  ident_roundtrip {} rfl _ (by decide)

/-- GENERAL spec round trip: `type(x)(*x.spec)` returns `x` (`construct` = `build` for the seven
    classes behind the metaclass call, the enum lookup for Quantifier / Operator) -/
theorem spec_roundtrip (fx : Fixes) (hs : fx.sysPred = true) (x : Item) (hx : x.Valid = true) :
    construct fx (targetOf x) (specArgs x) = .ok x :=
  spec_roundtrip_gen fx hs x hx

/-- … in terms of `build` for the seven lexical classes -/
theorem spec_roundtrip_build (fx : Fixes) (hs : fx.sysPred = true) (x : Item) (hx : x.Valid = true)
    (c : Cls) (hc : targetOf x = .lex c) : build fx c (specArgs x) = .ok x := by
  have := spec_roundtrip fx hs x hx
  rw [hc] at this
  exact this

example : build {} .predicated (specArgs (.sent exId)) = .ok (.sent exId) :=
  spec_roundtrip_build {} rfl _ (by decide) _ rfl
example : construct {} .quantifier (specArgs (.quant .univ)) = .ok (.quant .univ) :=
  spec_roundtrip {} rfl _ rfl

/-- hypothesis (a) of `cache_transparent_partial`, discharged: every item a call returns (from
    arguments carrying valid items) is rebuilt from its ident -/
theorem roundTrips (fx : Fixes) (hs : fx.sysPred = true) : RoundTripsV fx := roundTripsV fx hs

example : ∃ m, keyBuildP {} m (identArg (.sent exA)) = .ok (.sent exA) :=
  roundTrips {} rfl 5 .sentence [.item (.sent exA)] _ (by decide) rfl

/-- … while the unrestricted `RoundTrips` is FALSE for the fixed code: the model's argument type
    can carry an `Item` value that no constructor returns; the passthrough hands it back, and its
    ident is rejected (`Atomic(100, 0)`: index above the maximum → ValueError) -/
theorem roundTrips_needs_valid_items : ¬ RoundTrips {} := by
  intro h
  obtain ⟨m, hm⟩ := h 1 .sentence [.item (.sent (.atom 100 0))] (.sent (.atom 100 0)) rfl
  rw [keyBuildP_ident] at hm
  cases m with
  | zero => exact nomatch hm
  | succ m =>
    have : constructN {} (m+1) (targetOf (.sent (.atom 100 0))) (specArgs (.sent (.atom 100 0)))
        = .error .value := rfl
    rw [this] at hm
    exact nomatch hm

/-- the witness: the passthrough returns the ill-formed value, which is not `Valid` -/
example : build {} .sentence [.item (.sent (.atom 100 0))] = .ok (.sent (.atom 100 0)) ∧
    (Item.sent (.atom 100 0)).Valid = false ∧
    (build {} .atomic [.int 100, .int 0]).toOption = none := ⟨rfl, rfl, rfl⟩

/-! ### the full cache invariant; transparency without hypotheses (a) and (c) -/

/-- the invariant `Cache.Inv` (Proofs/LangCacheInv.lean) in the terms of the statement above
    (it additionally keeps `queue` and the keys of `idx` duplicate-free) -/
theorem inv_as_stated (fx : Fixes) (c : Cache) (hc : c.Inv fx) :
    c.Sound fx ∧ c.rev.map (·.1) = c.queue ∧ c.queue.length ≤ c.maxlen ∧
    (∀ e ∈ c.rev, Arg.item e.1 ∈ e.2 ∧ ∀ k ∈ e.2, c.get k = some e.1) ∧
    (∀ e ∈ c.idx, ∃ ks, (e.2, ks) ∈ c.rev ∧ e.1 ∈ ks) :=
  ⟨hc.sound, Shape.as_stated hc.shape⟩

example :
    let c := (metacall {} (Cache.empty 2) .operated [.str "Negation", .item (.sent (.atom 0 0))]).2
    c.rev.map (·.1) = c.queue ∧ c.queue = [.sent exA] ∧ c.idx.length = 3 := by decide

/-- the empty cache of every size satisfies it (size 0 needs fix 2, `59f28ed`) -/
theorem empty_inv (fx : Fixes) (maxlen : Nat) (h : fx.maxlen0 = true ∨ 0 < maxlen) :
    (Cache.empty maxlen).Inv fx := Inv.empty fx maxlen h

example : (Cache.empty 0).Inv {} ∧ (Cache.empty 1).Inv ⟨true, false⟩ :=
  ⟨empty_inv _ _ (Or.inl rfl), empty_inv _ _ (Or.inr (by decide))⟩

/-- `cache[key] = value` on a state satisfying the invariant NEVER raises (no KeyError from
    `idx[value]`, `rev[value]`, `rev.pop(old)`, `del idx[k]`; no IndexError from `popleft`) and
    keeps the invariant — for every maxlen and whatever was evicted before — provided `value` is
    what a fresh build of `key` returns -/
theorem store_inv (fx : Fixes) (c : Cache) (hc : c.Inv fx) (key : Arg) (v : Item)
    (hk : ∃ m, keyBuildP fx m key = .ok v) : ∃ c', c.store fx key v = .ok c' ∧ c'.Inv fx :=
  Inv.store hc hk

example : ∃ c', (Cache.empty 1).store {} (.item (.quant .ex)) (.quant .ex) = .ok c' ∧ c'.Inv {} :=
  store_inv {} _ (empty_inv _ _ (Or.inl rfl)) _ _ ⟨0, rfl⟩

/-- a fresh build never raises the KeyError / IndexError of DequeCache -/
theorem build_never_crashes (fx : Fixes) (cls : Cls) (args : List Arg) :
    ¬ isCrash (build fx cls args) := build_not_crash fx cls args

example : isCrash (.error .index) ∧ ¬ isCrash (build ⟨true, false⟩ .atomic [.int 0, .int 0]) :=
  ⟨Or.inr rfl, build_never_crashes _ _ _⟩

/-- hypothesis (b) discharged: the recursion budget `fuelFor` of the model suffices for EVERY
    call (any class, any arguments — nested tuples, strings, items, malformed ones included):
    `build` never answers the model's budget error.  (Each abstract → concrete → abstract round
    of nested calls strips two tuple levels off the arguments; `fuelFor` is twice their size.) -/
theorem build_budget_suffices (fx : Fixes) (cls : Cls) (args : List Arg) :
    build fx cls args ≠ .error .fuel := build_ne_fuel fx cls args

/-- … while a smaller budget does run out: the bound is not vacuous -/
example : evalP {} 2 .sentence [exA.ident] = .error .fuel ∧
    build {} .sentence [exA.ident] = .ok (.sent exA) := ⟨rfl, rfl⟩

/-- CACHE TRANSPARENCY, one call: in EVERY cache state satisfying the invariant (any maxlen —
    0, 1, 2, … —, any eviction history), for every class and arguments carrying valid items,
    the metaclass call answers exactly what the same call answers with nothing cached (item or
    exception kind), never raises from inside DequeCache, returns a valid item if it returns
    one, and leaves a state satisfying the invariant.  No hypothesis (a), (b) or (c) is left:
    the recursion budget of the model always suffices (`build_budget_suffices`). -/
theorem cache_transparent (fx : Fixes) (hsp : fx.sysPred = true) (c : Cache) (hc : c.Inv fx)
    (cls : Cls) (args : List Arg) (hav : argsVI args = true) :
    (metacall fx c cls args).1 = build fx cls args ∧ (metacall fx c cls args).2.Inv fx ∧
    ¬ isCrash (metacall fx c cls args).1 ∧
    (∀ x, (metacall fx c cls args).1 = .ok x → x.Valid = true ∧ x.WF = true) := by
  obtain ⟨h1, h2⟩ := metacall_spec fx hsp c hc cls args hav (build_ne_fuel fx cls args)
  refine ⟨h1, h2, by rw [h1]; exact build_not_crash fx cls args, ?_⟩
  intro x hx
  rw [h1] at hx
  exact built_valid fx cls args x hav hx

example :
    let c := (metacall {} (Cache.empty 1) .operated [.str "Negation", .item (.sent (.atom 0 0))]).2
    (metacall {} c .sentence [exA.ident]).1 = .ok (.sent exA) := by
  intro c
  have hc : c.Inv {} :=
    (cache_transparent {} rfl _ (empty_inv _ _ (Or.inl rfl)) .operated
      [.str "Negation", .item (.sent (.atom 0 0))] (by decide)).2.1
  exact (cache_transparent {} rfl c hc .sentence [exA.ident] (by decide)).1.trans rfl

/-- CACHE TRANSPARENCY, all histories: for every maxlen and every finite sequence of metaclass
    calls (any of the eleven classes, arguments carrying valid items) run against ONE cache that
    starts empty — so with whatever hits, stores and evictions the sequence causes — the k-th
    answer is the answer of the k-th call in a fresh process; no answer is a KeyError /
    IndexError from DequeCache; the final cache satisfies the invariant. -/
theorem cache_transparent_seq (fx : Fixes) (hsp : fx.sysPred = true) (maxlen : Nat)
    (hml : fx.maxlen0 = true ∨ 0 < maxlen) (calls : List (Cls × List Arg))
    (h : ∀ cl ∈ calls, argsVI cl.2 = true) :
    (runCalls fx (Cache.empty maxlen) calls).1 = calls.map (fun cl => build fx cl.1 cl.2) ∧
    (runCalls fx (Cache.empty maxlen) calls).2.Inv fx ∧
    (∀ r ∈ (runCalls fx (Cache.empty maxlen) calls).1, ¬ isCrash r) := by
  obtain ⟨h1, h2⟩ := runCalls_spec fx hsp calls _ (Inv.empty fx maxlen hml)
    (fun cl hcl => ⟨h cl hcl, build_ne_fuel fx cl.1 cl.2⟩)
  refine ⟨h1, h2, ?_⟩
  intro r hr
  rw [h1] at hr
  obtain ⟨cl, _, rfl⟩ := List.mem_map.mp hr
  exact build_not_crash fx cl.1 cl.2

example : (runCalls ⟨true, false⟩ (Cache.empty 2) [(.atomic, [.int 1, .int 0]), (.atomic, [.int 1, .int 0])]).1
    = [.ok (.sent (.atom 1 0)), .ok (.sent (.atom 1 0))] :=
  (cache_transparent_seq ⟨true, false⟩ rfl 2 (Or.inr (by decide)) _ (by
    intro cl hcl
    simp only [List.mem_cons, List.not_mem_nil, or_false, or_self] at hcl
    subst hcl
    decide)).1

/-- … for the fixed code (`{}` = fixes 1 and 2), EVERY maxlen including 0 -/
theorem cache_transparent_seq_fixed (maxlen : Nat) (calls : List (Cls × List Arg))
    (h : ∀ cl ∈ calls, argsVI cl.2 = true) :
    (runCalls {} (Cache.empty maxlen) calls).1 = calls.map (fun cl => build {} cl.1 cl.2) ∧
    (runCalls {} (Cache.empty maxlen) calls).2.Inv {} :=
  ⟨(cache_transparent_seq {} rfl maxlen (Or.inl rfl) calls h).1,
   (cache_transparent_seq {} rfl maxlen (Or.inl rfl) calls h).2.1⟩

/-- non-vacuity: the size-1 history of the example above (build ¬A, evict it, rebuild it from its
    ident, then a failing call), as an instance of the theorem, for maxlen 1 and for maxlen 0 -/
def exCalls : List (Cls × List Arg) :=
  [(.operated, [.str "Negation", .item (.sent (.atom 0 0))]),
   (.atomic, [.int 1, .int 0]),
   (.sentence, [exA.ident]),
   (.constant, [.int 9, .int 0])]

theorem exCalls_ok : ∀ cl ∈ exCalls, argsVI cl.2 = true := by decide

example : (runCalls {} (Cache.empty 1) exCalls).1 =
      [.ok (.sent exA), .ok (.sent (.atom 1 0)), .ok (.sent exA), .error .value] ∧
    (runCalls {} (Cache.empty 0) exCalls).1 =
      [.ok (.sent exA), .ok (.sent (.atom 1 0)), .ok (.sent exA), .error .value] :=
  ⟨(cache_transparent_seq_fixed 1 exCalls exCalls_ok).1, (cache_transparent_seq_fixed 0 exCalls exCalls_ok).1⟩

end Ptx.Props.C14
