/-
  C14 — Lexical items have value semantics.

  Model: Ptx/Lang/Order.lean (`sortKey`, `cmpDiff` = `Lexical.orderitems`, operators, `hashOf`,
  `argCmp`), Ptx/Lang/Cache.lean (the construction cache and the metaclass call).
  `Item.WF` = every `Predicated` carries exactly `arity` parameters — what the constructor enforces.
-/
import Ptx.Proofs.LangOrder
import Ptx.Proofs.LangCache
namespace Ptx.Props.C14
open Ptx

/-! ## equality is structural identity -/

/-- sort keys of well-formed items are a prefix code: no key is a proper prefix of another,
    so the zero padding of `zip_longest` can never make two different items compare equal -/
theorem sortKey_prefix_free (x y : Item) (hx : x.WF) (hy : y.WF) :
    sortKey x <+: sortKey y → x = y := by
  rintro ⟨t, ht⟩
  exact (sortKey_append_inj x y t [] hx hy (by simpa using ht)).1

theorem sortKey_injective (x y : Item) (hx : x.WF) (hy : y.WF) (h : sortKey x = sortKey y) : x = y :=
  sortKey_prefix_free x y hx hy (h ▸ List.prefix_refl _)

/-- without the arity discipline the padding DOES confuse: the hypothesis is needed -/
example : (Item.sent (.pred ⟨0, 0, 1⟩ [.const 0 0])).cmp (.sent (.pred ⟨0, 0, 1⟩ [.const 0 0, .const 0 0])) ≠ .eq := by decide
example : cmpKeys [70, 10, 0, 0, 1, 20, 0, 0] [70, 10, 0, 0, 1, 20, 0, 0, 0, 0] = .eq := by decide

/-- `orderitems = 0` holds exactly for structurally identical items -/
theorem orderitems_zero_iff (x y : Item) (hx : x.WF) (hy : y.WF) : orderitems x y = 0 ↔ x = y := by
  constructor
  · intro h0
    rcases cmpDiff_zero_prefix _ _ h0 with h | h
    · exact sortKey_prefix_free x y hx hy h
    · exact (sortKey_prefix_free y x hy hx h).symm
  · rintro rfl
    exact cmpDiff_self _

/-- `==` holds exactly for structurally identical items -/
theorem cmp_eq_iff (x y : Item) (hx : x.WF) (hy : y.WF) : x.cmp y = .eq ↔ x = y := by
  rw [Item.cmp_eq_iff0, orderitems_zero_iff x y hx hy]

theorem eqv_iff (x y : Item) (hx : x.WF) (hy : y.WF) : x.eqv y = true ↔ x = y := by
  rw [Item.eqv_iff0, orderitems_zero_iff x y hx hy]

example : (Item.sent (.op1 .neg (.atom 0 0))).eqv (.sent (.op1 .neg (.atom 0 0))) = true := by decide
example : (Item.param (.const 0 0)).eqv (.param (.var 0 0)) = false := by decide

/-! ## one total order, consistent with equality -/

/-- the six operators are the six readings of ONE three-way comparison -/
theorem operators_consistent (x y : Item) :
    (x.lt y = true ↔ x.cmp y = .lt) ∧ (x.gt y = true ↔ x.cmp y = .gt) ∧
    (x.eqv y = true ↔ x.cmp y = .eq) ∧
    (x.le y = true ↔ x.cmp y ≠ .gt) ∧ (x.ge y = true ↔ x.cmp y ≠ .lt) := by
  rw [Item.lt_iff, Item.gt_iff, Item.eqv_iff0, Item.le_iff, Item.ge_iff, Item.cmp_lt_iff,
    Item.cmp_gt_iff, Item.cmp_eq_iff0, ne_eq, ne_eq, Item.cmp_gt_iff, Item.cmp_lt_iff]
  refine ⟨Iff.rfl, Iff.rfl, Iff.rfl, ?_, ?_⟩ <;> omega

example : (Item.pred ⟨0, 0, 1⟩).lt (.param (.const 0 0)) = true := by decide

/-- antisymmetric / converse: `x < y ↔ y > x`, and `x ≤ y ∧ y ≤ x → x = y` -/
theorem cmp_antisymm (x y : Item) (hx : x.WF) (hy : y.WF) :
    (x.cmp y = .lt ↔ y.cmp x = .gt) ∧ (x.le y = true → y.le x = true → x = y) := by
  rw [Item.cmp_lt_iff, Item.cmp_gt_iff, Item.le_iff, Item.le_iff, orderitems_swap x y]
  refine ⟨by omega, fun h1 h2 => (orderitems_zero_iff x y hx hy).mp (by omega)⟩

theorem cmp_trans (x y z : Item) :
    (x.le y = true → y.le z = true → x.le z = true) ∧
    (x.lt y = true → y.lt z = true → x.lt z = true) ∧
    (x.le y = true → y.lt z = true → x.lt z = true) ∧
    (x.lt y = true → y.le z = true → x.lt z = true) := by
  simp only [Item.le_iff, Item.lt_iff, orderitems]
  refine ⟨fun a b => cmpDiff_trans a b, fun a b => ?_, fun a b => ?_, fun a b => ?_⟩
  · exact cmpDiff_trans_lt (by omega) (by omega) (Or.inl a)
  · exact cmpDiff_trans_lt a (by omega) (Or.inr b)
  · exact cmpDiff_trans_lt (by omega) b (Or.inl a)

theorem cmp_total (x y : Item) : x.le y = true ∨ y.le x = true := by
  rw [Item.le_iff, Item.le_iff, orderitems_swap x y]
  omega

/-- the statement of the property: one total order consistent with equality -/
theorem cmp_total_order :
    (∀ x y : Item, x.WF → y.WF → x.le y = true → y.le x = true → x = y) ∧
    (∀ x y z : Item, x.le y = true → y.le z = true → x.le z = true) ∧
    (∀ x y : Item, x.le y = true ∨ y.le x = true) ∧
    (∀ x y : Item, x.WF → y.WF → (x.lt y = true ↔ (x.le y = true ∧ x ≠ y))) := by
  refine ⟨fun x y hx hy => (cmp_antisymm x y hx hy).2, fun x y z => (cmp_trans x y z).1, cmp_total, ?_⟩
  intro x y hx hy
  have e := orderitems_zero_iff x y hx hy
  rw [Item.lt_iff, Item.le_iff]
  constructor
  · intro h; exact ⟨by omega, fun hxy => by have := e.mpr hxy; omega⟩
  · rintro ⟨h1, h2⟩
    have : ¬ orderitems x y = 0 := fun h => h2 (e.mp h)
    omega

example : (Item.quant .ex).le (.quant .univ) = true ∧ (Item.quant .univ).le (.quant .ex) = false := by decide

/-- sorts by type rank first -/
theorem cmp_rank_first (x y : Item) (h : x.type.rank < y.type.rank) : x.cmp y = .lt := by
  obtain ⟨t, ht⟩ := sortKey_head x
  obtain ⟨u, hu⟩ := sortKey_head y
  have hne : (x.type.rank : Int) ≠ (y.type.rank : Int) := by omega
  rw [Item.cmp_lt_iff]
  simp only [orderitems, ht, hu, cmpDiff, ne_eq, hne, not_false_eq_true, ↓reduceIte]
  omega

example : (Item.sent (.atom 4 100)).cmp (.sent (.pred ⟨0, 0, 1⟩ [.const 0 0])) = .lt := by decide

/-- the ranks are the published ones, strictly increasing in the order of `LexType` -/
theorem ranks : LexType.all.map LexType.rank = [10, 20, 30, 40, 50, 60, 70, 80, 90] := by decide

/-! ## hash -/

/-- equal items have equal hashes: the hash is a function of the sort tuple alone
    (`hash((Lexical, item.sort_tuple))`), whatever CPython's tuple hash `H` is -/
theorem hash_consistent (H : List Int → UInt64) (x y : Item) (hx : x.WF) (hy : y.WF)
    (h : x.eqv y = true) : hashOf H x = hashOf H y := by
  rw [(eqv_iff x y hx hy).mp h]

/-- … and for `x = y` outright (no hypothesis needed) -/
theorem hash_eq_of_eq (H : List Int → UInt64) (x y : Item) (h : x = y) : hashOf H x = hashOf H y := by
  rw [h]

theorem hash_fun_of_key (H : List Int → UInt64) (x y : Item) (h : sortKey x = sortKey y) :
    hashOf H x = hashOf H y := by simp [hashOf, h]

example : hashOf (fun l => l.length.toUInt64) (.quant .ex) = 2 := by decide

/-! ## sorted() -/

theorem insertItem_perm (x : Item) (l : List Item) : (insertItem x l).Perm (x :: l) := by
  induction l with
  | nil => simp [insertItem]
  | cons y ys ih =>
    simp only [insertItem]
    split
    · exact List.Perm.refl _
    · exact (List.Perm.cons y ih).trans (List.Perm.swap x y ys)

theorem sortItems_perm (l : List Item) : (sortItems l).Perm l := by
  induction l with
  | nil => simp [sortItems]
  | cons x xs ih => exact (insertItem_perm x _).trans (List.Perm.cons x ih)

theorem insertItem_sorted (x : Item) (l : List Item)
    (h : l.Pairwise (fun a b => a.le b = true)) : (insertItem x l).Pairwise (fun a b => a.le b = true) := by
  induction l with
  | nil => simp [insertItem]
  | cons y ys ih =>
    simp only [insertItem]
    have hy := List.pairwise_cons.mp h
    split
    · rename_i hxy
      refine List.pairwise_cons.mpr ⟨?_, h⟩
      intro z hz
      have hxy' : x.le y = true := (Item.le_iff x y).mpr hxy
      rcases List.mem_cons.mp hz with rfl | hz
      · exact hxy'
      · exact (cmp_trans x y z).1 hxy' (hy.1 z hz)
    · rename_i hxy
      refine List.pairwise_cons.mpr ⟨?_, ih hy.2⟩
      intro z hz
      have := (insertItem_perm x ys).mem_iff.mp hz
      rcases List.mem_cons.mp this with rfl | hz
      · rcases cmp_total z y with h | h
        · exact absurd ((Item.le_iff z y).mp h) hxy
        · exact h
      · exact hy.1 z hz

/-- `sorted(items)` is a rearrangement that is ascending for `<=` -/
theorem sortItems_sorted (l : List Item) :
    (sortItems l).Perm l ∧ (sortItems l).Pairwise (fun a b => a.le b = true) := by
  refine ⟨sortItems_perm l, ?_⟩
  induction l with
  | nil => simp [sortItems]
  | cons x xs ih => exact insertItem_sorted x _ ih

example : sortItems [.op (.u .neg), .param (.const 1 0), .pred ⟨-1, 0, 2⟩, .param (.const 0 0)]
    = [.pred ⟨-1, 0, 2⟩, .param (.const 0 0), .param (.const 1 0), .op (.u .neg)] := by decide

/-! ## arguments -/

/-- `Argument` comparison (length first, then pairwise `orderitems`) is a total order whose
    equality is structural identity of conclusion and premises -/
theorem argument_order_total_consistent :
    (∀ a b : Argument, a.ArityOK → b.ArityOK → (argCmp a b = 0 ↔ a = b)) ∧
    (∀ a b : Argument, argCmp b a = - argCmp a b) ∧
    (∀ a b c : Argument, argCmp a b ≤ 0 → argCmp b c ≤ 0 → argCmp a c ≤ 0) ∧
    (∀ a b c : Argument, argCmp a b ≤ 0 → argCmp b c ≤ 0 → (argCmp a b < 0 ∨ argCmp b c < 0) → argCmp a c < 0) ∧
    (∀ a b : Argument, argCmp a b ≤ 0 ∨ argCmp b a ≤ 0) := by
  have hswap : ∀ a b : Argument, argCmp b a = - argCmp a b := by
    intro a b
    simp only [argCmp]
    by_cases h : (a.seq.length : Int) - (b.seq.length : Int) = 0
    · have h' : (b.seq.length : Int) - (a.seq.length : Int) = 0 := by omega
      simp [h, h', seqCmp_swap a.seq b.seq]
    · have h' : ¬ (b.seq.length : Int) - (a.seq.length : Int) = 0 := by omega
      simp only [ne_eq, h, not_false_eq_true, ↓reduceIte, h']
      omega
  have htr : ∀ a b c : Argument, argCmp a b ≤ 0 → argCmp b c ≤ 0 →
      argCmp a c ≤ 0 ∧ ((argCmp a b < 0 ∨ argCmp b c < 0) → argCmp a c < 0) := by
    intro a b c
    simp only [argCmp]
    by_cases hab : (a.seq.length : Int) - (b.seq.length : Int) = 0
    · by_cases hbc : (b.seq.length : Int) - (c.seq.length : Int) = 0
      · have hac : (a.seq.length : Int) - (c.seq.length : Int) = 0 := by omega
        simp only [ne_eq, hab, not_true_eq_false, ↓reduceIte, hbc, hac]
        exact seqCmp_trans_aux a.seq b.seq c.seq (by omega) (by omega)
      · have hac : ¬ (a.seq.length : Int) - (c.seq.length : Int) = 0 := by omega
        simp only [ne_eq, hab, not_true_eq_false, ↓reduceIte, hbc, not_false_eq_true, hac]
        intro _ h
        exact ⟨by omega, fun _ => by omega⟩
    · by_cases hbc : (b.seq.length : Int) - (c.seq.length : Int) = 0
      · have hac : ¬ (a.seq.length : Int) - (c.seq.length : Int) = 0 := by omega
        simp only [ne_eq, hab, not_false_eq_true, ↓reduceIte, hbc, not_true_eq_false, hac]
        intro h _
        exact ⟨by omega, fun _ => by omega⟩
      · simp only [ne_eq, hab, not_false_eq_true, ↓reduceIte, hbc]
        intro h1 h2
        have hac : ¬ (a.seq.length : Int) - (c.seq.length : Int) = 0 := by omega
        simp only [hac, not_false_eq_true, ↓reduceIte]
        exact ⟨by omega, fun _ => by omega⟩
  refine ⟨?_, hswap, fun a b c h1 h2 => (htr a b c h1 h2).1, fun a b c h1 h2 => (htr a b c h1 h2).2, ?_⟩
  · intro a b ha hb
    constructor
    · intro h
      simp only [argCmp] at h
      by_cases hl : (a.seq.length : Int) - (b.seq.length : Int) = 0
      · simp only [ne_eq, hl, not_true_eq_false, ↓reduceIte] at h
        have := seqCmp_zero a.seq b.seq (by omega)
          (by simpa [Argument.ArityOK, List.all_eq_true] using ha)
          (by simpa [Argument.ArityOK, List.all_eq_true] using hb) h
        cases a; cases b
        simp only [Argument.seq, List.cons.injEq] at this
        simp [this.1, this.2]
      · simp [hl] at h
    · rintro rfl
      simp [argCmp, seqCmp_self]
  · intro a b
    rw [hswap a b]; omega

example : argCmp ⟨[.atom 0 0], .atom 1 0⟩ ⟨[], .atom 2 0⟩ > 0 := by decide
example : argCmp ⟨[.atom 0 0], .atom 1 0⟩ ⟨[.atom 1 0], .atom 1 0⟩ < 0 := by decide

/-- equal arguments have equal hashes (`hash(self.seq)`: a function of the sentences' hashes) -/
theorem argument_hash_consistent (H : List Int → UInt64) (T : List UInt64 → UInt64) (a b : Argument)
    (ha : a.ArityOK) (hb : b.ArityOK) (h : argCmp a b = 0) : argHash H T a = argHash H T b := by
  rw [(argument_order_total_consistent.1 a b ha hb).mp h]

/-! ## the construction cache is invisible

  `metacall fx c cls args` is `cls(*args)` against cache state `c` (Ptx/Lang/Cache.lean: lookup,
  construct with nested cached calls, from-ident path, store under `(clsname, spec)` and under
  `inst.ident`, eviction); `build fx cls args` is the same call in a process with nothing cached.

  FULL STATEMENT (kept; what is proved below is the `_partial` version):

    statement cache_transparent (c : Cache) (hc : c.Inv) (cls) (args) :
        (metacall fixed c cls args).1 = build fixed cls args ∧ (metacall fixed c cls args).2.Inv
      where Cache.Inv c :=  c.Sound fixed                       -- idx k = some v → v = fresh build of k
                          ∧ c.rev.map (·.1) = c.queue ∧ c.queue.length ≤ c.maxlen
                          ∧ (∀ (v,ks) ∈ c.rev, .item v ∈ ks ∧ ∀ k ∈ ks, c.get k = some v)
                          ∧ (∀ (k,v) ∈ c.idx, ∃ ks, (v,ks) ∈ c.rev ∧ k ∈ ks)

  Proved: for EVERY cache state whose entries are sound (any maxlen incl. 0, 1, 2; any eviction
  history — eviction only deletes entries), the answer equals the fresh build and soundness is
  preserved, provided (a) the ident round trip holds for every constructible item (`RoundTrips`,
  the hypothesis the cache itself relies on when it files an item under `inst.ident`; this is
  exactly what fails on the unfixed tree, see `cache_not_transparent_unfixed`), (b) the recursion
  budget suffices for the fresh build, and (c) modulo a KeyError/IndexError raised INSIDE
  DequeCache, which the structural half of `Inv` excludes (not yet proved in Lean; the driver
  evaluates the structural half after every sequence — `inv=1` — and the harness compares).
-/

theorem cache_transparent_partial (fx : Fixes) (hRT : RoundTrips fx) (c : Cache) (hc : c.Sound fx)
    (cls : Cls) (args : List Arg) (hfuel : build fx cls args ≠ .error .fuel) :
    (metacall fx c cls args).2.Sound fx ∧
      ((metacall fx c cls args).1 = build fx cls args ∨ isCrash (metacall fx c cls args).1) :=
  transparent fx hRT (fuelFor args) cls args c hc _ rfl hfuel

/-- the empty cache of any size is sound -/
theorem empty_sound (fx : Fixes) (n : Nat) : (Cache.empty n).Sound fx := by
  intro k v h; simp [Cache.empty] at h

/-- soundness survives every store and every eviction (so every reachable state is sound) -/
theorem store_sound (fx : Fixes) (c c' : Cache) (key : Arg) (v : Item) (hc : c.Sound fx)
    (hk : ∃ m, keyBuildP fx m key = .ok v) (h : c.store fx key v = .ok c') : c'.Sound fx :=
  Sound.store hc hk h

theorem evict_sound (fx : Fixes) (c c' : Cache) (hc : c.Sound fx) (h : c.evict = .ok c') :
    c'.Sound fx := Sound.evict hc h

/-- the budget never influences an answer -/
theorem build_budget_irrelevant (fx : Fixes) (n m : Nat) (cls : Cls) (args : List Arg) (v : Item) (r : R)
    (h1 : evalP fx n cls args = .ok v) (h2 : evalP fx m cls args = r) (hne : r ≠ .error .fuel) :
    r = .ok v := evalP_det fx h1 h2 hne

/-! non-vacuity: a size-1 cache, a sentence built (evicting its own parts), then rebuilt from
    its ident after everything was evicted by further constructions -/

def exA : Sent := .op1 .neg (.atom 0 0)

example :
    let fx : Fixes := {}
    let c0 := Cache.empty 1
    let (r1, c1) := metacall fx c0 .operated [.str "Negation", .item (.sent (.atom 0 0))]
    let (_, c2) := metacall fx c1 .atomic [.int 1, .int 0]            -- evicts ¬A
    let (r3, c3) := metacall fx c2 .sentence [exA.ident]              -- rebuild from ident
    r1.toOption = some (.sent exA) ∧ r3.toOption = some (.sent exA) ∧
    c1.queue = [.sent exA] ∧ c2.queue = [.sent (.atom 1 0)] ∧ c3.queue = [.sent exA] := by
  decide

/-- maxlen 0 (fix 2): nothing is ever stored, every call is a fresh build -/
example :
    let fx : Fixes := {}
    let (r, c) := metacall fx (Cache.empty 0) .atomic [.int 0, .int 0]
    r.toOption = some (.sent (.atom 0 0)) ∧ c.idx = [] ∧ c.queue = [] := by decide

/-! ### the two defects of the current tree, as theorems about the UNFIXED behaviour -/

def unfixed : Fixes := ⟨false, false⟩
def exId : Sent := .pred Pred.identity [.const 0 0, .const 1 0]

/-- defect 1 (`C14:cache:from-ident:system-predicate`): without fix 1 the cache is NOT transparent.
    `Predicated(Identity, (a, b))` is built and cached; `Sentence(ident)` then answers from the
    cache, while the same call with nothing cached (or after eviction) raises ValueError from
    `Predicate((-1, 0, 2))`. -/
theorem cache_not_transparent_unfixed :
    let fx : Fixes := ⟨false, true⟩
    let c := (metacall fx (Cache.empty 1000) .predicated
      [.item (.pred Pred.identity), .tuple [.item (.param (.const 0 0)), .item (.param (.const 1 0))]]).2
    (metacall fx c .sentence [exId.ident]).1.toOption = some (.sent exId) ∧
    (build fx .sentence [exId.ident]).toOption = none ∧
    (build {} .sentence [exId.ident]).toOption = some (.sent exId) := by
  decide

/-- … and the round trip through the published spec fails without fix 1, holds with it -/
theorem spec_roundtrip_system_predicate :
    (build ⟨false, true⟩ .predicate Pred.identity.specArgs).toOption = none ∧
    (build {} .predicate Pred.identity.specArgs).toOption = some (.pred Pred.identity) ∧
    (build {} .predicate Pred.existence.specArgs).toOption = some (.pred Pred.existence) := by
  decide

/-- defect 2 (`C14:cache:maxlen0`): without fix 2 a cache of size 0 makes the FIRST construction
    raise IndexError (`queue.popleft()` on the empty deque) -/
theorem maxlen0_unfixed_raises :
    (match (metacall ⟨true, false⟩ (Cache.empty 0) .atomic [.int 0, .int 0]).1 with
      | .error .index => true | _ => false) = true ∧
    (build ⟨true, false⟩ .atomic [.int 0, .int 0]).toOption = some (.sent (.atom 0 0)) := by
  decide

/-! ### ident / spec round trips (evaluated instances; the general statement is `RoundTrips`)

  FULL STATEMENTS (kept):
    statement ident_roundtrip (x : Item) (hx : x.Valid) : fromIdent {} (identArg x) = .ok x
    statement spec_roundtrip  (x : Item) (hx : x.Valid) : construct x.type (specArgs x) = .ok x
    statement roundTrips : RoundTrips {}
-/

def exBig : Sent :=
  .op2 .cond (.quant .univ 0 0 (.pred Pred.identity [.var 0 0, .const 1 2]))
             (.op1 .nec (.op2 .disj (.atom 4 1) (.pred ⟨3, 7, 3⟩ [.const 0 0, .const 0 0, .var 0 0])))

theorem ident_roundtrip_instances :
    (fromIdent {} (identArg (.sent exBig))).toOption = some (.sent exBig) ∧
    (fromIdent {} (identArg (.pred Pred.existence))).toOption = some (.pred Pred.existence) ∧
    (fromIdent {} (identArg (.quant .univ))).toOption = some (.quant .univ) ∧
    (fromIdent {} (identArg (.op (.b .mbicond)))).toOption = some (.op (.b .mbicond)) ∧
    (fromIdent {} (identArg (.param (.var 3 9)))).toOption = some (.param (.var 3 9)) := by
  decide

theorem spec_roundtrip_instances :
    (build {} .operated (specArgs (.sent exBig))).toOption = some (.sent exBig) ∧
    (build {} .constant (specArgs (.param (.const 2 5)))).toOption = some (.param (.const 2 5)) := by
  decide

end Ptx.Props.C14
