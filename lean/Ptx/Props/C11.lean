/-
  C11 — declared logic extensions preserve validity.

  FULL STATEMENT: whenever the package declares that logic `L` extends logic `L'`, every argument
  (in `L'`'s vocabulary) the prover reports valid in `L'` is not refuted in `L` by a limit-free
  open branch; on the propositional fragment it is reported valid in `L`.

  PROVED HERE, for every pair passing the decidable table-level check `embedsB L' L` (kernel
  evaluated for EVERY declared pair, regenerated from `Meta.extension_of` on each run:
  Ptx/Gen/ObExtends.lean), for every argument of `L'`'s vocabulary and every legal derivation
  (any options / tie-break order / build or step):
    * `C11_embed_countermodels`  — a countermodel in `L` (any structure: any worlds, any domain,
      `L`'s frame condition) is a countermodel in `L'`, with the same values for every sentence;
    * `C11_extension_no_countermodel` — a closed `L'`-tableau excludes every `L`-countermodel
      (C01 for `L'` + the embedding), hence no genuine countermodel can be read off any `L`-branch;
    * `C11_extension_prop` — propositional fragment: truth-table valid in `L'` implies truth-table
      valid in `L` (so, with C03's oracle, the `L` verdict must be 'valid').
    * `C11_extension_prop_closed`, and with the Hintikka lemma (C02)
      `C11_extension_no_refutation(_fo)_partial` — a closed `L'`-tableau and a SATURATED open branch
      of any `L`-derivation for the same argument exclude each other (propositional + modal
      branches; first-order branches for the logics with weights for every rule row).
  `_partial`: branches with Identity / Existence are outside the Hintikka lemma, and "a completed
  tableau's open branches are saturated" is a property of the search (checked on every real run by
  the driver).  Both are covered by the correspondence: the same arguments are run in both logics
  of every declared pair and the verdicts compared.
-/
import Ptx.Proofs.Embed
import Ptx.Props.C03
import Ptx.Props.C02
namespace Ptx.Props.C11
open Ptx

/-- A countermodel in the stronger logic is a countermodel in the weaker one. -/
theorem C11_embed_countermodels (L' L : LogicData) (hemb : L'.embedsB L = true)
    (hT : L.tablesTotalB = true) (M : Struct) (hM : M.Interp L) (e : Env M.D) (w0 : M.W)
    (arg : Argument) (hv : arg.inVocab L'.modal L'.quantified = true)
    (hc : Countermodel L M e w0 arg) :
    M.Interp L' ∧ Countermodel L' M e w0 arg :=
  ⟨Struct.Interp.of_embeds (LogicData.embeds_of_embedsB hemb) hM,
   countermodel_embed (LogicData.embeds_of_embedsB hemb) hT hM e w0 arg hv hc⟩

/-- Validity in the weaker logic (a closed tableau reached by ANY legal derivation) excludes every
    countermodel of the stronger logic. -/
theorem C11_extension_no_countermodel_partial (L' L : LogicData) (hemb : L'.embedsB L = true)
    (hcore' : L'.soundCoreB = true) (hT : L.tablesTotalB = true)
    (arg : Argument) (hv : arg.inVocab L'.modal L'.quantified = true) (t : Tableau)
    (hd : Deriv L'.soundPart (trunk L' arg) t) (hclosed : t.allClosed = true)
    (M : Struct) (hM : M.Interp L) (e : Env M.D) (w0 : M.W) :
    ¬ Countermodel L M e w0 arg := by
  intro hc
  obtain ⟨hM', hc'⟩ := C11_embed_countermodels L' L hemb hT M hM e w0 arg hv hc
  exact Ptx.Props.C01.C01_valid_sound L' hcore' arg t hd hclosed M hM' e w0 hc'

/-- truth-table evaluation agrees on the stronger logic's values -/
theorem evalTT_embed {L' L : LogicData} (h : L'.Embeds L) (hT : L.tablesTotalB = true)
    (f : Nat × Nat → V) (hf : ∀ a, f a ∈ L.T.vals) :
    ∀ s : Sent, s.isProp = true → evalTT L'.T f s = evalTT L.T f s ∧ evalTT L.T f s ∈ L.T.vals := by
  have hc := L.tables.closed_of_totalB _ _ _ hT
  intro s
  induction s with
  | atom i s => intro _; exact ⟨rfl, hf _⟩
  | pred p ps => intro hs; simp [Sent.isProp] at hs
  | quant q vi vs b ih => intro hs; simp [Sent.isProp] at hs
  | op1 o a ih =>
      intro hs
      simp only [Sent.isProp, Bool.and_eq_true, Bool.not_eq_true'] at hs
      obtain ⟨hmo, ha⟩ := hs
      obtain ⟨h1, h2⟩ := ih ha
      simp only [evalTT, hmo, Bool.false_eq_true, if_false]
      rw [h1]
      exact ⟨h.f1 o (Op1.nonmodal_cases hmo) _ h2, hc.f1 o (Op1.nonmodal_cases hmo) _ h2⟩
  | op2 o a b iha ihb =>
      intro hs
      simp only [Sent.isProp, Bool.and_eq_true] at hs
      obtain ⟨a1, a2⟩ := iha hs.1
      obtain ⟨b1, b2⟩ := ihb hs.2
      simp only [evalTT]
      rw [a1, b1]
      exact ⟨h.f2 o _ a2 _ b2, hc.f2 o _ a2 _ b2⟩

/-- Propositional fragment: truth-table validity is inherited by the extension. -/
theorem C11_extension_prop (L' L : LogicData) (hemb : L'.embedsB L = true)
    (hT' : L'.tablesTotalB = true) (hT : L.tablesTotalB = true)
    (arg : Argument) (hp : arg.isProp = true) (hvalid : ttValid L'.T arg = true) :
    ttValid L.T arg = true := by
  have h := LogicData.embeds_of_embedsB hemb
  have hu' := (L'.tables.closed_of_totalB _ _ _ hT').una
  have hu := (L.tables.closed_of_totalB _ _ _ hT).una
  rw [Ptx.Props.C03.C03_ttValid_iff L.T hu arg]
  intro f hf
  have h0 := (Ptx.Props.C03.C03_ttValid_iff L'.T hu' arg).1 hvalid f (fun a => h.vals _ (hf a))
  simp only [Argument.isProp, Bool.and_eq_true, List.all_eq_true] at hp
  have hev : ∀ s, s.isProp = true → L'.T.isDes (evalTT L'.T f s) = L.T.isDes (evalTT L.T f s) := by
    intro s hs
    obtain ⟨h1, h2⟩ := evalTT_embed h hT f hf s hs
    rw [h1, h.des _ h2]
  unfold isCounterTT at h0 ⊢
  rw [← hev _ hp.2]
  rw [show (arg.premises.all fun p => L.T.isDes (evalTT L.T f p)) =
        (arg.premises.all fun p => L'.T.isDes (evalTT L'.T f p)) from
        all_congr_mem (fun p hpp => (hev p (hp.1 p hpp)).symm)]
  exact h0

/-- Validity in the weaker logic, on the propositional fragment, forces truth-table validity in
    the extension — for every legal derivation in the weaker logic. -/
theorem C11_extension_prop_closed (L' L : LogicData) (hemb : L'.embedsB L = true)
    (hcore' : L'.soundCoreB = true) (hTin : L'.T.vals.contains .T = true) (hT : L.tablesTotalB = true)
    (arg : Argument) (hp : arg.isProp = true) (t : Tableau)
    (hd : Deriv L'.soundPart (trunk L' arg) t) (hclosed : t.allClosed = true) :
    ttValid L.T arg = true := by
  have hT' : L'.tablesTotalB = true := by
    have := hcore'
    simp only [LogicData.soundCoreB, Bool.and_eq_true] at this
    exact this.1.1.1.1.1
  exact C11_extension_prop L' L hemb hT' hT arg hp
    (Ptx.Props.C03.C03_closed_implies_ttValid L' hcore' hTin arg hp t hd hclosed)


/-- Extension, both halves: if some legal derivation of the WEAKER logic closes, no legal derivation
    of the STRONGER logic for the same argument reaches a tableau with a saturated (ground) open
    branch — the stronger logic cannot refute what the weaker one proves. -/
theorem C11_extension_no_refutation_partial (L' L : LogicData) (W : Weights) (hemb : L'.embedsB L = true)
    (hcore' : L'.soundCoreB = true) (hcore : L.hintikkaCoreB = true)
    (hW : L.measureOKOnB RuleKey.notQuant W = true)
    (hT : L.T.vals.contains .T = true) (hF : L.T.vals.contains .F = true) (htb : L.trunkBackB = true)
    (arg : Argument) (hv : arg.inVocab L'.modal L'.quantified = true)
    (t : Tableau) (hd : Deriv L'.soundPart (trunk L' arg) t) (hclosed : t.allClosed = true)
    (t' : Tableau) (hd' : Deriv L (trunk L arg) t')
    (b : Branch) (hb : b ∈ t') (hsat : L.saturatedB b = true) (hg : b.groundB L = true) : False := by
  obtain ⟨hM, hc⟩ := Ptx.Props.C02.C02_countermodel_partial L W hcore hW hT hF htb arg t' hd' b hb hsat hg
  have hTot : L.tablesTotalB = true := by
    simp only [LogicData.hintikkaCoreB, Bool.and_eq_true] at hcore
    exact hcore.1.1.1.1.1.1.1.1.1
  exact C11_extension_no_countermodel_partial L' L hemb hcore' hTot arg hv t hd hclosed _ hM _ _ hc

/-- (first-order branches: quantifier rules included, weights for every row)
    Extension, both halves: if some legal derivation of the WEAKER logic closes, no legal derivation
    of the STRONGER logic for the same argument reaches a tableau with a saturated (ground) open
    branch — the stronger logic cannot refute what the weaker one proves. -/
theorem C11_extension_no_refutation_fo_partial (L' L : LogicData) (W : Weights) (hemb : L'.embedsB L = true)
    (hcore' : L'.soundCoreB = true) (hcore : L.hintikkaCoreB = true)
    (hW : L.measureOKB W = true)
    (hT : L.T.vals.contains .T = true) (hF : L.T.vals.contains .F = true) (htb : L.trunkBackB = true)
    (arg : Argument) (hv : arg.inVocab L'.modal L'.quantified = true)
    (t : Tableau) (hd : Deriv L'.soundPart (trunk L' arg) t) (hclosed : t.allClosed = true)
    (t' : Tableau) (hd' : Deriv L (trunk L arg) t')
    (b : Branch) (hb : b ∈ t') (hsat : L.saturatedB b = true) (hg : b.foB L = true) : False := by
  obtain ⟨hM, hc⟩ := Ptx.Props.C02.C02_countermodel_fo_partial L W hcore hW hT hF htb arg t' hd' b hb hsat hg
  have hTot : L.tablesTotalB = true := by
    simp only [LogicData.hintikkaCoreB, Bool.and_eq_true] at hcore
    exact hcore.1.1.1.1.1.1.1.1.1
  exact C11_extension_no_countermodel_partial L' L hemb hcore' hTot arg hv t hd hclosed _ hM _ _ hc

/-- non-vacuity: strong Kleene tables are extended by their two-valued restriction, and the
    converse embedding fails (the check is not trivially true) -/
def K3min : LogicData :=
  { (default : LogicData) with
    tables := { Ptx.Props.C03.T3 with
      t1 := [((Op1.neg, V.F), V.T), ((Op1.neg, V.N), V.N), ((Op1.neg, V.T), V.F),
             ((Op1.asrt, V.F), V.F), ((Op1.asrt, V.N), V.N), ((Op1.asrt, V.T), V.T)] } }
def C2min : LogicData :=
  { (default : LogicData) with
    tables := { K3min.tables with vals := [.F, .T] } }

example : K3min.embedsB C2min = true ∧ C2min.embedsB K3min = false := by decide

end Ptx.Props.C11
