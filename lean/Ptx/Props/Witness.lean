/-
  Non-vacuity witnesses for the generic theorems of C01 / C02 / C03 (hand-written, kernel-checked).

  `C01_valid_sound` quantifies over every tableau `t` with `Deriv L.soundPart (trunk L arg) t` and
  `t.allClosed = true`.  An implication whose hypotheses no reachable tableau meets would check and
  mean nothing, so this file exhibits, for four representative logics REGENERATED FROM THE CODE
  (bivalent CPL, three-valued K3 with designation marks, modal K with a new-world step, first-order
  CFOL with an each-constant quantifier step), a concrete argument, a concrete step list replayed
  by the model's own `applyStep`, the closed tableau it reaches, and the resulting instance of
  `C01_valid_sound`.  The replay is evaluated by the kernel (`decide +kernel`): no native code.

  Because the rule tables are regenerated on every run, these witnesses also pin the four rules
  they use (Conjunction, Necessity/NecessityNegated, Universal, the closure rules): if one of them
  stops producing the nodes below, this file stops building and C01 searches for a failing input.
-/
import Ptx.Gen.Obl_CPL
import Ptx.Gen.Obl_K3
import Ptx.Gen.Obl_K
import Ptx.Gen.Obl_CFOL
import Ptx.Gen.ObH_CPL
import Ptx.Gen.ObH_K
namespace Ptx.Props.Witness
open Ptx

/-- a replayed step list that ends in an all-closed tableau gives the hypotheses of `C01_valid_sound` -/
theorem closed_of_replay {L : LogicData} {arg : Argument} (ss : List Step)
    (h : (replay L.soundPart (trunk L arg) ss).map Tableau.allClosed = some true) :
    ∃ t, Deriv L.soundPart (trunk L arg) t ∧ t.allClosed = true := by
  cases hr : replay L.soundPart (trunk L arg) ss with
  | none => simp [hr] at h
  | some t => exact ⟨t, deriv_of_replay ss hr, by simpa [hr] using h⟩

def A : Sent := .atom 0 0
def B : Sent := .atom 1 0
def F : Pred := ⟨0, 0, 1⟩

/-- `A ∧ B ⊢ A` -/
def argConj : Argument := ⟨[.op2 .conj A B], A⟩
def stepsConj : List Step := [.rule 0 0 none none, .close 0 A none]

/-- `□(A ∧ B) ⊢ □A` -/
def argNec : Argument := ⟨[.op1 .nec (.op2 .conj A B)], .op1 .nec A⟩
def stepsNec : List Step :=
  [.rule 0 1 none (some 1), .rule 0 0 none (some 1), .rule 0 4 none none, .close 0 A (some 1)]

/-- `∀x Fx ⊢ Fa` -/
def argUniv : Argument := ⟨[.quant .univ 0 0 (.pred F [.var 0 0])], .pred F [.const 0 0]⟩
def stepsUniv : List Step := [.rule 0 0 (some (0, 0)) none, .close 0 (.pred F [.const 0 0]) none]

theorem CPL_closed_witness :
    ∃ t, Deriv Gen.CPL.sem.soundPart (trunk Gen.CPL.sem argConj) t ∧ t.allClosed = true :=
  closed_of_replay stepsConj (by decide +kernel)

theorem K3_closed_witness :
    ∃ t, Deriv Gen.K3.sem.soundPart (trunk Gen.K3.sem argConj) t ∧ t.allClosed = true :=
  closed_of_replay stepsConj (by decide +kernel)

theorem K_closed_witness :
    ∃ t, Deriv Gen.K.sem.soundPart (trunk Gen.K.sem argNec) t ∧ t.allClosed = true :=
  closed_of_replay stepsNec (by decide +kernel)

theorem CFOL_closed_witness :
    ∃ t, Deriv Gen.CFOL.sem.soundPart (trunk Gen.CFOL.sem argUniv) t ∧ t.allClosed = true :=
  closed_of_replay stepsUniv (by decide +kernel)

/-- the instances of C01 the witnesses yield: these arguments have no countermodel in any
    interpretation of the logic (every frame, every domain, every environment) -/
theorem CPL_conj_no_countermodel (M : Struct) (hM : M.Interp Gen.CPL.sem) (e : Env M.D) (w0 : M.W) :
    ¬ Countermodel Gen.CPL.sem M e w0 argConj :=
  let ⟨t, hd, hc⟩ := CPL_closed_witness
  Gen.Obl.CPL.c01_valid_sound argConj t hd hc M hM e w0

theorem K3_conj_no_countermodel (M : Struct) (hM : M.Interp Gen.K3.sem) (e : Env M.D) (w0 : M.W) :
    ¬ Countermodel Gen.K3.sem M e w0 argConj :=
  let ⟨t, hd, hc⟩ := K3_closed_witness
  Gen.Obl.K3.c01_valid_sound argConj t hd hc M hM e w0

theorem K_nec_no_countermodel (M : Struct) (hM : M.Interp Gen.K.sem) (e : Env M.D) (w0 : M.W) :
    ¬ Countermodel Gen.K.sem M e w0 argNec :=
  let ⟨t, hd, hc⟩ := K_closed_witness
  Gen.Obl.K.c01_valid_sound argNec t hd hc M hM e w0

theorem CFOL_univ_no_countermodel (M : Struct) (hM : M.Interp Gen.CFOL.sem) (e : Env M.D) (w0 : M.W) :
    ¬ Countermodel Gen.CFOL.sem M e w0 argUniv :=
  let ⟨t, hd, hc⟩ := CFOL_closed_witness
  Gen.Obl.CFOL.c01_valid_sound argUniv t hd hc M hM e w0

/-- C03, soundness half, on the propositional witness: the closed tableau makes `A ∧ B ⊢ A`
    truth-table valid, and the truth table (evaluated independently) agrees. -/
theorem CPL_conj_ttValid : ttValid Gen.CPL.sem.T argConj = true :=
  let ⟨t, hd, hc⟩ := CPL_closed_witness
  Gen.Obl.CPL.c03_closed_tt argConj (by decide) t hd hc

/-- the other side: a step the logic has no rule for is NOT legal (the calculus is not trivially
    permissive): closing the trunk of `A ∧ B ⊢ A` on `B` is rejected, and so is ticking the atom. -/
theorem CPL_illegal_steps_rejected :
    (applyStep Gen.CPL.sem.soundPart (trunk Gen.CPL.sem argConj) (.close 0 B none)).isNone = true ∧
    (applyStep Gen.CPL.sem.soundPart (trunk Gen.CPL.sem ⟨[A], B⟩) (.rule 0 0 none none)).isNone = true ∧
    (replay Gen.CPL.sem.soundPart (trunk Gen.CPL.sem ⟨[A], B⟩) []).map Tableau.allClosed = some false := by
  decide +kernel

/-! ### the refuting side (C02): a reachable tableau with an open, saturated, ground branch -/

/-- a replayed step list whose `i`-th branch is open-saturated and ground gives the hypotheses of
    `C02_countermodel_partial` -/
theorem open_of_replay {L : LogicData} {arg : Argument} (ss : List Step) (i : Nat)
    (h : ((replay L (trunk L arg) ss).bind (·[i]?)).map (fun b => L.saturatedB b && b.groundB L && !b.closed)
          = some true) :
    ∃ t b, Deriv L (trunk L arg) t ∧ b ∈ t ∧ L.saturatedB b = true ∧ b.groundB L = true ∧ b.closed = false := by
  cases hr : replay L (trunk L arg) ss with
  | none => simp [hr] at h
  | some t =>
    cases hb : t[i]? with
    | none => simp [hr, hb] at h
    | some b =>
      simp only [hr, hb, Option.bind_some, Option.map_some, Option.some.injEq, Bool.and_eq_true,
        Bool.not_eq_true'] at h
      exact ⟨t, b, deriv_of_replay ss hr, List.mem_of_getElem? hb, h.1.1, h.1.2, h.2⟩

/-- `A ∨ B ⊢ A` : the `B` branch stays open -/
def argDisj : Argument := ⟨[.op2 .disj A B], A⟩
/-- `◇A ⊢ □A` : two successor worlds, `A` at one and `¬A` at the other -/
def argPoss : Argument := ⟨[.op1 .poss A], .op1 .nec A⟩

theorem CPL_open_witness :
    ∃ t b, Deriv Gen.CPL.sem (trunk Gen.CPL.sem argDisj) t ∧ b ∈ t ∧ Gen.CPL.sem.saturatedB b = true ∧
      b.groundB Gen.CPL.sem = true ∧ b.closed = false :=
  open_of_replay [.rule 0 0 none none] 1 (by decide +kernel)

theorem K_open_witness :
    ∃ t b, Deriv Gen.K.sem (trunk Gen.K.sem argPoss) t ∧ b ∈ t ∧ Gen.K.sem.saturatedB b = true ∧
      b.groundB Gen.K.sem = true ∧ b.closed = false :=
  open_of_replay [.rule 0 0 none (some 1), .rule 0 1 none (some 2)] 0 (by decide +kernel)

/-- the instance of C02 this yields: an interpretation of CPL that is a countermodel of `A ∨ B ⊢ A` -/
theorem CPL_disj_countermodel :
    ∃ (M : Struct) (e : Env M.D) (w0 : M.W), M.Interp Gen.CPL.sem ∧ Countermodel Gen.CPL.sem M e w0 argDisj :=
  let ⟨t, b, hd, hb, hs, hg, _⟩ := CPL_open_witness
  let ⟨hM, hc⟩ := Gen.ObHintikka.CPL_c02_countermodel argDisj t hd b hb hs hg
  ⟨_, _, _, hM, hc⟩

/-- … and a Kripke model of K refuting `◇A ⊢ □A` -/
theorem K_poss_countermodel :
    ∃ (M : Struct) (e : Env M.D) (w0 : M.W), M.Interp Gen.K.sem ∧ Countermodel Gen.K.sem M e w0 argPoss :=
  let ⟨t, b, hd, hb, hs, hg, _⟩ := K_open_witness
  let ⟨hM, hc⟩ := Gen.ObHintikka.K_c02_countermodel argPoss t hd b hb hs hg
  ⟨_, _, _, hM, hc⟩

/-- soundness and the countermodel theorem are jointly consistent on these instances: the refuted
    argument has NO closed tableau (C01 applied to the C02 countermodel) -/
theorem CPL_disj_never_closes (t : Tableau)
    (hd : Deriv Gen.CPL.sem.soundPart (trunk Gen.CPL.sem argDisj) t) : t.allClosed = false := by
  cases hc : t.allClosed with
  | false => rfl
  | true =>
    obtain ⟨M, e, w0, hM, hcm⟩ := CPL_disj_countermodel
    exact absurd hcm (Gen.Obl.CPL.c01_valid_sound argDisj t hd hc M hM e w0)

end Ptx.Props.Witness
