/-
  C13 — Parsers accept only closed well-formed sentences and fail only with ParseError.

  Model: Ptx/Lang/ParseCtx.lean, ParsePolish.lean, ParseStandard.lean (every partial Python
  operation an explicit `crash`).  The model mirrors lang/parsing.py WITH the candidate fix
  tools/fix_C13_1.diff when `cfg.guardEntry = true` and the code as it stands when
  `cfg.guardEntry = false`; `C13_only_parse_error_*` is about the former,
  `C13_unguarded_*` prove that the statement is FALSE for the latter.

  Hypotheses on the store are what every Python `Predicates` object satisfies (constructible
  predicates, no two with the same symbol) plus the precondition "not a `Predicates.Frozen` when
  auto_preds is on".
-/
import Ptx.Proofs.LangParseSafe
import Ptx.Proofs.LangParseWitness
import Ptx.Proofs.LangParseWF
import Ptx.Gen.ObSymbols
namespace Ptx.Props.C13
open Ptx Ptx.Sym Ptx.Parse

/-- the generated configuration of `Parser('polish')` / `Parser('standard')` -/
def polishCfg : Cfg :=
  { table := Gen.Symbols.parse_polish_default, maxi := Gen.Symbols.maxi,
    autoPreds := Gen.Symbols.polishAutoPreds }
def standardCfg : Cfg :=
  { table := Gen.Symbols.parse_standard_default, maxi := Gen.Symbols.maxi,
    autoPreds := Gen.Symbols.standardAutoPreds, dropParens := Gen.Symbols.standardDropParens }

/-! ### only ParseError (with the entry guard of fix_C13_1) -/

/-- No `crash` is reachable from `PolishParser.__call__`, for ANY table, string, store contents,
    options, digit limit and stack depth (`fuel`). -/
theorem C13_only_parse_error_polish (cfg : Cfg) (hg : cfg.guardEntry = true) (fuel : Nat)
    (store : Store) (input : List Chr)
    (hok : store.OK cfg.maxi) (hcons : store.Consistent)
    (hthaw : cfg.autoPreds = true → store.frozen = false) :
    ∀ k st', parsePolish cfg fuel store input ≠ .crash k st' := by
  intro k st' h
  have := parsePolish_spec cfg fuel store input ⟨hok, hcons, hthaw⟩
  rw [h] at this
  have := this.2.2
  rw [hg] at this
  cases this

example : parsePolish polishCfg 100 ∅ [75, 97, 98] = .ok (.op2 .conj (.atom 0 0) (.atom 1 0)) ∅ := by
  decide +kernel

/-- The same for `StandardParser.__call__` (both attempts of the drop_parens retry), for any
    table that has parenthesis characters. -/
theorem C13_only_parse_error_standard (cfg : Cfg) (hg : cfg.guardEntry = true) (fuel : Nat)
    (store : Store) (input : List Chr)
    (hok : store.OK cfg.maxi) (hcons : store.Consistent)
    (hthaw : cfg.autoPreds = true → store.frozen = false)
    (hpar : cfg.dropParens = true →
      (cfg.table.charOf? .parenOpen).isSome = true ∧ (cfg.table.charOf? .parenClose).isSome = true) :
    ∀ k st', parseStandard cfg fuel store input ≠ .crash k st' := by
  intro k st' h
  have := parseStandard_spec cfg fuel store input ⟨hok, hcons, hthaw⟩ hpar
  rw [h] at this
  have := this.2.2
  rw [hg] at this
  cases this

example : parseStandard standardCfg 100 ∅ [65, 32, 38, 32, 66]
    = .ok (.op2 .conj (.atom 0 0) (.atom 1 0)) ∅ := by decide +kernel

/-- instance for the generated standard table: it has both parenthesis characters -/
theorem C13_only_parse_error_standard_gen (fuel : Nat) (input : List Chr) (dig : Nat) :
    ∀ k st', parseStandard { standardCfg with intMaxDigits := dig } fuel ∅ input ≠ .crash k st' := by
  apply C13_only_parse_error_standard _ rfl
  · intro p hp; cases hp
  · intro p hp; cases hp
  · intro _; rfl
  · intro _; exact Gen.ObSymbols.parse_standard_default_parens

example : parseStandard standardCfg 100 ∅ [40, 65] = .perr ∅ := by decide +kernel

/-! ### what is returned is well-formed -/

/-- Whatever a parser returns is closed, non-vacuous, binds no variable twice along a path,
    applies every predicate to exactly its arity of parameters, has indexes in range; and the
    store it leaves behind — also after a failing parse — is again a consistent store. -/
theorem C13_output_wf_polish (cfg : Cfg) (fuel : Nat) (store : Store) (input : List Chr)
    (hok : store.OK cfg.maxi) (hcons : store.Consistent)
    (hthaw : cfg.autoPreds = true → store.frozen = false) (s : Sent) (st' : Store)
    (h : parsePolish cfg fuel store input = .ok s st') :
    closedIn [] s = true ∧ nonVacuous s = true ∧ noRebind [] s = true ∧ arityOK s = true ∧
      indexOK cfg.maxi s = true ∧ st'.OK cfg.maxi ∧ st'.Consistent := by
  have := parsePolish_spec cfg fuel store input ⟨hok, hcons, hthaw⟩
  rw [h] at this
  obtain ⟨hwf, hinv⟩ := this
  have := (wfIn_iff cfg.maxi s []).1 hwf
  exact ⟨this.1, this.2.1, this.2.2.1, this.2.2.2.1, this.2.2.2.2, hinv.ok, hinv.cons⟩

example : parsePolish polishCfg 100 ∅ [86, 120, 70, 120]
    = .ok (.quant .univ 0 0 (.pred ⟨0, 0, 1⟩ [.var 0 0])) ⟨[⟨0, 0, 1⟩], false⟩ := by decide +kernel

theorem C13_output_wf_standard (cfg : Cfg) (fuel : Nat) (store : Store) (input : List Chr)
    (hok : store.OK cfg.maxi) (hcons : store.Consistent)
    (hthaw : cfg.autoPreds = true → store.frozen = false)
    (hpar : cfg.dropParens = true →
      (cfg.table.charOf? .parenOpen).isSome = true ∧ (cfg.table.charOf? .parenClose).isSome = true)
    (s : Sent) (st' : Store) (h : parseStandard cfg fuel store input = .ok s st') :
    closedIn [] s = true ∧ nonVacuous s = true ∧ noRebind [] s = true ∧ arityOK s = true ∧
      indexOK cfg.maxi s = true ∧ st'.OK cfg.maxi ∧ st'.Consistent := by
  have := parseStandard_spec cfg fuel store input ⟨hok, hcons, hthaw⟩ hpar
  rw [h] at this
  obtain ⟨hwf, hinv⟩ := this
  have := (wfIn_iff cfg.maxi s []).1 hwf
  exact ⟨this.1, this.2.1, this.2.2.1, this.2.2.2.1, this.2.2.2.2, hinv.ok, hinv.cons⟩

example : parseStandard standardCfg 100 ∅ [97, 70, 98]
    = .ok (.pred ⟨0, 0, 2⟩ [.const 0 0, .const 1 0]) ⟨[⟨0, 0, 2⟩], false⟩ := by decide +kernel

/-- a FAILING parse leaves a consistent store too (it may have gained auto-declared predicates) -/
theorem C13_store_after_failure (cfg : Cfg) (fuel : Nat) (store : Store) (input : List Chr)
    (hok : store.OK cfg.maxi) (hcons : store.Consistent)
    (hthaw : cfg.autoPreds = true → store.frozen = false) (st' : Store)
    (h : parsePolish cfg fuel store input = .perr st') : st'.OK cfg.maxi ∧ st'.Consistent := by
  have := parsePolish_spec cfg fuel store input ⟨hok, hcons, hthaw⟩
  rw [h] at this
  exact ⟨this.ok, this.cons⟩

example : parsePolish polishCfg 100 ∅ [70, 109, 110, 41] = .perr ⟨[⟨0, 0, 2⟩], false⟩ := by
  decide +kernel

/-! ### termination, history independence

  Termination: `readPolish` / `readStd` are defined by STRUCTURAL recursion on `fuel` (the number
  of nested `_read` activations the stack allows), every loop by structural recursion on the input
  (`chomp`, `digitsLoop`, `scanParen`) or on a fuel equal to the unread length
  (`readParamsAuto`, whose exhaustion is the crash kind `fuel`, excluded by
  `C13_only_parse_error_*`).  So the functions are total by construction: that Lean accepted the
  definitions is the termination theorem.

  History independence: a parser call is a FUNCTION of (configuration, fuel, store, string); the
  only state one call hands to the next is the store.  `C13_history_free` says that about call
  sequences; that the real parser object has no other memory (bound-variable set, position,
  lexical-item cache) is what the `sequences/*` correspondence streams check. -/

/-- the store before the `i`-th call of a sequence -/
def storeAfterSeq (parse : Store → List Chr → Outcome) : Store → List (List Chr) → Store
  | st, [] => st
  | st, x :: xs => storeAfterSeq parse (parse st x).store xs

theorem C13_history_free (parse : Store → List Chr → Outcome) (xs : List (List Chr)) :
    ∀ (st : Store) (x : List Chr),
      parseSeq parse st (xs ++ [x]) = parseSeq parse st xs ++ [parse (storeAfterSeq parse st xs) x] := by
  induction xs with
  | nil => intro st x; simp [parseSeq, storeAfterSeq]
  | cons y ys ih => intro st x; simp [parseSeq, storeAfterSeq, ih]

example : (parseSeq (parsePolish polishCfg 100) ∅ [[70, 109, 110, 41], [70, 109]]).map
    (fun o => match o with | .ok _ _ => 0 | .perr _ => 1 | .crash _ _ => 2) = [1, 1] := by decide +kernel

/-! ### the statement is FALSE for the code without the entry guard -/

/-- `'a' + '1' * (limit+1)`: ValueError from `int()` leaves `PolishParser.__call__`, for every
    positive digit limit (CPython: 4300) and every stack depth ≥ 1. -/
theorem C13_unguarded_digit_run_crashes (limit fuel : Nat) (store : Store) (hl : limit ≠ 0) :
    parsePolish { polishCfg with guardEntry := false, intMaxDigits := limit } (fuel + 1) store
      (97 :: List.replicate (limit + 1) 49) = .crash .value store :=
  polish_digit_run_crashes { polishCfg with guardEntry := false, intMaxDigits := limit } 97 49 0 1 store fuel
    (by show Gen.Symbols.parse_polish_default.lookup 97 = some (.atom 0); decide +kernel)
    (by show Gen.Symbols.parse_polish_default.lookup 49 = some (.digit 1); decide +kernel) hl rfl

example : parsePolish { polishCfg with guardEntry := false, intMaxDigits := 3 } 1 ∅ [97, 49, 49, 49, 49]
    = .crash .value ∅ := by decide +kernel

/-- `'N' * depth` with exactly `depth` frames of stack: RecursionError leaves the parser. -/
theorem C13_unguarded_nesting_crashes (fuel : Nat) (store : Store) :
    parsePolish { polishCfg with guardEntry := false } fuel store (List.replicate fuel 78)
      = .crash .recursion store :=
  polish_nesting_crashes { polishCfg with guardEntry := false } 78 .neg store fuel (by decide +kernel) rfl

example : parsePolish { polishCfg with guardEntry := false } 2 ∅ [78, 78] = .crash .recursion ∅ := by
  decide +kernel

/-- hence `C13_only_parse_error` does NOT hold of the unguarded parser -/
theorem C13_only_parse_error_fails_unguarded :
    ¬ (∀ (fuel : Nat) (input : List Chr) (k : Kind) (st' : Store),
        parsePolish { polishCfg with guardEntry := false } fuel ∅ input ≠ .crash k st') := by
  intro h
  exact h 1 (97 :: List.replicate (4300 + 1) 49) .value ∅
    (C13_unguarded_digit_run_crashes 4300 0 ∅ (by decide))

/-- and with the guard the same inputs never crash: the outcome is a ParseError or a sentence -/
theorem C13_guarded_digit_run (limit fuel : Nat) (store : Store)
    (hok : store.OK polishCfg.maxi) (hcons : store.Consistent) (hf : store.frozen = false) :
    ∃ st', parsePolish { polishCfg with intMaxDigits := limit } fuel store
      (97 :: List.replicate (limit + 1) 49) = .perr st' ∨
      ∃ s, parsePolish { polishCfg with intMaxDigits := limit } fuel store
        (97 :: List.replicate (limit + 1) 49) = .ok s st' := by
  have h := C13_only_parse_error_polish { polishCfg with intMaxDigits := limit } rfl fuel store
    (97 :: List.replicate (limit + 1) 49) hok hcons (fun _ => hf)
  cases hc : parsePolish { polishCfg with intMaxDigits := limit } fuel store (97 :: List.replicate (limit + 1) 49) with
  | ok s st' => exact ⟨st', Or.inr ⟨s, rfl⟩⟩
  | perr st' => exact ⟨st', Or.inl rfl⟩
  | crash k st' => exact absurd hc (h k st')

example : parsePolish { polishCfg with intMaxDigits := 3 } 5 ∅ [97, 49, 49, 49, 49] = .perr ∅ := by
  decide +kernel

end Ptx.Props.C13
