/-
  C17 — Limits and lifecycle: three-valued verdicts, bounded work, locked state.

  The theorems are about the state machine of Ptx/Tab/Lifecycle.lean.  `Reachable s` means: `s` is
  the state after some finite sequence of public calls (step / finish / build / the setters /
  build_trunk / branch / rule-set mutations / rules.lock) on a freshly constructed tableau with
  arbitrary options, every call with arbitrary environment inputs (clock readings, answers of
  next(), open-branch status).  Nothing is assumed about those inputs except in `big_limit_noop`,
  where "the chooser is held fixed" is the hypothesis that next() answers as a function of the
  history length with natural length `n`.
-/
import Ptx.Proofs.TabLife
namespace Ptx.Props.C17
open Ptx.Tab.Life

/-! ## 1. premature ⇒ no verdict; what a limit stop looks like -/

/-- A finished-but-premature tableau reports neither valid nor invalid (any state at all). -/
theorem premature_no_verdict (s : State) (hf : s.finished = true) (hp : s.premature = true) :
    s.valid = none ∧ s.invalid = none := by
  simp [State.valid, State.invalid, State.completed, hf, hp]

example : ∃ s, Reachable s ∧ s.finished = true ∧ s.premature = true ∧ s.arg.isSome = true :=
  ⟨run (init {}) [.setLogic 0, .setArgument 0, .finish 0], ⟨{}, _, rfl⟩, by decide⟩

/-- A step taken when the step limit is met: next() is not consulted, the tableau finishes
    premature, without verdict, with its tree built, and step() returns None. -/
theorem step_limit_stops (s : State) (i : StepIn) (hr : Reachable s) (hf : s.finished = false)
    (hc : clockExceeded s i.clk = false) (hx : maxStepsExceeded s = true) :
    let r := stepCore s i
    r.2 = .none ∧ r.1.finished = true ∧ r.1.premature = true ∧ r.1.timedOut = false ∧
    r.1.valid = none ∧ r.1.invalid = none ∧ r.1.treeBuilt = true ∧ r.1.histLen = s.histLen := by
  have hi := hr.inv
  have hp : s.premature = true := by
    cases h : s.premature
    · have := hi.prem h; simp_all
    · rfl
  have ht : s.timedOut = false := by
    cases h : s.timedOut
    · rfl
    · have := hi.tout h; simp_all
  simp [stepCore, hf, hc, hx, finishCore, wantModels, State.invalidTruthy, State.invalid, State.valid,
    State.completed, hp, ht]

example : let s := run (init { maxSteps := some 1 })
              [.setLogic 0, .setArgument 0, .step ⟨0, fun _ => true, true, 0⟩]
    s.finished = false ∧ maxStepsExceeded s = true := by decide

/-! ## 2. bounded work -/

/-- With a positive step limit `m`, after every public call of every call sequence the number of
    recorded steps is at most `m`. -/
theorem steps_le_limit (o : Opts) (m : Int) (ho : o.maxSteps = some m) (hm : 0 < m)
    (ops : List Op) : ∀ s ∈ trace (init o) ops, (s.histLen : Int) ≤ m := by
  intro s hs
  have hi := inv_trace (inv_init o) ops s hs
  apply hi.limit m _ hm
  have : ∀ (s0 : State) (ops : List Op), ∀ s ∈ trace s0 ops, s.opts = s0.opts := by
    intro s0 ops
    induction ops generalizing s0 with
    | nil => simp [trace]
    | cons op ops ih =>
      intro s hs
      simp only [trace, List.mem_cons] at hs
      rcases hs with rfl | hs
      · exact exec_opts _ _
      · rw [ih _ s hs, exec_opts]
  rw [this _ _ s hs]; exact ho

/-- the same for the final state -/
theorem steps_le_limit_run (o : Opts) (m : Int) (ho : o.maxSteps = some m) (hm : 0 < m)
    (ops : List Op) : ((run (init o) ops).histLen : Int) ≤ m := by
  have hi := inv_run (inv_init o) ops
  exact hi.limit m (by rw [run_opts]; exact ho) hm

-- the bound is reached, and a further build() does not pass it
example : (run (init { maxSteps := some 2 })
    [.setLogic 0, .setArgument 0, .build (List.replicate 5 ⟨0, fun _ => true, true, 0⟩)]).histLen = 2 := by
  decide

/-! ## 3. a limit above the natural length changes nothing -/

/-- **A limit larger than the proof's natural length changes nothing.**  Let the proof search have
    natural length `n` (the chooser is held fixed: next() yields an entry exactly while fewer than
    `n` steps are recorded).  Take any options `o` without an effective step limit (`None`, 0 or
    negative) and the same options with the limit `m > n`.  Then for every sequence of public calls
    the two runs return the same outputs call by call and end in the same state, except for the
    `max_steps` option itself and the HAS_STEP_LIMIT bit. -/
theorem big_limit_noop (o : Opts) (n : Nat) (m : Int) (hm : (n : Int) < m)
    (hu : positive o.maxSteps = false) (ops : List Op)
    (hops : ∀ op ∈ ops, UsesChooser (natural n) op) :
    eraseLimit (run (init { o with maxSteps := some m }) ops) = eraseLimit (run (init o) ops) ∧
    outs (init { o with maxSteps := some m }) ops = outs (init o) ops := by
  have hM : Safe n (init { o with maxSteps := some m }) := by
    refine ⟨by simp [init], ?_⟩
    intro _ m' hm'
    simp [init] at hm'
    omega
  have hU : Safe n (init o) := by
    refine ⟨by simp [init], ?_⟩
    intro hl
    simp [init, hu] at hl
  have e : eraseLimit (init { o with maxSteps := some m }) = eraseLimit (init o) := by
    simp [eraseLimit, init]
  have a := run_erase hM ops hops
  have b := run_erase hU ops hops
  rw [a.1, b.1, a.2, b.2, e]
  exact ⟨rfl, rfl⟩

-- natural length 3, limit 4 vs no limit: same outputs, the proof completes with 3 steps; limit 3 differs
example :
    let ops : List Op := [.setLogic 0, .setArgument 0, .build (List.replicate 9 ⟨0, natural 3, true, 0⟩)]
    (run (init { maxSteps := some 4 }) ops).completed = true ∧
    (run (init { maxSteps := some 4 }) ops).histLen = 3 ∧
    (run (init {}) ops).completed = true ∧
    (run (init { maxSteps := some 3 }) ops).completed = false := by decide

/-! ## 4. exceeding the time limit -/

/-- The clock is past the limit at the check at the start of step(): ProofTimeoutError is raised,
    and the tableau is left finished, TIMED_OUT, premature, without verdict, without tree, with no
    step recorded. -/
theorem timeout_finishes (s : State) (i : StepIn) (t : Int) (hr : Reachable s)
    (hf : s.finished = false) (hl : s.hasTimeLimit = true) (ht : s.opts.timeout = some t)
    (hc : t < (i.clk : Int)) :
    let r := stepCore s i
    r.2 = .raised .timeout ∧ r.1.finished = true ∧ r.1.timedOut = true ∧ r.1.treeBuilt = false ∧
    r.1.premature = true ∧ r.1.valid = none ∧ r.1.invalid = none ∧ r.1.histLen = s.histLen := by
  have hi := hr.inv
  have hp : s.premature = true := by
    cases h : s.premature
    · have := hi.prem h; simp_all
    · rfl
  have hnt : s.treeBuilt = false := by
    cases h : s.treeBuilt
    · rfl
    · have := (hi.tree1 h).1; simp_all
  have hx : clockExceeded s i.clk = true := by simp [clockExceeded, hl, ht, hc]
  simp [stepCore, hf, hx, finishCore, wantModels, State.invalidTruthy, State.invalid, State.valid,
    State.completed, hp, hnt]

/-- The same through build(): if the first check of the loop sees the clock past the limit. -/
theorem timeout_finishes_build (s : State) (i : StepIn) (is : List StepIn) (t : Int) (hr : Reachable s)
    (hf : s.finished = false) (hl : s.hasTimeLimit = true) (ht : s.opts.timeout = some t)
    (hc : t < (i.clk : Int)) :
    let r := exec s (.build (i :: is))
    r.2 = .raised .timeout ∧ r.1.finished = true ∧ r.1.timedOut = true ∧ r.1.treeBuilt = false ∧
    r.1.premature = true ∧ r.1.valid = none ∧ r.1.invalid = none := by
  have h := timeout_finishes s i t hr hf hl ht hc
  simp only at h
  simp only [exec, buildLoop]
  rcases hs : stepCore s i with ⟨s', r⟩
  rw [hs] at h
  obtain ⟨h1, h2, h3, h4, h5, h6, h7, _⟩ := h
  simp only at h1
  subst h1
  exact ⟨rfl, h2, h3, h4, h5, h6, h7⟩

/-- Whatever public call raises ProofTimeoutError, from whatever reachable state: afterwards the
    tableau is finished and TIMED_OUT and its tree has not been built. -/
theorem timeout_raised_finished (s : State) (op : Op) (hr : Reachable s)
    (h : (exec s op).2 = .raised .timeout) :
    (exec s op).1.finished = true ∧ (exec s op).1.timedOut = true ∧ (exec s op).1.treeBuilt = false := by
  have hi := hr.inv
  cases op with
  | step i =>
    simp only [exec] at h ⊢
    apply stepCore_timeout hi i
    cases hs : (stepCore s i).2 <;> simp_all [StepRes.out]
  | finish k =>
    simp only [exec] at h ⊢
    apply finishCore_timeout (fun hf => hi.noTree hf) k
    cases hs : (finishCore s k).2 <;> simp_all
  | build is => exact buildLoop_timeout hi is h
  | buildTrunk =>
    simp only [exec, buildTrunkCore] at h
    (repeat' split at h) <;> simp at h
  | setArgument a =>
    simp only [exec, buildTrunkCore] at h
    (repeat' split at h) <;> simp at h
  | setLogic l =>
    simp only [exec, buildTrunkCore] at h
    (repeat' split at h) <;> simp at h
  | addBranch => simp [exec] at h
  | rulesMutate => simp only [exec] at h; split at h <;> simp at h
  | rulesLock => simp only [exec] at h; split at h <;> simp at h

/-- The other place where the limit is checked: while finish() builds models (option
    `is_build_models`, argument invalid).  The proof search was complete, so the tableau is
    *completed* — not premature — and reports invalid; the error is raised at the end of finish(),
    TIMED_OUT is set, the tree is not built and no models are stored.  (This is the one way to
    reach TIMED_OUT together with a verdict; see `timed_out_verdict_only_via_models`.) -/
theorem timeout_in_models (s : State) (i : StepIn) (t : Int) (hr : Reachable s)
    (hf : s.finished = false) (hl : s.hasTimeLimit = true) (ht : s.opts.timeout = some t)
    (hc : ¬ t < (i.clk : Int)) (hx : maxStepsExceeded s = false)
    (hn : (s.hasOpen && i.next s.histLen) = false)
    (ho : s.hasOpen = true) (ha : s.arg.isSome = true) (hlg : s.logic.isSome = true)
    (hm : s.opts.isBuildModels = true) (hmc : t < (i.mclk : Int)) :
    let r := stepCore s i
    r.2 = .raised .timeout ∧ r.1.finished = true ∧ r.1.timedOut = true ∧ r.1.treeBuilt = false ∧
    r.1.modelsBuilt = s.modelsBuilt ∧ r.1.completed = true ∧ r.1.invalid = some true ∧
    r.1.valid = some false := by
  have hi := hr.inv
  have hnt := hi.noTree hf
  have hto := hi.notTimedOut hf
  have hcx : clockExceeded s i.clk = false := by simp [clockExceeded, hl, ht, hc]
  have he : (!maxStepsExceeded s && (s.hasOpen && i.next s.histLen)) = false := by simp [hn]
  rw [stepCore_eq_finish i hf hcx he]
  simp [finishCore, hf, hx, clockExceeded, hl, ht, hmc, wantModels, State.invalidTruthy, State.invalid,
    State.valid, State.completed, ho, ha, hlg, hm, hnt, hto]

example :
    let s := run (init { timeout := some 5, isBuildModels := true }) [.setLogic 0, .setArgument 0]
    let r := stepCore s ⟨0, fun _ => false, true, 9⟩
    r.2 = .raised .timeout ∧ r.1.completed = true ∧ r.1.invalid = some true ∧ r.1.timedOut = true := by
  decide

/-- In a reachable state, TIMED_OUT together with "not premature" happens only with models on. -/
theorem timed_out_verdict_only_via_models (o : Opts) (ops : List Op) (hm : o.isBuildModels = false) :
    let s := run (init o) ops
    s.timedOut = true → s.premature = true ∧ s.valid = none ∧ s.invalid = none := by
  intro s
  -- invariant: timedOut → premature, when models are never built
  have key : ∀ (s : State), s.opts.isBuildModels = false → Inv s → (s.timedOut = true → s.premature = true) →
      ∀ op, ((exec s op).1.timedOut = true → (exec s op).1.premature = true) := by
    intro s hm hi hk op
    have fin : ∀ (s : State) (k : Nat), s.opts.isBuildModels = false →
        (s.timedOut = true → s.premature = true) →
        ((finishCore s k).1.timedOut = true → (finishCore s k).1.premature = true) := by
      intro s k hm hk
      unfold finishCore
      split
      · exact hk
      · simp [wantModels, hm]; exact hk
    have stp : ∀ (s : State) (i : StepIn), s.opts.isBuildModels = false → Inv s →
        (s.timedOut = true → s.premature = true) →
        ((stepCore s i).1.timedOut = true → (stepCore s i).1.premature = true) := by
      intro s i hm hi hk
      cases hf : s.finished
      case true => rw [stepCore_eq_finished i hf]; exact hk
      cases hc : clockExceeded s i.clk
      case true =>
        rw [stepCore_eq_clock i hf hc]
        exact fin _ _ hm (fun _ => hi.isPremature hf)
      cases he : (!maxStepsExceeded s && (s.hasOpen && i.next s.histLen))
      case true => rw [stepCore_eq_entry i hf hc he]; exact hk
      rw [stepCore_eq_finish i hf hc he]
      refine fin { s with premature := if maxStepsExceeded s then s.premature else false } i.mclk hm ?_
      intro h
      have := hi.notTimedOut hf
      simp_all
    cases op with
    | step i => exact stp s i hm hi hk
    | finish k => exact fin s k hm hk
    | build is =>
      simp only [exec]
      induction is generalizing s with
      | nil => unfold buildLoop; split <;> exact hk
      | cons i is ih =>
        unfold buildLoop
        have h1 := inv_stepCore hi i
        have h2 := stp s i hm hi hk
        have h3 := stepCore_opts s i
        rcases hs : stepCore s i with ⟨s', r⟩
        rw [hs] at h1 h2 h3
        cases r with
        | entry => exact ih s' (by rw [h3]; exact hm) h1 h2
        | none => exact h2
        | raised e => exact h2
    | buildTrunk => simp only [exec, buildTrunkCore]; (repeat' split) <;> exact hk
    | setArgument a => simp only [exec, buildTrunkCore]; (repeat' split) <;> exact hk
    | setLogic l => simp only [exec, buildTrunkCore]; (repeat' split) <;> exact hk
    | addBranch => exact hk
    | rulesMutate => simp only [exec]; split <;> exact hk
    | rulesLock => simp only [exec]; split <;> exact hk
  have main : ∀ (ops : List Op) (s : State), s.opts.isBuildModels = false → Inv s →
      (s.timedOut = true → s.premature = true) →
      ((run s ops).timedOut = true → (run s ops).premature = true) := by
    intro ops
    induction ops with
    | nil => intro s _ _ hk; exact hk
    | cons op ops ih =>
      intro s hm hi hk
      exact ih _ (by rw [exec_opts]; exact hm) (inv_exec hi op) (key s hm hi hk op)
  intro hto
  have hp := main ops (init o) hm (inv_init o) (by simp [init]) hto
  have hfin := (inv_run (inv_init o) ops).tout hto
  exact ⟨hp, premature_no_verdict _ hfin hp⟩

/-! ## 5. finished is absorbing -/

/-- Stepping, finishing or building a finished tableau changes nothing (and raises nothing). -/
theorem finished_absorbing (s : State) (hf : s.finished = true) (i : StepIn) (k : Nat)
    (is : List StepIn) :
    exec s (.step i) = (s, .none) ∧ exec s (.finish k) = (s, .self) ∧ exec s (.build is) = (s, .self) := by
  refine ⟨by simp [exec, stepCore, hf, StepRes.out], by simp [exec, finishCore, hf], ?_⟩
  cases is with
  | nil => simp [exec, buildLoop, hf]
  | cons i is => simp [exec, buildLoop, stepCore, hf]

/-- … for any number of such calls in any order. -/
theorem finished_absorbing_run (s : State) (hf : s.finished = true) (ops : List Op)
    (hops : ∀ op ∈ ops, (∃ i, op = .step i) ∨ (∃ k, op = .finish k) ∨ (∃ is, op = .build is)) :
    run s ops = s ∧ ∀ o ∈ outs s ops, o = .none ∨ o = .self := by
  induction ops with
  | nil => simp [run, outs]
  | cons op ops ih =>
    have ih := ih (fun o ho => hops o (by simp [ho]))
    have : exec s op = (s, .none) ∨ exec s op = (s, .self) := by
      rcases hops op (by simp) with ⟨i, rfl⟩ | ⟨k, rfl⟩ | ⟨is, rfl⟩
      · exact .inl (finished_absorbing s hf i 0 []).1
      · exact .inr (finished_absorbing s hf ⟨0, fun _ => false, false, 0⟩ k []).2.1
      · exact .inr (finished_absorbing s hf ⟨0, fun _ => false, false, 0⟩ 0 is).2.2
    rcases this with h | h <;> simp [run, outs, h, ih.1] <;> exact ih.2

/-- every way of finishing is reachable and then absorbing -/
example : (run (init {}) [.setLogic 0, .setArgument 0, .build [⟨0, natural 0, true, 0⟩]]).finished = true := by
  decide

/-! ## 6. locked once started -/

/-- Once STARTED, setting the argument or the logic, building the trunk again, or changing the
    rule set raises IllegalStateError and leaves the whole state unchanged. -/
theorem locked_after_start (s : State) (hr : Reachable s) (hs : s.started = true) (a l : Nat) :
    exec s (.setArgument a) = (s, .raised .illegalState) ∧
    exec s (.setLogic l) = (s, .raised .illegalState) ∧
    exec s .buildTrunk = (s, .raised .illegalState) ∧
    exec s .rulesMutate = (s, .raised .illegalState) ∧
    exec s .rulesLock = (s, .raised .illegalState) := by
  have hi := hr.inv
  have hl : s.rulesLocked = true := hi.lock (hi.startB hs)
  refine ⟨by simp [exec, hs], by simp [exec, hs], ?_, by simp [exec, hl], by simp [exec, hl]⟩
  simp only [exec, buildTrunkCore, hs]
  (repeat' split) <;> first | rfl | simp_all

/-- Consequently the argument, the logic and the rule set of a started tableau never change
    again, whatever is called. -/
theorem frozen_after_start (s : State) (hr : Reachable s) (hs : s.started = true) (ops : List Op) :
    (run s ops).arg = s.arg ∧ (run s ops).logic = s.logic ∧ (run s ops).rules = s.rules ∧
    (run s ops).started = true := by
  induction ops generalizing s with
  | nil => exact ⟨rfl, rfl, rfl, hs⟩
  | cons op ops ih =>
    have hl := locked_after_start s hr hs
    have step : (exec s op).1.arg = s.arg ∧ (exec s op).1.logic = s.logic ∧
        (exec s op).1.rules = s.rules ∧ (exec s op).1.started = true := by
      cases op with
      | step i =>
        simp only [exec]
        cases hf : s.finished
        case true => rw [stepCore_eq_finished i hf]; exact ⟨rfl, rfl, rfl, hs⟩
        cases hc : clockExceeded s i.clk
        case true => rw [stepCore_eq_clock i hf hc]; simp [finishCore, hf, hs]
        cases he : (!maxStepsExceeded s && (s.hasOpen && i.next s.histLen))
        case true => rw [stepCore_eq_entry i hf hc he]; exact ⟨rfl, rfl, rfl, rfl⟩
        rw [stepCore_eq_finish i hf hc he]; simp [finishCore, hf, hs]
      | finish k => simp only [exec, finishCore]; split <;> simp [hs]
      | build is =>
        simp only [exec]
        have : ∀ (is : List StepIn) (t : State), t.started = true →
            (buildLoop t is).1.arg = t.arg ∧ (buildLoop t is).1.logic = t.logic ∧
            (buildLoop t is).1.rules = t.rules ∧ (buildLoop t is).1.started = true := by
          intro is
          induction is with
          | nil => intro t ht; unfold buildLoop; split <;> exact ⟨rfl, rfl, rfl, ht⟩
          | cons i is ih =>
            intro t ht
            have h1 : (stepCore t i).1.arg = t.arg ∧ (stepCore t i).1.logic = t.logic ∧
                (stepCore t i).1.rules = t.rules ∧ (stepCore t i).1.started = true := by
              cases hf : t.finished
              case true => rw [stepCore_eq_finished i hf]; exact ⟨rfl, rfl, rfl, ht⟩
              cases hc : clockExceeded t i.clk
              case true => rw [stepCore_eq_clock i hf hc]; simp [finishCore, hf, ht]
              cases he : (!maxStepsExceeded t && (t.hasOpen && i.next t.histLen))
              case true => rw [stepCore_eq_entry i hf hc he]; exact ⟨rfl, rfl, rfl, rfl⟩
              rw [stepCore_eq_finish i hf hc he]; simp [finishCore, hf, ht]
            unfold buildLoop
            rcases hs : stepCore t i with ⟨t', r⟩
            rw [hs] at h1
            cases r with
            | entry =>
              have := ih t' h1.2.2.2
              simp only at h1 ⊢
              exact ⟨this.1.trans h1.1, this.2.1.trans h1.2.1, this.2.2.1.trans h1.2.2.1, this.2.2.2⟩
            | none => exact h1
            | raised e => exact h1
        exact this is s hs
      | setArgument a => rw [hl a 0 |>.1]; exact ⟨rfl, rfl, rfl, hs⟩
      | setLogic l => rw [hl 0 l |>.2.1]; exact ⟨rfl, rfl, rfl, hs⟩
      | buildTrunk => rw [hl 0 0 |>.2.2.1]; exact ⟨rfl, rfl, rfl, hs⟩
      | addBranch => exact ⟨rfl, rfl, rfl, hs⟩
      | rulesMutate => rw [hl 0 0 |>.2.2.2.1]; exact ⟨rfl, rfl, rfl, hs⟩
      | rulesLock => rw [hl 0 0 |>.2.2.2.2]; exact ⟨rfl, rfl, rfl, hs⟩
    have := ih (exec s op).1 (hr.exec op) step.2.2.2
    simp only [run]
    exact ⟨this.1.trans step.1, this.2.1.trans step.2.1, this.2.2.1.trans step.2.2.1, this.2.2.2⟩

-- started states exist (after the trunk is built), and before that the setters do work
example : (run (init {}) [.setLogic 1, .setArgument 2]).started = true ∧
    (exec (init {}) (.setArgument 2)).2 = .self ∧
    (exec (run (init {}) [.setLogic 1, .setArgument 2]) (.setArgument 3)).2 = .raised .illegalState := by
  decide

/-! ## 7. no argument, no verdict -/

/-- A tableau without an argument reports neither valid nor invalid (any state at all). -/
theorem no_argument_no_verdict (s : State) (ha : s.arg = none) : s.valid = none ∧ s.invalid = none := by
  simp [State.valid, State.invalid, ha]

/-- … and if no call sets an argument, that is so after every call of the sequence. -/
theorem no_argument_no_verdict_run (o : Opts) (ops : List Op) (hops : ∀ a, Op.setArgument a ∉ ops) :
    ∀ s ∈ trace (init o) ops, s.valid = none ∧ s.invalid = none := by
  have key : ∀ (s : State) (op : Op), s.arg = none → (∀ a, op ≠ .setArgument a) → (exec s op).1.arg = none := by
    intro s op ha hop
    cases op with
    | step i =>
      simp only [exec]
      cases hf : s.finished
      case true => rw [stepCore_eq_finished i hf]; exact ha
      cases hc : clockExceeded s i.clk
      case true => rw [stepCore_eq_clock i hf hc]; simp [finishCore, hf, ha]
      cases he : (!maxStepsExceeded s && (s.hasOpen && i.next s.histLen))
      case true => rw [stepCore_eq_entry i hf hc he]; exact ha
      rw [stepCore_eq_finish i hf hc he]; simp [finishCore, hf, ha]
    | finish k => simp only [exec, finishCore]; split <;> simp [ha]
    | build is =>
      simp only [exec]
      induction is generalizing s with
      | nil => unfold buildLoop; split <;> exact ha
      | cons i is ih =>
        have h1 : (stepCore s i).1.arg = none := by
          cases hf : s.finished
          case true => rw [stepCore_eq_finished i hf]; exact ha
          cases hc : clockExceeded s i.clk
          case true => rw [stepCore_eq_clock i hf hc]; simp [finishCore, hf, ha]
          cases he : (!maxStepsExceeded s && (s.hasOpen && i.next s.histLen))
          case true => rw [stepCore_eq_entry i hf hc he]; exact ha
          rw [stepCore_eq_finish i hf hc he]; simp [finishCore, hf, ha]
        unfold buildLoop
        rcases hs : stepCore s i with ⟨t', r⟩
        rw [hs] at h1
        cases r with
        | entry => exact ih t' h1 (fun a => by simp)
        | none => exact h1
        | raised e => exact h1
    | setArgument a => exact absurd rfl (hop a)
    | setLogic l => simp only [exec, buildTrunkCore]; (repeat' split) <;> simp_all
    | buildTrunk => simp only [exec, buildTrunkCore]; (repeat' split) <;> simp_all
    | addBranch => exact ha
    | rulesMutate => simp only [exec]; split <;> exact ha
    | rulesLock => simp only [exec]; split <;> exact ha
  have main : ∀ (ops : List Op) (s0 : State), s0.arg = none → (∀ a, Op.setArgument a ∉ ops) →
      ∀ s ∈ trace s0 ops, s.arg = none := by
    intro ops
    induction ops with
    | nil => intro s0 _ _ s hs; simp [trace] at hs
    | cons op ops ih =>
      intro s0 h0 hops s hs
      have h1 := key s0 op h0 (fun a e => hops a (by simp [e]))
      simp only [trace, List.mem_cons] at hs
      rcases hs with rfl | hs
      · exact h1
      · exact ih _ h1 (fun a ha => hops a (by simp [ha])) s hs
  intro s hs
  exact no_argument_no_verdict s (main ops (init o) rfl hops s hs)

-- a completed tableau without argument: finished, not premature, still no verdict;
-- with an argument the same calls give a verdict
example : let s := run (init {}) [.setLogic 0, .step ⟨0, fun _ => false, false, 0⟩]
    s.completed = true ∧ s.valid = none ∧ s.invalid = none := by decide
example : let s := run (init {}) [.setLogic 0, .setArgument 0, .step ⟨0, fun _ => false, true, 0⟩]
    s.completed = true ∧ s.invalid = some true := by decide

end Ptx.Props.C17
