/-
  C16 — A tableau's bookkeeping is consistent at every step.

  Model: Ptx/Tab/Tree.lean.  `Book` = the calculus state (`Tableau = List Branch`, any `LogicData`)
  together with what the listeners of `Tableau.__listen_on` maintain: history, the open view, and per
  branch its stat record (step added / step closed / parent / per node: step added, step ticked).
  `Book.step` is one rule application: the calculus step `applyStep` plus the listeners' updates, with
  the two Python exception paths of the listeners (`IllegalState`, `MissingValue`) as explicit outcomes.
  `Tree.build` mirrors `Tableau.Tree._build/_build_leaf/_build_branches` with `IndexError`, `KeyError`,
  `TypeError` as explicit outcomes; `Book.stats` mirrors `_compute_stats` (counts).

  The invariant `TabInv L arg bk` (Ptx/Proofs/TabTreeInv.lean) says, for a state `bk`:
    len         one stat record per branch;
    branch      for every branch `i` with record `r` (`BranchOK`): the record's node objects are the branch's nodes;
                CLOSED/STEP_CLOSED is recorded iff the branch is closed, i.e. iff its last node is the closure flag;
                PARENT is the branch's parent; the nodes appended to this branch are exactly those from position
                `inherited` (its length at fork time) on; the recorded addition steps are non-decreasing along the
                branch and all recorded numbers (additions, the branch's own addition, closure, ticks) are smaller
                than the current step number (= the number of the next application), the closure step is not
                before any node, a tick is not before its node and there is one tick record per node;
    trunk_objs  every branch starts with the trunk: premises then the conclusion node, in order, added at step 0;
    opens_eq    the open view is exactly the list of unclosed branches, in branch order;
    root/parent only branch 0 has no parent; a branch made by a step comes after its parent and starts with the
                nodes its parent had at fork time.
  The transition clauses (branches only grow, a closed branch is never extended, the step is recorded once, with
  the target that was applied; what was recorded stays) are `Grows` / `C16_step_records`.

  For the tree two further invariants of the node identities are used (Ptx/Proofs/TabTreeIds.lean, TabTreeTotal.lean):
  `IdInv` (every branch ends with a node of its own; a node of branch i on another branch lies strictly before i's
  last node; same identity at the same position ⇒ same object) and `AncInv` (a node found on a branch is also on
  its origin branch, and the two agree up to and including it).  They need that every rule adds at least one node
  on every branch it makes (`LogicData.addsNonempty`, a decidable condition on the rule table; without it a new
  branch can be an initial segment of its parent and `_build_branches` indexes past its end).  The condition is
  kernel-checked for all generated logics on every run (`C16_gen_addsNonempty`).

  Theorems quantify over EVERY legal step of ANY `LogicData` and over every derivation from the trunk.
  The tie of the model to the code is the sampled correspondence of harness/props/c16.py (every prefix of every
  run: #branches, open view, branch lengths; final stat record; the finished tree field by field; statistics).
-/
import Ptx.Proofs.TabTreeDistinct
import Ptx.Gen.All
namespace Ptx.Props.C16
open Ptx Ptx.TabTree

/-- example data for the non-vacuity examples:  A ∨ B ⊢ A  in CPL; the disjunction rule on node 0 of
    branch 0, then closing branch 0 on A / ¬A -/
def exArg : Argument := ⟨[.op2 .disj (.atom 0 0) (.atom 1 0)], .atom 0 0⟩
def exInit : Book := Book.init (trunkNodes Gen.CPL exArg)
def exSteps : List Step := [.rule 0 0 none none, .close 0 (.atom 0 0) none]
/-- the state after the two steps -/
def exBook : Book := ((Book.run Gen.CPL exInit exSteps).book?).getD exInit

/-! ### after the trunk -/

/-- After the trunk is built the invariant holds, for every logic and argument; the state is the
    calculus trunk. -/
theorem C16_inv_init (L : LogicData) (arg : Argument) :
    (Book.init (trunkNodes L arg)).tab = trunk L arg ∧ TabInv L arg (Book.init (trunkNodes L arg)) :=
  ⟨rfl, inv_init L arg⟩

-- the trunk of  A ∨ B ⊢ A  in CPL: the premise, then the negated conclusion; one open branch, nothing recorded yet
example :
    let arg : Argument := ⟨[.op2 .disj (.atom 0 0) (.atom 1 0)], .atom 0 0⟩
    let bk := Book.init (trunkNodes Gen.CPL arg)
    bk.lengths = [2] ∧ bk.opens = [0] ∧ bk.history.length = 0 ∧ bk.currentStep = 1 ∧
      bk.recs.map (fun r => (r.stepAdded, r.stepClosed, r.parent, r.objs.map (·.step))) = [(0, none, none, [0, 0])] := by
  decide

/-- The trunk clause on its own: in every state with the invariant, every branch starts with the
    premises and the (negated / undesignated) conclusion, in order. -/
theorem C16_trunk {L : LogicData} {arg : Argument} {bk : Book} (h : TabInv L arg bk) :
    ∀ b ∈ bk.tab, (arg.premises.map (fun p => Node.sent p L.trunkPrem (if L.modal then some 0 else none)) ++
        [Node.sent (if L.trunkConcNeg then arg.conclusion.neg else arg.conclusion) L.trunkConc (if L.modal then some 0 else none)])
      <+: b.nodes := by
  intro b hb
  obtain ⟨i, hi⟩ := List.mem_iff_getElem?.1 hb
  have hil : i < bk.recs.length := by rw [h.len]; exact (List.getElem?_eq_some_iff.1 hi).1
  have hr := List.getElem?_eq_getElem hil
  have hpre := h.trunk_objs _ (List.mem_of_getElem? hr)
  have hn := (h.branch i b _ hi hr).nodes_eq
  have := hpre.map (·.node)
  rw [hn, List.map_map] at this
  simpa [trunkNodes, Function.comp_def] using this

example : TabInv Gen.K3 ⟨[.atom 0 0], .atom 1 0⟩ (Book.init (trunkNodes Gen.K3 ⟨[.atom 0 0], .atom 1 0⟩)) :=
  (C16_inv_init _ _).2

/-! ### every step -/

/-- EVERY legal step of ANY logic data, from a state with the invariant: the listeners raise nothing
    (`Book.step` answers `.ok`), the branches are the result of the calculus step, the step is
    appended to the history, and the invariant holds again. -/
theorem C16_inv_step {L : LogicData} {arg : Argument} {bk : Book} {s : Step} {t' : Tableau}
    (hinv : TabInv L arg bk) (hs : applyStep L bk.tab s = some t') :
    ∃ bk', bk.step L s = .ok bk' ∧ bk'.tab = t' ∧ bk'.history = bk.history ++ [s] ∧ TabInv L arg bk' :=
  step_ok hinv hs

-- the hypotheses are satisfiable: the trunk state has the invariant and the disjunction rule is a legal step
example : ∃ bk', exInit.step Gen.CPL (.rule 0 0 none none) = .ok bk' ∧ TabInv Gen.CPL exArg bk' := by
  have hleg : (applyStep Gen.CPL exInit.tab (.rule 0 0 none none)).isSome = true := by decide
  obtain ⟨t', ht'⟩ := Option.isSome_iff_exists.1 hleg
  obtain ⟨bk', h1, _, _, h4⟩ := C16_inv_step (C16_inv_init Gen.CPL exArg).2 ht'
  exact ⟨bk', h1, h4⟩

/-- the same, read from the book's side -/
theorem C16_inv_step_book {L : LogicData} {arg : Argument} {bk bk' : Book} {s : Step}
    (hinv : TabInv L arg bk) (hs : bk.step L s = .ok bk') : TabInv L arg bk' := by
  obtain ⟨bk1, h1, _, _, h⟩ := step_ok hinv (step_tab hs)
  rw [hs] at h1; cases h1; exact h

-- a legal branching step exists and is accepted:  A ∨ B ⊢ A  in CPL, the disjunction rule on node 0
example :
    let arg : Argument := ⟨[.op2 .disj (.atom 0 0) (.atom 1 0)], .atom 0 0⟩
    let out := ((Book.init (trunkNodes Gen.CPL arg)).step Gen.CPL (.rule 0 0 none none)).book?
    out.map (fun bk => (bk.lengths, bk.opens, bk.history.length)) = some ([3, 3], [0, 1], 1) ∧
    out.map (fun bk => bk.recs.map (fun r => (r.stepAdded, r.parent))) = some [(0, none), (1, some 0)] ∧
    out.map (fun bk => bk.recs.map (fun r => (r.inherited, r.ticks))) = some [(0, [(0, 1)]), (2, [(0, 1)])] := by
  decide

/-- The transition clauses, for every accepted step: the step is recorded once, at the end of the
    history; the target branch was open; branches only grow and only the target changes; a closed
    branch is never extended; every new branch has the target as parent and extends its nodes. -/
theorem C16_step_grows {L : LogicData} {bk bk' : Book} {s : Step} (h : bk.step L s = .ok bk') : Grows bk s bk' :=
  step_grows h

-- an accepted step exists (see the example above); its `Grows` record says e.g. that the history grew by that step
example (bk' : Book) (h : exInit.step Gen.CPL (.rule 0 0 none none) = .ok bk') :
    bk'.history = [.rule 0 0 none none] ∧ ∃ old, exInit.tab[0]? = some old ∧ old.closed = false :=
  ⟨(C16_step_grows h).history, (C16_step_grows h).target_open⟩

/-- What was recorded stays: node objects and tick records of every branch stay as initial segments,
    the branch's addition step, parent and fork length do not change, a recorded closure step stays. -/
theorem C16_step_records {L : LogicData} {arg : Argument} {bk bk' : Book} {s : Step} (hinv : TabInv L arg bk)
    (h : bk.step L s = .ok bk') :
    ∀ (j : Nat) (r : BRec), bk.recs[j]? = some r → ∃ r' : BRec, bk'.recs[j]? = some r' ∧ r.objs <+: r'.objs ∧
      r.ticks <+: r'.ticks ∧ r'.stepAdded = r.stepAdded ∧ r'.parent = r.parent ∧ r'.inherited = r.inherited ∧
      (∀ c, r.stepClosed = some c → r'.stepClosed = some c) :=
  step_records hinv h

-- closing a branch: branch 0 of the example above closes on A / ¬A at step 2 and leaves the open view;
-- a further step on the closed branch is rejected by the calculus
example :
    let arg : Argument := ⟨[.op2 .disj (.atom 0 0) (.atom 1 0)], .atom 0 0⟩
    (Book.run Gen.CPL (Book.init (trunkNodes Gen.CPL arg)) [.rule 0 0 none none, .close 0 (.atom 0 0) none]).book?.map
        (fun bk => (bk.lengths, bk.opens, bk.recs.map (·.stepClosed), (bk.step Gen.CPL (.close 0 (.atom 0 0) none)).book?.isSome))
      = some ([4, 3], [1], [some 2, none], false) := by
  decide

/-- Closed ⇒ the last node is the closure flag, and the closure is on record (both directions). -/
theorem C16_closed_leaf {L : LogicData} {arg : Argument} {bk : Book} (h : TabInv L arg bk)
    {i : Nat} {b : Branch} {r : BRec} (hb : bk.tab[i]? = some b) (hr : bk.recs[i]? = some r) :
    (r.stepClosed.isSome = true ↔ b.nodes.getLast? = some (.flag "closure")) ∧
    (i ∈ bk.opens ↔ r.stepClosed = none) := by
  have hc := (h.branch i b r hb hr).closed_iff
  have hil : i < bk.tab.length := (List.getElem?_eq_some_iff.1 hb).1
  constructor
  · rw [hc, closed_def]
    constructor
    · intro hcl
      split at hcl
      · next n hn =>
        cases n with
        | flag name => simp only [Node.isClosure, beq_iff_eq] at hcl; rw [hn, hcl]
        | sent _ _ _ => cases hcl
        | access _ _ => cases hcl
        | ellipsis => cases hcl
      · cases hcl
    · intro hl; simp [hl, Node.isClosure]
  · rw [h.opens_eq, Book.unclosed, List.mem_filter, List.mem_range'_1]
    simp only [Book.isOpenAt, hb, Nat.zero_le, Nat.zero_add, hil, true_and, and_self]
    cases hsc : r.stepClosed with
    | none => rw [hsc] at hc; simp [← hc]
    | some c => rw [hsc] at hc; simp [← hc]

-- in the example state branch 0 is closed, on record, out of the open view, and ends with the closure flag
example : exBook.opens = [1] ∧ exBook.recs.map (·.stepClosed) = [some 2, none] ∧
    exBook.tab.map (fun b => b.nodes.getLast? == some (.flag "closure")) = [true, false] := by decide

/-! ### every derivation from the trunk -/

/-- Every run of the book from the trunk: the invariant holds, the history is exactly the list of
    steps applied (its length is the number of applications), and the branches are a derivation of
    the calculus. -/
theorem C16_inv_reachable {L : LogicData} {arg : Argument} {ss : List Step} {bk : Book}
    (h : Book.Reach L (Book.init (trunkNodes L arg)) ss bk) :
    TabInv L arg bk ∧ bk.history = ss ∧ bk.currentStep = ss.length + 1 ∧ Deriv L (trunk L arg) bk.tab := by
  obtain ⟨a, b, c⟩ := reach_inv (inv_init L arg) h
  have hb : bk.history = ss := by simpa [Book.init] using b
  exact ⟨a, hb, by simp [Book.currentStep, hb], deriv_of_replay ss c⟩

-- the example state is reached by the two steps
example : Book.Reach Gen.CPL exInit exSteps exBook ∧ exBook.history.length = 2 ∧ exBook.currentStep = 3 := by
  have h : Book.Reach Gen.CPL exInit exSteps exBook := reach_of_run _ _ _ (by rfl)
  have := C16_inv_reachable (L := Gen.CPL) (arg := exArg) h
  exact ⟨h, by rw [this.2.1]; rfl, this.2.2.1⟩

/-- … and EVERY derivation of the calculus from the trunk is such a run: the listeners never stand
    in the way of a legal step, so every reachable tableau carries a record satisfying the invariant. -/
theorem C16_inv_reachable_all {L : LogicData} {arg : Argument} {t : Tableau} (h : Deriv L (trunk L arg) t) :
    ∃ ss bk, Book.Reach L (Book.init (trunkNodes L arg)) ss bk ∧ bk.tab = t ∧ bk.history = ss ∧ TabInv L arg bk := by
  obtain ⟨ss, hss⟩ := replay_of_deriv h
  obtain ⟨bk, hr, ht⟩ := run_of_replay ss (Book.init (trunkNodes L arg)) t (inv_init L arg) hss
  obtain ⟨a, b, _⟩ := C16_inv_reachable hr
  exact ⟨ss, bk, hr, ht, b, a⟩

-- a derivation of the calculus from the trunk: the two steps of the example replayed on bare branches
example : ∃ ss bk, Book.Reach Gen.CPL exInit ss bk ∧ bk.tab = exBook.tab ∧ TabInv Gen.CPL exArg bk := by
  have hd : Deriv Gen.CPL (trunk Gen.CPL exArg) exBook.tab := deriv_of_replay exSteps (by rfl)
  obtain ⟨ss, bk, h1, h2, _, h4⟩ := C16_inv_reachable_all hd
  exact ⟨ss, bk, h1, h2, h4⟩

/-! ### the finished tree -/

/-- Whatever tree `_build` returns — for ANY record, no invariant needed — every structure's counters
    are the recomputed ones: width = number of leaf structures at or below; descendant_node_count = total
    number of nodes of the structures below; structure_node_count = that plus its own nodes; depth = number
    of ancestors; left/right = the pre-order numbering (right = left + 2·#structures − 1, children
    consecutive); and the root's distinct_nodes = total number of nodes over all structures. -/
theorem C16_tree_counts {bk : Book} {tr : Tree} (h : Tree.build bk = .ok tr) :
    tr.CountsOK ∧ tr.info.width = tr.leafCount ∧ tr.info.snc = tr.nodeTotal ∧
    tr.info.depth = 0 ∧ tr.info.left = 1 ∧ tr.info.right = 2 * tr.size ∧ tr.info.root = true ∧
    tr.info.distinctNodes = some tr.nodeTotal := by
  obtain ⟨a1, a2, a3, a4, a5⟩ := build_counts h
  obtain ⟨c1, _, c3, c4, c5⟩ := countsOK_info tr a1
  exact ⟨a1, c1, c3, a2, a3, by rw [c4, a3]; omega, a4, a5⟩

-- the tree of the example state exists and has 3 structures, 2 leaves, 5 nodes
example : (Tree.build exBook).toOption.map (fun tr => (tr.size, tr.leafCount, tr.nodeTotal, tr.info.right)) = some (3, 2, 5, 6) := by
  decide +kernel

/-- the logics generated from /repo add at least one node on every branch a rule makes -/
theorem C16_gen_addsNonempty : ∀ L ∈ Gen.all, L.addsNonempty = true := by decide +kernel

example : Gen.CPL.addsNonempty = true ∧ Gen.all.length = 57 := ⟨C16_gen_addsNonempty _ (by simp [Gen.all]), by decide⟩

/-- the identity invariant along every run from the trunk, for such a logic -/
theorem C16_ids_reachable {L : LogicData} {arg : Argument} {ss : List Step} {bk : Book}
    (hne : L.addsNonempty = true) (h : Book.Reach L (Book.init (trunkNodes L arg)) ss bk) : IdInv bk :=
  reach_idinv hne (inv_init L arg) (idinv_init L arg) h

example : IdInv exBook :=
  C16_ids_reachable (L := Gen.CPL) (arg := exArg) (C16_gen_addsNonempty _ (by simp [Gen.all]))
    (reach_of_run _ _ _ (by rfl) : Book.Reach Gen.CPL exInit exSteps exBook)

/-- the ancestor invariant along every run from the trunk, for such a logic -/
theorem C16_anc_reachable {L : LogicData} {arg : Argument} {ss : List Step} {bk : Book}
    (hne : L.addsNonempty = true) (h : Book.Reach L (Book.init (trunkNodes L arg)) ss bk) : AncInv bk :=
  reach_ancinv hne (inv_init L arg) (ancinv_init L arg) h

example : AncInv exBook :=
  C16_anc_reachable (L := Gen.CPL) (arg := exArg) (C16_gen_addsNonempty _ (by simp [Gen.all]))
    (reach_of_run _ _ _ (by rfl) : Book.Reach Gen.CPL exInit exSteps exBook)

/-- After finishing (in any state reached from the trunk): `Tree.make` returns a tree — none of the
    exception paths of `_build` (`IndexError`, `KeyError`, `TypeError`) is taken — with one leaf per branch
    whose root-to-leaf node path is that branch: the leaves of the tree, each with its branch id and the
    concatenation of the node lists from the root down to it, are a permutation of the branches with their
    node objects (the order differs: children are grouped by first node). -/
theorem C16_tree_leaves {L : LogicData} {arg : Argument} {ss : List Step} {bk : Book}
    (hne : L.addsNonempty = true) (h : Book.Reach L (Book.init (trunkNodes L arg)) ss bk) :
    ∃ tr, Tree.build bk = .ok tr ∧
      tr.leafPaths.Perm (bk.tbs.map (fun b => (some b.idx, b.r.objs))) ∧ tr.leafCount = bk.tab.length := by
  have hid := C16_ids_reachable hne h
  have hinv := (C16_inv_reachable h).1
  obtain ⟨tr, ht⟩ := build_total hinv hid (C16_anc_reachable hne h)
  refine ⟨tr, ht, ?_⟩
  unfold Tree.build at ht
  split at ht
  · cases ht
  · next t p d hb =>
    cases ht
    have hp := buildF_leaves _ _ _ _ _ _ _ _ _ _ hb (coh_of_idinv hid) (pf_of_idinv hid) (agree_zero _)
    simp only [List.drop_zero] at hp
    refine ⟨hp, ?_⟩
    have hl := hp.length_eq
    rw [leafPaths_length] at hl
    rw [hl, List.length_map, Book.tbs, List.length_mapIdx, hinv.len]

-- for the example state: a tree with two leaves (see the dump further down)
example : ∃ tr, Tree.build exBook = .ok tr ∧ tr.leafCount = 2 := by
  obtain ⟨tr, h1, _, h3⟩ := C16_tree_leaves (L := Gen.CPL) (arg := exArg) (C16_gen_addsNonempty _ (by simp [Gen.all]))
    (reach_of_run _ _ _ (by rfl) : Book.Reach Gen.CPL exInit exSteps exBook)
  exact ⟨tr, h1, by rw [h3]; decide⟩

/-- in terms of contents: the node lists along the root-to-leaf paths are the branches' node lists -/
theorem C16_tree_leaf_nodes {L : LogicData} {arg : Argument} {ss : List Step} {bk : Book} {tr : Tree}
    (hne : L.addsNonempty = true) (h : Book.Reach L (Book.init (trunkNodes L arg)) ss bk)
    (ht : Tree.build bk = .ok tr) :
    (tr.leafPaths.map (fun x => (x.1, x.2.map (·.node)))).Perm (bk.tab.mapIdx (fun i b => (some i, b.nodes))) := by
  have hinv := (C16_inv_reachable h).1
  obtain ⟨tr', ht', hperm, _⟩ := C16_tree_leaves hne h
  rw [ht] at ht'; cases ht'
  have hp := hperm.map (fun x => (x.1, x.2.map (·.node)))
  refine hp.trans (List.Perm.of_eq ?_)
  apply List.ext_getElem?
  intro i
  simp only [Book.tbs, List.map_map, List.getElem?_map, List.getElem?_mapIdx, Option.map_map]
  by_cases hi : i < bk.tab.length
  · have hil : i < bk.recs.length := by rw [hinv.len]; exact hi
    have hb := List.getElem?_eq_getElem hi
    have hr := List.getElem?_eq_getElem hil
    have hn := (hinv.branch i _ _ hb hr).nodes_eq
    rw [hb, hr]
    simp [← hn, Function.comp_def]
  · have hil : ¬ i < bk.recs.length := by rw [hinv.len]; exact hi
    rw [List.getElem?_eq_none (by omega), List.getElem?_eq_none (by omega)]
    rfl

/-- `distinct_nodes` is the number of distinct node objects on the branches: the nodes of the structures,
    each with the position it has on the branches (`tr.placed 0`), form a duplicate-free list with exactly
    the (position, identity) pairs that occur on the branches (`bk.objIds`, where a node shared by several
    branches occurs once per branch), and `distinct_nodes` is the length of that list. -/
theorem C16_tree_distinct {L : LogicData} {arg : Argument} {ss : List Step} {bk : Book} {tr : Tree}
    (hne : L.addsNonempty = true) (h : Book.Reach L (Book.init (trunkNodes L arg)) ss bk)
    (ht : Tree.build bk = .ok tr) :
    (tr.placed 0).Nodup ∧ (∀ x, x ∈ tr.placed 0 ↔ x ∈ bk.objIds) ∧
      tr.info.distinctNodes = some (tr.placed 0).length := by
  have hid := C16_ids_reachable hne h
  have hinv := (C16_inv_reachable h).1
  have G := globalOK_of_inv hinv hid (C16_anc_reachable hne h)
  have hd := (build_counts ht).2.2.2.2
  unfold Tree.build at ht
  split at ht
  · cases ht
  · next t p d hb =>
    cases ht
    obtain ⟨hm, hnd⟩ := buildF_placed G _ _ _ _ _ _ _ _ _ _ hb (fun _ h => h) (pf_of_idinv hid) (agree_zero _)
    exact ⟨hnd, fun x => by rw [hm x, mem_objIds], by rw [hd, placed_length]⟩

-- the example: 7 node occurrences on the two branches, 5 distinct objects (the trunk and the disjunction's
-- target are shared; the two disjuncts sit at the same position 2 on different branches)
example : exBook.objIds = [(0, 0), (1, 0), (2, 0), (3, 0), (0, 0), (1, 0), (2, 1)] ∧
    (Tree.build exBook).toOption.map (fun tr => tr.placed 0) = some [(0, 0), (1, 0), (2, 0), (3, 0), (2, 1)] := by
  decide +kernel

-- the tree of the example: the trunk structure with two leaves, one closed (at step 2), one open
example :
    let arg : Argument := ⟨[.op2 .disj (.atom 0 0) (.atom 1 0)], .atom 0 0⟩
    let tree := (Book.run Gen.CPL (Book.init (trunkNodes Gen.CPL arg)) [.rule 0 0 none none, .close 0 (.atom 0 0) none]).book?.bind
        (fun bk => (Tree.build bk).toOption)
    tree.map (fun tr => (tr.info.width, tr.info.distinctNodes, tr.info.snc, tr.info.dnc)) = some (2, some 5, 5, 3) ∧
    tree.map (fun tr => (tr.info.right, tr.info.hasOpen, tr.info.hasClosed)) = some (6, true, true) ∧
    tree.map (fun tr => tr.kids.map (fun c => (c.info.leaf, c.info.closed, c.info.closedStep))) = some [(true, true, some 2), (true, false, none)] ∧
    tree.map (fun tr => tr.kids.map (fun c => (c.info.branchId, c.info.nodes.length, c.info.depth))) = some [(some 0, 2, 1), (some 1, 1, 1)] ∧
    tree.map (fun tr => tr.leafPaths.map (fun x => (x.1, x.2.length))) = some [(some 0, 4), (some 1, 3)] := by
  decide +kernel

/-! ### statistics -/

/-- The statistics are the observable counts: branches, open and closed branches (counted on the
    branches themselves), steps = number of applications, distinct nodes = the tree's node total, and
    the result word is Valid / Invalid according to whether every branch is closed (when completed). -/
theorem C16_stats {L : LogicData} {arg : Argument} {bk : Book} {tr : Tree} (hinv : TabInv L arg bk)
    (ht : Tree.build bk = .ok tr) (completed : Bool) :
    let st := bk.stats completed (some tr)
    st.branches = bk.tab.length ∧
    st.openBranches = (bk.tab.filter (fun b => !b.closed)).length ∧
    st.closedBranches = (bk.tab.filter (fun b => b.closed)).length ∧
    st.steps = bk.history.length ∧
    st.distinctNodes = some tr.nodeTotal ∧
    (completed = false → st.result = "Unfinished") ∧
    (completed = true → (st.result = "Valid" ↔ bk.tab.all (·.closed) = true) ∧
                        (st.result = "Invalid" ↔ ¬ bk.tab.all (·.closed) = true)) := by
  have hopen : bk.opens.length = (bk.tab.filter (fun b => !b.closed)).length := by
    rw [hinv.opens_eq, unclosed_length]
  have hsplit := filter_length_split (fun b : Branch => b.closed) bk.tab
  have hd := (build_counts ht).2.2.2.2
  have hall : bk.tab.all (·.closed) = true ↔ (bk.tab.filter (fun b => !b.closed)).length = 0 := by
    rw [List.length_eq_zero_iff, List.filter_eq_nil_iff, List.all_eq_true]
    constructor
    · intro h b hb; simp [h b hb]
    · intro h b hb; simpa using h b hb
  refine ⟨rfl, hopen, ?_, rfl, hd, ?_, ?_⟩
  · show bk.tab.length - bk.opens.length = _
    rw [hopen]; omega
  · intro hc; subst hc; rfl
  · intro hc; subst hc
    simp only [Book.stats, if_true, beq_iff_eq, hopen, hall]
    by_cases h0 : (bk.tab.filter (fun b => !b.closed)).length = 0
    · simp [h0]
    · simp [h0]

example :
    let arg : Argument := ⟨[.op2 .disj (.atom 0 0) (.atom 1 0)], .atom 0 0⟩
    (Book.run Gen.CPL (Book.init (trunkNodes Gen.CPL arg)) [.rule 0 0 none none, .close 0 (.atom 0 0) none]).book?.bind
        (fun bk => (Tree.build bk).toOption.map (fun tr => bk.stats true (some tr)))
      = some ⟨"Invalid", 2, 1, 1, 2, some 5⟩ := by
  decide +kernel

end Ptx.Props.C16
