/-
  C19 — Every finished tableau renders, deterministically and faithfully.

  FULL PROPERTY (properties.jsonl): for every finished tableau (valid, invalid, premature with a tree),
  every registered output format (text, html, latex) in every notation renders without error, rendering
  twice gives identical text, and the plain-text rendering contains, branch by branch, the written form
  of each node's sentence with its world and designation marker in branch order, one closure mark per
  closed branch and none on open ones.

  WHAT IS PROVED HERE.  The theorems are about `Ptx.Render.renderText`, the executable model of
  `TabWriter('text', notation, **opts)(tab)` on `tab.tree` (Ptx/Tab/Render.lean), and are stated against
  an INDEPENDENT reader of the text (`Ptx.Render.readText`, Ptx/Tab/RenderRead.lean), which knows the
  legend (the marks) but neither the tree nor the writer:

    * `C19_text_faithful`            the text clause of the property, for every tree of a finished tableau,
                                     every string table and every legend satisfying decidable readability
                                     conditions;
    * `C19_text_faithful_generated`  the same, instantiated with the marks and the six `text` string tables
                                     REGENERATED from the running code; their readability conditions are
                                     discharged by `decide +kernel`;
    * `C19_layout_faithful`          the tree of segment strings is read back exactly (no assumption about
                                     closure nodes);
    * `C19_render_injective`         the rendering determines the tree of NODES (sentence, world, designation
                                     marker, tick; access / ellipsis / flag nodes) and hence the branches — both
                                     notations, every option set; side conditions on marks × table decidable
                                     (`NodeOK`), discharged for the regenerated data in `textNodes_ok`;
    * `C19_render_injective_generated` the same for the regenerated marks and the six `text` string tables;
    * `C19_render_injective_partial` (kept) trees with different segment strings have different renderings;
    * `C19_render_deterministic`     the rendering is a function of (marks, table, notation+options, tree)
                                     — by construction: `renderText` is a total Lean function of exactly
                                     these arguments; nothing else (no clock, no ids, no hash order) enters;
    * `C19_node_forms`               the written form of each node class: sentence, then world, then
                                     designation marker, then tick, then separator; etc.

  WHAT IS NOT PROVED (property C19 as a whole is therefore *partial*): "renders without error" and
  "rendering twice gives identical text" for the REAL writers, and everything about the html and latex
  formats.  Jinja2, the doctree builder and the html/latex translators are not modelled; these clauses
  are observed on every generated tableau × registered format × notation by the implementation-side
  oracle of harness/props/c19.py.  The tie between `renderText` and the real text writer is the sampled
  correspondence of the same harness.

  Hypotheses of the main theorem, and why finished tableaux satisfy them (`RTree.WF`):
    * only the root structure has depth 0 (`Tableau.Tree._build`: `memo['depth']`);
    * a closure flag node is the bare node appended by `Branch.close()`: it is the last node of a leaf
      structure, exactly on the leaves whose `closed` attribute is true.
  The harness checks `WF` on every real tree it sends (a failure is reported).
  `C19_render_injective` additionally assumes every node `RNode.regular` (Ptx/Tab/Render.lean: the node
  classes of proof/common.py — paired access worlds, constructible sentence, quit flag on the bare flag node
  only, no empty attribute record); the driver evaluates it on every real tree as well.
-/
import Ptx.Proofs.TabRender
import Ptx.Proofs.TabRenderInj
import Ptx.Gen.RenderMarks
namespace Ptx.Props.C19
open Ptx Ptx.Sym Ptx.Render

/-- the written forms the property speaks of, for one branch: the node strings of its nodes, the closure
    flag node aside (it is the closure mark) -/
def branchStrings (m : Marks) (tb : StringTable) (nt : Notn) (b : List RNode × Bool) : List (List Chr) :=
  (b.1.filter (fun n => !n.isClosure)).map (nodeStr m (writeSent tb nt))

/-- the literals of `nodes.jinja2` as of the pinned commit, for the examples that show concrete strings
    (the theorems are instantiated with the REGENERATED `Gen.RenderMarks.textMarks`, not with this) -/
def refMarks : Marks where
  world := [32, 119]          -- " w"
  desT := [32, 91, 43, 93]    -- " [+]"
  desF := [32, 91, 45, 93]    -- " [-]"
  acc1 := [119]               -- "w"
  acc2 := [82, 119]           -- "Rw"
  ellipsis := [32, 46, 46, 46]
  tick := [32, 42]            -- " *"
  closure := [40, 120, 41]    -- "(x)"
  sep := [59, 32]             -- "; "
  child := [45, 45, 32]       -- "-- "
  fork := [32, 46]            -- " ."

/-- a stand-in sentence writer for the examples: atom `i` is written as the letter `a`+i, anything else as `S` -/
def refLw : Sent → List Chr
  | .atom i _ => [97 + i]
  | _ => [83]

/-! ## 1. the text clause -/

/-- **Faithfulness of the plain-text rendering.**  For every tree `t` of a finished tableau (`t.WF`),
    every string table `tb` and legend `m` that are readable (`TableOK`, `Decodable` — decidable, checked on
    the regenerated data below), every notation and option set `nt`: an independent reader of the text
    `renderText m tb nt t` succeeds and finds
      * branch by branch (every root-to-leaf path, left to right), exactly the written forms of the
        branch's nodes, in branch order;
      * on each branch exactly one closure mark if the branch is closed and none if it is open;
      * nothing else after the last node separator of any segment. -/
theorem C19_text_faithful (m : Marks) (tb : StringTable) (nt : Notn) (t : RTree)
    (hm : m.Decodable = true) (htb : TableOK m tb = true) (hwf : t.WF = true) :
    ∃ r, readText m (renderText m tb nt t) = some r ∧
      r.branchNodeStrings = t.branches.map (branchStrings m tb nt) ∧
      r.branchClosureMarks m = t.branches.map (fun b => if b.2 then 1 else 0) ∧
      r.restsClean m = true := by
  have hd := Marks.dec_of_decodable hm
  simp only [RTree.WF, Bool.and_eq_true] at hwf
  have hkids : RTree.depthsOKL t.children = true := by
    cases t with
    | mk d ns cs cl =>
      have := hwf.1
      simp only [RTree.depthsOK, Bool.and_eq_true] at this
      exact this.2
  refine ⟨specN m (writeSent tb nt) t, ?_, ?_, ?_, restsClean_specN m _ t⟩
  · simp only [readText, readLayout_renderText hd htb t hkids, Option.map_some,
      toN_segTree hd htb t true hwf.1 hwf.2]
  · exact paths_fst m (writeSent tb nt) t
  · exact paths_marks m (writeSent tb nt) hd.closure_ne t hwf.2

/-- the example tree: a trunk of two nodes forking into an open branch and a closed one (access node, worlds,
    designation markers, a ticked node, the closure node) -/
def exTree : RTree :=
  .mk 0 [.sent (.atom 1 0) (some true), .sent (.op2 .conj (.atom 0 0) (.op1 .neg (.atom 0 0))) (some false) none true]
    [.mk 1 [.sent (.atom 0 0) (some false) (some 0)] [] false,
     .mk 1 [.access 0 1, .sent (.op1 .neg (.atom 0 0)) (some false) (some 1), .closureNode] [] true] false

-- the hypotheses are satisfiable and the conclusion is not trivial: two branches, different strings,
-- closure marks [0, 1]
example : exTree.WF = true ∧
    (readText Gen.RenderMarks.textMarks
      (renderText Gen.RenderMarks.textMarks Gen.Symbols.str_text_polish_text .polish exTree)).map
        (fun r => (r.branchNodeStrings.map List.length, r.branchClosureMarks Gen.RenderMarks.textMarks)) =
      some ([3, 4], [0, 1]) := by decide +kernel

/-! ## 2. the same for the regenerated marks and tables -/

/-- the regenerated legend is readable -/
theorem textMarks_decodable : Gen.RenderMarks.textMarks.Decodable = true := by decide +kernel

-- the condition discriminates: a legend whose separator starts with a blank (which also occurs inside node
-- strings), or whose child marker starts with the indentation bar, is rejected
example : ({ refMarks with sep := [32, 59] } : Marks).Decodable = false ∧
    ({ refMarks with child := [124, 45, 32] } : Marks).Decodable = false ∧ refMarks.Decodable = true := by decide

/-- every regenerated `text` string table (polish / standard × ascii, text, unicode dialects) is readable
    with the regenerated legend -/
theorem textTables_ok :
    Gen.RenderMarks.textTables.all (TableOK Gen.RenderMarks.textMarks) = true := by decide +kernel

example : Gen.RenderMarks.textTables.isEmpty = false := by decide

/-- **The text clause for the code as it is**: with the marks probed from the real template and any of the
    real `text` string tables, every notation and option set, every tree of a finished tableau. -/
theorem C19_text_faithful_generated (tb : StringTable) (htb : tb ∈ Gen.RenderMarks.textTables)
    (nt : Notn) (t : RTree) (hwf : t.WF = true) :
    ∃ r, readText Gen.RenderMarks.textMarks (renderText Gen.RenderMarks.textMarks tb nt t) = some r ∧
      r.branchNodeStrings = t.branches.map (branchStrings Gen.RenderMarks.textMarks tb nt) ∧
      r.branchClosureMarks Gen.RenderMarks.textMarks = t.branches.map (fun b => if b.2 then 1 else 0) ∧
      r.restsClean Gen.RenderMarks.textMarks = true :=
  C19_text_faithful _ tb nt t textMarks_decodable (List.all_eq_true.mp textTables_ok tb htb) hwf

example : Gen.Symbols.str_text_standard_text ∈ Gen.RenderMarks.textTables := by
  simp [Gen.RenderMarks.textTables]

-- the reader returns the very strings: with the reference marks and the stand-in sentence writer the open
-- branch of `exTree` reads "b [+]; ", "S [-] *; ", "a w0 [-]; " and the closed one ends with a closure mark
example :
    (readText refMarks (write refMarks refLw [] exTree)).map (fun r => (r.branchNodeStrings.head?, r.branchClosureMarks refMarks)) =
      some (some [[98, 32, 91, 43, 93, 59, 32], [83, 32, 91, 45, 93, 32, 42, 59, 32], [97, 32, 119, 48, 32, 91, 45, 93, 59, 32]],
            [0, 1]) := by decide +kernel

/-! ## 3. layout -/

/-- **The layout is read back exactly**: whatever the nodes are (no assumption on closure nodes), the
    column reader recovers the tree of segment strings — one string per structure, children in order —
    from the text.  Only the depth convention is needed. -/
theorem C19_layout_faithful (m : Marks) (tb : StringTable) (nt : Notn) (t : RTree)
    (hm : m.Decodable = true) (htb : TableOK m tb = true) (hd : RTree.depthsOK true t = true) :
    readLayout m (renderText m tb nt t) = some (RTree.segTree m (writeSent tb nt) t) := by
  have hkids : RTree.depthsOKL t.children = true := by
    cases t with
    | mk d ns cs cl => simp only [RTree.depthsOK, Bool.and_eq_true] at hd; exact hd.2
  exact readLayout_renderText (Marks.dec_of_decodable hm) htb t hkids

-- a tree that is NOT closure-well-formed (closure node in the middle of the trunk) is still laid out readably
example : let t : RTree := .mk 0 [.closureNode, .sent (.atom 0 0)] [.mk 1 [.quitNode] [] false, .mk 2 [] [] true] false
    t.WF = false ∧ RTree.depthsOK true t = true ∧
    (readLayout Gen.RenderMarks.textMarks
      (renderText Gen.RenderMarks.textMarks Gen.Symbols.str_text_polish_text .polish t)).isSome = true := by
  decide +kernel

/-! ## 4. injectivity, determinism -/

/- FULL STATEMENT: on well-formed trees `renderText m tb nt` is injective up to the data the writer does not
   read (the numeric value of non-zero depths, the `closed` attribute — which `WF` ties to the closure node on
   leaves):
       renderText m tb nt t₁ = renderText m tb nt t₂ → t₁.shape = t₂.shape ∧ per structure nodes₁ = nodes₂.
   PROVED below as `C19_render_injective` (conclusion `t₁.nodeTree = t₂.nodeTree`, and `t₁.branches = t₂.branches`)
   for BOTH notations and every option set of the standard writer, for trees whose nodes are `RNode.regular`:
   every node class of proof/common.py (sentence nodes with / without world and designation, ticked or not;
   access nodes; the ellipsis node; closure and quit flag nodes; also sentence-less world / designation
   nodes), with a constructible sentence.  Outside `regular` the template itself is not injective: the empty
   attribute record and the quit-flag node are both written as the bare separator (example below), and an
   access world without its partner is not written at all.
   It rests on injectivity of the sentence writers followed by marks (C12: `Write.render_inj_tail`, for the
   standard tables with the `E` / `E!` lookahead) and on the marks being mutually unambiguous (`NodeOK`).
   `C19_render_injective_partial` (equal segment strings, no assumption on the nodes) is kept. -/

/-- **Different segment strings, different renderings** (equivalently: the rendering determines the shape
    of the tree and the string of every structure). -/
theorem C19_render_injective_partial (m : Marks) (tb : StringTable) (nt : Notn) (t₁ t₂ : RTree)
    (hm : m.Decodable = true) (htb : TableOK m tb = true)
    (h₁ : RTree.depthsOK true t₁ = true) (h₂ : RTree.depthsOK true t₂ = true)
    (h : renderText m tb nt t₁ = renderText m tb nt t₂) :
    RTree.segTree m (writeSent tb nt) t₁ = RTree.segTree m (writeSent tb nt) t₂ := by
  have e₁ := C19_layout_faithful m tb nt t₁ hm htb h₁
  have e₂ := C19_layout_faithful m tb nt t₂ hm htb h₂
  rw [h, e₂] at e₁
  exact (Option.some.inj e₁).symm

-- two trees with the same nodes but different shape are told apart
example : let a : RNode := .sent (.atom 0 0)
    let t₁ : RTree := .mk 0 [a] [.mk 1 [a] [] false, .mk 1 [a] [] false] false
    let t₂ : RTree := .mk 0 [a] [.mk 1 [a] [.mk 2 [a] [] false, .mk 2 [] [] false] false, .mk 1 [] [] false] false
    RTree.depthsOK true t₁ = true ∧ RTree.depthsOK true t₂ = true ∧
    renderText Gen.RenderMarks.textMarks Gen.Symbols.str_text_polish_text .polish t₁ ≠
      renderText Gen.RenderMarks.textMarks Gen.Symbols.str_text_polish_text .polish t₂ := by decide +kernel

/-- the regenerated marks against every regenerated `text` string table, in the notation of the table: the
    node marks are pairwise prefix-incomparable and start with a non-digit; the marks that can follow a
    sentence are prefix-incomparable with every non-blank symbol, the subscript opener and `blank ++ infix
    symbol`; the table is decodable (standard: with the `E` / `E!` lookahead) -/
theorem textNodes_ok :
    ∀ tb ∈ Gen.RenderMarks.textTables,
      NodeOK Gen.RenderMarks.textMarks tb Gen.Symbols.maxi (tb.notn == "standard") = true := by decide +kernel

-- the condition discriminates: a tick mark ` &` could be the conjunction of the standard ascii writer, a world
-- mark `a` a constant of the polish one
example : NodeOK { refMarks with tick := [32, 38] } Gen.Symbols.str_text_standard_ascii Gen.Symbols.maxi true = false ∧
    NodeOK { refMarks with world := [109] } Gen.Symbols.str_text_polish_ascii Gen.Symbols.maxi false = false ∧
    NodeOK refMarks Gen.Symbols.str_text_standard_ascii Gen.Symbols.maxi true = true := by decide +kernel

/-- **The rendering determines the nodes.**  For trees of finished tableaux (`WF`) whose nodes are regular
    (`RNode.regular`: the node classes of proof/common.py with constructible sentences), any legend / string
    table / notation with the decidable readability conditions `Decodable`, `TableOK`, `NodeOK`: equal
    plain-text renderings come from trees with the same shape and, structure by structure, the same node list
    — every node with its sentence, world, designation marker and tick, access nodes with both worlds,
    ellipsis and flag nodes — hence with the same branches (nodes in branch order, `closed` of the leaf). -/
theorem C19_render_injective (m : Marks) (tb : StringTable) (mx : MaxIdx) (nt : Notn) (t₁ t₂ : RTree)
    (hm : m.Decodable = true) (htb : TableOK m tb = true) (hn : NodeOK m tb mx nt.isStd = true)
    (hwf₁ : t₁.WF = true) (hwf₂ : t₂.WF = true)
    (hr₁ : t₁.allNodes (RNode.regular mx) = true) (hr₂ : t₂.allNodes (RNode.regular mx) = true)
    (h : renderText m tb nt t₁ = renderText m tb nt t₂) :
    t₁.nodeTree = t₂.nodeTree ∧ t₁.branches = t₂.branches := by
  have hd := Marks.dec_of_decodable hm
  simp only [RTree.WF, Bool.and_eq_true] at hwf₁ hwf₂
  have hseg := C19_render_injective_partial m tb nt t₁ t₂ hm htb hwf₁.1 hwf₂.1 h
  have e₁ := toN_segTree (nt := nt) hd htb t₁ true hwf₁.1 hwf₁.2
  have e₂ := toN_segTree (nt := nt) hd htb t₂ true hwf₂.1 hwf₂.2
  rw [hseg, e₂] at e₁
  have hnt := nodeTree_of_specN hn hd.closure_ne nt rfl t₁ t₂ hwf₁.2 hwf₂.2 hr₁ hr₂ e₁.symm
  exact ⟨hnt, branches_of_nodeTree t₁ t₂ hwf₁.2 hwf₂.2 hnt⟩

-- the hypotheses are satisfiable (the example tree has every node kind but the ellipsis), and regularity is
-- needed: the empty record and the quit-flag node are written alike
example : exTree.WF = true ∧ exTree.allNodes (RNode.regular Gen.Symbols.maxi) = true ∧
    (RNode.ellipsisNode.regular Gen.Symbols.maxi && RNode.quitNode.regular Gen.Symbols.maxi &&
      (RNode.sent (.pred Pred.existence [.const 0 0]) (some true) (some 3) true).regular Gen.Symbols.maxi) = true ∧
    RNode.regular Gen.Symbols.maxi {} = false ∧
    nodeStr refMarks refLw {} = nodeStr refMarks refLw .quitNode := by decide +kernel

/-- **… for the code as it is**: the marks probed from the real template, any of the real `text` string tables
    with the notation it belongs to (`TabWriter('text', notation, dialect=…)` looks the table up by notation),
    every option set of the standard writer. -/
theorem C19_render_injective_generated (tb : StringTable) (htb : tb ∈ Gen.RenderMarks.textTables) (nt : Notn)
    (hnt : nt.isStd = (tb.notn == "standard")) (t₁ t₂ : RTree)
    (hwf₁ : t₁.WF = true) (hwf₂ : t₂.WF = true)
    (hr₁ : t₁.allNodes (RNode.regular Gen.Symbols.maxi) = true)
    (hr₂ : t₂.allNodes (RNode.regular Gen.Symbols.maxi) = true)
    (h : renderText Gen.RenderMarks.textMarks tb nt t₁ = renderText Gen.RenderMarks.textMarks tb nt t₂) :
    t₁.nodeTree = t₂.nodeTree ∧ t₁.branches = t₂.branches :=
  C19_render_injective _ tb Gen.Symbols.maxi nt t₁ t₂ textMarks_decodable
    (List.all_eq_true.mp textTables_ok tb htb) (by rw [hnt]; exact textNodes_ok tb htb) hwf₁ hwf₂ hr₁ hr₂ h

-- both notations occur among the regenerated tables; two trees that differ only in a designation marker, and two
-- that differ in `E` / `E!a` (standard), are told apart
example : (Gen.RenderMarks.textTables.map (fun tb => tb.notn == "standard")).contains true = true ∧
    (Gen.RenderMarks.textTables.map (fun tb => tb.notn == "standard")).contains false = true ∧
    renderText Gen.RenderMarks.textMarks Gen.Symbols.str_text_standard_text (.standard {})
        (.mk 0 [.sent (.atom 4 0) (some true)] [] false) ≠
      renderText Gen.RenderMarks.textMarks Gen.Symbols.str_text_standard_text (.standard {})
        (.mk 0 [.sent (.atom 4 0) (some false)] [] false) ∧
    renderText Gen.RenderMarks.textMarks Gen.Symbols.str_text_standard_text (.standard {})
        (.mk 0 [.sent (.atom 4 0)] [] false) ≠
      renderText Gen.RenderMarks.textMarks Gen.Symbols.str_text_standard_text (.standard {})
        (.mk 0 [.sent (.pred Pred.existence [.const 0 0])] [] false) := by decide +kernel

/-- **Determinism (by construction).**  `renderText` is a Lean function: the text depends on nothing but
    the legend, the string table, the notation with its options, and the tree.  In particular the `closed`
    attribute, object ids, step numbers and tick steps of the real `Tree` do not enter (they are not even
    arguments).  Stated as congruence so that the claim is visible in the theorem list. -/
theorem C19_render_deterministic (m m' : Marks) (tb tb' : StringTable) (nt nt' : Notn) (t t' : RTree)
    (h1 : m = m') (h2 : tb = tb') (h3 : nt = nt') (h4 : t = t') :
    renderText m tb nt t = renderText m' tb' nt' t' := by
  subst h1 h2 h3 h4; rfl

example : renderText Gen.RenderMarks.textMarks Gen.Symbols.str_text_polish_text .polish exTree ≠ [] := by
  decide +kernel

/-! ## 5. the written form of each node class -/

/-- **Node forms.**  A sentence node is written as its sentence, then ` w<world>`, then the designation
    marker, then the tick, then the separator; an access node as `w<w1>Rw<w2>`; the ellipsis node as the
    ellipsis mark; the closure node as the closure mark alone; any other flag node as the bare
    separator (the text template has no mark for the quit flag). -/
theorem C19_node_forms (m : Marks) (lw : Sent → List Chr) :
    (∀ s d w tk, nodeStr m lw (.sent s d w tk) =
      lw s ++ (match w with | some w => m.world ++ decStr w | none => []) ++
        (match d with | some true => m.desT | some false => m.desF | none => []) ++
        (if tk then m.tick else []) ++ m.sep) ∧
    (∀ a b tk, nodeStr m lw (.access a b tk) =
      m.acc1 ++ decStr a ++ m.acc2 ++ decStr b ++ (if tk then m.tick else []) ++ m.sep) ∧
    nodeStr m lw .ellipsisNode = m.ellipsis ++ m.sep ∧
    nodeStr m lw .closureNode = m.closure ∧
    nodeStr m lw .quitNode = m.sep := by
  refine ⟨?_, ?_, ?_, ?_, ?_⟩
  · intro s d w tk
    cases w <;> cases tk <;> rcases d with _ | _ | _ <;>
      simp [nodeStr, nodeBody, nodeTerm, RNode.sent, RNode.isClosure, optStr]
  · intro a b tk
    cases tk <;> simp [nodeStr, nodeBody, nodeTerm, RNode.access, RNode.isClosure, optStr]
  · simp [nodeStr, nodeBody, nodeTerm, RNode.ellipsisNode, RNode.isClosure, optStr]
  · simp [nodeStr, nodeBody, nodeTerm, RNode.closureNode, RNode.isClosure, optStr]
  · simp [nodeStr, nodeBody, nodeTerm, RNode.quitNode, RNode.isClosure, optStr]

-- with the reference marks: `a w1 [-] *; ` and `w0Rw1; `
example :
    nodeStr refMarks refLw (.sent (.atom 0 0) (some false) (some 1) true) =
      [97, 32, 119, 49, 32, 91, 45, 93, 32, 42, 59, 32] ∧
    nodeStr refMarks refLw (.access 0 1) = [119, 48, 82, 119, 49, 59, 32] := by decide +kernel

end Ptx.Props.C19
