/-
  Non-vacuity across ALL regenerated logics (hand-written, kernel-checked): in each of the 57 logics the
  model's own `applyStep` closes `A ⊢ A` in one step and (P3 apart, whose conjunction is a defined
  connective with its own rule shape) `A ∧ B ⊢ A` in two — so `C01_valid_sound`, `C03_closed_implies_ttValid`
  and `C10_reflexive` never hold for want of a closed reachable tableau, in any logic.
-/
import Ptx.Props.Witness
import Ptx.Gen.All
namespace Ptx.Props.Witness
open Ptx

def w0 (L : LogicData) : Option Nat := if L.modal then some 0 else none
def argRefl : Argument := ⟨[A], A⟩

/-- `A ⊢ A` closes in one step, `A ∧ B ⊢ A` in two (except in P3, whose conjunction is defined) -/
def closedAllB : Bool :=
  Gen.all.all fun L =>
    (replay L.sem.soundPart (trunk L.sem argRefl) [.close 0 A (w0 L.sem)]).map Tableau.allClosed == some true &&
    (L.name == "P3" ||
     (replay L.sem.soundPart (trunk L.sem argConj) [.rule 0 0 none none, .close 0 A (w0 L.sem)]).map Tableau.allClosed == some true)

theorem closedAllB_true : closedAllB = true := by decide +kernel

/-- every one of the 57 regenerated logics has a reachable all-closed tableau: the hypotheses of
    `C01_valid_sound` and of `C10_reflexive`'s conclusion are met in each of them -/
theorem all_logics_closed_witness (L : LogicData) (hL : L ∈ Gen.all) :
    ∃ t, Deriv L.sem.soundPart (trunk L.sem argRefl) t ∧ t.allClosed = true := by
  have h := closedAllB_true
  simp only [closedAllB, List.all_eq_true, Bool.and_eq_true, beq_iff_eq] at h
  exact closed_of_replay _ (h L hL).1

theorem all_logics_conj_closed_witness (L : LogicData) (hL : L ∈ Gen.all) (hn : (L.name == "P3") = false) :
    ∃ t, Deriv L.sem.soundPart (trunk L.sem argConj) t ∧ t.allClosed = true := by
  have h := closedAllB_true
  simp only [closedAllB, List.all_eq_true, Bool.and_eq_true, Bool.or_eq_true, beq_iff_eq] at h
  rcases (h L hL).2 with h2 | h2
  · simp [h2] at hn
  · exact closed_of_replay _ h2
end Ptx.Props.Witness
