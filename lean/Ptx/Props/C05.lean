/-
  C05 — branches close exactly when their literals are unsatisfiable.

  Per logic (generated, kernel-evaluated): closure_exact, closure_total, read_exact, read_total,
  and identOKB inside sound_core.  The generic theorems below lift the finite table facts to
  branches of arbitrary sentences in arbitrary structures.
-/
import Ptx.Proofs.Restrict
namespace Ptx.Props.C05
open Ptx

/-- "closed only if unsatisfiable": if the closure table closes the literal set a branch carries
    on some sentence `s` at world `w` (and the logic's closing rows are sound), no structure
    satisfies the branch — for EVERY sentence `s`, not only atoms. -/
theorem C05_closed_unsat {L : LogicData} {M : Struct} (hT : L.tablesTotalB = true) (hM : M.Interp L)
    (hc : L.unsoundClosure = []) {b : Branch} {s : Sent} {w : Option Nat}
    (hclose : L.closure.lookup (b.litSet L s w) = some true) (e : Env M.D) (σ : Nat → M.W) :
    ¬ SatB L M e σ b :=
  closing_unsat hT hM hc hclose e σ

/-- "open literal sets are satisfiable, and by the value the model builder reads": if the row is
    open and the read row is good, the value read satisfies every literal of the set. -/
theorem C05_read_value_satisfies (L : LogicData) (hb : L.badRead = []) (S : List Lit) (v : V)
    (hopen : L.closure.lookup S = some false) (hread : (S, v) ∈ L.readTable) :
    v ∈ L.T.vals ∧ L.litsSatBy S v = true := by
  unfold LogicData.badRead at hb
  rw [List.map_eq_nil_iff, List.filter_eq_nil_iff] at hb
  have := hb (S, v) hread
  simp only [hopen, beq_self_eq_true, Bool.true_and, Bool.not_eq_true', Bool.not_eq_false', Bool.and_eq_true,
    List.contains_iff_mem, Bool.not_eq_eq_eq_not, Bool.not_true] at this
  simpa using this

/-- the exact closure table decides satisfiability of a literal set -/
theorem C05_closure_iff (L : LogicData) (hb : L.badClosure = []) (S : List Lit) (c : Bool)
    (hrow : (S, c) ∈ L.closure) : c = true ↔ L.litsSatisfiable S = false := by
  unfold LogicData.badClosure at hb
  rw [List.map_eq_nil_iff, List.filter_eq_nil_iff] at hb
  have := hb (S, c) hrow
  simp only [beq_iff_eq] at this
  cases c <;> cases h : L.litsSatisfiable S <;> simp_all

/-- `¬ a = a` and `¬ E!a` are unsatisfiable in every classical structure. -/
theorem C05_self_identity_unsat {L : LogicData} {M : Struct} (hM : M.Interp L) (hi : L.identOKB = true)
    (hc : L.closesSelfIdNeg = true) {b : Branch} {x : Param} {d : Option Bool} {w : Option Nat}
    (hd : d ≠ some false) (hmem : Node.sent (.op1 .neg (.pred Pred.identity [x, x])) d w ∈ b.nodes)
    (e : Env M.D) (σ : Nat → M.W) : ¬ SatB L M e σ b :=
  selfId_unsat hM hi hc hd hmem e σ

theorem C05_non_existence_unsat {L : LogicData} {M : Struct} (hM : M.Interp L) (hi : L.identOKB = true)
    (hc : L.closesNonExist = true) {b : Branch} {x : Param} {d : Option Bool} {w : Option Nat}
    (hd : d ≠ some false) (hmem : Node.sent (.op1 .neg (.pred Pred.existence [x])) d w ∈ b.nodes)
    (e : Env M.D) (σ : Nat → M.W) : ¬ SatB L M e σ b :=
  nonExist_unsat hM hi hc hd hmem e σ

/-- non-vacuity: a two-valued mini-logic whose closure table closes the pair {s, ¬s} and whose read table reads T off {s}:
    the Boolean side conditions hold, and the closing / open rows are what `C05_closure_iff` says -/
def miniT : Tables :=
  { vals := [.F, .T], des := [.T], unassigned := .F,
    t1 := [((.neg, .F), .T), ((.neg, .T), .F), ((.asrt, .F), .F), ((.asrt, .T), .T)],
    t2 := [], qf := [], mf := [] }
def miniC : LogicData :=
  { (default : LogicData) with
    tables := miniT,
    closure := [([], false), ([⟨false, none⟩], false), ([⟨true, none⟩], false), ([⟨false, none⟩, ⟨true, none⟩], true)],
    readTable := [([⟨false, none⟩], .T), ([⟨true, none⟩], .F)] }

example : miniC.badClosure = [] ∧ miniC.badRead = [] ∧
    miniC.litsSatisfiable [⟨false, none⟩, ⟨true, none⟩] = false ∧ miniC.litsSatisfiable [⟨false, none⟩] = true := by decide

end Ptx.Props.C05
