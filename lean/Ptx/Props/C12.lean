/-
  C12 — Sentences and arguments survive a write/parse round trip.

  Models: Ptx/Lang/Write.lean (writers), Ptx/Lang/ParsePolish.lean / ParseStandard.lean (parsers),
  symbol tables regenerated into Ptx/Gen/Symbols.lean, their side-conditions (`Compat`,
  `Complete`, …) re-proved in Ptx/Gen/ObSymbols.lean by `decide +kernel`.

  "The parsers' language" is `WF maxi s` (= closed ∧ non-vacuous ∧ no re-binding ∧ arities applied
  exactly ∧ indexes within max, see `wfIn_iff`) together with `ConsistentPreds (userPreds s)` (no
  two predicates share a symbol with different arities).  Two explicit environment hypotheses:
  `depth s ≤ fuel` (enough Python stack) and `subsOK limit s` (every subscript has at most
  `sys.get_int_max_str_digits()` digits — beyond it `str()` in the WRITER already raises).
-/
import Ptx.Proofs.LangParseArg
import Ptx.Proofs.LangWriteInj
import Ptx.Proofs.LangParseWF
import Ptx.Gen.ObSymbols
namespace Ptx.Props.C12
open Ptx Ptx.Sym Ptx.Parse Ptx.Write

/-- `Parser('polish')` as generated, any digit limit -/
def polishCfg (limit : Nat) : Cfg :=
  { table := Gen.Symbols.parse_polish_default, maxi := Gen.Symbols.maxi, autoPreds := true,
    intMaxDigits := limit }

abbrev polishAscii : StringTable := Gen.Symbols.str_text_polish_ascii

theorem polish_compat (limit : Nat) : CompatP (polishCfg limit).table polishAscii (polishCfg limit).maxi :=
  CompatP.of_bool Gen.ObSymbols.str_text_polish_ascii_compat Gen.ObSymbols.str_text_polish_ascii_complete

/-! ### Polish round trip -/

/-- Generalised form (what the induction proves): reading a written sentence followed by any
    continuation `rest` that does not start (after blanks) with a digit or a parameter character,
    under enclosing binders `b` and any store compatible with the sentence's predicates, returns
    the sentence, leaves exactly `rest` (chomped), restores the binders and declares the new
    predicates.  For every writer/parser table pair satisfying `Compat`. -/
theorem C12_polish_roundtrip_cont (cfg : Cfg) (wt : StringTable)
    (hcompat : Compat cfg.table wt = true) (hcomplete : wt.Complete cfg.maxi = true)
    (s : Sent) (fuel : Nat) (b : List Var) (store : Store) (rest : List Chr)
    (hfuel : depth s ≤ fuel) (hwf : wfIn cfg.maxi b s = true) (hsub : subsOK cfg.intMaxDigits s = true)
    (hstore : StoreCompat cfg store s) (hrest : Stops cfg.table rest) :
    readPolish cfg fuel ⟨writePolish wt s ++ rest, b, store⟩
      = .ok s ⟨chomp cfg.table rest, b, storeAfter store s⟩ :=
  readPolish_write (CompatP.of_bool hcompat hcomplete) s fuel b store rest hfuel hwf hsub hstore hrest

example : readPolish (polishCfg 4300) 9 ⟨writePolish polishAscii (.atom 0 12) ++ [32, 75], [], ∅⟩
    = .ok (.atom 0 12) ⟨[75], [], ∅⟩ := by decide +kernel

/-- C12, Polish: for every sentence of the parsers' language, parsing its Polish ASCII rendering
    on a fresh parser returns an equal sentence (and declares exactly its predicates). -/
theorem C12_polish_roundtrip (limit fuel : Nat) (s : Sent)
    (hwf : WF Gen.Symbols.maxi s = true) (harities : ConsistentPreds (userPreds s))
    (hsub : subsOK limit s = true) (hfuel : depth s ≤ fuel) :
    parsePolish (polishCfg limit) fuel ∅ (writePolish polishAscii s) = .ok s (storeAfter ∅ s) := by
  have hst := (storeCompat_of_consistent (polishCfg limit) rfl s ∅ rfl (by show ConsistentPreds ([] ++ userPreds s); simpa using harities)).1
  have := parsePolish_write (polish_compat limit) s fuel ∅ [] hfuel hwf hsub hst (by simp [chomp])
  simpa using this

example : parsePolish (polishCfg 4300) 50 ∅
    (writePolish polishAscii (.quant .univ 0 0 (.op2 .cond (.pred ⟨0, 0, 1⟩ [.var 0 0]) (.pred ⟨-1, 0, 2⟩ [.var 0 0, .const 1 3]))))
    = .ok (.quant .univ 0 0 (.op2 .cond (.pred ⟨0, 0, 1⟩ [.var 0 0]) (.pred ⟨-1, 0, 2⟩ [.var 0 0, .const 1 3])))
        ⟨[⟨0, 0, 1⟩], false⟩ := by decide +kernel

/-- with trailing whitespace, and on a parser whose store already holds compatible predicates -/
theorem C12_polish_roundtrip_store (limit fuel : Nat) (s : Sent) (store : Store) (trail : List Chr)
    (hwf : WF Gen.Symbols.maxi s = true) (hfro : store.frozen = false)
    (harities : ConsistentPreds (store.preds ++ userPreds s))
    (hsub : subsOK limit s = true) (hfuel : depth s ≤ fuel)
    (htrail : chomp (polishCfg limit).table trail = []) :
    parsePolish (polishCfg limit) fuel store (writePolish polishAscii s ++ trail) = .ok s (storeAfter store s) :=
  parsePolish_write (polish_compat limit) s fuel store trail hfuel hwf hsub
    (storeCompat_of_consistent (polishCfg limit) rfl s store hfro harities).1 htrail

example : parsePolish (polishCfg 4300) 50 ⟨[⟨0, 0, 2⟩], false⟩
    (writePolish polishAscii (.pred ⟨0, 0, 2⟩ [.const 0 0, .const 1 0]) ++ [32, 32])
    = .ok (.pred ⟨0, 0, 2⟩ [.const 0 0, .const 1 0]) ⟨[⟨0, 0, 2⟩], false⟩ := by decide +kernel

/-! ### argument strings -/

/-- C12, arguments: the canonical argument string of any argument made of sentences of the
    parsers' language (one arity per symbol across the whole argument) rebuilds an equal
    argument.  `Argument._argstr_lw` / `_argstr_pclass` are the generated `argstrWriter` /
    `argstrParser`; `:` is not a character of the parse table (`argstr_sep_unknown`). -/
theorem C12_argstr_roundtrip (limit fuel : Nat) (a : Argument)
    (hwf : ∀ s ∈ a.conclusion :: a.premises,
      depth s ≤ fuel ∧ WF Gen.Symbols.maxi s = true ∧ subsOK limit s = true)
    (harities : ConsistentPreds ((a.conclusion :: a.premises).flatMap userPreds)) :
    ∃ st, fromArgstr { table := Gen.Symbols.argstrParser, maxi := Gen.Symbols.maxi, intMaxDigits := limit }
      fuel (argstr Gen.Symbols.argstrWriter a) = .ok a st := by
  let cfg : Cfg := { table := Gen.Symbols.argstrParser, maxi := Gen.Symbols.maxi, intMaxDigits := limit }
  have hc : CompatP cfg.table Gen.Symbols.argstrWriter cfg.maxi :=
    CompatP.of_bool Gen.ObSymbols.argstr_compat Gen.ObSymbols.argstr_writer_complete
  have hnosep : ∀ y ∈ (a.conclusion :: a.premises).map (writePolish Gen.Symbols.argstrWriter), (58 : Chr) ∉ y := by
    intro y hy h58
    simp only [List.mem_map] at hy
    obtain ⟨s, hs, rfl⟩ := hy
    have := write_chars_known hc s [] (hwf s hs).2.1 58 h58
    have hn : cfg.table.lookup 58 = none := Gen.ObSymbols.argstr_sep_unknown
    rw [hn] at this
    cases this
  have hsplit : splitOn 58 (argstr Gen.Symbols.argstrWriter a)
      = (a.conclusion :: a.premises).map (writePolish Gen.Symbols.argstrWriter) := by
    simp only [argstr, List.map_cons] at hnosep ⊢
    exact splitOn_intercalate 58 _ _ hnosep
  have hall := parseAll_write hc fuel (a.conclusion :: a.premises) Store.empty hwf
    (storeCompatAll_of_consistent cfg rfl _ Store.empty rfl (by simpa [Store.empty] using harities))
  refine ⟨storeAfterAll Store.empty (a.conclusion :: a.premises), ?_⟩
  have hcfg : ({ cfg with autoPreds := true } : Cfg) = cfg := rfl
  show fromArgstr cfg fuel _ = _
  simp only [fromArgstr, hcfg, hsplit, hall]

example : fromArgstr { table := Gen.Symbols.argstrParser, maxi := Gen.Symbols.maxi } 50
    (argstr Gen.Symbols.argstrWriter ⟨[.pred ⟨0, 0, 1⟩ [.const 0 0], .atom 0 0],
      .op2 .conj (.pred ⟨0, 0, 1⟩ [.const 0 0]) (.pred ⟨1, 0, 1⟩ [.const 1 0])⟩)
    = .ok ⟨[.pred ⟨0, 0, 1⟩ [.const 0 0], .atom 0 0],
        .op2 .conj (.pred ⟨0, 0, 1⟩ [.const 0 0]) (.pred ⟨1, 0, 1⟩ [.const 1 0])⟩
        ⟨[⟨0, 0, 1⟩, ⟨1, 0, 1⟩], false⟩ := by decide +kernel

/-! ### distinct sentences never render to the same string -/

/-- Token level, Polish writer, ALL constructible sentences (open, vacuous, re-bound ones
    included): the token stream determines the sentence — also as a prefix of a longer stream. -/
theorem C12_tokens_injective_polish (m : MaxIdx) (s1 s2 : Sent)
    (h1 : Constructible m s1) (h2 : Constructible m s2) (h : polishToks s1 = polishToks s2) : s1 = s2 := by
  have := polishToks_inj m s1 s2 [] [] (by simpa using h) h1 h2 (by intro t ht; simp at ht) (by intro t ht; simp at ht)
  exact this.1

example : polishToks (.pred ⟨0, 0, 1⟩ [.const 0 1]) ≠ polishToks (.pred ⟨0, 1, 1⟩ [.const 0 0]) := by decide

theorem C12_tokens_prefix_free_polish (m : MaxIdx) (s1 s2 : Sent) (r1 r2 : List WTok)
    (h1 : Constructible m s1) (h2 : Constructible m s2) (hr1 : TStops r1) (hr2 : TStops r2)
    (h : polishToks s1 ++ r1 = polishToks s2 ++ r2) : s1 = s2 ∧ r1 = r2 :=
  polishToks_inj m s1 s2 r1 r2 h h1 h2 hr1 hr2

example : polishToks (.op1 .neg (.atom 0 0)) ++ [.op1 .neg] = [.op1 .neg, .atom 0, .op1 .neg] := by decide

/-- Character level, Polish ASCII (text/ascii): on the parsers' language two sentences with the
    same rendering are equal (corollary of the round trip). -/
theorem C12_render_injective_polish_ascii (limit : Nat) (s1 s2 : Sent)
    (hwf1 : WF Gen.Symbols.maxi s1 = true) (hwf2 : WF Gen.Symbols.maxi s2 = true)
    (ha1 : ConsistentPreds (userPreds s1)) (ha2 : ConsistentPreds (userPreds s2))
    (hs1 : subsOK limit s1 = true) (hs2 : subsOK limit s2 = true)
    (h : writePolish polishAscii s1 = writePolish polishAscii s2) : s1 = s2 := by
  have r1 := C12_polish_roundtrip limit (max (depth s1) (depth s2)) s1 hwf1 ha1 hs1 (Nat.le_max_left _ _)
  have r2 := C12_polish_roundtrip limit (max (depth s1) (depth s2)) s2 hwf2 ha2 hs2 (Nat.le_max_right _ _)
  rw [h, r2] at r1
  injection r1 with e _
  exact e.symm

example : writePolish polishAscii (.atom 0 1) ≠ writePolish polishAscii (.atom 0 10) := by decide +kernel

/-! ### stretch goals — stated in full, NOT proved (see tools/notes_C12.md)

  Standard notation.  `Renders o s str`: `str` is a fully parenthesised infix rendering of `s`
  over the standard parse table — binary operations as `( lhs op rhs )` with the outer pair
  optional, identity written infix `a = b` or prefix `=ab`, user predicates prefix (or infix when
  binary+), arbitrary extra whitespace between any two symbols.

    ▸ theorem C12_standard_denotes (limit fuel) (s) (hwf : WF maxi s) (har : ConsistentPreds (userPreds s))
        (hsub : subsOK limit s) (hfuel : depth s ≤ fuel) (hne : ¬ s.hasExistence)
        (str) (hr : Renders s str) :
        parseStandard (standardCfg limit) fuel ∅ str = .ok s (storeAfter ∅ s)

    ▸ theorem C12_tokens_injective_standard (o : StdOpts) :
        Constructible m s1 → Constructible m s2 → standardToks o s1 = standardToks o s2 → s1 = s2

    ▸ theorem C12_render_injective (n : Notation) (o) (tbl) (h : tbl.Decodable = true) :
        Constructible m s1 → Constructible m s2 → write n o tbl s1 = write n o tbl s2 → s1 = s2

  What exists instead: the standard parser and writer MODELS (corresponded against the code on
  every run), `C13_*_standard` for the parser, the per-table obligations
  `<table>_symbols_distinct` (symbol strings nonempty and pairwise distinct — a necessary
  condition of decodability, all 12 tables), and the implementation-side pairwise-distinct
  oracle over the exhaustive-small tier in harness/props/c12.py.  The examples below only show
  that the standard model computes the intended readings; they are not the theorem.
-/

def standardCfg (limit : Nat) : Cfg :=
  { table := Gen.Symbols.parse_standard_default, maxi := Gen.Symbols.maxi, intMaxDigits := limit }

/-- `C12_standard_denotes_partial`: the writer's own output (text/ascii, default options) of one
    fixed sentence with every construct except Existence, with and without outer parentheses and
    with extra blanks, is read back — by kernel evaluation, for THIS sentence only. -/
theorem C12_standard_denotes_partial :
    let s : Sent := .quant .univ 0 0 (.op2 .cond (.op1 .neg (.pred ⟨0, 0, 1⟩ [.var 0 0]))
      (.op2 .disj (.pred ⟨-1, 0, 2⟩ [.var 0 0, .const 1 3]) (.atom 2 0)))
    let w := writeStandard Gen.Symbols.str_text_standard_ascii {} s
    parseStandard (standardCfg 4300) 50 ∅ w = .ok s ⟨[⟨0, 0, 1⟩], false⟩ ∧
    parseStandard (standardCfg 4300) 50 ∅ ([32, 32] ++ w ++ [32]) = .ok s ⟨[⟨0, 0, 1⟩], false⟩ ∧
    parseStandard (standardCfg 4300) 50 ∅ [65, 32, 32, 38, 66] = .ok (.op2 .conj (.atom 0 0) (.atom 1 0)) ∅ ∧
    parseStandard (standardCfg 4300) 50 ∅ [40, 65, 38, 66, 41] = .ok (.op2 .conj (.atom 0 0) (.atom 1 0)) ∅ := by
  decide +kernel

example : writeStandard Gen.Symbols.str_text_standard_ascii {} (.op2 .conj (.atom 0 0) (.atom 1 0))
    = [65, 32, 38, 32, 66] := by decide +kernel

end Ptx.Props.C12
