/-
  C12 — Sentences and arguments survive a write/parse round trip.

  Models: Ptx/Lang/Write.lean (writers), Ptx/Lang/ParsePolish.lean / ParseStandard.lean (parsers),
  symbol tables regenerated into Ptx/Gen/Symbols.lean, their side-conditions (`Compat`,
  `Complete`, …) re-proved in Ptx/Gen/ObSymbols.lean by `decide +kernel`.

  "The parsers' language" is `WF maxi s` (= closed ∧ non-vacuous ∧ no re-binding ∧ arities applied
  exactly ∧ indexes within max, see `wfIn_iff`) together with `ConsistentPreds (userPreds s)` (no
  two predicates share a symbol with different arities).  Two explicit environment hypotheses:
  `depth s ≤ fuel` (enough Python stack) and `subsOK limit s` (every subscript has at most
  `sys.get_int_max_str_digits()` digits — beyond it `str()` in the WRITER already raises).

  "Distinct sentences never render to the same string" is proved in full as `C12_render_injective`:
  every regenerated string table (6 Polish, 6 standard: text/ascii|text|unicode, html, latex, rst),
  the notation of the table, every option set of the standard writer, ALL constructible sentences
  (no `WF` / `subsOK` needed).  Polish half: `C12_render_injective_polish_tables` (prefix code).
  Standard half: `C12_render_injective_standard_tables` — the tables are a prefix code up to the pair
  `E` (atomic) / `E!` (Existence), which is resolved by one character of lookahead
  (`DecodableLA`, `standard_tables_decodable_lookahead`, Proofs/LangStdFol.lean).  The `_partial`
  variants (sentences without Existence, no lookahead) are kept.
-/
import Ptx.Proofs.LangParseArg
import Ptx.Proofs.LangWriteInj
import Ptx.Proofs.LangParseWF
import Ptx.Proofs.LangStdWrite
import Ptx.Proofs.LangStdInj
import Ptx.Proofs.LangStdDecode
import Ptx.Proofs.LangStdFol
import Ptx.Tab.Render
import Ptx.Gen.ObSymbols
namespace Ptx.Props.C12
open Ptx Ptx.Sym Ptx.Parse Ptx.Write

/-- `Parser('polish')` as generated, any digit limit -/
def polishCfg (limit : Nat) : Cfg :=
  { table := Gen.Symbols.parse_polish_default, maxi := Gen.Symbols.maxi, autoPreds := true,
    intMaxDigits := limit }

abbrev polishAscii : StringTable := Gen.Symbols.str_text_polish_ascii

theorem polish_compat (limit : Nat) : CompatP (polishCfg limit).table polishAscii (polishCfg limit).maxi :=
  CompatP.of_bool Gen.ObSymbols.str_text_polish_ascii_compat Gen.ObSymbols.str_text_polish_ascii_complete

/-! ### Polish round trip -/

/-- Generalised form (what the induction proves): reading a written sentence followed by any
    continuation `rest` that does not start (after blanks) with a digit or a parameter character,
    under enclosing binders `b` and any store compatible with the sentence's predicates, returns
    the sentence, leaves exactly `rest` (chomped), restores the binders and declares the new
    predicates.  For every writer/parser table pair satisfying `Compat`. -/
theorem C12_polish_roundtrip_cont (cfg : Cfg) (wt : StringTable)
    (hcompat : Compat cfg.table wt = true) (hcomplete : wt.Complete cfg.maxi = true)
    (s : Sent) (fuel : Nat) (b : List Var) (store : Store) (rest : List Chr)
    (hfuel : depth s ≤ fuel) (hwf : wfIn cfg.maxi b s = true) (hsub : subsOK cfg.intMaxDigits s = true)
    (hstore : StoreCompat cfg store s) (hrest : Stops cfg.table rest) :
    readPolish cfg fuel ⟨writePolish wt s ++ rest, b, store⟩
      = .ok s ⟨chomp cfg.table rest, b, storeAfter store s⟩ :=
  readPolish_write (CompatP.of_bool hcompat hcomplete) s fuel b store rest hfuel hwf hsub hstore hrest

example : readPolish (polishCfg 4300) 9 ⟨writePolish polishAscii (.atom 0 12) ++ [32, 75], [], ∅⟩
    = .ok (.atom 0 12) ⟨[75], [], ∅⟩ := by decide +kernel

/-- C12, Polish: for every sentence of the parsers' language, parsing its Polish ASCII rendering
    on a fresh parser returns an equal sentence (and declares exactly its predicates). -/
theorem C12_polish_roundtrip (limit fuel : Nat) (s : Sent)
    (hwf : WF Gen.Symbols.maxi s = true) (harities : ConsistentPreds (userPreds s))
    (hsub : subsOK limit s = true) (hfuel : depth s ≤ fuel) :
    parsePolish (polishCfg limit) fuel ∅ (writePolish polishAscii s) = .ok s (storeAfter ∅ s) := by
  have hst := (storeCompat_of_consistent (polishCfg limit) rfl s ∅ rfl (by show ConsistentPreds ([] ++ userPreds s); simpa using harities)).1
  have := parsePolish_write (polish_compat limit) s fuel ∅ [] hfuel hwf hsub hst (by simp [chomp])
  simpa using this

example : parsePolish (polishCfg 4300) 50 ∅
    (writePolish polishAscii (.quant .univ 0 0 (.op2 .cond (.pred ⟨0, 0, 1⟩ [.var 0 0]) (.pred ⟨-1, 0, 2⟩ [.var 0 0, .const 1 3]))))
    = .ok (.quant .univ 0 0 (.op2 .cond (.pred ⟨0, 0, 1⟩ [.var 0 0]) (.pred ⟨-1, 0, 2⟩ [.var 0 0, .const 1 3])))
        ⟨[⟨0, 0, 1⟩], false⟩ := by decide +kernel

/-- with trailing whitespace, and on a parser whose store already holds compatible predicates -/
theorem C12_polish_roundtrip_store (limit fuel : Nat) (s : Sent) (store : Store) (trail : List Chr)
    (hwf : WF Gen.Symbols.maxi s = true) (hfro : store.frozen = false)
    (harities : ConsistentPreds (store.preds ++ userPreds s))
    (hsub : subsOK limit s = true) (hfuel : depth s ≤ fuel)
    (htrail : chomp (polishCfg limit).table trail = []) :
    parsePolish (polishCfg limit) fuel store (writePolish polishAscii s ++ trail) = .ok s (storeAfter store s) :=
  parsePolish_write (polish_compat limit) s fuel store trail hfuel hwf hsub
    (storeCompat_of_consistent (polishCfg limit) rfl s store hfro harities).1 htrail

example : parsePolish (polishCfg 4300) 50 ⟨[⟨0, 0, 2⟩], false⟩
    (writePolish polishAscii (.pred ⟨0, 0, 2⟩ [.const 0 0, .const 1 0]) ++ [32, 32])
    = .ok (.pred ⟨0, 0, 2⟩ [.const 0 0, .const 1 0]) ⟨[⟨0, 0, 2⟩], false⟩ := by decide +kernel

/-! ### argument strings -/

/-- C12, arguments: the canonical argument string of any argument made of sentences of the
    parsers' language (one arity per symbol across the whole argument) rebuilds an equal
    argument.  `Argument._argstr_lw` / `_argstr_pclass` are the generated `argstrWriter` /
    `argstrParser`; `:` is not a character of the parse table (`argstr_sep_unknown`). -/
theorem C12_argstr_roundtrip (limit fuel : Nat) (a : Argument)
    (hwf : ∀ s ∈ a.conclusion :: a.premises,
      depth s ≤ fuel ∧ WF Gen.Symbols.maxi s = true ∧ subsOK limit s = true)
    (harities : ConsistentPreds ((a.conclusion :: a.premises).flatMap userPreds)) :
    ∃ st, fromArgstr { table := Gen.Symbols.argstrParser, maxi := Gen.Symbols.maxi, intMaxDigits := limit }
      fuel (argstr Gen.Symbols.argstrWriter a) = .ok a st := by
  let cfg : Cfg := { table := Gen.Symbols.argstrParser, maxi := Gen.Symbols.maxi, intMaxDigits := limit }
  have hc : CompatP cfg.table Gen.Symbols.argstrWriter cfg.maxi :=
    CompatP.of_bool Gen.ObSymbols.argstr_compat Gen.ObSymbols.argstr_writer_complete
  have hnosep : ∀ y ∈ (a.conclusion :: a.premises).map (writePolish Gen.Symbols.argstrWriter), (58 : Chr) ∉ y := by
    intro y hy h58
    simp only [List.mem_map] at hy
    obtain ⟨s, hs, rfl⟩ := hy
    have := write_chars_known hc s [] (hwf s hs).2.1 58 h58
    have hn : cfg.table.lookup 58 = none := Gen.ObSymbols.argstr_sep_unknown
    rw [hn] at this
    cases this
  have hsplit : splitOn 58 (argstr Gen.Symbols.argstrWriter a)
      = (a.conclusion :: a.premises).map (writePolish Gen.Symbols.argstrWriter) := by
    simp only [argstr, List.map_cons] at hnosep ⊢
    exact splitOn_intercalate 58 _ _ hnosep
  have hall := parseAll_write hc fuel (a.conclusion :: a.premises) Store.empty hwf
    (storeCompatAll_of_consistent cfg rfl _ Store.empty rfl (by simpa [Store.empty] using harities))
  refine ⟨storeAfterAll Store.empty (a.conclusion :: a.premises), ?_⟩
  have hcfg : ({ cfg with autoPreds := true } : Cfg) = cfg := rfl
  show fromArgstr cfg fuel _ = _
  simp only [fromArgstr, hcfg, hsplit, hall]

example : fromArgstr { table := Gen.Symbols.argstrParser, maxi := Gen.Symbols.maxi } 50
    (argstr Gen.Symbols.argstrWriter ⟨[.pred ⟨0, 0, 1⟩ [.const 0 0], .atom 0 0],
      .op2 .conj (.pred ⟨0, 0, 1⟩ [.const 0 0]) (.pred ⟨1, 0, 1⟩ [.const 1 0])⟩)
    = .ok ⟨[.pred ⟨0, 0, 1⟩ [.const 0 0], .atom 0 0],
        .op2 .conj (.pred ⟨0, 0, 1⟩ [.const 0 0]) (.pred ⟨1, 0, 1⟩ [.const 1 0])⟩
        ⟨[⟨0, 0, 1⟩, ⟨1, 0, 1⟩], false⟩ := by decide +kernel

/-! ### distinct sentences never render to the same string -/

/-- Token level, Polish writer, ALL constructible sentences (open, vacuous, re-bound ones
    included): the token stream determines the sentence — also as a prefix of a longer stream. -/
theorem C12_tokens_injective_polish (m : MaxIdx) (s1 s2 : Sent)
    (h1 : Constructible m s1) (h2 : Constructible m s2) (h : polishToks s1 = polishToks s2) : s1 = s2 := by
  have := polishToks_inj m s1 s2 [] [] (by simpa using h) h1 h2 (by intro t ht; simp at ht) (by intro t ht; simp at ht)
  exact this.1

example : polishToks (.pred ⟨0, 0, 1⟩ [.const 0 1]) ≠ polishToks (.pred ⟨0, 1, 1⟩ [.const 0 0]) := by decide

theorem C12_tokens_prefix_free_polish (m : MaxIdx) (s1 s2 : Sent) (r1 r2 : List WTok)
    (h1 : Constructible m s1) (h2 : Constructible m s2) (hr1 : TStops r1) (hr2 : TStops r2)
    (h : polishToks s1 ++ r1 = polishToks s2 ++ r2) : s1 = s2 ∧ r1 = r2 :=
  polishToks_inj m s1 s2 r1 r2 h h1 h2 hr1 hr2

example : polishToks (.op1 .neg (.atom 0 0)) ++ [.op1 .neg] = [.op1 .neg, .atom 0, .op1 .neg] := by decide

/-- Character level, Polish ASCII (text/ascii): on the parsers' language two sentences with the
    same rendering are equal (corollary of the round trip). -/
theorem C12_render_injective_polish_ascii (limit : Nat) (s1 s2 : Sent)
    (hwf1 : WF Gen.Symbols.maxi s1 = true) (hwf2 : WF Gen.Symbols.maxi s2 = true)
    (ha1 : ConsistentPreds (userPreds s1)) (ha2 : ConsistentPreds (userPreds s2))
    (hs1 : subsOK limit s1 = true) (hs2 : subsOK limit s2 = true)
    (h : writePolish polishAscii s1 = writePolish polishAscii s2) : s1 = s2 := by
  have r1 := C12_polish_roundtrip limit (max (depth s1) (depth s2)) s1 hwf1 ha1 hs1 (Nat.le_max_left _ _)
  have r2 := C12_polish_roundtrip limit (max (depth s1) (depth s2)) s2 hwf2 ha2 hs2 (Nat.le_max_right _ _)
  rw [h, r2] at r1
  injection r1 with e _
  exact e.symm

example : writePolish polishAscii (.atom 0 1) ≠ writePolish polishAscii (.atom 0 10) := by decide +kernel

/-! ### standard notation -/

/-- `Parser('standard')` as generated (`auto_preds`, `drop_parens` defaults), any digit limit -/
def standardCfg (limit : Nat) : Cfg :=
  { table := Gen.Symbols.parse_standard_default, maxi := Gen.Symbols.maxi, intMaxDigits := limit }

abbrev standardAscii : StringTable := Gen.Symbols.str_text_standard_ascii

/-- the parser's option defaults are the generated ones -/
theorem standardCfg_defaults (limit : Nat) :
    (standardCfg limit).autoPreds = Gen.Symbols.standardAutoPreds ∧
    (standardCfg limit).dropParens = Gen.Symbols.standardDropParens := ⟨rfl, rfl⟩

theorem standard_parens : ParensOK Gen.Symbols.parse_standard_default = true := by decide +kernel

theorem standard_compat (limit : Nat) :
    CompatStdP (standardCfg limit).table standardAscii (standardCfg limit).maxi :=
  CompatStdP.of_bool Gen.ObSymbols.str_text_standard_ascii_compat Gen.ObSymbols.str_text_standard_ascii_complete

/-- Generalised form (what the induction proves), for ANY parse table: `_read` on an inner
    rendering (`RendersIn`: every binary operation parenthesised, identity / n-ary predicates
    prefix or infix, arbitrary whitespace after every symbol and digit, any digit word of the
    subscript's value) followed by a continuation that does not start with a digit or a parameter
    returns the sentence, leaves the continuation, restores the binders and declares the new
    predicates.  The paren scan-ahead (`scanParen_rendersIn`) is part of it. -/
theorem C12_standard_denotes_cont (cfg : Cfg) (s : Sent) (x : List Chr)
    (hr : RendersIn cfg.table cfg.intMaxDigits s x)
    (fuel : Nat) (b : List Var) (store : Store) (rest : List Chr)
    (hfuel : depth s ≤ fuel) (hwf : wfIn cfg.maxi b s = true)
    (hstore : StoreCompat cfg store s) (hrest : Stops cfg.table rest) :
    readStd cfg fuel ⟨x ++ rest, b, store⟩ = .ok s ⟨chomp cfg.table rest, b, storeAfter store s⟩ :=
  readStd_renders hr fuel b store rest hfuel hwf hstore hrest

theorem ws32 : Ws Gen.Symbols.parse_standard_default [32] := by
  intro c h; simp at h; subst h; decide +kernel
/-- `A 07` is a rendering of the atomic `A₇` -/
theorem rendersIn_A07 : RendersIn Gen.Symbols.parse_standard_default 4300 (.atom 0 7) [65, 32, 48, 55] :=
  RendersIn.atom (c := 65) (w := [32]) (x := [48, 55]) (by decide +kernel) ws32
    (SubR.mk (ds := [0, 7])
      (DigitsR.cons (c := 48) (w := []) (r := [55]) (by decide +kernel) (Ws.nil _)
        (DigitsR.cons (c := 55) (w := []) (r := []) (by decide +kernel) (Ws.nil _) DigitsR.nil))
      (Or.inr (by decide)))

example : readStd (standardCfg 4300) 5 ⟨[65, 32, 48, 55] ++ [41], [], ∅⟩ = .ok (.atom 0 7) ⟨[41], [], ∅⟩ :=
  C12_standard_denotes_cont (standardCfg 4300) _ _ rendersIn_A07 5 [] ∅ [41] (by decide) (by decide) trivial
    (stops_cons (k := .parenClose) [] (by decide +kernel) (by simp) rfl rfl)

/-- C12, standard notation: the standard parser maps every rendering (`Renders`: outer
    parentheses optional, arbitrary extra whitespace, infix or prefix predications, any digit
    word for a subscript within the int() limit) of a sentence of its language to that sentence,
    and declares exactly its predicates.  Existence is included here (the PARSER's symbol `!a`). -/
theorem C12_standard_denotes (limit fuel : Nat) (s : Sent)
    (hwf : WF Gen.Symbols.maxi s = true) (harities : ConsistentPreds (userPreds s))
    (hfuel : depth s ≤ fuel)
    (str : List Chr) (hr : Renders Gen.Symbols.parse_standard_default limit s str) :
    parseStandard (standardCfg limit) fuel ∅ str = .ok s (storeAfter ∅ s) :=
  parseStandard_renders (cfg := standardCfg limit) hr standard_parens rfl rfl fuel ∅ hfuel hwf rfl
    (by show ConsistentPreds ([] ++ userPreds s); simpa using harities)

/-- ` A 07 &  A 07` (outer parentheses dropped) -/
example : parseStandard (standardCfg 4300) 5 ∅ ([32] ++ ([65, 32, 48, 55] ++ ([32] ++ (38 :: ([32] ++ [65, 32, 48, 55])))))
    = .ok (.op2 .conj (.atom 0 7) (.atom 0 7)) ∅ :=
  C12_standard_denotes 4300 5 _ (by decide) (by decide) (by decide) _
    (Renders.dropped ws32 rendersIn_A07 ws32 (by decide +kernel) ws32 rendersIn_A07)

/-- … on a parser whose store already holds predicates (jointly one arity per symbol) -/
theorem C12_standard_denotes_store (limit fuel : Nat) (s : Sent) (store : Store)
    (hwf : WF Gen.Symbols.maxi s = true) (hfro : store.frozen = false)
    (harities : ConsistentPreds (store.preds ++ userPreds s)) (hfuel : depth s ≤ fuel)
    (str : List Chr) (hr : Renders Gen.Symbols.parse_standard_default limit s str) :
    parseStandard (standardCfg limit) fuel store str = .ok s (storeAfter store s) :=
  parseStandard_renders (cfg := standardCfg limit) hr standard_parens rfl rfl fuel store hfuel hwf hfro harities

example : parseStandard (standardCfg 4300) 5 ⟨[⟨0, 0, 2⟩], false⟩ ([] ++ [65, 32, 48, 55])
    = .ok (.atom 0 7) ⟨[⟨0, 0, 2⟩], false⟩ :=
  C12_standard_denotes_store 4300 5 _ _ (by decide) rfl (by decide) (by decide) _
    (Renders.inner (Ws.nil _) rendersIn_A07)

/-- … and a parser with `drop_parens=False` reads every rendering that has all its parentheses -/
theorem C12_standard_denotes_parens (limit fuel : Nat) (s : Sent) (dp : Bool)
    (hwf : WF Gen.Symbols.maxi s = true) (harities : ConsistentPreds (userPreds s)) (hfuel : depth s ≤ fuel)
    (w x w' : List Chr) (hw : Ws Gen.Symbols.parse_standard_default w)
    (hw' : Ws Gen.Symbols.parse_standard_default w')
    (hr : RendersIn Gen.Symbols.parse_standard_default limit s x) :
    parseStandard { standardCfg limit with dropParens := dp } fuel ∅ (w ++ (x ++ w')) = .ok s (storeAfter ∅ s) :=
  parseStandard_rendersIn (cfg := { standardCfg limit with dropParens := dp }) hr hw hw' rfl fuel ∅ hfuel hwf rfl
    (by show ConsistentPreds ([] ++ userPreds s); simpa using harities)

example : parseStandard { standardCfg 4300 with dropParens := false } 5 ∅ ([32] ++ ([65, 32, 48, 55] ++ [32]))
    = .ok (.atom 0 7) ∅ :=
  C12_standard_denotes_parens 4300 5 _ false (by decide) (by decide) (by decide) _ _ _ ws32 ws32 rendersIn_A07

/-- C12, standard notation, the writer's own output: for EVERY option set of `StandardLexWriter`
    (`drop_parens`, `identity_infix`, `max_infix`) and every sentence of the language that the
    writer writes in the parser's alphabet (`stdReadable`: no Existence predication — written
    `E!a`, the parser reads `!a` —, and with `identity_infix` no negated identity — written
    `a != b`), parsing the text/ascii rendering returns an equal sentence. -/
theorem C12_standard_roundtrip (limit fuel : Nat) (o : StdOpts) (s : Sent)
    (hwf : WF Gen.Symbols.maxi s = true) (harities : ConsistentPreds (userPreds s))
    (hsub : subsOK limit s = true) (hfuel : depth s ≤ fuel) (hread : stdReadable o s = true) :
    parseStandard (standardCfg limit) fuel ∅ (writeStandard standardAscii o s) = .ok s (storeAfter ∅ s) :=
  C12_standard_denotes limit fuel s hwf harities hfuel _
    (renders_write (standard_compat limit) o limit s hwf hsub hread)

example : parseStandard (standardCfg 4300) 50 ∅
    (writeStandard standardAscii {} (.quant .univ 0 0 (.op2 .cond (.op1 .neg (.pred ⟨0, 0, 1⟩ [.var 0 0]))
      (.op2 .disj (.pred ⟨-1, 0, 2⟩ [.var 0 0, .const 1 3]) (.atom 2 0)))))
    = .ok (.quant .univ 0 0 (.op2 .cond (.op1 .neg (.pred ⟨0, 0, 1⟩ [.var 0 0]))
      (.op2 .disj (.pred ⟨-1, 0, 2⟩ [.var 0 0, .const 1 3]) (.atom 2 0)))) ⟨[⟨0, 0, 1⟩], false⟩ :=
  C12_standard_roundtrip 4300 50 {} _ (by decide) (by decide) (by decide) (by decide) (by decide)

/-- the exclusion is not vacuous-making: the two excluded constructs really are not read back -/
example : parseStandard (standardCfg 4300) 50 ∅ (writeStandard standardAscii {} (.pred Pred.existence [.const 0 0]))
    ≠ .ok (.pred Pred.existence [.const 0 0]) ∅ := by decide +kernel
example : parseStandard (standardCfg 4300) 50 ∅
    (writeStandard standardAscii {} (.op1 .neg (.pred Pred.identity [.const 0 0, .const 1 0])))
    ≠ .ok (.op1 .neg (.pred Pred.identity [.const 0 0, .const 1 0])) ∅ := by decide +kernel

/-- the writer's output IS a rendering (so `Renders` is not an ad-hoc set), for any option set -/
theorem C12_standard_writer_renders (limit : Nat) (o : StdOpts) (s : Sent)
    (hwf : WF Gen.Symbols.maxi s = true) (hsub : subsOK limit s = true) (hread : stdReadable o s = true) :
    Renders Gen.Symbols.parse_standard_default limit s (writeStandard standardAscii o s) :=
  renders_write (standard_compat limit) o limit s hwf hsub hread

example : Renders Gen.Symbols.parse_standard_default 4300 (.op2 .conj (.atom 0 0) (.atom 1 0)) [65, 32, 38, 32, 66] :=
  C12_standard_writer_renders 4300 {} _ (by decide) (by decide) (by decide)

/-! ### token level, standard writer -/

/-- Token level, standard writer, EVERY option set (`drop_parens`, `identity_infix`, `max_infix`),
    all constructible sentences: the token stream of `StandardLexWriter.__call__` determines the
    sentence. -/
theorem C12_tokens_injective_standard (m : MaxIdx) (o : StdOpts) (s1 s2 : Sent)
    (h1 : Constructible m s1) (h2 : Constructible m s2) (h : standardToks o s1 = standardToks o s2) : s1 = s2 :=
  standardToks_inj m o s1 s2 h1 h2 h

example : standardToks {} (.op2 .conj (.atom 0 0) (.atom 1 0)) ≠ standardToks {} (.op2 .conj (.atom 1 0) (.atom 0 0)) := by
  decide
example : Constructible Gen.Symbols.maxi (.op1 .neg (.pred Pred.identity [.const 0 0, .const 1 0])) := ⟨by decide, by decide⟩

/-- the inner writer (`_write`: all binary operations parenthesised) is uniquely readable also as
    a prefix of a longer stream that does not continue with a parameter or a subscript -/
theorem C12_tokens_prefix_free_standard (m : MaxIdx) (o : StdOpts) (s1 s2 : Sent) (r1 r2 : List WTok)
    (h1 : Constructible m s1) (h2 : Constructible m s2) (hr1 : TStops r1) (hr2 : TStops r2)
    (h : stdToksIn o s1 ++ r1 = stdToksIn o s2 ++ r2) : s1 = s2 ∧ r1 = r2 :=
  stdToksIn_inj m o s1.size s1 s2 r1 r2 (Nat.le_refl _) h h1 h2 hr1 hr2

example : stdToksIn {} (.pred Pred.identity [.const 0 0, .const 1 0]) ++ [.parenClose]
    = [.const 0, .ws, .identity, .ws, .const 1, .parenClose] := by decide

/-! ### character level, every regenerated string table -/

/-- every regenerated Polish table (text/ascii, text/text, text/unicode, html, latex, rst) is
    `Decodable` with the Existence symbol: symbol strings nonempty, not starting with a digit and
    a prefix code; subscripts bare digits, or opened by a marker prefix-incomparable with every
    symbol and closed by a marker that starts with a non-digit -/
theorem polish_tables_decodable :
    ∀ t ∈ Gen.Symbols.stringTables, t.notn = "polish" → Decodable t Gen.Symbols.maxi true = true := by
  decide +kernel

/-- every regenerated standard table is `Decodable` WITHOUT the Existence symbol (`E!`, of which
    the atomic `E` is a prefix, in all of them) and has parentheses and a negated-identity symbol -/
theorem standard_tables_decodable :
    ∀ t ∈ Gen.Symbols.stringTables, t.notn = "standard" →
      Decodable t Gen.Symbols.maxi false = true ∧
      (t.parenOpen.isSome && t.parenClose.isSome && t.negIdentity.isSome) = true := by
  decide +kernel

/-- the obstacle is real: with Existence no standard table is a prefix code -/
example : ∀ t ∈ Gen.Symbols.stringTables, t.notn = "standard" → Decodable t Gen.Symbols.maxi true = false := by
  decide +kernel

/-- `render t` is injective on admissible token streams, for any `Decodable` table -/
theorem C12_render_tokens_injective (t : StringTable) (m : MaxIdx) (ex : Bool) (hd : Decodable t m ex = true)
    (ts1 ts2 : List WTok) (a1 : Adm (symToks t m ex) ts1) (a2 : Adm (symToks t m ex) ts2)
    (h : render t ts1 = render t ts2) : ts1 = ts2 :=
  render_inj (DecodableP.of_bool hd) ts1 ts2 a1 a2 (fol_false _ _) (fol_false _ _) h

example : Adm (symToks Gen.Symbols.str_html_polish_html Gen.Symbols.maxi true) [.atom 0, .sub 12, .op1 .neg] :=
  ⟨Or.inr (by decide), Or.inl ⟨12, rfl, by decide, by intro t ht; simp at ht; subst ht; rfl⟩, Or.inr (by decide), trivial⟩

/-- C12, "distinct sentences never render to the same string", Polish notation, ANY table that
    is `Decodable` (with Existence): all constructible sentences (open / vacuous / re-bound ones
    included). -/
theorem C12_render_injective_polish (t : StringTable) (m : MaxIdx) (hd : Decodable t m true = true)
    (s1 s2 : Sent) (c1 : Constructible m s1) (c2 : Constructible m s2)
    (h : writePolish t s1 = writePolish t s2) : s1 = s2 := by
  have ht := hasToks_symToks t m true
  have nn : NoSub ([] : List WTok) := tstops_nil.noSub
  have a1 := adm_polish ht rfl s1 [] c1 trivial nn
  have a2 := adm_polish ht rfl s2 [] c2 trivial nn
  simp only [List.append_nil] at a1 a2
  exact C12_tokens_injective_polish m s1 s2 c1 c2 (render_inj (DecodableP.of_bool hd) _ _ a1 a2 (fol_false _ _) (fol_false _ _) h)

/-- … instantiated: every regenerated Polish string table -/
theorem C12_render_injective_polish_tables (t : StringTable) (ht : t ∈ Gen.Symbols.stringTables)
    (hn : t.notn = "polish") (s1 s2 : Sent)
    (c1 : Constructible Gen.Symbols.maxi s1) (c2 : Constructible Gen.Symbols.maxi s2)
    (h : writePolish t s1 = writePolish t s2) : s1 = s2 :=
  C12_render_injective_polish t Gen.Symbols.maxi (polish_tables_decodable t ht hn) s1 s2 c1 c2 h

example : writePolish Gen.Symbols.str_latex_polish_latex (.atom 0 1) ≠ writePolish Gen.Symbols.str_latex_polish_latex (.atom 0 10) := by
  decide +kernel
example : Gen.Symbols.str_latex_polish_latex ∈ Gen.Symbols.stringTables ∧ Gen.Symbols.str_latex_polish_latex.notn = "polish" :=
  ⟨by simp [Gen.Symbols.stringTables], by decide +kernel⟩

/-- `C12_render_injective_standard_partial`: standard notation, any table `Decodable` without
    Existence and having parentheses and a negated-identity symbol, EVERY option set, all
    constructible sentences WITHOUT an Existence predication.
    (Kept from the version without lookahead; superseded by `C12_render_injective_standard`, which
    covers sentences containing Existence — `E` (atomic 4) is a prefix of `E!` in all six standard
    tables — through the follower discipline of standard streams.) -/
theorem C12_render_injective_standard_partial (t : StringTable) (m : MaxIdx) (o : StdOpts)
    (hd : Decodable t m false = true)
    (hstd : (t.parenOpen.isSome && t.parenClose.isSome && t.negIdentity.isSome) = true)
    (s1 s2 : Sent) (c1 : Constructible m s1) (c2 : Constructible m s2)
    (e1 : noExistence s1 = true) (e2 : noExistence s2 = true)
    (h : writeStandard t o s1 = writeStandard t o s2) : s1 = s2 := by
  have ht := hasToks_symToks t m false
  rw [hstd] at ht
  have a1 := adm_standard ht o s1 c1 (Or.inr e1)
  have a2 := adm_standard ht o s2 c2 (Or.inr e2)
  exact C12_tokens_injective_standard m o s1 s2 c1 c2 (render_inj (DecodableP.of_bool hd) _ _ a1 a2 (fol_false _ _) (fol_false _ _) h)

/-- … instantiated: every regenerated standard string table, every option set -/
theorem C12_render_injective_standard_tables_partial (t : StringTable) (ht : t ∈ Gen.Symbols.stringTables)
    (hn : t.notn = "standard") (o : StdOpts) (s1 s2 : Sent)
    (c1 : Constructible Gen.Symbols.maxi s1) (c2 : Constructible Gen.Symbols.maxi s2)
    (e1 : noExistence s1 = true) (e2 : noExistence s2 = true)
    (h : writeStandard t o s1 = writeStandard t o s2) : s1 = s2 :=
  C12_render_injective_standard_partial t Gen.Symbols.maxi o (standard_tables_decodable t ht hn).1
    (standard_tables_decodable t ht hn).2 s1 s2 c1 c2 e1 e2 h

example : writeStandard Gen.Symbols.str_html_standard_html {} (.op2 .conj (.atom 0 0) (.atom 1 0))
    ≠ writeStandard Gen.Symbols.str_html_standard_html {} (.op2 .disj (.atom 0 0) (.atom 1 0)) := by decide +kernel
example : noExistence (.op1 .neg (.pred Pred.identity [.const 0 0, .const 1 0])) = true := by decide

/-! ### standard notation with Existence: the lookahead -/

/-- every regenerated standard table is `DecodableLA`: decodable WITH the Existence symbol once the
    prefix pair (atomic `E`, `E!`) is excused — the character after `E` in `E!` is not a digit and
    is not the first character of the subscript opener, the blank or the close paren, which (with
    the end of the stream) is all that follows an atomic token in a standard stream
    (`fol_standard`) -/
theorem standard_tables_decodable_lookahead :
    ∀ t ∈ Gen.Symbols.stringTables, t.notn = "standard" →
      DecodableLA t Gen.Symbols.maxi = true ∧
      (t.parenOpen.isSome && t.parenClose.isSome && t.negIdentity.isSome) = true := by
  decide +kernel

/-- the excusal is not a blanket one: a table whose blank were `!` is rejected -/
example : DecodableLA { Gen.Symbols.str_text_standard_ascii with ws := [33] } Gen.Symbols.maxi = false := by
  decide +kernel

/-- C12, "distinct sentences never render to the same string", standard notation, ANY table that is
    `DecodableLA` and has parentheses and a negated-identity symbol, EVERY option set
    (`drop_parens`, `identity_infix`, `max_infix`), ALL constructible sentences (Existence, open /
    vacuous / re-bound ones included). -/
theorem C12_render_injective_standard (t : StringTable) (m : MaxIdx) (o : StdOpts)
    (hd : DecodableLA t m = true)
    (hstd : (t.parenOpen.isSome && t.parenClose.isSome && t.negIdentity.isSome) = true)
    (s1 s2 : Sent) (c1 : Constructible m s1) (c2 : Constructible m s2)
    (h : writeStandard t o s1 = writeStandard t o s2) : s1 = s2 := by
  have ht := hasToks_symToks t m true
  rw [hstd] at ht
  have a1 := adm_standard ht o s1 c1 (Or.inl rfl)
  have a2 := adm_standard ht o s2 c2 (Or.inl rfl)
  exact C12_tokens_injective_standard m o s1 s2 c1 c2
    (render_inj (DecodableP.of_boolG hd) _ _ a1 a2 (fol_standard m o s1 c1) (fol_standard m o s2 c2) h)

example : Constructible Gen.Symbols.maxi (.op2 .conj (.atom 4 0) (.pred Pred.existence [.const 0 0])) :=
  ⟨by decide, by decide⟩

/-- … instantiated: every regenerated standard string table (text/ascii|text|unicode, html, latex,
    rst), every option set -/
theorem C12_render_injective_standard_tables (t : StringTable) (ht : t ∈ Gen.Symbols.stringTables)
    (hn : t.notn = "standard") (o : StdOpts) (s1 s2 : Sent)
    (c1 : Constructible Gen.Symbols.maxi s1) (c2 : Constructible Gen.Symbols.maxi s2)
    (h : writeStandard t o s1 = writeStandard t o s2) : s1 = s2 :=
  C12_render_injective_standard t Gen.Symbols.maxi o (standard_tables_decodable_lookahead t ht hn).1
    (standard_tables_decodable_lookahead t ht hn).2 s1 s2 c1 c2 h

/-- `E!a` against `E` (atomic 4) and against `E & a`-like continuations -/
example : writeStandard Gen.Symbols.str_text_standard_ascii {} (.pred Pred.existence [.const 0 0])
    ≠ writeStandard Gen.Symbols.str_text_standard_ascii {} (.atom 4 0) ∧
    writeStandard Gen.Symbols.str_text_standard_ascii {} (.pred Pred.existence [.const 0 0]) = [69, 33, 97] := by
  decide +kernel

/-- **C12, distinct sentences never render to the same string — the full statement**: for every
    regenerated string table (all formats and dialects), the notation the table belongs to, every
    option set of the standard writer, and ALL constructible sentences.  (`Render.writeSent tbl nt`
    is `PolishLexWriter` / `StandardLexWriter(**opts)` on the table.) -/
theorem C12_render_injective (t : StringTable) (ht : t ∈ Gen.Symbols.stringTables) (nt : Render.Notn)
    (hnt : (t.notn = "polish" ∧ nt = .polish) ∨ (t.notn = "standard" ∧ ∃ o, nt = .standard o))
    (s1 s2 : Sent) (c1 : Constructible Gen.Symbols.maxi s1) (c2 : Constructible Gen.Symbols.maxi s2)
    (h : Render.writeSent t nt s1 = Render.writeSent t nt s2) : s1 = s2 := by
  rcases hnt with ⟨hn, rfl⟩ | ⟨hn, o, rfl⟩
  · exact C12_render_injective_polish_tables t ht hn s1 s2 c1 c2 h
  · exact C12_render_injective_standard_tables t ht hn o s1 s2 c1 c2 h

example : ∀ t ∈ Gen.Symbols.stringTables, t.notn = "polish" ∨ t.notn = "standard" := by decide +kernel
example : Render.writeSent Gen.Symbols.str_rst_standard_rst (.standard {}) (.pred Pred.existence [.const 0 0])
    ≠ Render.writeSent Gen.Symbols.str_rst_standard_rst (.standard {}) (.atom 4 0) := by decide +kernel

/-- `C12_standard_denotes_partial` (kept from the first version): kernel evaluation for one fixed
    sentence; superseded by `C12_standard_denotes` / `C12_standard_roundtrip`. -/
theorem C12_standard_denotes_partial :
    let s : Sent := .quant .univ 0 0 (.op2 .cond (.op1 .neg (.pred ⟨0, 0, 1⟩ [.var 0 0]))
      (.op2 .disj (.pred ⟨-1, 0, 2⟩ [.var 0 0, .const 1 3]) (.atom 2 0)))
    let w := writeStandard Gen.Symbols.str_text_standard_ascii {} s
    parseStandard (standardCfg 4300) 50 ∅ w = .ok s ⟨[⟨0, 0, 1⟩], false⟩ ∧
    parseStandard (standardCfg 4300) 50 ∅ ([32, 32] ++ w ++ [32]) = .ok s ⟨[⟨0, 0, 1⟩], false⟩ ∧
    parseStandard (standardCfg 4300) 50 ∅ [65, 32, 32, 38, 66] = .ok (.op2 .conj (.atom 0 0) (.atom 1 0)) ∅ ∧
    parseStandard (standardCfg 4300) 50 ∅ [40, 65, 38, 66, 41] = .ok (.op2 .conj (.atom 0 0) (.atom 1 0)) ∅ := by
  decide +kernel

example : writeStandard Gen.Symbols.str_text_standard_ascii {} (.op2 .conj (.atom 0 0) (.atom 1 0))
    = [65, 32, 38, 32, 66] := by decide +kernel

end Ptx.Props.C12
