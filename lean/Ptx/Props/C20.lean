/-
  C20 — the published description of a model says what the model evaluates.

  Theorems about `LibModel.getData` / `frameData` (mirror of BaseModel.get_data, Frame.get_data,
  PredicateInterpretation.having) against the evaluator mirror `LibModel.valueOf` and the model's
  access relation.  The export of world `w` is `frameData L (frameD m w)` (`C20_export_frames`).

    C20_worlds_access_partial, C20_worlds_access_serial_witness
    C20_atoms, C20_opaques (+ _listed: nothing assigned is left out)
    C20_extension (↔), C20_anti_extension_sound (→), C20_anti_extension_partial (← when the
      unassigned value is not false-containing), C20_anti_extension_witness (← fails: LP)
    C20_predicates_listed, C20_no_foreign_tuple
    C20_sorted, C20_sorted_access, C20_sorted_access_reachable, C20_deterministic
-/
import Ptx.Proofs.LibModelKeys
import Ptx.Proofs.LibModelTest
namespace Ptx.Props.C20
open Ptx Ptx.LibModel

/-- the exported frame of world `w` is the export of the frame the evaluator reads at `w` -/
theorem C20_export_frames (L : LogicData) (m : Model) (w : Nat) (fd : FrameData)
    (h : (w, fd) ∈ (getData L m).frames) : fd = frameData L (frameD m w) :=
  getData_frames h

example :
    let m := (run Test.tS4 {} Model.init [.setAtomic 0 0 .T 1, .finish]).1
    (getData Test.tS4 m).frames.map (·.1) = [0, 1] ∧
      (getData Test.tS4 m).frames.map (·.2.atomics) = [[((0, 0), .F)], [((0, 0), .T)]] := by decide +kernel

/-! ## worlds and access -/

/- Full statement (DESIGN `C20_worlds_access`): for every finished model
   `(getData m).worlds = sort (keys m.R) ∧ (getData m).access = sort (pairs m.R)`.

   FALSE of the mirrored code when the Access class is the serial one (`C20_worlds_access_serial_witness`):
   `get_data` lists `sorted(self.frames)` and the arrows leaving those worlds, and the world invented
   by `SerialAccess.enforce()` has no frame.  Proved: every other frame kind. -/
theorem C20_worlds_access_partial (L : LogicData) (hm : L.modal = true) (hD : L.frame ≠ .D) (h : Hints)
    (m m' : Model) (hfin : finish L h m = (m', none)) (hnf : m.finished = false) (hfc : m.frameComplete = false)
    (hinv : m.Inv L) (hT : L.tablesTotalB = true) :
    (∀ w, w ∈ (getData L m').worlds ↔ w ∈ m'.R.keys) ∧
    (∀ p, p ∈ (getData L m').access ↔ p ∈ m'.R.pairs) ∧
    (getData L m').worlds.Pairwise (· ≤ ·) := by
  have hw := finish_worlds hD h hfin hnf hfc hinv.rwf
  have hinv' : m'.Inv L := by
    have := finish_inv (tablesOK_of_total hT) h hinv
    rw [hfin] at this; exact this
  refine ⟨fun w => (mem_worlds hm).trans (hw w), ?_, worlds_sorted L m'⟩
  intro p
  rw [mem_access hm]
  constructor
  · exact fun h => h.2
  · intro hp; exact ⟨(hw _).2 (hinv'.rwf p hp).1, hp⟩

example :
    let m := (run Test.tS4 {} Model.init [.setAtomic 0 0 .T 1, .rAdd 0 2, .finish]).1
    (getData Test.tS4 m).worlds = [0, 1, 2] ∧ (getData Test.tS4 m).access = [(0, 0), (0, 2), (1, 1), (2, 2)] ∧
      m.R.keys = [0, 2, 1] := by decide +kernel

/-- witness (ii): serial frames.  After `Fa := T; finish` the model's access relation is
    {0→1, 1→1} on the worlds {0, 1}; the export lists the world 0 only and the arrow 0→1 into a world
    it does not list -/
theorem C20_worlds_access_serial_witness :
    let m := (run Test.tD {} Model.init [.setPred Test.F [Test.a] .T 0, .finish]).1
    m.finished = true ∧ m.R.keys = [0, 1] ∧ m.R.pairs = [(0, 1), (1, 1)] ∧
      (getData Test.tD m).worlds = [0] ∧ (getData Test.tD m).access = [(0, 1)] := by decide +kernel

example : ¬ ∀ (m : Model), m.finished = true → ∀ w, w ∈ m.R.keys → w ∈ (getData Test.tD m).worlds := by
  intro h
  have w := C20_worlds_access_serial_witness
  have := h _ w.1 1 (by rw [w.2.1]; simp)
  rw [w.2.2.2.1] at this
  simp at this

/-! ## sentence letters and uninterpreted sentences -/

/-- each listed sentence letter has the value the model evaluates it to -/
theorem C20_atoms (L : LogicData) (m : Model) (hfin : m.finished = true) (w : Nat)
    (hw : L.modal = true ∨ (m.frames.lookup w).isSome = true) (a : Nat × Nat) (v : V)
    (h : (a, v) ∈ (frameData L (frameD m w)).atomics) : valueOf L m (.atom a.1 a.2) w = .ok v := by
  rw [valueOf_atom hfin hw, frameData_atomics h]; rfl

example :
    let m := (run Test.tCFOL {} Model.init [.setAtomic 1 0 .T 0, .finish]).1
    ((1, 0), V.T) ∈ (frameData Test.tCFOL (frameD m 0)).atomics ∧ valueOf Test.tCFOL m (.atom 1 0) 0 = .ok .T := by
  decide +kernel

/-- …and every assigned letter is listed -/
theorem C20_atoms_listed (L : LogicData) (m : Model) (w : Nat) (a : Nat × Nat) (v : V)
    (h : (frameD m w).atomics.lookup a = some v) : (a, v) ∈ (frameData L (frameD m w)).atomics :=
  frameData_atomics_listed h

example :
    let m := (run Test.tS4 {} Model.init [.setAtomic 1 0 .T 0, .rAdd 0 1, .finish]).1
    (frameD m 1).atomics.lookup (1, 0) = some .F ∧ (frameData Test.tS4 (frameD m 1)).atomics = [((1, 0), .F)] := by
  decide +kernel

/-- each listed uninterpreted sentence (one the logic does not interpret) has the value the model
    evaluates it to.  (`set_opaque_value` also accepts sentences the logic DOES interpret; those are
    listed too but `value_of` never consults them — outside the property, see the notes.) -/
theorem C20_opaques (L : LogicData) (m : Model) (hfin : m.finished = true) (w : Nat)
    (hw : L.modal = true ∨ (m.frames.lookup w).isSome = true) (s : Sent) (hs : isOpaque L s = true) (v : V)
    (h : (s, v) ∈ (frameData L (frameD m w)).opaques) : valueOf L m s w = .ok v := by
  rw [valueOf_opaque hfin hw hs, frameData_opaques h]; rfl

example :
    let m := (run Test.tCFOL {} Model.init [.setOpaque (.op1 .poss (.atom 0 0)) .T 0, .finish]).1
    isOpaque Test.tCFOL (.op1 .poss (.atom 0 0)) = true ∧
      (Sent.op1 .poss (.atom 0 0), V.T) ∈ (frameData Test.tCFOL (frameD m 0)).opaques := by decide +kernel

theorem C20_opaques_listed (L : LogicData) (m : Model) (w : Nat) (s : Sent) (v : V)
    (h : (frameD m w).opaques.lookup s = some v) : (s, v) ∈ (frameData L (frameD m w)).opaques :=
  frameData_opaques_listed h

example :
    let m := (run Test.tCFOL {} Model.init
      [.setAtomic 1 0 .T 0, .setAtomic 0 0 .F 0, .setOpaque (.op1 .poss (.atom 0 0)) .T 0, .finish]).1
    (frameData Test.tCFOL (frameD m 0)).atomics = [((0, 0), .F), ((1, 0), .T)] ∧
    (frameData Test.tCFOL (frameD m 0)).opaques = [(.op1 .poss (.atom 0 0), .T)] ∧
    valueOf Test.tCFOL m (.op1 .poss (.atom 0 0)) 0 = .ok .T := by decide +kernel

/-! ## extensions and anti-extensions -/

/-- every predicate the frame interprets is listed -/
theorem C20_predicates_listed (L : LogicData) (m : Model) (w : Nat) (p : Pred) (h : p ∈ akeys (frameD m w).preds) :
    ∃ pd ∈ (frameData L (frameD m w)).preds, pd.pred = p :=
  frameData_preds_listed h

example :
    let m := (run Test.tCFOL {} Model.init [.setPred Test.G [Test.a] .F 0, .finish]).1
    akeys (frameD m 0).preds = [Test.G, Pred.identity, Pred.existence] ∧
      (frameData Test.tCFOL (frameD m 0)).preds.map (·.pred) = [Pred.existence, Pred.identity, Test.G] := by decide +kernel

/-- a tuple of model constants is in the exported extension of `p` exactly when the predication
    evaluates to a true-containing value (T or B) -/
theorem C20_extension (L : LogicData) (m : Model) (hfin : m.finished = true) (hvals : m.ValsOK L) (w : Nat)
    (hw : L.modal = true ∨ (m.frames.lookup w).isSome = true)
    (hun : L.T.unassigned = .F ∨ L.T.unassigned = .N)
    (pd : PredData) (hpd : pd ∈ (frameData L (frameD m w)).preds) (t : Tup) (ht : tupInConsts m t = true) :
    t ∈ pd.ext ↔ (valueOf L m (.pred pd.pred t) w = .ok .T ∨ valueOf L m (.pred pd.pred t) w = .ok .B) := by
  rw [mem_ext_iff hpd, valueOf_pred hfin hw pd.pred ht]
  constructor
  · rintro ⟨v, hv, h1, _⟩
    rw [hv]
    rcases h1 with rfl | rfl
    · exact Or.inl rfl
    · exact Or.inr rfl
  · intro h
    cases hl : ((frameD m w).interp pd.pred).lookup t with
    | none =>
      rw [hl] at h
      rcases hun with hu | hu <;> rw [hu] at h <;> rcases h with h | h <;> simp at h
    | some v =>
      rw [hl] at h
      have hv : v ∈ L.T.vals := interp_vals (frameD_vals hvals w).2.2 pd.pred (t, v) (lookup_mem hl)
      refine ⟨v, rfl, ?_, hv⟩
      rcases h with h | h <;> simp at h
      · exact Or.inl h
      · exact Or.inr h

example :
    let m := (run Test.tLP {} Model.init [.setPred Test.F [Test.a] .B 0, .setPred Test.F [Test.b] .F 0, .finish]).1
    (frameData Test.tLP (frameD m 0)).preds.map (·.ext) = [[[Test.a]]] ∧
      valueOf Test.tLP m (.pred Test.F [Test.a]) 0 = .ok .B ∧ valueOf Test.tLP m (.pred Test.F [Test.b]) 0 = .ok .F ∧
      manyValued Test.tLP = true ∧ Test.tLP.T.unassigned = .F := by decide +kernel

/-- anti-extension, sound direction: a listed tuple evaluates to a false-containing value (F or B) -/
theorem C20_anti_extension_sound (L : LogicData) (m : Model) (hfin : m.finished = true) (w : Nat)
    (hw : L.modal = true ∨ (m.frames.lookup w).isSome = true) (hmv : manyValued L = true)
    (pd : PredData) (hpd : pd ∈ (frameData L (frameD m w)).preds) (t : Tup) (ht : tupInConsts m t = true) :
    ∃ l, pd.anti = some l ∧
      (t ∈ l → (valueOf L m (.pred pd.pred t) w = .ok .F ∨ valueOf L m (.pred pd.pred t) w = .ok .B)) := by
  obtain ⟨l, hl, hiff⟩ := mem_anti_iff hpd hmv
  refine ⟨l, hl, ?_⟩
  intro htl
  obtain ⟨v, hv, h1, _⟩ := (hiff t).1 htl
  rw [valueOf_pred hfin hw pd.pred ht, hv]
  rcases h1 with rfl | rfl
  · exact Or.inr rfl
  · exact Or.inl rfl

example :
    let m := (run Test.tLP {} Model.init [.setPred Test.F [Test.a] .B 0, .setPred Test.F [Test.b] .F 0, .finish]).1
    (frameData Test.tLP (frameD m 0)).preds.map (·.anti) = [some [[Test.a], [Test.b]]] := by decide +kernel

/- Full statement (DESIGN `C20_extension`, second half): for every tuple of model constants
     tup ∈ ext⁻ w p ↔ valueOf (p tup) w ∈ {F, B}.
   The `←` direction is FALSE of the mirrored `having()` (it walks the explicitly assigned tuples only)
   exactly when the logic's unassigned value is false-containing: `C20_anti_extension_witness`.
   Proved: `→` for every logic (above), `←` when the unassigned value is N. -/
theorem C20_anti_extension_partial (L : LogicData) (m : Model) (hfin : m.finished = true) (hvals : m.ValsOK L) (w : Nat)
    (hw : L.modal = true ∨ (m.frames.lookup w).isSome = true) (hmv : manyValued L = true)
    (hun : L.T.unassigned = .N)
    (pd : PredData) (hpd : pd ∈ (frameData L (frameD m w)).preds) (t : Tup) (ht : tupInConsts m t = true) :
    ∃ l, pd.anti = some l ∧
      (t ∈ l ↔ (valueOf L m (.pred pd.pred t) w = .ok .F ∨ valueOf L m (.pred pd.pred t) w = .ok .B)) := by
  obtain ⟨l, hl, hiff⟩ := mem_anti_iff hpd hmv
  refine ⟨l, hl, ?_⟩
  rw [hiff t, valueOf_pred hfin hw pd.pred ht]
  constructor
  · rintro ⟨v, hv, h1, _⟩
    rw [hv]
    rcases h1 with rfl | rfl
    · exact Or.inr rfl
    · exact Or.inl rfl
  · intro h
    cases hlk : ((frameD m w).interp pd.pred).lookup t with
    | none => rw [hlk, hun] at h; rcases h with h | h <;> simp at h
    | some v =>
      rw [hlk] at h
      have hv : v ∈ L.T.vals := interp_vals (frameD_vals hvals w).2.2 pd.pred (t, v) (lookup_mem hlk)
      refine ⟨v, rfl, ?_, hv⟩
      rcases h with h | h <;> simp at h
      · exact Or.inr h
      · exact Or.inl h

example :
    let m := (run Test.tLP {} Model.init [.setPred Test.F [Test.a] .B 0, .setPred Test.F [Test.b] .F 0, .finish]).1
    (frameData Test.tLP (frameD m 0)).preds =
      [⟨Test.F, [[Test.a]], some [[Test.a], [Test.b]]⟩] := by decide +kernel

/-- witness (iii): LP (unassigned value F).  The model read off the open branch of `Fa, Gb ⊢ Ga`
    (`Fa`, `Gb` designated without their negations: T) evaluates `Fb` to F — a false-containing value —
    but the exported anti-extension of F is empty -/
theorem C20_anti_extension_witness :
    let m := (run Test.tLP {} Model.init [.setPred Test.F [Test.a] .T 0, .setPred Test.G [Test.b] .T 0, .finish]).1
    m.finished = true ∧ tupInConsts m [Test.b] = true ∧
      valueOf Test.tLP m (.pred Test.F [Test.b]) 0 = .ok .F ∧
      (frameData Test.tLP (frameD m 0)).preds =
        [⟨Test.F, [[Test.a]], some []⟩, ⟨Test.G, [[Test.b]], some []⟩] := by decide +kernel

example : ¬ ∀ (m : Model) (pd : PredData) (t : Tup) (l : List Tup), m.finished = true → tupInConsts m t = true →
    pd ∈ (frameData Test.tLP (frameD m 0)).preds → pd.anti = some l →
    valueOf Test.tLP m (.pred pd.pred t) 0 = .ok .F → t ∈ l := by
  intro h
  have w := C20_anti_extension_witness
  have := h _ ⟨Test.F, [[Test.a]], some []⟩ [Test.b] [] w.1 w.2.1 (by rw [w.2.2.2]; simp) rfl w.2.2.1
  cases this

/-- no exported tuple has a parameter that is not a model constant (reachable models) -/
theorem C20_no_foreign_tuple (L : LogicData) (m : Model) (hinv : m.Inv L) (w : Nat)
    (pd : PredData) (hpd : pd ∈ (frameData L (frameD m w)).preds) (t : Tup) (ht : t ∈ pd.ext) :
    tupInConsts m t = true := by
  obtain ⟨v, hv, _, _⟩ := (mem_ext_iff hpd t).1 ht
  have hf : FrameOK L m.consts (frameD m w) := by
    unfold frameD
    cases hl : m.frames.lookup w with
    | none => exact FrameOK.empty
    | some f => exact hinv.frames (w, f) (lookup_mem hl)
  exact (hf.interp pd.pred (t, v) (lookup_mem hv)).2

example :
    let m := (run Test.tCFOL {} Model.init [.setPred Pred.identity [Test.a, Test.b] .T 0, .finish]).1
    (frameData Test.tCFOL (frameD m 0)).preds.map (·.ext) =
      [[[Test.a], [Test.b]], [[Test.a, Test.a], [Test.a, Test.b], [Test.b, Test.b]]] ∧ m.consts = [(0, 0), (1, 0)] := by
  decide +kernel

/-! ## sorted, deterministic -/

/-- every list of an exported frame ascends in the lexical order (`Lexical.orderitems` on the sort
    tuples): sentence letters, uninterpreted sentences, predicates, and the tuples of each
    extension / anti-extension -/
theorem C20_sorted (L : LogicData) (f : Frame) :
    ((frameData L f).atomics.map (·.1)).Pairwise (KLe atomKey) ∧
    ((frameData L f).opaques.map (·.1)).Pairwise (KLe Sent.key) ∧
    ((frameData L f).preds.map (·.pred)).Pairwise (KLe Pred.key) ∧
    ∀ pd ∈ (frameData L f).preds, pd.ext.Pairwise (KLe paramsKey) ∧ ∀ l, pd.anti = some l → l.Pairwise (KLe paramsKey) :=
  frameData_sorted L f

example :
    let m := (run Test.tCFOL {} Model.init
      [.setAtomic 1 0 .T 0, .setAtomic 0 1 .T 0, .setAtomic 0 0 .T 0, .setPred Test.G [Test.b] .T 0, .setPred Test.G [Test.a] .T 0, .finish]).1
    (frameData Test.tCFOL (frameD m 0)).atomics.map (·.1) = [(0, 0), (1, 0), (0, 1)] ∧
      ((frameData Test.tCFOL (frameD m 0)).preds.map (·.ext)).getLast? = some [[Test.a], [Test.b]] := by decide +kernel

/-- worlds ascend; access pairs ascend lexicographically (the frames' worlds being pairwise different) -/
theorem C20_sorted_access (L : LogicData) (m : Model) (hnd : (akeys m.frames).Nodup) :
    (getData L m).worlds.Pairwise (· ≤ ·) ∧
    (getData L m).access.Pairwise fun p q => p.1 ≤ q.1 ∧ (p.1 = q.1 → p.2 ≤ q.2) :=
  ⟨worlds_sorted L m, access_sorted L m hnd⟩

example : (akeys (run Test.tS4 {} Model.init [.rAdd 2 0, .finish]).1.frames) = [0, 2] := by decide +kernel

/-- …which they are in every model assembled through the API -/
theorem C20_sorted_access_reachable (L : LogicData) (h : Hints) (ops : List MOp) :
    (getData L (run L h Model.init ops).1).worlds.Pairwise (· ≤ ·) ∧
    (getData L (run L h Model.init ops).1).access.Pairwise fun p q => p.1 ≤ q.1 ∧ (p.1 = q.1 → p.2 ≤ q.2) :=
  C20_sorted_access L _ (run_FK h ops _ init_FK)

example :
    let m := (run Test.tS4 {} Model.init [.rAdd 2 0, .rAdd 0 1, .setAtomic 0 0 .T 2, .finish]).1
    (akeys m.frames).Nodup ∧ (getData Test.tS4 m).access = [(0, 0), (0, 1), (1, 1), (2, 0), (2, 1), (2, 2)] := by
  decide +kernel

/-- the sorted lists do not depend on the order in which things were inserted: two key lists that are
    rearrangements of one another sort to the same list (for keys under which equivalent items are equal) -/
theorem C20_deterministic {α : Type} (key : α → List Int) (l₁ l₂ : List α) (hp : l₁.Perm l₂)
    (anti : ∀ a b, a ∈ l₁ → b ∈ l₁ → KLe key a b → KLe key b a → a = b) :
    sortByKey key l₁ = sortByKey key l₂ :=
  sortByKey_perm_eq key hp anti

example : sortByKey natKey [2, 0, 1] = sortByKey natKey [1, 2, 0] := by decide

end Ptx.Props.C20
