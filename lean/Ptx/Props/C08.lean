/-
  C08 — model evaluation is compositional and frame-correct.

  Theorems about the executable mirror `Ptx.LibModel` (Ptx/Sem/LibModel.lean) of
  pytableaux/models/__init__.py, logics/cpl.py Model.finish and the evaluator overrides of
  k3wq / kk3wq / mh / nh / go / s4go.  The tie of the mirror to the code is the correspondence
  stream of harness/props/c08.py; the per-logic obligations `<L>_folds` (Ptx/Gen/ObModel.lean,
  generated) discharge `foldProgramsOKB` for every regenerated logic by kernel evaluation.

    C08_folds_set_like, C08_folds_set_like_modal   program on a LIST = regenerated graph on the SET
    C08_folds_order_multiplicity                   … hence invariant under order and repetition
    C08_shortcut_is_plain_max / _min               _limit_best = plain max / min
    C08_eval_is_spec, C08_eval_is_spec_reachable, C08_eval_at_every_world, C08_eval_opaque, C08_reachable_inv
                                                   value_of = documented recursive semantics
    C08_access_closure_partial (+ _extends, _keys, _is_spec_closure, _serial)
    C08_identity_completion_partial (+ three witnesses that the full statement fails)
    C08_serial_world_not_completed                 witness for finding (ii)
    C08_order_independent_partial                  the finished access relation is a function of the SET of pairs
    C08_access_fuel_suffices, C08_access_closure, C08_access_closure_finish, C08_access_serial_finish,
    C08_eval_at_every_world_unconditional          the closure statement WITHOUT the computed flag (fuel always suffices)
    C08_order_independent_access                   … and the access half of order independence without flags
    C08_order_independent_assembly                 permuted successful programs assemble the same content (every logic, every setter)
    C08_order_independent                          every logic (classical family: no Identity tuple set to T): permuted
                                                   successful programs finish alike (same exception, or same content and values)
    C08_order_independent_classical_partial, C08_order_dependent_classical_witness
    C08_setter_reduction, C08_setter_reduction_run set_literal_value / set_value ARE primitive setter calls (or raise)
    C08_access_serial_exact                        the serial Access class as a function of the key set and pair set
    C08_order_independent_all_sentences, C08_order_dependent_dead_end_witness
                                                   the same value / the same exception for EVERY sentence (no dead ends)
    C08_eval_no_constants                          what holds of a model without constants
    C08_identity_completion_identity_free          the FULL identity statement when no Identity tuple is set to T
    C08_worlds_of_assembled, C08_eval_is_spec_assembled
                                                   value_of = documented semantics at EVERY world for every program of setter
                                                   calls (failing ones included) followed by a successful finish — modal or not
-/
import Ptx.Proofs.LibModelKeys
import Ptx.Proofs.LibModelFuel
import Ptx.Proofs.LibModelIdFree
import Ptx.Proofs.LibModelTest
namespace Ptx.Props.C08
open Ptx Ptx.LibModel

/-- the per-logic obligation (`Ptx.Gen.ObModel.<L>_folds : foldProgramsOKB Gen.<L> = true := by decide +kernel`):
    the fold program the mirror runs for each interpreted quantifier / modal operator reproduces the
    regenerated set-indexed graph on every subset of the value set (and `reduce` programs run over
    an associative-commutative-idempotent action) -/
@[reducible] def foldProgramsOKB (L : LogicData) : Bool := LibModel.foldProgramsOKB L

/-! ## fold programs -/

/-- the value the evaluator computes for `Qx…` from the LIST of instance values (in whatever order,
    with whatever repetitions) is the regenerated graph applied to the SET of those values -/
theorem C08_folds_set_like (L : LogicData) (h : foldProgramsOKB L = true) (hq : L.quantified = true) (q : Quant)
    (xs : List V) (hx : ∀ x ∈ xs, x ∈ L.T.vals) (hne : xs ≠ []) :
    foldQV L q xs = L.T.qfold q xs :=
  foldQV_eq_qfold L h hq q xs hx hne

example : foldProgramsOKB Test.tD = true ∧ foldQV Test.tD .ex [.F, .T, .F, .F] = Test.tD.T.qfold .ex [.T, .F] := by
  decide +kernel

/-- likewise for ◇ / □ over the values at the accessible worlds; the empty list (no accessible
    world) is covered exactly where the logic's frames allow it (K) -/
theorem C08_folds_set_like_modal (L : LogicData) (h : foldProgramsOKB L = true) (hm : L.modal = true) (o : Op1)
    (ho : o = .poss ∨ o = .nec) (xs : List V) (hx : ∀ x ∈ xs, x ∈ L.T.vals)
    (hne : xs ≠ [] ∨ L.emptyAccessOk = true) :
    foldMV L o xs = L.T.mfold o xs :=
  foldMV_eq_mfold L h hm o ho xs hx hne

example : foldMV Test.tD .nec [.T, .F, .T] = Test.tD.T.mfold .nec [.F, .T] := by decide +kernel

/-- order and multiplicity of the instance values do not matter (the empty list included) -/
theorem C08_folds_order_multiplicity (L : LogicData) (h : foldProgramsOKB L = true) (hq : L.quantified = true)
    (q : Quant) (xs ys : List V) (hx : ∀ x ∈ xs, x ∈ L.T.vals) (hy : ∀ y ∈ ys, y ∈ L.T.vals)
    (hm : ∀ v, v ∈ xs ↔ v ∈ ys) : foldQV L q xs = foldQV L q ys := by
  simp only [foldProgramsOKB, LibModel.foldProgramsOKB, hq, Bool.not_true, Bool.false_or, Bool.and_eq_true,
    List.all_eq_true] at h
  have hq' := h.1 q (by cases q <;> simp [Quant.all])
  exact runProgV_setLike L.T _ _ hq'.1 xs ys hx hy hm

example : foldQV Test.tLP .univ [.B, .T, .B] = foldQV Test.tLP .univ [.T, .B] := by decide +kernel

/-! ## the short-circuiting min / max -/

/-- `maxceil(ceil, it, default)`: when `ceil` bounds the items, the early exit changes nothing —
    the result is the plain maximum (and `default` on an empty iterable) -/
theorem C08_shortcut_is_plain_max (ceil dflt x : V) (xs : List V) (hb : ∀ y ∈ x :: xs, rank y ≤ rank ceil) :
    limitBest vgt ceil dflt (x :: xs) = xs.foldl vmax x ∧ limitBest vgt ceil dflt [] = dflt :=
  ⟨limitBestGo_max ceil xs x hb, rfl⟩

example : limitBest vgt .T .F [.N, .B, .N] = .B ∧ limitBest vgt .T .F [] = .F := by decide

/-- `minfloor(floor, it, default)` dually -/
theorem C08_shortcut_is_plain_min (floor dflt x : V) (xs : List V) (hb : ∀ y ∈ x :: xs, rank floor ≤ rank y) :
    limitBest vlt floor dflt (x :: xs) = xs.foldl vmin x ∧ limitBest vlt floor dflt [] = dflt :=
  ⟨limitBestGo_min floor xs x hb, rfl⟩

example : limitBest vgt .T .F [.N, .T, .B] = .T ∧ limitBest vlt .F .T [.B, .N, .T] = .N := by decide

/-! ## value_of is the documented recursive semantics -/

/-- For a finished model whose stored values are values of the logic, at the worlds `S` (closed under
    access; with successors where the logic's frames are serial), every closed sentence over the
    model's constants and the logic's interpreted vocabulary, without a quantifier re-binding its
    own variable, evaluates — without raising — to the value `Ptx.eval` gives it in the structure
    the model denotes: operators by the tables, quantifiers by the logic's set-indexed fold over
    the domain of constants, modal operators likewise over the accessible worlds. -/
theorem C08_eval_is_spec (L : LogicData) (hOK : foldProgramsOKB L = true) (hT : L.tablesTotalB = true)
    (m : Model) (hfin : m.finished = true) (hvals : m.ValsOK L) (c0 : Dom m)
    (S : Nat → Prop) (hS : WorldsOK L m S) (s : Sent) (hs : okIn L m.consts [] s = true) (w : Nat) (hw : S w) :
    valueOf L m s w = .ok (eval L (toStruct L m c0) (envOf L m c0) w s) :=
  (valueOfF_eq_eval L hOK hT m hfin hvals c0 S hS s.size s (Nat.le_refl _) hs w hw).1

/-- non-vacuity: hypotheses and conclusion on a concrete finished model (non-modal: the one world 0) -/
example :
    let L := Test.tCFOL
    let m := (run L {} Model.init [.setPred Test.F [Test.a] .T 0, .setPred Test.G [Test.b] .T 0, .finish]).1
    let s : Sent := .quant .univ 0 0 (.op2 .disj (.pred Test.F [Test.x]) (.pred Test.G [Test.x]))
    foldProgramsOKB L = true ∧ L.tablesTotalB = true ∧ m.finished = true ∧ m.consts = [(0, 0), (1, 0)] ∧
      okIn L m.consts [] s = true ∧ (m.frames.lookup 0).isSome = true ∧ m.R.succ 0 = [] ∧
      valueOf L m s 0 = .ok .T := by decide +kernel

/-- uninterpreted sentences are atoms: looked up in the frame's `opaques` -/
theorem C08_eval_opaque (L : LogicData) (m : Model) (hfin : m.finished = true) (w : Nat)
    (hw : L.modal = true ∨ (m.frames.lookup w).isSome = true) (s : Sent) (hs : isOpaque L s = true) :
    valueOf L m s w = .ok (((frameD m w).opaques.lookup s).getD L.T.unassigned) :=
  valueOf_opaque hfin hw hs

example :
    let m := (run Test.tCFOL {} Model.init [.setOpaque (.op1 .poss (.atom 0 0)) .T 0, .finish]).1
    isOpaque Test.tCFOL (.op1 .poss (.atom 0 0)) = true ∧ valueOf Test.tCFOL m (.op1 .poss (.atom 0 0)) 0 = .ok .T ∧
      valueOf Test.tCFOL m (.op1 .nec (.atom 0 0)) 0 = .ok .F := by decide +kernel

/-- every model assembled through the API (any program of set_* / R.add / finish calls, failing calls
    included) has the invariant the previous theorem needs -/
theorem C08_reachable_inv (L : LogicData) (hT : L.tablesTotalB = true) (h : Hints) (ops : List MOp) :
    (run L h Model.init ops).1.Inv L :=
  run_inv (tablesOK_of_total hT) h ops _ (init_inv L)

example : (run Test.tD {} Model.init
    [.setPred Test.F [Test.a] .T 1, .setLiteral (.op1 .neg (.atom 0 0)) .T 0, .setAtomic 0 0 .T 0, .finish]).1.Inv Test.tD :=
  C08_reachable_inv Test.tD (by decide +kernel) {} _

theorem C08_eval_is_spec_reachable (L : LogicData) (hOK : foldProgramsOKB L = true) (hT : L.tablesTotalB = true)
    (h : Hints) (ops : List MOp) (hfin : (run L h Model.init ops).1.finished = true)
    (c0 : Dom (run L h Model.init ops).1) (S : Nat → Prop) (hS : WorldsOK L (run L h Model.init ops).1 S)
    (s : Sent) (hs : okIn L (run L h Model.init ops).1.consts [] s = true) (w : Nat) (hw : S w) :
    valueOf L (run L h Model.init ops).1 s w =
      .ok (eval L (toStruct L _ c0) (envOf L _ c0) w s) :=
  C08_eval_is_spec L hOK hT _ hfin (C08_reachable_inv L hT h ops).valsOK c0 S hS s hs w hw

example : (run Test.tS4 {} Model.init [.setPred Test.F [Test.a] .T 0, .rAdd 0 1, .finish]).1.finished = true ∧
    (run Test.tS4 {} Model.init [.setPred Test.F [Test.a] .T 0, .rAdd 0 1, .finish]).1.consts = [(0, 0)] := by
  decide +kernel

/-- "at every world": after a successful `finish` of a modal model (enforce loop left through `break`;
    flag reported by the mirror), the hypothesis on the worlds holds for ALL worlds of the finished
    access relation -/
theorem C08_eval_at_every_world (L : LogicData) (hOK : foldProgramsOKB L = true) (hT : L.tablesTotalB = true)
    (hmod : L.modal = true) (h : Hints) (m m' : Model) (hinv : m.Inv L) (hnf : m.finished = false)
    (hfin : finishX L h m = ((m', none), true)) (c0 : Dom m')
    (s : Sent) (hs : okIn L m'.consts [] s = true) (w : Nat) (hw : w ∈ m'.R.keys) :
    valueOf L m' s w = .ok (eval L (toStruct L m' c0) (envOf L m' c0) w s) := by
  have hinv' : m'.Inv L := by
    have := finish_inv (tablesOK_of_total hT) h hinv
    unfold finish at this
    rw [hfin] at this
    exact this
  obtain ⟨_, _, _, _, hf⟩ := finishX_R h hfin hnf
  exact C08_eval_is_spec L hOK hT m' hf hinv'.valsOK c0 _ (worldsOK_of_finish hmod hT h hfin hnf hinv) s hs w hw

example :
    let m := (run Test.tS4 {} Model.init [.setPred Test.F [Test.a] .T 0, .setPred Test.F [Test.b] .T 1, .rAdd 0 1]).1
    (finishX Test.tS4 {} m).2 = true ∧ (finishX Test.tS4 {} m).1.2 = none ∧ m.finished = false ∧
      (finishX Test.tS4 {} m).1.1.R.keys = [0, 1] := by decide +kernel

/-- the same WITHOUT the computed flag (the fuel always suffices, `C08_access_fuel_suffices`): after a
    successful `finish` of a modal model with the invariant, `value_of` is the documented semantics at
    EVERY world of the finished access relation -/
theorem C08_eval_at_every_world_unconditional (L : LogicData) (hOK : foldProgramsOKB L = true)
    (hT : L.tablesTotalB = true) (hmod : L.modal = true) (h : Hints) (m m' : Model) (hinv : m.Inv L)
    (hnf : m.finished = false) (hfin : finish L h m = (m', none)) (c0 : Dom m')
    (s : Sent) (hs : okIn L m'.consts [] s = true) (w : Nat) (hw : w ∈ m'.R.keys) :
    valueOf L m' s w = .ok (eval L (toStruct L m' c0) (envOf L m' c0) w s) :=
  C08_eval_at_every_world L hOK hT hmod h m m' hinv hnf (finishX_flag hfin hnf hinv.rwf) c0 s hs w hw

example :
    let m := (run Test.tS4 {} Model.init [.setPred Test.F [Test.a] .T 0, .setPred Test.F [Test.b] .T 1, .rAdd 0 1]).1
    (finish Test.tS4 {} m).2 = none ∧ m.finished = false ∧ (finish Test.tS4 {} m).1.R.keys = [0, 1] ∧
      (finish Test.tS4 {} m).1.consts = [(0, 0), (1, 0)] := by decide +kernel

/-- non-vacuity: a reachable finished model, a quantified modal sentence, all hypotheses true -/
example :
    let L := Test.tS4
    let m := (run L {} Model.init [.setPred Test.F [Test.a] .T 0, .setPred Test.F [Test.b] .T 1, .rAdd 0 1, .finish]).1
    let s : Sent := .op1 .nec (.quant .ex 0 0 (.pred Test.F [Test.x]))
    foldProgramsOKB L = true ∧ L.tablesTotalB = true ∧ m.finished = true ∧ m.consts = [(0, 0), (1, 0)] ∧
      okIn L m.consts [] s = true ∧ m.R.succ 0 = [1, 0] ∧ m.R.succ 1 = [1] ∧ valueOf L m s 0 = .ok .T := by
  decide +kernel

/-- the worlds of a model ASSEMBLED by any program of public setter / `R.add` calls — failing calls included —
    and then successfully finished (any logic but a non-modal one with the serial Access class; there is none in
    the tree): world 0 is a world of the finished relation; ALL its worlds satisfy the side condition of
    `C08_eval_is_spec` (each has a frame — or the logic is modal —, they are closed under access, they have
    successors where the logic's frames are serial); and in a non-modal logic 0 is the ONLY world
    (`_complete_frames` raises KeyError otherwise, and a non-modal model never has a second frame) -/
theorem C08_worlds_of_assembled (L : LogicData) (hT : L.tablesTotalB = true) (hD : L.modal = true ∨ L.frame ≠ .D)
    (h : Hints) (ops : List MOp) (hset : ∀ op ∈ ops, op.setter = true) (m' : Model)
    (hfin : finish L h (run L h Model.init ops).1 = (m', none)) :
    WorldsOK L m' (· ∈ m'.R.keys) ∧ 0 ∈ m'.R.keys ∧ (L.modal = false → ∀ w ∈ m'.R.keys, w = 0) ∧ m'.finished = true :=
  have hinv := C08_reachable_inv L hT h ops
  have hw := worldsOK_of_run hT hD h hinv (run_run0 h ops _ (init_run0 L) hset) hfin
  ⟨hw.1, hw.2.1, hw.2.2, (finish_R hfin (finish_ok_not_finished hfin) hinv.rwf).choose_spec.2.2.2.2⟩

example :
    let ops : List MOp := [.setPred Test.F [Test.a] .T 0, .setPred Test.F [Test.b] .T 1, .rAdd 0 0, .setAtomic 0 0 .N 0]
    (∀ op ∈ ops, op.setter = true) ∧ (run Test.tCFOL {} Model.init ops).2 = [none, some .key, none, some .key] ∧
      (finish Test.tCFOL {} (run Test.tCFOL {} Model.init ops).1).2 = none ∧
      (finish Test.tCFOL {} (run Test.tCFOL {} Model.init ops).1).1.R = ⟨[0], [(0, 0)]⟩ ∧
      (finish Test.tCFOL {} (run Test.tCFOL {} Model.init (ops ++ [.rAdd 0 1])).1).2 = some .key := by decide +kernel

/-- `C08_eval_is_spec` with NO side condition left but "the program ran, `finish()` succeeded, the model has a
    constant": for every program of public setter / `R.add` calls (failing calls included) followed by a
    successful `finish()`, at EVERY world of the finished model (in a non-modal logic: the one world 0), every
    sentence of `C08_eval_is_spec` evaluates — without raising — to its value under the documented semantics in
    the structure the model denotes (domain: the model's constants; `dom0 hc`, the first constant, is the
    structure's default element, which no closed sentence reads).
    A model WITHOUT constants denotes no structure (empty domain): `C08_eval_no_constants`. -/
theorem C08_eval_is_spec_assembled (L : LogicData) (hOK : foldProgramsOKB L = true) (hT : L.tablesTotalB = true)
    (hD : L.modal = true ∨ L.frame ≠ .D) (h : Hints) (ops : List MOp) (hset : ∀ op ∈ ops, op.setter = true)
    (m' : Model) (hfin : finish L h (run L h Model.init ops).1 = (m', none)) (hc : m'.consts ≠ [])
    (s : Sent) (hs : okIn L m'.consts [] s = true) (w : Nat) (hw : w ∈ m'.R.keys) :
    valueOf L m' s w = .ok (eval L (toStruct L m' (dom0 hc)) (envOf L m' (dom0 hc)) w s) := by
  obtain ⟨hS, _, _, hf⟩ := C08_worlds_of_assembled L hT hD h ops hset m' hfin
  have hinv' : m'.Inv L := by
    have := finish_inv (tablesOK_of_total hT) h (C08_reachable_inv L hT h ops)
    rw [hfin] at this; exact this
  exact C08_eval_is_spec L hOK hT m' hf hinv'.valsOK (dom0 hc) _ hS s hs w hw

/-- non-vacuity: a non-modal logic, a program with failing calls, a quantified sentence at world 0 -/
example :
    let L := Test.tCFOL
    let ops : List MOp := [.setPred Test.F [Test.a] .T 0, .setPred Test.F [Test.b] .T 1, .setLiteral (.op1 .neg (.pred Test.G [Test.b])) .F 0,
      .setPred Test.F [Test.a] .F 0]
    let m' := (finish L {} (run L {} Model.init ops).1).1
    let s : Sent := .quant .ex 0 0 (.op2 .conj (.pred Test.F [Test.x]) (.op1 .neg (.pred Test.G [Test.x])))
    (∀ op ∈ ops, op.setter = true) ∧ (run L {} Model.init ops).2 = [none, some .key, none, some .modelValue] ∧
      (finish L {} (run L {} Model.init ops).1).2 = none ∧ m'.consts = [(0, 0), (1, 0)] ∧ m'.R.keys = [0] ∧
      okIn L m'.consts [] s = true ∧ valueOf L m' s 0 = .ok .T := by decide +kernel

/-- a model WITHOUT constants denotes no structure (a structure's domain is nonempty; `c0 : Dom m` of
    `C08_eval_is_spec` cannot be had).  What holds of it, for a finished model with values of the logic at worlds
    `S` as in `C08_eval_is_spec`:
      * a quantified sentence `Qx…` evaluates — whatever its body, at any world — to what the logic's fold program
        returns on the EMPTY list of instances (`_limit_best`'s `default`: minval for ∃, maxval for ∀; `reduce`'s
        `initial`; …): a value the documented semantics does not define (no fold graph has an entry for the
        empty set of instance values);
      * every quantifier-free sentence of `C08_eval_is_spec` evaluates to its documented value in the structure
        with a one-point dummy domain (such a sentence has no parameters: predications are read at the empty
        tuple). -/
theorem C08_eval_no_constants (L : LogicData) (hOK : foldProgramsOKB L = true) (hT : L.tablesTotalB = true)
    (m : Model) (hfin : m.finished = true) (hvals : m.ValsOK L) (hc : m.consts = []) :
    (L.quantified = true → ∀ q vi vs b w, valueOf L m (.quant q vi vs b) w = .ok (foldQV L q [])) ∧
    (∀ (S : Nat → Prop), WorldsOK L m S → ∀ s, okIn L m.consts [] s = true → qfree s = true → ∀ w, S w →
      valueOf L m s w = .ok (eval L (toStruct0 L m) env0 w s)) :=
  ⟨fun hq q vi vs b w => valueOf_quant_noconst L m hfin hq hc q vi vs b w,
   fun S hS s hs hqf w hw => (valueOfF_noconst L hOK hT m hfin hvals S hS s.size s (Nat.le_refl _) (hc ▸ hs) hqf w hw).1⟩

example :
    let m := (run Test.tS4 {} Model.init [.setAtomic 0 0 .T 1, .rAdd 0 1, .finish]).1
    m.finished = true ∧ m.consts = [] ∧ valueOf Test.tS4 m (.quant .ex 0 0 (.pred Test.F [Test.x])) 0 = .ok .F ∧
      valueOf Test.tS4 m (.quant .univ 0 0 (.pred Test.F [Test.x])) 0 = .ok .T ∧
      okIn Test.tS4 m.consts [] (.op1 .poss (.atom 0 0)) = true ∧ qfree (.op1 .poss (.atom 0 0)) = true ∧
      valueOf Test.tS4 m (.op1 .poss (.atom 0 0)) 0 = .ok .T := by decide +kernel

/-! ## the access relation after finish -/

/-- `enforce()` of the reflexive / reflexive-transitive / equivalence Access classes adds only pairs
    the frame condition demands: the finished relation lies inside EVERY relation `Q` with the
    property (on the model's worlds) that contains R; and when the `while True` loop left through
    `break` (flag computed by the mirror, `true` in every correspondence case: driver answer
    `stable=true`) the finished relation HAS the property — so it is the least such relation.

    Full statement (DESIGN): `(finish m).R = closureOf k m.worlds m.R` unconditionally.  Proved here:
    the statement under the computed flag.  The unconditional statement is `C08_access_closure` below
    (`C08_access_fuel_suffices`: the fuel `|W|² + 2` always suffices). -/
theorem C08_access_closure_partial (k : FrameKind) (hk : Frames.isRefl k = true) (R : Acc) (hwf : R.WF) :
    (∀ (Q : Nat × Nat → Prop), Frames.Holds k R.keys Q → (∀ p ∈ R.pairs, Q p) →
        ∀ p ∈ (Acc.enforce k R).1.pairs, Q p) ∧
    ((Acc.enforce k R).2 = true → Frames.Holds k R.keys (· ∈ (Acc.enforce k R).1.pairs)) :=
  ⟨fun _ hQ hR => Acc.enforce_least hk hwf hQ hR, fun hf => Acc.enforce_holds hk hwf hf⟩

example : (Acc.enforce .S5 ⟨[0, 1, 2], [(0, 1), (1, 2)]⟩).2 = true ∧
    (Acc.enforce .S5 ⟨[0, 1, 2], [(0, 1), (1, 2)]⟩).1.pairs.length = 9 := by decide +kernel

/-- The fuel `|W|² + 2` the mirror gives the `while True` loops of `enforce()` ALWAYS suffices: the
    relation only grows inside `W × W` and every iteration that does not leave through `break` adds a
    pair that was not there.  So the computed flag of `C08_access_closure_partial` is `true` for every
    relation whose pairs relate keys (what `Access.add` maintains: `Acc.WF`), for every Access class. -/
theorem C08_access_fuel_suffices (k : FrameKind) (R : Acc) (hwf : R.WF) : (Acc.enforce k R).2 = true :=
  Acc.enforce_flag k hwf

example : (Model.init.R.add 0 1).WF ∧ (Acc.enforce .S5 (Model.init.R.add 0 1)).2 = true :=
  ⟨Acc.WF_add (by intro p hp; cases hp) 0 1, C08_access_fuel_suffices .S5 _ (Acc.WF_add (by intro p hp; cases hp) 0 1)⟩

/-- UNCONDITIONAL closure statement (no computed flag): for every Access class but the serial one
    (`C08_access_serial`), `enforce()` turns R into exactly the closure the frame condition requires —
      * it is the relation the specification program `Frames.closure` computes over the worlds of R,
      * it has the frame property (reflexive on the worlds / transitive / symmetric, as the class demands),
      * it contains R,
      * it lies inside EVERY relation with the property that contains R (so it is the least one),
      * it has exactly the worlds of R (no world invented). -/
theorem C08_access_closure (k : FrameKind) (hk : k ≠ .D) (R : Acc) (hwf : R.WF) :
    (∀ p, p ∈ (Acc.enforce k R).1.pairs ↔ p ∈ Frames.closure k R.keys R.pairs) ∧
    Frames.Holds k R.keys (· ∈ (Acc.enforce k R).1.pairs) ∧
    (∀ p ∈ R.pairs, p ∈ (Acc.enforce k R).1.pairs) ∧
    (∀ (Q : Nat × Nat → Prop), Frames.Holds k R.keys Q → (∀ p ∈ R.pairs, Q p) →
        ∀ p ∈ (Acc.enforce k R).1.pairs, Q p) ∧
    (∀ w, w ∈ (Acc.enforce k R).1.keys ↔ w ∈ R.keys) :=
  Acc.enforce_spec hk hwf

example : (Acc.enforce .S4 ⟨[0, 1, 2], [(0, 1), (1, 2)]⟩).1.pairs = [(0, 1), (1, 2), (0, 0), (1, 1), (2, 2), (0, 2)] ∧
    (Acc.WF ⟨[0, 1, 2], [(0, 1), (1, 2)]⟩) := by
  refine ⟨by decide +kernel, ?_⟩
  intro p hp
  simp only [List.mem_cons, List.not_mem_nil, or_false] at hp
  rcases hp with rfl | rfl <;> simp

/-- the same about `finish()` of a model: after a successful first `finish` (any logic whose Access class
    is not the serial one) the model's access relation is the closure, over the worlds the model has
    (keys of R and worlds with a frame), of the pairs added before — for EVERY model whose pairs relate
    keys (every model reachable through the API: `C08_reachable_inv`) -/
theorem C08_access_closure_finish (L : LogicData) (hk : L.frame ≠ .D) (h : Hints) (m m' : Model)
    (hfin : finish L h m = (m', none)) (hnf : m.finished = false) (hwf : m.R.WF) :
    ∃ ws : List Nat,
      (∀ w, w ∈ ws ↔ w ∈ m.R.keys ∨ (m.frameComplete = false ∧ w ∈ akeys m.frames)) ∧
      (∀ w, w ∈ m'.R.keys ↔ w ∈ ws) ∧
      (∀ p, p ∈ m'.R.pairs ↔ p ∈ Frames.closure L.frame ws m.R.pairs) ∧
      Frames.Holds L.frame ws (· ∈ m'.R.pairs) ∧
      (∀ (Q : Nat × Nat → Prop), Frames.Holds L.frame ws Q → (∀ p ∈ m.R.pairs, Q p) → ∀ p ∈ m'.R.pairs, Q p) := by
  obtain ⟨R1, hwf1, hp1, hk1, hR, _⟩ := finish_R hfin hnf hwf
  obtain ⟨c1, c2, _, c4, c5⟩ := Acc.enforce_spec hk hwf1
  rw [hR]
  exact ⟨R1.keys, hk1, c5, fun p => hp1 ▸ c1 p, c2, fun Q hQ hR' => c4 Q hQ (hp1 ▸ hR')⟩

example :
    let m := (run Test.tS4 {} Model.init [.setPred Test.F [Test.a] .T 2, .rAdd 0 1]).1
    (finish Test.tS4 {} m).2 = none ∧ m.finished = false ∧ m.R.pairs = [(0, 1)] ∧ akeys m.frames = [0, 2] ∧
      (finish Test.tS4 {} m).1.R.keys = [0, 1, 2] ∧
      (finish Test.tS4 {} m).1.R.pairs = [(0, 1), (0, 0), (1, 1), (2, 2)] := by decide +kernel

/-- serial Access class at the level of `finish()`: every world of the finished model has a successor,
    and the only additions are the arrows into ONE new world from the dead ends, plus its loop -/
theorem C08_access_serial_finish (L : LogicData) (hk : L.frame = .D) (h : Hints) (m m' : Model)
    (hfin : finish L h m = (m', none)) (hnf : m.finished = false) (hwf : m.R.WF) :
    (∀ w ∈ m'.R.keys, m'.R.succ w ≠ []) ∧ (∀ p ∈ m.R.pairs, p ∈ m'.R.pairs) ∧
    ∃ n : Nat, (∀ w ∈ m.R.keys, w < n) ∧ (∀ w ∈ akeys m.frames, m.frameComplete = false → w < n) ∧
      (∀ p ∈ m'.R.pairs, p ∈ m.R.pairs ∨ (p.2 = n ∧ (p.1 = n ∨ m.R.succ p.1 = []))) ∧
      (∀ w ∈ m'.R.keys, w = n ∨ w ∈ m.R.keys ∨ w ∈ akeys m.frames) := by
  obtain ⟨R1, hwf1, hp1, hk1, hR, _⟩ := finish_R hfin hnf hwf
  rw [hk] at hR
  obtain ⟨s1, s2, s3, s4⟩ := Acc.enforceSerial_spec R1
  have hsucc : ∀ w, R1.succ w = m.R.succ w := by intro w; simp only [Acc.succ, hp1]
  rw [hR]
  simp only [Acc.enforce]
  refine ⟨s1, fun p hp => s2 p (hp1 ▸ hp), R1.keys.foldl max 0 + 1, ?_, ?_, ?_, ?_⟩
  · intro w hw
    have := (Acc.foldl_max_ge R1.keys 0).2 w ((hk1 w).2 (Or.inl hw))
    omega
  · intro w hw hfc
    have := (Acc.foldl_max_ge R1.keys 0).2 w ((hk1 w).2 (Or.inr ⟨hfc, hw⟩))
    omega
  · intro p hp
    rcases s3 p hp with h1 | ⟨h1, h2⟩
    · exact Or.inl (hp1 ▸ h1)
    · refine Or.inr ⟨h1, ?_⟩
      rcases h2 with h2 | ⟨_, h2⟩
      · exact Or.inl h2
      · exact Or.inr (hsucc _ ▸ h2)
  · intro w hw
    rcases s4 w hw with h1 | h1
    · rcases (hk1 w).1 h1 with h2 | ⟨_, h2⟩
      · exact Or.inr (Or.inl h2)
      · exact Or.inr (Or.inr h2)
    · exact Or.inl h1

example :
    let m := (run Test.tD {} Model.init [.setPred Test.F [Test.a] .T 2, .rAdd 0 1]).1
    (finish Test.tD {} m).2 = none ∧ m.finished = false ∧
      (finish Test.tD {} m).1.R = ⟨[0, 1, 2, 3], [(0, 1), (1, 3), (2, 3), (3, 3)]⟩ := by decide +kernel

/-- nothing is lost (every frame kind) -/
theorem C08_access_extends (k : FrameKind) (R : Acc) : ∀ p ∈ R.pairs, p ∈ (Acc.enforce k R).1.pairs :=
  Acc.enforce_sub k R

example : (0, 1) ∈ (Acc.enforce .S4 ⟨[0, 1], [(0, 1)]⟩).1.pairs := C08_access_extends .S4 _ _ (by simp)

/-- no world is invented, except by the serial Access class -/
theorem C08_access_keys (k : FrameKind) (hk : k ≠ .D) (R : Acc) (hwf : R.WF) (w : Nat) :
    w ∈ (Acc.enforce k R).1.keys ↔ w ∈ R.keys :=
  Acc.enforce_keys hk hwf w

example : (Acc.enforce .S5 ⟨[0, 1, 2], [(0, 1), (1, 2)]⟩).1.keys = [0, 1, 2] ∧
    (Acc.enforce .D ⟨[0, 1, 2], [(0, 1), (1, 2)]⟩).1.keys = [0, 1, 2, 3] := by decide +kernel

/-- the finished relation is the closure computed by the specification program `Frames.closure`
    (what the driver's `same=true` reports case by case) -/
theorem C08_access_is_spec_closure (k : FrameKind) (hk : Frames.isRefl k = true) (R : Acc) (hwf : R.WF)
    (hflag : (Acc.enforce k R).2 = true) (hspec : Frames.stable k R.keys R.pairs = true) (p : Nat × Nat) :
    p ∈ (Acc.enforce k R).1.pairs ↔ p ∈ Frames.closure k R.keys R.pairs :=
  Acc.enforce_eq_closure hk hwf hflag hspec p

example : Frames.stable .S5 [0, 1, 2] [(0, 1), (1, 2)] = true ∧
    (Acc.enforce .S5 ⟨[0, 1, 2], [(0, 1), (1, 2)]⟩).1.pairs.all (Frames.closure .S5 [0, 1, 2] [(0, 1), (1, 2)]).contains = true ∧
    (Frames.closure .S5 [0, 1, 2] [(0, 1), (1, 2)]).all (Acc.enforce .S5 ⟨[0, 1, 2], [(0, 1), (1, 2)]⟩).1.pairs.contains = true := by
  decide +kernel

/-- serial: every world of the finished relation has a successor; the only additions are arrows
    into ONE new world `max + 1` from the dead ends and from that world to itself -/
theorem C08_access_serial (R : Acc) :
    (∀ w ∈ (Acc.enforce .D R).1.keys, (Acc.enforce .D R).1.succ w ≠ []) ∧
    (∀ p ∈ (Acc.enforce .D R).1.pairs, p ∈ R.pairs ∨
        (p.2 = R.keys.foldl max 0 + 1 ∧ (p.1 = R.keys.foldl max 0 + 1 ∨ (p.1 ∈ R.keys ∧ R.succ p.1 = [])))) :=
  ⟨(Acc.enforceSerial_spec R).1, (Acc.enforceSerial_spec R).2.2.1⟩

example : (Acc.enforce .D ⟨[0, 1], [(0, 1)]⟩).1 = ⟨[0, 1, 2], [(0, 1), (1, 2), (2, 2)]⟩ := by decide +kernel

/-- the serial Access class EXACTLY, in terms of the key SET and the pair SET: with `n = max(worlds) + 1`,
    if some world has no outgoing pair (a dead end) the finished pairs are the old ones, the arrows from every
    dead end into `n`, and `n → n`, and `n` is the one new world; otherwise nothing changes.  (The world `n`
    gets no frame: `C08_serial_world_not_completed`.) -/
theorem C08_access_serial_exact (R : Acc) :
    (∀ p, p ∈ (Acc.enforce .D R).1.pairs ↔ p ∈ R.pairs ∨
      (R.DeadEnd ∧ p.2 = R.keys.foldl max 0 + 1 ∧
        (p.1 = R.keys.foldl max 0 + 1 ∨ (p.1 ∈ R.keys ∧ ∀ b, (p.1, b) ∉ R.pairs)))) ∧
    (∀ w, w ∈ (Acc.enforce .D R).1.keys ↔ w ∈ R.keys ∨ (R.DeadEnd ∧ w = R.keys.foldl max 0 + 1)) ∧
    (∀ w ∈ R.keys, w < R.keys.foldl max 0 + 1) :=
  ⟨(Acc.enforceSerial_iff R).1, (Acc.enforceSerial_iff R).2, fun w hw => by
    have := (Acc.foldl_max_ge R.keys 0).2 w hw
    omega⟩

example : (Acc.DeadEnd ⟨[0, 1], [(0, 1)]⟩) ∧ ¬ (Acc.DeadEnd ⟨[0, 1], [(0, 1), (1, 1)]⟩) ∧
    (Acc.enforce .D ⟨[0, 1], [(0, 1), (1, 1)]⟩).1 = ⟨[0, 1], [(0, 1), (1, 1)]⟩ := by
  refine ⟨⟨1, by simp, by simp⟩, ?_, by decide +kernel⟩
  rintro ⟨w, hw, hd⟩
  simp only [List.mem_cons, List.not_mem_nil, or_false] at hw
  rcases hw with rfl | rfl
  · exact hd 1 (by simp)
  · exact hd 1 (by simp)

/-! ## identity and existence in the classical family -/

/- Full statement (DESIGN `C08_identity_completion`): in `finish m` of a classical model, at every
   world, Identity is an equivalence on the model's constants, every predicate's extension is closed
   under it, and Existence holds of every constant.

   FALSE of the mirrored code (one pass of `_agument_extension_with_identicals`, before the
   self-identity step): see the three witnesses below, and `C08_serial_world_not_completed` for the
   world the serial Access class adds after the pass.  Proved: reflexivity and universal existence
   at every world that has a frame. -/
theorem C08_identity_completion_partial (L : LogicData) (hcl : isClassical L = true) (h : Hints) (m m' : Model)
    (hfin : finish L h m = (m', none)) (hnf : m.finished = false) :
    ∀ (w : Nat) (f : Frame), m'.frames.lookup w = some f → ∀ c ∈ m'.consts,
      valueOf L m' (.pred Pred.identity [.const c.1 c.2, .const c.1 c.2]) w = .ok .T ∧
      valueOf L m' (.pred Pred.existence [.const c.1 c.2]) w = .ok .T := by
  intro w f hw c hc
  obtain ⟨h1, _, h3⟩ := finish_self hcl h hfin hnf
  exact valueOf_self h1 hw hc (h3 (w, f) (lookup_mem hw) c hc)

example :
    let m := (run Test.tCFOL {} Model.init [.setPred Test.F [Test.a] .T 0, .finish]).1
    valueOf Test.tCFOL m (.pred Pred.identity [Test.a, Test.a]) 0 = .ok .T ∧
    valueOf Test.tCFOL m (.pred Pred.existence [Test.a]) 0 = .ok .T := by decide +kernel

/-- the FULL identity statement holds when no call sets an Identity tuple to T (`MOp.setsIdT`; `set_literal_value`
    / `set_value` calls that come down to such a call count): after the classical `finish()` of a program of
    successful setter calls, at every world that has a frame, for constants `c`, `d` of the model `c = d`
    evaluates to T exactly when `c` and `d` are the same constant — Identity is the identity of the domain, hence
    an equivalence that every extension respects — and `E!c` is T.  (`hun`: the unassigned value of the logic
    is not T; it is F in the seven logics of the family.) -/
theorem C08_identity_completion_identity_free (L : LogicData) (hcl : isClassical L = true) (hun : L.T.unassigned ≠ .T)
    (h : Hints) (ops : List MOp) (hset : ∀ op ∈ ops, op.setter = true)
    (hok : ∀ e ∈ (run L h Model.init ops).2, e = none) (hid : ∀ op ∈ ops, op.setsIdT L = false)
    (m' : Model) (hfin : finish L h (run L h Model.init ops).1 = (m', none)) :
    ∀ (w : Nat), w ∈ akeys m'.frames → ∀ c ∈ m'.consts, ∀ d ∈ m'.consts,
      (valueOf L m' (.pred Pred.identity [cparam c, cparam d]) w = .ok .T ↔ c = d) ∧
      valueOf L m' (.pred Pred.existence [cparam c]) w = .ok .T := by
  obtain ⟨hnf, _, _⟩ := run_setter_facts h hset hok
  obtain ⟨hf, hc, hfr⟩ := finish_identity_free hcl h (run_FK h ops _ init_FK) (run_setter_no_idT h hset hok hid) hnf hfin
  intro w hw c hcm d hdm
  obtain ⟨hidn, hex⟩ := hfr w hw
  have hwf : L.modal = true ∨ (m'.frames.lookup w).isSome = true := Or.inr (lookup_isSome_iff.2 hw)
  have ht2 : tupInConsts m' [cparam c, cparam d] = true :=
    tupInConsts_cparams (cs := [c, d]) (by intro x hx; simp only [List.mem_cons, List.not_mem_nil, or_false] at hx; rcases hx with rfl | rfl <;> assumption)
  have ht1 : tupInConsts m' [cparam c] = true :=
    tupInConsts_cparams (cs := [c]) (by intro x hx; simp only [List.mem_cons, List.not_mem_nil, or_false] at hx; subst hx; exact hcm)
  rw [valueOf_pred hf hwf _ ht2, valueOf_pred hf hwf _ ht1, hex c (hc ▸ hcm)]
  refine ⟨?_, rfl⟩
  cases hl : ((frameD m' w).interp Pred.identity).lookup [cparam c, cparam d] with
  | none =>
    simp only [Option.getD_none, Except.ok.injEq]
    constructor
    · intro h'; exact absurd h' hun
    · intro h'
      subst h'
      have := (hidn [cparam c, cparam c]).2 ⟨c, hc ▸ hcm, rfl⟩
      rw [hl] at this; cases this
  | some v =>
    simp only [Option.getD_some, Except.ok.injEq]
    constructor
    · intro h'
      subst h'
      obtain ⟨k, _, hk⟩ := (hidn _).1 hl
      simp only [List.cons.injEq, and_true] at hk
      exact (cparam_inj hk.1).trans (cparam_inj hk.2).symm
    · intro h'
      subst h'
      have := (hidn [cparam c, cparam c]).2 ⟨c, hc ▸ hcm, rfl⟩
      rw [hl] at this
      cases this; rfl

example :
    let L := Test.tS4
    let ops : List MOp := [.setPred Test.F [Test.a] .T 1, .rAdd 0 1, .setLiteral (.op1 .neg (.pred Pred.identity [Test.a, Test.b])) .T 0]
    let m' := (finish L {} (run L {} Model.init ops).1).1
    isClassical L = true ∧ L.T.unassigned ≠ .T ∧ (∀ op ∈ ops, op.setter = true) ∧ (∀ op ∈ ops, op.setsIdT L = false) ∧
      (run L {} Model.init ops).2 = [none, none, none] ∧ (finish L {} (run L {} Model.init ops).1).2 = none ∧
      m'.consts = [(0, 0), (1, 0)] ∧ akeys m'.frames = [0, 1] ∧
      valueOf L m' (.pred Pred.identity [Test.a, Test.b]) 0 = .ok .F ∧ valueOf L m' (.pred Pred.identity [Test.b, Test.a]) 1 = .ok .F ∧
      valueOf L m' (.pred Pred.identity [Test.b, Test.b]) 1 = .ok .T ∧
      MOp.setsIdT L (.setLiteral (.op1 .neg (.pred Pred.identity [Test.a, Test.b])) .F 0) = true := by decide +kernel

/-- witness (i): `a = b` set true, finish: `b = a` evaluates to F — identity is not symmetric -/
theorem C08_identity_not_symmetric :
    let m := (run Test.tCFOL {} Model.init [.setPred Pred.identity [Test.a, Test.b] .T 0, .finish]).1
    m.finished = true ∧ valueOf Test.tCFOL m (.pred Pred.identity [Test.a, Test.b]) 0 = .ok .T ∧
      valueOf Test.tCFOL m (.pred Pred.identity [Test.b, Test.a]) 0 = .ok .F := by decide +kernel

example : ¬ ∀ (m : Model) (a b : Param), m.finished = true →
    valueOf Test.tCFOL m (.pred Pred.identity [a, b]) 0 = .ok .T → valueOf Test.tCFOL m (.pred Pred.identity [b, a]) 0 = .ok .T := by
  intro h
  have w := C08_identity_not_symmetric
  have := h _ Test.a Test.b w.1 w.2.1
  rw [w.2.2] at this
  cases this

/-- witness: `a = b`, `c = b` true, finish (constants visited in the order a, b, c): `b = a` and
    `a = c` are true, `b = c` is false — not transitive -/
theorem C08_identity_not_transitive :
    let m := (run Test.tCFOL {} Model.init
      [.setPred Pred.identity [Test.a, Test.b] .T 0, .setPred Pred.identity [Test.c, Test.b] .T 0, .finish]).1
    valueOf Test.tCFOL m (.pred Pred.identity [Test.b, Test.a]) 0 = .ok .T ∧
      valueOf Test.tCFOL m (.pred Pred.identity [Test.a, Test.c]) 0 = .ok .T ∧
      valueOf Test.tCFOL m (.pred Pred.identity [Test.b, Test.c]) 0 = .ok .F := by decide +kernel

example : (run Test.tCFOL {} Model.init
    [.setPred Pred.identity [Test.a, Test.b] .T 0, .setPred Pred.identity [Test.c, Test.b] .T 0, .finish]).2 = [none, none, none] := by
  decide +kernel

/-- witness: `a = b`, `Haa` true, finish: `Hba` is false — the extension of H is not closed under identity
    (`substitute` replaces ALL occurrences of a constant at once) -/
theorem C08_extension_not_closed :
    let m := (run Test.tCFOL {} Model.init
      [.setPred Pred.identity [Test.a, Test.b] .T 0, .setPred Test.H [Test.a, Test.a] .T 0, .finish]).1
    valueOf Test.tCFOL m (.pred Test.H [Test.a, Test.a]) 0 = .ok .T ∧
      valueOf Test.tCFOL m (.pred Pred.identity [Test.a, Test.b]) 0 = .ok .T ∧
      valueOf Test.tCFOL m (.pred Test.H [Test.b, Test.a]) 0 = .ok .F := by decide +kernel

example : (run Test.tCFOL {} Model.init
    [.setPred Pred.identity [Test.a, Test.b] .T 0, .setPred Test.H [Test.a, Test.a] .T 0, .finish]).2 = [none, none, none] := by
  decide +kernel

/-- witness (ii): serial frames.  `Fa` set true at world 0, finish: the Access class adds world 1
    AFTER the identity / existence pass and after `_complete_frames`; world 1 is accessible from 0 but
    `a = a` and `E!a` are false there (and it has no frame) -/
theorem C08_serial_world_not_completed :
    let m := (run Test.tD {} Model.init [.setPred Test.F [Test.a] .T 0, .finish]).1
    m.R = ⟨[0, 1], [(0, 1), (1, 1)]⟩ ∧ m.frames.lookup 1 = none ∧
      valueOf Test.tD m (.pred Pred.identity [Test.a, Test.a]) 0 = .ok .T ∧
      valueOf Test.tD m (.pred Pred.identity [Test.a, Test.a]) 1 = .ok .F ∧
      valueOf Test.tD m (.pred Pred.existence [Test.a]) 1 = .ok .F ∧
      valueOf Test.tD m (.op1 .nec (.pred Pred.existence [Test.a])) 0 = .ok .F := by decide +kernel

example : (finishX Test.tD {} (run Test.tD {} Model.init [.setPred Test.F [Test.a] .T 0]).1).2 = true := by decide +kernel

/-! ## order independence -/

/- Full statement (DESIGN `C08_order_independent`): for programs `ops₁ ~ ops₂` (permutations of one
   another) whose calls all succeed, `finish (run ops₁) ≈ finish (run ops₂)` (equal as sets).

   In the classical family this is FALSE of the real code through the hash order of
   `self.constants` (an input, `Hints`, of the mirror): harness finding
   `C08:identity-completion:order-dependent`.  Proved here: the access part — the finished
   relation is a function of the SET of worlds and pairs, whatever the order of the `R.add` calls.
   The value-setting part: see `C08_order_independent_assembly` (every logic, every public setter),
   `C08_order_independent` (every logic; the classical family when no Identity tuple is set to T: complete),
   `C08_order_independent_all_sentences` and `C08_order_independent_classical_partial` below; the access part
   without the computed flags, for every Access class, is `C08_order_independent_access`. -/
theorem C08_order_independent_partial (k : FrameKind) (hk : Frames.isRefl k = true) (R₁ R₂ : Acc)
    (h₁ : R₁.WF) (h₂ : R₂.WF) (hkeys : ∀ w, w ∈ R₁.keys ↔ w ∈ R₂.keys) (hpairs : ∀ p, p ∈ R₁.pairs ↔ p ∈ R₂.pairs)
    (f₁ : (Acc.enforce k R₁).2 = true) (f₂ : (Acc.enforce k R₂).2 = true) (p : Nat × Nat) :
    p ∈ (Acc.enforce k R₁).1.pairs ↔ p ∈ (Acc.enforce k R₂).1.pairs :=
  Acc.enforce_congr hk h₁ h₂ hkeys hpairs f₁ f₂ p

example :
    let R₁ := ((Model.init.R.add 0 1).add 1 2)
    let R₂ := ((Model.init.R.add 1 2).add 0 1)
    R₁ ≠ R₂ ∧ (∀ p ∈ (Acc.enforce .S4 R₁).1.pairs, p ∈ (Acc.enforce .S4 R₂).1.pairs) ∧
      (Acc.enforce .S4 R₁).2 = true ∧ (Acc.enforce .S4 R₂).2 = true := by decide +kernel

/-- the access half without the computed flags: for EVERY Access class — the serial one included: the world
    `SerialAccess.enforce()` invents is `max(worlds) + 1` and the dead ends are the worlds without an outgoing
    pair, both functions of the sets — the finished relation (worlds and pairs) is a function of the SET of
    worlds and pairs -/
theorem C08_order_independent_access (k : FrameKind) (R₁ R₂ : Acc) (h₁ : R₁.WF) (h₂ : R₂.WF)
    (hkeys : ∀ w, w ∈ R₁.keys ↔ w ∈ R₂.keys) (hpairs : ∀ p, p ∈ R₁.pairs ↔ p ∈ R₂.pairs) :
    (∀ w, w ∈ (Acc.enforce k R₁).1.keys ↔ w ∈ (Acc.enforce k R₂).1.keys) ∧
    (∀ p, p ∈ (Acc.enforce k R₁).1.pairs ↔ p ∈ (Acc.enforce k R₂).1.pairs) :=
  Acc.enforce_set_congr_all k h₁ h₂ hkeys hpairs

example :
    let R₁ := ((Model.init.R.add 0 1).add 1 2)
    let R₂ := ((Model.init.R.add 1 2).add 0 1)
    R₁ ≠ R₂ ∧ (∀ p ∈ (Acc.enforce .S5 R₁).1.pairs, p ∈ (Acc.enforce .S5 R₂).1.pairs) ∧
      (Acc.enforce .S5 R₁).1.pairs ≠ (Acc.enforce .S5 R₂).1.pairs ∧
      (Acc.enforce .D R₁).1 = ⟨[0, 1, 2, 3], [(0, 1), (1, 2), (2, 3), (3, 3)]⟩ ∧
      (Acc.enforce .D R₂).1 = ⟨[0, 1, 2, 3], [(1, 2), (0, 1), (2, 3), (3, 3)]⟩ := by decide +kernel

/- The CONTENT of a model (`Model.has`, `Model.Eqv`; Ptx/Proofs/LibModelOrder.lean) is everything
   `_complete_frames`, `enforce()`, `value_of` and `get_data` can see of it: which worlds have a frame
   (`.frame w`), the value a letter / uninterpreted sentence / predication has in the frame of a world
   (`.at w (.atom a v)`, `.at w (.opq s v)`, `.at w (.pred p t v)`: the dict lookups), which predicates
   the frame of a world knows (`.at w (.hasPred p)`), the model's constants, the letters / predicates of
   `self.sentences`, keys and pairs of `R` — each as a SET; `Model.Eqv` = same content and the same
   `finished` / `_is_frame_complete` flags.  It is "equality of canonicalised state": two models with the
   same content differ only in the insertion order of their dicts / sets. -/

/-! ### `set_literal_value` / `set_value` are primitive setter calls -/

/-- REDUCTION of the two derived setters: for every call `op` other than `finish()`, on EVERY model `m`
    (finished or not, whatever it contains):
      * if `op` has a primitive reduction `op'` (`MOp.toPrim`: the call itself for the three primitive setters and
        `R.add`; for `set_literal_value(s, v)` / `set_value(s, v)`: `set_opaque_value(s, v)` if `s` is uninterpreted,
        else the atom / predication under the negations of `s` with `v` negated by the logic's own ¬ table once
        per negation), then `op'` is one of `set_atomic_value` / `set_predicated_value` / `set_opaque_value` /
        `R.add` and the call has EXACTLY the outcome of `op'` — same new state, same exception;
      * otherwise the call raises and leaves the model as it was. -/
theorem C08_setter_reduction (L : LogicData) (h : Hints) (m : Model) (op : MOp) (hs : op.setter = true) :
    (∀ op', op.toPrim L = some op' → op'.prim = true ∧ step L h m op = step L h m op') ∧
    (op.toPrim L = none → ∃ e, step L h m op = (m, some e)) :=
  ⟨fun _ ht => ⟨MOp.toPrim_prim ht, step_toPrim h m ht⟩, fun ht => step_toPrim_none h m hs ht⟩

example :
    MOp.toPrim Test.tLP (.setLiteral (.op1 .neg (.op1 .neg (.op1 .neg (.pred Test.F [Test.a])))) .T 1)
      = some (.setPred Test.F [Test.a] .F 1) ∧
    MOp.toPrim Test.tLP (.setValue (.op1 .neg (.atom 0 0)) .B 0) = some (.setAtomic 0 0 .B 0) ∧
    MOp.toPrim Test.tCFOL (.setValue (.op1 .neg (.op1 .poss (.atom 0 0))) .T 0) = some (.setOpaque (.op1 .poss (.atom 0 0)) .F 0) ∧
    MOp.toPrim Test.tLP (.setValue (.op1 .neg (.op1 .neg (.atom 0 0))) .T 0) = none ∧
    MOp.toPrim Test.tLP (.setLiteral (.op2 .conj (.atom 0 0) (.atom 1 0)) .T 0) = none := by decide +kernel

/-- hence a whole program runs exactly like its primitive reduction (same final model, same exception per call) -/
theorem C08_setter_reduction_run (L : LogicData) (h : Hints) (m : Model) (ops : List MOp) :
    run L h m (ops.map (MOp.reduce L)) = run L h m ops :=
  run_reduce h ops m

example : ([.setLiteral (.op1 .neg (.pred Test.F [Test.a])) .T 1, .rAdd 0 1, .setValue (.atom 0 0) .B 0] : List MOp).map
    (MOp.reduce Test.tLP) = [.setPred Test.F [Test.a] .F 1, .rAdd 0 1, .setAtomic 0 0 .B 0] := by decide +kernel

/-! ### assembly and finish -/

/-- every logic, EVERY public setter: two programs of `set_atomic_value` / `set_opaque_value` /
    `set_predicated_value` / `set_literal_value` / `set_value` / `R.add` calls that are permutations of one another
    and in which no call raises assemble models with the same content (the content is described by MEMBERSHIP of
    the calls' primitive reductions in the program: `run_has`, `C08_setter_reduction_run`) -/
theorem C08_order_independent_assembly (L : LogicData) (h : Hints) (ops₁ ops₂ : List MOp) (hperm : ops₁.Perm ops₂)
    (hset : ∀ op ∈ ops₁, op.setter = true)
    (hok₁ : ∀ e ∈ (run L h Model.init ops₁).2, e = none) (hok₂ : ∀ e ∈ (run L h Model.init ops₂).2, e = none) :
    (run L h Model.init ops₁).1.Eqv (run L h Model.init ops₂).1 :=
  run_perm_eqv_gen h h hperm hset hok₁ hok₂

example :
    let ops₁ : List MOp := [.setLiteral (.op1 .neg (.pred Test.F [Test.a])) .F 1, .setValue (.pred Test.G [Test.b]) .T 2, .rAdd 0 1]
    let ops₂ : List MOp := [.setValue (.pred Test.G [Test.b]) .T 2, .setLiteral (.op1 .neg (.pred Test.F [Test.a])) .F 1, .rAdd 0 1]
    ops₁.Perm ops₂ ∧ (∀ op ∈ ops₁, op.setter = true) ∧ (run Test.tS4 {} Model.init ops₁).2 = [none, none, none] ∧
      (run Test.tS4 {} Model.init ops₂).2 = [none, none, none] ∧
      (run Test.tS4 {} Model.init ops₁).1 ≠ (run Test.tS4 {} Model.init ops₂).1 := by
  refine ⟨?_, by decide, by decide +kernel, by decide +kernel, by decide +kernel⟩
  exact List.Perm.swap _ _ _

/-- ORDER INDEPENDENCE — every logic (every Access class, the serial one included), every public setter; in the
    classical family (CPL CFOL K D T S4 S5) under the condition that no call sets an Identity tuple to T
    (`MOp.setsIdT`: the call's primitive reduction is `set_predicated_value(Identity(…), 'T')`; with such calls the
    statement is FALSE of the code: `C08_order_dependent_classical_witness`).
    Two programs of value-setting / `R.add` calls that are permutations of one another, none of whose calls
    raises, each followed by `finish()`:
      * both `finish()` calls raise the same exception, or neither raises, and then
      * the finished models have the same content (`Model.Eqv`: same frames, same stored values, same
        constants, same access relation — as sets),
      * every sentence of `C08_eval_is_spec` (closed, over the model's constants, interpreted vocabulary,
        no re-binding) has the same value in both at every world of a set `S` of worlds closed under
        access (the side condition of `C08_eval_is_spec` on the first model),
      * every uninterpreted sentence has the same value in both at every world that has a frame (any
        world, in a modal logic),
      * `S` can be taken to be ALL worlds of the finished relation (in a modal logic; in a non-modal logic —
        whose Access class is not the serial one — that is the one world 0: `C08_worlds_of_assembled`).
    (Sentences outside `C08_eval_is_spec`: `C08_order_independent_all_sentences`.) -/
theorem C08_order_independent (L : LogicData) (hOK : foldProgramsOKB L = true) (hT : L.tablesTotalB = true)
    (h₁ h₂ : Hints) (ops₁ ops₂ : List MOp)
    (hperm : ops₁.Perm ops₂) (hset : ∀ op ∈ ops₁, op.setter = true)
    (hok₁ : ∀ e ∈ (run L h₁ Model.init ops₁).2, e = none) (hok₂ : ∀ e ∈ (run L h₂ Model.init ops₂).2, e = none)
    (hid : isClassical L = true → ∀ op ∈ ops₁, op.setsIdT L = false) :
    (finish L h₁ (run L h₁ Model.init ops₁).1).2 = (finish L h₂ (run L h₂ Model.init ops₂).1).2 ∧
    ∀ m₁ m₂ : Model, finish L h₁ (run L h₁ Model.init ops₁).1 = (m₁, none) →
      finish L h₂ (run L h₂ Model.init ops₂).1 = (m₂, none) →
      m₁.Eqv m₂ ∧
      (∀ (_ : Dom m₁) (S : Nat → Prop), WorldsOK L m₁ S → ∀ s, okIn L m₁.consts [] s = true → ∀ w, S w →
          valueOf L m₂ s w = valueOf L m₁ s w) ∧
      (∀ s w, isOpaque L s = true → (L.modal = true ∨ (m₁.frames.lookup w).isSome = true) →
          valueOf L m₂ s w = valueOf L m₁ s w) ∧
      ((L.modal = true ∨ L.frame ≠ .D) → ∀ (_ : Dom m₁) s, okIn L m₁.consts [] s = true → ∀ w ∈ m₁.R.keys,
          valueOf L m₂ s w = valueOf L m₁ s w) := by
  obtain ⟨he, hq⟩ := order_independent_gen h₁ h₂ hperm hset hok₁ hok₂ hid
  refine ⟨he, ?_⟩
  intro m₁ m₂ hf₁ hf₂
  have heq : m₁.Eqv m₂ := by
    have := hq (by rw [hf₁])
    rw [hf₁, hf₂] at this
    exact this
  obtain ⟨hnf, _, hwf⟩ := run_setter_facts h₁ hset hok₁
  have hinv := C08_reachable_inv L hT h₁ ops₁
  have hinv₁ : m₁.Inv L := by
    have := finish_inv (tablesOK_of_total hT) h₁ hinv
    rw [hf₁] at this; exact this
  have hfin₁ : m₁.finished = true := (finish_R hf₁ hnf hinv.rwf).choose_spec.2.2.2.2
  have key : ∀ (_ : Dom m₁) (S : Nat → Prop), WorldsOK L m₁ S → ∀ s, okIn L m₁.consts [] s = true → ∀ w, S w →
      valueOf L m₂ s w = valueOf L m₁ s w := fun c0 S hS s hs w hw =>
    valueOfF_congr L hOK hT m₁ m₂ heq hfin₁ hinv₁.valsOK c0 S hS s.size s (Nat.le_refl _) hs w hw
  refine ⟨heq, key, fun s w hs hw => valueOf_opaque_congr heq hfin₁ hw hs, ?_⟩
  intro hD c0 s hs w hw
  exact key c0 _ (worldsOK_of_run hT hD h₁ hinv (run_run0 h₁ ops₁ _ (init_run0 L) hset) hf₁).1 s hs w hw

/-- non-vacuity: a non-classical modal logic (LP tables on S4 frames), two orders of the same calls (one of them a
    `set_literal_value`), both succeed, the finished models differ as data (insertion order) and agree on a
    quantified modal sentence -/
example :
    let L : LogicData := { Test.tLP with name := "tS4LP", modal := true, frame := .S4 }
    let ops₁ : List MOp := [.setLiteral (.op1 .neg (.pred Test.F [Test.a])) .B 1, .rAdd 0 1, .setPred Test.F [Test.b] .T 0]
    let ops₂ : List MOp := [.setPred Test.F [Test.b] .T 0, .rAdd 0 1, .setLiteral (.op1 .neg (.pred Test.F [Test.a])) .B 1]
    let m₁ := (finish L {} (run L {} Model.init ops₁).1).1
    let m₂ := (finish L {} (run L {} Model.init ops₂).1).1
    let s : Sent := .op1 .nec (.quant .ex 0 0 (.pred Test.F [Test.x]))
    isClassical L = false ∧ (∀ op ∈ ops₁, op.setter = true) ∧ (run L {} Model.init ops₁).2 = [none, none, none] ∧
      (run L {} Model.init ops₂).2 = [none, none, none] ∧ (finish L {} (run L {} Model.init ops₁).1).2 = none ∧
      m₁ ≠ m₂ ∧ okIn L m₁.consts [] s = true ∧ valueOf L m₁ s 0 = valueOf L m₂ s 0 ∧ valueOf L m₁ s 0 = .ok .B := by
  decide +kernel

/-- non-vacuity, classical family, serial Access class (logic D), no Identity tuple set to T: the hypotheses hold, the
    finished models differ as data, the world the Access class invents (3) is the same, and the values agree -/
example :
    let L := Test.tD
    let ops₁ : List MOp := [.setLiteral (.op1 .neg (.pred Test.F [Test.a])) .F 1, .rAdd 0 1, .setPred Test.G [Test.b] .T 2,
      .setPred Pred.identity [Test.a, Test.b] .F 0]
    let ops₂ : List MOp := [.setPred Pred.identity [Test.a, Test.b] .F 0, .setPred Test.G [Test.b] .T 2, .rAdd 0 1,
      .setLiteral (.op1 .neg (.pred Test.F [Test.a])) .F 1]
    let m₁ := (finish L {} (run L {} Model.init ops₁).1).1
    let m₂ := (finish L { consts := [(1, 0), (0, 0)] } (run L {} Model.init ops₂).1).1
    let s : Sent := .op1 .poss (.quant .ex 0 0 (.op2 .conj (.pred Test.F [Test.x]) (.pred Pred.identity [Test.x, Test.x])))
    isClassical L = true ∧ L.frame = .D ∧ (∀ op ∈ ops₁, op.setter = true) ∧ (∀ op ∈ ops₁, op.setsIdT L = false) ∧
      (run L {} Model.init ops₁).2 = [none, none, none, none] ∧ (run L {} Model.init ops₂).2 = [none, none, none, none] ∧
      (finish L {} (run L {} Model.init ops₁).1).2 = none ∧ m₁ ≠ m₂ ∧ m₁.R.keys = [0, 1, 2, 3] ∧
      okIn L m₁.consts [] s = true ∧ valueOf L m₁ s 0 = valueOf L m₂ s 0 ∧ valueOf L m₁ s 0 = .ok .T := by
  decide +kernel

/- Full statement: the finished models of `C08_order_independent` give EVERY sentence — also those outside
   `C08_eval_is_spec`: free variables, parameters that are not constants of the model, quantifiers re-binding
   their own variable — the same value or the same exception, at every world.
   FALSE of the code where worlds can be dead ends (frames of K): the folds consume generators and stop early, `□…`
   is vacuously true at a dead end whatever its body would raise, so whether a `DenotationError` is reached depends
   on the order in which `R[w]` yields the successors, i.e. on the order of the `R.add` calls
   (`C08_order_dependent_dead_end_witness`; on the real object: K, `R.add` of (0,8) (0,16) (0,24) (24,25) in this and
   in the order (0,24) (0,8) (0,16) (24,25): `value_of(◇□Fd, world=0)` for a constant `d` that is not in the model is
   `T` in the first, `DenotationError` in the second).
   Proved: the full statement at worlds without dead ends (`WorldsAny`; in every logic whose frames are serial,
   and in every non-modal logic, these are ALL worlds of the finished model), for a model with a constant.  The key
   lemma is `errPart_uniform`: whether an instance `c >> s` raises, and what, does not depend on the model constant
   substituted nor on the (non-dead-end) world, so every fold runs over a list that is all values or all the same
   exception. -/
theorem C08_order_independent_all_sentences (L : LogicData) (hOK : foldProgramsOKB L = true) (hT : L.tablesTotalB = true)
    (h₁ h₂ : Hints) (ops₁ ops₂ : List MOp)
    (hperm : ops₁.Perm ops₂) (hset : ∀ op ∈ ops₁, op.setter = true)
    (hok₁ : ∀ e ∈ (run L h₁ Model.init ops₁).2, e = none) (hok₂ : ∀ e ∈ (run L h₂ Model.init ops₂).2, e = none)
    (hid : isClassical L = true → ∀ op ∈ ops₁, op.setsIdT L = false)
    (m₁ m₂ : Model) (hf₁ : finish L h₁ (run L h₁ Model.init ops₁).1 = (m₁, none))
    (hf₂ : finish L h₂ (run L h₂ Model.init ops₂).1 = (m₂, none)) :
    (∀ (_ : Dom m₁) (S : Nat → Prop), WorldsAny L m₁ S → ∀ (s : Sent) w, S w → valueOf L m₂ s w = valueOf L m₁ s w) ∧
    (((L.modal = false ∧ L.frame ≠ .D) ∨ (L.modal = true ∧ L.emptyAccessOk = false)) →
      ∀ (_ : Dom m₁) (s : Sent), ∀ w ∈ m₁.R.keys, valueOf L m₂ s w = valueOf L m₁ s w) := by
  obtain ⟨heq, _, _, _⟩ := (C08_order_independent L hOK hT h₁ h₂ ops₁ ops₂ hperm hset hok₁ hok₂ hid).2 m₁ m₂ hf₁ hf₂
  have hinv := C08_reachable_inv L hT h₁ ops₁
  have hinv₁ : m₁.Inv L := by
    have := finish_inv (tablesOK_of_total hT) h₁ hinv
    rw [hf₁] at this; exact this
  have hfin₁ : m₁.finished = true := (finish_R hf₁ (finish_ok_not_finished hf₁) hinv.rwf).choose_spec.2.2.2.2
  have key : ∀ (_ : Dom m₁) (S : Nat → Prop), WorldsAny L m₁ S → ∀ (s : Sent) w, S w →
      valueOf L m₂ s w = valueOf L m₁ s w := fun c0 S hS s w hw =>
    (valueOfF_congr_any L hOK hT m₁ m₂ heq hfin₁ hinv₁.valsOK c0 S hS s.size s w hw).1
  refine ⟨key, ?_⟩
  intro hL c0 s w hw
  have hD : L.modal = true ∨ L.frame ≠ .D := by
    rcases hL with h | h
    · exact Or.inr h.2
    · exact Or.inl h.1
  have hW := (worldsOK_of_run hT hD h₁ hinv (run_run0 h₁ ops₁ _ (init_run0 L) hset) hf₁).1
  refine key c0 _ ⟨hW.frame, hW.succ, ?_⟩ s w hw
  intro hm w' hw'
  rcases hL with h | h
  · rw [h.1] at hm; cases hm
  · exact hW.serial h.2 w' hw'

/-- non-vacuity: logic D (serial frames), a sentence with a constant that is not in the model (`Gc`, raising
    DenotationError) behind a disjunct, and one with a free variable: same outcome in both finished models -/
example :
    let L := Test.tD
    let ops₁ : List MOp := [.setPred Test.F [Test.a] .T 1, .rAdd 0 1, .setPred Test.G [Test.b] .T 0]
    let ops₂ : List MOp := [.setPred Test.G [Test.b] .T 0, .rAdd 0 1, .setPred Test.F [Test.a] .T 1]
    let m₁ := (finish L {} (run L {} Model.init ops₁).1).1
    let m₂ := (finish L {} (run L {} Model.init ops₂).1).1
    let s : Sent := .op1 .poss (.quant .ex 0 0 (.op2 .disj (.pred Test.F [Test.x]) (.pred Test.G [Test.c])))
    let s' : Sent := .quant .univ 0 0 (.quant .ex 0 0 (.pred Test.F [Test.x]))
    L.modal = true ∧ L.emptyAccessOk = false ∧ (finish L {} (run L {} Model.init ops₁).1).2 = none ∧ m₁ ≠ m₂ ∧
      m₁.consts = [(0, 0), (1, 0)] ∧ m₂.consts = [(1, 0), (0, 0)] ∧
      valueOf L m₁ s 0 = .error .denotation ∧ valueOf L m₂ s 0 = .error .denotation ∧
      valueOf L m₁ s' 1 = valueOf L m₂ s' 1 ∧ valueOf L m₁ (.pred Test.F [Test.x]) 1 = .error .denotation := by
  decide +kernel

/-- witness that the full statement fails where worlds can be dead ends (frames of K; classical K here, no Identity
    tuple set): `◇□Fb` with `b` not a constant of the model.  Worlds 1 and 2 are dead ends (`□Fb` is vacuously T
    there), world 3 has a successor (`□Fb` raises DenotationError there).  With `R[0]` yielding 1, 2, 3 the
    short-circuiting maximum stops at the second T; yielding 3 first it raises. -/
theorem C08_order_dependent_dead_end_witness :
    let L : LogicData := { Test.tD with name := "tK", frame := .K }
    let ops₁ : List MOp := [.rAdd 0 1, .rAdd 0 2, .rAdd 0 3, .rAdd 3 4, .setPred Test.F [Test.a] .T 0]
    let ops₂ : List MOp := [.rAdd 0 3, .rAdd 0 1, .rAdd 0 2, .rAdd 3 4, .setPred Test.F [Test.a] .T 0]
    let m₁ := (finish L {} (run L {} Model.init ops₁).1).1
    let m₂ := (finish L {} (run L {} Model.init ops₂).1).1
    let s : Sent := .op1 .poss (.op1 .nec (.pred Test.F [Test.b]))
    (run L {} Model.init ops₁).2 = [none, none, none, none, none] ∧ (run L {} Model.init ops₂).2 = [none, none, none, none, none] ∧
      (finish L {} (run L {} Model.init ops₁).1).2 = none ∧ (finish L {} (run L {} Model.init ops₂).1).2 = none ∧
      m₁.consts = [(0, 0)] ∧ m₁.R.succ 1 = [] ∧ m₁.R.succ 0 = [1, 2, 3] ∧ m₂.R.succ 0 = [3, 1, 2] ∧
      valueOf L m₁ s 0 = .ok .T ∧ valueOf L m₂ s 0 = .error .denotation := by decide +kernel

example : ([.rAdd 0 1, .rAdd 0 2, .rAdd 0 3, .rAdd 3 4, .setPred Test.F [Test.a] .T 0] : List MOp).Perm
    [.rAdd 0 3, .rAdd 0 1, .rAdd 0 2, .rAdd 3 4, .setPred Test.F [Test.a] .T 0] :=
  by decide

/- Classical family (CPL CFOL K D T S4 S5), programs that DO set Identity tuples to T: the full statement is FALSE of
   the mirrored code — the one-pass identity completion of cpl.Model.finish walks `self.constants` (a `set`; its
   iteration order is an input of the mirror, `Hints`) and what it adds depends on that order; see the witness below
   and the harness finding `C08:identity-completion:order-dependent`.  Proved for ALL programs of the classical
   family: everything in `finish()` EXCEPT the identity pass is order independent — the assembled models have the
   same content, `_complete_frames` maps them to models with the same content (or raises in both), and the finished
   models have the same constants and the same access relation (every Access class).  The identity pass itself is
   order independent exactly when no Identity tuple is set to T: `C08_order_independent`. -/
theorem C08_order_independent_classical_partial (L : LogicData) (hcl : isClassical L = true)
    (h₁ h₂ : Hints) (ops₁ ops₂ : List MOp) (hperm : ops₁.Perm ops₂) (hset : ∀ op ∈ ops₁, op.setter = true)
    (hok₁ : ∀ e ∈ (run L h₁ Model.init ops₁).2, e = none) (hok₂ : ∀ e ∈ (run L h₂ Model.init ops₂).2, e = none) :
    (run L h₁ Model.init ops₁).1.Eqv (run L h₂ Model.init ops₂).1 ∧
    (∀ c₁, completeFrames L (run L h₁ Model.init ops₁).1 = .ok c₁ →
        ∃ c₂, completeFrames L (run L h₂ Model.init ops₂).1 = .ok c₂ ∧ c₁.Eqv c₂) ∧
    ∀ m₁ m₂ : Model, finish L h₁ (run L h₁ Model.init ops₁).1 = (m₁, none) →
      finish L h₂ (run L h₂ Model.init ops₂).1 = (m₂, none) →
      (∀ c, c ∈ m₁.consts ↔ c ∈ m₂.consts) ∧ (∀ w, w ∈ m₁.R.keys ↔ w ∈ m₂.R.keys) ∧
      (∀ p, p ∈ m₁.R.pairs ↔ p ∈ m₂.R.pairs) := by
  have hset₂ : ∀ op ∈ ops₂, op.setter = true := fun op ho => hset op (hperm.mem_iff.2 ho)
  have heq := run_perm_eqv_gen h₁ h₂ hperm hset hok₁ hok₂
  have hFK₁ := run_FK (L := L) h₁ ops₁ _ init_FK
  have hFK₂ := run_FK (L := L) h₂ ops₂ _ init_FK
  refine ⟨heq, fun c₁ hc₁ => completeFrames_eqv heq hFK₁ hFK₂ hc₁, ?_⟩
  intro m₁ m₂ hf₁ hf₂
  obtain ⟨hnf₁, _, hwf₁⟩ := run_setter_facts h₁ hset hok₁
  obtain ⟨hnf₂, _, hwf₂⟩ := run_setter_facts h₂ hset₂ hok₂
  obtain ⟨_, hc₁, _⟩ := finish_self hcl h₁ hf₁ hnf₁
  obtain ⟨_, hc₂, _⟩ := finish_self hcl h₂ hf₂ hnf₂
  obtain ⟨R1, w1, p1, k1, e1, _⟩ := finish_R hf₁ hnf₁ hwf₁
  obtain ⟨R2, w2, p2, k2, e2, _⟩ := finish_R hf₂ hnf₂ hwf₂
  have hkeys : ∀ w, w ∈ R1.keys ↔ w ∈ R2.keys := by
    intro w
    rw [k1, k2, heq.frameComplete]
    exact or_congr (heq.has (.key w)) (and_congr Iff.rfl (heq.has (.frame w)))
  have hpairs : ∀ p, p ∈ R1.pairs ↔ p ∈ R2.pairs := by
    intro p; rw [p1, p2]; exact heq.has (.pair p)
  obtain ⟨ek, ep⟩ := Acc.enforce_set_congr_all L.frame w1 w2 hkeys hpairs
  rw [e1, e2, hc₁, hc₂]
  exact ⟨fun c => heq.has (.const c), ek, ep⟩

example :
    let ops₁ : List MOp := [.setPred Test.F [Test.a] .T 1, .rAdd 0 1, .setPred Pred.identity [Test.a, Test.b] .T 0]
    let ops₂ : List MOp := [.setPred Pred.identity [Test.a, Test.b] .T 0, .rAdd 0 1, .setPred Test.F [Test.a] .T 1]
    isClassical Test.tS4 = true ∧ (run Test.tS4 {} Model.init ops₁).2 = [none, none, none] ∧
      (run Test.tS4 {} Model.init ops₂).2 = [none, none, none] ∧
      (finish Test.tS4 {} (run Test.tS4 {} Model.init ops₁).1).2 = none ∧
      (finish Test.tS4 {} (run Test.tS4 {} Model.init ops₂).1).2 = none := by decide +kernel

/-- witness that the full statement fails in the classical family (mirror of finding
    `C08:identity-completion:order-dependent`): the same two calls in the two orders, `self.constants` visited
    in the order each run introduced the constants (`Hints` empty): after `a = b; c = b; finish`, `b = a` is T
    and `b = c` is F; after `c = b; a = b; finish`, `b = a` is F and `b = c` is T -/
theorem C08_order_dependent_classical_witness :
    let ops₁ : List MOp := [.setPred Pred.identity [Test.a, Test.b] .T 0, .setPred Pred.identity [Test.c, Test.b] .T 0, .finish]
    let ops₂ : List MOp := [.setPred Pred.identity [Test.c, Test.b] .T 0, .setPred Pred.identity [Test.a, Test.b] .T 0, .finish]
    let m₁ := (run Test.tCFOL {} Model.init ops₁).1
    let m₂ := (run Test.tCFOL {} Model.init ops₂).1
    (run Test.tCFOL {} Model.init ops₁).2 = [none, none, none] ∧ (run Test.tCFOL {} Model.init ops₂).2 = [none, none, none] ∧
      valueOf Test.tCFOL m₁ (.pred Pred.identity [Test.b, Test.a]) 0 = .ok .T ∧
      valueOf Test.tCFOL m₂ (.pred Pred.identity [Test.b, Test.a]) 0 = .ok .F ∧
      valueOf Test.tCFOL m₁ (.pred Pred.identity [Test.b, Test.c]) 0 = .ok .F ∧
      valueOf Test.tCFOL m₂ (.pred Pred.identity [Test.b, Test.c]) 0 = .ok .T := by decide +kernel

example : isClassical Test.tCFOL = true := by decide +kernel

end Ptx.Props.C08
