/-
  C08 — model evaluation is compositional and frame-correct.

  Theorems about the executable mirror `Ptx.LibModel` (Ptx/Sem/LibModel.lean) of
  pytableaux/models/__init__.py, logics/cpl.py Model.finish and the evaluator overrides of
  k3wq / kk3wq / mh / nh / go / s4go.  The tie of the mirror to the code is the correspondence
  stream of harness/props/c08.py; the per-logic obligations `<L>_folds` (Ptx/Gen/ObModel.lean,
  generated) discharge `foldProgramsOKB` for every regenerated logic by kernel evaluation.

    C08_folds_set_like, C08_folds_set_like_modal   program on a LIST = regenerated graph on the SET
    C08_folds_order_multiplicity                   … hence invariant under order and repetition
    C08_shortcut_is_plain_max / _min               _limit_best = plain max / min
    C08_eval_is_spec, C08_eval_is_spec_reachable, C08_eval_at_every_world, C08_eval_opaque, C08_reachable_inv
                                                   value_of = documented recursive semantics
    C08_access_closure_partial (+ _extends, _keys, _is_spec_closure, _serial)
    C08_identity_completion_partial (+ three witnesses that the full statement fails)
    C08_serial_world_not_completed                 witness for finding (ii)
    C08_order_independent_partial                  the finished access relation is a function of the SET of pairs
-/
import Ptx.Proofs.LibModelKeys
import Ptx.Proofs.LibModelTest
namespace Ptx.Props.C08
open Ptx Ptx.LibModel

/-- the per-logic obligation (`Ptx.Gen.ObModel.<L>_folds : foldProgramsOKB Gen.<L> = true := by decide +kernel`):
    the fold program the mirror runs for each interpreted quantifier / modal operator reproduces the
    regenerated set-indexed graph on every subset of the value set (and `reduce` programs run over
    an associative-commutative-idempotent action) -/
@[reducible] def foldProgramsOKB (L : LogicData) : Bool := LibModel.foldProgramsOKB L

/-! ## fold programs -/

/-- the value the evaluator computes for `Qx…` from the LIST of instance values (in whatever order,
    with whatever repetitions) is the regenerated graph applied to the SET of those values -/
theorem C08_folds_set_like (L : LogicData) (h : foldProgramsOKB L = true) (hq : L.quantified = true) (q : Quant)
    (xs : List V) (hx : ∀ x ∈ xs, x ∈ L.T.vals) (hne : xs ≠ []) :
    foldQV L q xs = L.T.qfold q xs :=
  foldQV_eq_qfold L h hq q xs hx hne

example : foldProgramsOKB Test.tD = true ∧ foldQV Test.tD .ex [.F, .T, .F, .F] = Test.tD.T.qfold .ex [.T, .F] := by
  decide +kernel

/-- likewise for ◇ / □ over the values at the accessible worlds; the empty list (no accessible
    world) is covered exactly where the logic's frames allow it (K) -/
theorem C08_folds_set_like_modal (L : LogicData) (h : foldProgramsOKB L = true) (hm : L.modal = true) (o : Op1)
    (ho : o = .poss ∨ o = .nec) (xs : List V) (hx : ∀ x ∈ xs, x ∈ L.T.vals)
    (hne : xs ≠ [] ∨ L.emptyAccessOk = true) :
    foldMV L o xs = L.T.mfold o xs :=
  foldMV_eq_mfold L h hm o ho xs hx hne

example : foldMV Test.tD .nec [.T, .F, .T] = Test.tD.T.mfold .nec [.F, .T] := by decide +kernel

/-- order and multiplicity of the instance values do not matter (the empty list included) -/
theorem C08_folds_order_multiplicity (L : LogicData) (h : foldProgramsOKB L = true) (hq : L.quantified = true)
    (q : Quant) (xs ys : List V) (hx : ∀ x ∈ xs, x ∈ L.T.vals) (hy : ∀ y ∈ ys, y ∈ L.T.vals)
    (hm : ∀ v, v ∈ xs ↔ v ∈ ys) : foldQV L q xs = foldQV L q ys := by
  simp only [foldProgramsOKB, LibModel.foldProgramsOKB, hq, Bool.not_true, Bool.false_or, Bool.and_eq_true,
    List.all_eq_true] at h
  have hq' := h.1 q (by cases q <;> simp [Quant.all])
  exact runProgV_setLike L.T _ _ hq'.1 xs ys hx hy hm

example : foldQV Test.tLP .univ [.B, .T, .B] = foldQV Test.tLP .univ [.T, .B] := by decide +kernel

/-! ## the short-circuiting min / max -/

/-- `maxceil(ceil, it, default)`: when `ceil` bounds the items, the early exit changes nothing —
    the result is the plain maximum (and `default` on an empty iterable) -/
theorem C08_shortcut_is_plain_max (ceil dflt x : V) (xs : List V) (hb : ∀ y ∈ x :: xs, rank y ≤ rank ceil) :
    limitBest vgt ceil dflt (x :: xs) = xs.foldl vmax x ∧ limitBest vgt ceil dflt [] = dflt :=
  ⟨limitBestGo_max ceil xs x hb, rfl⟩

example : limitBest vgt .T .F [.N, .B, .N] = .B ∧ limitBest vgt .T .F [] = .F := by decide

/-- `minfloor(floor, it, default)` dually -/
theorem C08_shortcut_is_plain_min (floor dflt x : V) (xs : List V) (hb : ∀ y ∈ x :: xs, rank floor ≤ rank y) :
    limitBest vlt floor dflt (x :: xs) = xs.foldl vmin x ∧ limitBest vlt floor dflt [] = dflt :=
  ⟨limitBestGo_min floor xs x hb, rfl⟩

example : limitBest vgt .T .F [.N, .T, .B] = .T ∧ limitBest vlt .F .T [.B, .N, .T] = .N := by decide

/-! ## value_of is the documented recursive semantics -/

/-- For a finished model whose stored values are values of the logic, at the worlds `S` (closed under
    access; with successors where the logic's frames are serial), every closed sentence over the
    model's constants and the logic's interpreted vocabulary, without a quantifier re-binding its
    own variable, evaluates — without raising — to the value `Ptx.eval` gives it in the structure
    the model denotes: operators by the tables, quantifiers by the logic's set-indexed fold over
    the domain of constants, modal operators likewise over the accessible worlds. -/
theorem C08_eval_is_spec (L : LogicData) (hOK : foldProgramsOKB L = true) (hT : L.tablesTotalB = true)
    (m : Model) (hfin : m.finished = true) (hvals : m.ValsOK L) (c0 : Dom m)
    (S : Nat → Prop) (hS : WorldsOK L m S) (s : Sent) (hs : okIn L m.consts [] s = true) (w : Nat) (hw : S w) :
    valueOf L m s w = .ok (eval L (toStruct L m c0) (envOf L m c0) w s) :=
  (valueOfF_eq_eval L hOK hT m hfin hvals c0 S hS s.size s (Nat.le_refl _) hs w hw).1

/-- non-vacuity: hypotheses and conclusion on a concrete finished model (non-modal: the one world 0) -/
example :
    let L := Test.tCFOL
    let m := (run L {} Model.init [.setPred Test.F [Test.a] .T 0, .setPred Test.G [Test.b] .T 0, .finish]).1
    let s : Sent := .quant .univ 0 0 (.op2 .disj (.pred Test.F [Test.x]) (.pred Test.G [Test.x]))
    foldProgramsOKB L = true ∧ L.tablesTotalB = true ∧ m.finished = true ∧ m.consts = [(0, 0), (1, 0)] ∧
      okIn L m.consts [] s = true ∧ (m.frames.lookup 0).isSome = true ∧ m.R.succ 0 = [] ∧
      valueOf L m s 0 = .ok .T := by decide +kernel

/-- uninterpreted sentences are atoms: looked up in the frame's `opaques` -/
theorem C08_eval_opaque (L : LogicData) (m : Model) (hfin : m.finished = true) (w : Nat)
    (hw : L.modal = true ∨ (m.frames.lookup w).isSome = true) (s : Sent) (hs : isOpaque L s = true) :
    valueOf L m s w = .ok (((frameD m w).opaques.lookup s).getD L.T.unassigned) :=
  valueOf_opaque hfin hw hs

example :
    let m := (run Test.tCFOL {} Model.init [.setOpaque (.op1 .poss (.atom 0 0)) .T 0, .finish]).1
    isOpaque Test.tCFOL (.op1 .poss (.atom 0 0)) = true ∧ valueOf Test.tCFOL m (.op1 .poss (.atom 0 0)) 0 = .ok .T ∧
      valueOf Test.tCFOL m (.op1 .nec (.atom 0 0)) 0 = .ok .F := by decide +kernel

/-- every model assembled through the API (any program of set_* / R.add / finish calls, failing calls
    included) has the invariant the previous theorem needs -/
theorem C08_reachable_inv (L : LogicData) (hT : L.tablesTotalB = true) (h : Hints) (ops : List MOp) :
    (run L h Model.init ops).1.Inv L :=
  run_inv (tablesOK_of_total hT) h ops _ (init_inv L)

example : (run Test.tD {} Model.init
    [.setPred Test.F [Test.a] .T 1, .setLiteral (.op1 .neg (.atom 0 0)) .T 0, .setAtomic 0 0 .T 0, .finish]).1.Inv Test.tD :=
  C08_reachable_inv Test.tD (by decide +kernel) {} _

theorem C08_eval_is_spec_reachable (L : LogicData) (hOK : foldProgramsOKB L = true) (hT : L.tablesTotalB = true)
    (h : Hints) (ops : List MOp) (hfin : (run L h Model.init ops).1.finished = true)
    (c0 : Dom (run L h Model.init ops).1) (S : Nat → Prop) (hS : WorldsOK L (run L h Model.init ops).1 S)
    (s : Sent) (hs : okIn L (run L h Model.init ops).1.consts [] s = true) (w : Nat) (hw : S w) :
    valueOf L (run L h Model.init ops).1 s w =
      .ok (eval L (toStruct L _ c0) (envOf L _ c0) w s) :=
  C08_eval_is_spec L hOK hT _ hfin (C08_reachable_inv L hT h ops).valsOK c0 S hS s hs w hw

example : (run Test.tS4 {} Model.init [.setPred Test.F [Test.a] .T 0, .rAdd 0 1, .finish]).1.finished = true ∧
    (run Test.tS4 {} Model.init [.setPred Test.F [Test.a] .T 0, .rAdd 0 1, .finish]).1.consts = [(0, 0)] := by
  decide +kernel

/-- "at every world": after a successful `finish` of a modal model (enforce loop left through `break`;
    flag reported by the mirror), the hypothesis on the worlds holds for ALL worlds of the finished
    access relation -/
theorem C08_eval_at_every_world (L : LogicData) (hOK : foldProgramsOKB L = true) (hT : L.tablesTotalB = true)
    (hmod : L.modal = true) (h : Hints) (m m' : Model) (hinv : m.Inv L) (hnf : m.finished = false)
    (hfin : finishX L h m = ((m', none), true)) (c0 : Dom m')
    (s : Sent) (hs : okIn L m'.consts [] s = true) (w : Nat) (hw : w ∈ m'.R.keys) :
    valueOf L m' s w = .ok (eval L (toStruct L m' c0) (envOf L m' c0) w s) := by
  have hinv' : m'.Inv L := by
    have := finish_inv (tablesOK_of_total hT) h hinv
    unfold finish at this
    rw [hfin] at this
    exact this
  obtain ⟨_, _, _, _, hf⟩ := finishX_R h hfin hnf
  exact C08_eval_is_spec L hOK hT m' hf hinv'.valsOK c0 _ (worldsOK_of_finish hmod hT h hfin hnf hinv) s hs w hw

example :
    let m := (run Test.tS4 {} Model.init [.setPred Test.F [Test.a] .T 0, .setPred Test.F [Test.b] .T 1, .rAdd 0 1]).1
    (finishX Test.tS4 {} m).2 = true ∧ (finishX Test.tS4 {} m).1.2 = none ∧ m.finished = false ∧
      (finishX Test.tS4 {} m).1.1.R.keys = [0, 1] := by decide +kernel

/-- non-vacuity: a reachable finished model, a quantified modal sentence, all hypotheses true -/
example :
    let L := Test.tS4
    let m := (run L {} Model.init [.setPred Test.F [Test.a] .T 0, .setPred Test.F [Test.b] .T 1, .rAdd 0 1, .finish]).1
    let s : Sent := .op1 .nec (.quant .ex 0 0 (.pred Test.F [Test.x]))
    foldProgramsOKB L = true ∧ L.tablesTotalB = true ∧ m.finished = true ∧ m.consts = [(0, 0), (1, 0)] ∧
      okIn L m.consts [] s = true ∧ m.R.succ 0 = [1, 0] ∧ m.R.succ 1 = [1] ∧ valueOf L m s 0 = .ok .T := by
  decide +kernel

/-! ## the access relation after finish -/

/-- `enforce()` of the reflexive / reflexive-transitive / equivalence Access classes adds only pairs
    the frame condition demands: the finished relation lies inside EVERY relation `Q` with the
    property (on the model's worlds) that contains R; and when the `while True` loop left through
    `break` (flag computed by the mirror, `true` in every correspondence case: driver answer
    `stable=true`) the finished relation HAS the property — so it is the least such relation.

    Full statement (DESIGN): `(finish m).R = closureOf k m.worlds m.R` unconditionally.  Proved:
    the statement under the computed flag; that the fuel `|W|² + 2` always suffices is not proved. -/
theorem C08_access_closure_partial (k : FrameKind) (hk : Frames.isRefl k = true) (R : Acc) (hwf : R.WF) :
    (∀ (Q : Nat × Nat → Prop), Frames.Holds k R.keys Q → (∀ p ∈ R.pairs, Q p) →
        ∀ p ∈ (Acc.enforce k R).1.pairs, Q p) ∧
    ((Acc.enforce k R).2 = true → Frames.Holds k R.keys (· ∈ (Acc.enforce k R).1.pairs)) :=
  ⟨fun _ hQ hR => Acc.enforce_least hk hwf hQ hR, fun hf => Acc.enforce_holds hk hwf hf⟩

example : (Acc.enforce .S5 ⟨[0, 1, 2], [(0, 1), (1, 2)]⟩).2 = true ∧
    (Acc.enforce .S5 ⟨[0, 1, 2], [(0, 1), (1, 2)]⟩).1.pairs.length = 9 := by decide +kernel

/-- nothing is lost (every frame kind) -/
theorem C08_access_extends (k : FrameKind) (R : Acc) : ∀ p ∈ R.pairs, p ∈ (Acc.enforce k R).1.pairs :=
  Acc.enforce_sub k R

example : (0, 1) ∈ (Acc.enforce .S4 ⟨[0, 1], [(0, 1)]⟩).1.pairs := C08_access_extends .S4 _ _ (by simp)

/-- no world is invented, except by the serial Access class -/
theorem C08_access_keys (k : FrameKind) (hk : k ≠ .D) (R : Acc) (hwf : R.WF) (w : Nat) :
    w ∈ (Acc.enforce k R).1.keys ↔ w ∈ R.keys :=
  Acc.enforce_keys hk hwf w

example : (Acc.enforce .S5 ⟨[0, 1, 2], [(0, 1), (1, 2)]⟩).1.keys = [0, 1, 2] ∧
    (Acc.enforce .D ⟨[0, 1, 2], [(0, 1), (1, 2)]⟩).1.keys = [0, 1, 2, 3] := by decide +kernel

/-- the finished relation is the closure computed by the specification program `Frames.closure`
    (what the driver's `same=true` reports case by case) -/
theorem C08_access_is_spec_closure (k : FrameKind) (hk : Frames.isRefl k = true) (R : Acc) (hwf : R.WF)
    (hflag : (Acc.enforce k R).2 = true) (hspec : Frames.stable k R.keys R.pairs = true) (p : Nat × Nat) :
    p ∈ (Acc.enforce k R).1.pairs ↔ p ∈ Frames.closure k R.keys R.pairs :=
  Acc.enforce_eq_closure hk hwf hflag hspec p

example : Frames.stable .S5 [0, 1, 2] [(0, 1), (1, 2)] = true ∧
    (Acc.enforce .S5 ⟨[0, 1, 2], [(0, 1), (1, 2)]⟩).1.pairs.all (Frames.closure .S5 [0, 1, 2] [(0, 1), (1, 2)]).contains = true ∧
    (Frames.closure .S5 [0, 1, 2] [(0, 1), (1, 2)]).all (Acc.enforce .S5 ⟨[0, 1, 2], [(0, 1), (1, 2)]⟩).1.pairs.contains = true := by
  decide +kernel

/-- serial: every world of the finished relation has a successor; the only additions are arrows
    into ONE new world `max + 1` from the dead ends and from that world to itself -/
theorem C08_access_serial (R : Acc) :
    (∀ w ∈ (Acc.enforce .D R).1.keys, (Acc.enforce .D R).1.succ w ≠ []) ∧
    (∀ p ∈ (Acc.enforce .D R).1.pairs, p ∈ R.pairs ∨
        (p.2 = R.keys.foldl max 0 + 1 ∧ (p.1 = R.keys.foldl max 0 + 1 ∨ (p.1 ∈ R.keys ∧ R.succ p.1 = [])))) :=
  ⟨(Acc.enforceSerial_spec R).1, (Acc.enforceSerial_spec R).2.2.1⟩

example : (Acc.enforce .D ⟨[0, 1], [(0, 1)]⟩).1 = ⟨[0, 1, 2], [(0, 1), (1, 2), (2, 2)]⟩ := by decide +kernel

/-! ## identity and existence in the classical family -/

/- Full statement (DESIGN `C08_identity_completion`): in `finish m` of a classical model, at every
   world, Identity is an equivalence on the model's constants, every predicate's extension is closed
   under it, and Existence holds of every constant.

   FALSE of the mirrored code (one pass of `_agument_extension_with_identicals`, before the
   self-identity step): see the three witnesses below, and `C08_serial_world_not_completed` for the
   world the serial Access class adds after the pass.  Proved: reflexivity and universal existence
   at every world that has a frame. -/
theorem C08_identity_completion_partial (L : LogicData) (hcl : isClassical L = true) (h : Hints) (m m' : Model)
    (hfin : finish L h m = (m', none)) (hnf : m.finished = false) :
    ∀ (w : Nat) (f : Frame), m'.frames.lookup w = some f → ∀ c ∈ m'.consts,
      valueOf L m' (.pred Pred.identity [.const c.1 c.2, .const c.1 c.2]) w = .ok .T ∧
      valueOf L m' (.pred Pred.existence [.const c.1 c.2]) w = .ok .T := by
  intro w f hw c hc
  obtain ⟨h1, _, h3⟩ := finish_self hcl h hfin hnf
  exact valueOf_self h1 hw hc (h3 (w, f) (lookup_mem hw) c hc)

example :
    let m := (run Test.tCFOL {} Model.init [.setPred Test.F [Test.a] .T 0, .finish]).1
    valueOf Test.tCFOL m (.pred Pred.identity [Test.a, Test.a]) 0 = .ok .T ∧
    valueOf Test.tCFOL m (.pred Pred.existence [Test.a]) 0 = .ok .T := by decide +kernel

/-- witness (i): `a = b` set true, finish: `b = a` evaluates to F — identity is not symmetric -/
theorem C08_identity_not_symmetric :
    let m := (run Test.tCFOL {} Model.init [.setPred Pred.identity [Test.a, Test.b] .T 0, .finish]).1
    m.finished = true ∧ valueOf Test.tCFOL m (.pred Pred.identity [Test.a, Test.b]) 0 = .ok .T ∧
      valueOf Test.tCFOL m (.pred Pred.identity [Test.b, Test.a]) 0 = .ok .F := by decide +kernel

example : ¬ ∀ (m : Model) (a b : Param), m.finished = true →
    valueOf Test.tCFOL m (.pred Pred.identity [a, b]) 0 = .ok .T → valueOf Test.tCFOL m (.pred Pred.identity [b, a]) 0 = .ok .T := by
  intro h
  have w := C08_identity_not_symmetric
  have := h _ Test.a Test.b w.1 w.2.1
  rw [w.2.2] at this
  cases this

/-- witness: `a = b`, `c = b` true, finish (constants visited in the order a, b, c): `b = a` and
    `a = c` are true, `b = c` is false — not transitive -/
theorem C08_identity_not_transitive :
    let m := (run Test.tCFOL {} Model.init
      [.setPred Pred.identity [Test.a, Test.b] .T 0, .setPred Pred.identity [Test.c, Test.b] .T 0, .finish]).1
    valueOf Test.tCFOL m (.pred Pred.identity [Test.b, Test.a]) 0 = .ok .T ∧
      valueOf Test.tCFOL m (.pred Pred.identity [Test.a, Test.c]) 0 = .ok .T ∧
      valueOf Test.tCFOL m (.pred Pred.identity [Test.b, Test.c]) 0 = .ok .F := by decide +kernel

example : (run Test.tCFOL {} Model.init
    [.setPred Pred.identity [Test.a, Test.b] .T 0, .setPred Pred.identity [Test.c, Test.b] .T 0, .finish]).2 = [none, none, none] := by
  decide +kernel

/-- witness: `a = b`, `Haa` true, finish: `Hba` is false — the extension of H is not closed under identity
    (`substitute` replaces ALL occurrences of a constant at once) -/
theorem C08_extension_not_closed :
    let m := (run Test.tCFOL {} Model.init
      [.setPred Pred.identity [Test.a, Test.b] .T 0, .setPred Test.H [Test.a, Test.a] .T 0, .finish]).1
    valueOf Test.tCFOL m (.pred Test.H [Test.a, Test.a]) 0 = .ok .T ∧
      valueOf Test.tCFOL m (.pred Pred.identity [Test.a, Test.b]) 0 = .ok .T ∧
      valueOf Test.tCFOL m (.pred Test.H [Test.b, Test.a]) 0 = .ok .F := by decide +kernel

example : (run Test.tCFOL {} Model.init
    [.setPred Pred.identity [Test.a, Test.b] .T 0, .setPred Test.H [Test.a, Test.a] .T 0, .finish]).2 = [none, none, none] := by
  decide +kernel

/-- witness (ii): serial frames.  `Fa` set true at world 0, finish: the Access class adds world 1
    AFTER the identity / existence pass and after `_complete_frames`; world 1 is accessible from 0 but
    `a = a` and `E!a` are false there (and it has no frame) -/
theorem C08_serial_world_not_completed :
    let m := (run Test.tD {} Model.init [.setPred Test.F [Test.a] .T 0, .finish]).1
    m.R = ⟨[0, 1], [(0, 1), (1, 1)]⟩ ∧ m.frames.lookup 1 = none ∧
      valueOf Test.tD m (.pred Pred.identity [Test.a, Test.a]) 0 = .ok .T ∧
      valueOf Test.tD m (.pred Pred.identity [Test.a, Test.a]) 1 = .ok .F ∧
      valueOf Test.tD m (.pred Pred.existence [Test.a]) 1 = .ok .F ∧
      valueOf Test.tD m (.op1 .nec (.pred Pred.existence [Test.a])) 0 = .ok .F := by decide +kernel

example : (finishX Test.tD {} (run Test.tD {} Model.init [.setPred Test.F [Test.a] .T 0]).1).2 = true := by decide +kernel

/-! ## order independence -/

/- Full statement (DESIGN `C08_order_independent`): for programs `ops₁ ~ ops₂` (permutations of one
   another) whose calls all succeed, `finish (run ops₁) ≈ finish (run ops₂)` (equal as sets).

   In the classical family this is FALSE of the real code through the hash order of
   `self.constants` (an input, `Hints`, of the mirror): harness finding
   `C08:identity-completion:order-dependent`.  Proved here: the access part — the finished
   relation is a function of the SET of worlds and pairs, whatever the order of the `R.add` calls.
   The value-setting part is checked on the implementation by the permutation stream of the harness
   (snapshot equality of finished models), not proved. -/
theorem C08_order_independent_partial (k : FrameKind) (hk : Frames.isRefl k = true) (R₁ R₂ : Acc)
    (h₁ : R₁.WF) (h₂ : R₂.WF) (hkeys : ∀ w, w ∈ R₁.keys ↔ w ∈ R₂.keys) (hpairs : ∀ p, p ∈ R₁.pairs ↔ p ∈ R₂.pairs)
    (f₁ : (Acc.enforce k R₁).2 = true) (f₂ : (Acc.enforce k R₂).2 = true) (p : Nat × Nat) :
    p ∈ (Acc.enforce k R₁).1.pairs ↔ p ∈ (Acc.enforce k R₂).1.pairs :=
  Acc.enforce_congr hk h₁ h₂ hkeys hpairs f₁ f₂ p

example :
    let R₁ := ((Model.init.R.add 0 1).add 1 2)
    let R₂ := ((Model.init.R.add 1 2).add 0 1)
    R₁ ≠ R₂ ∧ (∀ p ∈ (Acc.enforce .S4 R₁).1.pairs, p ∈ (Acc.enforce .S4 R₂).1.pairs) ∧
      (Acc.enforce .S4 R₁).2 = true ∧ (Acc.enforce .S4 R₂).2 = true := by decide +kernel

end Ptx.Props.C08
