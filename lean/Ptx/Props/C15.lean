/-
  C15 — Substitution and the derived attributes of sentences are exact.

  Model: Ptx/Lang/Derived.lean (`Sent.subst`, `unquantify`, `negative`, `constants`, … written as
  the Python recursion).  The right-hand sides are INDEPENDENT: they are read off one flat
  prefix-order token walk `Sent.walk` (`paramOccs`, `skeleton`, `preorderOps`, …).  `walk` is a
  prefix code (`walk_determines`), so "same skeleton + these parameter occurrences" pins the
  sentence down completely.
-/
import Ptx.Proofs.LangDerived
namespace Ptx.Props.C15
open Ptx

/-- the walk determines the sentence: the specifications below lose nothing -/
theorem walk_determines (s t : Sent) : s.walk = t.walk ↔ s = t :=
  ⟨walk_injective, fun h => h ▸ rfl⟩

example : (Sent.op2 .conj (.atom 0 0) (.atom 1 0)).walk ≠ (Sent.op2 .conj (.atom 1 0) (.atom 0 0)).walk := by decide

/-- token by token: substitution changes exactly the parameter occurrences equal to `old` -/
theorem subst_walk (new old : Param) (s : Sent) :
    (s.subst new old).walk = s.walk.map (Tok.subst new old) := walk_subst new old s

example : ((Sent.quant .univ 0 0 (.pred ⟨0, 0, 2⟩ [.var 0 0, .const 1 0])).subst (.const 2 0) (.var 0 0)).walk
    = [.quant .univ 0 0, .pred ⟨0, 0, 2⟩ 2, .param (.const 2 0), .param (.const 1 0)] := by decide

/-- parameter occurrences are mapped exactly: `old ↦ new`, everything else unchanged,
    in place (same positions, same number) -/
theorem subst_params (s : Sent) (new old : Param) :
    paramOccs (s.subst new old) = (paramOccs s).map (fun p => if p = old then new else p) := by
  simp only [paramOccs, walk_subst, List.filterMap_map, List.map_filterMap]
  congr 1
  funext t
  cases t <;> simp [Tok.subst]

example : paramOccs ((Sent.pred ⟨0, 0, 3⟩ [.const 0 0, .var 0 0, .const 0 0]).subst (.var 1 1) (.const 0 0))
    = [.var 1 1, .var 0 0, .var 1 1] := by decide

/-- nothing else changes: operators, quantifiers WITH their bound variables, predicates
    (with parameter counts), sentence letters, and their order -/
theorem subst_skeleton (s : Sent) (new old : Param) :
    skeleton (s.subst new old) = skeleton s := by
  simp only [skeleton, walk_subst, List.filter_map]
  induction s.walk with
  | nil => rfl
  | cons t l ih =>
    cases t <;> simp_all [Tok.subst, Function.comp_def]

/-- the binder is not an occurrence: `(∀x Fx).substitute(a, x) = ∀x Fa` -/
example : (Sent.quant .univ 0 0 (.pred ⟨0, 0, 1⟩ [.var 0 0])).subst (.const 0 0) (.var 0 0)
    = .quant .univ 0 0 (.pred ⟨0, 0, 1⟩ [.const 0 0]) := by decide

theorem subst_self (s : Sent) (p : Param) : s.subst p p = s := by
  apply walk_injective
  rw [walk_subst, map_tok_subst_self]

example : (Sent.pred ⟨0, 0, 1⟩ [.const 0 0]).subst (.const 0 0) (.const 0 0) = .pred ⟨0, 0, 1⟩ [.const 0 0] := by decide

theorem subst_absent (s : Sent) (new old : Param) (h : old ∉ paramOccs s) :
    s.subst new old = s := by
  apply walk_injective
  rw [walk_subst]
  simp only [paramOccs, List.mem_filterMap, not_exists, not_and] at h
  have : ∀ t ∈ s.walk, Tok.subst new old t = t := by
    intro t ht
    cases t with
    | param p =>
      have := h (.param p) ht
      simp only [Option.some.injEq] at this
      simp [Tok.subst]
      intro hp; exact absurd hp this
    | _ => rfl
  calc s.walk.map (Tok.subst new old) = s.walk.map id := List.map_congr_left this
    _ = s.walk := by simp

example : (Sent.pred ⟨0, 0, 1⟩ [.const 0 0]).subst (.const 1 0) (.const 2 0) = .pred ⟨0, 0, 1⟩ [.const 0 0] := by decide

/-- substitution keeps arities matched: the rebuilt `Predicated` never raises -/
theorem subst_arityOK (s : Sent) (new old : Param) (h : s.ArityOK) : (s.subst new old).ArityOK := by
  induction s with
  | atom => simpa [Sent.subst] using h
  | pred p ps => by_cases e : new = old <;> simpa [Sent.subst, e, Sent.ArityOK] using h
  | quant q vi vs b ih => by_cases e : new = old <;> simp_all [Sent.subst, Sent.ArityOK]
  | op1 o a ih => by_cases e : new = old <;> simp_all [Sent.subst, Sent.ArityOK]
  | op2 o a b iha ihb => by_cases e : new = old <;> simp_all [Sent.subst, Sent.ArityOK]

example : ((Sent.pred ⟨0, 0, 1⟩ [.const 0 0]).subst (.const 1 0) (.const 0 0)).ArityOK = true := by decide

/-- instantiating `Qv.b` with constant `c` is substituting `c` for `v` in the body `b` -/
theorem unquantify_def (q : Quant) (vi vs : Nat) (b : Sent) (ci cs : Nat) :
    (Sent.quant q vi vs b).unquantify ci cs = some (b.subst (.const ci cs) (.var vi vs)) := rfl

/-- … and its parameter occurrences are those of the body with `v ↦ c` -/
theorem unquantify_params (q : Quant) (vi vs : Nat) (b : Sent) (ci cs : Nat) :
    ∃ r, (Sent.quant q vi vs b).unquantify ci cs = some r ∧
      paramOccs r = (paramOccs b).map (fun p => if p = .var vi vs then .const ci cs else p) ∧
      skeleton r = skeleton b :=
  ⟨_, rfl, subst_params _ _ _, subst_skeleton _ _ _⟩

example : (Sent.quant .ex 0 0 (.pred ⟨0, 0, 2⟩ [.var 0 0, .var 1 0])).unquantify 3 1
    = some (.pred ⟨0, 0, 2⟩ [.const 3 1, .var 1 0]) := by decide

/-- only `Quantified` has `unquantify` -/
theorem unquantify_none (s : Sent) (ci cs : Nat) :
    s.unquantify ci cs = none ↔ s.type ≠ .tQuantified := by
  cases s <;> simp [Sent.unquantify, Sent.type]

example : (Sent.atom 0 0).unquantify 0 0 = none := rfl

theorem negative_negate (s : Sent) :
    (Sent.op1 .neg s).negative = s ∧ (s.isNeg = false → s.negative = .op1 .neg s) := by
  refine ⟨rfl, ?_⟩
  intro h
  cases s with
  | op1 o a => cases o <;> simp_all [Sent.negative, Sent.isNeg]
  | _ => rfl

example : (Sent.op1 .neg (.op1 .neg (.atom 0 0))).negative = .op1 .neg (.atom 0 0) := by decide
example : (Sent.op1 .poss (.atom 0 0)).negative = .op1 .neg (.op1 .poss (.atom 0 0)) := by decide

/-- the published sets and sequences equal those obtained by walking the structure -/
theorem derived_eq_walk (s : Sent) :
    (∀ p, p ∈ s.constants ↔ (p ∈ paramOccs s ∧ p.isConst)) ∧ s.constants.Nodup ∧
    (∀ p, p ∈ s.variables ↔ (p ∈ paramOccs s ∧ p.isVar)) ∧ s.variables.Nodup ∧
    (∀ p, p ∈ s.predicates ↔ p ∈ predOccs s) ∧ s.predicates.Nodup ∧
    (∀ a, a ∈ s.atomics ↔ a ∈ atomOccs s) ∧ s.atomics.Nodup ∧
    s.operators = preorderOps s ∧
    s.quantifiers = preorderQuants s := by
  induction s with
  | atom i j =>
    simp [Sent.constants, Sent.variables, Sent.predicates, Sent.atomics, Sent.operators,
      Sent.quantifiers, paramOccs_atom, predOccs_atom, atomOccs_atom, preorderOps_atom,
      preorderQuants_atom]
  | pred p ps =>
    simp [Sent.constants, Sent.variables, Sent.predicates, Sent.atomics, Sent.operators,
      Sent.quantifiers, paramOccs_pred, predOccs_pred, atomOccs_pred, preorderOps_pred,
      preorderQuants_pred, mem_toSet, nodup_toSet, List.mem_filter]
  | quant q vi vs b ih =>
    simpa [Sent.constants, Sent.variables, Sent.predicates, Sent.atomics, Sent.operators,
      Sent.quantifiers, paramOccs_quant, predOccs_quant, atomOccs_quant, preorderOps_quant,
      preorderQuants_quant] using ih
  | op1 o a ih =>
    simpa [Sent.constants, Sent.variables, Sent.predicates, Sent.atomics, Sent.operators,
      Sent.quantifiers, paramOccs_op1, predOccs_op1, atomOccs_op1, preorderOps_op1,
      preorderQuants_op1] using ih
  | op2 o a b iha ihb =>
    obtain ⟨c1, c2, v1, v2, p1, p2, a1, a2, os, qs⟩ := iha
    obtain ⟨c1', c2', v1', v2', p1', p2', a1', a2', os', qs'⟩ := ihb
    simp only [Sent.constants, Sent.variables, Sent.predicates, Sent.atomics, Sent.operators,
      Sent.quantifiers, paramOccs_op2, predOccs_op2, atomOccs_op2, preorderOps_op2,
      preorderQuants_op2, mem_uni, List.mem_append]
    refine ⟨?_, nodup_uni c2 c2', ?_, nodup_uni v2 v2', ?_, nodup_uni p2 p2', ?_,
      nodup_uni a2 a2', by rw [os, os'], by rw [qs, qs']⟩
    · intro p; rw [c1, c1']
      constructor
      · rintro (⟨h, k⟩ | ⟨h, k⟩)
        · exact ⟨Or.inl h, k⟩
        · exact ⟨Or.inr h, k⟩
      · rintro ⟨h | h, k⟩
        · exact Or.inl ⟨h, k⟩
        · exact Or.inr ⟨h, k⟩
    · intro p; rw [v1, v1']
      constructor
      · rintro (⟨h, k⟩ | ⟨h, k⟩)
        · exact ⟨Or.inl h, k⟩
        · exact ⟨Or.inr h, k⟩
      · rintro ⟨h | h, k⟩
        · exact Or.inl ⟨h, k⟩
        · exact Or.inr ⟨h, k⟩
    · intro p; rw [p1, p1']
    · intro x; rw [a1, a1']

example :
    let s : Sent := .op2 .cond (.quant .univ 0 0 (.pred ⟨-1, 0, 2⟩ [.var 0 0, .const 1 0]))
                               (.op1 .neg (.op2 .disj (.atom 2 1) (.pred ⟨-1, 0, 2⟩ [.const 1 0, .const 1 0])))
    s.constants = [.const 1 0] ∧ s.variables = [.var 0 0] ∧ s.predicates = [⟨-1, 0, 2⟩] ∧
    s.atomics = [(2, 1)] ∧ s.operators = [.b .cond, .u .neg, .b .disj] ∧ s.quantifiers = [.univ] := by
  decide

end Ptx.Props.C15
