/-
  C10 — provability obeys the structural laws of a consequence relation.

  FULL STATEMENT: in every logic (1) an argument whose conclusion is one of its premises is valid;
  (2) adding a premise never turns a valid argument into one refuted by a limit-free open branch;
  (3) uniformly and injectively renaming sentence letters, constants, predicates or bound variables
  never changes the verdict.

  PROVED HERE for every legal derivation (any options / tie-break order / build or step):
    * `C10_reflexive` — if the conclusion is among the premises then on EVERY open branch of EVERY
      tableau reachable from the trunk the closure rule is applicable (the step is accepted by
      `applyStep`), so no tableau with an open branch is finished: the only finished tableaux are
      closed ones.  Uses the invariant "branches only grow" (`deriv_trunk_nodes`) and the decidable
      side condition `closesTrunkPairB` on the regenerated closure table (kernel-evaluated per logic).
    * `C10_monotone_partial` — a closed tableau for Γ ⊢ A excludes every countermodel of Γ,B ⊢ A.
    * `C10_renaming_countermodels` — an argument has a countermodel iff its renaming has one
      (letters, constants, predicates other than Identity/Existence, and variables — binders and
      occurrences together; the renaming has a left inverse, as every injective one does);
      `C10_renaming_valid_partial` — a closed tableau for the argument excludes every countermodel
      of the renamed argument, and conversely.
    * with the Hintikka lemma (C02): `C10_monotone_no_refutation(_fo)_partial`,
      `C10_renaming_no_refutation(_fo)_partial` — a closed tableau for Γ ⊢ A (resp. for the argument)
      and a SATURATED open branch, in any derivation, for Γ,B ⊢ A (resp. for the renamed argument)
      exclude each other; propositional + modal branches for the logics with weights, first-order
      branches (quantifier rules) for those with weights for every row.
  `_partial`: branches with Identity / Existence are outside the Hintikka lemma (the calculus is
  incomplete for identity), and "a completed tableau's open branches are saturated" is a property
  of the search (Ptx/Props/Search.lean; checked on every real run by the driver); both are covered
  by metamorphic runs of the real prover (same argument renamed / with an added premise / with
  the conclusion repeated as a premise), including first-order modal arguments.
-/
import Ptx.Proofs.Grow
import Ptx.Proofs.Rename
import Ptx.Tab.Structural
import Ptx.Props.C01
import Ptx.Props.C02
namespace Ptx.Props.C10
open Ptx

/-- Reflexivity: with the conclusion among the premises, the closure step is legal on every open
    branch of every reachable tableau. -/
theorem C10_reflexive (L : LogicData) (hcl : L.closesTrunkPairB = true)
    (arg : Argument) (hm : arg.conclusion ∈ arg.premises) (t : Tableau)
    (hd : Deriv L (trunk L arg) t) (bi : Nat) (b : Branch) (hb : t[bi]? = some b) (ho : b.closed = false) :
    ∃ t', applyStep L t (.close bi arg.conclusion (if L.modal then some 0 else none)) = some t' := by
  have hmem := List.mem_of_getElem? hb
  have hn := deriv_trunk_nodes (L := L) (L' := L) hd b hmem
  simp only [LogicData.closesTrunkPairB, Bool.and_eq_true, List.all_eq_true, Bool.or_eq_true,
    Bool.not_eq_true', beq_iff_eq] at hcl
  obtain ⟨⟨hl1, hl2⟩, hall⟩ := hcl
  obtain ⟨w, hw⟩ : ∃ w : Option Nat, w = if L.modal then some 0 else none := ⟨_, rfl⟩
  rw [← hw]
  -- both trunk nodes are on the branch
  have h1 : b.hasNode (.sent arg.conclusion L.trunkPrem w) = true := by
    simp only [Branch.hasNode, List.contains_eq_mem, decide_eq_true_eq]
    apply hn
    simp only [trunkNodes, ← hw, List.mem_append, List.mem_map, List.mem_singleton]
    exact Or.inl ⟨arg.conclusion, hm, rfl⟩
  have h2 : b.hasNode (.sent (if L.trunkConcNeg then arg.conclusion.neg else arg.conclusion) L.trunkConc w) = true := by
    simp only [Branch.hasNode, List.contains_eq_mem, decide_eq_true_eq]
    apply hn
    simp [trunkNodes, ← hw]
  have hS : b.litSet L arg.conclusion w ∈ sublists L.allLits :=
    mem_sublists _ _ List.filter_sublist
  have hc1 : (b.litSet L arg.conclusion w).contains L.trunkPremLit = true := by
    simp only [List.contains_eq_mem, decide_eq_true_eq, Branch.litSet, List.mem_filter]
    exact ⟨by simpa using hl1, h1⟩
  have hc2 : (b.litSet L arg.conclusion w).contains L.trunkConcLit = true := by
    simp only [List.contains_eq_mem, decide_eq_true_eq, Branch.litSet, List.mem_filter]
    exact ⟨by simpa using hl2, h2⟩
  have hclose : L.closure.lookup (b.litSet L arg.conclusion w) = some true := by
    rcases hall _ hS with h | h
    · rw [hc1, hc2] at h; exact absurd h (by decide)
    · exact h
  refine ⟨t.set bi (closeB b), ?_⟩
  simp [applyStep, hb, ho, applyAt, hclose, Step.branch]

/-- Monotonicity (semantic half): a closed tableau for `Γ ⊢ A` excludes every countermodel of any
    argument with more premises and the same conclusion. -/
theorem C10_monotone_partial (L : LogicData) (hcore : L.soundCoreB = true)
    (arg arg' : Argument) (hsub : ∀ p ∈ arg.premises, p ∈ arg'.premises)
    (hconc : arg'.conclusion = arg.conclusion) (t : Tableau)
    (hd : Deriv L.soundPart (trunk L arg) t) (hclosed : t.allClosed = true)
    (M : Struct) (hM : M.Interp L) (e : Env M.D) (w0 : M.W) : ¬ Countermodel L M e w0 arg' := by
  intro hc
  refine Ptx.Props.C01.C01_valid_sound L hcore arg t hd hclosed M hM e w0 ⟨fun p hp => hc.1 p (hsub p hp), ?_⟩
  rw [← hconc]; exact hc.2

/-- Renaming: an argument has a countermodel iff its renaming has one. -/
theorem C10_renaming_countermodels (L : LogicData) (ρ σ : Ren) (hρ : ρ.OK) (hσ : σ.OK) (hinv : σ.LeftInv ρ)
    (arg : Argument) :
    (∃ (M : Struct) (_ : M.Interp L) (e : Env M.D) (w0 : M.W), Countermodel L M e w0 arg) ↔
    (∃ (M : Struct) (_ : M.Interp L) (e : Env M.D) (w0 : M.W), Countermodel L M e w0 (ρ.arg arg)) := by
  constructor
  · rintro ⟨M, hM, e, w0, hc⟩
    -- `arg = σ (ρ arg)`: pull the countermodel back along σ
    refine ⟨σ.pullStruct M, Ren.pull_interp L σ hσ hM, σ.pullEnv e, w0, ?_⟩
    apply Ren.countermodel_pull L σ hσ M e w0 (ρ.arg arg)
    rw [Ren.arg_leftInv hinv]
    exact hc
  · rintro ⟨M, hM, e, w0, hc⟩
    exact ⟨ρ.pullStruct M, Ren.pull_interp L ρ hρ hM, ρ.pullEnv e, w0, Ren.countermodel_pull L ρ hρ M e w0 arg hc⟩

/-- Renaming and verdicts: a closed tableau for the argument excludes every countermodel of the
    renamed argument, and a closed tableau for the renamed argument excludes every countermodel
    of the original. -/
theorem C10_renaming_valid_partial (L : LogicData) (hcore : L.soundCoreB = true)
    (ρ σ : Ren) (hρ : ρ.OK) (hσ : σ.OK) (hinv : σ.LeftInv ρ) (arg : Argument) :
    (∀ t, Deriv L.soundPart (trunk L arg) t → t.allClosed = true →
        ∀ (M : Struct) (_ : M.Interp L) (e : Env M.D) (w0 : M.W), ¬ Countermodel L M e w0 (ρ.arg arg)) ∧
    (∀ t, Deriv L.soundPart (trunk L (ρ.arg arg)) t → t.allClosed = true →
        ∀ (M : Struct) (_ : M.Interp L) (e : Env M.D) (w0 : M.W), ¬ Countermodel L M e w0 arg) := by
  constructor
  · intro t hd hc M hM e w0 hcm
    obtain ⟨M', hM', e', w0', hc'⟩ := (C10_renaming_countermodels L ρ σ hρ hσ hinv arg).2 ⟨M, hM, e, w0, hcm⟩
    exact Ptx.Props.C01.C01_valid_sound L hcore arg t hd hc M' hM' e' w0' hc'
  · intro t hd hc M hM e w0 hcm
    obtain ⟨M', hM', e', w0', hc'⟩ := (C10_renaming_countermodels L ρ σ hρ hσ hinv arg).1 ⟨M, hM, e, w0, hcm⟩
    exact Ptx.Props.C01.C01_valid_sound L hcore (ρ.arg arg) t hd hc M' hM' e' w0' hc'


/-- Monotonicity, both halves: if some legal derivation for `Γ ⊢ A` closes, no legal derivation for
    an argument with more premises and the same conclusion reaches a tableau with a saturated
    (ground) open branch. -/
theorem C10_monotone_no_refutation_partial (L : LogicData) (W : Weights)
    (hsound : L.soundCoreB = true) (hcore : L.hintikkaCoreB = true)
    (hW : L.measureOKOnB RuleKey.notQuant W = true)
    (hT : L.T.vals.contains .T = true) (hF : L.T.vals.contains .F = true) (htb : L.trunkBackB = true)
    (arg arg' : Argument) (hsub : ∀ p ∈ arg.premises, p ∈ arg'.premises)
    (hconc : arg'.conclusion = arg.conclusion)
    (t : Tableau) (hd : Deriv L.soundPart (trunk L arg) t) (hclosed : t.allClosed = true)
    (t' : Tableau) (hd' : Deriv L (trunk L arg') t')
    (b : Branch) (hb : b ∈ t') (hsat : L.saturatedB b = true) (hg : b.groundB L = true) : False := by
  obtain ⟨hM, hc⟩ := Ptx.Props.C02.C02_countermodel_partial L W hcore hW hT hF htb arg' t' hd' b hb hsat hg
  exact C10_monotone_partial L hsound arg arg' hsub hconc t hd hclosed _ hM _ _ hc

/-- (first-order branches: quantifier rules included, weights for every row)
    Monotonicity, both halves: if some legal derivation for `Γ ⊢ A` closes, no legal derivation for
    an argument with more premises and the same conclusion reaches a tableau with a saturated
    (ground) open branch. -/
theorem C10_monotone_no_refutation_fo_partial (L : LogicData) (W : Weights)
    (hsound : L.soundCoreB = true) (hcore : L.hintikkaCoreB = true)
    (hW : L.measureOKB W = true)
    (hT : L.T.vals.contains .T = true) (hF : L.T.vals.contains .F = true) (htb : L.trunkBackB = true)
    (arg arg' : Argument) (hsub : ∀ p ∈ arg.premises, p ∈ arg'.premises)
    (hconc : arg'.conclusion = arg.conclusion)
    (t : Tableau) (hd : Deriv L.soundPart (trunk L arg) t) (hclosed : t.allClosed = true)
    (t' : Tableau) (hd' : Deriv L (trunk L arg') t')
    (b : Branch) (hb : b ∈ t') (hsat : L.saturatedB b = true) (hg : b.foB L = true) : False := by
  obtain ⟨hM, hc⟩ := Ptx.Props.C02.C02_countermodel_fo_partial L W hcore hW hT hF htb arg' t' hd' b hb hsat hg
  exact C10_monotone_partial L hsound arg arg' hsub hconc t hd hclosed _ hM _ _ hc

/-- Renaming, both halves: if some legal derivation for the argument closes, no legal derivation
    for its renaming reaches a tableau with a saturated (ground) open branch. -/
theorem C10_renaming_no_refutation_partial (L : LogicData) (W : Weights)
    (hsound : L.soundCoreB = true) (hcore : L.hintikkaCoreB = true)
    (hW : L.measureOKOnB RuleKey.notQuant W = true)
    (hT : L.T.vals.contains .T = true) (hF : L.T.vals.contains .F = true) (htb : L.trunkBackB = true)
    (ρ σ : Ren) (hρ : ρ.OK) (hσ : σ.OK) (hinv : σ.LeftInv ρ) (arg : Argument)
    (t : Tableau) (hd : Deriv L.soundPart (trunk L arg) t) (hclosed : t.allClosed = true)
    (t' : Tableau) (hd' : Deriv L (trunk L (ρ.arg arg)) t')
    (b : Branch) (hb : b ∈ t') (hsat : L.saturatedB b = true) (hg : b.groundB L = true) : False := by
  obtain ⟨hM, hc⟩ := Ptx.Props.C02.C02_countermodel_partial L W hcore hW hT hF htb (ρ.arg arg) t' hd' b hb hsat hg
  exact (C10_renaming_valid_partial L hsound ρ σ hρ hσ hinv arg).1 t hd hclosed _ hM _ _ hc

/-- (first-order branches: quantifier rules included, weights for every row)
    Renaming, both halves: if some legal derivation for the argument closes, no legal derivation
    for its renaming reaches a tableau with a saturated (ground) open branch. -/
theorem C10_renaming_no_refutation_fo_partial (L : LogicData) (W : Weights)
    (hsound : L.soundCoreB = true) (hcore : L.hintikkaCoreB = true)
    (hW : L.measureOKB W = true)
    (hT : L.T.vals.contains .T = true) (hF : L.T.vals.contains .F = true) (htb : L.trunkBackB = true)
    (ρ σ : Ren) (hρ : ρ.OK) (hσ : σ.OK) (hinv : σ.LeftInv ρ) (arg : Argument)
    (t : Tableau) (hd : Deriv L.soundPart (trunk L arg) t) (hclosed : t.allClosed = true)
    (t' : Tableau) (hd' : Deriv L (trunk L (ρ.arg arg)) t')
    (b : Branch) (hb : b ∈ t') (hsat : L.saturatedB b = true) (hg : b.foB L = true) : False := by
  obtain ⟨hM, hc⟩ := Ptx.Props.C02.C02_countermodel_fo_partial L W hcore hW hT hF htb (ρ.arg arg) t' hd' b hb hsat hg
  exact (C10_renaming_valid_partial L hsound ρ σ hρ hσ hinv arg).1 t hd hclosed _ hM _ _ hc

/-- non-vacuity: swapping the sentence letters 0 and 1 is a renaming with itself as inverse -/
def swap01 : Ren where
  atom := fun a => if a = (0, 0) then (1, 0) else if a = (1, 0) then (0, 0) else a
  const := id
  var := id
  pred := id

example : swap01.OK ∧ swap01.LeftInv swap01 ∧
    swap01.sent (.op2 .conj (.atom 0 0) (.atom 1 0)) = .op2 .conj (.atom 1 0) (.atom 0 0) := by
  refine ⟨⟨fun a b h => h, rfl, rfl⟩, ⟨?_, fun _ => rfl, fun _ => rfl, fun _ => rfl⟩, by decide⟩
  intro a
  simp only [swap01]
  by_cases h0 : a = (0, 0)
  · simp [h0]
  · by_cases h1 : a = (1, 0)
    · simp [h1]
    · simp [h0, h1]

end Ptx.Props.C10
