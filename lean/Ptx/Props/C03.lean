/-
  C03 — propositional arguments are decided exactly, without limits.

  FULL STATEMENT: for every argument built only from sentence letters and truth-functional
  operators, in every logic, (1) every sequence of legal steps is finite and no limit flag
  appears; (2) a finished tableau is closed IF AND ONLY IF every assignment of the logic's truth
  values that designates all premises also designates the conclusion.

  PROVED HERE: the meaning of the oracle (`C03_ttValid_iff`: `ttValid` is true exactly when no
  assignment of the logic's values is a counterexample — the enumeration is complete), and the
  "only if" half of (2) for EVERY legal derivation (`C03_closed_implies_ttValid`, from C01).
  The "if" half is `C03_ttValid_implies_closed_partial` (from C02's Hintikka lemma: a truth-table-valid
  argument has no SATURATED ground open branch in any reachable tableau — `_partial`: saturation of the
  finished tableau is the search layer's theorem, Ptx/Props/Search.lean); (1) is
  `C03_terminates_partial` (per-logic weight measure; `_partial`: for derivations that never re-apply
  a rule to a ticked node, which every run of the search model is: `search_run_replayFresh`).
  Both are also covered by the correspondence (exhaustive small + random + shape-directed
  propositional arguments: verdict = `ttValid`, no quit flag, not premature, not over the world limit).
-/
import Ptx.Proofs.TruthTable
import Ptx.Proofs.Terminate
import Ptx.Props.C01
import Ptx.Props.C02
namespace Ptx.Props.C03
open Ptx

/-- `ttValid` means: no assignment of the logic's values to the sentence letters designates every
    premise and not the conclusion. -/
theorem C03_ttValid_iff (T : Tables) (hu : T.unassigned ∈ T.vals) (arg : Argument) :
    ttValid T arg = true ↔ ∀ f : Nat × Nat → V, (∀ a, f a ∈ T.vals) → isCounterTT T arg f = false :=
  ttValid_iff T hu arg

/-- Soundness half of the decision procedure, for every legal derivation (any options, any
    tie-break order, build or step): a closed tableau of a propositional argument means the
    argument is truth-table valid. -/
theorem C03_closed_implies_ttValid (L : LogicData) (hcore : L.soundCoreB = true)
    (hTin : L.T.vals.contains .T = true)
    (arg : Argument) (hp : arg.isProp = true) (t : Tableau)
    (hd : Deriv L.soundPart (trunk L arg) t) (hclosed : t.allClosed = true) :
    ttValid L.T arg = true := by
  have hcl := L.tables.closed_of_totalB _ _ _ (by
    have := hcore
    simp only [LogicData.soundCoreB, Bool.and_eq_true] at this
    exact this.1.1.1.1.1)
  have hu : L.T.unassigned ∈ L.T.vals := hcl.una
  rcases Bool.eq_false_or_eq_true (ttValid L.T arg) with h | h
  · exact h
  · exfalso
    unfold ttValid at h
    rw [List.all_eq_false] at h
    obtain ⟨v, hv, hcx⟩ := h
    simp only [Bool.not_eq_true, Bool.not_eq_false'] at hcx
    let f : Nat × Nat → V := v.get L.T.unassigned
    have hf : ∀ a, f a ∈ L.T.vals := get_mem_vals L.T.vals _ hu v (valuations_vals L.T.vals _ v hv)
    let cl : Bool := L.closesSelfIdNeg || L.closesNonExist
    have hM := valStruct_interp (L := L) f hf cl (by intro h; rcases h with h | h <;> simp [cl, h])
      (fun _ => by simpa using hTin) hu
    simp only [Argument.isProp, Bool.and_eq_true, List.all_eq_true] at hp
    let e0 : Env (valStruct f L.T.unassigned cl).D := ⟨fun _ _ => (), fun _ _ => ()⟩
    have hev : ∀ s, s.isProp = true →
        eval L (valStruct f L.T.unassigned cl) e0 () s = evalTT L.T f s := by
      intro s hs
      rw [eval_eq_evalTT e0 () s hs]
      rfl
    refine Ptx.Props.C01.C01_valid_sound L hcore arg t hd hclosed _ hM e0 () ?_
    simp only [isCounterTT, Bool.and_eq_true, List.all_eq_true, Bool.not_eq_true'] at hcx
    refine ⟨fun p hpp => ?_, ?_⟩
    · rw [hev p (hp.1 p hpp)]; exact hcx.1 p hpp
    · rw [hev _ hp.2]; exact hcx.2


/-- truth-table validity excludes every countermodel among the logic's structures -/
theorem ttValid_no_countermodel (L : LogicData) (hu : L.T.unassigned ∈ L.T.vals)
    (arg : Argument) (hp : arg.isProp = true) (hv : ttValid L.T arg = true)
    (M : Struct) (hM : M.Interp L) (e : Env M.D) (w0 : M.W) : ¬ Countermodel L M e w0 arg := by
  intro hc
  have h0 := (C03_ttValid_iff L.T hu arg).1 hv (fun a => M.atomV w0 a.1 a.2) (fun a => hM.vals.1 w0 a.1 a.2)
  simp only [Argument.isProp, Bool.and_eq_true, List.all_eq_true] at hp
  have : isCounterTT L.T arg (fun a => M.atomV w0 a.1 a.2) = true := by
    simp only [isCounterTT, Bool.and_eq_true, List.all_eq_true, Bool.not_eq_true']
    refine ⟨fun p hpp => ?_, ?_⟩
    · rw [← eval_eq_evalTT e w0 p (hp.1 p hpp)]; exact hc.1 p hpp
    · rw [← eval_eq_evalTT e w0 _ hp.2]; exact hc.2
  rw [this] at h0; cases h0

/-- Completeness half of the decision procedure, for every legal derivation: if the argument is
    truth-table valid, no tableau reachable from its trunk has a saturated (ground) open branch — a
    finished tableau of a truth-table-valid argument is closed.  (`_partial`: saturation of the
    branch is a hypothesis, evaluated by the driver on the real final branches.) -/
theorem C03_ttValid_implies_closed_partial (L : LogicData) (W : Weights)
    (hcore : L.hintikkaCoreB = true) (hW : L.measureOKOnB RuleKey.notQuant W = true)
    (hT : L.T.vals.contains .T = true) (hF : L.T.vals.contains .F = true) (htb : L.trunkBackB = true)
    (arg : Argument) (hp : arg.isProp = true) (hv : ttValid L.T arg = true)
    (t : Tableau) (hd : Deriv L (trunk L arg) t)
    (b : Branch) (hb : b ∈ t) (hsat : L.saturatedB b = true) (hg : b.groundB L = true) : False := by
  obtain ⟨hM, hc⟩ := Ptx.Props.C02.C02_countermodel_partial L W hcore hW hT hF htb arg t hd b hb hsat hg
  have hTot : L.tablesTotalB = true := by
    simp only [LogicData.hintikkaCoreB, Bool.and_eq_true] at hcore
    exact hcore.1.1.1.1.1.1.1.1.1
  exact ttValid_no_countermodel L (L.tables.closed_of_totalB _ _ _ hTot).una arg hp hv _ hM _ _ hc

/-- Termination on the propositional fragment (restated from Ptx/Proofs/Terminate.lean): every
    derivation that applies table rules to unticked nodes only (closure steps unrestricted) has
    length at most `termBound` and never carries a limit flag.  `_partial`: the calculus model also
    accepts re-applying a rule to a ticked node, which a scheduler never does. -/
theorem C03_terminates_partial (L : LogicData) (W : Weights)
    (hm : L.measureOKOnB RuleKey.isTF W = true) (hrows : L.tfRowsOKB = true)
    (arg : Argument) (hp : arg.isProp = true) :
    ∀ (t : Tableau) (steps : List Step), replayFresh L (trunk L arg) steps = some t →
      steps.length ≤ termBound L W arg ∧ t.noQuit :=
  Ptx.C03_terminates_partial L W hm hrows arg hp

/-- strong-Kleene negation and disjunction, written out, for the non-vacuity example -/
def T3 : Tables where
  vals := [.F, .N, .T]
  des := [.T]
  unassigned := .N
  t1 := [((Op1.neg, V.F), V.T), ((Op1.neg, V.N), V.N), ((Op1.neg, V.T), V.F)]
  t2 := [((Op2.disj, V.F, V.F), V.F), ((Op2.disj, V.F, V.N), V.N), ((Op2.disj, V.F, V.T), V.T),
         ((Op2.disj, V.N, V.F), V.N), ((Op2.disj, V.N, V.N), V.N), ((Op2.disj, V.N, V.T), V.T),
         ((Op2.disj, V.T, V.F), V.T), ((Op2.disj, V.T, V.N), V.T), ((Op2.disj, V.T, V.T), V.T)]
  qf := []
  mf := []

/-- non-vacuity: excluded middle is not truth-table valid in these tables while `A ⊢ A` is -/
example :
    ttValid T3 ⟨[], .op2 .disj (.atom 0 0) (.op1 .neg (.atom 0 0))⟩ = false ∧
    ttValid T3 ⟨[.atom 0 0], .atom 0 0⟩ = true := by decide

end Ptx.Props.C03
