/-
  Ptx.Wire — the token encoding in which sentences, nodes etc. travel between the Python
  harness and the Lean driver.  The Python side (harness/wire.py) produces the same tokens
  by walking the Python objects; neither parser nor writer of pytableaux is involved.

  Sentence (prefix, self-delimiting, tokens separated by single blanks):
    a <i> <s>
    p <idx> <sub> <arity> <n> <param>*n      param = c <i> <s> | v <i> <s>
    q E|U <vi> <vs> <sent>
    u A|N|M|L <sent>
    b K|D|C|E|I|B <sent> <sent>
-/
import Ptx.Lang.Syntax
namespace Ptx.Wire

abbrev Toks := List String

def natTok (s : String) : Option Nat := s.toNat?
def intTok (s : String) : Option Int := s.toInt?

def op1Tok : String → Option Op1
  | "A" => some .asrt | "N" => some .neg | "M" => some .poss | "L" => some .nec | _ => none
def op2Tok : String → Option Op2
  | "K" => some .conj | "D" => some .disj | "C" => some .mcond | "E" => some .mbicond
  | "I" => some .cond | "B" => some .bicond | _ => none
def quantTok : String → Option Quant
  | "E" => some .ex | "U" => some .univ | _ => none

def Op1.tok : Op1 → String
  | .asrt => "A" | .neg => "N" | .poss => "M" | .nec => "L"
def Op2.tok : Op2 → String
  | .conj => "K" | .disj => "D" | .mcond => "C" | .mbicond => "E" | .cond => "I" | .bicond => "B"
def Quant.tok : Quant → String
  | .ex => "E" | .univ => "U"

def parseParam : Toks → Option (Param × Toks)
  | "c" :: i :: s :: r => do some (.const (← natTok i) (← natTok s), r)
  | "v" :: i :: s :: r => do some (.var (← natTok i) (← natTok s), r)
  | _ => none

def parseParams : Nat → Toks → Option (List Param × Toks)
  | 0, r => some ([], r)
  | n+1, r => do
    let (p, r) ← parseParam r
    let (ps, r) ← parseParams n r
    some (p :: ps, r)

/-- fuelled by the token count -/
def parseSentF : Nat → Toks → Option (Sent × Toks)
  | 0, _ => none
  | f+1, ts =>
    match ts with
    | "a" :: i :: s :: r => do some (.atom (← natTok i) (← natTok s), r)
    | "p" :: i :: s :: ar :: n :: r => do
        let (ps, r) ← parseParams (← natTok n) r
        some (.pred ⟨← intTok i, ← natTok s, ← natTok ar⟩ ps, r)
    | "q" :: q :: vi :: vs :: r => do
        let (b, r) ← parseSentF f r
        some (.quant (← quantTok q) (← natTok vi) (← natTok vs) b, r)
    | "u" :: o :: r => do
        let (a, r) ← parseSentF f r
        some (.op1 (← op1Tok o) a, r)
    | "b" :: o :: r => do
        let (a, r) ← parseSentF f r
        let (b, r) ← parseSentF f r
        some (.op2 (← op2Tok o) a b, r)
    | _ => none

def parseSent (ts : Toks) : Option (Sent × Toks) := parseSentF (ts.length + 1) ts

def showParam : Param → String
  | .const i s => s!"c {i} {s}"
  | .var i s => s!"v {i} {s}"

def showSent : Sent → String
  | .atom i s => s!"a {i} {s}"
  | .pred p ps => s!"p {p.index} {p.sub} {p.arity} {ps.length}" ++ String.join (ps.map fun x => " " ++ showParam x)
  | .quant q vi vs b => s!"q {Quant.tok q} {vi} {vs} " ++ showSent b
  | .op1 o a => s!"u {Op1.tok o} " ++ showSent a
  | .op2 o a b => s!"b {Op2.tok o} " ++ showSent a ++ " " ++ showSent b

def toks (s : String) : Toks := (s.splitOn " ").filter (· ≠ "")

/-- split a token list at a separator token -/
def splitAt (sep : String) (ts : Toks) : List Toks :=
  let rec go (acc : Toks) (out : List Toks) : Toks → List Toks
    | [] => (acc.reverse :: out).reverse
    | t :: r => if t = sep then go [] (acc.reverse :: out) r else go (t :: acc) out r
  go [] [] ts

end Ptx.Wire
