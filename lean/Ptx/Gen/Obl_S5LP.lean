/- GENERATED: instance obligations for one logic, discharged by kernel evaluation.
   `X ⊆ known`: every failing row is a committed known finding (Ptx/Gen/Known.lean). -/
import Ptx.Gen.L_S5LP
import Ptx.Gen.Known
import Ptx.Sem.Subset
namespace Ptx.Gen.Obl.S5LP
open Ptx

theorem tables_total : Gen.S5LP.tablesTotalB = true := by decide +kernel
theorem rules_exact : subsetB Gen.S5LP.badRules (Known.badRules "S5LP") = true := by decide +kernel
theorem rules_sound : subsetB Gen.S5LP.unsoundRules (Known.unsoundRules "S5LP") = true := by decide +kernel
theorem rules_total : subsetB Gen.S5LP.missingRules (Known.missingRules "S5LP") = true := by decide +kernel
theorem rules_local : Gen.S5LP.nonLocalRules = [] := by decide +kernel
theorem closure_total : Gen.S5LP.closureTotalB = true := by decide +kernel
theorem closure_exact : subsetB Gen.S5LP.badClosure (Known.badClosure "S5LP") = true := by decide +kernel
theorem read_total : Gen.S5LP.readTotalB = true := by decide +kernel
theorem read_exact : subsetB Gen.S5LP.badRead (Known.badRead "S5LP") = true := by decide +kernel

end Ptx.Gen.Obl.S5LP
