/- GENERATED: instance obligations for one logic, discharged by kernel evaluation.
   `X ⊆ known`: every failing row is a committed known finding (Ptx/Gen/Known.lean). -/
import Ptx.Gen.L_S4FDE
import Ptx.Gen.Known
import Ptx.Sem.Subset
namespace Ptx.Gen.Obl.S4FDE
open Ptx

theorem tables_total : Gen.S4FDE.tablesTotalB = true := by decide +kernel
theorem rules_exact : subsetB Gen.S4FDE.badRules (Known.badRules "S4FDE") = true := by decide +kernel
theorem rules_sound : subsetB Gen.S4FDE.unsoundRules (Known.unsoundRules "S4FDE") = true := by decide +kernel
theorem rules_total : subsetB Gen.S4FDE.missingRules (Known.missingRules "S4FDE") = true := by decide +kernel
theorem rules_local : Gen.S4FDE.nonLocalRules = [] := by decide +kernel
theorem closure_total : Gen.S4FDE.closureTotalB = true := by decide +kernel
theorem closure_exact : subsetB Gen.S4FDE.badClosure (Known.badClosure "S4FDE") = true := by decide +kernel
theorem read_total : Gen.S4FDE.readTotalB = true := by decide +kernel
theorem read_exact : subsetB Gen.S4FDE.badRead (Known.badRead "S4FDE") = true := by decide +kernel

end Ptx.Gen.Obl.S4FDE
