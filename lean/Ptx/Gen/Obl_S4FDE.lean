/- GENERATED: instance obligations for one logic, discharged by kernel evaluation.
   `S` = the logic with its DOCUMENTED tables (Ptx/Sem/Spec.lean); rules, closure, trunk and frames
   are what the translator read off the code.  `X ⊆ known`: every failing row is a committed
   known finding (Ptx/Gen/Known.lean, generated from known_findings.json). -/
import Ptx.Gen.L_S4FDE
import Ptx.Gen.Known
import Ptx.Sem.Subset
import Ptx.Props.C03
import Ptx.Gen.L_FDE
namespace Ptx.Gen.Obl.S4FDE
open Ptx

/-- a modal / first-order extension has exactly the truth-functional tables of its base (FDE) -/
theorem base_tables : Gen.S4FDE.tables.sameTF Gen.FDE.tables = true := by decide +kernel
theorem spec_defined : Gen.S4FDE.specDefinedB = true := by decide +kernel
theorem tables_spec : subsetB Gen.S4FDE.tableDiff (Known.tableDiff "S4FDE") = true := by decide +kernel
theorem defined_ops : Gen.S4FDE.tables.definedOpsBad = [] := by decide +kernel
theorem tables_total : Gen.S4FDE.sem.tablesTotalB = true := by decide +kernel
theorem rules_exact : subsetB Gen.S4FDE.sem.badRules (Known.badRules "S4FDE") = true := by decide +kernel
theorem rules_sound : subsetB Gen.S4FDE.sem.unsoundRules (Known.unsoundRules "S4FDE") = true := by decide +kernel
theorem rules_total : subsetB Gen.S4FDE.sem.missingRules (Known.missingRules "S4FDE") = true := by decide +kernel
theorem rules_local : Gen.S4FDE.sem.nonLocalRules = [] := by decide +kernel
theorem closure_total : Gen.S4FDE.sem.closureTotalB = true := by decide +kernel
theorem closure_exact : subsetB Gen.S4FDE.sem.badClosure (Known.badClosure "S4FDE") = true := by decide +kernel
theorem read_total : Gen.S4FDE.sem.readTotalB = true := by decide +kernel
theorem read_exact : subsetB Gen.S4FDE.sem.badRead (Known.badRead "S4FDE") = true := by decide +kernel
theorem sound_core : Gen.S4FDE.sem.soundCoreB = true := by decide +kernel

/-- C01 for this logic: a closed tableau reached by any legal derivation has no countermodel. -/
theorem c01_valid_sound (arg : Argument) (t : Tableau)
    (hd : Deriv Gen.S4FDE.sem.soundPart (trunk Gen.S4FDE.sem arg) t) (hclosed : t.allClosed = true)
    (M : Struct) (hM : M.Interp Gen.S4FDE.sem) (e : Env M.D) (w0 : M.W) : ¬ Countermodel Gen.S4FDE.sem M e w0 arg :=
  Props.C01.C01_valid_sound Gen.S4FDE.sem sound_core arg t hd hclosed M hM e w0

/-- C03 (soundness half) for this logic: a closed tableau of a propositional argument is truth-table valid. -/
theorem c03_closed_tt (arg : Argument) (hp : arg.isProp = true) (t : Tableau)
    (hd : Deriv Gen.S4FDE.sem.soundPart (trunk Gen.S4FDE.sem arg) t) (hclosed : t.allClosed = true) : ttValid Gen.S4FDE.sem.T arg = true :=
  Props.C03.C03_closed_implies_ttValid Gen.S4FDE.sem sound_core (by decide +kernel) arg hp t hd hclosed

end Ptx.Gen.Obl.S4FDE
