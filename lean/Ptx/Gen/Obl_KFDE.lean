/- GENERATED: instance obligations for one logic, discharged by kernel evaluation.
   `S` = the logic with its DOCUMENTED tables (Ptx/Sem/Spec.lean); rules, closure, trunk and frames
   are what the translator read off the code.  `X ⊆ known`: every failing row is a committed
   known finding (Ptx/Gen/Known.lean, generated from known_findings.json). -/
import Ptx.Gen.L_KFDE
import Ptx.Gen.Known
import Ptx.Sem.Subset
import Ptx.Props.C03
import Ptx.Gen.L_FDE
namespace Ptx.Gen.Obl.KFDE
open Ptx

/-- a modal / first-order extension has exactly the truth-functional tables of its base (FDE) -/
theorem base_tables : Gen.KFDE.tables.sameTF Gen.FDE.tables = true := by decide +kernel
theorem spec_defined : Gen.KFDE.specDefinedB = true := by decide +kernel
theorem tables_spec : subsetB Gen.KFDE.tableDiff (Known.tableDiff "KFDE") = true := by decide +kernel
theorem defined_ops : Gen.KFDE.tables.definedOpsBad = [] := by decide +kernel
theorem tables_total : Gen.KFDE.sem.tablesTotalB = true := by decide +kernel
theorem rules_exact : subsetB Gen.KFDE.sem.badRules (Known.badRules "KFDE") = true := by decide +kernel
theorem rules_sound : subsetB Gen.KFDE.sem.unsoundRules (Known.unsoundRules "KFDE") = true := by decide +kernel
theorem rules_total : subsetB Gen.KFDE.sem.missingRules (Known.missingRules "KFDE") = true := by decide +kernel
theorem rules_local : Gen.KFDE.sem.nonLocalRules = [] := by decide +kernel
theorem closure_total : Gen.KFDE.sem.closureTotalB = true := by decide +kernel
theorem closure_exact : subsetB Gen.KFDE.sem.badClosure (Known.badClosure "KFDE") = true := by decide +kernel
theorem read_total : Gen.KFDE.sem.readTotalB = true := by decide +kernel
theorem read_exact : subsetB Gen.KFDE.sem.badRead (Known.badRead "KFDE") = true := by decide +kernel
theorem sound_core : Gen.KFDE.sem.soundCoreB = true := by decide +kernel

/-- C01 for this logic: a closed tableau reached by any legal derivation has no countermodel. -/
theorem c01_valid_sound (arg : Argument) (t : Tableau)
    (hd : Deriv Gen.KFDE.sem.soundPart (trunk Gen.KFDE.sem arg) t) (hclosed : t.allClosed = true)
    (M : Struct) (hM : M.Interp Gen.KFDE.sem) (e : Env M.D) (w0 : M.W) : ¬ Countermodel Gen.KFDE.sem M e w0 arg :=
  Props.C01.C01_valid_sound Gen.KFDE.sem sound_core arg t hd hclosed M hM e w0

/-- C03 (soundness half) for this logic: a closed tableau of a propositional argument is truth-table valid. -/
theorem c03_closed_tt (arg : Argument) (hp : arg.isProp = true) (t : Tableau)
    (hd : Deriv Gen.KFDE.sem.soundPart (trunk Gen.KFDE.sem arg) t) (hclosed : t.allClosed = true) : ttValid Gen.KFDE.sem.T arg = true :=
  Props.C03.C03_closed_implies_ttValid Gen.KFDE.sem sound_core (by decide +kernel) arg hp t hd hclosed

end Ptx.Gen.Obl.KFDE
