/- GENERATED: instance obligations for one logic, discharged by kernel evaluation.
   `X ⊆ known`: every failing row is a committed known finding (Ptx/Gen/Known.lean). -/
import Ptx.Gen.L_KFDE
import Ptx.Gen.Known
import Ptx.Sem.Subset
namespace Ptx.Gen.Obl.KFDE
open Ptx

theorem tables_total : Gen.KFDE.tablesTotalB = true := by decide +kernel
theorem rules_exact : subsetB Gen.KFDE.badRules (Known.badRules "KFDE") = true := by decide +kernel
theorem rules_sound : subsetB Gen.KFDE.unsoundRules (Known.unsoundRules "KFDE") = true := by decide +kernel
theorem rules_total : subsetB Gen.KFDE.missingRules (Known.missingRules "KFDE") = true := by decide +kernel
theorem rules_local : Gen.KFDE.nonLocalRules = [] := by decide +kernel
theorem closure_total : Gen.KFDE.closureTotalB = true := by decide +kernel
theorem closure_exact : subsetB Gen.KFDE.badClosure (Known.badClosure "KFDE") = true := by decide +kernel
theorem read_total : Gen.KFDE.readTotalB = true := by decide +kernel
theorem read_exact : subsetB Gen.KFDE.badRead (Known.badRead "KFDE") = true := by decide +kernel

end Ptx.Gen.Obl.KFDE
