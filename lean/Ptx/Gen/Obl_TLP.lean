/- GENERATED: instance obligations for one logic, discharged by kernel evaluation.
   `X ⊆ known`: every failing row is a committed known finding (Ptx/Gen/Known.lean). -/
import Ptx.Gen.L_TLP
import Ptx.Gen.Known
import Ptx.Sem.Subset
namespace Ptx.Gen.Obl.TLP
open Ptx

theorem tables_total : Gen.TLP.tablesTotalB = true := by decide +kernel
theorem rules_exact : subsetB Gen.TLP.badRules (Known.badRules "TLP") = true := by decide +kernel
theorem rules_sound : subsetB Gen.TLP.unsoundRules (Known.unsoundRules "TLP") = true := by decide +kernel
theorem rules_total : subsetB Gen.TLP.missingRules (Known.missingRules "TLP") = true := by decide +kernel
theorem rules_local : Gen.TLP.nonLocalRules = [] := by decide +kernel
theorem closure_total : Gen.TLP.closureTotalB = true := by decide +kernel
theorem closure_exact : subsetB Gen.TLP.badClosure (Known.badClosure "TLP") = true := by decide +kernel
theorem read_total : Gen.TLP.readTotalB = true := by decide +kernel
theorem read_exact : subsetB Gen.TLP.badRead (Known.badRead "TLP") = true := by decide +kernel

end Ptx.Gen.Obl.TLP
