/- GENERATED: instance obligations for one logic, discharged by kernel evaluation.
   `S` = the logic with its DOCUMENTED tables (Ptx/Sem/Spec.lean); rules, closure, trunk and frames
   are what the translator read off the code.  `X ⊆ known`: every failing row is a committed
   known finding (Ptx/Gen/Known.lean, generated from known_findings.json). -/
import Ptx.Gen.L_TLP
import Ptx.Gen.Known
import Ptx.Sem.Subset
import Ptx.Props.C03
import Ptx.Gen.L_LP
namespace Ptx.Gen.Obl.TLP
open Ptx

/-- a modal / first-order extension has exactly the truth-functional tables of its base (LP) -/
theorem base_tables : Gen.TLP.tables.sameTF Gen.LP.tables = true := by decide +kernel
theorem spec_defined : Gen.TLP.specDefinedB = true := by decide +kernel
theorem tables_spec : subsetB Gen.TLP.tableDiff (Known.tableDiff "TLP") = true := by decide +kernel
theorem defined_ops : Gen.TLP.tables.definedOpsBad = [] := by decide +kernel
theorem tables_total : Gen.TLP.sem.tablesTotalB = true := by decide +kernel
theorem rules_exact : subsetB Gen.TLP.sem.badRules (Known.badRules "TLP") = true := by decide +kernel
theorem rules_sound : subsetB Gen.TLP.sem.unsoundRules (Known.unsoundRules "TLP") = true := by decide +kernel
theorem rules_total : subsetB Gen.TLP.sem.missingRules (Known.missingRules "TLP") = true := by decide +kernel
theorem rules_local : Gen.TLP.sem.nonLocalRules = [] := by decide +kernel
theorem closure_total : Gen.TLP.sem.closureTotalB = true := by decide +kernel
theorem closure_exact : subsetB Gen.TLP.sem.badClosure (Known.badClosure "TLP") = true := by decide +kernel
theorem read_total : Gen.TLP.sem.readTotalB = true := by decide +kernel
theorem read_exact : subsetB Gen.TLP.sem.badRead (Known.badRead "TLP") = true := by decide +kernel
theorem sound_core : Gen.TLP.sem.soundCoreB = true := by decide +kernel

/-- C01 for this logic: a closed tableau reached by any legal derivation has no countermodel. -/
theorem c01_valid_sound (arg : Argument) (t : Tableau)
    (hd : Deriv Gen.TLP.sem.soundPart (trunk Gen.TLP.sem arg) t) (hclosed : t.allClosed = true)
    (M : Struct) (hM : M.Interp Gen.TLP.sem) (e : Env M.D) (w0 : M.W) : ¬ Countermodel Gen.TLP.sem M e w0 arg :=
  Props.C01.C01_valid_sound Gen.TLP.sem sound_core arg t hd hclosed M hM e w0

/-- C03 (soundness half) for this logic: a closed tableau of a propositional argument is truth-table valid. -/
theorem c03_closed_tt (arg : Argument) (hp : arg.isProp = true) (t : Tableau)
    (hd : Deriv Gen.TLP.sem.soundPart (trunk Gen.TLP.sem arg) t) (hclosed : t.allClosed = true) : ttValid Gen.TLP.sem.T arg = true :=
  Props.C03.C03_closed_implies_ttValid Gen.TLP.sem sound_core (by decide +kernel) arg hp t hd hclosed

end Ptx.Gen.Obl.TLP
