/- GENERATED: instance obligations for one logic, discharged by kernel evaluation.
   `X ⊆ known`: every failing row is a committed known finding (Ptx/Gen/Known.lean). -/
import Ptx.Gen.L_S4
import Ptx.Gen.Known
import Ptx.Sem.Subset
namespace Ptx.Gen.Obl.S4
open Ptx

theorem tables_total : Gen.S4.tablesTotalB = true := by decide +kernel
theorem rules_exact : subsetB Gen.S4.badRules (Known.badRules "S4") = true := by decide +kernel
theorem rules_sound : subsetB Gen.S4.unsoundRules (Known.unsoundRules "S4") = true := by decide +kernel
theorem rules_total : subsetB Gen.S4.missingRules (Known.missingRules "S4") = true := by decide +kernel
theorem rules_local : Gen.S4.nonLocalRules = [] := by decide +kernel
theorem closure_total : Gen.S4.closureTotalB = true := by decide +kernel
theorem closure_exact : subsetB Gen.S4.badClosure (Known.badClosure "S4") = true := by decide +kernel
theorem read_total : Gen.S4.readTotalB = true := by decide +kernel
theorem read_exact : subsetB Gen.S4.badRead (Known.badRead "S4") = true := by decide +kernel

end Ptx.Gen.Obl.S4
