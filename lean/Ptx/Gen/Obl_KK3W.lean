/- GENERATED: instance obligations for one logic, discharged by kernel evaluation.
   `X ⊆ known`: every failing row is a committed known finding (Ptx/Gen/Known.lean). -/
import Ptx.Gen.L_KK3W
import Ptx.Gen.Known
import Ptx.Sem.Subset
namespace Ptx.Gen.Obl.KK3W
open Ptx

theorem tables_total : Gen.KK3W.tablesTotalB = true := by decide +kernel
theorem rules_exact : subsetB Gen.KK3W.badRules (Known.badRules "KK3W") = true := by decide +kernel
theorem rules_sound : subsetB Gen.KK3W.unsoundRules (Known.unsoundRules "KK3W") = true := by decide +kernel
theorem rules_total : subsetB Gen.KK3W.missingRules (Known.missingRules "KK3W") = true := by decide +kernel
theorem rules_local : Gen.KK3W.nonLocalRules = [] := by decide +kernel
theorem closure_total : Gen.KK3W.closureTotalB = true := by decide +kernel
theorem closure_exact : subsetB Gen.KK3W.badClosure (Known.badClosure "KK3W") = true := by decide +kernel
theorem read_total : Gen.KK3W.readTotalB = true := by decide +kernel
theorem read_exact : subsetB Gen.KK3W.badRead (Known.badRead "KK3W") = true := by decide +kernel

end Ptx.Gen.Obl.KK3W
