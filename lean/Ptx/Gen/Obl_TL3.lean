/- GENERATED: instance obligations for one logic, discharged by kernel evaluation.
   `X ⊆ known`: every failing row is a committed known finding (Ptx/Gen/Known.lean). -/
import Ptx.Gen.L_TL3
import Ptx.Gen.Known
import Ptx.Sem.Subset
namespace Ptx.Gen.Obl.TL3
open Ptx

theorem tables_total : Gen.TL3.tablesTotalB = true := by decide +kernel
theorem rules_exact : subsetB Gen.TL3.badRules (Known.badRules "TL3") = true := by decide +kernel
theorem rules_sound : subsetB Gen.TL3.unsoundRules (Known.unsoundRules "TL3") = true := by decide +kernel
theorem rules_total : subsetB Gen.TL3.missingRules (Known.missingRules "TL3") = true := by decide +kernel
theorem rules_local : Gen.TL3.nonLocalRules = [] := by decide +kernel
theorem closure_total : Gen.TL3.closureTotalB = true := by decide +kernel
theorem closure_exact : subsetB Gen.TL3.badClosure (Known.badClosure "TL3") = true := by decide +kernel
theorem read_total : Gen.TL3.readTotalB = true := by decide +kernel
theorem read_exact : subsetB Gen.TL3.badRead (Known.badRead "TL3") = true := by decide +kernel

end Ptx.Gen.Obl.TL3
