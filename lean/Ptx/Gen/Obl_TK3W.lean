/- GENERATED: instance obligations for one logic, discharged by kernel evaluation.
   `X ⊆ known`: every failing row is a committed known finding (Ptx/Gen/Known.lean). -/
import Ptx.Gen.L_TK3W
import Ptx.Gen.Known
import Ptx.Sem.Subset
namespace Ptx.Gen.Obl.TK3W
open Ptx

theorem tables_total : Gen.TK3W.tablesTotalB = true := by decide +kernel
theorem rules_exact : subsetB Gen.TK3W.badRules (Known.badRules "TK3W") = true := by decide +kernel
theorem rules_sound : subsetB Gen.TK3W.unsoundRules (Known.unsoundRules "TK3W") = true := by decide +kernel
theorem rules_total : subsetB Gen.TK3W.missingRules (Known.missingRules "TK3W") = true := by decide +kernel
theorem rules_local : Gen.TK3W.nonLocalRules = [] := by decide +kernel
theorem closure_total : Gen.TK3W.closureTotalB = true := by decide +kernel
theorem closure_exact : subsetB Gen.TK3W.badClosure (Known.badClosure "TK3W") = true := by decide +kernel
theorem read_total : Gen.TK3W.readTotalB = true := by decide +kernel
theorem read_exact : subsetB Gen.TK3W.badRead (Known.badRead "TK3W") = true := by decide +kernel

end Ptx.Gen.Obl.TK3W
