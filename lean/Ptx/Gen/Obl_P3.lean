/- GENERATED: instance obligations for one logic, discharged by kernel evaluation.
   `X ⊆ known`: every failing row is a committed known finding (Ptx/Gen/Known.lean). -/
import Ptx.Gen.L_P3
import Ptx.Gen.Known
import Ptx.Sem.Subset
namespace Ptx.Gen.Obl.P3
open Ptx

theorem tables_total : Gen.P3.tablesTotalB = true := by decide +kernel
theorem rules_exact : subsetB Gen.P3.badRules (Known.badRules "P3") = true := by decide +kernel
theorem rules_sound : subsetB Gen.P3.unsoundRules (Known.unsoundRules "P3") = true := by decide +kernel
theorem rules_total : subsetB Gen.P3.missingRules (Known.missingRules "P3") = true := by decide +kernel
theorem rules_local : Gen.P3.nonLocalRules = [] := by decide +kernel
theorem closure_total : Gen.P3.closureTotalB = true := by decide +kernel
theorem closure_exact : subsetB Gen.P3.badClosure (Known.badClosure "P3") = true := by decide +kernel
theorem read_total : Gen.P3.readTotalB = true := by decide +kernel
theorem read_exact : subsetB Gen.P3.badRead (Known.badRead "P3") = true := by decide +kernel

end Ptx.Gen.Obl.P3
