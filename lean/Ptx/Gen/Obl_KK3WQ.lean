/- GENERATED: instance obligations for one logic, discharged by kernel evaluation.
   `X ⊆ known`: every failing row is a committed known finding (Ptx/Gen/Known.lean). -/
import Ptx.Gen.L_KK3WQ
import Ptx.Gen.Known
import Ptx.Sem.Subset
namespace Ptx.Gen.Obl.KK3WQ
open Ptx

theorem tables_total : Gen.KK3WQ.tablesTotalB = true := by decide +kernel
theorem rules_exact : subsetB Gen.KK3WQ.badRules (Known.badRules "KK3WQ") = true := by decide +kernel
theorem rules_sound : subsetB Gen.KK3WQ.unsoundRules (Known.unsoundRules "KK3WQ") = true := by decide +kernel
theorem rules_total : subsetB Gen.KK3WQ.missingRules (Known.missingRules "KK3WQ") = true := by decide +kernel
theorem rules_local : Gen.KK3WQ.nonLocalRules = [] := by decide +kernel
theorem closure_total : Gen.KK3WQ.closureTotalB = true := by decide +kernel
theorem closure_exact : subsetB Gen.KK3WQ.badClosure (Known.badClosure "KK3WQ") = true := by decide +kernel
theorem read_total : Gen.KK3WQ.readTotalB = true := by decide +kernel
theorem read_exact : subsetB Gen.KK3WQ.badRead (Known.badRead "KK3WQ") = true := by decide +kernel

end Ptx.Gen.Obl.KK3WQ
