/- GENERATED: instance obligations for one logic, discharged by kernel evaluation.
   `X ⊆ known`: every failing row is a committed known finding (Ptx/Gen/Known.lean). -/
import Ptx.Gen.L_T
import Ptx.Gen.Known
import Ptx.Sem.Subset
namespace Ptx.Gen.Obl.T
open Ptx

theorem tables_total : Gen.T.tablesTotalB = true := by decide +kernel
theorem rules_exact : subsetB Gen.T.badRules (Known.badRules "T") = true := by decide +kernel
theorem rules_sound : subsetB Gen.T.unsoundRules (Known.unsoundRules "T") = true := by decide +kernel
theorem rules_total : subsetB Gen.T.missingRules (Known.missingRules "T") = true := by decide +kernel
theorem rules_local : Gen.T.nonLocalRules = [] := by decide +kernel
theorem closure_total : Gen.T.closureTotalB = true := by decide +kernel
theorem closure_exact : subsetB Gen.T.badClosure (Known.badClosure "T") = true := by decide +kernel
theorem read_total : Gen.T.readTotalB = true := by decide +kernel
theorem read_exact : subsetB Gen.T.badRead (Known.badRead "T") = true := by decide +kernel

end Ptx.Gen.Obl.T
