/- GENERATED: instance obligations for one logic, discharged by kernel evaluation.
   `S` = the logic with its DOCUMENTED tables (Ptx/Sem/Spec.lean); rules, closure, trunk and frames
   are what the translator read off the code.  `X ⊆ known`: every failing row is a committed
   known finding (Ptx/Gen/Known.lean, generated from known_findings.json). -/
import Ptx.Gen.L_T
import Ptx.Gen.Known
import Ptx.Sem.Subset
import Ptx.Props.C03
import Ptx.Gen.L_CFOL
namespace Ptx.Gen.Obl.T
open Ptx

/-- a modal / first-order extension has exactly the truth-functional tables of its base (CFOL) -/
theorem base_tables : Gen.T.tables.sameTF Gen.CFOL.tables = true := by decide +kernel
theorem spec_defined : Gen.T.specDefinedB = true := by decide +kernel
theorem tables_spec : subsetB Gen.T.tableDiff (Known.tableDiff "T") = true := by decide +kernel
theorem defined_ops : Gen.T.tables.definedOpsBad = [] := by decide +kernel
theorem tables_total : Gen.T.sem.tablesTotalB = true := by decide +kernel
theorem rules_exact : subsetB Gen.T.sem.badRules (Known.badRules "T") = true := by decide +kernel
theorem rules_sound : subsetB Gen.T.sem.unsoundRules (Known.unsoundRules "T") = true := by decide +kernel
theorem rules_total : subsetB Gen.T.sem.missingRules (Known.missingRules "T") = true := by decide +kernel
theorem rules_local : Gen.T.sem.nonLocalRules = [] := by decide +kernel
theorem closure_total : Gen.T.sem.closureTotalB = true := by decide +kernel
theorem closure_exact : subsetB Gen.T.sem.badClosure (Known.badClosure "T") = true := by decide +kernel
theorem read_total : Gen.T.sem.readTotalB = true := by decide +kernel
theorem read_exact : subsetB Gen.T.sem.badRead (Known.badRead "T") = true := by decide +kernel
theorem sound_core : Gen.T.sem.soundCoreB = true := by decide +kernel

/-- C01 for this logic: a closed tableau reached by any legal derivation has no countermodel. -/
theorem c01_valid_sound (arg : Argument) (t : Tableau)
    (hd : Deriv Gen.T.sem.soundPart (trunk Gen.T.sem arg) t) (hclosed : t.allClosed = true)
    (M : Struct) (hM : M.Interp Gen.T.sem) (e : Env M.D) (w0 : M.W) : ¬ Countermodel Gen.T.sem M e w0 arg :=
  Props.C01.C01_valid_sound Gen.T.sem sound_core arg t hd hclosed M hM e w0

/-- C03 (soundness half) for this logic: a closed tableau of a propositional argument is truth-table valid. -/
theorem c03_closed_tt (arg : Argument) (hp : arg.isProp = true) (t : Tableau)
    (hd : Deriv Gen.T.sem.soundPart (trunk Gen.T.sem arg) t) (hclosed : t.allClosed = true) : ttValid Gen.T.sem.T arg = true :=
  Props.C03.C03_closed_implies_ttValid Gen.T.sem sound_core (by decide +kernel) arg hp t hd hclosed

end Ptx.Gen.Obl.T
