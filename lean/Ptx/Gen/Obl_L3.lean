/- GENERATED: instance obligations for one logic, discharged by kernel evaluation.
   `X ⊆ known`: every failing row is a committed known finding (Ptx/Gen/Known.lean). -/
import Ptx.Gen.L_L3
import Ptx.Gen.Known
import Ptx.Sem.Subset
namespace Ptx.Gen.Obl.L3
open Ptx

theorem tables_total : Gen.L3.tablesTotalB = true := by decide +kernel
theorem rules_exact : subsetB Gen.L3.badRules (Known.badRules "L3") = true := by decide +kernel
theorem rules_sound : subsetB Gen.L3.unsoundRules (Known.unsoundRules "L3") = true := by decide +kernel
theorem rules_total : subsetB Gen.L3.missingRules (Known.missingRules "L3") = true := by decide +kernel
theorem rules_local : Gen.L3.nonLocalRules = [] := by decide +kernel
theorem closure_total : Gen.L3.closureTotalB = true := by decide +kernel
theorem closure_exact : subsetB Gen.L3.badClosure (Known.badClosure "L3") = true := by decide +kernel
theorem read_total : Gen.L3.readTotalB = true := by decide +kernel
theorem read_exact : subsetB Gen.L3.badRead (Known.badRead "L3") = true := by decide +kernel

end Ptx.Gen.Obl.L3
