/- GENERATED: instance obligations for one logic, discharged by kernel evaluation.
   `S` = the logic with its DOCUMENTED tables (Ptx/Sem/Spec.lean); rules, closure, trunk and frames
   are what the translator read off the code.  `X ⊆ known`: every failing row is a committed
   known finding (Ptx/Gen/Known.lean, generated from known_findings.json). -/
import Ptx.Gen.L_L3
import Ptx.Gen.Known
import Ptx.Sem.Subset
import Ptx.Props.C03
namespace Ptx.Gen.Obl.L3
open Ptx

/-- a modal / first-order extension has exactly the truth-functional tables of its base (L3) -/
theorem base_tables : Gen.L3.tables.sameTF Gen.L3.tables = true := by decide +kernel
theorem spec_defined : Gen.L3.specDefinedB = true := by decide +kernel
theorem tables_spec : subsetB Gen.L3.tableDiff (Known.tableDiff "L3") = true := by decide +kernel
theorem defined_ops : Gen.L3.tables.definedOpsBad = [] := by decide +kernel
theorem tables_total : Gen.L3.sem.tablesTotalB = true := by decide +kernel
theorem rules_exact : subsetB Gen.L3.sem.badRules (Known.badRules "L3") = true := by decide +kernel
theorem rules_sound : subsetB Gen.L3.sem.unsoundRules (Known.unsoundRules "L3") = true := by decide +kernel
theorem rules_total : subsetB Gen.L3.sem.missingRules (Known.missingRules "L3") = true := by decide +kernel
theorem rules_local : Gen.L3.sem.nonLocalRules = [] := by decide +kernel
theorem closure_total : Gen.L3.sem.closureTotalB = true := by decide +kernel
theorem closure_exact : subsetB Gen.L3.sem.badClosure (Known.badClosure "L3") = true := by decide +kernel
theorem read_total : Gen.L3.sem.readTotalB = true := by decide +kernel
theorem read_exact : subsetB Gen.L3.sem.badRead (Known.badRead "L3") = true := by decide +kernel
theorem sound_core : Gen.L3.sem.soundCoreB = true := by decide +kernel

/-- C01 for this logic: a closed tableau reached by any legal derivation has no countermodel. -/
theorem c01_valid_sound (arg : Argument) (t : Tableau)
    (hd : Deriv Gen.L3.sem.soundPart (trunk Gen.L3.sem arg) t) (hclosed : t.allClosed = true)
    (M : Struct) (hM : M.Interp Gen.L3.sem) (e : Env M.D) (w0 : M.W) : ¬ Countermodel Gen.L3.sem M e w0 arg :=
  Props.C01.C01_valid_sound Gen.L3.sem sound_core arg t hd hclosed M hM e w0

/-- C03 (soundness half) for this logic: a closed tableau of a propositional argument is truth-table valid. -/
theorem c03_closed_tt (arg : Argument) (hp : arg.isProp = true) (t : Tableau)
    (hd : Deriv Gen.L3.sem.soundPart (trunk Gen.L3.sem arg) t) (hclosed : t.allClosed = true) : ttValid Gen.L3.sem.T arg = true :=
  Props.C03.C03_closed_implies_ttValid Gen.L3.sem sound_core (by decide +kernel) arg hp t hd hclosed

end Ptx.Gen.Obl.L3
