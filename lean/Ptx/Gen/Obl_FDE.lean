/- GENERATED: instance obligations for one logic, discharged by kernel evaluation.
   `S` = the logic with its DOCUMENTED tables (Ptx/Sem/Spec.lean); rules, closure, trunk and frames
   are what the translator read off the code.  `X ⊆ known`: every failing row is a committed
   known finding (Ptx/Gen/Known.lean, generated from known_findings.json). -/
import Ptx.Gen.L_FDE
import Ptx.Gen.Known
import Ptx.Sem.Subset
import Ptx.Props.C03
namespace Ptx.Gen.Obl.FDE
open Ptx

/-- a modal / first-order extension has exactly the truth-functional tables of its base (FDE) -/
theorem base_tables : Gen.FDE.tables.sameTF Gen.FDE.tables = true := by decide +kernel
theorem spec_defined : Gen.FDE.specDefinedB = true := by decide +kernel
theorem tables_spec : subsetB Gen.FDE.tableDiff (Known.tableDiff "FDE") = true := by decide +kernel
theorem defined_ops : Gen.FDE.tables.definedOpsBad = [] := by decide +kernel
theorem tables_total : Gen.FDE.sem.tablesTotalB = true := by decide +kernel
theorem rules_exact : subsetB Gen.FDE.sem.badRules (Known.badRules "FDE") = true := by decide +kernel
theorem rules_sound : subsetB Gen.FDE.sem.unsoundRules (Known.unsoundRules "FDE") = true := by decide +kernel
theorem rules_total : subsetB Gen.FDE.sem.missingRules (Known.missingRules "FDE") = true := by decide +kernel
theorem rules_local : Gen.FDE.sem.nonLocalRules = [] := by decide +kernel
theorem closure_total : Gen.FDE.sem.closureTotalB = true := by decide +kernel
theorem closure_exact : subsetB Gen.FDE.sem.badClosure (Known.badClosure "FDE") = true := by decide +kernel
theorem read_total : Gen.FDE.sem.readTotalB = true := by decide +kernel
theorem read_exact : subsetB Gen.FDE.sem.badRead (Known.badRead "FDE") = true := by decide +kernel
theorem sound_core : Gen.FDE.sem.soundCoreB = true := by decide +kernel

/-- C01 for this logic: a closed tableau reached by any legal derivation has no countermodel. -/
theorem c01_valid_sound (arg : Argument) (t : Tableau)
    (hd : Deriv Gen.FDE.sem.soundPart (trunk Gen.FDE.sem arg) t) (hclosed : t.allClosed = true)
    (M : Struct) (hM : M.Interp Gen.FDE.sem) (e : Env M.D) (w0 : M.W) : ¬ Countermodel Gen.FDE.sem M e w0 arg :=
  Props.C01.C01_valid_sound Gen.FDE.sem sound_core arg t hd hclosed M hM e w0

/-- C03 (soundness half) for this logic: a closed tableau of a propositional argument is truth-table valid. -/
theorem c03_closed_tt (arg : Argument) (hp : arg.isProp = true) (t : Tableau)
    (hd : Deriv Gen.FDE.sem.soundPart (trunk Gen.FDE.sem arg) t) (hclosed : t.allClosed = true) : ttValid Gen.FDE.sem.T arg = true :=
  Props.C03.C03_closed_implies_ttValid Gen.FDE.sem sound_core (by decide +kernel) arg hp t hd hclosed

end Ptx.Gen.Obl.FDE
