/- GENERATED: instance obligations for one logic, discharged by kernel evaluation.
   `X ⊆ known`: every failing row is a committed known finding (Ptx/Gen/Known.lean). -/
import Ptx.Gen.L_FDE
import Ptx.Gen.Known
import Ptx.Sem.Subset
namespace Ptx.Gen.Obl.FDE
open Ptx

theorem tables_total : Gen.FDE.tablesTotalB = true := by decide +kernel
theorem rules_exact : subsetB Gen.FDE.badRules (Known.badRules "FDE") = true := by decide +kernel
theorem rules_sound : subsetB Gen.FDE.unsoundRules (Known.unsoundRules "FDE") = true := by decide +kernel
theorem rules_total : subsetB Gen.FDE.missingRules (Known.missingRules "FDE") = true := by decide +kernel
theorem rules_local : Gen.FDE.nonLocalRules = [] := by decide +kernel
theorem closure_total : Gen.FDE.closureTotalB = true := by decide +kernel
theorem closure_exact : subsetB Gen.FDE.badClosure (Known.badClosure "FDE") = true := by decide +kernel
theorem read_total : Gen.FDE.readTotalB = true := by decide +kernel
theorem read_exact : subsetB Gen.FDE.badRead (Known.badRead "FDE") = true := by decide +kernel

end Ptx.Gen.Obl.FDE
