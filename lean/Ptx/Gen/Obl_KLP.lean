/- GENERATED: instance obligations for one logic, discharged by kernel evaluation.
   `X ⊆ known`: every failing row is a committed known finding (Ptx/Gen/Known.lean). -/
import Ptx.Gen.L_KLP
import Ptx.Gen.Known
import Ptx.Sem.Subset
namespace Ptx.Gen.Obl.KLP
open Ptx

theorem tables_total : Gen.KLP.tablesTotalB = true := by decide +kernel
theorem rules_exact : subsetB Gen.KLP.badRules (Known.badRules "KLP") = true := by decide +kernel
theorem rules_sound : subsetB Gen.KLP.unsoundRules (Known.unsoundRules "KLP") = true := by decide +kernel
theorem rules_total : subsetB Gen.KLP.missingRules (Known.missingRules "KLP") = true := by decide +kernel
theorem rules_local : Gen.KLP.nonLocalRules = [] := by decide +kernel
theorem closure_total : Gen.KLP.closureTotalB = true := by decide +kernel
theorem closure_exact : subsetB Gen.KLP.badClosure (Known.badClosure "KLP") = true := by decide +kernel
theorem read_total : Gen.KLP.readTotalB = true := by decide +kernel
theorem read_exact : subsetB Gen.KLP.badRead (Known.badRead "KLP") = true := by decide +kernel

end Ptx.Gen.Obl.KLP
