/- GENERATED: instance obligations for one logic, discharged by kernel evaluation.
   `S` = the logic with its DOCUMENTED tables (Ptx/Sem/Spec.lean); rules, closure, trunk and frames
   are what the translator read off the code.  `X ⊆ known`: every failing row is a committed
   known finding (Ptx/Gen/Known.lean, generated from known_findings.json). -/
import Ptx.Gen.L_KLP
import Ptx.Gen.Known
import Ptx.Sem.Subset
import Ptx.Props.C03
import Ptx.Gen.L_LP
namespace Ptx.Gen.Obl.KLP
open Ptx

/-- a modal / first-order extension has exactly the truth-functional tables of its base (LP) -/
theorem base_tables : Gen.KLP.tables.sameTF Gen.LP.tables = true := by decide +kernel
theorem spec_defined : Gen.KLP.specDefinedB = true := by decide +kernel
theorem tables_spec : subsetB Gen.KLP.tableDiff (Known.tableDiff "KLP") = true := by decide +kernel
theorem defined_ops : Gen.KLP.tables.definedOpsBad = [] := by decide +kernel
theorem tables_total : Gen.KLP.sem.tablesTotalB = true := by decide +kernel
theorem rules_exact : subsetB Gen.KLP.sem.badRules (Known.badRules "KLP") = true := by decide +kernel
theorem rules_sound : subsetB Gen.KLP.sem.unsoundRules (Known.unsoundRules "KLP") = true := by decide +kernel
theorem rules_total : subsetB Gen.KLP.sem.missingRules (Known.missingRules "KLP") = true := by decide +kernel
theorem rules_local : Gen.KLP.sem.nonLocalRules = [] := by decide +kernel
theorem closure_total : Gen.KLP.sem.closureTotalB = true := by decide +kernel
theorem closure_exact : subsetB Gen.KLP.sem.badClosure (Known.badClosure "KLP") = true := by decide +kernel
theorem read_total : Gen.KLP.sem.readTotalB = true := by decide +kernel
theorem read_exact : subsetB Gen.KLP.sem.badRead (Known.badRead "KLP") = true := by decide +kernel
theorem sound_core : Gen.KLP.sem.soundCoreB = true := by decide +kernel

/-- C01 for this logic: a closed tableau reached by any legal derivation has no countermodel. -/
theorem c01_valid_sound (arg : Argument) (t : Tableau)
    (hd : Deriv Gen.KLP.sem.soundPart (trunk Gen.KLP.sem arg) t) (hclosed : t.allClosed = true)
    (M : Struct) (hM : M.Interp Gen.KLP.sem) (e : Env M.D) (w0 : M.W) : ¬ Countermodel Gen.KLP.sem M e w0 arg :=
  Props.C01.C01_valid_sound Gen.KLP.sem sound_core arg t hd hclosed M hM e w0

/-- C03 (soundness half) for this logic: a closed tableau of a propositional argument is truth-table valid. -/
theorem c03_closed_tt (arg : Argument) (hp : arg.isProp = true) (t : Tableau)
    (hd : Deriv Gen.KLP.sem.soundPart (trunk Gen.KLP.sem arg) t) (hclosed : t.allClosed = true) : ttValid Gen.KLP.sem.T arg = true :=
  Props.C03.C03_closed_implies_ttValid Gen.KLP.sem sound_core (by decide +kernel) arg hp t hd hclosed

end Ptx.Gen.Obl.KLP
