/- GENERATED: instance obligations for one logic, discharged by kernel evaluation.
   `X ⊆ known`: every failing row is a committed known finding (Ptx/Gen/Known.lean). -/
import Ptx.Gen.L_B3E
import Ptx.Gen.Known
import Ptx.Sem.Subset
namespace Ptx.Gen.Obl.B3E
open Ptx

theorem tables_total : Gen.B3E.tablesTotalB = true := by decide +kernel
theorem rules_exact : subsetB Gen.B3E.badRules (Known.badRules "B3E") = true := by decide +kernel
theorem rules_sound : subsetB Gen.B3E.unsoundRules (Known.unsoundRules "B3E") = true := by decide +kernel
theorem rules_total : subsetB Gen.B3E.missingRules (Known.missingRules "B3E") = true := by decide +kernel
theorem rules_local : Gen.B3E.nonLocalRules = [] := by decide +kernel
theorem closure_total : Gen.B3E.closureTotalB = true := by decide +kernel
theorem closure_exact : subsetB Gen.B3E.badClosure (Known.badClosure "B3E") = true := by decide +kernel
theorem read_total : Gen.B3E.readTotalB = true := by decide +kernel
theorem read_exact : subsetB Gen.B3E.badRead (Known.badRead "B3E") = true := by decide +kernel

end Ptx.Gen.Obl.B3E
