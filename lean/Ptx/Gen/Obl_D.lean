/- GENERATED: instance obligations for one logic, discharged by kernel evaluation.
   `X ⊆ known`: every failing row is a committed known finding (Ptx/Gen/Known.lean). -/
import Ptx.Gen.L_D
import Ptx.Gen.Known
import Ptx.Sem.Subset
namespace Ptx.Gen.Obl.D
open Ptx

theorem tables_total : Gen.D.tablesTotalB = true := by decide +kernel
theorem rules_exact : subsetB Gen.D.badRules (Known.badRules "D") = true := by decide +kernel
theorem rules_sound : subsetB Gen.D.unsoundRules (Known.unsoundRules "D") = true := by decide +kernel
theorem rules_total : subsetB Gen.D.missingRules (Known.missingRules "D") = true := by decide +kernel
theorem rules_local : Gen.D.nonLocalRules = [] := by decide +kernel
theorem closure_total : Gen.D.closureTotalB = true := by decide +kernel
theorem closure_exact : subsetB Gen.D.badClosure (Known.badClosure "D") = true := by decide +kernel
theorem read_total : Gen.D.readTotalB = true := by decide +kernel
theorem read_exact : subsetB Gen.D.badRead (Known.badRead "D") = true := by decide +kernel

end Ptx.Gen.Obl.D
