/- GENERATED: instance obligations for one logic, discharged by kernel evaluation.
   `S` = the logic with its DOCUMENTED tables (Ptx/Sem/Spec.lean); rules, closure, trunk and frames
   are what the translator read off the code.  `X ⊆ known`: every failing row is a committed
   known finding (Ptx/Gen/Known.lean, generated from known_findings.json). -/
import Ptx.Gen.L_D
import Ptx.Gen.Known
import Ptx.Sem.Subset
import Ptx.Props.C03
import Ptx.Gen.L_CFOL
namespace Ptx.Gen.Obl.D
open Ptx

/-- a modal / first-order extension has exactly the truth-functional tables of its base (CFOL) -/
theorem base_tables : Gen.D.tables.sameTF Gen.CFOL.tables = true := by decide +kernel
theorem spec_defined : Gen.D.specDefinedB = true := by decide +kernel
theorem tables_spec : subsetB Gen.D.tableDiff (Known.tableDiff "D") = true := by decide +kernel
theorem defined_ops : Gen.D.tables.definedOpsBad = [] := by decide +kernel
theorem tables_total : Gen.D.sem.tablesTotalB = true := by decide +kernel
theorem rules_exact : subsetB Gen.D.sem.badRules (Known.badRules "D") = true := by decide +kernel
theorem rules_sound : subsetB Gen.D.sem.unsoundRules (Known.unsoundRules "D") = true := by decide +kernel
theorem rules_total : subsetB Gen.D.sem.missingRules (Known.missingRules "D") = true := by decide +kernel
theorem rules_local : Gen.D.sem.nonLocalRules = [] := by decide +kernel
theorem closure_total : Gen.D.sem.closureTotalB = true := by decide +kernel
theorem closure_exact : subsetB Gen.D.sem.badClosure (Known.badClosure "D") = true := by decide +kernel
theorem read_total : Gen.D.sem.readTotalB = true := by decide +kernel
theorem read_exact : subsetB Gen.D.sem.badRead (Known.badRead "D") = true := by decide +kernel
theorem sound_core : Gen.D.sem.soundCoreB = true := by decide +kernel

/-- C01 for this logic: a closed tableau reached by any legal derivation has no countermodel. -/
theorem c01_valid_sound (arg : Argument) (t : Tableau)
    (hd : Deriv Gen.D.sem.soundPart (trunk Gen.D.sem arg) t) (hclosed : t.allClosed = true)
    (M : Struct) (hM : M.Interp Gen.D.sem) (e : Env M.D) (w0 : M.W) : ¬ Countermodel Gen.D.sem M e w0 arg :=
  Props.C01.C01_valid_sound Gen.D.sem sound_core arg t hd hclosed M hM e w0

/-- C03 (soundness half) for this logic: a closed tableau of a propositional argument is truth-table valid. -/
theorem c03_closed_tt (arg : Argument) (hp : arg.isProp = true) (t : Tableau)
    (hd : Deriv Gen.D.sem.soundPart (trunk Gen.D.sem arg) t) (hclosed : t.allClosed = true) : ttValid Gen.D.sem.T arg = true :=
  Props.C03.C03_closed_implies_ttValid Gen.D.sem sound_core (by decide +kernel) arg hp t hd hclosed

end Ptx.Gen.Obl.D
