/- GENERATED: instance obligations for one logic, discharged by kernel evaluation.
   `X ⊆ known`: every failing row is a committed known finding (Ptx/Gen/Known.lean). -/
import Ptx.Gen.L_K3W
import Ptx.Gen.Known
import Ptx.Sem.Subset
namespace Ptx.Gen.Obl.K3W
open Ptx

theorem tables_total : Gen.K3W.tablesTotalB = true := by decide +kernel
theorem rules_exact : subsetB Gen.K3W.badRules (Known.badRules "K3W") = true := by decide +kernel
theorem rules_sound : subsetB Gen.K3W.unsoundRules (Known.unsoundRules "K3W") = true := by decide +kernel
theorem rules_total : subsetB Gen.K3W.missingRules (Known.missingRules "K3W") = true := by decide +kernel
theorem rules_local : Gen.K3W.nonLocalRules = [] := by decide +kernel
theorem closure_total : Gen.K3W.closureTotalB = true := by decide +kernel
theorem closure_exact : subsetB Gen.K3W.badClosure (Known.badClosure "K3W") = true := by decide +kernel
theorem read_total : Gen.K3W.readTotalB = true := by decide +kernel
theorem read_exact : subsetB Gen.K3W.badRead (Known.badRead "K3W") = true := by decide +kernel

end Ptx.Gen.Obl.K3W
