/- GENERATED: instance obligations for one logic, discharged by kernel evaluation.
   `S` = the logic with its DOCUMENTED tables (Ptx/Sem/Spec.lean); rules, closure, trunk and frames
   are what the translator read off the code.  `X ⊆ known`: every failing row is a committed
   known finding (Ptx/Gen/Known.lean, generated from known_findings.json). -/
import Ptx.Gen.L_KB3E
import Ptx.Gen.Known
import Ptx.Sem.Subset
import Ptx.Props.C03
import Ptx.Gen.L_B3E
namespace Ptx.Gen.Obl.KB3E
open Ptx

/-- a modal / first-order extension has exactly the truth-functional tables of its base (B3E) -/
theorem base_tables : Gen.KB3E.tables.sameTF Gen.B3E.tables = true := by decide +kernel
theorem spec_defined : Gen.KB3E.specDefinedB = true := by decide +kernel
theorem tables_spec : subsetB Gen.KB3E.tableDiff (Known.tableDiff "KB3E") = true := by decide +kernel
theorem defined_ops : Gen.KB3E.tables.definedOpsBad = [] := by decide +kernel
theorem tables_total : Gen.KB3E.sem.tablesTotalB = true := by decide +kernel
theorem rules_exact : subsetB Gen.KB3E.sem.badRules (Known.badRules "KB3E") = true := by decide +kernel
theorem rules_sound : subsetB Gen.KB3E.sem.unsoundRules (Known.unsoundRules "KB3E") = true := by decide +kernel
theorem rules_total : subsetB Gen.KB3E.sem.missingRules (Known.missingRules "KB3E") = true := by decide +kernel
theorem rules_local : Gen.KB3E.sem.nonLocalRules = [] := by decide +kernel
theorem closure_total : Gen.KB3E.sem.closureTotalB = true := by decide +kernel
theorem closure_exact : subsetB Gen.KB3E.sem.badClosure (Known.badClosure "KB3E") = true := by decide +kernel
theorem read_total : Gen.KB3E.sem.readTotalB = true := by decide +kernel
theorem read_exact : subsetB Gen.KB3E.sem.badRead (Known.badRead "KB3E") = true := by decide +kernel
theorem sound_core : Gen.KB3E.sem.soundCoreB = true := by decide +kernel

/-- C01 for this logic: a closed tableau reached by any legal derivation has no countermodel. -/
theorem c01_valid_sound (arg : Argument) (t : Tableau)
    (hd : Deriv Gen.KB3E.sem.soundPart (trunk Gen.KB3E.sem arg) t) (hclosed : t.allClosed = true)
    (M : Struct) (hM : M.Interp Gen.KB3E.sem) (e : Env M.D) (w0 : M.W) : ¬ Countermodel Gen.KB3E.sem M e w0 arg :=
  Props.C01.C01_valid_sound Gen.KB3E.sem sound_core arg t hd hclosed M hM e w0

/-- C03 (soundness half) for this logic: a closed tableau of a propositional argument is truth-table valid. -/
theorem c03_closed_tt (arg : Argument) (hp : arg.isProp = true) (t : Tableau)
    (hd : Deriv Gen.KB3E.sem.soundPart (trunk Gen.KB3E.sem arg) t) (hclosed : t.allClosed = true) : ttValid Gen.KB3E.sem.T arg = true :=
  Props.C03.C03_closed_implies_ttValid Gen.KB3E.sem sound_core (by decide +kernel) arg hp t hd hclosed

end Ptx.Gen.Obl.KB3E
