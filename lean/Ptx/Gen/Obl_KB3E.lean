/- GENERATED: instance obligations for one logic, discharged by kernel evaluation.
   `X ⊆ known`: every failing row is a committed known finding (Ptx/Gen/Known.lean). -/
import Ptx.Gen.L_KB3E
import Ptx.Gen.Known
import Ptx.Sem.Subset
namespace Ptx.Gen.Obl.KB3E
open Ptx

theorem tables_total : Gen.KB3E.tablesTotalB = true := by decide +kernel
theorem rules_exact : subsetB Gen.KB3E.badRules (Known.badRules "KB3E") = true := by decide +kernel
theorem rules_sound : subsetB Gen.KB3E.unsoundRules (Known.unsoundRules "KB3E") = true := by decide +kernel
theorem rules_total : subsetB Gen.KB3E.missingRules (Known.missingRules "KB3E") = true := by decide +kernel
theorem rules_local : Gen.KB3E.nonLocalRules = [] := by decide +kernel
theorem closure_total : Gen.KB3E.closureTotalB = true := by decide +kernel
theorem closure_exact : subsetB Gen.KB3E.badClosure (Known.badClosure "KB3E") = true := by decide +kernel
theorem read_total : Gen.KB3E.readTotalB = true := by decide +kernel
theorem read_exact : subsetB Gen.KB3E.badRead (Known.badRead "KB3E") = true := by decide +kernel

end Ptx.Gen.Obl.KB3E
