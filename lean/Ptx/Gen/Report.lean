/- Precheck report: computes every bad set of every generated logic, with witnesses, and
   prints them one per line for the Python harness (run: lake env lean --run Ptx/Gen/Report.lean).
   The same functions are what the `decide +kernel` obligations evaluate. -/
import Ptx.Gen.All
open Ptx

def shapeStr : Shape → String
  | .op1 o => o.name | .op2 o => o.name | .quant q => q.name
def desStr : Option Bool → String
  | none => "" | some true => "Designated" | some false => "Undesignated"
def keyStr (k : RuleKey) : String :=
  shapeStr k.shape ++ (if k.negated then "Negated" else "") ++ desStr k.des
def valsStr (vs : List V) : String := String.join (vs.map V.toStr)
def litStr (l : Lit) : String := (if l.negated then "~s" else "s") ++
  (match l.des with | none => "" | some true => "+" | some false => "-")
def litsStr (S : List Lit) : String := "{" ++ ",".intercalate (S.map litStr) ++ "}"

def soundCoreParts (L : LogicData) : List String :=
  (if L.unsoundClosure.isEmpty then [] else ["closure_sound"]) ++ (if L.frameRulesOKB then [] else ["frames"])
  ++ (if L.identOKB then [] else ["ident"]) ++ (if L.trunkOKB then [] else ["trunk"]) ++ (if L.vocabOKB then [] else ["vocab"])

def report (L0 : LogicData) : List String :=
  let n := L0.name
  let L := L0.sem
  (if L0.specDefinedB then [] else [s!"spec_defined {n}"])
  ++ L0.tableDiff.map (fun (w, vs) => s!"tables_spec {n} {w} {valsStr vs}")
  ++ L0.tables.definedOpsBad.map (fun (o, a, b) => s!"defined_ops {n} {o.name} {valsStr [a, b]}")
  ++ (soundCoreParts L).map (fun p => s!"sound_core {n} {p}")
  ++ (if L.tablesTotalB then [] else [s!"tables_total {n}"])
  ++ (L.rules.filter fun (k, r) => !L.ruleExactB k r).map (fun (k, r) =>
      s!"rules_exact {n} {keyStr k} rule={r.name} sound={L.ruleSoundB k r} witnesses=" ++
        "|".intercalate ((L.ruleWitnesses k r).map valsStr))
  ++ L.missingRules.map (fun k => s!"rules_total {n} {keyStr k}")
  ++ L.nonLocalRules.map (fun k => s!"rules_local {n} {keyStr k}")
  ++ (if L.closureTotalB then [] else [s!"closure_total {n}"])
  ++ L.badClosure.map (fun S => s!"closure_exact {n} {litsStr S}")
  ++ (if L.readTotalB then [] else [s!"read_total {n}"])
  ++ L.badRead.map (fun S => s!"read_exact {n} {litsStr S}")

def main : IO Unit := do
  for L in Gen.all do
    for line in report L do
      IO.println line
  IO.println s!"done {Gen.all.length}"
