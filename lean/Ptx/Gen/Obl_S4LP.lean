/- GENERATED: instance obligations for one logic, discharged by kernel evaluation.
   `X ⊆ known`: every failing row is a committed known finding (Ptx/Gen/Known.lean). -/
import Ptx.Gen.L_S4LP
import Ptx.Gen.Known
import Ptx.Sem.Subset
namespace Ptx.Gen.Obl.S4LP
open Ptx

theorem tables_total : Gen.S4LP.tablesTotalB = true := by decide +kernel
theorem rules_exact : subsetB Gen.S4LP.badRules (Known.badRules "S4LP") = true := by decide +kernel
theorem rules_sound : subsetB Gen.S4LP.unsoundRules (Known.unsoundRules "S4LP") = true := by decide +kernel
theorem rules_total : subsetB Gen.S4LP.missingRules (Known.missingRules "S4LP") = true := by decide +kernel
theorem rules_local : Gen.S4LP.nonLocalRules = [] := by decide +kernel
theorem closure_total : Gen.S4LP.closureTotalB = true := by decide +kernel
theorem closure_exact : subsetB Gen.S4LP.badClosure (Known.badClosure "S4LP") = true := by decide +kernel
theorem read_total : Gen.S4LP.readTotalB = true := by decide +kernel
theorem read_exact : subsetB Gen.S4LP.badRead (Known.badRead "S4LP") = true := by decide +kernel

end Ptx.Gen.Obl.S4LP
