/- GENERATED: instance obligations for one logic, discharged by kernel evaluation.
   `X ⊆ known`: every failing row is a committed known finding (Ptx/Gen/Known.lean). -/
import Ptx.Gen.L_MH
import Ptx.Gen.Known
import Ptx.Sem.Subset
namespace Ptx.Gen.Obl.MH
open Ptx

theorem tables_total : Gen.MH.tablesTotalB = true := by decide +kernel
theorem rules_exact : subsetB Gen.MH.badRules (Known.badRules "MH") = true := by decide +kernel
theorem rules_sound : subsetB Gen.MH.unsoundRules (Known.unsoundRules "MH") = true := by decide +kernel
theorem rules_total : subsetB Gen.MH.missingRules (Known.missingRules "MH") = true := by decide +kernel
theorem rules_local : Gen.MH.nonLocalRules = [] := by decide +kernel
theorem closure_total : Gen.MH.closureTotalB = true := by decide +kernel
theorem closure_exact : subsetB Gen.MH.badClosure (Known.badClosure "MH") = true := by decide +kernel
theorem read_total : Gen.MH.readTotalB = true := by decide +kernel
theorem read_exact : subsetB Gen.MH.badRead (Known.badRead "MH") = true := by decide +kernel

end Ptx.Gen.Obl.MH
