/- GENERATED: instance obligations for one logic, discharged by kernel evaluation.
   `S` = the logic with its DOCUMENTED tables (Ptx/Sem/Spec.lean); rules, closure, trunk and frames
   are what the translator read off the code.  `X ⊆ known`: every failing row is a committed
   known finding (Ptx/Gen/Known.lean, generated from known_findings.json). -/
import Ptx.Gen.L_MH
import Ptx.Gen.Known
import Ptx.Sem.Subset
import Ptx.Props.C03
namespace Ptx.Gen.Obl.MH
open Ptx

/-- a modal / first-order extension has exactly the truth-functional tables of its base (MH) -/
theorem base_tables : Gen.MH.tables.sameTF Gen.MH.tables = true := by decide +kernel
theorem spec_defined : Gen.MH.specDefinedB = true := by decide +kernel
theorem tables_spec : subsetB Gen.MH.tableDiff (Known.tableDiff "MH") = true := by decide +kernel
theorem defined_ops : Gen.MH.tables.definedOpsBad = [] := by decide +kernel
theorem tables_total : Gen.MH.sem.tablesTotalB = true := by decide +kernel
theorem rules_exact : subsetB Gen.MH.sem.badRules (Known.badRules "MH") = true := by decide +kernel
theorem rules_sound : subsetB Gen.MH.sem.unsoundRules (Known.unsoundRules "MH") = true := by decide +kernel
theorem rules_total : subsetB Gen.MH.sem.missingRules (Known.missingRules "MH") = true := by decide +kernel
theorem rules_local : Gen.MH.sem.nonLocalRules = [] := by decide +kernel
theorem closure_total : Gen.MH.sem.closureTotalB = true := by decide +kernel
theorem closure_exact : subsetB Gen.MH.sem.badClosure (Known.badClosure "MH") = true := by decide +kernel
theorem read_total : Gen.MH.sem.readTotalB = true := by decide +kernel
theorem read_exact : subsetB Gen.MH.sem.badRead (Known.badRead "MH") = true := by decide +kernel
theorem sound_core : Gen.MH.sem.soundCoreB = true := by decide +kernel

/-- C01 for this logic: a closed tableau reached by any legal derivation has no countermodel. -/
theorem c01_valid_sound (arg : Argument) (t : Tableau)
    (hd : Deriv Gen.MH.sem.soundPart (trunk Gen.MH.sem arg) t) (hclosed : t.allClosed = true)
    (M : Struct) (hM : M.Interp Gen.MH.sem) (e : Env M.D) (w0 : M.W) : ¬ Countermodel Gen.MH.sem M e w0 arg :=
  Props.C01.C01_valid_sound Gen.MH.sem sound_core arg t hd hclosed M hM e w0

/-- C03 (soundness half) for this logic: a closed tableau of a propositional argument is truth-table valid. -/
theorem c03_closed_tt (arg : Argument) (hp : arg.isProp = true) (t : Tableau)
    (hd : Deriv Gen.MH.sem.soundPart (trunk Gen.MH.sem arg) t) (hclosed : t.allClosed = true) : ttValid Gen.MH.sem.T arg = true :=
  Props.C03.C03_closed_implies_ttValid Gen.MH.sem sound_core (by decide +kernel) arg hp t hd hclosed

end Ptx.Gen.Obl.MH
