/- GENERATED: instance obligations for one logic, discharged by kernel evaluation.
   `X ⊆ known`: every failing row is a committed known finding (Ptx/Gen/Known.lean). -/
import Ptx.Gen.L_TK3WQ
import Ptx.Gen.Known
import Ptx.Sem.Subset
namespace Ptx.Gen.Obl.TK3WQ
open Ptx

theorem tables_total : Gen.TK3WQ.tablesTotalB = true := by decide +kernel
theorem rules_exact : subsetB Gen.TK3WQ.badRules (Known.badRules "TK3WQ") = true := by decide +kernel
theorem rules_sound : subsetB Gen.TK3WQ.unsoundRules (Known.unsoundRules "TK3WQ") = true := by decide +kernel
theorem rules_total : subsetB Gen.TK3WQ.missingRules (Known.missingRules "TK3WQ") = true := by decide +kernel
theorem rules_local : Gen.TK3WQ.nonLocalRules = [] := by decide +kernel
theorem closure_total : Gen.TK3WQ.closureTotalB = true := by decide +kernel
theorem closure_exact : subsetB Gen.TK3WQ.badClosure (Known.badClosure "TK3WQ") = true := by decide +kernel
theorem read_total : Gen.TK3WQ.readTotalB = true := by decide +kernel
theorem read_exact : subsetB Gen.TK3WQ.badRead (Known.badRead "TK3WQ") = true := by decide +kernel

end Ptx.Gen.Obl.TK3WQ
