/- GENERATED: instance obligations for one logic, discharged by kernel evaluation.
   `S` = the logic with its DOCUMENTED tables (Ptx/Sem/Spec.lean); rules, closure, trunk and frames
   are what the translator read off the code.  `X ⊆ known`: every failing row is a committed
   known finding (Ptx/Gen/Known.lean, generated from known_findings.json). -/
import Ptx.Gen.L_TK3WQ
import Ptx.Gen.Known
import Ptx.Sem.Subset
import Ptx.Props.C03
import Ptx.Gen.L_K3WQ
namespace Ptx.Gen.Obl.TK3WQ
open Ptx

/-- a modal / first-order extension has exactly the truth-functional tables of its base (K3WQ) -/
theorem base_tables : Gen.TK3WQ.tables.sameTF Gen.K3WQ.tables = true := by decide +kernel
theorem spec_defined : Gen.TK3WQ.specDefinedB = true := by decide +kernel
theorem tables_spec : subsetB Gen.TK3WQ.tableDiff (Known.tableDiff "TK3WQ") = true := by decide +kernel
theorem defined_ops : Gen.TK3WQ.tables.definedOpsBad = [] := by decide +kernel
theorem tables_total : Gen.TK3WQ.sem.tablesTotalB = true := by decide +kernel
theorem rules_exact : subsetB Gen.TK3WQ.sem.badRules (Known.badRules "TK3WQ") = true := by decide +kernel
theorem rules_sound : subsetB Gen.TK3WQ.sem.unsoundRules (Known.unsoundRules "TK3WQ") = true := by decide +kernel
theorem rules_total : subsetB Gen.TK3WQ.sem.missingRules (Known.missingRules "TK3WQ") = true := by decide +kernel
theorem rules_local : Gen.TK3WQ.sem.nonLocalRules = [] := by decide +kernel
theorem closure_total : Gen.TK3WQ.sem.closureTotalB = true := by decide +kernel
theorem closure_exact : subsetB Gen.TK3WQ.sem.badClosure (Known.badClosure "TK3WQ") = true := by decide +kernel
theorem read_total : Gen.TK3WQ.sem.readTotalB = true := by decide +kernel
theorem read_exact : subsetB Gen.TK3WQ.sem.badRead (Known.badRead "TK3WQ") = true := by decide +kernel
theorem sound_core : Gen.TK3WQ.sem.soundCoreB = true := by decide +kernel

/-- C01 for this logic: a closed tableau reached by any legal derivation has no countermodel. -/
theorem c01_valid_sound (arg : Argument) (t : Tableau)
    (hd : Deriv Gen.TK3WQ.sem.soundPart (trunk Gen.TK3WQ.sem arg) t) (hclosed : t.allClosed = true)
    (M : Struct) (hM : M.Interp Gen.TK3WQ.sem) (e : Env M.D) (w0 : M.W) : ¬ Countermodel Gen.TK3WQ.sem M e w0 arg :=
  Props.C01.C01_valid_sound Gen.TK3WQ.sem sound_core arg t hd hclosed M hM e w0

/-- C03 (soundness half) for this logic: a closed tableau of a propositional argument is truth-table valid. -/
theorem c03_closed_tt (arg : Argument) (hp : arg.isProp = true) (t : Tableau)
    (hd : Deriv Gen.TK3WQ.sem.soundPart (trunk Gen.TK3WQ.sem arg) t) (hclosed : t.allClosed = true) : ttValid Gen.TK3WQ.sem.T arg = true :=
  Props.C03.C03_closed_implies_ttValid Gen.TK3WQ.sem sound_core (by decide +kernel) arg hp t hd hclosed

end Ptx.Gen.Obl.TK3WQ
