/- GENERATED: instance obligations for one logic, discharged by kernel evaluation.
   `X ⊆ known`: every failing row is a committed known finding (Ptx/Gen/Known.lean). -/
import Ptx.Gen.L_G3
import Ptx.Gen.Known
import Ptx.Sem.Subset
namespace Ptx.Gen.Obl.G3
open Ptx

theorem tables_total : Gen.G3.tablesTotalB = true := by decide +kernel
theorem rules_exact : subsetB Gen.G3.badRules (Known.badRules "G3") = true := by decide +kernel
theorem rules_sound : subsetB Gen.G3.unsoundRules (Known.unsoundRules "G3") = true := by decide +kernel
theorem rules_total : subsetB Gen.G3.missingRules (Known.missingRules "G3") = true := by decide +kernel
theorem rules_local : Gen.G3.nonLocalRules = [] := by decide +kernel
theorem closure_total : Gen.G3.closureTotalB = true := by decide +kernel
theorem closure_exact : subsetB Gen.G3.badClosure (Known.badClosure "G3") = true := by decide +kernel
theorem read_total : Gen.G3.readTotalB = true := by decide +kernel
theorem read_exact : subsetB Gen.G3.badRead (Known.badRead "G3") = true := by decide +kernel

end Ptx.Gen.Obl.G3
