/- GENERATED: instance obligations for one logic, discharged by kernel evaluation.
   `S` = the logic with its DOCUMENTED tables (Ptx/Sem/Spec.lean); rules, closure, trunk and frames
   are what the translator read off the code.  `X ⊆ known`: every failing row is a committed
   known finding (Ptx/Gen/Known.lean, generated from known_findings.json). -/
import Ptx.Gen.L_S4K3W
import Ptx.Gen.Known
import Ptx.Sem.Subset
import Ptx.Props.C03
import Ptx.Gen.L_K3W
namespace Ptx.Gen.Obl.S4K3W
open Ptx

/-- a modal / first-order extension has exactly the truth-functional tables of its base (K3W) -/
theorem base_tables : Gen.S4K3W.tables.sameTF Gen.K3W.tables = true := by decide +kernel
theorem spec_defined : Gen.S4K3W.specDefinedB = true := by decide +kernel
theorem tables_spec : subsetB Gen.S4K3W.tableDiff (Known.tableDiff "S4K3W") = true := by decide +kernel
theorem defined_ops : Gen.S4K3W.tables.definedOpsBad = [] := by decide +kernel
theorem tables_total : Gen.S4K3W.sem.tablesTotalB = true := by decide +kernel
theorem rules_exact : subsetB Gen.S4K3W.sem.badRules (Known.badRules "S4K3W") = true := by decide +kernel
theorem rules_sound : subsetB Gen.S4K3W.sem.unsoundRules (Known.unsoundRules "S4K3W") = true := by decide +kernel
theorem rules_total : subsetB Gen.S4K3W.sem.missingRules (Known.missingRules "S4K3W") = true := by decide +kernel
theorem rules_local : Gen.S4K3W.sem.nonLocalRules = [] := by decide +kernel
theorem closure_total : Gen.S4K3W.sem.closureTotalB = true := by decide +kernel
theorem closure_exact : subsetB Gen.S4K3W.sem.badClosure (Known.badClosure "S4K3W") = true := by decide +kernel
theorem read_total : Gen.S4K3W.sem.readTotalB = true := by decide +kernel
theorem read_exact : subsetB Gen.S4K3W.sem.badRead (Known.badRead "S4K3W") = true := by decide +kernel
theorem sound_core : Gen.S4K3W.sem.soundCoreB = true := by decide +kernel

/-- C01 for this logic: a closed tableau reached by any legal derivation has no countermodel. -/
theorem c01_valid_sound (arg : Argument) (t : Tableau)
    (hd : Deriv Gen.S4K3W.sem.soundPart (trunk Gen.S4K3W.sem arg) t) (hclosed : t.allClosed = true)
    (M : Struct) (hM : M.Interp Gen.S4K3W.sem) (e : Env M.D) (w0 : M.W) : ¬ Countermodel Gen.S4K3W.sem M e w0 arg :=
  Props.C01.C01_valid_sound Gen.S4K3W.sem sound_core arg t hd hclosed M hM e w0

/-- C03 (soundness half) for this logic: a closed tableau of a propositional argument is truth-table valid. -/
theorem c03_closed_tt (arg : Argument) (hp : arg.isProp = true) (t : Tableau)
    (hd : Deriv Gen.S4K3W.sem.soundPart (trunk Gen.S4K3W.sem arg) t) (hclosed : t.allClosed = true) : ttValid Gen.S4K3W.sem.T arg = true :=
  Props.C03.C03_closed_implies_ttValid Gen.S4K3W.sem sound_core (by decide +kernel) arg hp t hd hclosed

end Ptx.Gen.Obl.S4K3W
