/- GENERATED: instance obligations for one logic, discharged by kernel evaluation.
   `X ⊆ known`: every failing row is a committed known finding (Ptx/Gen/Known.lean). -/
import Ptx.Gen.L_S4K3W
import Ptx.Gen.Known
import Ptx.Sem.Subset
namespace Ptx.Gen.Obl.S4K3W
open Ptx

theorem tables_total : Gen.S4K3W.tablesTotalB = true := by decide +kernel
theorem rules_exact : subsetB Gen.S4K3W.badRules (Known.badRules "S4K3W") = true := by decide +kernel
theorem rules_sound : subsetB Gen.S4K3W.unsoundRules (Known.unsoundRules "S4K3W") = true := by decide +kernel
theorem rules_total : subsetB Gen.S4K3W.missingRules (Known.missingRules "S4K3W") = true := by decide +kernel
theorem rules_local : Gen.S4K3W.nonLocalRules = [] := by decide +kernel
theorem closure_total : Gen.S4K3W.closureTotalB = true := by decide +kernel
theorem closure_exact : subsetB Gen.S4K3W.badClosure (Known.badClosure "S4K3W") = true := by decide +kernel
theorem read_total : Gen.S4K3W.readTotalB = true := by decide +kernel
theorem read_exact : subsetB Gen.S4K3W.badRead (Known.badRead "S4K3W") = true := by decide +kernel

end Ptx.Gen.Obl.S4K3W
