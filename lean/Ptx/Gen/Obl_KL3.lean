/- GENERATED: instance obligations for one logic, discharged by kernel evaluation.
   `X ⊆ known`: every failing row is a committed known finding (Ptx/Gen/Known.lean). -/
import Ptx.Gen.L_KL3
import Ptx.Gen.Known
import Ptx.Sem.Subset
namespace Ptx.Gen.Obl.KL3
open Ptx

theorem tables_total : Gen.KL3.tablesTotalB = true := by decide +kernel
theorem rules_exact : subsetB Gen.KL3.badRules (Known.badRules "KL3") = true := by decide +kernel
theorem rules_sound : subsetB Gen.KL3.unsoundRules (Known.unsoundRules "KL3") = true := by decide +kernel
theorem rules_total : subsetB Gen.KL3.missingRules (Known.missingRules "KL3") = true := by decide +kernel
theorem rules_local : Gen.KL3.nonLocalRules = [] := by decide +kernel
theorem closure_total : Gen.KL3.closureTotalB = true := by decide +kernel
theorem closure_exact : subsetB Gen.KL3.badClosure (Known.badClosure "KL3") = true := by decide +kernel
theorem read_total : Gen.KL3.readTotalB = true := by decide +kernel
theorem read_exact : subsetB Gen.KL3.badRead (Known.badRead "KL3") = true := by decide +kernel

end Ptx.Gen.Obl.KL3
