/- GENERATED: instance obligations for one logic, discharged by kernel evaluation.
   `S` = the logic with its DOCUMENTED tables (Ptx/Sem/Spec.lean); rules, closure, trunk and frames
   are what the translator read off the code.  `X ⊆ known`: every failing row is a committed
   known finding (Ptx/Gen/Known.lean, generated from known_findings.json). -/
import Ptx.Gen.L_KL3
import Ptx.Gen.Known
import Ptx.Sem.Subset
import Ptx.Props.C03
import Ptx.Gen.L_L3
namespace Ptx.Gen.Obl.KL3
open Ptx

/-- a modal / first-order extension has exactly the truth-functional tables of its base (L3) -/
theorem base_tables : Gen.KL3.tables.sameTF Gen.L3.tables = true := by decide +kernel
theorem spec_defined : Gen.KL3.specDefinedB = true := by decide +kernel
theorem tables_spec : subsetB Gen.KL3.tableDiff (Known.tableDiff "KL3") = true := by decide +kernel
theorem defined_ops : Gen.KL3.tables.definedOpsBad = [] := by decide +kernel
theorem tables_total : Gen.KL3.sem.tablesTotalB = true := by decide +kernel
theorem rules_exact : subsetB Gen.KL3.sem.badRules (Known.badRules "KL3") = true := by decide +kernel
theorem rules_sound : subsetB Gen.KL3.sem.unsoundRules (Known.unsoundRules "KL3") = true := by decide +kernel
theorem rules_total : subsetB Gen.KL3.sem.missingRules (Known.missingRules "KL3") = true := by decide +kernel
theorem rules_local : Gen.KL3.sem.nonLocalRules = [] := by decide +kernel
theorem closure_total : Gen.KL3.sem.closureTotalB = true := by decide +kernel
theorem closure_exact : subsetB Gen.KL3.sem.badClosure (Known.badClosure "KL3") = true := by decide +kernel
theorem read_total : Gen.KL3.sem.readTotalB = true := by decide +kernel
theorem read_exact : subsetB Gen.KL3.sem.badRead (Known.badRead "KL3") = true := by decide +kernel
theorem sound_core : Gen.KL3.sem.soundCoreB = true := by decide +kernel

/-- C01 for this logic: a closed tableau reached by any legal derivation has no countermodel. -/
theorem c01_valid_sound (arg : Argument) (t : Tableau)
    (hd : Deriv Gen.KL3.sem.soundPart (trunk Gen.KL3.sem arg) t) (hclosed : t.allClosed = true)
    (M : Struct) (hM : M.Interp Gen.KL3.sem) (e : Env M.D) (w0 : M.W) : ¬ Countermodel Gen.KL3.sem M e w0 arg :=
  Props.C01.C01_valid_sound Gen.KL3.sem sound_core arg t hd hclosed M hM e w0

/-- C03 (soundness half) for this logic: a closed tableau of a propositional argument is truth-table valid. -/
theorem c03_closed_tt (arg : Argument) (hp : arg.isProp = true) (t : Tableau)
    (hd : Deriv Gen.KL3.sem.soundPart (trunk Gen.KL3.sem arg) t) (hclosed : t.allClosed = true) : ttValid Gen.KL3.sem.T arg = true :=
  Props.C03.C03_closed_implies_ttValid Gen.KL3.sem sound_core (by decide +kernel) arg hp t hd hclosed

end Ptx.Gen.Obl.KL3
