/- GENERATED: instance obligations for one logic, discharged by kernel evaluation.
   `S` = the logic with its DOCUMENTED tables (Ptx/Sem/Spec.lean); rules, closure, trunk and frames
   are what the translator read off the code.  `X ⊆ known`: every failing row is a committed
   known finding (Ptx/Gen/Known.lean, generated from known_findings.json). -/
import Ptx.Gen.L_RM3
import Ptx.Gen.Known
import Ptx.Sem.Subset
import Ptx.Props.C03
namespace Ptx.Gen.Obl.RM3
open Ptx

/-- a modal / first-order extension has exactly the truth-functional tables of its base (RM3) -/
theorem base_tables : Gen.RM3.tables.sameTF Gen.RM3.tables = true := by decide +kernel
theorem spec_defined : Gen.RM3.specDefinedB = true := by decide +kernel
theorem tables_spec : subsetB Gen.RM3.tableDiff (Known.tableDiff "RM3") = true := by decide +kernel
theorem defined_ops : Gen.RM3.tables.definedOpsBad = [] := by decide +kernel
theorem tables_total : Gen.RM3.sem.tablesTotalB = true := by decide +kernel
theorem rules_exact : subsetB Gen.RM3.sem.badRules (Known.badRules "RM3") = true := by decide +kernel
theorem rules_sound : subsetB Gen.RM3.sem.unsoundRules (Known.unsoundRules "RM3") = true := by decide +kernel
theorem rules_total : subsetB Gen.RM3.sem.missingRules (Known.missingRules "RM3") = true := by decide +kernel
theorem rules_local : Gen.RM3.sem.nonLocalRules = [] := by decide +kernel
theorem closure_total : Gen.RM3.sem.closureTotalB = true := by decide +kernel
theorem closure_exact : subsetB Gen.RM3.sem.badClosure (Known.badClosure "RM3") = true := by decide +kernel
theorem read_total : Gen.RM3.sem.readTotalB = true := by decide +kernel
theorem read_exact : subsetB Gen.RM3.sem.badRead (Known.badRead "RM3") = true := by decide +kernel
theorem sound_core : Gen.RM3.sem.soundCoreB = true := by decide +kernel

/-- C01 for this logic: a closed tableau reached by any legal derivation has no countermodel. -/
theorem c01_valid_sound (arg : Argument) (t : Tableau)
    (hd : Deriv Gen.RM3.sem.soundPart (trunk Gen.RM3.sem arg) t) (hclosed : t.allClosed = true)
    (M : Struct) (hM : M.Interp Gen.RM3.sem) (e : Env M.D) (w0 : M.W) : ¬ Countermodel Gen.RM3.sem M e w0 arg :=
  Props.C01.C01_valid_sound Gen.RM3.sem sound_core arg t hd hclosed M hM e w0

/-- C03 (soundness half) for this logic: a closed tableau of a propositional argument is truth-table valid. -/
theorem c03_closed_tt (arg : Argument) (hp : arg.isProp = true) (t : Tableau)
    (hd : Deriv Gen.RM3.sem.soundPart (trunk Gen.RM3.sem arg) t) (hclosed : t.allClosed = true) : ttValid Gen.RM3.sem.T arg = true :=
  Props.C03.C03_closed_implies_ttValid Gen.RM3.sem sound_core (by decide +kernel) arg hp t hd hclosed

end Ptx.Gen.Obl.RM3
