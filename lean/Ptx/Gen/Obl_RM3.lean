/- GENERATED: instance obligations for one logic, discharged by kernel evaluation.
   `X ⊆ known`: every failing row is a committed known finding (Ptx/Gen/Known.lean). -/
import Ptx.Gen.L_RM3
import Ptx.Gen.Known
import Ptx.Sem.Subset
namespace Ptx.Gen.Obl.RM3
open Ptx

theorem tables_total : Gen.RM3.tablesTotalB = true := by decide +kernel
theorem rules_exact : subsetB Gen.RM3.badRules (Known.badRules "RM3") = true := by decide +kernel
theorem rules_sound : subsetB Gen.RM3.unsoundRules (Known.unsoundRules "RM3") = true := by decide +kernel
theorem rules_total : subsetB Gen.RM3.missingRules (Known.missingRules "RM3") = true := by decide +kernel
theorem rules_local : Gen.RM3.nonLocalRules = [] := by decide +kernel
theorem closure_total : Gen.RM3.closureTotalB = true := by decide +kernel
theorem closure_exact : subsetB Gen.RM3.badClosure (Known.badClosure "RM3") = true := by decide +kernel
theorem read_total : Gen.RM3.readTotalB = true := by decide +kernel
theorem read_exact : subsetB Gen.RM3.badRead (Known.badRead "RM3") = true := by decide +kernel

end Ptx.Gen.Obl.RM3
