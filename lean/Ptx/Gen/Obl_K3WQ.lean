/- GENERATED: instance obligations for one logic, discharged by kernel evaluation.
   `X ⊆ known`: every failing row is a committed known finding (Ptx/Gen/Known.lean). -/
import Ptx.Gen.L_K3WQ
import Ptx.Gen.Known
import Ptx.Sem.Subset
namespace Ptx.Gen.Obl.K3WQ
open Ptx

theorem tables_total : Gen.K3WQ.tablesTotalB = true := by decide +kernel
theorem rules_exact : subsetB Gen.K3WQ.badRules (Known.badRules "K3WQ") = true := by decide +kernel
theorem rules_sound : subsetB Gen.K3WQ.unsoundRules (Known.unsoundRules "K3WQ") = true := by decide +kernel
theorem rules_total : subsetB Gen.K3WQ.missingRules (Known.missingRules "K3WQ") = true := by decide +kernel
theorem rules_local : Gen.K3WQ.nonLocalRules = [] := by decide +kernel
theorem closure_total : Gen.K3WQ.closureTotalB = true := by decide +kernel
theorem closure_exact : subsetB Gen.K3WQ.badClosure (Known.badClosure "K3WQ") = true := by decide +kernel
theorem read_total : Gen.K3WQ.readTotalB = true := by decide +kernel
theorem read_exact : subsetB Gen.K3WQ.badRead (Known.badRead "K3WQ") = true := by decide +kernel

end Ptx.Gen.Obl.K3WQ
