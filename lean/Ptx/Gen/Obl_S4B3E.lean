/- GENERATED: instance obligations for one logic, discharged by kernel evaluation.
   `X ⊆ known`: every failing row is a committed known finding (Ptx/Gen/Known.lean). -/
import Ptx.Gen.L_S4B3E
import Ptx.Gen.Known
import Ptx.Sem.Subset
namespace Ptx.Gen.Obl.S4B3E
open Ptx

theorem tables_total : Gen.S4B3E.tablesTotalB = true := by decide +kernel
theorem rules_exact : subsetB Gen.S4B3E.badRules (Known.badRules "S4B3E") = true := by decide +kernel
theorem rules_sound : subsetB Gen.S4B3E.unsoundRules (Known.unsoundRules "S4B3E") = true := by decide +kernel
theorem rules_total : subsetB Gen.S4B3E.missingRules (Known.missingRules "S4B3E") = true := by decide +kernel
theorem rules_local : Gen.S4B3E.nonLocalRules = [] := by decide +kernel
theorem closure_total : Gen.S4B3E.closureTotalB = true := by decide +kernel
theorem closure_exact : subsetB Gen.S4B3E.badClosure (Known.badClosure "S4B3E") = true := by decide +kernel
theorem read_total : Gen.S4B3E.readTotalB = true := by decide +kernel
theorem read_exact : subsetB Gen.S4B3E.badRead (Known.badRead "S4B3E") = true := by decide +kernel

end Ptx.Gen.Obl.S4B3E
