/- GENERATED: instance obligations for one logic, discharged by kernel evaluation.
   `X ⊆ known`: every failing row is a committed known finding (Ptx/Gen/Known.lean). -/
import Ptx.Gen.L_TK3
import Ptx.Gen.Known
import Ptx.Sem.Subset
namespace Ptx.Gen.Obl.TK3
open Ptx

theorem tables_total : Gen.TK3.tablesTotalB = true := by decide +kernel
theorem rules_exact : subsetB Gen.TK3.badRules (Known.badRules "TK3") = true := by decide +kernel
theorem rules_sound : subsetB Gen.TK3.unsoundRules (Known.unsoundRules "TK3") = true := by decide +kernel
theorem rules_total : subsetB Gen.TK3.missingRules (Known.missingRules "TK3") = true := by decide +kernel
theorem rules_local : Gen.TK3.nonLocalRules = [] := by decide +kernel
theorem closure_total : Gen.TK3.closureTotalB = true := by decide +kernel
theorem closure_exact : subsetB Gen.TK3.badClosure (Known.badClosure "TK3") = true := by decide +kernel
theorem read_total : Gen.TK3.readTotalB = true := by decide +kernel
theorem read_exact : subsetB Gen.TK3.badRead (Known.badRead "TK3") = true := by decide +kernel

end Ptx.Gen.Obl.TK3
