/- GENERATED: instance obligations for one logic, discharged by kernel evaluation.
   `X ⊆ known`: every failing row is a committed known finding (Ptx/Gen/Known.lean). -/
import Ptx.Gen.L_S5
import Ptx.Gen.Known
import Ptx.Sem.Subset
namespace Ptx.Gen.Obl.S5
open Ptx

theorem tables_total : Gen.S5.tablesTotalB = true := by decide +kernel
theorem rules_exact : subsetB Gen.S5.badRules (Known.badRules "S5") = true := by decide +kernel
theorem rules_sound : subsetB Gen.S5.unsoundRules (Known.unsoundRules "S5") = true := by decide +kernel
theorem rules_total : subsetB Gen.S5.missingRules (Known.missingRules "S5") = true := by decide +kernel
theorem rules_local : Gen.S5.nonLocalRules = [] := by decide +kernel
theorem closure_total : Gen.S5.closureTotalB = true := by decide +kernel
theorem closure_exact : subsetB Gen.S5.badClosure (Known.badClosure "S5") = true := by decide +kernel
theorem read_total : Gen.S5.readTotalB = true := by decide +kernel
theorem read_exact : subsetB Gen.S5.badRead (Known.badRead "S5") = true := by decide +kernel

end Ptx.Gen.Obl.S5
