/- GENERATED: instance obligations for one logic, discharged by kernel evaluation.
   `S` = the logic with its DOCUMENTED tables (Ptx/Sem/Spec.lean); rules, closure, trunk and frames
   are what the translator read off the code.  `X ⊆ known`: every failing row is a committed
   known finding (Ptx/Gen/Known.lean, generated from known_findings.json). -/
import Ptx.Gen.L_S5
import Ptx.Gen.Known
import Ptx.Sem.Subset
import Ptx.Props.C03
import Ptx.Gen.L_CFOL
namespace Ptx.Gen.Obl.S5
open Ptx

/-- a modal / first-order extension has exactly the truth-functional tables of its base (CFOL) -/
theorem base_tables : Gen.S5.tables.sameTF Gen.CFOL.tables = true := by decide +kernel
theorem spec_defined : Gen.S5.specDefinedB = true := by decide +kernel
theorem tables_spec : subsetB Gen.S5.tableDiff (Known.tableDiff "S5") = true := by decide +kernel
theorem defined_ops : Gen.S5.tables.definedOpsBad = [] := by decide +kernel
theorem tables_total : Gen.S5.sem.tablesTotalB = true := by decide +kernel
theorem rules_exact : subsetB Gen.S5.sem.badRules (Known.badRules "S5") = true := by decide +kernel
theorem rules_sound : subsetB Gen.S5.sem.unsoundRules (Known.unsoundRules "S5") = true := by decide +kernel
theorem rules_total : subsetB Gen.S5.sem.missingRules (Known.missingRules "S5") = true := by decide +kernel
theorem rules_local : Gen.S5.sem.nonLocalRules = [] := by decide +kernel
theorem closure_total : Gen.S5.sem.closureTotalB = true := by decide +kernel
theorem closure_exact : subsetB Gen.S5.sem.badClosure (Known.badClosure "S5") = true := by decide +kernel
theorem read_total : Gen.S5.sem.readTotalB = true := by decide +kernel
theorem read_exact : subsetB Gen.S5.sem.badRead (Known.badRead "S5") = true := by decide +kernel
theorem sound_core : Gen.S5.sem.soundCoreB = true := by decide +kernel

/-- C01 for this logic: a closed tableau reached by any legal derivation has no countermodel. -/
theorem c01_valid_sound (arg : Argument) (t : Tableau)
    (hd : Deriv Gen.S5.sem.soundPart (trunk Gen.S5.sem arg) t) (hclosed : t.allClosed = true)
    (M : Struct) (hM : M.Interp Gen.S5.sem) (e : Env M.D) (w0 : M.W) : ¬ Countermodel Gen.S5.sem M e w0 arg :=
  Props.C01.C01_valid_sound Gen.S5.sem sound_core arg t hd hclosed M hM e w0

/-- C03 (soundness half) for this logic: a closed tableau of a propositional argument is truth-table valid. -/
theorem c03_closed_tt (arg : Argument) (hp : arg.isProp = true) (t : Tableau)
    (hd : Deriv Gen.S5.sem.soundPart (trunk Gen.S5.sem arg) t) (hclosed : t.allClosed = true) : ttValid Gen.S5.sem.T arg = true :=
  Props.C03.C03_closed_implies_ttValid Gen.S5.sem sound_core (by decide +kernel) arg hp t hd hclosed

end Ptx.Gen.Obl.S5
