/- GENERATED: instance obligations for one logic, discharged by kernel evaluation.
   `X ⊆ known`: every failing row is a committed known finding (Ptx/Gen/Known.lean). -/
import Ptx.Gen.L_K3
import Ptx.Gen.Known
import Ptx.Sem.Subset
namespace Ptx.Gen.Obl.K3
open Ptx

theorem tables_total : Gen.K3.tablesTotalB = true := by decide +kernel
theorem rules_exact : subsetB Gen.K3.badRules (Known.badRules "K3") = true := by decide +kernel
theorem rules_sound : subsetB Gen.K3.unsoundRules (Known.unsoundRules "K3") = true := by decide +kernel
theorem rules_total : subsetB Gen.K3.missingRules (Known.missingRules "K3") = true := by decide +kernel
theorem rules_local : Gen.K3.nonLocalRules = [] := by decide +kernel
theorem closure_total : Gen.K3.closureTotalB = true := by decide +kernel
theorem closure_exact : subsetB Gen.K3.badClosure (Known.badClosure "K3") = true := by decide +kernel
theorem read_total : Gen.K3.readTotalB = true := by decide +kernel
theorem read_exact : subsetB Gen.K3.badRead (Known.badRead "K3") = true := by decide +kernel

end Ptx.Gen.Obl.K3
