/- GENERATED: instance obligations for one logic, discharged by kernel evaluation.
   `X ⊆ known`: every failing row is a committed known finding (Ptx/Gen/Known.lean). -/
import Ptx.Gen.L_S4K3
import Ptx.Gen.Known
import Ptx.Sem.Subset
namespace Ptx.Gen.Obl.S4K3
open Ptx

theorem tables_total : Gen.S4K3.tablesTotalB = true := by decide +kernel
theorem rules_exact : subsetB Gen.S4K3.badRules (Known.badRules "S4K3") = true := by decide +kernel
theorem rules_sound : subsetB Gen.S4K3.unsoundRules (Known.unsoundRules "S4K3") = true := by decide +kernel
theorem rules_total : subsetB Gen.S4K3.missingRules (Known.missingRules "S4K3") = true := by decide +kernel
theorem rules_local : Gen.S4K3.nonLocalRules = [] := by decide +kernel
theorem closure_total : Gen.S4K3.closureTotalB = true := by decide +kernel
theorem closure_exact : subsetB Gen.S4K3.badClosure (Known.badClosure "S4K3") = true := by decide +kernel
theorem read_total : Gen.S4K3.readTotalB = true := by decide +kernel
theorem read_exact : subsetB Gen.S4K3.badRead (Known.badRead "S4K3") = true := by decide +kernel

end Ptx.Gen.Obl.S4K3
