/- GENERATED: instance obligations for one logic, discharged by kernel evaluation.
   `X ⊆ known`: every failing row is a committed known finding (Ptx/Gen/Known.lean). -/
import Ptx.Gen.L_S5FDE
import Ptx.Gen.Known
import Ptx.Sem.Subset
namespace Ptx.Gen.Obl.S5FDE
open Ptx

theorem tables_total : Gen.S5FDE.tablesTotalB = true := by decide +kernel
theorem rules_exact : subsetB Gen.S5FDE.badRules (Known.badRules "S5FDE") = true := by decide +kernel
theorem rules_sound : subsetB Gen.S5FDE.unsoundRules (Known.unsoundRules "S5FDE") = true := by decide +kernel
theorem rules_total : subsetB Gen.S5FDE.missingRules (Known.missingRules "S5FDE") = true := by decide +kernel
theorem rules_local : Gen.S5FDE.nonLocalRules = [] := by decide +kernel
theorem closure_total : Gen.S5FDE.closureTotalB = true := by decide +kernel
theorem closure_exact : subsetB Gen.S5FDE.badClosure (Known.badClosure "S5FDE") = true := by decide +kernel
theorem read_total : Gen.S5FDE.readTotalB = true := by decide +kernel
theorem read_exact : subsetB Gen.S5FDE.badRead (Known.badRead "S5FDE") = true := by decide +kernel

end Ptx.Gen.Obl.S5FDE
