/- GENERATED: instance obligations for one logic, discharged by kernel evaluation.
   `S` = the logic with its DOCUMENTED tables (Ptx/Sem/Spec.lean); rules, closure, trunk and frames
   are what the translator read off the code.  `X ⊆ known`: every failing row is a committed
   known finding (Ptx/Gen/Known.lean, generated from known_findings.json). -/
import Ptx.Gen.L_TFDE
import Ptx.Gen.Known
import Ptx.Sem.Subset
import Ptx.Props.C03
import Ptx.Gen.L_FDE
namespace Ptx.Gen.Obl.TFDE
open Ptx

/-- a modal / first-order extension has exactly the truth-functional tables of its base (FDE) -/
theorem base_tables : Gen.TFDE.tables.sameTF Gen.FDE.tables = true := by decide +kernel
theorem spec_defined : Gen.TFDE.specDefinedB = true := by decide +kernel
theorem tables_spec : subsetB Gen.TFDE.tableDiff (Known.tableDiff "TFDE") = true := by decide +kernel
theorem defined_ops : Gen.TFDE.tables.definedOpsBad = [] := by decide +kernel
theorem tables_total : Gen.TFDE.sem.tablesTotalB = true := by decide +kernel
theorem rules_exact : subsetB Gen.TFDE.sem.badRules (Known.badRules "TFDE") = true := by decide +kernel
theorem rules_sound : subsetB Gen.TFDE.sem.unsoundRules (Known.unsoundRules "TFDE") = true := by decide +kernel
theorem rules_total : subsetB Gen.TFDE.sem.missingRules (Known.missingRules "TFDE") = true := by decide +kernel
theorem rules_local : Gen.TFDE.sem.nonLocalRules = [] := by decide +kernel
theorem closure_total : Gen.TFDE.sem.closureTotalB = true := by decide +kernel
theorem closure_exact : subsetB Gen.TFDE.sem.badClosure (Known.badClosure "TFDE") = true := by decide +kernel
theorem read_total : Gen.TFDE.sem.readTotalB = true := by decide +kernel
theorem read_exact : subsetB Gen.TFDE.sem.badRead (Known.badRead "TFDE") = true := by decide +kernel
theorem sound_core : Gen.TFDE.sem.soundCoreB = true := by decide +kernel

/-- C01 for this logic: a closed tableau reached by any legal derivation has no countermodel. -/
theorem c01_valid_sound (arg : Argument) (t : Tableau)
    (hd : Deriv Gen.TFDE.sem.soundPart (trunk Gen.TFDE.sem arg) t) (hclosed : t.allClosed = true)
    (M : Struct) (hM : M.Interp Gen.TFDE.sem) (e : Env M.D) (w0 : M.W) : ¬ Countermodel Gen.TFDE.sem M e w0 arg :=
  Props.C01.C01_valid_sound Gen.TFDE.sem sound_core arg t hd hclosed M hM e w0

/-- C03 (soundness half) for this logic: a closed tableau of a propositional argument is truth-table valid. -/
theorem c03_closed_tt (arg : Argument) (hp : arg.isProp = true) (t : Tableau)
    (hd : Deriv Gen.TFDE.sem.soundPart (trunk Gen.TFDE.sem arg) t) (hclosed : t.allClosed = true) : ttValid Gen.TFDE.sem.T arg = true :=
  Props.C03.C03_closed_implies_ttValid Gen.TFDE.sem sound_core (by decide +kernel) arg hp t hd hclosed

end Ptx.Gen.Obl.TFDE
