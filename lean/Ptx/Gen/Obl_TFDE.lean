/- GENERATED: instance obligations for one logic, discharged by kernel evaluation.
   `X ⊆ known`: every failing row is a committed known finding (Ptx/Gen/Known.lean). -/
import Ptx.Gen.L_TFDE
import Ptx.Gen.Known
import Ptx.Sem.Subset
namespace Ptx.Gen.Obl.TFDE
open Ptx

theorem tables_total : Gen.TFDE.tablesTotalB = true := by decide +kernel
theorem rules_exact : subsetB Gen.TFDE.badRules (Known.badRules "TFDE") = true := by decide +kernel
theorem rules_sound : subsetB Gen.TFDE.unsoundRules (Known.unsoundRules "TFDE") = true := by decide +kernel
theorem rules_total : subsetB Gen.TFDE.missingRules (Known.missingRules "TFDE") = true := by decide +kernel
theorem rules_local : Gen.TFDE.nonLocalRules = [] := by decide +kernel
theorem closure_total : Gen.TFDE.closureTotalB = true := by decide +kernel
theorem closure_exact : subsetB Gen.TFDE.badClosure (Known.badClosure "TFDE") = true := by decide +kernel
theorem read_total : Gen.TFDE.readTotalB = true := by decide +kernel
theorem read_exact : subsetB Gen.TFDE.badRead (Known.badRead "TFDE") = true := by decide +kernel

end Ptx.Gen.Obl.TFDE
