/- GENERATED from known_findings.json (committed; never written at run time). -/
import Ptx.Sem.Logic
namespace Ptx.Gen.Known

def badRules : String → List (RuleKey)
  | _ => []

def unsoundRules : String → List (RuleKey)
  | _ => []

def badClosure : String → List (List Lit)
  | _ => []

def badRead : String → List (List Lit)
  | _ => []

def missingRules : String → List (RuleKey)
  | _ => []

def tableDiff : String → List (String × List V)
  | _ => []

end Ptx.Gen.Known
