/- GENERATED from known_findings.json (committed; never written at run time). -/
import Ptx.Sem.Logic
namespace Ptx.Gen.Known

def badRules : String → List (RuleKey)
  | "B3E" => [⟨(.op2 .bicond), false, (some false)⟩, ⟨(.op2 .bicond), true, (some true)⟩]
  | "FDE" => [⟨(.op2 .bicond), false, (some true)⟩, ⟨(.op2 .bicond), true, (some false)⟩, ⟨(.op2 .mbicond), false, (some true)⟩, ⟨(.op2 .mbicond), true, (some false)⟩]
  | "KB3E" => [⟨(.op2 .bicond), false, (some false)⟩, ⟨(.op2 .bicond), true, (some true)⟩]
  | "KFDE" => [⟨(.op2 .bicond), false, (some true)⟩, ⟨(.op2 .bicond), true, (some false)⟩, ⟨(.op2 .mbicond), false, (some true)⟩, ⟨(.op2 .mbicond), true, (some false)⟩]
  | "S4B3E" => [⟨(.op2 .bicond), false, (some false)⟩, ⟨(.op2 .bicond), true, (some true)⟩]
  | "S4FDE" => [⟨(.op2 .bicond), false, (some true)⟩, ⟨(.op2 .bicond), true, (some false)⟩, ⟨(.op2 .mbicond), false, (some true)⟩, ⟨(.op2 .mbicond), true, (some false)⟩]
  | "S5B3E" => [⟨(.op2 .bicond), false, (some false)⟩, ⟨(.op2 .bicond), true, (some true)⟩]
  | "S5FDE" => [⟨(.op2 .bicond), false, (some true)⟩, ⟨(.op2 .bicond), true, (some false)⟩, ⟨(.op2 .mbicond), false, (some true)⟩, ⟨(.op2 .mbicond), true, (some false)⟩]
  | "TB3E" => [⟨(.op2 .bicond), false, (some false)⟩, ⟨(.op2 .bicond), true, (some true)⟩]
  | "TFDE" => [⟨(.op2 .bicond), false, (some true)⟩, ⟨(.op2 .bicond), true, (some false)⟩, ⟨(.op2 .mbicond), false, (some true)⟩, ⟨(.op2 .mbicond), true, (some false)⟩]
  | _ => []

def unsoundRules : String → List (RuleKey)
  | "B3E" => [⟨(.op2 .bicond), false, (some false)⟩, ⟨(.op2 .bicond), true, (some true)⟩]
  | "FDE" => [⟨(.op2 .bicond), false, (some true)⟩, ⟨(.op2 .bicond), true, (some false)⟩, ⟨(.op2 .mbicond), false, (some true)⟩, ⟨(.op2 .mbicond), true, (some false)⟩]
  | "KB3E" => [⟨(.op2 .bicond), false, (some false)⟩, ⟨(.op2 .bicond), true, (some true)⟩]
  | "KFDE" => [⟨(.op2 .bicond), false, (some true)⟩, ⟨(.op2 .bicond), true, (some false)⟩, ⟨(.op2 .mbicond), false, (some true)⟩, ⟨(.op2 .mbicond), true, (some false)⟩]
  | "S4B3E" => [⟨(.op2 .bicond), false, (some false)⟩, ⟨(.op2 .bicond), true, (some true)⟩]
  | "S4FDE" => [⟨(.op2 .bicond), false, (some true)⟩, ⟨(.op2 .bicond), true, (some false)⟩, ⟨(.op2 .mbicond), false, (some true)⟩, ⟨(.op2 .mbicond), true, (some false)⟩]
  | "S5B3E" => [⟨(.op2 .bicond), false, (some false)⟩, ⟨(.op2 .bicond), true, (some true)⟩]
  | "S5FDE" => [⟨(.op2 .bicond), false, (some true)⟩, ⟨(.op2 .bicond), true, (some false)⟩, ⟨(.op2 .mbicond), false, (some true)⟩, ⟨(.op2 .mbicond), true, (some false)⟩]
  | "TB3E" => [⟨(.op2 .bicond), false, (some false)⟩, ⟨(.op2 .bicond), true, (some true)⟩]
  | "TFDE" => [⟨(.op2 .bicond), false, (some true)⟩, ⟨(.op2 .bicond), true, (some false)⟩, ⟨(.op2 .mbicond), false, (some true)⟩, ⟨(.op2 .mbicond), true, (some false)⟩]
  | _ => []

def badClosure : String → List (List Lit)
  | _ => []

def badRead : String → List (List Lit)
  | _ => []

def missingRules : String → List (RuleKey)
  | _ => []

def tableDiff : String → List (String × List V)
  | "FDE" => [("Biconditional", [.B, .N]), ("Biconditional", [.N, .B]), ("Conditional", [.B, .N]), ("Conditional", [.N, .B]), ("Conjunction", [.B, .N]), ("Conjunction", [.N, .B]), ("Disjunction", [.B, .N]), ("Disjunction", [.N, .B]), ("Existential", [.F, .N, .B]), ("Existential", [.N, .B]), ("MaterialBiconditional", [.B, .N]), ("MaterialBiconditional", [.N, .B]), ("MaterialConditional", [.B, .N]), ("MaterialConditional", [.N, .B]), ("Universal", [.N, .B, .T]), ("Universal", [.N, .B])]
  | "KFDE" => [("Biconditional", [.B, .N]), ("Biconditional", [.N, .B]), ("Conditional", [.B, .N]), ("Conditional", [.N, .B]), ("Conjunction", [.B, .N]), ("Conjunction", [.N, .B]), ("Disjunction", [.B, .N]), ("Disjunction", [.N, .B]), ("Existential", [.F, .N, .B]), ("Existential", [.N, .B]), ("MaterialBiconditional", [.B, .N]), ("MaterialBiconditional", [.N, .B]), ("MaterialConditional", [.B, .N]), ("MaterialConditional", [.N, .B]), ("Necessity", [.N, .B, .T]), ("Necessity", [.N, .B]), ("Possibility", [.F, .N, .B]), ("Possibility", [.N, .B]), ("Universal", [.N, .B, .T]), ("Universal", [.N, .B])]
  | "S4FDE" => [("Biconditional", [.B, .N]), ("Biconditional", [.N, .B]), ("Conditional", [.B, .N]), ("Conditional", [.N, .B]), ("Conjunction", [.B, .N]), ("Conjunction", [.N, .B]), ("Disjunction", [.B, .N]), ("Disjunction", [.N, .B]), ("Existential", [.F, .N, .B]), ("Existential", [.N, .B]), ("MaterialBiconditional", [.B, .N]), ("MaterialBiconditional", [.N, .B]), ("MaterialConditional", [.B, .N]), ("MaterialConditional", [.N, .B]), ("Necessity", [.N, .B, .T]), ("Necessity", [.N, .B]), ("Possibility", [.F, .N, .B]), ("Possibility", [.N, .B]), ("Universal", [.N, .B, .T]), ("Universal", [.N, .B])]
  | "S5FDE" => [("Biconditional", [.B, .N]), ("Biconditional", [.N, .B]), ("Conditional", [.B, .N]), ("Conditional", [.N, .B]), ("Conjunction", [.B, .N]), ("Conjunction", [.N, .B]), ("Disjunction", [.B, .N]), ("Disjunction", [.N, .B]), ("Existential", [.F, .N, .B]), ("Existential", [.N, .B]), ("MaterialBiconditional", [.B, .N]), ("MaterialBiconditional", [.N, .B]), ("MaterialConditional", [.B, .N]), ("MaterialConditional", [.N, .B]), ("Necessity", [.N, .B, .T]), ("Necessity", [.N, .B]), ("Possibility", [.F, .N, .B]), ("Possibility", [.N, .B]), ("Universal", [.N, .B, .T]), ("Universal", [.N, .B])]
  | "TFDE" => [("Biconditional", [.B, .N]), ("Biconditional", [.N, .B]), ("Conditional", [.B, .N]), ("Conditional", [.N, .B]), ("Conjunction", [.B, .N]), ("Conjunction", [.N, .B]), ("Disjunction", [.B, .N]), ("Disjunction", [.N, .B]), ("Existential", [.F, .N, .B]), ("Existential", [.N, .B]), ("MaterialBiconditional", [.B, .N]), ("MaterialBiconditional", [.N, .B]), ("MaterialConditional", [.B, .N]), ("MaterialConditional", [.N, .B]), ("Necessity", [.N, .B, .T]), ("Necessity", [.N, .B]), ("Possibility", [.F, .N, .B]), ("Possibility", [.N, .B]), ("Universal", [.N, .B, .T]), ("Universal", [.N, .B])]
  | _ => []

end Ptx.Gen.Known
