/- GENERATED: instance obligations for one logic, discharged by kernel evaluation.
   `S` = the logic with its DOCUMENTED tables (Ptx/Sem/Spec.lean); rules, closure, trunk and frames
   are what the translator read off the code.  `X ⊆ known`: every failing row is a committed
   known finding (Ptx/Gen/Known.lean, generated from known_findings.json). -/
import Ptx.Gen.L_S4GO
import Ptx.Gen.Known
import Ptx.Sem.Subset
import Ptx.Props.C03
import Ptx.Gen.L_GO
namespace Ptx.Gen.Obl.S4GO
open Ptx

/-- a modal / first-order extension has exactly the truth-functional tables of its base (GO) -/
theorem base_tables : Gen.S4GO.tables.sameTF Gen.GO.tables = true := by decide +kernel
theorem spec_defined : Gen.S4GO.specDefinedB = true := by decide +kernel
theorem tables_spec : subsetB Gen.S4GO.tableDiff (Known.tableDiff "S4GO") = true := by decide +kernel
theorem defined_ops : Gen.S4GO.tables.definedOpsBad = [] := by decide +kernel
theorem tables_total : Gen.S4GO.sem.tablesTotalB = true := by decide +kernel
theorem rules_exact : subsetB Gen.S4GO.sem.badRules (Known.badRules "S4GO") = true := by decide +kernel
theorem rules_sound : subsetB Gen.S4GO.sem.unsoundRules (Known.unsoundRules "S4GO") = true := by decide +kernel
theorem rules_total : subsetB Gen.S4GO.sem.missingRules (Known.missingRules "S4GO") = true := by decide +kernel
theorem rules_local : Gen.S4GO.sem.nonLocalRules = [] := by decide +kernel
theorem closure_total : Gen.S4GO.sem.closureTotalB = true := by decide +kernel
theorem closure_exact : subsetB Gen.S4GO.sem.badClosure (Known.badClosure "S4GO") = true := by decide +kernel
theorem read_total : Gen.S4GO.sem.readTotalB = true := by decide +kernel
theorem read_exact : subsetB Gen.S4GO.sem.badRead (Known.badRead "S4GO") = true := by decide +kernel
theorem sound_core : Gen.S4GO.sem.soundCoreB = true := by decide +kernel

/-- C01 for this logic: a closed tableau reached by any legal derivation has no countermodel. -/
theorem c01_valid_sound (arg : Argument) (t : Tableau)
    (hd : Deriv Gen.S4GO.sem.soundPart (trunk Gen.S4GO.sem arg) t) (hclosed : t.allClosed = true)
    (M : Struct) (hM : M.Interp Gen.S4GO.sem) (e : Env M.D) (w0 : M.W) : ¬ Countermodel Gen.S4GO.sem M e w0 arg :=
  Props.C01.C01_valid_sound Gen.S4GO.sem sound_core arg t hd hclosed M hM e w0

/-- C03 (soundness half) for this logic: a closed tableau of a propositional argument is truth-table valid. -/
theorem c03_closed_tt (arg : Argument) (hp : arg.isProp = true) (t : Tableau)
    (hd : Deriv Gen.S4GO.sem.soundPart (trunk Gen.S4GO.sem arg) t) (hclosed : t.allClosed = true) : ttValid Gen.S4GO.sem.T arg = true :=
  Props.C03.C03_closed_implies_ttValid Gen.S4GO.sem sound_core (by decide +kernel) arg hp t hd hclosed

end Ptx.Gen.Obl.S4GO
