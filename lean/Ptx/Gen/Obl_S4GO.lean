/- GENERATED: instance obligations for one logic, discharged by kernel evaluation.
   `X ⊆ known`: every failing row is a committed known finding (Ptx/Gen/Known.lean). -/
import Ptx.Gen.L_S4GO
import Ptx.Gen.Known
import Ptx.Sem.Subset
namespace Ptx.Gen.Obl.S4GO
open Ptx

theorem tables_total : Gen.S4GO.tablesTotalB = true := by decide +kernel
theorem rules_exact : subsetB Gen.S4GO.badRules (Known.badRules "S4GO") = true := by decide +kernel
theorem rules_sound : subsetB Gen.S4GO.unsoundRules (Known.unsoundRules "S4GO") = true := by decide +kernel
theorem rules_total : subsetB Gen.S4GO.missingRules (Known.missingRules "S4GO") = true := by decide +kernel
theorem rules_local : Gen.S4GO.nonLocalRules = [] := by decide +kernel
theorem closure_total : Gen.S4GO.closureTotalB = true := by decide +kernel
theorem closure_exact : subsetB Gen.S4GO.badClosure (Known.badClosure "S4GO") = true := by decide +kernel
theorem read_total : Gen.S4GO.readTotalB = true := by decide +kernel
theorem read_exact : subsetB Gen.S4GO.badRead (Known.badRead "S4GO") = true := by decide +kernel

end Ptx.Gen.Obl.S4GO
