/- GENERATED: instance obligations for one logic, discharged by kernel evaluation.
   `S` = the logic with its DOCUMENTED tables (Ptx/Sem/Spec.lean); rules, closure, trunk and frames
   are what the translator read off the code.  `X ⊆ known`: every failing row is a committed
   known finding (Ptx/Gen/Known.lean, generated from known_findings.json). -/
import Ptx.Gen.L_CFOL
import Ptx.Gen.Known
import Ptx.Sem.Subset
import Ptx.Props.C03
import Ptx.Gen.L_CPL
namespace Ptx.Gen.Obl.CFOL
open Ptx

/-- a modal / first-order extension has exactly the truth-functional tables of its base (CPL) -/
theorem base_tables : Gen.CFOL.tables.sameTF Gen.CPL.tables = true := by decide +kernel
theorem spec_defined : Gen.CFOL.specDefinedB = true := by decide +kernel
theorem tables_spec : subsetB Gen.CFOL.tableDiff (Known.tableDiff "CFOL") = true := by decide +kernel
theorem defined_ops : Gen.CFOL.tables.definedOpsBad = [] := by decide +kernel
theorem tables_total : Gen.CFOL.sem.tablesTotalB = true := by decide +kernel
theorem rules_exact : subsetB Gen.CFOL.sem.badRules (Known.badRules "CFOL") = true := by decide +kernel
theorem rules_sound : subsetB Gen.CFOL.sem.unsoundRules (Known.unsoundRules "CFOL") = true := by decide +kernel
theorem rules_total : subsetB Gen.CFOL.sem.missingRules (Known.missingRules "CFOL") = true := by decide +kernel
theorem rules_local : Gen.CFOL.sem.nonLocalRules = [] := by decide +kernel
theorem closure_total : Gen.CFOL.sem.closureTotalB = true := by decide +kernel
theorem closure_exact : subsetB Gen.CFOL.sem.badClosure (Known.badClosure "CFOL") = true := by decide +kernel
theorem read_total : Gen.CFOL.sem.readTotalB = true := by decide +kernel
theorem read_exact : subsetB Gen.CFOL.sem.badRead (Known.badRead "CFOL") = true := by decide +kernel
theorem sound_core : Gen.CFOL.sem.soundCoreB = true := by decide +kernel

/-- C01 for this logic: a closed tableau reached by any legal derivation has no countermodel. -/
theorem c01_valid_sound (arg : Argument) (t : Tableau)
    (hd : Deriv Gen.CFOL.sem.soundPart (trunk Gen.CFOL.sem arg) t) (hclosed : t.allClosed = true)
    (M : Struct) (hM : M.Interp Gen.CFOL.sem) (e : Env M.D) (w0 : M.W) : ¬ Countermodel Gen.CFOL.sem M e w0 arg :=
  Props.C01.C01_valid_sound Gen.CFOL.sem sound_core arg t hd hclosed M hM e w0

/-- C03 (soundness half) for this logic: a closed tableau of a propositional argument is truth-table valid. -/
theorem c03_closed_tt (arg : Argument) (hp : arg.isProp = true) (t : Tableau)
    (hd : Deriv Gen.CFOL.sem.soundPart (trunk Gen.CFOL.sem arg) t) (hclosed : t.allClosed = true) : ttValid Gen.CFOL.sem.T arg = true :=
  Props.C03.C03_closed_implies_ttValid Gen.CFOL.sem sound_core (by decide +kernel) arg hp t hd hclosed

end Ptx.Gen.Obl.CFOL
