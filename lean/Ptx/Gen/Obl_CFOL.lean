/- GENERATED: instance obligations for one logic, discharged by kernel evaluation.
   `X ⊆ known`: every failing row is a committed known finding (Ptx/Gen/Known.lean). -/
import Ptx.Gen.L_CFOL
import Ptx.Gen.Known
import Ptx.Sem.Subset
namespace Ptx.Gen.Obl.CFOL
open Ptx

theorem tables_total : Gen.CFOL.tablesTotalB = true := by decide +kernel
theorem rules_exact : subsetB Gen.CFOL.badRules (Known.badRules "CFOL") = true := by decide +kernel
theorem rules_sound : subsetB Gen.CFOL.unsoundRules (Known.unsoundRules "CFOL") = true := by decide +kernel
theorem rules_total : subsetB Gen.CFOL.missingRules (Known.missingRules "CFOL") = true := by decide +kernel
theorem rules_local : Gen.CFOL.nonLocalRules = [] := by decide +kernel
theorem closure_total : Gen.CFOL.closureTotalB = true := by decide +kernel
theorem closure_exact : subsetB Gen.CFOL.badClosure (Known.badClosure "CFOL") = true := by decide +kernel
theorem read_total : Gen.CFOL.readTotalB = true := by decide +kernel
theorem read_exact : subsetB Gen.CFOL.badRead (Known.badRead "CFOL") = true := by decide +kernel

end Ptx.Gen.Obl.CFOL
