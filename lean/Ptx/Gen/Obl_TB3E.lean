/- GENERATED: instance obligations for one logic, discharged by kernel evaluation.
   `X ⊆ known`: every failing row is a committed known finding (Ptx/Gen/Known.lean). -/
import Ptx.Gen.L_TB3E
import Ptx.Gen.Known
import Ptx.Sem.Subset
namespace Ptx.Gen.Obl.TB3E
open Ptx

theorem tables_total : Gen.TB3E.tablesTotalB = true := by decide +kernel
theorem rules_exact : subsetB Gen.TB3E.badRules (Known.badRules "TB3E") = true := by decide +kernel
theorem rules_sound : subsetB Gen.TB3E.unsoundRules (Known.unsoundRules "TB3E") = true := by decide +kernel
theorem rules_total : subsetB Gen.TB3E.missingRules (Known.missingRules "TB3E") = true := by decide +kernel
theorem rules_local : Gen.TB3E.nonLocalRules = [] := by decide +kernel
theorem closure_total : Gen.TB3E.closureTotalB = true := by decide +kernel
theorem closure_exact : subsetB Gen.TB3E.badClosure (Known.badClosure "TB3E") = true := by decide +kernel
theorem read_total : Gen.TB3E.readTotalB = true := by decide +kernel
theorem read_exact : subsetB Gen.TB3E.badRead (Known.badRead "TB3E") = true := by decide +kernel

end Ptx.Gen.Obl.TB3E
