/- GENERATED: instance obligations for one logic, discharged by kernel evaluation.
   `S` = the logic with its DOCUMENTED tables (Ptx/Sem/Spec.lean); rules, closure, trunk and frames
   are what the translator read off the code.  `X ⊆ known`: every failing row is a committed
   known finding (Ptx/Gen/Known.lean, generated from known_findings.json). -/
import Ptx.Gen.L_TB3E
import Ptx.Gen.Known
import Ptx.Sem.Subset
import Ptx.Props.C03
import Ptx.Gen.L_B3E
namespace Ptx.Gen.Obl.TB3E
open Ptx

/-- a modal / first-order extension has exactly the truth-functional tables of its base (B3E) -/
theorem base_tables : Gen.TB3E.tables.sameTF Gen.B3E.tables = true := by decide +kernel
theorem spec_defined : Gen.TB3E.specDefinedB = true := by decide +kernel
theorem tables_spec : subsetB Gen.TB3E.tableDiff (Known.tableDiff "TB3E") = true := by decide +kernel
theorem defined_ops : Gen.TB3E.tables.definedOpsBad = [] := by decide +kernel
theorem tables_total : Gen.TB3E.sem.tablesTotalB = true := by decide +kernel
theorem rules_exact : subsetB Gen.TB3E.sem.badRules (Known.badRules "TB3E") = true := by decide +kernel
theorem rules_sound : subsetB Gen.TB3E.sem.unsoundRules (Known.unsoundRules "TB3E") = true := by decide +kernel
theorem rules_total : subsetB Gen.TB3E.sem.missingRules (Known.missingRules "TB3E") = true := by decide +kernel
theorem rules_local : Gen.TB3E.sem.nonLocalRules = [] := by decide +kernel
theorem closure_total : Gen.TB3E.sem.closureTotalB = true := by decide +kernel
theorem closure_exact : subsetB Gen.TB3E.sem.badClosure (Known.badClosure "TB3E") = true := by decide +kernel
theorem read_total : Gen.TB3E.sem.readTotalB = true := by decide +kernel
theorem read_exact : subsetB Gen.TB3E.sem.badRead (Known.badRead "TB3E") = true := by decide +kernel
theorem sound_core : Gen.TB3E.sem.soundCoreB = true := by decide +kernel

/-- C01 for this logic: a closed tableau reached by any legal derivation has no countermodel. -/
theorem c01_valid_sound (arg : Argument) (t : Tableau)
    (hd : Deriv Gen.TB3E.sem.soundPart (trunk Gen.TB3E.sem arg) t) (hclosed : t.allClosed = true)
    (M : Struct) (hM : M.Interp Gen.TB3E.sem) (e : Env M.D) (w0 : M.W) : ¬ Countermodel Gen.TB3E.sem M e w0 arg :=
  Props.C01.C01_valid_sound Gen.TB3E.sem sound_core arg t hd hclosed M hM e w0

/-- C03 (soundness half) for this logic: a closed tableau of a propositional argument is truth-table valid. -/
theorem c03_closed_tt (arg : Argument) (hp : arg.isProp = true) (t : Tableau)
    (hd : Deriv Gen.TB3E.sem.soundPart (trunk Gen.TB3E.sem arg) t) (hclosed : t.allClosed = true) : ttValid Gen.TB3E.sem.T arg = true :=
  Props.C03.C03_closed_implies_ttValid Gen.TB3E.sem sound_core (by decide +kernel) arg hp t hd hclosed

end Ptx.Gen.Obl.TB3E
