/- GENERATED: instance obligations for one logic, discharged by kernel evaluation.
   `X ⊆ known`: every failing row is a committed known finding (Ptx/Gen/Known.lean). -/
import Ptx.Gen.L_KG3
import Ptx.Gen.Known
import Ptx.Sem.Subset
namespace Ptx.Gen.Obl.KG3
open Ptx

theorem tables_total : Gen.KG3.tablesTotalB = true := by decide +kernel
theorem rules_exact : subsetB Gen.KG3.badRules (Known.badRules "KG3") = true := by decide +kernel
theorem rules_sound : subsetB Gen.KG3.unsoundRules (Known.unsoundRules "KG3") = true := by decide +kernel
theorem rules_total : subsetB Gen.KG3.missingRules (Known.missingRules "KG3") = true := by decide +kernel
theorem rules_local : Gen.KG3.nonLocalRules = [] := by decide +kernel
theorem closure_total : Gen.KG3.closureTotalB = true := by decide +kernel
theorem closure_exact : subsetB Gen.KG3.badClosure (Known.badClosure "KG3") = true := by decide +kernel
theorem read_total : Gen.KG3.readTotalB = true := by decide +kernel
theorem read_exact : subsetB Gen.KG3.badRead (Known.badRead "KG3") = true := by decide +kernel

end Ptx.Gen.Obl.KG3
