/- GENERATED: instance obligations for one logic, discharged by kernel evaluation.
   `X ⊆ known`: every failing row is a committed known finding (Ptx/Gen/Known.lean). -/
import Ptx.Gen.L_TG3
import Ptx.Gen.Known
import Ptx.Sem.Subset
namespace Ptx.Gen.Obl.TG3
open Ptx

theorem tables_total : Gen.TG3.tablesTotalB = true := by decide +kernel
theorem rules_exact : subsetB Gen.TG3.badRules (Known.badRules "TG3") = true := by decide +kernel
theorem rules_sound : subsetB Gen.TG3.unsoundRules (Known.unsoundRules "TG3") = true := by decide +kernel
theorem rules_total : subsetB Gen.TG3.missingRules (Known.missingRules "TG3") = true := by decide +kernel
theorem rules_local : Gen.TG3.nonLocalRules = [] := by decide +kernel
theorem closure_total : Gen.TG3.closureTotalB = true := by decide +kernel
theorem closure_exact : subsetB Gen.TG3.badClosure (Known.badClosure "TG3") = true := by decide +kernel
theorem read_total : Gen.TG3.readTotalB = true := by decide +kernel
theorem read_exact : subsetB Gen.TG3.badRead (Known.badRead "TG3") = true := by decide +kernel

end Ptx.Gen.Obl.TG3
