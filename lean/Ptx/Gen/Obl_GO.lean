/- GENERATED: instance obligations for one logic, discharged by kernel evaluation.
   `S` = the logic with its DOCUMENTED tables (Ptx/Sem/Spec.lean); rules, closure, trunk and frames
   are what the translator read off the code.  `X ⊆ known`: every failing row is a committed
   known finding (Ptx/Gen/Known.lean, generated from known_findings.json). -/
import Ptx.Gen.L_GO
import Ptx.Gen.Known
import Ptx.Sem.Subset
import Ptx.Props.C03
namespace Ptx.Gen.Obl.GO
open Ptx

/-- a modal / first-order extension has exactly the truth-functional tables of its base (GO) -/
theorem base_tables : Gen.GO.tables.sameTF Gen.GO.tables = true := by decide +kernel
theorem spec_defined : Gen.GO.specDefinedB = true := by decide +kernel
theorem tables_spec : subsetB Gen.GO.tableDiff (Known.tableDiff "GO") = true := by decide +kernel
theorem defined_ops : Gen.GO.tables.definedOpsBad = [] := by decide +kernel
theorem tables_total : Gen.GO.sem.tablesTotalB = true := by decide +kernel
theorem rules_exact : subsetB Gen.GO.sem.badRules (Known.badRules "GO") = true := by decide +kernel
theorem rules_sound : subsetB Gen.GO.sem.unsoundRules (Known.unsoundRules "GO") = true := by decide +kernel
theorem rules_total : subsetB Gen.GO.sem.missingRules (Known.missingRules "GO") = true := by decide +kernel
theorem rules_local : Gen.GO.sem.nonLocalRules = [] := by decide +kernel
theorem closure_total : Gen.GO.sem.closureTotalB = true := by decide +kernel
theorem closure_exact : subsetB Gen.GO.sem.badClosure (Known.badClosure "GO") = true := by decide +kernel
theorem read_total : Gen.GO.sem.readTotalB = true := by decide +kernel
theorem read_exact : subsetB Gen.GO.sem.badRead (Known.badRead "GO") = true := by decide +kernel
theorem sound_core : Gen.GO.sem.soundCoreB = true := by decide +kernel

/-- C01 for this logic: a closed tableau reached by any legal derivation has no countermodel. -/
theorem c01_valid_sound (arg : Argument) (t : Tableau)
    (hd : Deriv Gen.GO.sem.soundPart (trunk Gen.GO.sem arg) t) (hclosed : t.allClosed = true)
    (M : Struct) (hM : M.Interp Gen.GO.sem) (e : Env M.D) (w0 : M.W) : ¬ Countermodel Gen.GO.sem M e w0 arg :=
  Props.C01.C01_valid_sound Gen.GO.sem sound_core arg t hd hclosed M hM e w0

/-- C03 (soundness half) for this logic: a closed tableau of a propositional argument is truth-table valid. -/
theorem c03_closed_tt (arg : Argument) (hp : arg.isProp = true) (t : Tableau)
    (hd : Deriv Gen.GO.sem.soundPart (trunk Gen.GO.sem arg) t) (hclosed : t.allClosed = true) : ttValid Gen.GO.sem.T arg = true :=
  Props.C03.C03_closed_implies_ttValid Gen.GO.sem sound_core (by decide +kernel) arg hp t hd hclosed

end Ptx.Gen.Obl.GO
