/- GENERATED: instance obligations for one logic, discharged by kernel evaluation.
   `X ⊆ known`: every failing row is a committed known finding (Ptx/Gen/Known.lean). -/
import Ptx.Gen.L_GO
import Ptx.Gen.Known
import Ptx.Sem.Subset
namespace Ptx.Gen.Obl.GO
open Ptx

theorem tables_total : Gen.GO.tablesTotalB = true := by decide +kernel
theorem rules_exact : subsetB Gen.GO.badRules (Known.badRules "GO") = true := by decide +kernel
theorem rules_sound : subsetB Gen.GO.unsoundRules (Known.unsoundRules "GO") = true := by decide +kernel
theorem rules_total : subsetB Gen.GO.missingRules (Known.missingRules "GO") = true := by decide +kernel
theorem rules_local : Gen.GO.nonLocalRules = [] := by decide +kernel
theorem closure_total : Gen.GO.closureTotalB = true := by decide +kernel
theorem closure_exact : subsetB Gen.GO.badClosure (Known.badClosure "GO") = true := by decide +kernel
theorem read_total : Gen.GO.readTotalB = true := by decide +kernel
theorem read_exact : subsetB Gen.GO.badRead (Known.badRead "GO") = true := by decide +kernel

end Ptx.Gen.Obl.GO
