/- GENERATED: instance obligations for one logic, discharged by kernel evaluation.
   `X ⊆ known`: every failing row is a committed known finding (Ptx/Gen/Known.lean). -/
import Ptx.Gen.L_S5RM3
import Ptx.Gen.Known
import Ptx.Sem.Subset
namespace Ptx.Gen.Obl.S5RM3
open Ptx

theorem tables_total : Gen.S5RM3.tablesTotalB = true := by decide +kernel
theorem rules_exact : subsetB Gen.S5RM3.badRules (Known.badRules "S5RM3") = true := by decide +kernel
theorem rules_sound : subsetB Gen.S5RM3.unsoundRules (Known.unsoundRules "S5RM3") = true := by decide +kernel
theorem rules_total : subsetB Gen.S5RM3.missingRules (Known.missingRules "S5RM3") = true := by decide +kernel
theorem rules_local : Gen.S5RM3.nonLocalRules = [] := by decide +kernel
theorem closure_total : Gen.S5RM3.closureTotalB = true := by decide +kernel
theorem closure_exact : subsetB Gen.S5RM3.badClosure (Known.badClosure "S5RM3") = true := by decide +kernel
theorem read_total : Gen.S5RM3.readTotalB = true := by decide +kernel
theorem read_exact : subsetB Gen.S5RM3.badRead (Known.badRead "S5RM3") = true := by decide +kernel

end Ptx.Gen.Obl.S5RM3
