/- GENERATED: instance obligations for one logic, discharged by kernel evaluation.
   `S` = the logic with its DOCUMENTED tables (Ptx/Sem/Spec.lean); rules, closure, trunk and frames
   are what the translator read off the code.  `X ⊆ known`: every failing row is a committed
   known finding (Ptx/Gen/Known.lean, generated from known_findings.json). -/
import Ptx.Gen.L_NH
import Ptx.Gen.Known
import Ptx.Sem.Subset
import Ptx.Props.C03
namespace Ptx.Gen.Obl.NH
open Ptx

/-- a modal / first-order extension has exactly the truth-functional tables of its base (NH) -/
theorem base_tables : Gen.NH.tables.sameTF Gen.NH.tables = true := by decide +kernel
theorem spec_defined : Gen.NH.specDefinedB = true := by decide +kernel
theorem tables_spec : subsetB Gen.NH.tableDiff (Known.tableDiff "NH") = true := by decide +kernel
theorem defined_ops : Gen.NH.tables.definedOpsBad = [] := by decide +kernel
theorem tables_total : Gen.NH.sem.tablesTotalB = true := by decide +kernel
theorem rules_exact : subsetB Gen.NH.sem.badRules (Known.badRules "NH") = true := by decide +kernel
theorem rules_sound : subsetB Gen.NH.sem.unsoundRules (Known.unsoundRules "NH") = true := by decide +kernel
theorem rules_total : subsetB Gen.NH.sem.missingRules (Known.missingRules "NH") = true := by decide +kernel
theorem rules_local : Gen.NH.sem.nonLocalRules = [] := by decide +kernel
theorem closure_total : Gen.NH.sem.closureTotalB = true := by decide +kernel
theorem closure_exact : subsetB Gen.NH.sem.badClosure (Known.badClosure "NH") = true := by decide +kernel
theorem read_total : Gen.NH.sem.readTotalB = true := by decide +kernel
theorem read_exact : subsetB Gen.NH.sem.badRead (Known.badRead "NH") = true := by decide +kernel
theorem sound_core : Gen.NH.sem.soundCoreB = true := by decide +kernel

/-- C01 for this logic: a closed tableau reached by any legal derivation has no countermodel. -/
theorem c01_valid_sound (arg : Argument) (t : Tableau)
    (hd : Deriv Gen.NH.sem.soundPart (trunk Gen.NH.sem arg) t) (hclosed : t.allClosed = true)
    (M : Struct) (hM : M.Interp Gen.NH.sem) (e : Env M.D) (w0 : M.W) : ¬ Countermodel Gen.NH.sem M e w0 arg :=
  Props.C01.C01_valid_sound Gen.NH.sem sound_core arg t hd hclosed M hM e w0

/-- C03 (soundness half) for this logic: a closed tableau of a propositional argument is truth-table valid. -/
theorem c03_closed_tt (arg : Argument) (hp : arg.isProp = true) (t : Tableau)
    (hd : Deriv Gen.NH.sem.soundPart (trunk Gen.NH.sem arg) t) (hclosed : t.allClosed = true) : ttValid Gen.NH.sem.T arg = true :=
  Props.C03.C03_closed_implies_ttValid Gen.NH.sem sound_core (by decide +kernel) arg hp t hd hclosed

end Ptx.Gen.Obl.NH
