/- GENERATED: instance obligations for one logic, discharged by kernel evaluation.
   `X ⊆ known`: every failing row is a committed known finding (Ptx/Gen/Known.lean). -/
import Ptx.Gen.L_NH
import Ptx.Gen.Known
import Ptx.Sem.Subset
namespace Ptx.Gen.Obl.NH
open Ptx

theorem tables_total : Gen.NH.tablesTotalB = true := by decide +kernel
theorem rules_exact : subsetB Gen.NH.badRules (Known.badRules "NH") = true := by decide +kernel
theorem rules_sound : subsetB Gen.NH.unsoundRules (Known.unsoundRules "NH") = true := by decide +kernel
theorem rules_total : subsetB Gen.NH.missingRules (Known.missingRules "NH") = true := by decide +kernel
theorem rules_local : Gen.NH.nonLocalRules = [] := by decide +kernel
theorem closure_total : Gen.NH.closureTotalB = true := by decide +kernel
theorem closure_exact : subsetB Gen.NH.badClosure (Known.badClosure "NH") = true := by decide +kernel
theorem read_total : Gen.NH.readTotalB = true := by decide +kernel
theorem read_exact : subsetB Gen.NH.badRead (Known.badRead "NH") = true := by decide +kernel

end Ptx.Gen.Obl.NH
