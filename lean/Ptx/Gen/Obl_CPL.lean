/- GENERATED: instance obligations for one logic, discharged by kernel evaluation.
   `X ⊆ known`: every failing row is a committed known finding (Ptx/Gen/Known.lean). -/
import Ptx.Gen.L_CPL
import Ptx.Gen.Known
import Ptx.Sem.Subset
namespace Ptx.Gen.Obl.CPL
open Ptx

theorem tables_total : Gen.CPL.tablesTotalB = true := by decide +kernel
theorem rules_exact : subsetB Gen.CPL.badRules (Known.badRules "CPL") = true := by decide +kernel
theorem rules_sound : subsetB Gen.CPL.unsoundRules (Known.unsoundRules "CPL") = true := by decide +kernel
theorem rules_total : subsetB Gen.CPL.missingRules (Known.missingRules "CPL") = true := by decide +kernel
theorem rules_local : Gen.CPL.nonLocalRules = [] := by decide +kernel
theorem closure_total : Gen.CPL.closureTotalB = true := by decide +kernel
theorem closure_exact : subsetB Gen.CPL.badClosure (Known.badClosure "CPL") = true := by decide +kernel
theorem read_total : Gen.CPL.readTotalB = true := by decide +kernel
theorem read_exact : subsetB Gen.CPL.badRead (Known.badRead "CPL") = true := by decide +kernel

end Ptx.Gen.Obl.CPL
