/- GENERATED: instance obligations for one logic, discharged by kernel evaluation.
   `S` = the logic with its DOCUMENTED tables (Ptx/Sem/Spec.lean); rules, closure, trunk and frames
   are what the translator read off the code.  `X ⊆ known`: every failing row is a committed
   known finding (Ptx/Gen/Known.lean, generated from known_findings.json). -/
import Ptx.Gen.L_CPL
import Ptx.Gen.Known
import Ptx.Sem.Subset
import Ptx.Props.C03
namespace Ptx.Gen.Obl.CPL
open Ptx

/-- a modal / first-order extension has exactly the truth-functional tables of its base (CPL) -/
theorem base_tables : Gen.CPL.tables.sameTF Gen.CPL.tables = true := by decide +kernel
theorem spec_defined : Gen.CPL.specDefinedB = true := by decide +kernel
theorem tables_spec : subsetB Gen.CPL.tableDiff (Known.tableDiff "CPL") = true := by decide +kernel
theorem defined_ops : Gen.CPL.tables.definedOpsBad = [] := by decide +kernel
theorem tables_total : Gen.CPL.sem.tablesTotalB = true := by decide +kernel
theorem rules_exact : subsetB Gen.CPL.sem.badRules (Known.badRules "CPL") = true := by decide +kernel
theorem rules_sound : subsetB Gen.CPL.sem.unsoundRules (Known.unsoundRules "CPL") = true := by decide +kernel
theorem rules_total : subsetB Gen.CPL.sem.missingRules (Known.missingRules "CPL") = true := by decide +kernel
theorem rules_local : Gen.CPL.sem.nonLocalRules = [] := by decide +kernel
theorem closure_total : Gen.CPL.sem.closureTotalB = true := by decide +kernel
theorem closure_exact : subsetB Gen.CPL.sem.badClosure (Known.badClosure "CPL") = true := by decide +kernel
theorem read_total : Gen.CPL.sem.readTotalB = true := by decide +kernel
theorem read_exact : subsetB Gen.CPL.sem.badRead (Known.badRead "CPL") = true := by decide +kernel
theorem sound_core : Gen.CPL.sem.soundCoreB = true := by decide +kernel

/-- C01 for this logic: a closed tableau reached by any legal derivation has no countermodel. -/
theorem c01_valid_sound (arg : Argument) (t : Tableau)
    (hd : Deriv Gen.CPL.sem.soundPart (trunk Gen.CPL.sem arg) t) (hclosed : t.allClosed = true)
    (M : Struct) (hM : M.Interp Gen.CPL.sem) (e : Env M.D) (w0 : M.W) : ¬ Countermodel Gen.CPL.sem M e w0 arg :=
  Props.C01.C01_valid_sound Gen.CPL.sem sound_core arg t hd hclosed M hM e w0

/-- C03 (soundness half) for this logic: a closed tableau of a propositional argument is truth-table valid. -/
theorem c03_closed_tt (arg : Argument) (hp : arg.isProp = true) (t : Tableau)
    (hd : Deriv Gen.CPL.sem.soundPart (trunk Gen.CPL.sem arg) t) (hclosed : t.allClosed = true) : ttValid Gen.CPL.sem.T arg = true :=
  Props.C03.C03_closed_implies_ttValid Gen.CPL.sem sound_core (by decide +kernel) arg hp t hd hclosed

end Ptx.Gen.Obl.CPL
