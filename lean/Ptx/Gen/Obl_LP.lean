/- GENERATED: instance obligations for one logic, discharged by kernel evaluation.
   `X ⊆ known`: every failing row is a committed known finding (Ptx/Gen/Known.lean). -/
import Ptx.Gen.L_LP
import Ptx.Gen.Known
import Ptx.Sem.Subset
namespace Ptx.Gen.Obl.LP
open Ptx

theorem tables_total : Gen.LP.tablesTotalB = true := by decide +kernel
theorem rules_exact : subsetB Gen.LP.badRules (Known.badRules "LP") = true := by decide +kernel
theorem rules_sound : subsetB Gen.LP.unsoundRules (Known.unsoundRules "LP") = true := by decide +kernel
theorem rules_total : subsetB Gen.LP.missingRules (Known.missingRules "LP") = true := by decide +kernel
theorem rules_local : Gen.LP.nonLocalRules = [] := by decide +kernel
theorem closure_total : Gen.LP.closureTotalB = true := by decide +kernel
theorem closure_exact : subsetB Gen.LP.badClosure (Known.badClosure "LP") = true := by decide +kernel
theorem read_total : Gen.LP.readTotalB = true := by decide +kernel
theorem read_exact : subsetB Gen.LP.badRead (Known.badRead "LP") = true := by decide +kernel

end Ptx.Gen.Obl.LP
