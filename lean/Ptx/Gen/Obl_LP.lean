/- GENERATED: instance obligations for one logic, discharged by kernel evaluation.
   `S` = the logic with its DOCUMENTED tables (Ptx/Sem/Spec.lean); rules, closure, trunk and frames
   are what the translator read off the code.  `X ⊆ known`: every failing row is a committed
   known finding (Ptx/Gen/Known.lean, generated from known_findings.json). -/
import Ptx.Gen.L_LP
import Ptx.Gen.Known
import Ptx.Sem.Subset
import Ptx.Props.C03
namespace Ptx.Gen.Obl.LP
open Ptx

/-- a modal / first-order extension has exactly the truth-functional tables of its base (LP) -/
theorem base_tables : Gen.LP.tables.sameTF Gen.LP.tables = true := by decide +kernel
theorem spec_defined : Gen.LP.specDefinedB = true := by decide +kernel
theorem tables_spec : subsetB Gen.LP.tableDiff (Known.tableDiff "LP") = true := by decide +kernel
theorem defined_ops : Gen.LP.tables.definedOpsBad = [] := by decide +kernel
theorem tables_total : Gen.LP.sem.tablesTotalB = true := by decide +kernel
theorem rules_exact : subsetB Gen.LP.sem.badRules (Known.badRules "LP") = true := by decide +kernel
theorem rules_sound : subsetB Gen.LP.sem.unsoundRules (Known.unsoundRules "LP") = true := by decide +kernel
theorem rules_total : subsetB Gen.LP.sem.missingRules (Known.missingRules "LP") = true := by decide +kernel
theorem rules_local : Gen.LP.sem.nonLocalRules = [] := by decide +kernel
theorem closure_total : Gen.LP.sem.closureTotalB = true := by decide +kernel
theorem closure_exact : subsetB Gen.LP.sem.badClosure (Known.badClosure "LP") = true := by decide +kernel
theorem read_total : Gen.LP.sem.readTotalB = true := by decide +kernel
theorem read_exact : subsetB Gen.LP.sem.badRead (Known.badRead "LP") = true := by decide +kernel
theorem sound_core : Gen.LP.sem.soundCoreB = true := by decide +kernel

/-- C01 for this logic: a closed tableau reached by any legal derivation has no countermodel. -/
theorem c01_valid_sound (arg : Argument) (t : Tableau)
    (hd : Deriv Gen.LP.sem.soundPart (trunk Gen.LP.sem arg) t) (hclosed : t.allClosed = true)
    (M : Struct) (hM : M.Interp Gen.LP.sem) (e : Env M.D) (w0 : M.W) : ¬ Countermodel Gen.LP.sem M e w0 arg :=
  Props.C01.C01_valid_sound Gen.LP.sem sound_core arg t hd hclosed M hM e w0

/-- C03 (soundness half) for this logic: a closed tableau of a propositional argument is truth-table valid. -/
theorem c03_closed_tt (arg : Argument) (hp : arg.isProp = true) (t : Tableau)
    (hd : Deriv Gen.LP.sem.soundPart (trunk Gen.LP.sem arg) t) (hclosed : t.allClosed = true) : ttValid Gen.LP.sem.T arg = true :=
  Props.C03.C03_closed_implies_ttValid Gen.LP.sem sound_core (by decide +kernel) arg hp t hd hclosed

end Ptx.Gen.Obl.LP
