/- GENERATED: instance obligations for one logic, discharged by kernel evaluation.
   `S` = the logic with its DOCUMENTED tables (Ptx/Sem/Spec.lean); rules, closure, trunk and frames
   are what the translator read off the code.  `X ⊆ known`: every failing row is a committed
   known finding (Ptx/Gen/Known.lean, generated from known_findings.json). -/
import Ptx.Gen.L_KRM3
import Ptx.Gen.Known
import Ptx.Sem.Subset
import Ptx.Props.C03
import Ptx.Gen.L_RM3
namespace Ptx.Gen.Obl.KRM3
open Ptx

/-- a modal / first-order extension has exactly the truth-functional tables of its base (RM3) -/
theorem base_tables : Gen.KRM3.tables.sameTF Gen.RM3.tables = true := by decide +kernel
theorem spec_defined : Gen.KRM3.specDefinedB = true := by decide +kernel
theorem tables_spec : subsetB Gen.KRM3.tableDiff (Known.tableDiff "KRM3") = true := by decide +kernel
theorem defined_ops : Gen.KRM3.tables.definedOpsBad = [] := by decide +kernel
theorem tables_total : Gen.KRM3.sem.tablesTotalB = true := by decide +kernel
theorem rules_exact : subsetB Gen.KRM3.sem.badRules (Known.badRules "KRM3") = true := by decide +kernel
theorem rules_sound : subsetB Gen.KRM3.sem.unsoundRules (Known.unsoundRules "KRM3") = true := by decide +kernel
theorem rules_total : subsetB Gen.KRM3.sem.missingRules (Known.missingRules "KRM3") = true := by decide +kernel
theorem rules_local : Gen.KRM3.sem.nonLocalRules = [] := by decide +kernel
theorem closure_total : Gen.KRM3.sem.closureTotalB = true := by decide +kernel
theorem closure_exact : subsetB Gen.KRM3.sem.badClosure (Known.badClosure "KRM3") = true := by decide +kernel
theorem read_total : Gen.KRM3.sem.readTotalB = true := by decide +kernel
theorem read_exact : subsetB Gen.KRM3.sem.badRead (Known.badRead "KRM3") = true := by decide +kernel
theorem sound_core : Gen.KRM3.sem.soundCoreB = true := by decide +kernel

/-- C01 for this logic: a closed tableau reached by any legal derivation has no countermodel. -/
theorem c01_valid_sound (arg : Argument) (t : Tableau)
    (hd : Deriv Gen.KRM3.sem.soundPart (trunk Gen.KRM3.sem arg) t) (hclosed : t.allClosed = true)
    (M : Struct) (hM : M.Interp Gen.KRM3.sem) (e : Env M.D) (w0 : M.W) : ¬ Countermodel Gen.KRM3.sem M e w0 arg :=
  Props.C01.C01_valid_sound Gen.KRM3.sem sound_core arg t hd hclosed M hM e w0

/-- C03 (soundness half) for this logic: a closed tableau of a propositional argument is truth-table valid. -/
theorem c03_closed_tt (arg : Argument) (hp : arg.isProp = true) (t : Tableau)
    (hd : Deriv Gen.KRM3.sem.soundPart (trunk Gen.KRM3.sem arg) t) (hclosed : t.allClosed = true) : ttValid Gen.KRM3.sem.T arg = true :=
  Props.C03.C03_closed_implies_ttValid Gen.KRM3.sem sound_core (by decide +kernel) arg hp t hd hclosed

end Ptx.Gen.Obl.KRM3
