/- GENERATED: instance obligations for one logic, discharged by kernel evaluation.
   `X ⊆ known`: every failing row is a committed known finding (Ptx/Gen/Known.lean). -/
import Ptx.Gen.L_KRM3
import Ptx.Gen.Known
import Ptx.Sem.Subset
namespace Ptx.Gen.Obl.KRM3
open Ptx

theorem tables_total : Gen.KRM3.tablesTotalB = true := by decide +kernel
theorem rules_exact : subsetB Gen.KRM3.badRules (Known.badRules "KRM3") = true := by decide +kernel
theorem rules_sound : subsetB Gen.KRM3.unsoundRules (Known.unsoundRules "KRM3") = true := by decide +kernel
theorem rules_total : subsetB Gen.KRM3.missingRules (Known.missingRules "KRM3") = true := by decide +kernel
theorem rules_local : Gen.KRM3.nonLocalRules = [] := by decide +kernel
theorem closure_total : Gen.KRM3.closureTotalB = true := by decide +kernel
theorem closure_exact : subsetB Gen.KRM3.badClosure (Known.badClosure "KRM3") = true := by decide +kernel
theorem read_total : Gen.KRM3.readTotalB = true := by decide +kernel
theorem read_exact : subsetB Gen.KRM3.badRead (Known.badRead "KRM3") = true := by decide +kernel

end Ptx.Gen.Obl.KRM3
