/- GENERATED: instance obligations for one logic, discharged by kernel evaluation.
   `X ⊆ known`: every failing row is a committed known finding (Ptx/Gen/Known.lean). -/
import Ptx.Gen.L_TRM3
import Ptx.Gen.Known
import Ptx.Sem.Subset
namespace Ptx.Gen.Obl.TRM3
open Ptx

theorem tables_total : Gen.TRM3.tablesTotalB = true := by decide +kernel
theorem rules_exact : subsetB Gen.TRM3.badRules (Known.badRules "TRM3") = true := by decide +kernel
theorem rules_sound : subsetB Gen.TRM3.unsoundRules (Known.unsoundRules "TRM3") = true := by decide +kernel
theorem rules_total : subsetB Gen.TRM3.missingRules (Known.missingRules "TRM3") = true := by decide +kernel
theorem rules_local : Gen.TRM3.nonLocalRules = [] := by decide +kernel
theorem closure_total : Gen.TRM3.closureTotalB = true := by decide +kernel
theorem closure_exact : subsetB Gen.TRM3.badClosure (Known.badClosure "TRM3") = true := by decide +kernel
theorem read_total : Gen.TRM3.readTotalB = true := by decide +kernel
theorem read_exact : subsetB Gen.TRM3.badRead (Known.badRead "TRM3") = true := by decide +kernel

end Ptx.Gen.Obl.TRM3
