/- GENERATED: instance obligations for one logic, discharged by kernel evaluation.
   `X ⊆ known`: every failing row is a committed known finding (Ptx/Gen/Known.lean). -/
import Ptx.Gen.L_KK3
import Ptx.Gen.Known
import Ptx.Sem.Subset
namespace Ptx.Gen.Obl.KK3
open Ptx

theorem tables_total : Gen.KK3.tablesTotalB = true := by decide +kernel
theorem rules_exact : subsetB Gen.KK3.badRules (Known.badRules "KK3") = true := by decide +kernel
theorem rules_sound : subsetB Gen.KK3.unsoundRules (Known.unsoundRules "KK3") = true := by decide +kernel
theorem rules_total : subsetB Gen.KK3.missingRules (Known.missingRules "KK3") = true := by decide +kernel
theorem rules_local : Gen.KK3.nonLocalRules = [] := by decide +kernel
theorem closure_total : Gen.KK3.closureTotalB = true := by decide +kernel
theorem closure_exact : subsetB Gen.KK3.badClosure (Known.badClosure "KK3") = true := by decide +kernel
theorem read_total : Gen.KK3.readTotalB = true := by decide +kernel
theorem read_exact : subsetB Gen.KK3.badRead (Known.badRead "KK3") = true := by decide +kernel

end Ptx.Gen.Obl.KK3
