/- GENERATED: instance obligations for one logic, discharged by kernel evaluation.
   `X ⊆ known`: every failing row is a committed known finding (Ptx/Gen/Known.lean). -/
import Ptx.Gen.L_S4K3WQ
import Ptx.Gen.Known
import Ptx.Sem.Subset
namespace Ptx.Gen.Obl.S4K3WQ
open Ptx

theorem tables_total : Gen.S4K3WQ.tablesTotalB = true := by decide +kernel
theorem rules_exact : subsetB Gen.S4K3WQ.badRules (Known.badRules "S4K3WQ") = true := by decide +kernel
theorem rules_sound : subsetB Gen.S4K3WQ.unsoundRules (Known.unsoundRules "S4K3WQ") = true := by decide +kernel
theorem rules_total : subsetB Gen.S4K3WQ.missingRules (Known.missingRules "S4K3WQ") = true := by decide +kernel
theorem rules_local : Gen.S4K3WQ.nonLocalRules = [] := by decide +kernel
theorem closure_total : Gen.S4K3WQ.closureTotalB = true := by decide +kernel
theorem closure_exact : subsetB Gen.S4K3WQ.badClosure (Known.badClosure "S4K3WQ") = true := by decide +kernel
theorem read_total : Gen.S4K3WQ.readTotalB = true := by decide +kernel
theorem read_exact : subsetB Gen.S4K3WQ.badRead (Known.badRead "S4K3WQ") = true := by decide +kernel

end Ptx.Gen.Obl.S4K3WQ
