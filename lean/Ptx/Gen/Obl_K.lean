/- GENERATED: instance obligations for one logic, discharged by kernel evaluation.
   `S` = the logic with its DOCUMENTED tables (Ptx/Sem/Spec.lean); rules, closure, trunk and frames
   are what the translator read off the code.  `X ⊆ known`: every failing row is a committed
   known finding (Ptx/Gen/Known.lean, generated from known_findings.json). -/
import Ptx.Gen.L_K
import Ptx.Gen.Known
import Ptx.Sem.Subset
import Ptx.Props.C03
import Ptx.Gen.L_CFOL
namespace Ptx.Gen.Obl.K
open Ptx

/-- a modal / first-order extension has exactly the truth-functional tables of its base (CFOL) -/
theorem base_tables : Gen.K.tables.sameTF Gen.CFOL.tables = true := by decide +kernel
theorem spec_defined : Gen.K.specDefinedB = true := by decide +kernel
theorem tables_spec : subsetB Gen.K.tableDiff (Known.tableDiff "K") = true := by decide +kernel
theorem defined_ops : Gen.K.tables.definedOpsBad = [] := by decide +kernel
theorem tables_total : Gen.K.sem.tablesTotalB = true := by decide +kernel
theorem rules_exact : subsetB Gen.K.sem.badRules (Known.badRules "K") = true := by decide +kernel
theorem rules_sound : subsetB Gen.K.sem.unsoundRules (Known.unsoundRules "K") = true := by decide +kernel
theorem rules_total : subsetB Gen.K.sem.missingRules (Known.missingRules "K") = true := by decide +kernel
theorem rules_local : Gen.K.sem.nonLocalRules = [] := by decide +kernel
theorem closure_total : Gen.K.sem.closureTotalB = true := by decide +kernel
theorem closure_exact : subsetB Gen.K.sem.badClosure (Known.badClosure "K") = true := by decide +kernel
theorem read_total : Gen.K.sem.readTotalB = true := by decide +kernel
theorem read_exact : subsetB Gen.K.sem.badRead (Known.badRead "K") = true := by decide +kernel
theorem sound_core : Gen.K.sem.soundCoreB = true := by decide +kernel

/-- C01 for this logic: a closed tableau reached by any legal derivation has no countermodel. -/
theorem c01_valid_sound (arg : Argument) (t : Tableau)
    (hd : Deriv Gen.K.sem.soundPart (trunk Gen.K.sem arg) t) (hclosed : t.allClosed = true)
    (M : Struct) (hM : M.Interp Gen.K.sem) (e : Env M.D) (w0 : M.W) : ¬ Countermodel Gen.K.sem M e w0 arg :=
  Props.C01.C01_valid_sound Gen.K.sem sound_core arg t hd hclosed M hM e w0

/-- C03 (soundness half) for this logic: a closed tableau of a propositional argument is truth-table valid. -/
theorem c03_closed_tt (arg : Argument) (hp : arg.isProp = true) (t : Tableau)
    (hd : Deriv Gen.K.sem.soundPart (trunk Gen.K.sem arg) t) (hclosed : t.allClosed = true) : ttValid Gen.K.sem.T arg = true :=
  Props.C03.C03_closed_implies_ttValid Gen.K.sem sound_core (by decide +kernel) arg hp t hd hclosed

end Ptx.Gen.Obl.K
