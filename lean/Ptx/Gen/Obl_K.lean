/- GENERATED: instance obligations for one logic, discharged by kernel evaluation.
   `X ⊆ known`: every failing row is a committed known finding (Ptx/Gen/Known.lean). -/
import Ptx.Gen.L_K
import Ptx.Gen.Known
import Ptx.Sem.Subset
namespace Ptx.Gen.Obl.K
open Ptx

theorem tables_total : Gen.K.tablesTotalB = true := by decide +kernel
theorem rules_exact : subsetB Gen.K.badRules (Known.badRules "K") = true := by decide +kernel
theorem rules_sound : subsetB Gen.K.unsoundRules (Known.unsoundRules "K") = true := by decide +kernel
theorem rules_total : subsetB Gen.K.missingRules (Known.missingRules "K") = true := by decide +kernel
theorem rules_local : Gen.K.nonLocalRules = [] := by decide +kernel
theorem closure_total : Gen.K.closureTotalB = true := by decide +kernel
theorem closure_exact : subsetB Gen.K.badClosure (Known.badClosure "K") = true := by decide +kernel
theorem read_total : Gen.K.readTotalB = true := by decide +kernel
theorem read_exact : subsetB Gen.K.badRead (Known.badRead "K") = true := by decide +kernel

end Ptx.Gen.Obl.K
