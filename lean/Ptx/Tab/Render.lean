/-
  Ptx.Tab.Render — the PLAIN-TEXT tableau writer of pytableaux as an executable model.
  Core Lean only (compiled into the driver).

  Python side mirrored, line by line:

    proof/writers/__init__.py   TabWriter.__init__: `lw = LexWriter(notation, format='text', strings, **opts)`
                                (the writer options drop_parens / identity_infix / max_infix / dialect go
                                to the LexWriter; `format='text'` selects the string table
                                `('text', notation, dialect or 'text')`)
    proof/writers/jinja.py      TextTabWriter.__call__  = `_write_structure(tab.tree, template)`
                                TextTabWriter._write_structure (l.80-94)         -> `write` / `writeKids`
    proof/writers/templates/text/nodes.jinja2
        macro nw(node)                                                          -> `nodeStr`
        `'-- ' if structure.depth`, the node loop, `' .' if structure.children` -> `segStr`

  `TabWriter('text', …)` resolves to the jinja `TextTabWriter` (registry `default` is updated from the
  jinja registry; the doctree `TextTabWriter` in writers/doctree/text.py is never registered), so the
  doctree text translator is NOT on the path of the text format and is not modelled.

  The template is attribute driven (`node.has('sentence')`, `node.designated`, `node.flag == 'closure'`,
  …); a node is therefore modelled as the record of the attributes the template reads (`RNode`), not as
  a class hierarchy.  The literal marks of the template (`' w'`, `' [+]'`, `'(x)'`, `'; '`, `'-- '`,
  `' .'` …) are DATA (`Marks`): the concrete record `Ptx.Gen.RenderMarks.textMarks` is regenerated on
  every run by probing the real template with one node of each kind (harness/props/c19.py), so a
  changed template changes the data the theorems are instantiated with.  The three layout characters
  of `_write_structure` (`' '`, `'|'`, `'\n'`) are Python source constants and are transcribed here.

  A string is a list of code points (`Chr = Nat`), as in Ptx.Lang.Symbols.

  Not modelled: Jinja2 itself (whitespace control of the template is taken as what the probe observes),
  `str(int)` raising for ints of more than 4300 digits (worlds are small), html / latex writers.
-/
import Ptx.Lang.Write
import Ptx.Lang.ParseWF
namespace Ptx.Render
open Ptx Ptx.Sym Ptx.Write

/-! ### the sentence writer the tableau writer is constructed with -/

/-- `LexWriter(notation, …, **opts)`: the notation and, for the standard writer, its options -/
inductive Notn where
  | polish
  | standard (o : StdOpts)
  deriving DecidableEq, Repr, Inhabited

/-- `lw(sentence)` -/
def writeSent (tb : StringTable) : Notn → Sent → List Chr
  | .polish, s => writePolish tb s
  | .standard o, s => writeStandard tb o s

/-- `str(n)` for a non-negative int -/
def decStr (n : Nat) : List Chr := (decDigits n).map digitChr

/-! ### nodes and tree structures, as the template sees them -/

/-- `node.flag`: the template only compares with `'closure'` -/
inductive Flag where
  | closure
  | quit          -- any other flag name (the library has `quit` only)
  deriving DecidableEq, Repr, Inhabited

/-- the node attributes read by `nodes.jinja2` -/
structure RNode where
  sentence : Option Sent := none       -- `node.has('sentence')` / `node.sentence`
  world : Option Nat := none           -- `node.has('world')` / `node.world`
  designated : Option Bool := none     -- `node.designated` (None / missing = `none`)
  world1 : Option Nat := none
  world2 : Option Nat := none
  ellipsis : Bool := false             -- `node.has('ellipsis')`
  ticked : Bool := false               -- `node.ticked` (slot set by `Branch.tick`; unset = falsy)
  flag : Option Flag := none
  deriving DecidableEq, Repr, Inhabited

namespace RNode
def isClosure (n : RNode) : Bool := n.flag == some .closure

/-- the node classes of proof/common.py -/
def sent (s : Sent) (d : Option Bool := none) (w : Option Nat := none) (ticked := false) : RNode :=
  { sentence := some s, designated := d, world := w, ticked := ticked }
def access (w1 w2 : Nat) (ticked := false) : RNode := { world1 := some w1, world2 := some w2, ticked := ticked }
def ellipsisNode : RNode := { ellipsis := true }
def closureNode : RNode := { flag := some .closure }
def quitNode : RNode := { flag := some .quit }
end RNode

/-- `Tableau.Tree`, restricted to what the writer reads (`depth`, `nodes`, `children`) plus the leaf
    attribute `closed` the property talks about (the writer does not read it). -/
inductive RTree where
  | mk (depth : Nat) (nodes : List RNode) (children : List RTree) (closed : Bool)
  deriving Repr, Inhabited

/-- a tree of strings, one per structure -/
inductive SegTree where
  | mk (seg : List Chr) (children : List SegTree)
  deriving Repr, Inhabited

/-! ### marks -/

/-- the string literals of `nodes.jinja2` -/
structure Marks where
  world : List Chr        -- `' w'`
  desT : List Chr         -- `' [+]'`
  desF : List Chr         -- `' [-]'`
  acc1 : List Chr         -- `'w'`
  acc2 : List Chr         -- `'Rw'`
  ellipsis : List Chr     -- `' ...'`
  tick : List Chr         -- `' *'`
  closure : List Chr      -- `'(x)'`
  sep : List Chr          -- `'; '`
  child : List Chr        -- `'-- '`
  fork : List Chr         -- `' .'`
  deriving DecidableEq, Repr, Inhabited

/-- layout characters of `_write_structure` -/
def chSpace : Chr := 32
def chBar : Chr := 124
def chNl : Chr := 10

/-! ### the node macro -/

def optStr {α} (o : Option α) (f : α → List Chr) : List Chr :=
  match o with
  | some a => f a
  | none => []

/-- macro `nw(node)` without its last line: everything before the terminator -/
def nodeBody (m : Marks) (lw : Sent → List Chr) (n : RNode) : List Chr :=
  optStr n.sentence lw ++
  optStr n.world (fun w => m.world ++ decStr w) ++
  (if n.designated = some true then m.desT else []) ++
  (if n.designated = some false then m.desF else []) ++
  (match n.world1, n.world2 with
   | some a, some b => m.acc1 ++ decStr a ++ m.acc2 ++ decStr b
   | _, _ => []) ++
  (if n.ellipsis then m.ellipsis else []) ++
  (if n.ticked then m.tick else [])

/-- `'(x)' if node.flag == 'closure' else '; '` -/
def nodeTerm (m : Marks) (n : RNode) : List Chr :=
  if n.isClosure then m.closure else m.sep

/-- macro `nw(node)` -/
def nodeStr (m : Marks) (lw : Sent → List Chr) (n : RNode) : List Chr :=
  nodeBody m lw n ++ nodeTerm m n

/-- `template.render(structure = s)` -/
def segStr (m : Marks) (lw : Sent → List Chr) (depth : Nat) (nodes : List RNode) (hasKids : Bool) : List Chr :=
  (if depth ≠ 0 then m.child else []) ++ nodes.flatMap (nodeStr m lw) ++ (if hasKids then m.fork else [])

/-! ### `_write_structure` -/

/-- `'\n'.join(lines)` -/
def joinNl : List (List Chr) → List Chr
  | [] => []
  | [x] => x
  | x :: y :: r => x ++ chNl :: joinNl (y :: r)

mutual
/-- `_write_structure(s, template, prefix=pfx)` -/
def write (m : Marks) (lw : Sent → List Chr) (pfx : List Chr) : RTree → List Chr
  | .mk d ns cs _ =>
    let nodestr := segStr m lw d ns (!cs.isEmpty)
    -- prefix += ' ' * (len(nodestr) - 1)      (a negative count gives '')
    let pfx' := pfx ++ List.replicate (nodestr.length - 1) chSpace
    joinNl ((pfx ++ nodestr) :: writeKids m lw pfx' cs)
/-- the entries the `for c, child in enumerate(s.children)` loop appends to `lines` -/
def writeKids (m : Marks) (lw : Sent → List Chr) (pfx' : List Chr) : List RTree → List (List Chr)
  | [] => []
  | c :: r =>
    if r.isEmpty then [write m lw (pfx' ++ [chSpace]) c]                     -- is_last
    else write m lw (pfx' ++ [chBar]) c :: (pfx' ++ [chBar]) :: writeKids m lw pfx' r
end

/-- `TabWriter('text', notation, **opts)(tab)` on `tab.tree` -/
def renderText (m : Marks) (tb : StringTable) (nt : Notn) (t : RTree) : List Chr :=
  write m (writeSent tb nt) [] t

/-! ### what a tree IS, independently of how it is written: its branches -/

namespace RTree
def depth : RTree → Nat | .mk d _ _ _ => d
def nodes : RTree → List RNode | .mk _ ns _ _ => ns
def children : RTree → List RTree | .mk _ _ cs _ => cs
def closed : RTree → Bool | .mk _ _ _ c => c

mutual
/-- every root-to-leaf path: the nodes on it in branch order, and the leaf's `closed` attribute -/
def branches : RTree → List (List RNode × Bool)
  | .mk _ ns cs cl =>
    match cs with
    | [] => [(ns, cl)]
    | _ :: _ => (branchesL cs).map fun b => (ns ++ b.1, b.2)
def branchesL : List RTree → List (List RNode × Bool)
  | [] => []
  | c :: r => branches c ++ branchesL r
end

mutual
/-- number of structures -/
def size : RTree → Nat
  | .mk _ _ cs _ => 1 + sizeL cs
def sizeL : List RTree → Nat
  | [] => 0
  | c :: r => size c + sizeL r
end

mutual
/-- what `Tableau.Tree._build` guarantees about depths: only the root structure has depth 0 -/
def depthsOK (root : Bool) : RTree → Bool
  | .mk d _ cs _ => (if root then d == 0 else d != 0) && depthsOKL cs
def depthsOKL : List RTree → Bool
  | [] => true
  | c :: r => depthsOK false c && depthsOKL r
end

/-- a node list in which a closure flag node can only be the last one, and is a bare flag node -/
def closureLast : List RNode → Bool
  | [] => true
  | [n] => !n.isClosure || n == RNode.closureNode
  | n :: r => !n.isClosure && closureLast r

mutual
/-- what a tableau guarantees about closure nodes: `Branch.close()` appends the bare closure node as the
    last node of a branch, exactly on the closed branches — so it is the last node of a leaf structure
    whose `closed` attribute is true, and occurs nowhere else -/
def closureOK : RTree → Bool
  | .mk _ ns cs cl =>
    match cs with
    | [] => closureLast ns && (cl == (ns.getLast?.map RNode.isClosure).getD false)
    | _ :: _ => ns.all (fun n => !n.isClosure) && closureOKL cs
def closureOKL : List RTree → Bool
  | [] => true
  | c :: r => closureOK c && closureOKL r
end

mutual
/-- the tree of segment strings (`template.render(structure = s)` of every structure) -/
def segTree (m : Marks) (lw : Sent → List Chr) : RTree → SegTree
  | .mk d ns cs _ => .mk (segStr m lw d ns (!cs.isEmpty)) (segTreeL m lw cs)
def segTreeL (m : Marks) (lw : Sent → List Chr) : List RTree → List SegTree
  | [] => []
  | c :: r => segTree m lw c :: segTreeL m lw r
end

/-- well-formedness of a finished tableau's tree, as far as the text writer is concerned -/
def WF (t : RTree) : Bool := depthsOK true t && closureOK t

end RTree

/-! ### vocabulary of the node-level injectivity statement (C19_render_injective) -/

/-- a node as the classes of proof/common.py build them, as far as the template can tell: access worlds come
    in pairs, the sentence is constructible (arities applied exactly, indexes within the maxima), a quit flag
    sits on the bare flag node only, and the node is not the empty attribute record (which the template writes
    like the quit-flag node).  The driver evaluates it on every real tree. -/
def RNode.regular (mx : MaxIdx) (n : RNode) : Bool :=
  (n.world1.isSome == n.world2.isSome) &&
  (match n.sentence with | some s => Parse.arityOK s && Parse.indexOK mx s | none => true) &&
  (n.flag != some .quit || n == RNode.quitNode) && n != {}

mutual
/-- every node of the tree satisfies `p` -/
def RTree.allNodes (p : RNode → Bool) : RTree → Bool
  | .mk _ ns cs _ => ns.all p && RTree.allNodesL p cs
def RTree.allNodesL (p : RNode → Bool) : List RTree → Bool
  | [] => true
  | c :: r => RTree.allNodes p c && RTree.allNodesL p r
end

end Ptx.Render
