/-
  Ptx.Tab.Structural — decidable side condition of C10's reflexivity law: on the regenerated
  closure table, every set of literal constraints that contains BOTH trunk constraints of one
  sentence (as a premise, and as the conclusion) closes.  Core Lean only.
-/
import Ptx.Tab.Calculus
namespace Ptx
namespace LogicData

/-- the literal constraint a premise `s` puts on `s` -/
def trunkPremLit (L : LogicData) : Lit := ⟨false, L.trunkPrem⟩
/-- the literal constraint the conclusion `s` puts on `s` -/
def trunkConcLit (L : LogicData) : Lit := ⟨L.trunkConcNeg, L.trunkConc⟩

/-- both trunk literals are literals of the logic, and every literal set containing both closes -/
def closesTrunkPairB (L : LogicData) : Bool :=
  L.allLits.contains L.trunkPremLit && L.allLits.contains L.trunkConcLit &&
  (sublists L.allLits).all fun S =>
    !(S.contains L.trunkPremLit && S.contains L.trunkConcLit) || L.closure.lookup S == some true

end LogicData
end Ptx
