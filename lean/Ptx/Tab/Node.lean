/-
  Ptx.Tab.Node — tableau nodes (proof/common.py Node subclasses) as data.
    SentenceNode / SentenceWorldNode / SentenceDesignationNode / SentenceDesignationWorldNode -> sent
    AccessNode -> access, FlagNode (ClosureNode, QuitFlagNode) -> flag, EllipsisNode -> ellipsis
  Core Lean only.
-/
import Ptx.Lang.Syntax
import Ptx.Wire
namespace Ptx

inductive Node where
  | sent (s : Sent) (d : Option Bool) (w : Option Nat)
  | access (w1 w2 : Nat)
  | flag (name : String)
  | ellipsis
  deriving DecidableEq, Repr, Inhabited

namespace Node
def isClosure : Node → Bool
  | flag n => n == "closure"
  | _ => false

/-- worlds mentioned by a node (Node.worlds()) -/
def worlds : Node → List Nat
  | sent _ _ (some w) => [w]
  | access a b => [a, b]
  | _ => []

/-- the world labels a node is *about* for the semantics: a sentence node without world sits at label 0 -/
def worldsSem : Node → List Nat
  | sent _ _ (some w) => [w]
  | sent _ _ none => [0]
  | access a b => [a, b]
  | _ => []

/-- wire: n <sent> +|-|_ <w>|_   /  r w1 w2  /  f <name>  /  e  -/
def parse (ts : Wire.Toks) : Option (Node × Wire.Toks) :=
  match ts with
  | "n" :: r => do
    let (s, r) ← Wire.parseSent r
    match r with
    | d :: w :: r =>
      let d? : Option (Option Bool) := match d with
        | "+" => some (some true) | "-" => some (some false) | "_" => some none | _ => none
      let w? : Option (Option Nat) := if w == "_" then some none else (w.toNat?).map some
      do some (.sent s (← d?) (← w?), r)
    | _ => none
  | "r" :: a :: b :: r => do some (.access (← a.toNat?) (← b.toNat?), r)
  | "f" :: n :: r => some (.flag n, r)
  | "e" :: r => some (.ellipsis, r)
  | _ => none

def toWire : Node → String
  | sent s d w => "n " ++ Wire.showSent s ++ " " ++
      (match d with | none => "_" | some true => "+" | some false => "-") ++ " " ++
      (match w with | none => "_" | some w => toString w)
  | access a b => s!"r {a} {b}"
  | flag n => s!"f {n}"
  | ellipsis => "e"
end Node
end Ptx
