/-
  Ptx.Tab.Measure — the per-logic node WEIGHT: a well-founded measure on tableau nodes that
  strictly decreases from a node to every sentence node its rule adds (C02: induction of the
  Hintikka lemma; C03: termination on the propositional fragment).

  In several logics the added sentences are not subformulas of the target (reducing rules
  `A↔B ↦ (A→B)∧(B→A)`, `A⊃B ↦ ¬A∨B`; GO's flipping rules `A∧B undesignated ↦ ¬(A∧B) designated`;
  P3's / G3's double negation), so the weight is linear with PER-LOGIC coefficients and sees the
  designation marker:

      ω(atom) = ω(predication) = 1
      ω(o A) = a1 o · ω A + b1 o        ω(A o B) = a2 o · (ω A + ω B) + b2 o
      ω(Qx φ) = aq Q · ω φ + bq Q       weight of node (s, d) = ω s + dl d

  The coefficients are found by the translator (harness/extract/weights.py, relaxation) and
  written to Ptx/Gen/Weights.lean; here they are merely CHECKED: `LogicData.measureOKOnB p W`
  abstracts every rule template to a polynomial `cx·x + cy·y + c0` in x = ω(first operand /
  instantiated body), y = ω(second operand) and compares it with the polynomial of the target
  node.  The meaning of the check is `weight_decreases` in Ptx/Proofs/Measure.lean.
  Executable, core Lean only.
-/
import Ptx.Sem.Logic
namespace Ptx

structure Weights where
  /-- multiplicative coefficient / additive constant of a unary operator -/
  a1 : Op1 → Nat
  b1 : Op1 → Nat
  a2 : Op2 → Nat
  b2 : Op2 → Nat
  aq : Quant → Nat
  bq : Quant → Nat
  /-- weight of the designation marker -/
  dl : Option Bool → Nat

namespace Weights

/-- sentence weight -/
def ω (W : Weights) : Sent → Nat
  | .atom _ _ => 1
  | .pred _ _ => 1
  | .quant q _ _ b => W.aq q * W.ω b + W.bq q
  | .op1 o a => W.a1 o * W.ω a + W.b1 o
  | .op2 o a b => W.a2 o * (W.ω a + W.ω b) + W.b2 o

variable (W : Weights)

/-- node weight: sentence weight plus the weight of the designation marker -/
def node (s : Sent) (d : Option Bool) : Nat := W.ω s + W.dl d

/-- every operator contributes: `a + b > 0`, which is what makes `ω s ≥ 1` for every sentence -/
def posB : Bool :=
  Op1.all.all (fun o => 0 < W.a1 o + W.b1 o) && Op2.all.all (fun o => 0 < W.a2 o + W.b2 o)
    && Quant.all.all (fun q => 0 < W.aq q + W.bq q)
end Weights

/-- a polynomial `cx·x + cy·y + c0`, linear in x = ω(first operand), y = ω(second operand) -/
structure Lin where
  cx : Nat
  cy : Nat
  c0 : Nat
  deriving DecidableEq, Repr, Inhabited

namespace Lin
def eval (p : Lin) (x y : Nat) : Nat := p.cx * x + p.cy * y + p.c0
/-- `a · p + b` -/
def scale (a b : Nat) (p : Lin) : Lin := ⟨a * p.cx, a * p.cy, a * p.c0 + b⟩
def add (p q : Lin) : Lin := ⟨p.cx + q.cx, p.cy + q.cy, p.c0 + q.c0⟩
/-- `p(x,y) + dp < q(x,y) + dq` for ALL x, y ≥ 1: no coefficient grows, and the inequality holds
    at x = y = 1  (for polynomials of this form the condition is also necessary) -/
def ltB (p : Lin) (dp : Nat) (q : Lin) (dq : Nat) : Bool :=
  decide (p.cx ≤ q.cx) && decide (p.cy ≤ q.cy)
    && decide (p.cx + p.cy + p.c0 + dp < q.cx + q.cy + q.c0 + dq)
end Lin

namespace Weights
variable (W : Weights)

/-- the compound of a shape: `o A`, `A o B`, `Qx φ` -/
def shapeLin : Shape → Lin
  | .op1 o => ⟨W.a1 o, 0, W.b1 o⟩
  | .op2 o => ⟨W.a2 o, W.a2 o, W.b2 o⟩
  | .quant q => ⟨W.aq q, 0, W.bq q⟩

/-- the sentence of the target node of a rule key: the compound, negated or not -/
def keyLin (k : RuleKey) : Lin :=
  if k.negated then (W.shapeLin k.shape).scale (W.a1 .neg) (W.b1 .neg) else W.shapeLin k.shape

/-- a template, given the polynomial `wl` of `whole`.  `lhs` (first operand; for quantifier rules
    the instantiated body) and `raw` (the un-instantiated body, under `bind`) both weigh `x`:
    substituting a constant for a variable does not change ω. -/
def tmLin (W : Weights) (wl : Lin) : Tm → Lin
  | .lhs => ⟨1, 0, 0⟩
  | .rhs => ⟨0, 1, 0⟩
  | .whole => wl
  | .raw => ⟨1, 0, 0⟩
  | .bind q t => (W.tmLin wl t).scale (W.aq q) (W.bq q)
  | .op1 o t => (W.tmLin wl t).scale (W.a1 o) (W.b1 o)
  | .op2 o t u => ((W.tmLin wl t).add (W.tmLin wl u)).scale (W.a2 o) (W.b2 o)

/-- one added node weighs strictly less than the target node of key `k`, for all x, y ≥ 1.
    Access nodes / flags have no weight. -/
def addOKB (k : RuleKey) : AddT → Bool
  | .node n => (W.tmLin (W.shapeLin k.shape) n.tm).ltB (W.dl n.des) (W.keyLin k) (W.dl k.des)
  | .access => true

/-- a constant witness instantiates the body of a QUANTIFIED compound (on any other compound
    `lhs` would stand for the compound itself) -/
def witnessOKB (k : RuleKey) (r : Rule) : Bool :=
  match r.witness with
  | .newConst | .eachConst => (match k.shape with | .quant _ => true | _ => false)
  | _ => true

def ruleOKB (k : RuleKey) (r : Rule) : Bool :=
  witnessOKB k r && r.branches.all fun br => br.all (W.addOKB k)
end Weights

def listMax : List Nat → Nat
  | [] => 0
  | x :: xs => max x (listMax xs)

/-- a template built from the operands / the compound with truth-functional operators only -/
def Tm.isTFB : Tm → Bool
  | .lhs => true
  | .rhs => true
  | .whole => true
  | .raw => false
  | .bind _ _ => false
  | .op1 o t => !o.isModal && t.isTFB
  | .op2 _ t u => t.isTFB && u.isTFB

/-- fragments of the rule table -/
def RuleKey.isTF (k : RuleKey) : Bool :=
  match k.shape with
  | .op1 o => !o.isModal
  | .op2 _ => true
  | .quant _ => false
def RuleKey.notQuant (k : RuleKey) : Bool :=
  match k.shape with
  | .quant _ => false
  | _ => true

namespace LogicData
variable (L : LogicData)

/-- every rule row whose key satisfies `p`: every added sentence node of every branch weighs
    strictly less than the row's target node (coefficient-wise, hence for all operand weights ≥ 1) -/
def measureOKOnB (p : RuleKey → Bool) (W : Weights) : Bool :=
  W.posB && L.rules.all fun (k, r) => !p k || W.ruleOKB k r

/-- … for every row of the table -/
def measureOKB (W : Weights) : Bool := L.measureOKOnB (fun _ => true) W

/-- the rows (within `p`) that violate the condition — for reports -/
def measureBad (p : RuleKey → Bool) (W : Weights) : List RuleKey :=
  (L.rules.filter fun (k, r) => p k && !W.ruleOKB k r).map (·.1)

/-- largest number of branches of a rule (at least 1): the `K` of the tableau measure of C03 -/
def maxBranching : Nat := max 1 (listMax (L.rules.map fun (_, r) => r.branches.length))

/-- largest number of nodes one branch of a rule adds -/
def maxGroup : Nat := listMax (L.rules.flatMap fun (_, r) => r.branches.map List.length)

/-- the truth-functional rows stay inside the propositional fragment and consume their target:
    they tick, need no witness, add only sentence nodes at the node's own world, built from the
    operands / the compound with truth-functional operators -/
def tfRowsOKB : Bool :=
  L.rules.all fun (k, r) => !k.isTF ||
    (r.ticks && r.witness == .none && r.branches.all fun br => br.all fun
      | .node n => n.tm.isTFB && !n.other
      | .access => false)
end LogicData

end Ptx
